import JmesVerif.Model.Lexer
/-
The dispatch of `Lexer::tokenize` (`match ch { … }` in lexer.rs) as a TABLE: which action each first character triggers.
`Generated/LexTable.lean` holds the table re-extracted from the source on every run; `lexArmsDoc` below is the hand-written copy
the lexer model is proved to follow (`Lemmas/LexTable.lean`: `lexOne_eq_table`); `Props/C03` proves (`decide`) that the two tables have
the same (range, action) entries up to order and grouping, the ranges being pairwise disjoint — hence the same dispatch
(`Lemmas/LexTablePerm.lean`: `actOf_perm_of_flat`).
-/
namespace JmesVerif

/-- what one arm of the `match ch` does (token names are the Rust constructor names) -/
inductive LexAct
  | single (tok : String)                     -- `tokens.push_back((pos, Tok))`
  | alt (next : Char) (yes no : String)       -- `self.alt(next, Yes, No)`: `Yes` if the next character is `next` (consumed), else `No`
  | call (helper : String)                    -- `self.consume_…(…)`
  | eqeq                                      -- `'='`: the next character must be `'='` (token `Eq`), else an error
  | skip                                      -- whitespace
  | invalid                                   -- the default arm: "Invalid character"
  deriving DecidableEq, Repr, Inhabited

/-- an arm: the character ranges of its pattern (inclusive) and its action -/
abbrev LexArm := List (Char × Char) × LexAct

def LexArm.covers (a : LexArm) (c : Char) : Bool := a.1.any fun r => r.1 ≤ c && c ≤ r.2

/-- first matching arm, `invalid` when none matches (Rust's `match` takes the first arm that fits) -/
def actOf (table : List LexArm) (c : Char) : LexAct :=
  match table.find? (·.covers c) with
  | some a => a.2
  | none => .invalid

/-- the documented dispatch table of `Lexer::tokenize` -/
def lexArmsDoc : List LexArm := [
  ([('a', 'z'), ('A', 'Z'), ('_', '_')], .call "consume_identifier"),
  ([('.', '.')], .single "Dot"),
  ([('[', '[')], .call "consume_lbracket"),
  ([('*', '*')], .single "Star"),
  ([('|', '|')], .alt '|' "Or" "Pipe"),
  ([('@', '@')], .single "At"),
  ([(']', ']')], .single "Rbracket"),
  ([('{', '{')], .single "Lbrace"),
  ([('}', '}')], .single "Rbrace"),
  ([('&', '&')], .alt '&' "And" "Ampersand"),
  ([('(', '(')], .single "Lparen"),
  ([(')', ')')], .single "Rparen"),
  ([(',', ',')], .single "Comma"),
  ([(':', ':')], .single "Colon"),
  ([('"', '"')], .call "consume_quoted_identifier"),
  ([('\'', '\'')], .call "consume_raw_string"),
  ([('`', '`')], .call "consume_literal"),
  ([('=', '=')], .eqeq),
  ([('>', '>')], .alt '=' "Gte" "Gt"),
  ([('<', '<')], .alt '=' "Lte" "Lt"),
  ([('!', '!')], .alt '=' "Ne" "Not"),
  ([('0', '9')], .call "consume_number"),
  ([('-', '-')], .call "consume_negative_number"),
  ([(' ', ' '), ('\n', '\n'), ('\t', '\t'), ('\r', '\r')], .skip)]

/-- `consume_lbracket`: the characters that extend `[` and the tokens they give; otherwise `Lbracket` -/
def lbracketAltsDoc : List (Char × String) := [(']', "Flatten"), ('?', "Filter")]

/-- payload-free tokens by their Rust constructor name -/
def tokOfName : String → Option Tok
  | "Dot" => some .dot | "Star" => some .star | "Flatten" => some .flatten | "And" => some .and | "Or" => some .or | "Pipe" => some .pipe
  | "Filter" => some .filter | "Lbracket" => some .lbracket | "Rbracket" => some .rbracket | "Comma" => some .comma | "Colon" => some .colon
  | "Not" => some .not | "Ne" => some .ne | "Eq" => some .eq | "Gt" => some .gt | "Gte" => some .gte | "Lt" => some .lt | "Lte" => some .lte
  | "At" => some .at | "Ampersand" => some .ampersand | "Lparen" => some .lparen | "Rparen" => some .rparen | "Lbrace" => some .lbrace
  | "Rbrace" => some .rbrace | _ => none

namespace Lexer

/-- the helpers, as the model has them (the bodies are the corresponding branches of `lexOne`) -/
def runCall (helper : String) (pos : Nat) (c : Char) (cs : List Char) : Except LexErr (Option Tok × List Char) :=
  match helper with
  | "consume_identifier" =>
    let (a, r) := takeWhile isIdChar cs
    .ok (some (.identifier (String.ofList (c :: a))), r)
  | "consume_lbracket" =>
    match cs with
    | ']' :: r => .ok (some .flatten, r)
    | '?' :: r => .ok (some .filter, r)
    | _ => .ok (some .lbracket, cs)
  | "consume_quoted_identifier" =>
    match consumeInside '"' cs [] with
    | none => .error ⟨pos, .unclosed⟩
    | some (buf, r) =>
      match JsonText.parse ('"' :: buf ++ ['"']) with
      | some (.str s) => .ok (some (.quotedIdentifier s), r)
      | _ => .error ⟨pos, .quoted⟩
  | "consume_raw_string" =>
    match consumeInside '\'' cs [] with
    | none => .error ⟨pos, .unclosed⟩
    | some (buf, r) => .ok (some (.literal (.str (String.ofList (unescape '\'' buf)))), r)
  | "consume_literal" =>
    match consumeInside '`' cs [] with
    | none => .error ⟨pos, .unclosed⟩
    | some (buf, r) =>
      match JsonText.parse (unescape '`' buf) with
      | some v => .ok (some (.literal v), r)
      | none => .error ⟨pos, .literal⟩
  | "consume_number" =>
    let (a, r) := takeWhile isDigit cs
    let v := digitsVal (c :: a)
    if v ≤ 2147483647 then .ok (some (.number v), r) else .error ⟨pos, .number⟩
  | "consume_negative_number" =>
    match cs with
    | d :: cs' =>
      if '1' ≤ d && d ≤ '9' then
        let (a, r) := takeWhile isDigit cs'
        let v := digitsVal (d :: a)
        if v ≤ 2147483647 then .ok (some (.number (-(v : Int))), r) else .error ⟨pos, .number⟩
      else .error ⟨pos, .minus⟩
    | [] => .error ⟨pos, .minus⟩
  | _ => .error ⟨pos, .invalidChar⟩

/-- what an action does on the text after the dispatching character -/
def runAct (act : LexAct) (pos : Nat) (c : Char) (cs : List Char) : Except LexErr (Option Tok × List Char) :=
  match act with
  | .single name =>
    match tokOfName name with
    | some t => .ok (some t, cs)
    | none => .error ⟨pos, .invalidChar⟩
  | .alt nx yes no =>
    match tokOfName yes, tokOfName no with
    | some ty, some tn =>
      match cs with
      | d :: r => if d = nx then .ok (some ty, r) else .ok (some tn, cs)
      | [] => .ok (some tn, cs)
    | _, _ => .error ⟨pos, .invalidChar⟩
  | .call h => runCall h pos c cs
  | .eqeq =>
    match cs with
    | '=' :: r => .ok (some .eq, r)
    | _ => .error ⟨pos, .loneEq⟩
  | .skip => .ok (none, cs)
  | .invalid => .error ⟨pos, .invalidChar⟩

end Lexer
end JmesVerif
