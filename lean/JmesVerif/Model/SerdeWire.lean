import JmesVerif.Model.Serde
import JmesVerif.Model.Encode
/-
Wire format of the `serde` correspondence stream (notes/serde-protocol.md): decoding of `SVAL`,
the table of the 33 concrete Rust types of the harness as `Shape`s, and the `DBG` rendering of
typed results.  Protocol code only: no theorem depends on it.
-/
namespace JmesVerif
namespace SerdeWire

def f32BitsToF64 (b : Nat) : F64 :=
  let s := decide (b / 2 ^ 31 % 2 = 1)
  let ex := b / 8388608 % 256
  let fr := b % 8388608
  if ex = 255 then (if fr = 0 then .inf s else .nan)
  else if ex = 0 then
    (if fr = 0 then .fin s 0 (-1074) else F64.ofRatSigned s ((if s then -1 else 1) * (fr : Rat) * F64.pow2 (-149)))
  else F64.ofRatSigned s ((if s then -1 else 1) * ((fr + 8388608 : Nat) : Rat) * F64.pow2 ((ex : Int) - 150))

/-- the f32 bit pattern of a double that is exactly representable as f32 (or inf/nan) -/
def f64ToF32Bits (x : F64) : Nat :=
  match x with
  | .nan => 0x7fc00000
  | .inf s => (if s then 2 ^ 31 else 0) + 0x7f800000
  | .fin s m e =>
    let sign := if s then 2 ^ 31 else 0
    if m = 0 then sign else
    -- normalise to 24 bits: value = m * 2^e
    let q : Rat := (m : Rat) * F64.pow2 e
    let k := F64.ilog2 q            -- 2^k ≤ q < 2^(k+1)
    if k < -126 then
      sign + ((q / F64.pow2 (-149)).floor).toNat
    else
      let mant := ((q / F64.pow2 (k - 23)).floor).toNat      -- in [2^23, 2^24)
      sign + ((k + 127).toNat) * 8388608 + (mant - 8388608)

def splitTag (t : String) : String × String :=
  match t.splitOn ":" with
  | [a, b] => (a, b)
  | _ => (t, "")

def hexList (s : String) : List Nat :=
  (Enc.unhexBytes s.toList).map (·.toNat)

partial def decSVal : List String → Option (SVal × List String)
  | [] => none
  | "none" :: r => some (.none, r)
  | "unit" :: r => some (.unit, r)
  | "(" :: kind :: r =>
    let rec many (r : List String) (acc : List SVal) : Option (List SVal × List String) :=
      match r with
      | ")" :: r => some (acc.reverse, r)
      | _ => match decSVal r with
        | some (v, r) => many r (v :: acc)
        | none => none
    let rec fields (r : List String) (acc : List (String × SVal)) : Option (List (String × SVal) × List String) :=
      match r with
      | ")" :: r => some (acc.reverse, r)
      | f :: r => match decSVal r with
        | some (v, r) => fields r ((Enc.unhexStr f, v) :: acc)
        | none => none
      | [] => none
    let rec pairs (r : List String) (acc : List (SVal × SVal)) : Option (List (SVal × SVal) × List String) :=
      match r with
      | ")" :: r => some (acc.reverse, r)
      | _ => match decSVal r with
        | some (k, r) => match decSVal r with
          | some (v, r) => pairs r ((k, v) :: acc)
          | none => none
        | none => none
    match kind with
    | "some" => match decSVal r with
      | some (v, ")" :: r) => some (.some v, r)
      | _ => none
    | "ustruct" => match r with
      | _ :: ")" :: r => some (.unitStruct, r)
      | _ => none
    | "uvar" => match r with
      | _ :: _ :: v :: ")" :: r => some (.unitVariant (Enc.unhexStr v), r)
      | _ => none
    | "nstruct" => match r with
      | _ :: r => match decSVal r with
        | some (v, ")" :: r) => some (.newtypeStruct v, r)
        | _ => none
      | _ => none
    | "nvar" => match r with
      | _ :: _ :: vn :: r => match decSVal r with
        | some (v, ")" :: r) => some (.newtypeVariant (Enc.unhexStr vn) v, r)
        | _ => none
      | _ => none
    | "seq" | "tuple" => (many r []).map fun (vs, r) => (.seq vs, r)
    | "tstruct" => match r with
      | _ :: r => (many r []).map fun (vs, r) => (.seq vs, r)
      | _ => none
    | "tvar" => match r with
      | _ :: _ :: vn :: r => (many r []).map fun (vs, r) => (.tupleVariant (Enc.unhexStr vn) vs, r)
      | _ => none
    | "map" => (pairs r []).map fun (kvs, r) => (.map kvs, r)
    | "struct" => match r with
      | _ :: r => (fields r []).map fun (fs, r) => (.struct fs, r)
      | _ => none
    | "svar" => match r with
      | _ :: _ :: vn :: r => (fields r []).map fun (fs, r) => (.structVariant (Enc.unhexStr vn) fs, r)
      | _ => none
    | _ => none
  | t :: r =>
    let (tag, body) := splitTag t
    if tag == "b" then some (.bool (body == "t"), r)
    else if tag ∈ ["i8", "i16", "i32", "i64", "u8", "u16", "u32", "u64"] then body.toInt?.map fun v => (.int v, r)
    else if tag == "f32" then some (.f32 (f32BitsToF64 (Enc.hexToNat body)), r)
    else if tag == "f64" then some (.f64 (F64.ofBits (Enc.hexToNat body)), r)
    else if tag == "c" then body.toNat?.map fun n => (.char (Char.ofNat n), r)
    else if tag == "s" then some (.str (Enc.unhexStr body), r)
    else if tag == "y" then some (.bytes (hexList body), r)
    else none

def P : Shape := .struct [("a", .int true 32), ("b", .string)]
def E : Shape := .enum [("A", .unit), ("B", .newtype (.int true 32)), ("C", .tuple [.int true 32, .string]),
  ("D", .struct [("p", .int false 8), ("q", .option .bool)])]
def F : Shape := .enum [("O", .newtype (.option (.int true 32))), ("U", .newtype .unit), ("S", .newtype .unitStruct),
  ("V", .newtype (.seq (.int true 32))), ("X", .unit)]
def N : Shape := .newtype (.int true 16)
def T2 : Shape := .tuple [.int true 32, .int true 32]

/-- the concrete types of the harness, by index -/
def typeTable : List Shape :=
  [.bool, .int true 8, .int true 16, .int true 32, .int true 64, .int false 8, .int false 16, .int false 32, .int false 64,
   .f32, .f64, .char, .string, .unit, .option (.int true 32),
   .seq (.int true 64), .seq (.option .string), .tuple [.int true 32, .int true 32], .tuple [.int false 8, .string, .f64],
   .map (.int true 32), P,
   .struct [("x", .option (.int false 8)), ("y", .seq P), ("z", .tuple [.int true 64, .bool])],
   N, T2, .unitStruct, E, .option E, .seq E, .map (.seq T2), .option .unit,
   .tuple [.int true 32], .seq (.tuple [.string, .bool]),
   .struct [("e", E), ("n", N), ("u", .unitStruct), ("o", .option P)],
   F, .seq F,
   .map (.int true 32)]      -- 35: BTreeMap<UserId, i32> with `struct UserId(String)`: a newtype key is transparent

mutual
def dbg : TVal → List String
  | .bool b => [if b then "t" else "f"]
  | .int v => [toString v]
  | .f32 x => ["e" ++ String.ofList ((Enc.hex16 (f64ToF32Bits x)).toList.drop 8)]
  | .f64 x => ["d" ++ Enc.hex16 x.toBits]
  | .char c => [s!"c{c.toNat}"]
  | .str s => ["s" ++ Enc.hexStr s]
  | .unit => ["unit"]
  | .none => ["none"]
  | .some v => ["(", "some"] ++ dbg v ++ [")"]
  | .seq vs => ["(", "seq"] ++ dbgs vs ++ [")"]
  | .map kvs => ["(", "map"] ++ dbgKvs kvs ++ [")"]
  | .struct vs => ["(", "struct"] ++ dbgs vs ++ [")"]
  | .newtype v => ["(", "newtype"] ++ dbg v ++ [")"]
  | .unitStruct => ["ustruct"]
  | .variant name none => ["(", "var", Enc.hexStr name, ")"]
  | .variant name (some p) => ["(", "var", Enc.hexStr name] ++ dbg p ++ [")"]
def dbgs : List TVal → List String
  | [] => []
  | v :: vs => dbg v ++ dbgs vs
def dbgKvs : List (String × TVal) → List String
  | [] => []
  | (k, v) :: r => ("s" ++ Enc.hexStr k) :: (dbg v ++ dbgKvs r)
end

def optStr (o : Option String) : String := o.getD "ERR"

/-- serde: `ser\t<sval>` | `de\t<type index>\t<value>` -/
def stream (fields : List String) : String :=
  match fields with
  | ["ser", sv] =>
    match decSVal ((sv.splitOn " ").filter (· ≠ "")) with
    | some (v, []) =>
      let a := (svToVariable v).map Enc.valStr
      let b := (svToJson v).map Enc.valStr
      s!"var={optStr a}\tjson={optStr b}"
    | _ => "BADCASE ser"
  | ["de", idx, enc] =>
    match idx.toNat?, Enc.parseVal enc with
    | some i, some v =>
      match typeTable[i]? with
      | some sh =>
        let a := (deVar sh v).map fun t => " ".intercalate (dbg t)
        let b := (deJson sh v).map fun t => " ".intercalate (dbg t)
        s!"var={optStr a}\tjson={optStr b}"
      | none => s!"BADCASE de {i}"
    | _, _ => "BADCASE de"
  | _ => "BADCASE"

end SerdeWire
end JmesVerif
