import JmesVerif.Model.Value
/-
Model of the JSON *text* boundary: `Variable::from_json` = `serde_json::from_str::<Variable>`
(serde_json 1.0.151, default features: no `float_roundtrip`, no `arbitrary_precision`), driving
`VariableVisitor` (variable.rs:522-619).  This is serde_json's code, not the repository's: it is
*modelled*, and validated by the `json` correspondence stream, not verified.

Mirrored: whitespace set, `true/false/null`, the number grammar and its three result kinds
(u64 / negative i64 / double, with `-0` a double), the default double algorithm
(`(significand as f64) ×/÷ 10^|e|`, digits beyond u64 dropped or counted into the exponent),
string escapes incl. surrogate pairs (lone surrogates rejected), raw control characters rejected,
nesting limit 128, trailing characters rejected, duplicate keys (last wins, via `BTreeMap::insert`).
-/
namespace JmesVerif
namespace JsonText

def isWs (c : Char) : Bool := c = ' ' || c = '\n' || c = '\t' || c = '\r'

def skipWs : List Char → List Char
  | c :: cs => if isWs c then skipWs cs else c :: cs
  | [] => []

def isDigit (c : Char) : Bool := '0' ≤ c && c ≤ '9'
def digitVal (c : Char) : Nat := c.toNat - '0'.toNat

def U64_MAX : Nat := 18446744073709551615
def I32_MAXN : Nat := 2147483647

/-- `POW10[k]` for `k ≤ 308`: the literal `1e<k>`, i.e. the correctly rounded double -/
def pow10 (k : Nat) : F64 := F64.ofRat ((10 ^ k : Nat) : Rat)

/-- `f64_from_parts` (de.rs, not(float_roundtrip)); `none` = NumberOutOfRange.
`exponent` is an i32 in the code; saturation happens in the callers. -/
def f64FromParts (positive : Bool) (significand : Nat) (exponent : Int) : Option F64 :=
  let rec go (fuel : Nat) (f : F64) (exponent : Int) : Option F64 :=
    match fuel with
    | 0 => none
    | fuel + 1 =>
      if exponent.natAbs ≤ 308 then
        if exponent ≥ 0 then
          let f' := F64.mul f (pow10 exponent.natAbs)
          if f'.isFinite then some f' else none
        else some (F64.div f (pow10 exponent.natAbs))
      else if f.isZero then some f
      else if exponent ≥ 0 then none
      else go fuel (F64.div f (pow10 308)) (exponent + 308)
  match go 8 (F64.ofNat significand) exponent with
  | some f => some (if positive then f else f.neg)
  | none => none

inductive PNum | u (n : Nat) | i (n : Int) | f (x : F64)

def takeDigits : List Char → List Char × List Char
  | c :: cs => if isDigit c then let (d, r) := takeDigits cs; (c :: d, r) else ([], c :: cs)
  | [] => ([], [])

/-- saturating i32 add/sub as used for exponents -/
def satI32 (x : Int) : Int := if x > 2147483647 then 2147483647 else if x < -2147483648 then -2147483648 else x

/-- `parse_exponent`: input starts at the `e`/`E`. -/
def parseExponent (positive : Bool) (significand : Nat) (startingExp : Int) (cs : List Char) :
    Option (F64 × List Char) :=
  match cs with
  | _e :: cs =>
    let (positiveExp, cs) := match cs with
      | '+' :: r => (true, r)
      | '-' :: r => (false, r)
      | r => (true, r)
    match takeDigits cs with
    | ([], _) => none
    | (ds, rest) =>
      -- accumulate with the i32 overflow test of the code
      let rec acc (ds : List Char) (exp : Nat) : Option Nat :=
        match ds with
        | [] => some exp
        | d :: ds =>
          let dv := digitVal d
          if exp ≥ I32_MAXN / 10 ∧ (exp > I32_MAXN / 10 ∨ dv > I32_MAXN % 10) then none
          else acc ds (exp * 10 + dv)
      match ds with
      | [] => none
      | d0 :: ds' =>
        match acc ds' (digitVal d0) with
        | none =>
          -- parse_exponent_overflow
          if significand ≠ 0 ∧ positiveExp then none
          else some (if positive then F64.zero else F64.negZero, rest)
        | some exp =>
          let finalExp := if positiveExp then satI32 (startingExp + exp) else satI32 (startingExp - exp)
          match f64FromParts positive significand finalExp with
          | some f => some (f, rest)
          | none => none
  | [] => none

/-- `parse_decimal`: input starts at the `.`. -/
def parseDecimal (positive : Bool) (significand : Nat) (expBefore : Int) (cs : List Char) :
    Option (F64 × List Char) :=
  match cs with
  | _dot :: cs =>
    let rec digits (cs : List Char) (sig : Nat) (expAfter : Int) : Nat × Int × Bool × List Char :=
      match cs with
      | c :: cs' =>
        if isDigit c then
          let dv := digitVal c
          if sig ≥ U64_MAX / 10 ∧ (sig > U64_MAX / 10 ∨ dv > U64_MAX % 10) then
            (sig, expAfter, true, c :: cs')   -- overflow: caller drops the remaining digits
          else digits cs' (sig * 10 + dv) (expAfter - 1)
        else (sig, expAfter, false, c :: cs')
      | [] => (sig, expAfter, false, [])
    let (sig, expAfter, ovf, rest) := digits cs significand 0
    if ovf then
      let (_, rest) := takeDigits rest
      match rest with
      | 'e' :: _ | 'E' :: _ => parseExponent positive sig (expBefore + expAfter) rest
      | _ => (f64FromParts positive sig (expBefore + expAfter)).map (·, rest)
    else if expAfter = 0 then none
    else
      match rest with
      | 'e' :: _ | 'E' :: _ => parseExponent positive sig (expBefore + expAfter) rest
      | _ => (f64FromParts positive sig (expBefore + expAfter)).map (·, rest)
  | [] => none

/-- `parse_number` after the integer digits -/
def parseNumberTail (positive : Bool) (significand : Nat) (cs : List Char) : Option (PNum × List Char) :=
  match cs with
  | '.' :: _ => (parseDecimal positive significand 0 cs).map (fun (f, r) => (.f f, r))
  | 'e' :: _ | 'E' :: _ => (parseExponent positive significand 0 cs).map (fun (f, r) => (.f f, r))
  | _ =>
    if positive then some (.u significand, cs)
    else if significand = 0 ∨ significand > 9223372036854775808 then
      -- `(significand as i64).wrapping_neg() >= 0`: 0, or magnitude beyond i64
      some (.f (F64.ofNat significand).neg, cs)
    else some (.i (-(significand : Int)), cs)

/-- `parse_integer` (+ `parse_long_integer`) -/
def parseInteger (positive : Bool) (cs : List Char) : Option (PNum × List Char) :=
  match cs with
  | '0' :: rest =>
    match rest with
    | c :: _ => if isDigit c then none else parseNumberTail positive 0 rest
    | [] => parseNumberTail positive 0 rest
  | c :: rest =>
    if '1' ≤ c && c ≤ '9' then
      let rec digits (cs : List Char) (sig : Nat) : Nat × Bool × List Char :=
        match cs with
        | c :: cs' =>
          if isDigit c then
            let dv := digitVal c
            if sig ≥ U64_MAX / 10 ∧ (sig > U64_MAX / 10 ∨ dv > U64_MAX % 10) then (sig, true, c :: cs')
            else digits cs' (sig * 10 + dv)
          else (sig, false, c :: cs')
        | [] => (sig, false, [])
      let (sig, ovf, rest) := digits rest (digitVal c)
      if ovf then
        -- parse_long_integer: every further digit only bumps the exponent
        let (ds, rest) := takeDigits rest
        let exponent : Int := ds.length
        match rest with
        | '.' :: _ => (parseDecimal positive sig exponent rest).map (fun (f, r) => (.f f, r))
        | 'e' :: _ | 'E' :: _ => (parseExponent positive sig exponent rest).map (fun (f, r) => (.f f, r))
        | _ => (f64FromParts positive sig exponent).map (fun f => (.f f, rest))
      else parseNumberTail positive sig rest
    else none
  | [] => none

def hexVal (c : Char) : Option Nat :=
  if '0' ≤ c && c ≤ '9' then some (c.toNat - '0'.toNat)
  else if 'a' ≤ c && c ≤ 'f' then some (c.toNat - 'a'.toNat + 10)
  else if 'A' ≤ c && c ≤ 'F' then some (c.toNat - 'A'.toNat + 10)
  else none

def hex4 : List Char → Option (Nat × List Char)
  | a :: b :: c :: d :: rest =>
    match hexVal a, hexVal b, hexVal c, hexVal d with
    | some a, some b, some c, some d => some (a * 4096 + b * 256 + c * 16 + d, rest)
    | _, _, _, _ => none
  | _ => none

/-- string body after the opening quote; returns the decoded characters and the rest after the closing quote -/
def parseStrBody : Nat → List Char → List Char → Option (List Char × List Char)
  | 0, _, _ => none
  | fuel + 1, cs, acc =>
    match cs with
    | [] => none
    | '"' :: rest => some (acc.reverse, rest)
    | '\\' :: rest =>
      match rest with
      | '"' :: r => parseStrBody fuel r ('"' :: acc)
      | '\\' :: r => parseStrBody fuel r ('\\' :: acc)
      | '/' :: r => parseStrBody fuel r ('/' :: acc)
      | 'b' :: r => parseStrBody fuel r (Char.ofNat 8 :: acc)
      | 'f' :: r => parseStrBody fuel r (Char.ofNat 12 :: acc)
      | 'n' :: r => parseStrBody fuel r ('\n' :: acc)
      | 'r' :: r => parseStrBody fuel r ('\r' :: acc)
      | 't' :: r => parseStrBody fuel r ('\t' :: acc)
      | 'u' :: r =>
        match hex4 r with
        | none => none
        | some (n, r) =>
          if 0xDC00 ≤ n ∧ n ≤ 0xDFFF then none
          else if n < 0xD800 ∨ n > 0xDBFF then parseStrBody fuel r (Char.ofNat n :: acc)
          else
            match r with
            | '\\' :: 'u' :: r2 =>
              match hex4 r2 with
              | none => none
              | some (n2, r3) =>
                if n2 < 0xDC00 ∨ n2 > 0xDFFF then none
                else parseStrBody fuel r3 (Char.ofNat ((n - 0xD800) * 1024 + (n2 - 0xDC00) + 0x10000) :: acc)
            | _ => none
      | _ => none
    | c :: rest => if c.toNat < 0x20 then none else parseStrBody fuel rest (c :: acc)

def matchIdent (lit : List Char) (cs : List Char) : Option (List Char) :=
  if lit.isPrefixOf cs then some (cs.drop lit.length) else none

def numVal : PNum → Val
  | .u n => .num (.pos n)
  | .i n => .num (.neg n)
  | .f x => .num (.flt x)

mutual
/-- a value with optional leading whitespace; `depth` = serde_json's `remaining_depth` -/
def parseValue : Nat → Nat → List Char → Option (Val × List Char)
  | 0, _, _ => none
  | fuel + 1, depth, cs =>
    match skipWs cs with
    | 'n' :: r => (matchIdent ['u', 'l', 'l'] r).map (Val.null, ·)
    | 't' :: r => (matchIdent ['r', 'u', 'e'] r).map (Val.bool true, ·)
    | 'f' :: r => (matchIdent ['a', 'l', 's', 'e'] r).map (Val.bool false, ·)
    | '-' :: r => (parseInteger false r).map fun (n, r) => (numVal n, r)
    | '"' :: r => (parseStrBody (r.length + 1) r []).map fun (s, r) => (Val.str (String.ofList s), r)
    | '[' :: r =>
      if depth ≤ 1 then none else
      match skipWs r with
      | ']' :: r => some (Val.arr [], r)
      | r => (parseElems fuel (depth - 1) r []).map fun (xs, r) => (Val.arr xs, r)
    | '{' :: r =>
      if depth ≤ 1 then none else
      match skipWs r with
      | '}' :: r => some (Val.obj [], r)
      | r => (parseMembers fuel (depth - 1) r []).map fun (kvs, r) => (Val.obj kvs, r)
    | c :: r => if isDigit c then (parseInteger true (c :: r)).map fun (n, r) => (numVal n, r) else none
    | [] => none
/-- elements after `[` (at least one expected), up to and including `]` -/
def parseElems : Nat → Nat → List Char → List Val → Option (List Val × List Char)
  | 0, _, _, _ => none
  | fuel + 1, depth, cs, acc =>
    match parseValue fuel depth cs with
    | none => none
    | some (v, r) =>
      match skipWs r with
      | ',' :: r => parseElems fuel depth r (v :: acc)
      | ']' :: r => some ((v :: acc).reverse, r)
      | _ => none
/-- members after `{`, up to and including `}`; later duplicates replace earlier ones -/
def parseMembers : Nat → Nat → List Char → List (String × Val) → Option (List (String × Val) × List Char)
  | 0, _, _, _ => none
  | fuel + 1, depth, cs, acc =>
    match skipWs cs with
    | '"' :: r =>
      match parseStrBody (r.length + 1) r [] with
      | none => none
      | some (k, r) =>
        match skipWs r with
        | ':' :: r =>
          match parseValue fuel depth r with
          | none => none
          | some (v, r) =>
            let acc := insertKV (String.ofList k) v acc
            match skipWs r with
            | ',' :: r => parseMembers fuel depth r acc
            | '}' :: r => some (acc, r)
            | _ => none
        | _ => none
    | _ => none
end

/-- `Variable::from_json`: one value, optional surrounding whitespace, nothing else. -/
def parse (cs : List Char) : Option Val :=
  match parseValue (2 * cs.length + 2) 128 cs with
  | some (v, rest) => if skipWs rest = [] then some v else none
  | none => none

end JsonText
end JmesVerif
