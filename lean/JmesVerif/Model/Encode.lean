import JmesVerif.Model.Parser
/-
Typed, text-free encoding of values / ASTs shared with the Rust harness (harness/vharness/src/enc.rs):
space-separated tokens; strings as hex of their UTF-8 bytes; doubles as 16-hex-digit bit patterns.
Protocol code only: no theorem depends on it.
-/
namespace JmesVerif
namespace Enc

def hexDigit (n : Nat) : Char := if n < 10 then Char.ofNat (48 + n) else Char.ofNat (87 + n)

def hexByte (b : UInt8) : List Char := [hexDigit (b.toNat / 16), hexDigit (b.toNat % 16)]

def hexStr (s : String) : String :=
  String.ofList (s.toUTF8.toList.flatMap hexByte)

def hex16 (n : Nat) : String :=
  String.ofList ((List.range 16).reverse.map fun i => hexDigit (n / 16 ^ i % 16))

def encNum : Num → String
  | .pos n => s!"u{n}"
  | .neg i => s!"i{i}"
  | .flt f => "d" ++ hex16 f.toBits

def cmpName : Cmp → String
  | .eq => "eq" | .ne => "ne" | .lt => "lt" | .le => "le" | .gt => "gt" | .ge => "ge"

def optI : Option Int → String
  | none => "-"
  | some i => toString i

mutual
def encVal : Val → List String
  | .null => ["n"]
  | .bool true => ["t"]
  | .bool false => ["f"]
  | .num n => [encNum n]
  | .str s => ["s" ++ hexStr s]
  | .arr xs => "[" :: (encVals xs ++ ["]"])
  | .obj kvs => "{" :: (encKVs kvs ++ ["}"])
  | .expref a => "x" :: encAst a
def encVals : List Val → List String
  | [] => []
  | v :: vs => encVal v ++ encVals vs
def encKVs : List (String × Val) → List String
  | [] => []
  | (k, v) :: r => ("s" ++ hexStr k) :: (encVal v ++ encKVs r)
def encAst : Ast → List String
  | .comparison o c l r => ["(", "Comparison", s!"@{o}", cmpName c] ++ encAst l ++ encAst r ++ [")"]
  | .condition o p t => ["(", "Condition", s!"@{o}"] ++ encAst p ++ encAst t ++ [")"]
  | .identity o => ["(", "Identity", s!"@{o}", ")"]
  | .expref o a => ["(", "Expref", s!"@{o}"] ++ encAst a ++ [")"]
  | .flatten o a => ["(", "Flatten", s!"@{o}"] ++ encAst a ++ [")"]
  | .function o n args => ["(", "Function", s!"@{o}", "s" ++ hexStr n] ++ encAsts args ++ [")"]
  | .field o n => ["(", "Field", s!"@{o}", "s" ++ hexStr n, ")"]
  | .index o i => ["(", "Index", s!"@{o}", toString i, ")"]
  | .literal o v => ["(", "Literal", s!"@{o}"] ++ encVal v ++ [")"]
  | .multiList o es => ["(", "MultiList", s!"@{o}"] ++ encAsts es ++ [")"]
  | .multiHash o kvs => ["(", "MultiHash", s!"@{o}"] ++ encKAs kvs ++ [")"]
  | .not o a => ["(", "Not", s!"@{o}"] ++ encAst a ++ [")"]
  | .projection o l r => ["(", "Projection", s!"@{o}"] ++ encAst l ++ encAst r ++ [")"]
  | .objectValues o a => ["(", "ObjectValues", s!"@{o}"] ++ encAst a ++ [")"]
  | .and o l r => ["(", "And", s!"@{o}"] ++ encAst l ++ encAst r ++ [")"]
  | .or o l r => ["(", "Or", s!"@{o}"] ++ encAst l ++ encAst r ++ [")"]
  | .slice o a b c => ["(", "Slice", s!"@{o}", optI a, optI b, toString c, ")"]
  | .subexpr o l r => ["(", "Subexpr", s!"@{o}"] ++ encAst l ++ encAst r ++ [")"]
def encAsts : List Ast → List String
  | [] => []
  | a :: as => encAst a ++ encAsts as
def encKAs : List (String × Ast) → List String
  | [] => []
  | (k, a) :: r => ("s" ++ hexStr k) :: (encAst a ++ encKAs r)
end

def valStr (v : Val) : String := " ".intercalate (encVal v)
def astStr (a : Ast) : String := " ".intercalate (encAst a)

/-! decoding (documents only: no exprefs) -/

def unhexNib (c : Char) : Nat :=
  if '0' ≤ c && c ≤ '9' then c.toNat - 48 else if 'a' ≤ c && c ≤ 'f' then c.toNat - 87 else 0

def unhexBytes : List Char → List UInt8
  | a :: b :: r => UInt8.ofNat (unhexNib a * 16 + unhexNib b) :: unhexBytes r
  | _ => []

def unhexStr (s : String) : String :=
  match String.fromUTF8? (ByteArray.mk (unhexBytes s.toList).toArray) with
  | some r => r
  | none => ""

def hexToNat (s : String) : Nat := s.toList.foldl (fun acc c => acc * 16 + unhexNib c) 0

partial def decVal : List String → Option (Val × List String)
  | [] => none
  | t :: r =>
    let tag := t.take 1 |>.toString
    let body := t.drop 1 |>.toString
    if t == "n" then some (.null, r)
    else if t == "t" then some (.bool true, r)
    else if t == "f" then some (.bool false, r)
    else if t == "[" then
      let rec elems (r : List String) (acc : List Val) : Option (Val × List String) :=
        match r with
        | "]" :: r => some (.arr acc.reverse, r)
        | _ => match decVal r with
          | some (v, r) => elems r (v :: acc)
          | none => none
      elems r []
    else if t == "{" then
      let rec mems (r : List String) (acc : List (String × Val)) : Option (Val × List String) :=
        match r with
        | "}" :: r => some (.obj acc, r)
        | k :: r => match decVal r with
          | some (v, r) => mems r (insertKV (unhexStr (k.drop 1 |>.toString)) v acc)
          | none => none
        | [] => none
      mems r []
    else if tag == "i" then body.toInt?.map fun i => (.num (.neg i), r)
    else if tag == "u" then body.toNat?.map fun n => (.num (.pos n), r)
    else if tag == "d" then some (.num (.flt (F64.ofBits (hexToNat body))), r)
    else if tag == "s" then some (.str (unhexStr body), r)
    else none

def parseVal (s : String) : Option Val :=
  match decVal ((s.splitOn " ").filter (· ≠ "")) with
  | some (v, []) => some v
  | _ => none

end Enc
end JmesVerif
