import JmesVerif.Model.Lexer
/-
Concrete syntax in *spine form*: an expression is a head (what the parser's `nud` builds) followed
by the list of left-denotation applications (`led`) the Pratt loop folds over it.  One constructor
per parser action / ABNF alternative.  Position-free: positions only live in tokens and in the
`Ast` the parser builds alongside.
-/
namespace JmesVerif

/-- slice header `a? : b? (: c?)?`; `c = none` means there is no second colon -/
structure SliceHdr where
  a : Option Int
  b : Option Int
  c : Option (Option Int)
  deriving Inhabited

mutual
inductive Nud
  | at
  | field (s : String)                    -- unquoted identifier
  | qfield (s : String)                   -- quoted identifier
  | call (s : String) (args : List Expr)  -- identifier '(' args ')'
  | lit (v : Val)
  | star (r : Rhs)                        -- '*' R20
  | idx (n : Int)                         -- '[' n ']'
  | slice (h : SliceHdr) (r : Rhs)        -- '[' a? ':' b? (':' c?)? ']' R20
  | wildIdx (r : Rhs)                     -- '[' '*' ']' R20
  | mlist (es : List Expr)                -- '[' e (',' e)* ']'
  | flatten (r : Rhs)                     -- '[]' R9
  | mhash (kvs : List (Bool × String × Expr))   -- '{' k ':' e (',' k ':' e)* '}', Bool = key was quoted
  | not (e : Expr)                        -- '!' e→45
  | filter (p : Expr) (r : Rhs)           -- '[?' p→0 ']' R21
  | paren (e : Expr)                      -- '(' e→0 ')'
  | expref (e : Expr)                     -- '&' e→0
inductive Led
  | dotStar (r : Rhs)                     -- '.' '*' R20
  | dot (d : DotRhs)                      -- '.' D40
  | index (n : Int)                       -- '[' n ']'
  | sliceL (h : SliceHdr) (r : Rhs)       -- '[' slice ']' R20
  | wildIdxL (r : Rhs)                    -- '[' '*' ']' R20
  | or (e : Expr) | and (e : Expr) | pipe (e : Expr)
  | cmp (o : Cmp) (e : Expr)
  | flattenL (r : Rhs)                    -- '[]' R9
  | filterL (p : Expr) (r : Rhs)          -- '[?' p ']' R21
  | callDev (args : List Expr)            -- '(' args ')' applied to a parenthesised field (deviation F3)
inductive Rhs                             -- right-hand side of a projection at power k
  | none                                  -- next token binds below 10
  | dot (d : DotRhs)                      -- '.' D k
  | bracket (e : Expr)                    -- bracket-headed expression → k
inductive DotRhs                          -- what may follow a '.'
  | mlist (es : List Expr)                -- '[' e (',' e)* ']'   (nothing follows inside this form)
  | expr (e : Expr)                       -- identifier / quoted / call / '*' / '{' / '&' headed, → k
inductive Expr
  | mk (h : Nud) (ls : List Led)
end

instance : Inhabited Expr := ⟨.mk .at []⟩
instance : Inhabited Nud := ⟨.at⟩
instance : Inhabited Led := ⟨.index 0⟩
instance : Inhabited Rhs := ⟨.none⟩
instance : Inhabited DotRhs := ⟨.mlist []⟩

end JmesVerif
