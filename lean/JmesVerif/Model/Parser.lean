import JmesVerif.Model.Cst
/-
Model of `parser.rs`, function by function.  State = the token queue (`List (Nat × Tok)`, position
first) and `self.offset` (position of the last token taken by `advance`).  Every function
returns, next to the `Ast` the Rust code builds (offsets included, in the evaluation order of the
Rust struct literals), the piece of concrete syntax (`Cst.lean`) it has just recognised — the
bookkeeping the grammar theorems (T1/T2) are stated on.  All functions are structurally
recursive on a fuel argument; `Props/C05` proves `8·|tokens| + 8` always suffices.
-/
namespace JmesVerif

inductive PErr
  | fuel
  | at (pos : Nat)
  deriving DecidableEq, Repr

abbrev PT := Nat × Tok
abbrev PRes (α : Type) := Except PErr (α × List PT × Nat)

namespace Parser

/-- `self.peek(0)` -/
def peekT : List PT → Tok
  | (_, t) :: _ => t
  | [] => .eof

/-- position used by `self.err(_, _, is_peek = true)` -/
def peekPos (ts : List PT) (off : Nat) : Nat :=
  match ts with
  | (p, _) :: _ => p
  | [] => off

/-- `PROJECTION_STOP` -/
def projectionStop : Nat := 10

def isClosing (paren : Bool) : Tok → Bool
  | .rparen => paren
  | .rbracket => !paren
  | _ => false

inductive IdxHdr
  | idx (n : Int)
  | slice (h : SliceHdr)

/-- the token loop of `parse_index` (parser.rs:387-412), after the `[`; returns at the `]`
(consumed; the returned offset is its position). `k` = number of colons seen so far. -/
def idxLoop : Nat → List PT → Nat → Option Int → Option Int → Option Int → Nat →
    Except PErr (IdxHdr × List PT × Nat)
  | 0, _, _, _, _, _, _ => .error .fuel
  | fuel + 1, ts, off, a, b, c, k =>
    match ts with
    | [] => .error (.at off)
    | (p, tok) :: r =>
      match tok with
      | .number v =>
        match peekT r with
        | .colon | .rbracket =>
          if k = 0 then idxLoop fuel r p (some v) b c k
          else if k = 1 then idxLoop fuel r p a (some v) c k
          else idxLoop fuel r p a b (some v) k
        | _ => .error (.at (peekPos r p))
      | .rbracket =>
        if k = 0 then
          match a with
          | some n => .ok (.idx n, r, p)
          | none => .error (.at p)
        else .ok (.slice ⟨a, b, if k = 2 then some c else none⟩, r, p)
      | .colon =>
        if k ≥ 2 then .error (.at p)
        else
          match peekT r with
          | .number _ | .colon | .rbracket => idxLoop fuel r p a b c (k + 1)
          | _ => .error (.at (peekPos r p))
      | _ => .error (.at p)

def cmpOfTok : Tok → Option Cmp
  | .eq => some .eq | .ne => some .ne | .gt => some .gt | .gte => some .ge
  | .lt => some .lt | .lte => some .le
  | _ => none

mutual

/-- `fn expr(&mut self, rbp)` -/
def expr : Nat → Nat → List PT → Nat → PRes (Expr × Ast)
  | 0, _, _, _ => .error .fuel
  | fuel + 1, rbp, ts, off =>
    match nud fuel ts off with
    | .error e => .error e
    | .ok ((h, a), ts, off) => loop fuel rbp h [] a ts off

/-- the `while rbp < self.peek(0).lbp() { left = self.led(left) }` loop -/
def loop : Nat → Nat → Nud → List Led → Ast → List PT → Nat → PRes (Expr × Ast)
  | 0, _, _, _, _, _, _ => .error .fuel
  | fuel + 1, rbp, h, acc, left, ts, off =>
    if rbp < (peekT ts).lbp then
      match ts with
      | (p, .lparen) :: r =>
        -- led, `Token::Lparen` arm: only a bare field may be called
        match left with
        | .field _ name =>
          match parseList fuel true r p [] [] with
          | .error e => .error e
          | .ok ((args, aargs), ts, off) =>
            let left' := Ast.function p name aargs
            match h, acc with
            | .field s, [] => loop fuel rbp (.call s args) [] left' ts off
            | _, _ => loop fuel rbp h (acc ++ [.callDev args]) left' ts off
        | _ => .error (.at (peekPos r p))
      | _ =>
        match led fuel left ts off with
        | .error e => .error e
        | .ok ((l, left'), ts, off) => loop fuel rbp h (acc ++ [l]) left' ts off
    else .ok ((.mk h acc, left), ts, off)

/-- `fn nud(&mut self)` -/
def nud : Nat → List PT → Nat → PRes (Nud × Ast)
  | 0, _, _ => .error .fuel
  | fuel + 1, ts, off =>
    match ts with
    | [] => .error (.at off)
    | (p, tok) :: r =>
      match tok with
      | .at => .ok ((.at, .identity p), r, p)
      | .identifier s => .ok ((.field s, .field p s), r, p)
      | .quotedIdentifier s =>
        match peekT r with
        | .lparen => .error (.at (peekPos r p))
        | _ => .ok ((.qfield s, .field p s), r, p)
      | .star =>
        match wildcardValues fuel (.identity p) r p with
        | .error e => .error e
        | .ok ((rhs, a), ts, off) => .ok ((.star rhs, a), ts, off)
      | .literal v => .ok ((.lit v, .literal p v), r, p)
      | .lbracket =>
        match r with
        | (_, .number _) :: _ | (_, .colon) :: _ =>
          match parseIndex fuel r p with
          | .error e => .error e
          | .ok ((.inl n, a), ts, off) => .ok ((.idx n, a), ts, off)
          | .ok ((.inr (hd, rhs), a), ts, off) => .ok ((.slice hd rhs, a), ts, off)
        | (p2, .star) :: (p3, .rbracket) :: r3 =>
          -- advance over '*', then parse_wildcard_index takes the ']'
          match wildcardIndex fuel (.identity p) ((p3, .rbracket) :: r3) p2 with
          | .error e => .error e
          | .ok ((rhs, a), ts, off) => .ok ((.wildIdx rhs, a), ts, off)
        | _ =>
          match multiList fuel r p with
          | .error e => .error e
          | .ok ((es, a), ts, off) => .ok ((.mlist es, a), ts, off)
      | .flatten =>
        match parseFlatten fuel (.identity p) r p with
        | .error e => .error e
        | .ok ((rhs, a), ts, off) => .ok ((.flatten rhs, a), ts, off)
      | .lbrace =>
        match kvps fuel r p [] [] with
        | .error e => .error e
        | .ok ((ks, aks), ts, off) => .ok ((.mhash ks, .multiHash p aks), ts, off)
      | .ampersand =>
        match expr fuel 0 r p with
        | .error e => .error e
        | .ok ((e, a), ts, off) => .ok ((.expref e, .expref p a), ts, off)
      | .not =>
        match expr fuel 45 r p with
        | .error e => .error e
        | .ok ((e, a), ts, off) => .ok ((.not e, .not p a), ts, off)
      | .filter =>
        match parseFilter fuel (.identity p) r p with
        | .error e => .error e
        | .ok ((pe, rhs, a), ts, off) => .ok ((.filter pe rhs, a), ts, off)
      | .lparen =>
        match expr fuel 0 r p with
        | .error e => .error e
        | .ok ((e, a), ts, off) =>
          match ts with
          | (p2, .rparen) :: r2 => .ok ((.paren e, a), r2, p2)
          | (p2, _) :: _ => .error (.at p2)
          | [] => .error (.at off)
      | _ => .error (.at p)

/-- `fn led(&mut self, left)` without the `Lparen` arm (handled in `loop`) -/
def led : Nat → Ast → List PT → Nat → PRes (Led × Ast)
  | 0, _, _, _ => .error .fuel
  | fuel + 1, left, ts, off =>
    match ts with
    | [] => .error (.at off)
    | (p, tok) :: r =>
      match tok with
      | .dot =>
        match r with
        | (p2, .star) :: r2 =>
          match wildcardValues fuel left r2 p2 with
          | .error e => .error e
          | .ok ((rhs, a), ts, off) => .ok ((.dotStar rhs, a), ts, off)
        | _ =>
          match parseDot fuel 40 r p with
          | .error e => .error e
          | .ok ((d, ra), ts, off) => .ok ((.dot d, .subexpr p left ra), ts, off)
      | .lbracket =>
        match r with
        | (_, .number _) :: _ | (_, .colon) :: _ =>
          match parseIndex fuel r p with
          | .error e => .error e
          | .ok ((.inl n, a), ts, off) => .ok ((.index n, .subexpr p left a), ts, off)
          | .ok ((.inr (hd, rhs), a), ts, off) => .ok ((.sliceL hd rhs, .subexpr p left a), ts, off)
        | (p2, .star) :: r2 =>
          match wildcardIndex fuel left r2 p2 with
          | .error e => .error e
          | .ok ((rhs, a), ts, off) => .ok ((.wildIdxL rhs, a), ts, off)
        | _ => .error (.at (peekPos r p))
      | .or =>
        match expr fuel 2 r p with
        | .error e => .error e
        | .ok ((e, ra), ts, off) => .ok ((.or e, .or p left ra), ts, off)
      | .and =>
        match expr fuel 3 r p with
        | .error e => .error e
        | .ok ((e, ra), ts, off) => .ok ((.and e, .and p left ra), ts, off)
      | .pipe =>
        match expr fuel 1 r p with
        | .error e => .error e
        | .ok ((e, ra), ts, off) => .ok ((.pipe e, .subexpr p left ra), ts, off)
      | .flatten =>
        match parseFlatten fuel left r p with
        | .error e => .error e
        | .ok ((rhs, a), ts, off) => .ok ((.flattenL rhs, a), ts, off)
      | .filter =>
        match parseFilter fuel left r p with
        | .error e => .error e
        | .ok ((pe, rhs, a), ts, off) => .ok ((.filterL pe rhs, a), ts, off)
      | tok =>
        match cmpOfTok tok with
        | some c =>
          -- parse_comparator: rhs first, the node's offset is read afterwards
          match expr fuel 5 r p with
          | .error e => .error e
          | .ok ((e, ra), ts, off) => .ok ((.cmp c e, .comparison off c left ra), ts, off)
        | none => .error (.at p)

/-- `parse_index` after its caller consumed `[` (and saw a number or a colon next) -/
def parseIndex : Nat → List PT → Nat → PRes ((Int ⊕ (SliceHdr × Rhs)) × Ast)
  | 0, _, _ => .error .fuel
  | fuel + 1, ts, off =>
    match idxLoop 8 ts off none none none 0 with
    | .error e => .error e
    | .ok (.idx n, ts, off) => .ok ((.inl n, .index off n), ts, off)
    | .ok (.slice hd, ts, off) =>
      -- `offset: self.offset` of Projection and Slice are read before the rhs is parsed
      let step : Int := match hd.c with
        | some (some s) => s
        | _ => 1
      match projRhs fuel 20 ts off with
      | .error e => .error e
      | .ok ((rhs, ra), ts', off') =>
        .ok ((.inr (hd, rhs), .projection off (.slice off hd.a hd.b step) ra), ts', off')

/-- `projection_rhs(lbp)` -/
def projRhs : Nat → Nat → List PT → Nat → PRes (Rhs × Ast)
  | 0, _, _, _ => .error .fuel
  | fuel + 1, k, ts, off =>
    match ts with
    | (p, .dot) :: r =>
      match parseDot fuel k r p with
      | .error e => .error e
      | .ok ((d, a), ts, off) => .ok ((.dot d, a), ts, off)
    | (_, .lbracket) :: _ | (_, .filter) :: _ =>
      match expr fuel k ts off with
      | .error e => .error e
      | .ok ((e, a), ts, off) => .ok ((.bracket e, a), ts, off)
    | _ =>
      if (peekT ts).lbp < projectionStop then .ok ((.none, .identity off), ts, off)
      else .error (.at (peekPos ts off))

/-- `parse_dot(lbp)` -/
def parseDot : Nat → Nat → List PT → Nat → PRes (DotRhs × Ast)
  | 0, _, _, _ => .error .fuel
  | fuel + 1, k, ts, off =>
    match ts with
    | (p, .lbracket) :: r =>
      match multiList fuel r p with
      | .error e => .error e
      | .ok ((es, a), ts, off) => .ok ((.mlist es, a), ts, off)
    | (_, .identifier _) :: _ | (_, .quotedIdentifier _) :: _ | (_, .star) :: _
    | (_, .lbrace) :: _ | (_, .ampersand) :: _ =>
      match expr fuel k ts off with
      | .error e => .error e
      | .ok ((e, a), ts, off) => .ok ((.expr e, a), ts, off)
    | _ => .error (.at (peekPos ts off))

/-- `parse_multi_list` after the `[` was consumed (`off` is its position) -/
def multiList : Nat → List PT → Nat → PRes (List Expr × Ast)
  | 0, _, _ => .error .fuel
  | fuel + 1, ts, off =>
    match parseList fuel false ts off [] [] with
    | .error e => .error e
    | .ok ((es, as), ts', off') =>
      if es.isEmpty then .error (.at off') else .ok ((es, .multiList off as), ts', off')

/-- `parse_list(closing)`: elements until the closing token, comma separated -/
def parseList : Nat → Bool → List PT → Nat → List Expr → List Ast → PRes (List Expr × List Ast)
  | 0, _, _, _, _, _ => .error .fuel
  | fuel + 1, paren, ts, off, es, as =>
    match ts with
    | (p, t) :: r =>
      if isClosing paren t then .ok ((es, as), r, p)
      else
        match expr fuel 0 ts off with
        | .error e => .error e
        | .ok ((e, a), ts, off) =>
          match ts with
          | (p2, .comma) :: r2 =>
            if isClosing paren (peekT r2) then .error (.at (peekPos r2 p2))
            else parseList fuel paren r2 p2 (es ++ [e]) (as ++ [a])
          | (p2, t2) :: r2 =>
            if isClosing paren t2 then .ok ((es ++ [e], as ++ [a]), r2, p2)
            else .error (.at p2)
          | [] => .error (.at off)
    | [] =>
      -- the queue is exhausted: `expr(0)` → `nud` takes the synthetic Eof and fails
      .error (.at off)

/-- the `Lbrace` arm of `nud`: `parse_kvp` then `}` or `,` -/
def kvps : Nat → List PT → Nat → List (Bool × String × Expr) → List (String × Ast) →
    PRes (List (Bool × String × Expr) × List (String × Ast))
  | 0, _, _, _, _ => .error .fuel
  | fuel + 1, ts, off, ks, aks =>
    let key : Option (Bool × String × Nat × List PT) :=
      match ts with
      | (p, .identifier s) :: r => some (false, s, p, r)
      | (p, .quotedIdentifier s) :: r => some (true, s, p, r)
      | _ => none
    match key with
    | none =>
      match ts with
      | (p, _) :: _ => .error (.at p)
      | [] => .error (.at off)
    | some (q, s, p, r) =>
      match r with
      | (p2, .colon) :: r2 =>
        match expr fuel 0 r2 p2 with
        | .error e => .error e
        | .ok ((e, a), ts, off) =>
          match ts with
          | (p3, .rbrace) :: r3 => .ok ((ks ++ [(q, s, e)], aks ++ [(s, a)]), r3, p3)
          | (p3, .comma) :: r3 => kvps fuel r3 p3 (ks ++ [(q, s, e)]) (aks ++ [(s, a)])
          | (p3, _) :: _ => .error (.at p3)
          | [] => .error (.at off)
      | _ => .error (.at (peekPos r p))

/-- `parse_filter(lhs)` after `[?` -/
def parseFilter : Nat → Ast → List PT → Nat → PRes (Expr × Rhs × Ast)
  | 0, _, _, _ => .error .fuel
  | fuel + 1, lhs, ts, off =>
    match expr fuel 0 ts off with
    | .error e => .error e
    | .ok ((pe, pa), ts, off) =>
      match ts with
      | (p, .rbracket) :: r =>
        match projRhs fuel 21 r p with
        | .error e => .error e
        | .ok ((rhs, ra), ts, off) =>
          .ok ((pe, rhs, .projection off lhs (.condition off pa ra)), ts, off)
      | (p, _) :: _ => .error (.at p)
      | [] => .error (.at off)

/-- `parse_flatten(lhs)` after `[]` -/
def parseFlatten : Nat → Ast → List PT → Nat → PRes (Rhs × Ast)
  | 0, _, _, _ => .error .fuel
  | fuel + 1, lhs, ts, off =>
    match projRhs fuel 9 ts off with
    | .error e => .error e
    | .ok ((rhs, ra), ts, off) => .ok ((rhs, .projection off (.flatten off lhs) ra), ts, off)

/-- `parse_wildcard_values(lhs)` after `*` -/
def wildcardValues : Nat → Ast → List PT → Nat → PRes (Rhs × Ast)
  | 0, _, _, _ => .error .fuel
  | fuel + 1, lhs, ts, off =>
    match projRhs fuel 20 ts off with
    | .error e => .error e
    | .ok ((rhs, ra), ts, off) => .ok ((rhs, .projection off (.objectValues off lhs) ra), ts, off)

/-- `parse_wildcard_index(lhs)` after `[` `*`: takes the `]` -/
def wildcardIndex : Nat → Ast → List PT → Nat → PRes (Rhs × Ast)
  | 0, _, _, _ => .error .fuel
  | fuel + 1, lhs, ts, off =>
    match ts with
    | (p, .rbracket) :: r =>
      match projRhs fuel 20 r p with
      | .error e => .error e
      | .ok ((rhs, ra), ts, off) => .ok ((rhs, .projection off lhs ra), ts, off)
    | (p, _) :: _ => .error (.at p)
    | [] => .error (.at off)

end

end Parser

/-- `Parser::parse` on the token queue: the whole input must be consumed -/
def parseTokens (ts : List PT) : Except PErr (Expr × Ast) :=
  match Parser.expr (8 * ts.length + 8) 0 ts 0 with
  | .error e => .error e
  | .ok ((e, a), rest, off) =>
    match rest with
    | [(_, .eof)] | [] => .ok (e, a)
    | (p, _) :: _ => .error (.at p)

inductive CompileErr
  | lex (e : LexErr)
  | parse (e : PErr)

/-- `parser::parse(expr)` = tokenize, then parse -/
def parseExpr (cs : List Char) : Except CompileErr (Expr × Ast) :=
  match tokenize cs with
  | .error e => .error (.lex e)
  | .ok ts =>
    match parseTokens ts with
    | .error e => .error (.parse e)
    | .ok r => .ok r

end JmesVerif
