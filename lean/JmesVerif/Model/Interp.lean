import JmesVerif.Model.Compare
import JmesVerif.Model.Slice
import JmesVerif.Model.JsonText
import JmesVerif.Model.JsonPrint
/-
Model of `interpreter.rs` (`interpret`, arm by arm), `functions.rs` (`ArgumentType`, `Signature`,
the 26 builtins, `CustomFunction`) and the part of `runtime.rs` the interpreter uses
(`get_function`).  `ctx.offset` is threaded exactly as the `&mut Context` is: every function
returns the new offset, and an error records the offset current when it was built
(`JmespathError::from_ctx`).  One unit of fuel = one `interpret` recursion frame.
-/
namespace JmesVerif

/-- `RuntimeError` (errors.rs:122-161) -/
inductive RtErr
  | invalidSlice
  | tooMany (expected actual : Nat)
  | notEnough (expected actual : Nat)
  | unknownFunction (name : String)
  | invalidType (expected actual : String) (position : Nat)
  | invalidReturnType (expected actual : String) (position invocation : Nat)
  deriving DecidableEq, Repr

inductive EvalErr
  /-- `JmespathError::from_ctx(ctx, Runtime(e))`: carries ctx.expression and ctx.offset -/
  | runtime (e : RtErr) (offset : Nat)
  /-- `JmespathError::new("", 0, Parse(msg))` built inside a builtin: no expression, offset 0 -/
  | internal (msg : String)
  /-- a panic of the real code (`unreachable!()`, slice fault) -/
  | panic (msg : String)
  | fuel
  deriving DecidableEq, Repr

/-- `ArgumentType` (functions.rs:19-33) -/
inductive ArgT
  | any | null | string | number | bool | object | array | expref
  | typedArray (t : ArgT)
  | union (ts : List ArgT)
  deriving Repr, Inhabited

mutual
/-- `ArgumentType::is_valid` -/
def ArgT.isValid : ArgT → Val → Bool
  | .any, _ => true
  | .null, v => v.isNull
  | .string, v => v.type == .string
  | .number, v => v.type == .number
  | .object, v => v.type == .object
  | .bool, v => v.type == .boolean
  | .expref, v => v.type == .expref
  | .array, v => v.type == .array
  | .typedArray t, .arr xs => allValid t xs
  | .typedArray _, _ => false
  | .union ts, v => anyValid ts v
def allValid (t : ArgT) : List Val → Bool
  | [] => true
  | v :: vs => t.isValid v && allValid t vs
def anyValid : List ArgT → Val → Bool
  | [], _ => false
  | t :: ts, v => t.isValid v || anyValid ts v
end

mutual
/-- `impl Display for ArgumentType` -/
def ArgT.name : ArgT → String
  | .any => "any" | .string => "string" | .number => "number" | .bool => "boolean"
  | .array => "array" | .object => "object" | .null => "null" | .expref => "expref"
  | .typedArray t => "array[" ++ t.name ++ "]"
  | .union ts => unionName ts
def unionName : List ArgT → String
  | [] => ""
  | [t] => t.name
  | t :: ts => t.name ++ "|" ++ unionName ts
end

/-- `Signature` (functions.rs:144-147) -/
structure Sig where
  inputs : List ArgT
  variadic : Option ArgT
  deriving Repr, Inhabited

/-- `Signature::validate_arity` -/
def Sig.validateArity (s : Sig) (actual : Nat) (off : Nat) : Except EvalErr Unit :=
  let expected := s.inputs.length
  if s.variadic.isSome then
    if actual ≥ expected then .ok () else .error (.runtime (.notEnough expected actual) off)
  else if actual = expected then .ok ()
  else if actual < expected then .error (.runtime (.notEnough expected actual) off)
  else .error (.runtime (.tooMany expected actual) off)

/-- the `for (k, v) in args.iter().enumerate()` loop of `Signature::validate` -/
def Sig.validateArgs (s : Sig) (off : Nat) : Nat → List Val → Except EvalErr Unit
  | _, [] => .ok ()
  | k, v :: vs =>
    let validator : Option ArgT := match s.inputs[k]? with
      | some t => some t
      | none => s.variadic
    match validator with
    | none => .error (.panic "index out of bounds: self.inputs[k]")
    | some t =>
      if t.isValid v then Sig.validateArgs s off (k + 1) vs
      else .error (.runtime (.invalidType t.name v.type.name k) off)

/-- `Signature::validate` -/
def Sig.validate (s : Sig) (args : List Val) (off : Nat) : Except EvalErr Unit :=
  match s.validateArity args.length off with
  | .error e => .error e
  | .ok () => s.validateArgs off 0 args

/-- the 26 builtins (runtime.rs:60-87) -/
inductive Builtin
  | abs | avg | ceil | contains | endsWith | floor | join | keys | length | map | min | max
  | maxBy | minBy | merge | notNull | reverse | sort | sortBy | startsWith | sum | toArray
  | toNumber | toString | type | values
  deriving DecidableEq, Repr, Inhabited

def arrNum : ArgT := .typedArray .number
def arrStr : ArgT := .typedArray .string

/-- the `defn!` signatures (functions.rs) — hand-written copy; `Generated/Signatures.lean` holds the
table re-extracted from the source on every run and `Props/C06` proves them equal. -/
def Builtin.sig : Builtin → Sig
  | .abs => ⟨[.number], none⟩
  | .avg => ⟨[arrNum], none⟩
  | .ceil => ⟨[.number], none⟩
  | .contains => ⟨[.union [.string, .array], .any], none⟩
  | .endsWith => ⟨[.string, .string], none⟩
  | .floor => ⟨[.number], none⟩
  | .join => ⟨[.string, arrStr], none⟩
  | .keys => ⟨[.object], none⟩
  | .length => ⟨[.union [.array, .object, .string]], none⟩
  | .map => ⟨[.expref, .array], none⟩
  | .max => ⟨[.union [arrStr, arrNum]], none⟩
  | .min => ⟨[.union [arrStr, arrNum]], none⟩
  | .maxBy => ⟨[.array, .expref], none⟩
  | .minBy => ⟨[.array, .expref], none⟩
  | .merge => ⟨[.object], some .object⟩
  | .notNull => ⟨[.any], some .any⟩
  | .reverse => ⟨[.union [.array, .string]], none⟩
  | .sort => ⟨[.union [arrStr, arrNum]], none⟩
  | .sortBy => ⟨[.array, .expref], none⟩
  | .startsWith => ⟨[.string, .string], none⟩
  | .sum => ⟨[arrNum], none⟩
  | .toArray => ⟨[.any], none⟩
  | .toNumber => ⟨[.any], none⟩
  | .toString => ⟨[.union [.object, .array, .bool, .number, .string, .null]], none⟩
  | .type => ⟨[.any], none⟩
  | .values => ⟨[.object], none⟩

def Builtin.all : List (String × Builtin) :=
  [("abs", .abs), ("avg", .avg), ("ceil", .ceil), ("contains", .contains), ("ends_with", .endsWith),
   ("floor", .floor), ("join", .join), ("keys", .keys), ("length", .length), ("map", .map),
   ("min", .min), ("max", .max), ("max_by", .maxBy), ("min_by", .minBy), ("merge", .merge),
   ("not_null", .notNull), ("reverse", .reverse), ("sort", .sort), ("sort_by", .sortBy),
   ("starts_with", .startsWith), ("sum", .sum), ("to_array", .toArray), ("to_number", .toNumber),
   ("to_string", .toString), ("type", .type), ("values", .values)]

/-- a registered function: a builtin, or a custom function (`CustomFunction` with a signature, or a
bare closure without one) that reports `{"args": […], "id": n}` — what the harness registers -/
inductive Fn
  | builtin (b : Builtin)
  | custom (id : Nat) (sig : Option Sig)
  deriving Inhabited

/-- `Runtime.functions` as an association list, most recent binding first -/
abbrev Registry := List (String × Fn)

def Registry.get (r : Registry) (name : String) : Option Fn :=
  match r with
  | [] => none
  | (n, f) :: rest => if n = name then some f else Registry.get rest name

/-- `DEFAULT_RUNTIME`: a fresh runtime after `register_builtin_functions` -/
def Registry.default : Registry := Builtin.all.map fun (n, b) => (n, Fn.builtin b)

/-! ### builtins that do not evaluate expression references -/

def numOfF64 (f : F64) (msg : String) : Except EvalErr Val :=
  if f.isFinite then .ok (.num (.flt f)) else .error (.internal msg)

def valNum : Val → Option F64
  | .num n => some n.toF64
  | _ => none

def sumF64 (xs : List Val) : F64 :=
  xs.foldl (fun acc v => F64.add acc ((valNum v).getD F64.zero)) F64.zero

/-- `str::contains` / `starts_with` / `ends_with` on code-point lists -/
def isInfix (needle hay : List Char) : Bool :=
  match hay with
  | [] => needle.isEmpty
  | _ :: t => needle.isPrefixOf hay || isInfix needle t

/-- `std::cmp::max` / `min` folded from the left (ties: `max` keeps the later, `min` the earlier) -/
def foldMax (xs : List Val) : Option Val :=
  match xs with
  | [] => none
  | x :: rest => some (rest.foldl (fun acc v => if Val.cmp acc v == .gt then acc else v) x)
def foldMin (xs : List Val) : Option Val :=
  match xs with
  | [] => none
  | x :: rest => some (rest.foldl (fun acc v => if Val.cmp acc v == .gt then v else acc) x)

/-- `BTreeMap::extend` of the arguments left to right -/
def mergeObjs (acc : List (String × Val)) : List Val → List (String × Val)
  | [] => acc
  | .obj kvs :: rest => mergeObjs (kvs.foldl (fun m (k, v) => insertKV k v m) acc) rest
  | _ :: rest => mergeObjs acc rest

/-- stable sort by `Val.cmp` (`slice::sort` is a stable merge sort) -/
def sortVals (xs : List Val) : List Val := xs.mergeSort (fun a b => Val.cmp a b != .gt)

def sortPairs (xs : List (Val × Val)) : List (Val × Val) :=
  xs.mergeSort (fun a b => Val.cmp a.2 b.2 != .gt)

/-- body of a builtin after `signature.validate` succeeded, for the functions that need no `interpret` -/
def Builtin.pure (b : Builtin) (args : List Val) : Except EvalErr Val :=
  match b, args with
  | .abs, [.num n] => numOfF64 n.toF64.abs "Expected to be a valid f64"
  | .avg, [.arr xs] =>
    if xs.isEmpty then .ok .null
    else numOfF64 (F64.div (sumF64 xs) (F64.ofNat xs.length)) "Expected to be a valid f64"
  | .ceil, [.num n] => numOfF64 n.toF64.ceil "Expected n.ceil() to be a valid f64"
  | .floor, [.num n] => numOfF64 n.toF64.floor "Expected to be a valid number"
  | .contains, [.arr xs, needle] => .ok (.bool (xs.any (fun x => Val.beq x needle)))
  | .contains, [.str s, needle] =>
    (match needle with
     | .str n => .ok (.bool (isInfix n.toList s.toList))
     | _ => .ok (.bool false))
  | .endsWith, [.str s, .str t] => .ok (.bool (t.toList.reverse.isPrefixOf s.toList.reverse))
  | .startsWith, [.str s, .str t] => .ok (.bool (t.toList.isPrefixOf s.toList))
  | .join, [.str glue, .arr xs] =>
    .ok (.str (glue.intercalate (xs.filterMap fun v => match v with | .str s => some s | _ => none)))
  | .keys, [.obj kvs] => .ok (.arr (kvs.map fun (k, _) => .str k))
  | .values, [.obj kvs] => .ok (.arr (kvs.map fun (_, v) => v))
  | .length, [.arr xs] => .ok (.num (.pos xs.length))
  | .length, [.obj kvs] => .ok (.num (.pos kvs.length))
  | .length, [.str s] => .ok (.num (.pos s.toList.length))
  | .max, [.arr xs] => .ok ((foldMax xs).getD .null)
  | .min, [.arr xs] => .ok ((foldMin xs).getD .null)
  | .merge, args => .ok (.obj (mergeObjs [] args))
  | .notNull, args => .ok ((args.find? (fun v => !v.isNull)).getD .null)
  | .reverse, [.arr xs] => .ok (.arr xs.reverse)
  | .reverse, [.str s] => .ok (.str (String.ofList s.toList.reverse))
  | .sort, [.arr xs] => .ok (.arr (sortVals xs))
  | .sum, [.arr xs] => numOfF64 (sumF64 xs) "Expected to be a valid number"
  | .toArray, [.arr xs] => .ok (.arr xs)
  | .toArray, [v] => .ok (.arr [v])
  | .toNumber, [.num n] => .ok (.num n)
  | .toNumber, [.str s] =>
    (match JsonText.parse s.toList with
     | some (.num n) => .ok (.num n)
     | _ => .ok .null)
  | .toNumber, [_] => .ok .null
  | .toString, [.str s] => .ok (.str s)
  | .toString, [v] => .ok (.str (JsonPrint.compact v))
  | .type, [v] => .ok (.str v.type.name)
  | _, _ => .error (.panic "unreachable!() / args index out of bounds")

def Builtin.usesExpref : Builtin → Bool
  | .map | .sortBy | .maxBy | .minBy => true
  | _ => false

def customResult (id : Nat) (args : List Val) : Val :=
  .obj [("args", .arr args), ("id", .num (.pos id))]

abbrev ERes (α : Type) := Except EvalErr (α × Nat)

mutual

/-- `interpret(data, node, ctx)`; the last argument and the second result are `ctx.offset` -/
def interp (rt : Registry) : Nat → Val → Ast → Nat → ERes Val
  | 0, _, _, _ => .error .fuel
  | fuel + 1, data, node, off =>
    match node with
    | .field _ name => .ok (data.getField name, off)
    | .subexpr _ lhs rhs =>
      match interp rt fuel data lhs off with
      | .error e => .error e
      | .ok (l, off) => interp rt fuel l rhs off
    | .identity _ => .ok (data, off)
    | .literal _ v => .ok (v, off)
    | .index _ i =>
      (match data with
       | .arr xs => .ok ((indexList xs i).getD .null, off)
       | _ => .ok (.null, off))
    | .or _ lhs rhs =>
      match interp rt fuel data lhs off with
      | .error e => .error e
      | .ok (l, off) => if l.truthy then .ok (l, off) else interp rt fuel data rhs off
    | .and _ lhs rhs =>
      match interp rt fuel data lhs off with
      | .error e => .error e
      | .ok (l, off) => if !l.truthy then .ok (l, off) else interp rt fuel data rhs off
    | .not _ a =>
      match interp rt fuel data a off with
      | .error e => .error e
      | .ok (v, off) => .ok (.bool (!v.truthy), off)
    | .condition _ pred thn =>
      match interp rt fuel data pred off with
      | .error e => .error e
      | .ok (c, off) => if c.truthy then interp rt fuel data thn off else .ok (.null, off)
    | .comparison _ c lhs rhs =>
      match interp rt fuel data lhs off with
      | .error e => .error e
      | .ok (l, off) =>
        match interp rt fuel data rhs off with
        | .error e => .error e
        | .ok (r, off) =>
          match Val.compare c l r with
          | some b => .ok (.bool b, off)
          | none => .ok (.null, off)
    | .objectValues _ a =>
      match interp rt fuel data a off with
      | .error e => .error e
      | .ok (.obj kvs, off) => .ok (.arr (kvs.map fun (_, v) => v), off)
      | .ok (_, off) => .ok (.null, off)
    | .projection _ lhs rhs =>
      match interp rt fuel data lhs off with
      | .error e => .error e
      | .ok (.arr xs, off) =>
        match projectEach rt fuel xs rhs off with
        | .error e => .error e
        | .ok (ys, off) => .ok (.arr ys, off)
      | .ok (_, off) => .ok (.null, off)
    | .flatten _ a =>
      match interp rt fuel data a off with
      | .error e => .error e
      | .ok (.arr xs, off) =>
        .ok (.arr (xs.flatMap fun x => match x with | .arr ys => ys | other => [other]), off)
      | .ok (_, off) => .ok (.null, off)
    | .multiList _ es =>
      if data.isNull then .ok (.null, off)
      else
        match interpAll rt fuel data es off with
        | .error e => .error e
        | .ok (vs, off) => .ok (.arr vs, off)
    | .multiHash _ kvs =>
      if data.isNull then .ok (.null, off)
      else
        match interpKVs rt fuel data kvs [] off with
        | .error e => .error e
        | .ok (m, off) => .ok (.obj m, off)
    | .function o name args =>
      match interpAll rt fuel data args off with
      | .error e => .error e
      | .ok (vs, prev) =>
        -- `let previous_offset = ctx.offset; ctx.offset = offset;` … `ctx.offset = previous_offset`
        match rt.get name with
        | some f =>
          (match callFn rt fuel f vs o with
           | .error e => .error e
           | .ok (v, _) => .ok (v, prev))
        | none => .error (.runtime (.unknownFunction name) o)
    | .expref _ a => .ok (.expref a, off)
    | .slice o start stop step =>
      if step = 0 then .error (.runtime .invalidSlice o)
      else
        match data with
        | .arr xs =>
          (match sliceList xs start stop step with
           | .ok ys => .ok (.arr ys, off)
           | .error _ => .error (.panic "slice"))
        | _ => .ok (.null, off)

/-- the `for element in left` loop of `Ast::Projection`: evaluate, drop nulls -/
def projectEach (rt : Registry) : Nat → List Val → Ast → Nat → ERes (List Val)
  | 0, _, _, _ => .error .fuel
  | fuel + 1, xs, rhs, off =>
    match xs with
    | [] => .ok ([], off)
    | x :: rest =>
      match interp rt fuel x rhs off with
      | .error e => .error e
      | .ok (v, off) =>
        match projectEach rt fuel rest rhs off with
        | .error e => .error e
        | .ok (vs, off) => .ok (if v.isNull then vs else v :: vs, off)

/-- evaluate a list of nodes against the same data, in order (`MultiList`, function arguments) -/
def interpAll (rt : Registry) : Nat → Val → List Ast → Nat → ERes (List Val)
  | 0, _, _, _ => .error .fuel
  | fuel + 1, data, nodes, off =>
    match nodes with
    | [] => .ok ([], off)
    | n :: rest =>
      match interp rt fuel data n off with
      | .error e => .error e
      | .ok (v, off) =>
        match interpAll rt fuel data rest off with
        | .error e => .error e
        | .ok (vs, off) => .ok (v :: vs, off)

/-- `MultiHash`: evaluate each value, `BTreeMap::insert` under its key -/
def interpKVs (rt : Registry) : Nat → Val → List (String × Ast) → List (String × Val) → Nat →
    ERes (List (String × Val))
  | 0, _, _, _, _ => .error .fuel
  | fuel + 1, data, kvs, acc, off =>
    match kvs with
    | [] => .ok (acc, off)
    | (k, n) :: rest =>
      match interp rt fuel data n off with
      | .error e => .error e
      | .ok (v, off) => interpKVs rt fuel data rest (insertKV k v acc) off

/-- evaluate an expression reference against every element (`map`, `sort_by`, `max_by`, `min_by`) -/
def mapExpref (rt : Registry) : Nat → List Val → Ast → Nat → ERes (List Val)
  | 0, _, _, _ => .error .fuel
  | fuel + 1, xs, a, off =>
    match xs with
    | [] => .ok ([], off)
    | x :: rest =>
      match interp rt fuel x a off with
      | .error e => .error e
      | .ok (v, off) =>
        match mapExpref rt fuel rest a off with
        | .error e => .error e
        | .ok (vs, off) => .ok (v :: vs, off)

/-- the key loop of `sort_by` / `min_and_max_by!`: evaluate the reference on each element after
the first, failing at the first key whose type differs (invocation = element index) -/
def keysTyped (rt : Registry) : Nat → List Val → Ast → JType → Nat → Nat → ERes (List Val)
  | 0, _, _, _, _, _ => .error .fuel
  | fuel + 1, xs, a, ty, inv, off =>
    match xs with
    | [] => .ok ([], off)
    | x :: rest =>
      match interp rt fuel x a off with
      | .error e => .error e
      | .ok (v, off) =>
        if v.type ≠ ty then
          .error (.runtime (.invalidReturnType ("expression->" ++ ty.name) v.type.name 1 inv) off)
        else
          match keysTyped rt fuel rest a ty (inv + 1) off with
          | .error e => .error e
          | .ok (vs, off) => .ok (v :: vs, off)

/-- `Function::evaluate(args, ctx)` with `ctx.offset = off` on entry -/
def callFn (rt : Registry) : Nat → Fn → List Val → Nat → ERes Val
  | 0, _, _, _ => .error .fuel
  | fuel + 1, f, args, off =>
    match f with
    | .custom id sig =>
      (match sig with
       | some s =>
         match s.validate args off with
         | .error e => .error e
         | .ok () => .ok (customResult id args, off)
       | none => .ok (customResult id args, off))
    | .builtin b =>
      match b.sig.validate args off with
      | .error e => .error e
      | .ok () =>
        match b, args with
        | .map, [.expref a, .arr xs] =>
          (match mapExpref rt fuel xs a off with
           | .error e => .error e
           | .ok (vs, off) => .ok (.arr vs, off))
        | .sortBy, [.arr xs, .expref a] =>
          (match xs with
           | [] => .ok (.arr [], off)
           | x :: rest =>
             match interp rt fuel x a off with
             | .error e => .error e
             | .ok (k0, off) =>
               if k0.type ≠ .string ∧ k0.type ≠ .number then
                 .error (.runtime (.invalidReturnType "expression->string|expression->number" k0.type.name 1 1) off)
               else
                 match keysTyped rt fuel rest a k0.type 1 off with
                 | .error e => .error e
                 | .ok (ks, off) =>
                   .ok (.arr ((sortPairs ((x :: rest).zip (k0 :: ks))).map (·.1)), off))
        | .maxBy, [.arr xs, .expref a] => byExtreme rt fuel true xs a off
        | .minBy, [.arr xs, .expref a] => byExtreme rt fuel false xs a off
        | b, args =>
          if b.usesExpref then .error (.panic "unreachable: validated expref signature")
          else
            match b.pure args with
            | .error e => .error e
            | .ok v => .ok (v, off)

/-- `min_and_max_by!` -/
def byExtreme (rt : Registry) : Nat → Bool → List Val → Ast → Nat → ERes Val
  | 0, _, _, _, _ => .error .fuel
  | fuel + 1, isMax, xs, a, off =>
    match xs with
    | [] => .ok (.null, off)
    | x :: rest =>
      match interp rt fuel x a off with
      | .error e => .error e
      | .ok (k0, off) =>
        if k0.type ≠ .string ∧ k0.type ≠ .number then
          .error (.runtime (.invalidReturnType "expression->number|expression->string" k0.type.name 1 1) off)
        else
          match keysTyped rt fuel rest a k0.type 1 off with
          | .error e => .error e
          | .ok (ks, off) =>
            let pick := (rest.zip ks).foldl
              (fun (cand : Val × Val) (vk : Val × Val) =>
                if isMax then (if Val.cmp vk.2 cand.2 == .gt then vk else cand)
                else (if Val.cmp vk.2 cand.2 == .lt then vk else cand))
              (x, k0)
            .ok (pick.1, off)

end

/-- `Expression::search(data)`: a fresh `Context` (offset 0) per search.  Fuel: the recursion
depth of `interpret` is bounded by the sizes of the tree and of every expref reachable from the
data; callers pass a budget and `EvalErr.fuel` signals that it was exceeded. -/
def search (rt : Registry) (fuel : Nat) (a : Ast) (data : Val) : Except EvalErr Val :=
  match interp rt fuel data a 0 with
  | .ok (v, _) => .ok v
  | .error e => .error e

end JmesVerif
