import JmesVerif.Model.Interp
import JmesVerif.Lemmas.F64Spec
/-!
# The JMESPath built-in function specification, as a relation

`Spec.Fn.result b args ev v` — "`v` is a value the JMESPath specification
(<https://jmespath.org/specification.html#built-in-functions>) allows the call `b(args)` to return",
written in the vocabulary of the specification (permutation, ascending, stable, extreme element,
prefix / suffix / substring on code points, lookup in the last object that binds the key, correctly
rounded IEEE sum, …) and *not* in the vocabulary of `functions.rs` / `Builtin.pure` (no fold with a
candidate, no merge sort, no `BTreeMap::insert`, no `filterMap`).  Only the argument *shapes* that the
declared signatures accept are given a meaning; on any other shape the relation is empty.

`ev e x` is the value of the expression reference `e` on the element `x` (`none`: the evaluation
fails); `map`, `sort_by`, `max_by`, `min_by` are specified relative to it: the list of keys / images
`ks` with `xs.map (ev e) = ks.map some` is "`e` evaluated once per element, against that element, in
order, all successfully".

Numbers.  A number denotes the rational its double image denotes (`numVal`); results that would not be
finite doubles have no specified value (the implementation reports an error there: finding F14).

Relational (a characterization; several implementations' answers may satisfy it): `abs ceil floor sum
avg contains ends_with starts_with join keys values max min max_by min_by merge not_null sort sort_by
map to_number`.  Functional (the value is written down with standard list / string functions):
`length reverse to_array to_string type`.

Choices of this implementation that the JMESPath text leaves open and that the relation therefore
does **not** fix (they are pinned separately by `C02_max`, `C02_min`, `C02_max_by`, `C02_min_by` in
`Props/C02.lean`): among several extreme elements `max` returns the *last*, `min` the *first*,
`max_by` and `min_by` the *first*.  A choice that the relation *does* fix although JMESPath leaves it
open: `keys` / `values` enumerate in ascending key order (the only order this implementation's objects
have).
-/
namespace JmesVerif.Spec.Fn

/-- evaluation of an expression reference on an element (`none` = the evaluation fails) -/
abbrev Ev := Ast → Val → Option Val

/-- the numeric value of a number: the rational its double image denotes -/
def numVal (n : Num) : Rat := n.toF64.toRat

/-- a genuine JSON number: a finite double in canonical form (what `serde_json::Number` holds) -/
def Genuine (n : Num) : Prop := n.toF64.isFinite = true ∧ n.toF64.Canon

/-- `v` is the (finite) number whose value is exactly `q` -/
def IsNumber (v : Val) (q : Rat) : Prop := ∃ n, v = .num n ∧ n.toF64.isFinite = true ∧ numVal n = q

/-- the order of the language on two strings (lexicographic by Unicode code point) or two numbers
(by numeric value); values of different or other types are not ordered -/
def Le : Val → Val → Prop
  | .str a, .str b => a.toList ≤ b.toList
  | .num a, .num b => numVal a ≤ numVal b
  | _, _ => False

/-- all strings, or all numbers -/
def SameKind (ks : List Val) : Prop := (∀ k ∈ ks, ∃ s, k = .str s) ∨ (∀ k ∈ ks, ∃ n, k = .num n)

/-- `ys` lists the elements of `xs` in ascending order of `key`, equal keys in input order -/
def StableAscending {α : Type} (key : α → Val) (xs ys : List α) : Prop :=
  ys.Perm xs ∧ ys.Pairwise (fun a b => Le (key a) (key b)) ∧
  ∀ a b, Le (key a) (key b) → [a, b].Sublist xs → [a, b].Sublist ys

/-- the object is well formed: member names strictly ascending (hence distinct) -/
def AscendingKeys (kvs : List (String × Val)) : Prop := kvs.Pairwise (fun a b => a.1 < b.1)

/-- well-formed argument: numbers (also as array elements) are genuine, objects have ascending names -/
def WellFormed : Val → Prop
  | .num n => Genuine n
  | .arr xs => ∀ n, Val.num n ∈ xs → Genuine n
  | .obj kvs => AscendingKeys kvs
  | _ => True

/-- the value bound to `k` in an object -/
abbrev member (k : String) (kvs : List (String × Val)) : Option Val := Val.lookup k kvs

/-! ### numbers -/

def absSpec : List Val → Val → Prop
  | [.num n], v => IsNumber v (numVal n).abs
  | _, _ => False

def ceilSpec : List Val → Val → Prop
  | [.num n], v => IsNumber v ((numVal n).ceil : Rat)
  | _, _ => False

def floorSpec : List Val → Val → Prop
  | [.num n], v => IsNumber v ((numVal n).floor : Rat)
  | _, _ => False

/-- `IeeeSum acc xs r`: adding the numbers `xs` to `acc` from left to right, each addition being the
IEEE-754 round-to-nearest-even image of the exact sum and every partial sum finite, gives `r` -/
inductive IeeeSum : F64 → List Val → F64 → Prop
  | nil (acc : F64) : IeeeSum acc [] acc
  | cons (acc : F64) (n : Num) (rest : List Val) (s r : F64) :
      F64.IEEERounded (acc.toRat + numVal n) s → s.isFinite = true → IeeeSum s rest r →
      IeeeSum acc (.num n :: rest) r

/-- `sum`: the left-to-right IEEE sum starting from `+0` -/
def sumSpec : List Val → Val → Prop
  | [.arr xs], v => ∃ n, v = .num n ∧ n.toF64.isFinite = true ∧ IeeeSum F64.zero xs n.toF64
  | _, _ => False

/-- `avg`: `null` for the empty array; otherwise a number, and for arrays of at most 2^53 elements
(lengths that convert to a double exactly; no machine holds a longer array) the IEEE-rounded quotient
of the IEEE sum by the length -/
def avgSpec : List Val → Val → Prop
  | [.arr xs], v =>
    (xs = [] ∧ v = .null) ∨
    (xs ≠ [] ∧ ∃ n, v = .num n ∧ n.toF64.isFinite = true ∧
      (xs.length ≤ 2 ^ 53 → ∃ s, IeeeSum F64.zero xs s ∧
        F64.IEEERounded (s.toRat / (xs.length : Rat)) n.toF64))
  | _, _ => False

/-! ### strings and searching -/

/-- a boolean result `v` that is `true` exactly when `P` holds -/
def IsBool (v : Val) (P : Prop) : Prop := ∃ b : Bool, v = .bool b ∧ (b = true ↔ P)

/-- `contains(subject, search)`: substring on code points for a string subject and a string search
(`false` for a search that is not a string); for an array subject, some element is `==` to the search
(`Val.beq` is the language's `==`) -/
def containsSpec : List Val → Val → Prop
  | [.str s, .str n], v => IsBool v (∃ pre suf, s.toList = pre ++ n.toList ++ suf)
  | [.str _, _], v => v = .bool false
  | [.arr xs, needle], v => IsBool v (∃ x ∈ xs, Val.beq x needle = true)
  | _, _ => False

def startsWithSpec : List Val → Val → Prop
  | [.str s, .str t], v => IsBool v (∃ suf, s.toList = t.toList ++ suf)
  | _, _ => False

def endsWithSpec : List Val → Val → Prop
  | [.str s, .str t], v => IsBool v (∃ pre, s.toList = pre ++ t.toList)
  | _, _ => False

/-- `join(glue, strings)`: the strings with the glue between consecutive ones -/
def joinSpec : List Val → Val → Prop
  | [.str glue, .arr xs], v => ∃ ss : List String, xs = ss.map .str ∧ v = .str (glue.intercalate ss)
  | _, _ => False

/-- `length`: code points of a string, elements of an array, members of an object (functional) -/
def lengthSpec : List Val → Val → Prop
  | [.str s], v => v = .num (.pos s.toList.length)
  | [.arr xs], v => v = .num (.pos xs.length)
  | [.obj kvs], v => v = .num (.pos kvs.length)
  | _, _ => False

/-- `reverse`: elements, resp. code points, in opposite order (functional) -/
def reverseSpec : List Val → Val → Prop
  | [.arr xs], v => v = .arr xs.reverse
  | [.str s], v => v = .str (String.ofList s.toList.reverse)
  | _, _ => False

/-! ### objects -/

/-- `ks` are exactly the member names of the object, in ascending order -/
def IsKeyList (kvs : List (String × Val)) (ks : List String) : Prop :=
  ks.Pairwise (· < ·) ∧ ∀ k, k ∈ ks ↔ (member k kvs).isSome = true

def keysSpec : List Val → Val → Prop
  | [.obj kvs], v => ∃ ks, IsKeyList kvs ks ∧ v = .arr (ks.map .str)
  | _, _ => False

/-- `values(o)[i]` is the value `o` binds to `keys(o)[i]` -/
def valuesSpec : List Val → Val → Prop
  | [.obj kvs], v => ∃ ks vs, IsKeyList kvs ks ∧ v = .arr vs ∧ ks.map (fun k => member k kvs) = vs.map some
  | _, _ => False

/-- the value of `k` in the last argument that binds `k` -/
def LastBound (k : String) (args : List Val) (r : Option Val) : Prop :=
  (∃ pre kvs suf x, args = pre ++ .obj kvs :: suf ∧ member k kvs = some x ∧ r = some x ∧
      ∀ kvs', Val.obj kvs' ∈ suf → member k kvs' = none) ∨
  (r = none ∧ ∀ kvs', Val.obj kvs' ∈ args → member k kvs' = none)

/-- `merge`: a well-formed object in which every name is bound as in the last argument binding it -/
def mergeSpec (args : List Val) (v : Val) : Prop :=
  ∃ m, v = .obj m ∧ AscendingKeys m ∧ ∀ k, LastBound k args (member k m)

/-! ### arrays: extreme elements and sorting -/

/-- `max`: `null` for the empty array, otherwise an element that is `≥` every element
(which one among several is left open) -/
def maxSpec : List Val → Val → Prop
  | [.arr xs], v => (xs = [] ∧ v = .null) ∨ (v ∈ xs ∧ ∀ x ∈ xs, Le x v)
  | _, _ => False

def minSpec : List Val → Val → Prop
  | [.arr xs], v => (xs = [] ∧ v = .null) ∨ (v ∈ xs ∧ ∀ x ∈ xs, Le v x)
  | _, _ => False

/-- `sort`: a stable ascending permutation -/
def sortSpec : List Val → Val → Prop
  | [.arr xs], v => ∃ ys, v = .arr ys ∧ StableAscending id xs ys
  | _, _ => False

/-- `sort_by(xs, &e)`: the keys are all strings or all numbers, and the result lists the elements in a
stable ascending order of their keys -/
def sortBySpec (ev : Ev) : List Val → Val → Prop
  | [.arr xs, .expref e], v => ∃ ks ps, xs.map (ev e) = ks.map some ∧ SameKind ks ∧
      StableAscending (·.2) (xs.zip ks) ps ∧ v = .arr (ps.map (·.1))
  | _, _ => False

/-- `max_by(xs, &e)`: `null` for the empty array, otherwise an element whose key is `≥` every key -/
def maxBySpec (ev : Ev) : List Val → Val → Prop
  | [.arr xs, .expref e], v => ∃ ks, xs.map (ev e) = ks.map some ∧ SameKind ks ∧
      ((xs = [] ∧ v = .null) ∨ ∃ p ∈ xs.zip ks, v = p.1 ∧ ∀ q ∈ xs.zip ks, Le q.2 p.2)
  | _, _ => False

def minBySpec (ev : Ev) : List Val → Val → Prop
  | [.arr xs, .expref e], v => ∃ ks, xs.map (ev e) = ks.map some ∧ SameKind ks ∧
      ((xs = [] ∧ v = .null) ∨ ∃ p ∈ xs.zip ks, v = p.1 ∧ ∀ q ∈ xs.zip ks, Le p.2 q.2)
  | _, _ => False

/-- `map(&e, xs)`: the array of the values of `e` on the elements, in order — same length, `null`
results kept -/
def mapSpec (ev : Ev) : List Val → Val → Prop
  | [.expref e, .arr xs], v => ∃ ys, v = .arr ys ∧ xs.map (ev e) = ys.map some
  | _, _ => False

/-! ### conversions -/

/-- `not_null`: the first argument that is not `null`; `null` if there is none -/
def notNullSpec (args : List Val) (v : Val) : Prop :=
  (∃ pre suf, args = pre ++ v :: suf ∧ (∀ x ∈ pre, x = .null) ∧ v ≠ .null) ∨
  ((∀ x ∈ args, x = .null) ∧ v = .null)

/-- `to_array`: arrays unchanged, anything else wrapped (functional) -/
def toArraySpec : List Val → Val → Prop
  | [.arr xs], v => v = .arr xs
  | [a], v => v = .arr [a]
  | _, _ => False

/-- `to_string`: strings unchanged, anything else as its compact JSON text (functional) -/
def toStringSpec : List Val → Val → Prop
  | [.str s], v => v = .str s
  | [a], v => v = .str (JsonPrint.compact a)
  | _, _ => False

/-- JSON's insignificant whitespace -/
def isJsonWs (c : Char) : Prop := c = ' ' ∨ c = '\n' ∨ c = '\t' ∨ c = '\r'

/-- `s` conforms to the `json-number` production and denotes `n`: it reads as the number `n`
(`JsonText.parse` is the JSON reader) and contains no whitespace — a JSON text that reads as a number
and contains no whitespace is one bare number token -/
def IsNumberText (s : String) (n : Num) : Prop :=
  JsonText.parse s.toList = some (.num n) ∧ ∀ c ∈ s.toList, ¬ isJsonWs c

/-- `to_number`: numbers unchanged; a string that conforms to `json-number` gives that number;
everything else `null` -/
def toNumberSpec : List Val → Val → Prop
  | [.num n], v => v = .num n
  | [.str s], v => (∃ n, IsNumberText s n ∧ v = .num n) ∨ ((∀ n, ¬ IsNumberText s n) ∧ v = .null)
  | [_], v => v = .null
  | _, _ => False

/-- the JMESPath type names -/
def typeName : Val → String
  | .null => "null" | .bool _ => "boolean" | .num _ => "number" | .str _ => "string"
  | .arr _ => "array" | .obj _ => "object" | .expref _ => "expref"

def typeSpec : List Val → Val → Prop
  | [a], v => v = .str (typeName a)
  | _, _ => False

/-- **the function specification**: `v` is an allowed result of `b(args)` -/
def result (b : Builtin) (args : List Val) (ev : Ev) (v : Val) : Prop :=
  match b with
  | .abs => absSpec args v
  | .avg => avgSpec args v
  | .ceil => ceilSpec args v
  | .contains => containsSpec args v
  | .endsWith => endsWithSpec args v
  | .floor => floorSpec args v
  | .join => joinSpec args v
  | .keys => keysSpec args v
  | .length => lengthSpec args v
  | .map => mapSpec ev args v
  | .min => minSpec args v
  | .max => maxSpec args v
  | .maxBy => maxBySpec ev args v
  | .minBy => minBySpec ev args v
  | .merge => mergeSpec args v
  | .notNull => notNullSpec args v
  | .reverse => reverseSpec args v
  | .sort => sortSpec args v
  | .sortBy => sortBySpec ev args v
  | .startsWith => startsWithSpec args v
  | .sum => sumSpec args v
  | .toArray => toArraySpec args v
  | .toNumber => toNumberSpec args v
  | .toString => toStringSpec args v
  | .type => typeSpec args v
  | .values => valuesSpec args v

end JmesVerif.Spec.Fn
