import JmesVerif.Spec.Grammar
import JmesVerif.Model.Encode
/-
Executable mirrors of `Legal` (Bool-valued) used only by the driver's `t1` self-check stream:
every successful parse is checked against the statement of theorem T1 on the concrete case
(yield, legality, stop conditions, tree).  Nothing here is used in a proof.
-/
namespace JmesVerif
namespace GrammarCheck

mutual
def nudLegalB : Nud → Bool
  | .call _ args => argsLegalB args
  | .star r => rhsLegalB 20 r
  | .slice _ r => rhsLegalB 20 r
  | .wildIdx r => rhsLegalB 20 r
  | .mlist es => !es.isEmpty && !isStarOnly es && argsLegalB es
  | .flatten r => rhsLegalB 9 r
  | .mhash kvs => !kvs.isEmpty && kvsLegalB kvs
  | .not e => exprLegalB 45 e
  | .filter p r => exprLegalB 0 p && rhsLegalB 21 r
  | .paren e => exprLegalB 0 e
  | .expref e => exprLegalB 0 e
  | _ => true
def ledLegalB : Led → Bool
  | .dotStar r => rhsLegalB 20 r
  | .dot d => dotLegalB 40 d && !d.startsWithStar
  | .index _ => true
  | .sliceL _ r => rhsLegalB 20 r
  | .wildIdxL r => rhsLegalB 20 r
  | .or e => exprLegalB 2 e
  | .and e => exprLegalB 3 e
  | .pipe e => exprLegalB 1 e
  | .cmp _ e => exprLegalB 5 e
  | .flattenL r => rhsLegalB 9 r
  | .filterL p r => exprLegalB 0 p && rhsLegalB 21 r
  | .callDev args => argsLegalB args
def rhsLegalB (k : Nat) : Rhs → Bool
  | .none => true
  | .dot d => dotLegalB k d
  | .bracket e => exprLegalB k e && e.headIsBracket
def dotLegalB (k : Nat) : DotRhs → Bool
  | .mlist es => !es.isEmpty && argsLegalB es
  | .expr e => exprLegalB k e && e.headIsDot
def exprLegalB (rbp : Nat) : Expr → Bool
  | .mk h ls => nudLegalB h && chainB rbp h.follow ls &&
      (match ls with
       | [] => true
       | l :: rest => (!l.isCallDev || (match h with | .paren e => e.isField | _ => false)) && rest.all (fun l' => !l'.isCallDev))
def chainB (rbp : Nat) (f : Nat) : List Led → Bool
  | [] => true
  | l :: ls => decide (rbp < l.lbp) && decide (l.lbp ≤ f) && ledLegalB l && chainB rbp l.follow ls
def argsLegalB : List Expr → Bool
  | [] => true
  | e :: es => exprLegalB 0 e && argsLegalB es
def kvsLegalB : List (Bool × String × Expr) → Bool
  | [] => true
  | (_, _, e) :: r => exprLegalB 0 e && kvsLegalB r
end

def tokStr : Tok → String
  | .identifier s => "id:" ++ s | .quotedIdentifier s => "qid:" ++ s | .number n => s!"num:{n}"
  | .literal v => "lit:" ++ Enc.valStr v
  | .dot => "." | .star => "*" | .flatten => "[]" | .and => "&&" | .or => "||" | .pipe => "|" | .filter => "[?"
  | .lbracket => "[" | .rbracket => "]" | .comma => "," | .colon => ":" | .not => "!" | .ne => "!=" | .eq => "=="
  | .gt => ">" | .gte => ">=" | .lt => "<" | .lte => "<=" | .at => "@" | .ampersand => "&" | .lparen => "("
  | .rparen => ")" | .lbrace => "{" | .rbrace => "}" | .eof => "EOF"

/-- deviation markers: F3 (call on parenthesised field), F4 (multi-select list as bracket rhs),
F5 (expref outside a call argument), F16 (application after a dotted multi-select list that a
projection would have absorbed) — counts only, for classification by the check -/
structure Dev where
  f3 : Nat := 0
  f4 : Nat := 0
  f5 : Nat := 0
  f16 : Nat := 0

def Dev.add (a b : Dev) : Dev := ⟨a.f3 + b.f3, a.f4 + b.f4, a.f5 + b.f5, a.f16 + b.f16⟩

/-! `tailK x` = the power of the innermost projection right-hand side that ends `x` with a dotted
multi-select list (`….[a, b]`): the published rule would let that right-hand side absorb a
following application binding tighter than this power; the code (like `jmespath.py`) returns
to the enclosing loop instead (F16). -/
mutual
def tailKNud : Nud → Option Nat
  | .star r | .slice _ r | .wildIdx r => tailKRhs 20 r
  | .flatten r => tailKRhs 9 r
  | .filter _ r => tailKRhs 21 r
  | .not e | .expref e => tailKExpr e
  | _ => none
def tailKLed : Led → Option Nat
  | .dotStar r | .sliceL _ r | .wildIdxL r => tailKRhs 20 r
  | .dot d => tailKDot d
  | .flattenL r => tailKRhs 9 r
  | .filterL _ r => tailKRhs 21 r
  | .or e | .and e | .pipe e | .cmp _ e => tailKExpr e
  | _ => none
def tailKRhs (k : Nat) : Rhs → Option Nat
  | .none => none
  | .dot (.mlist _) => some k
  | .dot (.expr e) => tailKExpr e
  | .bracket e => tailKExpr e
def tailKDot : DotRhs → Option Nat
  | .mlist _ => none
  | .expr e => tailKExpr e
def tailKExpr : Expr → Option Nat
  | .mk h ls => tailKLeds (tailKNud h) ls
def tailKLeds (cur : Option Nat) : List Led → Option Nat
  | [] => cur
  | l :: ls => tailKLeds (tailKLed l) ls
end

/-- number of applications in this chain that the published rule would have put inside a
preceding projection's right-hand side -/
def f16Chain (cur : Option Nat) : List Led → Nat
  | [] => 0
  | l :: ls =>
    (match cur with
     | some k => if l.lbp > k then 1 else 0
     | none => 0) + f16Chain (tailKLed l) ls

mutual
def nudDev : Nud → Dev
  | .call _ args => argsDev true args
  | .star r => rhsDev r
  | .slice _ r => rhsDev r
  | .wildIdx r => rhsDev r
  | .mlist es => argsDev false es
  | .flatten r => rhsDev r
  | .mhash kvs => kvsDev kvs
  | .not e => exprDev false e
  | .filter p r => (exprDev false p).add (rhsDev r)
  | .paren e => exprDev false e
  | .expref e => exprDev false e
  | _ => {}
def ledDev : Led → Dev
  | .dotStar r => rhsDev r
  | .dot d => dotDev d
  | .sliceL _ r => rhsDev r
  | .wildIdxL r => rhsDev r
  | .or e | .and e | .pipe e | .cmp _ e => exprDev false e
  | .flattenL r => rhsDev r
  | .filterL p r => (exprDev false p).add (rhsDev r)
  | .callDev args => (argsDev true args).add { f3 := 1 }
  | _ => {}
def rhsDev : Rhs → Dev
  | .none => {}
  | .dot d => dotDev d
  | .bracket e =>
    (exprDev false e).add (match e with | .mk (.mlist _) _ => { f4 := 1 } | _ => {})
def dotDev : DotRhs → Dev
  | .mlist es => argsDev false es
  | .expr e => exprDev false e
/-- `argTop` = this expression is a function argument (where `&e` is grammatical) -/
def exprDev (argTop : Bool) : Expr → Dev
  | .mk h ls =>
    let d := ((nudDev h).add (ledsDev ls)).add { f16 := f16Chain (tailKNud h) ls }
    match h with
    | .expref _ => if argTop && ls.isEmpty then d else d.add { f5 := 1 }
    | _ => d
def ledsDev : List Led → Dev
  | [] => {}
  | l :: ls => (ledDev l).add (ledsDev ls)
def argsDev (argTop : Bool) : List Expr → Dev
  | [] => {}
  | e :: es => (exprDev argTop e).add (argsDev argTop es)
def kvsDev : List (Bool × String × Expr) → Dev
  | [] => {}
  | (_, _, e) :: r => (exprDev false e).add (kvsDev r)
end

end GrammarCheck
end JmesVerif
