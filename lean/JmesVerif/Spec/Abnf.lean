import JmesVerif.Spec.GrammarCheck
/-
The published JMESPath grammar (the ABNF of the specification), transcribed production by production
as a context-free grammar over *tokens* — with none of the binding-power machinery of `Spec/Grammar.lean`.
It is ambiguous, as the ABNF is: it says which token strings are sentences, not how they are grouped
(grouping is C04's subject).  Lexical productions (`unquoted-string`, `quoted-string`, `number`,
`raw-string`, `literal`, `json-value`) are the lexer's business: here they are single tokens
(`identifier`, `quotedIdentifier`, `number`, `literal`; a raw string is a `literal` token holding a string).

    expression        = sub-expression / index-expression / comparator-expression / or-expression / identifier
                      / and-expression / not-expression / paren-expression / "*" / multi-select-list
                      / multi-select-hash / literal / function-expression / pipe-expression / raw-string / current-node
    sub-expression    = expression "." ( identifier / multi-select-list / multi-select-hash / function-expression / "*" )
    pipe-expression   = expression "|" expression          or-expression  = expression "||" expression
    and-expression    = expression "&&" expression         not-expression = "!" expression
    paren-expression  = "(" expression ")"
    index-expression  = expression bracket-specifier / bracket-specifier
    multi-select-list = "[" ( expression *( "," expression ) ) "]"
    multi-select-hash = "{" ( keyval-expr *( "," keyval-expr ) ) "}"        keyval-expr = identifier ":" expression
    bracket-specifier = "[" (number / "*" / slice-expression) "]" / "[]" / "[?" expression "]"
    comparator-expression = expression comparator expression
    slice-expression  = [number] ":" [number] [ ":" [number] ]
    function-expression = unquoted-string ( no-args / one-or-more-args )
    no-args = "(" ")"      one-or-more-args = "(" ( function-arg *( "," function-arg ) ) ")"
    function-arg = expression / expression-type            expression-type = "&" expression
    identifier = unquoted-string / quoted-string
-/
namespace JmesVerif
namespace Abnf

/-- `identifier = unquoted-string / quoted-string` -/
inductive Ident : List Tok → Prop
  | unquoted (s : String) : Ident [.identifier s]
  | quoted (s : String) : Ident [.quotedIdentifier s]

/-- `comparator = "<" / "<=" / "==" / ">=" / ">" / "!="` -/
inductive Comparator : Tok → Prop
  | lt : Comparator .lt | lte : Comparator .lte | eq : Comparator .eq
  | gte : Comparator .gte | gt : Comparator .gt | ne : Comparator .ne

/-- `[number]` -/
inductive OptNum : List Tok → Prop
  | none : OptNum []
  | some (n : Int) : OptNum [.number n]

/-- `slice-expression = [number] ":" [number] [ ":" [number] ]` -/
inductive SliceExpr : List Tok → Prop
  | two {a b : List Tok} : OptNum a → OptNum b → SliceExpr (a ++ .colon :: b)
  | three {a b c : List Tok} : OptNum a → OptNum b → OptNum c → SliceExpr (a ++ .colon :: (b ++ .colon :: c))

mutual
/-- `expression` -/
inductive Expression : List Tok → Prop
  | sub {e r : List Tok} : Expression e → SubRhs r → Expression (e ++ .dot :: r)
  | index {e b : List Tok} : Expression e → BracketSpecifier b → Expression (e ++ b)
  | bracket {b : List Tok} : BracketSpecifier b → Expression b
  | comparator {l r : List Tok} {c : Tok} : Expression l → Comparator c → Expression r → Expression (l ++ c :: r)
  | or {l r : List Tok} : Expression l → Expression r → Expression (l ++ .or :: r)
  | identifier {i : List Tok} : Ident i → Expression i
  | and {l r : List Tok} : Expression l → Expression r → Expression (l ++ .and :: r)
  | not {e : List Tok} : Expression e → Expression (.not :: e)
  | paren {e : List Tok} : Expression e → Expression (.lparen :: (e ++ [.rparen]))
  | star : Expression [.star]
  | multiSelectList {m : List Tok} : MultiSelectList m → Expression m
  | multiSelectHash {m : List Tok} : MultiSelectHash m → Expression m
  | literal (v : Val) : Expression [.literal v]          -- `literal` and `raw-string`
  | function {f : List Tok} : FunctionExpression f → Expression f
  | pipe {l r : List Tok} : Expression l → Expression r → Expression (l ++ .pipe :: r)
  | currentNode : Expression [.at]
/-- what may follow the dot of a `sub-expression` -/
inductive SubRhs : List Tok → Prop
  | identifier {i : List Tok} : Ident i → SubRhs i
  | multiSelectList {m : List Tok} : MultiSelectList m → SubRhs m
  | multiSelectHash {m : List Tok} : MultiSelectHash m → SubRhs m
  | function {f : List Tok} : FunctionExpression f → SubRhs f
  | star : SubRhs [.star]
/-- `bracket-specifier` -/
inductive BracketSpecifier : List Tok → Prop
  | number (n : Int) : BracketSpecifier [.lbracket, .number n, .rbracket]
  | star : BracketSpecifier [.lbracket, .star, .rbracket]
  | slice {s : List Tok} : SliceExpr s → BracketSpecifier (.lbracket :: (s ++ [.rbracket]))
  | flatten : BracketSpecifier [.flatten]
  | filter {e : List Tok} : Expression e → BracketSpecifier (.filter :: (e ++ [.rbracket]))
/-- `multi-select-list = "[" ( expression *( "," expression ) ) "]"` -/
inductive MultiSelectList : List Tok → Prop
  | mk {es : List Tok} : ExprList es → MultiSelectList (.lbracket :: (es ++ [.rbracket]))
/-- `expression *( "," expression )` -/
inductive ExprList : List Tok → Prop
  | one {e : List Tok} : Expression e → ExprList e
  | cons {e es : List Tok} : Expression e → ExprList es → ExprList (e ++ .comma :: es)
/-- `multi-select-hash = "{" ( keyval-expr *( "," keyval-expr ) ) "}"` -/
inductive MultiSelectHash : List Tok → Prop
  | mk {kvs : List Tok} : KeyvalList kvs → MultiSelectHash (.lbrace :: (kvs ++ [.rbrace]))
/-- `keyval-expr *( "," keyval-expr )` with `keyval-expr = identifier ":" expression` -/
inductive KeyvalList : List Tok → Prop
  | one {k e : List Tok} : Ident k → Expression e → KeyvalList (k ++ .colon :: e)
  | cons {k e r : List Tok} : Ident k → Expression e → KeyvalList r → KeyvalList (k ++ .colon :: (e ++ .comma :: r))
/-- `function-expression = unquoted-string ( no-args / one-or-more-args )` -/
inductive FunctionExpression : List Tok → Prop
  | noArgs (name : String) : FunctionExpression [.identifier name, .lparen, .rparen]
  | args (name : String) {as : List Tok} : ArgList as → FunctionExpression (.identifier name :: .lparen :: (as ++ [.rparen]))
/-- `function-arg *( "," function-arg )` -/
inductive ArgList : List Tok → Prop
  | one {a : List Tok} : FunctionArg a → ArgList a
  | cons {a as : List Tok} : FunctionArg a → ArgList as → ArgList (a ++ .comma :: as)
/-- `function-arg = expression / expression-type`, `expression-type = "&" expression` -/
inductive FunctionArg : List Tok → Prop
  | expression {e : List Tok} : Expression e → FunctionArg e
  | expressionType {e : List Tok} : Expression e → FunctionArg (.ampersand :: e)
end

end Abnf

/-- no deviation of the classes F3, F4, F5 (the three places where the code accepts more than the published grammar) -/
def GrammarCheck.Dev.languageClean (d : GrammarCheck.Dev) : Prop := d.f3 = 0 ∧ d.f4 = 0 ∧ d.f5 = 0

end JmesVerif
