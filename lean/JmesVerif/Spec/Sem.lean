import JmesVerif.Spec.Grammar
import JmesVerif.Spec.PySlice
import JmesVerif.Model.Compare
/-
Denotational semantics of the *core* expression forms, written over concrete syntax in the
vocabulary of the JMESPath specification (not of `interpreter.rs`):

* identifier / index on a subject of the wrong type, or a missing member / position → `null`;
* a projection (`[*]`, `*`, slice, `[]`, `[?p]`) maps its right-hand side over the elements and
  drops `null` results; applied to anything but an array (object for `*`) it is `null`;
* flatten merges exactly one level; slices follow Python (`Spec.PySlice`), step 0 is an error;
* `||`, `&&`, `!` follow the truth table in which `false`, `null`, `""`, `[]`, `{}` are false and
  everything else — including `0` — is true, and are short-circuit (an error in an operand that is
  not needed does not surface);
* comparators: `Val.compare` (its contract is property C10);
* multi-select list / hash on `null` is `null`, otherwise the tuple / record of the members;
* pipe and sub-expression are composition;
* objects are key-sorted association lists, so `*` visits members in ascending key order.

`none` is the one error core expressions can raise (invalid slice, step 0).
-/
namespace JmesVerif
namespace Sem

mutual
/-- core forms only: no function calls, no expression references; literals are JSON values -/
def nudCore : Nud → Bool
  | .call _ _ | .expref _ => false
  | .lit v => v.isJson
  | .star r | .slice _ r | .wildIdx r | .flatten r => rhsCore r
  | .mlist es => exprsCore es
  | .mhash kvs => kvsCore kvs
  | .not e | .paren e => exprCore e
  | .filter p r => exprCore p && rhsCore r
  | _ => true
def ledCore : Led → Bool
  | .callDev _ => false
  | .dotStar r | .sliceL _ r | .wildIdxL r | .flattenL r => rhsCore r
  | .dot d => dotCore d
  | .or e | .and e | .pipe e | .cmp _ e => exprCore e
  | .filterL p r => exprCore p && rhsCore r
  | .index _ => true
def rhsCore : Rhs → Bool
  | .none => true
  | .dot d => dotCore d
  | .bracket e => exprCore e
def dotCore : DotRhs → Bool
  | .mlist es => exprsCore es
  | .expr e => exprCore e
def exprCore : Expr → Bool
  | .mk h ls => nudCore h && ledsCore ls
def ledsCore : List Led → Bool
  | [] => true
  | l :: ls => ledCore l && ledsCore ls
def exprsCore : List Expr → Bool
  | [] => true
  | e :: es => exprCore e && exprsCore es
def kvsCore : List (Bool × String × Expr) → Bool
  | [] => true
  | (_, _, e) :: r => exprCore e && kvsCore r
end

/-- the specification's "false-like" values -/
def isFalse : Val → Bool
  | .null => true
  | .bool false => true
  | .str s => s.isEmpty
  | .arr [] => true
  | .obj [] => true
  | _ => false

def truthy (v : Val) : Bool := !isFalse v

def field (v : Val) (k : String) : Val :=
  match v with
  | .obj kvs => (Val.lookup k kvs).getD .null
  | _ => .null

def index (v : Val) (n : Int) : Val :=
  match v with
  | .arr xs => (Spec.pyIndex xs n).getD .null
  | _ => .null

def values (kvs : List (String × Val)) : List Val := kvs.map (·.2)

/-- merge one level: array elements are spliced in, everything else is kept -/
def flatten1 : List Val → List Val
  | [] => []
  | .arr ys :: rest => ys ++ flatten1 rest
  | x :: rest => x :: flatten1 rest

def dropNulls (xs : List Val) : List Val := xs.filter (fun v => !v.isNull)

def cmpVal (o : Cmp) (l r : Val) : Val :=
  match Val.compare o l r with
  | some b => .bool b
  | none => .null

/-- apply a partial function to each element, in order; fail if any application fails -/
def optMapM (f : Val → Option Val) : List Val → Option (List Val)
  | [] => some []
  | x :: xs =>
    match f x with
    | none => none
    | some v => (optMapM f xs).map (v :: ·)

mutual
def nud (d : Val) : Nud → Option Val
  | .at => some d
  | .field s => some (field d s)
  | .qfield s => some (field d s)
  | .lit v => some v
  | .idx n => some (index d n)
  | .paren e => expr d e
  | .not e => (expr d e).map fun v => .bool (!truthy v)
  | .mlist es => if d.isNull then some .null else (exprs d es).map .arr
  | .mhash kvs => if d.isNull then some .null else (kvs' d kvs []).map .obj
  | .wildIdx r =>
    match d with
    | .arr xs => (optMapM (fun x => rhs x r) xs).map fun ys => .arr (dropNulls ys)
    | _ => some .null
  | .star r =>
    match d with
    | .obj kvs => (optMapM (fun x => rhs x r) (values kvs)).map fun ys => .arr (dropNulls ys)
    | _ => some .null
  | .flatten r =>
    match d with
    | .arr xs => (optMapM (fun x => rhs x r) (flatten1 xs)).map fun ys => .arr (dropNulls ys)
    | _ => some .null
  | .slice h r =>
    if h.step = 0 then none
    else
      match d with
      | .arr xs => (optMapM (fun x => rhs x r) (Spec.pySlice xs h.a h.b h.step)).map fun ys => .arr (dropNulls ys)
      | _ => some .null
  | .filter p r =>
    match d with
    | .arr xs => (optMapM (fun x => match expr x p with | none => none | some c => if truthy c then rhs x r else some .null) xs).map fun ys => .arr (dropNulls ys)
    | _ => some .null
  | .call _ _ => none
  | .expref _ => none
/-- one application to the value `lv` of what stands to its left; `d` is the current node -/
def led (d lv : Val) : Led → Option Val
  | .dot dr => dot lv dr
  | .index n => some (index lv n)
  | .pipe e => expr lv e
  | .or e => if truthy lv then some lv else expr d e
  | .and e => if !truthy lv then some lv else expr d e
  | .cmp o e => (expr d e).map fun rv => cmpVal o lv rv
  | .wildIdxL r =>
    match lv with
    | .arr xs => (optMapM (fun x => rhs x r) xs).map fun ys => .arr (dropNulls ys)
    | _ => some .null
  | .dotStar r =>
    match lv with
    | .obj kvs => (optMapM (fun x => rhs x r) (values kvs)).map fun ys => .arr (dropNulls ys)
    | _ => some .null
  | .flattenL r =>
    match lv with
    | .arr xs => (optMapM (fun x => rhs x r) (flatten1 xs)).map fun ys => .arr (dropNulls ys)
    | _ => some .null
  | .sliceL h r =>
    if h.step = 0 then none
    else
      match lv with
      | .arr xs => (optMapM (fun x => rhs x r) (Spec.pySlice xs h.a h.b h.step)).map fun ys => .arr (dropNulls ys)
      | _ => some .null
  | .filterL p r =>
    match lv with
    | .arr xs => (optMapM (fun x => match expr x p with | none => none | some c => if truthy c then rhs x r else some .null) xs).map fun ys => .arr (dropNulls ys)
    | _ => some .null
  | .callDev _ => none
def rhs (el : Val) : Rhs → Option Val
  | .none => some el
  | .dot dr => dot el dr
  | .bracket e => expr el e
def dot (el : Val) : DotRhs → Option Val
  | .mlist es => if el.isNull then some .null else (exprs el es).map .arr
  | .expr e => expr el e
def expr (d : Val) : Expr → Option Val
  | .mk h ls =>
    match nud d h with
    | none => none
    | some v => leds d v ls
def leds (d lv : Val) : List Led → Option Val
  | [] => some lv
  | l :: ls =>
    match led d lv l with
    | none => none
    | some v => leds d v ls
/-- the tuple of the members' results -/
def exprs (d : Val) : List Expr → Option (List Val)
  | [] => some []
  | e :: es =>
    match expr d e with
    | none => none
    | some v => (exprs d es).map (v :: ·)
/-- the record of the members' results (a later duplicate key replaces an earlier one) -/
def kvs' (d : Val) : List (Bool × String × Expr) → List (String × Val) → Option (List (String × Val))
  | [], acc => some acc
  | (_, k, e) :: r, acc =>
    match expr d e with
    | none => none
    | some v => kvs' d r (insertKV k v acc)
end

end Sem
end JmesVerif
