import JmesVerif.Model.Cst
/-
The JMESPath grammar at token level, written as side conditions on concrete syntax trees
("the published ABNF read at token level with the standard binding-power disambiguation"),
independently of how `parser.rs` is coded:

* `toks`    — the token string a tree spells (its yield);
* `follow`  — the largest binding power the *next* token may have without belonging to the tree;
* `Legal k` — the binding-power discipline: every infix/postfix application binds tighter than
              the ambient power `k`, and never out-binds the `follow` of what precedes it;
              right-hand sides of projections are `.x`, `[…]`, `[?…]` continued at the
              projection's own power, or empty when the next token binds below 10;
* `ast`     — the abstract syntax tree the rules assign (offsets all 0).

`Legal` describes exactly what the code accepts (theorems T1/T2 in `Lemmas/ParserSound.lean`,
`Lemmas/ParserComplete.lean`).  The four places where that is *more* than the published grammar
(known findings F3, F4, F5, F16) are marked by `Deviates`; `SpecLegal = Legal ∧ ¬Deviates`.
-/
namespace JmesVerif

def INF : Nat := 100

def optNumToks : Option Int → List Tok
  | none => []
  | some n => [.number n]

def SliceHdr.toks (h : SliceHdr) : List Tok :=
  optNumToks h.a ++ .colon :: (optNumToks h.b ++
    match h.c with
    | none => []
    | some c => .colon :: optNumToks c)

def SliceHdr.step (h : SliceHdr) : Int :=
  match h.c with
  | some (some s) => s
  | _ => 1

def cmpTok : Cmp → Tok
  | .eq => .eq | .ne => .ne | .lt => .lt | .le => .lte | .gt => .gt | .ge => .gte

def keyTok (quoted : Bool) (s : String) : Tok := if quoted then .quotedIdentifier s else .identifier s

/-! ### yield -/
mutual
def Nud.toks : Nud → List Tok
  | .at => [.at]
  | .field s => [.identifier s]
  | .qfield s => [.quotedIdentifier s]
  | .call s args => .identifier s :: .lparen :: (argsToks args ++ [.rparen])
  | .lit v => [.literal v]
  | .star r => .star :: r.toks
  | .idx n => [.lbracket, .number n, .rbracket]
  | .slice h r => .lbracket :: (h.toks ++ .rbracket :: r.toks)
  | .wildIdx r => .lbracket :: .star :: .rbracket :: r.toks
  | .mlist es => .lbracket :: (argsToks es ++ [.rbracket])
  | .flatten r => .flatten :: r.toks
  | .mhash kvs => .lbrace :: (kvsToks kvs ++ [.rbrace])
  | .not e => .not :: e.toks
  | .filter p r => .filter :: (p.toks ++ .rbracket :: r.toks)
  | .paren e => .lparen :: (e.toks ++ [.rparen])
  | .expref e => .ampersand :: e.toks
def Led.toks : Led → List Tok
  | .dotStar r => .dot :: .star :: r.toks
  | .dot d => .dot :: d.toks
  | .index n => [.lbracket, .number n, .rbracket]
  | .sliceL h r => .lbracket :: (h.toks ++ .rbracket :: r.toks)
  | .wildIdxL r => .lbracket :: .star :: .rbracket :: r.toks
  | .or e => .or :: e.toks
  | .and e => .and :: e.toks
  | .pipe e => .pipe :: e.toks
  | .cmp o e => cmpTok o :: e.toks
  | .flattenL r => .flatten :: r.toks
  | .filterL p r => .filter :: (p.toks ++ .rbracket :: r.toks)
  | .callDev args => .lparen :: (argsToks args ++ [.rparen])
def Rhs.toks : Rhs → List Tok
  | .none => []
  | .dot d => .dot :: d.toks
  | .bracket e => e.toks
def DotRhs.toks : DotRhs → List Tok
  | .mlist es => .lbracket :: (argsToks es ++ [.rbracket])
  | .expr e => e.toks
def Expr.toks : Expr → List Tok
  | .mk h ls => h.toks ++ ledsToks ls
def ledsToks : List Led → List Tok
  | [] => []
  | l :: ls => l.toks ++ ledsToks ls
/-- `e (, e)*` -/
def argsToks : List Expr → List Tok
  | [] => []
  | e :: es => e.toks ++ argsTail es
def argsTail : List Expr → List Tok
  | [] => []
  | e :: es => .comma :: (e.toks ++ argsTail es)
/-- `k : e (, k : e)*` -/
def kvsToks : List (Bool × String × Expr) → List Tok
  | [] => []
  | (q, s, e) :: r => keyTok q s :: .colon :: (e.toks ++ kvsTail r)
def kvsTail : List (Bool × String × Expr) → List Tok
  | [] => []
  | (q, s, e) :: r => .comma :: keyTok q s :: .colon :: (e.toks ++ kvsTail r)
end

/-! ### follow -/
mutual
def Nud.follow : Nud → Nat
  | .star r => r.follow 20
  | .slice _ r => r.follow 20
  | .wildIdx r => r.follow 20
  | .flatten r => r.follow 9
  | .not e => min 45 e.follow
  | .filter _ r => r.follow 21
  | .expref e => min 0 e.follow
  | _ => INF
def Led.follow : Led → Nat
  | .dotStar r => r.follow 20
  | .dot d => d.follow 40
  | .index _ => INF
  | .sliceL _ r => r.follow 20
  | .wildIdxL r => r.follow 20
  | .or e => min 2 e.follow
  | .and e => min 3 e.follow
  | .pipe e => min 1 e.follow
  | .cmp _ e => min 5 e.follow
  | .flattenL r => r.follow 9
  | .filterL _ r => r.follow 21
  | .callDev _ => INF
def Rhs.follow (k : Nat) : Rhs → Nat
  | .none => 9
  | .dot d => d.follow k
  | .bracket e => min k e.follow
def DotRhs.follow (k : Nat) : DotRhs → Nat
  | .mlist _ => INF
  | .expr e => min k e.follow
def Expr.follow : Expr → Nat
  | .mk h ls => ledsFollow h.follow ls
def ledsFollow (f : Nat) : List Led → Nat
  | [] => f
  | l :: ls => ledsFollow l.follow ls
end

def Led.lbp : Led → Nat
  | .dotStar _ => 40 | .dot _ => 40
  | .index _ => 55 | .sliceL _ _ => 55 | .wildIdxL _ => 55
  | .or _ => 2 | .and _ => 3 | .pipe _ => 1 | .cmp _ _ => 5
  | .flattenL _ => 9 | .filterL _ _ => 21 | .callDev _ => 60

/-! ### head classes -/

/-- heads that may start the right-hand side of a projection: they begin with `[` or `[?` -/
def Nud.isBracketHead : Nud → Bool
  | .idx _ | .slice _ _ | .wildIdx _ | .mlist _ | .filter _ _ => true
  | _ => false

/-- heads that may follow a dot (besides the multi-select list, which `DotRhs.mlist` covers) -/
def Nud.isDotHead : Nud → Bool
  | .field _ | .qfield _ | .call _ _ | .star _ | .mhash _ | .expref _ => true
  | _ => false

def Nud.isStar : Nud → Bool
  | .star _ => true
  | _ => false

/-- the expression's tree is a bare `Field` node: an identifier, possibly inside parentheses -/
def Expr.isField : Expr → Bool
  | .mk (.field _) [] => true
  | .mk (.qfield _) [] => true
  | .mk (.paren e) [] => e.isField
  | _ => false

def Led.isCallDev : Led → Bool
  | .callDev _ => true
  | _ => false

/-- `[*]` spelled as a one-element multi-select list is read as the wildcard index instead -/
def isStarOnly : List Expr → Bool
  | [.mk (.star .none) []] => true
  | _ => false

/-! ### legality -/
mutual
def Nud.Legal : Nud → Prop
  | .call _ args => argsLegal args
  | .star r => r.Legal 20
  | .slice _ r => r.Legal 20
  | .wildIdx r => r.Legal 20
  | .mlist es => es ≠ [] ∧ isStarOnly es = false ∧ argsLegal es
  | .flatten r => r.Legal 9
  | .mhash kvs => kvs ≠ [] ∧ kvsLegal kvs
  | .not e => e.Legal 45
  | .filter p r => p.Legal 0 ∧ r.Legal 21
  | .paren e => e.Legal 0
  | .expref e => e.Legal 0
  | _ => True
def Led.Legal : Led → Prop
  | .dotStar r => r.Legal 20
  | .dot d => d.Legal 40 ∧ d.startsWithStar = false
  | .index _ => True
  | .sliceL _ r => r.Legal 20
  | .wildIdxL r => r.Legal 20
  | .or e => e.Legal 2
  | .and e => e.Legal 3
  | .pipe e => e.Legal 1
  | .cmp _ e => e.Legal 5
  | .flattenL r => r.Legal 9
  | .filterL p r => p.Legal 0 ∧ r.Legal 21
  | .callDev args => argsLegal args
def Rhs.Legal (k : Nat) : Rhs → Prop
  | .none => True
  | .dot d => d.Legal k
  | .bracket e => e.Legal k ∧ e.headIsBracket = true
def DotRhs.Legal (k : Nat) : DotRhs → Prop
  | .mlist es => es ≠ [] ∧ argsLegal es
  | .expr e => e.Legal k ∧ e.headIsDot = true
/-- an expression parsed at ambient power `rbp` -/
def Expr.Legal (rbp : Nat) : Expr → Prop
  | .mk h ls => h.Legal ∧ chain rbp h.follow ls ∧ callDevOk h ls
/-- each application binds tighter than `rbp` and no tighter than what precedes it allows -/
def chain (rbp : Nat) (f : Nat) : List Led → Prop
  | [] => True
  | l :: ls => rbp < l.lbp ∧ l.lbp ≤ f ∧ l.Legal ∧ chain rbp l.follow ls
def argsLegal : List Expr → Prop
  | [] => True
  | e :: es => e.Legal 0 ∧ argsLegal es
def kvsLegal : List (Bool × String × Expr) → Prop
  | [] => True
  | (_, _, e) :: r => e.Legal 0 ∧ kvsLegal r
def DotRhs.startsWithStar : DotRhs → Bool
  | .expr (.mk h _) => h.isStar
  | _ => false
def Expr.headIsBracket : Expr → Bool
  | .mk h _ => h.isBracketHead
def Expr.headIsDot : Expr → Bool
  | .mk h _ => h.isDotHead
/-- `( args )` directly after a parenthesised field is the only place a call may be a `led`
(deviation F3); after an unquoted identifier it is the `call` head -/
def callDevOk (h : Nud) : List Led → Prop
  | [] => True
  | l :: ls =>
    (l.isCallDev = true → (match h with | .paren e => e.isField = true | _ => False)) ∧
    (∀ l' ∈ ls, l'.isCallDev = false)
end

/-! ### the tree the rules assign (offsets 0) -/
mutual
def Nud.ast : Nud → Ast
  | .at => .identity 0
  | .field s => .field 0 s
  | .qfield s => .field 0 s
  | .call s args => .function 0 s (exprsAst args)
  | .lit v => .literal 0 v
  | .star r => .projection 0 (.objectValues 0 (.identity 0)) r.ast
  | .idx n => .index 0 n
  | .slice h r => .projection 0 (.slice 0 h.a h.b h.step) r.ast
  | .wildIdx r => .projection 0 (.identity 0) r.ast
  | .mlist es => .multiList 0 (exprsAst es)
  | .flatten r => .projection 0 (.flatten 0 (.identity 0)) r.ast
  | .mhash kvs => .multiHash 0 (kvsAst kvs)
  | .not e => .not 0 e.ast
  | .filter p r => .projection 0 (.identity 0) (.condition 0 p.ast r.ast)
  | .paren e => e.ast
  | .expref e => .expref 0 e.ast
def Led.ast (left : Ast) : Led → Ast
  | .dotStar r => .projection 0 (.objectValues 0 left) r.ast
  | .dot d => .subexpr 0 left d.ast
  | .index n => .subexpr 0 left (.index 0 n)
  | .sliceL h r => .subexpr 0 left (.projection 0 (.slice 0 h.a h.b h.step) r.ast)
  | .wildIdxL r => .projection 0 left r.ast
  | .or e => .or 0 left e.ast
  | .and e => .and 0 left e.ast
  | .pipe e => .subexpr 0 left e.ast
  | .cmp o e => .comparison 0 o left e.ast
  | .flattenL r => .projection 0 (.flatten 0 left) r.ast
  | .filterL p r => .projection 0 left (.condition 0 p.ast r.ast)
  | .callDev args =>
    match left with
    | .field _ name => .function 0 name (exprsAst args)
    | other => other
def Rhs.ast : Rhs → Ast
  | .none => .identity 0
  | .dot d => d.ast
  | .bracket e => e.ast
def DotRhs.ast : DotRhs → Ast
  | .mlist es => .multiList 0 (exprsAst es)
  | .expr e => e.ast
def Expr.ast : Expr → Ast
  | .mk h ls => ledsAst h.ast ls
def ledsAst (left : Ast) : List Led → Ast
  | [] => left
  | l :: ls => ledsAst (l.ast left) ls
def exprsAst : List Expr → List Ast
  | [] => []
  | e :: es => e.ast :: exprsAst es
def kvsAst : List (Bool × String × Expr) → List (String × Ast)
  | [] => []
  | (_, s, e) :: r => (s, e.ast) :: kvsAst r
end

-- forget offsets (literal values are left untouched: they are data, not syntax positions)
mutual
def Ast.strip : Ast → Ast
  | .comparison _ c l r => .comparison 0 c l.strip r.strip
  | .condition _ p t => .condition 0 p.strip t.strip
  | .identity _ => .identity 0
  | .expref _ a => .expref 0 a.strip
  | .flatten _ a => .flatten 0 a.strip
  | .function _ n args => .function 0 n (stripList args)
  | .field _ n => .field 0 n
  | .index _ i => .index 0 i
  | .literal _ v => .literal 0 v
  | .multiList _ es => .multiList 0 (stripList es)
  | .multiHash _ kvs => .multiHash 0 (stripKVs kvs)
  | .not _ a => .not 0 a.strip
  | .projection _ l r => .projection 0 l.strip r.strip
  | .objectValues _ a => .objectValues 0 a.strip
  | .and _ l r => .and 0 l.strip r.strip
  | .or _ l r => .or 0 l.strip r.strip
  | .slice _ a b c => .slice 0 a b c
  | .subexpr _ l r => .subexpr 0 l.strip r.strip
def stripList : List Ast → List Ast
  | [] => []
  | a :: as => a.strip :: stripList as
def stripKVs : List (String × Ast) → List (String × Ast)
  | [] => []
  | (k, a) :: r => (k, a.strip) :: stripKVs r
end

end JmesVerif
