import JmesVerif.Model.Lexer
import JmesVerif.Model.JsonPrint
/-
How values are *spelled* in expression text (specification side of C09):

* raw string literal: `'…'` where the only escape is backslash-quote; every other backslash is literal;
* JSON literal: `` `…` `` holding JSON text with backticks escaped by a backslash;
* quoted identifier: a JSON string.
-/
namespace JmesVerif
namespace Spelling

/-- spelling of the contents of a raw string: each `'` becomes `\'` -/
def rawBody : List Char → List Char
  | [] => []
  | c :: cs => if c = '\'' then '\\' :: '\'' :: rawBody cs else c :: rawBody cs

/-- `'…'` -/
def rawSpell (s : List Char) : List Char := '\'' :: (rawBody s ++ ['\''])

/-- number of backslashes at the front of a list -/
def leadingBackslashes : List Char → Nat
  | '\\' :: cs => leadingBackslashes cs + 1
  | _ => 0

/-- a string has a raw-string spelling iff no odd-length run of backslashes stands directly before
a quote or at the end of the string (such a run would swallow the escaping backslash / the closing
quote).  `go` scans with the parity of the current backslash run. -/
def rawSpellable (s : List Char) : Bool := go false s
where
  go (odd : Bool) : List Char → Bool
    | [] => !odd
    | c :: cs =>
      if c = '\\' then go (!odd) cs
      else if c = '\'' then (!odd) && go false cs
      else go false cs

/-- backticks escaped: each `` ` `` becomes ``\` `` -/
def escBacktick : List Char → List Char
  | [] => []
  | c :: cs => if c = '`' then '\\' :: '`' :: escBacktick cs else c :: escBacktick cs

/-- `` `<json text>` `` -/
def literalSpell (v : Val) : List Char := '`' :: (escBacktick (JsonPrint.compact v).toList ++ ['`'])

/-- the quoted-identifier spelling of a member name: its JSON string -/
def quotedSpell (k : String) : List Char := (JsonPrint.quote k).toList

end Spelling
end JmesVerif
