import JmesVerif.Spec.Grammar
import JmesVerif.Model.JsonPrint
/-
`parenthesize`: add the parentheses the binding-power rules imply — around the left operand of
every infix/postfix application, around right operands of binary operators and `!`, around list
elements, arguments, hash values and filter predicates — and `spell`: print a concrete syntax
tree back to expression text.  `Props/C04` proves `(parenthesize c).ast = c.ast`; the check
feeds `spell (parenthesize c)` back to the *implementation* and compares its two parses
(implementation-only oracle for "adding the implied parentheses never changes the parse").
-/
namespace JmesVerif
namespace Paren

def wrap (e : Expr) : Expr :=
  match e with
  | .mk (.paren _) [] => e
  | _ => .mk (.paren e) []

def isExprefTop : Expr → Bool
  | .mk (.expref _) [] => true
  | _ => false

mutual
/-- parenthesize an expression that stands where any expression may stand -/
def pExpr : Expr → Expr
  | .mk h ls => pSpine (.mk (pNud h) []) ls
/-- fold the applications, wrapping the accumulated left operand before each one -/
def pSpine (cur : Expr) : List Led → Expr
  | [] => cur
  | l :: ls =>
    match wrap cur with
    | .mk h acc => pSpine (.mk h (acc ++ [pLed l])) ls
/-- parenthesize inside an expression whose head must stay what it is (after `.`, or as a
projection's right-hand side): sub-expressions only -/
def pInner : Expr → Expr
  | .mk h ls => .mk (pNud h) (pLeds ls)
def pLeds : List Led → List Led
  | [] => []
  | l :: ls => pLed l :: pLeds ls
def pNud : Nud → Nud
  | .call s args => .call s (pArgs args)
  | .star r => .star (pRhs r)
  | .slice h r => .slice h (pRhs r)
  | .wildIdx r => .wildIdx (pRhs r)
  | .mlist es => .mlist (pElems es)
  | .flatten r => .flatten (pRhs r)
  | .mhash kvs => .mhash (pKvs kvs)
  | .not e => .not (wrap (pExpr e))
  | .filter p r => .filter (wrap (pExpr p)) (pRhs r)
  | .paren e => .paren (pExpr e)
  | .expref e => .expref (wrap (pExpr e))
  | n => n
def pLed : Led → Led
  | .dotStar r => .dotStar (pRhs r)
  | .dot d => .dot (pDot d)
  | .sliceL h r => .sliceL h (pRhs r)
  | .wildIdxL r => .wildIdxL (pRhs r)
  | .or e => .or (wrap (pExpr e))
  | .and e => .and (wrap (pExpr e))
  | .pipe e => .pipe (wrap (pExpr e))
  | .cmp o e => .cmp o (wrap (pExpr e))
  | .flattenL r => .flattenL (pRhs r)
  | .filterL p r => .filterL (wrap (pExpr p)) (pRhs r)
  | .callDev args => .callDev (pArgs args)
  | l => l
def pRhs : Rhs → Rhs
  | .none => .none
  | .dot d => .dot (pDot d)
  | .bracket e => .bracket (pInner e)
def pDot : DotRhs → DotRhs
  | .mlist es => .mlist (pElems es)
  | .expr e => .expr (pInner e)
def pElems : List Expr → List Expr
  | [] => []
  | e :: es => wrap (pExpr e) :: pElems es
/-- function arguments: `&e` stays an expression reference at the top of the argument -/
def pArgs : List Expr → List Expr
  | [] => []
  | e :: es => (if isExprefTop e then pInner e else wrap (pExpr e)) :: pArgs es
def pKvs : List (Bool × String × Expr) → List (Bool × String × Expr)
  | [] => []
  | (q, s, e) :: r => (q, s, wrap (pExpr e)) :: pKvs r
end

def parenthesize (e : Expr) : Expr := pExpr e

/-- one spelling of a token (literals as backtick JSON) -/
def spellTok : Tok → String
  | .identifier s => s
  | .quotedIdentifier s => JsonPrint.quote s
  | .number n => toString n
  | .literal v => "`" ++ (JsonPrint.compact v).replace "`" "\\`" ++ "`"
  | .dot => "." | .star => "*" | .flatten => "[]" | .and => "&&" | .or => "||" | .pipe => "|"
  | .filter => "[?" | .lbracket => "[" | .rbracket => "]" | .comma => "," | .colon => ":"
  | .not => "!" | .ne => "!=" | .eq => "==" | .gt => ">" | .gte => ">=" | .lt => "<" | .lte => "<="
  | .at => "@" | .ampersand => "&" | .lparen => "(" | .rparen => ")" | .lbrace => "{" | .rbrace => "}"
  | .eof => ""

def spell (e : Expr) : String := " ".intercalate (e.toks.map spellTok)

end Paren
end JmesVerif
