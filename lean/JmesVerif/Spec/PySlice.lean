/-
Specification of slicing, written from the JMESPath specification ("Slices", which defers to
Python) and CPython's `slice.indices` + `range`, not from the Rust code:

* a missing `start`/`stop` takes the end appropriate for the sign of the step;
* a negative bound counts from the end (`+ len`);
* the bound is then clamped to `[0, len]` (step > 0) or `[-1, len-1]` (step < 0);
* the selected positions are `start, start+step, start+2·step, …` strictly before `stop`
  in the direction of travel, i.e. `range(start, stop, step)`.
-/
namespace JmesVerif.Spec

def clamp (lo hi x : Int) : Int := max lo (min hi x)

def norm (len x : Int) : Int := if x < 0 then x + len else x

/-- effective start, as `slice.indices(len)[0]` -/
def pyStart (len step : Int) : Option Int → Int
  | none => if step < 0 then len - 1 else 0
  | some s => if step < 0 then clamp (-1) (len - 1) (norm len s) else clamp 0 len (norm len s)

/-- effective stop, as `slice.indices(len)[1]` -/
def pyStop (len step : Int) : Option Int → Int
  | none => if step < 0 then -1 else len
  | some s => if step < 0 then clamp (-1) (len - 1) (norm len s) else clamp 0 len (norm len s)

/-- `len(range(a, b, step))` -/
def rangeLen (a b step : Int) : Nat :=
  if step > 0 then (if a < b then ((b - a - 1) / step + 1).toNat else 0)
  else if step < 0 then (if b < a then ((a - b - 1) / (-step) + 1).toNat else 0)
  else 0

/-- the positions `range(a, b, step)` -/
def pyRange (a b step : Int) : List Int :=
  (List.range (rangeLen a b step)).map (fun (j : Nat) => a + (j : Int) * step)

/-- Python's `xs[start:stop:step]` for `step ≠ 0`: the elements at `range(*slice.indices(len))`.
Positions are looked up with `getElem?`; `pySlice_positions_in_bounds` shows none is ever missing. -/
def pySlice (xs : List α) (start stop : Option Int) (step : Int) : List α :=
  let len : Int := xs.length
  (pyRange (pyStart len step start) (pyStop len step stop) step).filterMap
    (fun k => if k < 0 then none else xs[k.toNat]?)

/-- JMESPath negative index: `xs[n]` with `n < 0` is the element at `len + n`. -/
def pyIndex (xs : List α) (n : Int) : Option α :=
  let k := if n < 0 then (xs.length : Int) + n else n
  if k < 0 then none else xs[k.toNat]?

end JmesVerif.Spec
