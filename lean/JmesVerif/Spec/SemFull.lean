import JmesVerif.Spec.Sem
import JmesVerif.Model.Interp
/-
Denotational semantics of the FULL expression language: the core forms of `Spec/Sem.lean` plus
function calls with the 26 builtin functions and expression references (`&e`) as arguments of
`map`, `sort_by`, `max_by`, `min_by`.  Written over concrete syntax, in the vocabulary of the
JMESPath specification:

* `name(arg, …)`: `name` must be one of the 26 builtin function names (`names`), else the call is
  an error.  The arguments are evaluated left to right against the *current node*; an error in an
  argument is the error of the call.
* an argument of the syntactic form `&e` is not evaluated: it denotes the *function*
  `x ↦ ⟦e⟧ x` (`Arg.fn`), never a value.  Such arguments are allowed only where the function's
  declared parameter type is `expref` (`exprefParam`: 1st of `map`, 2nd of `sort_by` / `max_by` /
  `min_by`); `exprOk` excludes every other occurrence of `&`, and the parser deviation `callDev`.
* the result of the call is a function of the evaluated arguments (`apply`):
  - `map(&e, xs)`     = the list `[⟦e⟧ x | x ∈ xs]`, in order, `null` results kept;
  - `sort_by(xs, &e)` = `xs` stably sorted by the keys `⟦e⟧ x`, which must be all numbers or all
                        strings (else an error); `[]` for the empty array;
  - `max_by(xs, &e)` / `min_by(xs, &e)` = the element with the largest / smallest key (the
                        earliest one among equals), same condition on keys; `null` for `[]`;
    anything else (wrong arity, second argument not an array, no `&e` where one is required) is an
    error;
  - the 22 other functions: the arity / argument types are checked against the declared signature
    (`Builtin.sig`), then the value is `Builtin.pure` (whose contract is property C02); a
    non-finite arithmetic result is an error.
* everything else is as in `Sem`.

`none` means "the specification says this is an error" (invalid slice step 0, unknown function,
wrong arity, wrong argument type, wrong expref return type, non-finite arithmetic result).
-/
namespace JmesVerif
namespace SemFull
open Sem (truthy field index values flatten1 dropNulls cmpVal optMapM)

/-- an evaluated argument of a call: a value, or — for `&e` — the function `x ↦ ⟦e⟧ x` -/
inductive Arg
  | val (v : Val)
  | fn (f : Val → Option Val)

/-- the 26 builtin function names of the specification -/
def names : List (String × Builtin) :=
  [("abs", .abs), ("avg", .avg), ("ceil", .ceil), ("contains", .contains), ("ends_with", .endsWith),
   ("floor", .floor), ("join", .join), ("keys", .keys), ("length", .length), ("map", .map),
   ("min", .min), ("max", .max), ("max_by", .maxBy), ("min_by", .minBy), ("merge", .merge),
   ("not_null", .notNull), ("reverse", .reverse), ("sort", .sort), ("sort_by", .sortBy),
   ("starts_with", .startsWith), ("sum", .sum), ("to_array", .toArray), ("to_number", .toNumber),
   ("to_string", .toString), ("type", .type), ("values", .values)]

def builtinOf (name : String) : Option Builtin := names.lookup name

/-- the argument positions whose declared parameter type is `expref` -/
def exprefParam (name : String) (i : Nat) : Bool :=
  (name == "map" && i == 0) || ((name == "sort_by" || name == "max_by" || name == "min_by") && i == 1)

/-! ### which expressions the semantics covers -/
mutual
/-- calls of any name and arity with arguments that are covered; `&e` only as a direct argument in
an expref-typed parameter position; no `callDev`; literals are JSON values -/
def nudOk : Nud → Bool
  | .call name args => argsOk name 0 args
  | .expref _ => false
  | .lit v => v.isJson
  | .star r | .slice _ r | .wildIdx r | .flatten r => rhsOk r
  | .mlist es => exprsOk es
  | .mhash kvs => kvsOk kvs
  | .not e | .paren e => exprOk e
  | .filter p r => exprOk p && rhsOk r
  | _ => true
def ledOk : Led → Bool
  | .callDev _ => false
  | .dotStar r | .sliceL _ r | .wildIdxL r | .flattenL r => rhsOk r
  | .dot d => dotOk d
  | .or e | .and e | .pipe e | .cmp _ e => exprOk e
  | .filterL p r => exprOk p && rhsOk r
  | .index _ => true
def rhsOk : Rhs → Bool
  | .none => true
  | .dot d => dotOk d
  | .bracket e => exprOk e
def dotOk : DotRhs → Bool
  | .mlist es => exprsOk es
  | .expr e => exprOk e
def exprOk : Expr → Bool
  | .mk h ls => nudOk h && ledsOk ls
def ledsOk : List Led → Bool
  | [] => true
  | l :: ls => ledOk l && ledsOk ls
def exprsOk : List Expr → Bool
  | [] => true
  | e :: es => exprOk e && exprsOk es
def kvsOk : List (Bool × String × Expr) → Bool
  | [] => true
  | (_, _, e) :: r => exprOk e && kvsOk r
/-- the arguments of a call of `name`, starting at position `i` -/
def argsOk (name : String) : Nat → List Expr → Bool
  | _, [] => true
  | i, .mk (.expref e) [] :: rest => exprefParam name i && exprOk e && argsOk name (i + 1) rest
  | i, e :: rest => exprOk e && argsOk name (i + 1) rest
end

/-! ### the functions, over evaluated arguments -/

/-- all arguments are values -/
def allVals : List Arg → Option (List Val)
  | [] => some []
  | .val v :: r => (allVals r).map (v :: ·)
  | .fn _ :: _ => none

/-- the 22 functions without expref parameters: signature check, then the function's value -/
def pureFn (b : Builtin) (vs : List Val) : Option Val :=
  match b.sig.validate vs 0 with
  | .error _ => none
  | .ok () =>
    match b.pure vs with
    | .ok v => some v
    | .error _ => none

/-- the argument tuple `(&e, array)` -/
def mapShape : List Arg → Option ((Val → Option Val) × List Val)
  | [.fn f, .val (.arr xs)] => some (f, xs)
  | _ => none
/-- the argument tuple `(array, &e)` -/
def byShape : List Arg → Option ((Val → Option Val) × List Val)
  | [.val (.arr xs), .fn f] => some (f, xs)
  | _ => none

/-- sort keys: all numbers, or all strings -/
def keysOk (ks : List Val) : Bool :=
  ks.all (fun k => k.type == .number) || ks.all (fun k => k.type == .string)

/-- stable sort of (element, key) pairs by key -/
def sortByKey (ps : List (Val × Val)) : List (Val × Val) :=
  ps.mergeSort (fun a b => Val.cmp a.2 b.2 != .gt)

def sortBy (f : Val → Option Val) (xs : List Val) : Option Val :=
  match optMapM f xs with
  | none => none
  | some ks => if keysOk ks then some (.arr ((sortByKey (xs.zip ks)).map (·.1))) else none

/-- the (element, key) pair with the extreme key; the earliest one among equal keys -/
def pickExtreme (isMax : Bool) : List (Val × Val) → Val
  | [] => .null
  | p :: ps =>
    (ps.foldl (fun cand q =>
      if (if isMax then Val.cmp q.2 cand.2 == .gt else Val.cmp q.2 cand.2 == .lt) then q else cand) p).1

def extremeBy (isMax : Bool) (f : Val → Option Val) (xs : List Val) : Option Val :=
  match optMapM f xs with
  | none => none
  | some ks => if keysOk ks then some (pickExtreme isMax (xs.zip ks)) else none

/-- the value of builtin `b` on the evaluated arguments -/
def apply (b : Builtin) (as : List Arg) : Option Val :=
  match b with
  | .map => (mapShape as).bind fun p => (optMapM p.1 p.2).map .arr
  | .sortBy => (byShape as).bind fun p => sortBy p.1 p.2
  | .maxBy => (byShape as).bind fun p => extremeBy true p.1 p.2
  | .minBy => (byShape as).bind fun p => extremeBy false p.1 p.2
  | b => (allVals as).bind (pureFn b)

/-- a call: an error in the arguments, an unknown name, or the function's value -/
def call (name : String) : Option (List Arg) → Option Val
  | none => none
  | some as =>
    match builtinOf name with
    | none => none
    | some b => apply b as

/-! ### the semantics -/
mutual
def nud (d : Val) : Nud → Option Val
  | .at => some d
  | .field s => some (field d s)
  | .qfield s => some (field d s)
  | .lit v => some v
  | .idx n => some (index d n)
  | .paren e => expr d e
  | .not e => (expr d e).map fun v => .bool (!truthy v)
  | .mlist es => if d.isNull then some .null else (exprs d es).map .arr
  | .mhash kvs => if d.isNull then some .null else (kvs' d kvs []).map .obj
  | .wildIdx r =>
    match d with
    | .arr xs => (optMapM (fun x => rhs x r) xs).map fun ys => .arr (dropNulls ys)
    | _ => some .null
  | .star r =>
    match d with
    | .obj kvs => (optMapM (fun x => rhs x r) (values kvs)).map fun ys => .arr (dropNulls ys)
    | _ => some .null
  | .flatten r =>
    match d with
    | .arr xs => (optMapM (fun x => rhs x r) (flatten1 xs)).map fun ys => .arr (dropNulls ys)
    | _ => some .null
  | .slice h r =>
    if h.step = 0 then none
    else
      match d with
      | .arr xs => (optMapM (fun x => rhs x r) (Spec.pySlice xs h.a h.b h.step)).map fun ys => .arr (dropNulls ys)
      | _ => some .null
  | .filter p r =>
    match d with
    | .arr xs => (optMapM (fun x => match expr x p with | none => none | some c => if truthy c then rhs x r else some .null) xs).map fun ys => .arr (dropNulls ys)
    | _ => some .null
  | .call name as => call name (args d as)
  | .expref _ => none
/-- one application to the value `lv` of what stands to its left; `d` is the current node -/
def led (d lv : Val) : Led → Option Val
  | .dot dr => dot lv dr
  | .index n => some (index lv n)
  | .pipe e => expr lv e
  | .or e => if truthy lv then some lv else expr d e
  | .and e => if !truthy lv then some lv else expr d e
  | .cmp o e => (expr d e).map fun rv => cmpVal o lv rv
  | .wildIdxL r =>
    match lv with
    | .arr xs => (optMapM (fun x => rhs x r) xs).map fun ys => .arr (dropNulls ys)
    | _ => some .null
  | .dotStar r =>
    match lv with
    | .obj kvs => (optMapM (fun x => rhs x r) (values kvs)).map fun ys => .arr (dropNulls ys)
    | _ => some .null
  | .flattenL r =>
    match lv with
    | .arr xs => (optMapM (fun x => rhs x r) (flatten1 xs)).map fun ys => .arr (dropNulls ys)
    | _ => some .null
  | .sliceL h r =>
    if h.step = 0 then none
    else
      match lv with
      | .arr xs => (optMapM (fun x => rhs x r) (Spec.pySlice xs h.a h.b h.step)).map fun ys => .arr (dropNulls ys)
      | _ => some .null
  | .filterL p r =>
    match lv with
    | .arr xs => (optMapM (fun x => match expr x p with | none => none | some c => if truthy c then rhs x r else some .null) xs).map fun ys => .arr (dropNulls ys)
    | _ => some .null
  | .callDev _ => none
def rhs (el : Val) : Rhs → Option Val
  | .none => some el
  | .dot dr => dot el dr
  | .bracket e => expr el e
def dot (el : Val) : DotRhs → Option Val
  | .mlist es => if el.isNull then some .null else (exprs el es).map .arr
  | .expr e => expr el e
def expr (d : Val) : Expr → Option Val
  | .mk h ls =>
    match nud d h with
    | none => none
    | some v => leds d v ls
def leds (d lv : Val) : List Led → Option Val
  | [] => some lv
  | l :: ls =>
    match led d lv l with
    | none => none
    | some v => leds d v ls
/-- the tuple of the members' results -/
def exprs (d : Val) : List Expr → Option (List Val)
  | [] => some []
  | e :: es =>
    match expr d e with
    | none => none
    | some v => (exprs d es).map (v :: ·)
/-- the record of the members' results (a later duplicate key replaces an earlier one) -/
def kvs' (d : Val) : List (Bool × String × Expr) → List (String × Val) → Option (List (String × Val))
  | [], acc => some acc
  | (_, k, e) :: r, acc =>
    match expr d e with
    | none => none
    | some v => kvs' d r (insertKV k v acc)
/-- the arguments of a call, left to right: `&e` is the function `x ↦ ⟦e⟧ x`, anything else is
evaluated against the current node `d`; `none` if an argument raises an error -/
def args (d : Val) : List Expr → Option (List Arg)
  | [] => some []
  | .mk (.expref e) [] :: rest => (args d rest).map (.fn (fun x => expr x e) :: ·)
  | e :: rest =>
    match expr d e with
    | none => none
    | some v => (args d rest).map (.val v :: ·)
end

end SemFull
end JmesVerif
