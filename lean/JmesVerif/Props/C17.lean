import JmesVerif.Lemmas.Convert
import JmesVerif.Generated.Features
/-!
# C17 — Cargo features change representation, not meaning

* `sync` only swaps the `Rcvar` alias (`Rc` ↔ `Arc`) and `specialized` only adds fast-path
  `ToJmespath` impls — read off the source on every run (`Generated/Features.lean`) and checked
  here against the whitelist (`C17_features`, `C17_sync_sites`, `C17_all_sites_in_lib`);
* the fast-path conversions produce the same value as the generic serde path for every
  JSON-representable input of the specially handled types (`C17_specialized_eq_generic`);
* `compile`/`search` themselves contain no feature-dependent code (no `cfg` site outside the
  conversions), so their outcomes are those of the one model; the `features` stream runs the
  `eval`, `parse`, `serde` and `tojm` streams under all four builds and compares.
Non-finite `f32`/`f64` inputs differ (generic → null, specialised → error) but are not
JSON-representable: outside the quantifier, reported in the evidence only.
-/
namespace JmesVerif

theorem C17_specialized_eq_generic (i : Input) (h : i.representable) : convSpecialized i = convGeneric i :=
  specialized_eq_generic i h

/-- the crate has exactly the two features, neither enabling anything else -/
theorem C17_features : Generated.features = [("sync", []), ("specialized", [])] := rfl

/-- every feature-dependent item lives in lib.rs (none in lexer, parser, interpreter, functions, variable, runtime, errors) -/
theorem C17_all_sites_in_lib : ∀ s ∈ Generated.cfgSites, s.1 = "lib.rs" := by
  -- stated through `List.all` so that the number and order of the sites do not matter to the proof
  have h : Generated.cfgSites.all (fun s => s.1 == "lib.rs") = true := by decide
  intro s hs
  have := List.all_eq_true.mp h s hs
  simpa using this

/-- the `sync` feature guards exactly the two definitions of the `Rcvar` alias -/
theorem C17_sync_sites :
    Generated.cfgSites.filter (fun s => s.2.1 == "sync") =
      [("lib.rs", "sync", true, "pub type Rcvar = std::rc::Rc<Variable>;"),
       ("lib.rs", "sync", false, "pub type Rcvar = std::sync::Arc<Variable>;")] := by
  decide

/-! non-vacuity -/
example : (Input.f64 (.fin false 4503599627370496 (-52))).representable := by simp [Input.representable, F64.isFinite]
example : convSpecialized (.f64 .nan) = none ∧ convGeneric (.f64 .nan) = some .null := by
  simp [convSpecialized, convGeneric, Input.image, svToVariable, valOfF64, F64.isFinite]

end JmesVerif

#print axioms JmesVerif.C17_specialized_eq_generic
#print axioms JmesVerif.C17_features
#print axioms JmesVerif.C17_all_sites_in_lib
#print axioms JmesVerif.C17_sync_sites
