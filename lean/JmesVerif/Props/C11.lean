theorem C11_placeholder : True := trivial
