import JmesVerif.Lemmas.Compositional
import JmesVerif.Props.C03
import JmesVerif.Lemmas.InterpEquiv
/-!
# C11 — evaluation is compositional: compound expressions mean what their parts mean

`Evals rt d a r`: with enough fuel, from *any* value of the interpreter's offset register,
evaluating tree `a` on `d` yields `r` (a value or a genuine error).  Each theorem is an exact
characterisation (`↔`) of `Evals` of a compound node by `Evals` of its parts — for all sub-trees
(including function calls inside them) and all documents.  `C11_offset_irrelevant` is what makes
this well defined: the mutable `ctx.offset` never influences a value or an error.
`C11_pipe_parse` connects text to trees: `(L) | (R)` parses to the sub-expression node of the
parses of `L` and `R`.
-/
namespace JmesVerif

theorem C11_offset_irrelevant (rt : Registry) (fuel : Nat) (d : Val) (a : Ast) (off₁ off₂ : Nat) :
    outcome (interp rt fuel d a off₁) = outcome (interp rt fuel d a off₂) :=
  interp_offset_irrelevant rt fuel d a off₁ off₂

theorem C11_deterministic {rt : Registry} {d : Val} {a : Ast} {r₁ r₂ : Except EvalErr Val}
    (h₁ : Evals rt d a r₁) (h₂ : Evals rt d a r₂) : r₁ = r₂ := Evals.det h₁ h₂

/-- the text `( L ) | ( R )` — for any sentences L, R — parses to `Subexpr(tree of L, tree of R)` -/
theorem C11_pipe_parse (eL eR : Expr) (hL : eL.Legal 0) (hR : eR.Legal 0) (ts : List PT)
    (hy : tk ts = Tok.lparen :: (eL.toks ++ Tok.rparen :: Tok.pipe :: Tok.lparen :: (eR.toks ++ [Tok.rparen, Tok.eof]))) :
    ∃ e a, parseTokens ts = .ok (e, a) ∧ a.strip = .subexpr 0 eL.ast eR.ast := by
  let e : Expr := .mk (.paren eL) [.pipe (.mk (.paren eR) [])]
  have hl : e.Legal 0 := by
    simp [e, Expr.Legal, Nud.Legal, chain, Led.Legal, Led.lbp, Led.follow, Expr.follow, ledsFollow, Nud.follow, INF,
      callDevOk, Led.isCallDev, hL, hR]
  have hyield : tk ts = e.toks ++ [Tok.eof] := by
    rw [hy]
    simp [e, Expr.toks, Nud.toks, Led.toks, ledsToks]
  obtain ⟨a, hp, ha⟩ := C03_complete e hl ts hyield
  refine ⟨e, a, hp, ?_⟩
  rw [ha]
  simp [e, Expr.ast, Nud.ast, Led.ast, ledsAst]


/-! ### the evaluator as re-translated from interpreter.rs on every run

`Generated/InterpCode.lean` is written by `tools/rs2lean.py` from the whole body of `interpret` — all 18 arms, every `for` loop, the
`?` propagation and the reads and writes of `ctx.offset` — with the library calls mapped by a fixed, documented idiom table.  The model
`interp` that every evaluation theorem (C01, C02, C05, C11, C12) is about is proved EQUAL to that translation: for every budget, value, tree
whose index / slice literals are `i32`s (`Ast.I32Ok`; the lexer produces nothing else) and offset — outright when slicing is done by a function
that agrees with the model's on arrays of up to `i32::MAX` elements (`sliceGuarded`), and for the translated `slice` itself whenever no array
longer than `i32::MAX` is sliced during the evaluation (`SlicesOk`).  A semantic edit of any arm changes the translation and breaks this proof. -/
open Generated.InterpCode in
theorem C11_translated_interpreter (rt : Registry) :
    (∀ fuel d a off, a.I32Ok = true →
        interpret sliceGuarded rt.get (callFn rt) fuel d a off = interp rt fuel d a off) ∧
    (∀ fuel d a off, a.I32Ok = true → SlicesOk rt fuel d a off →
        interpret slice_rs rt.get (callFn rt) fuel d a off = interp rt fuel d a off) :=
  ⟨gen_interpret_eq_guarded rt, gen_interpret_eq rt⟩

end JmesVerif

#print axioms JmesVerif.C11_offset_irrelevant
#print axioms JmesVerif.C11_deterministic
#print axioms JmesVerif.C11_pipe_parse
#print axioms JmesVerif.C11_pipe
#print axioms JmesVerif.C11_projection
#print axioms JmesVerif.C11_condition
#print axioms JmesVerif.C11_flatten
#print axioms JmesVerif.C11_multilist
#print axioms JmesVerif.C11_multihash
#print axioms JmesVerif.C11_not
#print axioms JmesVerif.C11_and
#print axioms JmesVerif.C11_or
#print axioms JmesVerif.C11_comparison
#print axioms JmesVerif.C11_objectValues
#print axioms JmesVerif.C11_translated_interpreter
