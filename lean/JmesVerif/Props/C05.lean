theorem C05_placeholder : True := trivial
