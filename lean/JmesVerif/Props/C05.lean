import JmesVerif.Props.C03
import JmesVerif.Props.C06
import JmesVerif.Props.C07
import JmesVerif.Lemmas.InterpFuel
/-!
# C05 — compile and search are total: no panic, abort or hang on any input

What a theorem about the model can carry (recursion *depth* and loop bounds; stack bytes and
seconds are runtime quantities — this property is **partial by nature**):

* the lexer and the parser terminate on every input within a bound linear in its length
  (`C05_lexer_fuel_stable`, `C05_parser_fuel_sufficient`): no loop runs forever, recursion depth
  ≤ 8·|tokens| + 8;
* number tokens fit `i32` with room for negation (`C05_number_tokens_no_overflow`);
* the slice loops never overflow `i32`, never index out of bounds and stop within `len + 1`
  iterations, for every start/stop/step (`C05_slice_total`); negative indexes are total by construction;
* after validation no builtin reaches `unreachable!()` and the validator itself cannot panic
  (`C05_builtins_no_unreachable`, `C05_validator_no_panic`);
* `search` terminates on every JSON document for every expression whose expression references stay
  in the expref-typed parameters of `map/sort_by/max_by/min_by` (`C05_search_terminates`), and
  evaluation results never depend on surplus fuel (`C05_interp_fuel_monotone`);
* **negative result (known finding F13)**: a grammatical expression in which an expression
  reference reaches the data diverges for every fuel on every document (`C05_omega_diverges`).
Unbounded nesting depth (F12) is outside what fuel can express: recursion depth is linear in the
input, the stack is finite.
-/
namespace JmesVerif

theorem C05_parser_fuel_sufficient (ts : List PT) : parseTokens ts ≠ .error .fuel :=
  parseTokens_no_fuel ts

theorem C05_lexer_fuel_stable (total : Nat) (cs : List Char) (acc : List (Nat × Tok)) (k : Nat) :
    Lexer.loop total (cs.length + 1 + k) cs acc = Lexer.loop total (cs.length + 1) cs acc :=
  lexLoop_fuel_stable' total cs acc k

theorem C05_number_tokens_no_overflow (cs : List Char) (ts : List PT) (h : tokenize cs = .ok ts) (p : Nat) (n : Int)
    (hm : (p, Tok.number n) ∈ ts) : -2147483647 ≤ n ∧ n ≤ 2147483647 :=
  C03_number_tokens_in_range cs ts h p n hm

/-- the slice code is total: for every array (length within i32), bounds and non-zero step it
returns a list (no `Fault`: no overflow, no out-of-bounds index, no runaway loop) -/
theorem C05_slice_total (xs : List α) (start stop : Option Int) (step : Int) (hstep : step ≠ 0)
    (hlen : (xs.length : Int) ≤ I32_MAX) : ∃ ys, sliceList xs start stop step = .ok ys :=
  ⟨_, C07_slice_eq_python xs start stop step hstep hlen⟩

theorem C05_builtins_no_unreachable (rt : Registry) (fuel : Nat) (b : Builtin) (args : List Val) (off : Nat)
    (m : String) (h : callFn rt (fuel + 1) (.builtin b) args off = .error (.panic m)) :
    b.usesExpref = true ∧ ∃ a xs, Val.expref a ∈ args ∧ Val.arr xs ∈ args ∧
      ∃ f x o, x ∈ xs ∧ interp rt f x a o = .error (.panic m) :=
  builtin_no_panic rt fuel b args off m h

theorem C05_validator_no_panic (s : Sig) (args : List Val) (off : Nat) (m : String) :
    s.validate args off ≠ .error (.panic m) :=
  validate_no_panic s args off m

/-- **Termination.**  Every disciplined expression terminates on every JSON document, with a
JSON result. -/
theorem C05_search_terminates (a : Ast) (ha : a.Disciplined = true) (d : Val) (hd : d.isJson = true) (off : Nat) :
    ∃ n r, r ≠ .error .fuel ∧ (∀ v off', r = .ok (v, off') → v.isJson = true) ∧
      ∀ fuel, n ≤ fuel → interp Registry.default fuel d a off = r :=
  interp_converges Registry.default regOK_default a ha d hd off

theorem C05_interp_fuel_monotone (rt : Registry) (fuel : Nat) (d : Val) (a : Ast) (off : Nat) (r : ERes Val)
    (h : interp rt fuel d a off = r) (hr : r ≠ .error .fuel) :
    ∀ fuel', fuel ≤ fuel' → interp rt fuel' d a off = r :=
  interp_mono rt fuel d a off r h hr

/-- **F13.**  `to_array(not_null(&map(@[0], [@]))) | map(@[0], [@])` compiles, and searching *any*
document with it never terminates: the model is out of fuel for every fuel. -/
theorem C05_omega_diverges : match parseExpr omegaSrc.toList with
    | .ok (_, a) => ∀ (fuel : Nat) (d : Val), search Registry.default fuel a d = .error .fuel
    | .error _ => False :=
  omegaSrc_diverges


/-! ### no arithmetic site of the translated slice / index code can fault

`Generated/Code.lean` (re-translated from variable.rs / interpreter.rs on every run) performs every `i32` / `usize`
operation through a checked primitive (`Fault.overflow`), every `array[i]` through a checked lookup
(`Fault.outOfBounds`) and every `while` under a budget (`Fault.fuel`).  For all in-range inputs the result is `.ok`:
none of these faults can occur.  The one overflowing input of the index arm, `idx = i32::MIN`, is exhibited; the lexer
never produces it (`C05_number_tokens_no_overflow`). -/
open Generated.Code in
theorem C05_translated_code_no_fault {α : Type} :
    (∀ len endpoint step : Int, 0 ≤ len → len ≤ I32_MAX → InI32 endpoint →
        ∃ r, adjust_slice_endpoint len endpoint step = .ok r) ∧
    (∀ (fuel : Nat) (xs : List α) (start stop : Option Int) (step : Int), xs.length + 1 ≤ fuel → (xs.length : Int) ≤ I32_MAX →
        OptInI32 start → OptInI32 stop → step ≠ 0 → ∃ r, slice fuel xs start stop step = .ok r) ∧
    (∀ (xs : List α) (idx : Int), I32_MIN < idx → idx ≤ I32_MAX → ∃ r, index xs idx = .ok r) ∧
    (∀ xs : List α, index xs I32_MIN = .error .overflow) :=
  ⟨fun len e s h0 h1 he => ⟨_, gen_adjust_eq len e s h0 h1 he⟩,
   fun fuel xs a b s hf hl ha hb hs => ⟨_, C07_translated_slice_eq_python fuel xs a b s hf hl ha hb hs⟩,
   fun xs i h1 h2 => ⟨_, gen_index_eq xs i h1 h2⟩,
   fun xs => gen_index_min_overflows xs⟩

end JmesVerif

#print axioms JmesVerif.C05_parser_fuel_sufficient
#print axioms JmesVerif.C05_lexer_fuel_stable
#print axioms JmesVerif.C05_number_tokens_no_overflow
#print axioms JmesVerif.C05_slice_total
#print axioms JmesVerif.C05_builtins_no_unreachable
#print axioms JmesVerif.C05_validator_no_panic
#print axioms JmesVerif.C05_search_terminates
#print axioms JmesVerif.C05_interp_fuel_monotone
#print axioms JmesVerif.C05_omega_diverges
#print axioms JmesVerif.C05_translated_code_no_fault
