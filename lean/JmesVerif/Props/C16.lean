import JmesVerif.Model.Threads
/-!
# C16 — with the sync feature, compiled expressions are safely shareable across threads

Model: `Model/Threads.lean` — threads take atomic steps over shared immutable expressions /
documents and the once-cell holding the default runtime.

* `C16_cell_value` — whatever the schedule, the cell, once initialised, holds the builtin-complete
  runtime (the first-use race has one possible outcome);
* `C16_step_schedule_independent` — the result of a step does not depend on the state it is taken in;
* `C16_schedule_independence` — for every schedule and every set of thread programs, each thread
  obtains, in order, exactly the results its program yields when run alone.
**Partial by nature**: that steps are atomic and race-free is what Rust's `Send`/`Sync`, `Arc` and
`lazy_static` provide; the harness contains the `Send + Sync` obligations (checked by rustc on
every run) and the `threads` stream exercises real interleavings, including the first use.
-/
namespace JmesVerif

/-- the cell is either untouched or holds the default registry -/
def CellOk (s : TState) : Prop := s.cell = none ∨ s.cell = some Registry.default

theorem deref_value (s : TState) (h : CellOk s) : s.deref.2 = Registry.default ∧ CellOk s.deref.1 := by
  rcases h with h | h <;> simp [TState.deref, h, CellOk]

/-- one step: same output as running alone, and the cell invariant is kept -/
theorem C16_step_schedule_independent (fuel : Nat) (s : TState) (h : CellOk s) (op : TOp) :
    (tstep fuel s op).2 = soloResult fuel op ∧ CellOk (tstep fuel s op).1 := by
  cases op with
  | searchShared a doc => exact ⟨rfl, h⟩
  | compileSearch text doc =>
    have hd := deref_value s h
    simp only [tstep, soloResult]
    refine ⟨?_, hd.2⟩
    rw [hd.1]
    simp [TState.init, TState.deref]

/-- the first-use race has a single outcome -/
theorem C16_cell_value (fuel : Nat) (s : TState) (h : CellOk s) (op : TOp) :
    (tstep fuel s op).1.cell = none ∨ (tstep fuel s op).1.cell = some Registry.default :=
  (C16_step_schedule_independent fuel s h op).2

/-- the outputs thread `t` receives, in order -/
def outputsOf (t : Nat) (trace : List (Nat × QueryOut)) : List QueryOut :=
  (trace.filter (fun p => p.1 = t)).map (·.2)

theorem outputsOf_cons (t u : Nat) (out : QueryOut) (tr : List (Nat × QueryOut)) :
    outputsOf t ((u, out) :: tr) = if u = t then out :: outputsOf t tr else outputsOf t tr := by
  by_cases h : u = t <;> simp [outputsOf, List.filter_cons, h]

/-- **Schedule independence.**  Under every schedule, the outputs each thread observes are the
solo results of the operations of its program that were executed, in program order. -/
theorem C16_schedule_independence (fuel : Nat) (progs : Nat → List TOp) (t : Nat) :
    ∀ (sched : List Nat) (s : TState) (pc : Nat → Nat), CellOk s →
      ∃ k, outputsOf t (runSchedule fuel progs sched s pc) = (((progs t).drop (pc t)).take k).map (soloResult fuel) := by
  intro sched
  induction sched with
  | nil => intro s pc _; exact ⟨0, by simp [runSchedule, outputsOf]⟩
  | cons u rest ih =>
    intro s pc hs
    rw [runSchedule]
    cases hop : (progs u)[pc u]? with
    | none => exact ih s pc hs
    | some op =>
      obtain ⟨hout, hs'⟩ := C16_step_schedule_independent fuel s hs op
      obtain ⟨k, hk⟩ := ih (tstep fuel s op).1 (fun v => if v = u then pc u + 1 else pc v) hs'
      show ∃ k, outputsOf t ((u, (tstep fuel s op).2) :: runSchedule fuel progs rest (tstep fuel s op).1
        (fun v => if v = u then pc u + 1 else pc v)) = _
      rw [outputsOf_cons, hk, hout]
      by_cases hut : u = t
      · subst hut
        refine ⟨k + 1, ?_⟩
        have hlt : pc u < (progs u).length := by
          rcases Nat.lt_or_ge (pc u) (progs u).length with h | h
          · exact h
          · rw [List.getElem?_eq_none h] at hop; cases hop
        have hget : (progs u)[pc u]'hlt = op := by
          rw [List.getElem?_eq_getElem hlt] at hop; exact Option.some.inj hop
        simp only [if_true]
        rw [List.drop_eq_getElem_cons hlt, hget, List.take_succ_cons, List.map_cons]
      · refine ⟨k, ?_⟩
        have hne : ¬ t = u := fun h => hut h.symm
        simp only [hut, if_false, hne]

/-! non-vacuity: a racing first use yields the solo result -/
example : CellOk TState.init := Or.inl rfl

end JmesVerif

#print axioms JmesVerif.C16_step_schedule_independent
#print axioms JmesVerif.C16_cell_value
#print axioms JmesVerif.C16_schedule_independence
