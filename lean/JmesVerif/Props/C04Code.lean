import JmesVerif.Props.C04
import JmesVerif.Lemmas.ParserEquiv
/-!
# C04 / C03 — the parser as re-translated from parser.rs on every run

`Generated/ParserCode.lean` is written by `tools/rs2lean_parser.py` from the WHOLE of parser.rs — every method of `Parser` (`parse`, `advance`,
`peek`, `err`, `expr`, `nud`, `led`, `parse_kvp`, `parse_filter`, `parse_flatten`, `parse_comparator`, `parse_dot`, `projection_rhs`,
`parse_wildcard_index`, `parse_wildcard_values`, `parse_index`, `parse_multi_list`, `parse_list`), the token queue and `self.offset` threaded as state, each
`while` / `loop` a function of the same mutual block, every binding power read off the source (`Token::X.lbp()`, `PROJECTION_STOP`), checked `usize`
arithmetic and indexing.  `Lemmas/ParserEquiv.lean` proves by one joint induction that the hand-written model `Parser.*` — which every parser theorem
(C03 soundness / completeness / ABNF equivalence, C04 unambiguity / precedence / parenthesis invariance, C05 fuel bound, C12 offsets) is about —
computes the SAME tree and the SAME error offset as the translated code, for every token list the lexer can produce, with no fuel in the statement.
A semantic edit of parser.rs (a binding power, a guard, the order of two reads of `self.offset`, an accepted token) changes the translation and
breaks that proof; reformatting, renaming, reordering arms, `if let` for `match` do not (§12 of DESIGN.md).

This is the module the C04 check audits: the axioms of the theorems of `Props/C04.lean` are printed again at the end.
-/
namespace JmesVerif

/-- **the model parser is the parser of parser.rs as it reads today**: for every string the lexer accepts, the translated `Parser::parse` returns
exactly the tree (offsets included) resp. the error offset that the model's `parseTokens` returns; and the translated code never exhausts its budget,
overflows a `usize` or indexes out of bounds, for ANY token list. -/
theorem C04_translated_parser :
    (∀ (cs : List Char) (ts : List PT), tokenize cs = .ok ts →
        Generated.ParserCode.run ts = liftE ((parseTokens ts).map (·.2))) ∧
    (∀ ts : List PT, Generated.ParserCode.run ts ≠ .error .fuel ∧ Generated.ParserCode.run ts ≠ .error .overflow ∧
        Generated.ParserCode.run ts ≠ .error .outOfBounds) ∧
    (∀ (ts : List PT) (k : Nat), Generated.ParserCode.parseFuel ts ≤ k → Generated.ParserCode.parse_tokens k ts = Generated.ParserCode.run ts) :=
  ⟨fun _ _ h => gen_parse_eq_tokenize h, gen_parse_no_panic, gen_parse_fuel_indep⟩

end JmesVerif

#print axioms JmesVerif.C04_translated_parser
#print axioms JmesVerif.C04_lbp_table
#print axioms JmesVerif.C04_documented_order
#print axioms JmesVerif.C04_parse_is_rule_tree
#print axioms JmesVerif.C04_unambiguous
#print axioms JmesVerif.C04_operands_bind_tighter
#print axioms JmesVerif.C04_projection_stop
#print axioms JmesVerif.C04_paren_invariance
#print axioms JmesVerif.C04_paren_legal
#print axioms JmesVerif.C04_ast_vocabulary
