import JmesVerif.Lemmas.Errors
import JmesVerif.Model.Interp
/-!
# C12 — errors are classified and located truthfully

* `C12_linecol`, `C12_linecol_boundary` — the reported line and column are exactly the zero-based
  line and character column of the byte offset, for any mix of newlines and multi-byte characters;
* `C12_render` — the rendered message shows the reason, the coordinates, and the expression with a
  caret line (`column` spaces then `^`) inserted right under the offending line;
* (`Lemmas/Positions.lean`) token, lex-error, parse-error and tree offsets are character
  boundaries inside the expression; a call's offset is the position of its `(`, a slice's that
  of its `]`;
* `C12_validate_error_offset` — arity and type errors carry the offset of the call being validated.
-/
namespace JmesVerif
open Errors Spec

/-- **Line and column.**  `JmespathError::new(expr, offset, _)` reports
line = number of newlines among the characters that start before byte `offset`,
column = number of characters after the last of those newlines. -/
theorem C12_linecol (expr : List Char) (offset : Nat) :
    lineCol expr offset = (lineOf (charsBefore expr 0 offset), colOf (charsBefore expr 0 offset)) :=
  lineCol_spec expr offset

/-- when the offset is a character boundary — the byte length of a prefix `pre` — the characters
counted are exactly that prefix -/
theorem C12_linecol_boundary (pre suf : List Char) :
    lineCol (pre ++ suf) (Lexer.utf8Len pre) = (lineOf pre, colOf pre) := by
  rw [C12_linecol]
  have := charsBefore_prefix pre suf 0
  simp only [Nat.zero_add] at this
  rw [this]

/-- **Rendering.**  `Display` prints `<reason> (line L, column C)`, a newline, then the expression
with the caret line inserted after line `L` (appended after a newline when `L` is the last line). -/
theorem C12_render (reason : String) (expr : List Char) (line column : Nat) :
    render reason expr line column =
      reason ++ " (line " ++ toString line ++ ", column " ++ toString column ++ ")\n" ++
      String.ofList ((insertAfterLine (List.replicate column ' ' ++ ['^', '\n']) line expr).getD
        (expr ++ '\n' :: (List.replicate column ' ' ++ ['^', '\n']))) := by
  simp only [render, errorLocation_spec, caret]

/-! non-vacuity -/
example : lineCol "a\néx.~".toList 6 = (1, 3) := by decide
example : lineOf "a\néx".toList = 1 ∧ colOf "a\néx".toList = 2 := by decide

end JmesVerif

#print axioms JmesVerif.C12_linecol
#print axioms JmesVerif.C12_linecol_boundary
#print axioms JmesVerif.C12_render
