import JmesVerif.Lemmas.Errors
import JmesVerif.Model.Interp
import JmesVerif.Lemmas.Positions
import JmesVerif.Lemmas.Signature
import JmesVerif.Generated.Vocab
import JmesVerif.Lemmas.ErrorOffsetsParse
import JmesVerif.Lemmas.F64Spec
/-!
# C12 — errors are classified and located truthfully

* `C12_linecol`, `C12_linecol_boundary` — the reported line and column are exactly the zero-based
  line and character column of the byte offset, for any mix of newlines and multi-byte characters;
* `C12_render` — the rendered message shows the reason, the coordinates, and the expression with a
  caret line (`column` spaces then `^`) inserted right under the offending line;
* (`Lemmas/Positions.lean`) token, lex-error, parse-error and tree offsets are character
  boundaries inside the expression; a call's offset is the position of its `(`, a slice's that
  of its `]`;
* `C12_validate_error_offset` — arity and type errors carry the offset of the call being validated.
* (last section) the global invariant over whole evaluations: `C12_runtime_error_located_deep`,
  `C12_runtime_error_located`, `C12_search_error_located`, `C12_error_classes`.
-/
namespace JmesVerif
open Errors Spec

/-- **Line and column.**  `JmespathError::new(expr, offset, _)` reports
line = number of newlines among the characters that start before byte `offset`,
column = number of characters after the last of those newlines. -/
theorem C12_linecol (expr : List Char) (offset : Nat) :
    lineCol expr offset = (lineOf (charsBefore expr 0 offset), colOf (charsBefore expr 0 offset)) :=
  lineCol_spec expr offset

/-- when the offset is a character boundary — the byte length of a prefix `pre` — the characters
counted are exactly that prefix -/
theorem C12_linecol_boundary (pre suf : List Char) :
    lineCol (pre ++ suf) (Lexer.utf8Len pre) = (lineOf pre, colOf pre) := by
  rw [C12_linecol]
  have := charsBefore_prefix pre suf 0
  simp only [Nat.zero_add] at this
  rw [this]

/-- **Rendering.**  `Display` prints `<reason> (line L, column C)`, a newline, then the expression
with the caret line inserted after line `L` (appended after a newline when `L` is the last line). -/
theorem C12_render (reason : String) (expr : List Char) (line column : Nat) :
    render reason expr line column =
      reason ++ " (line " ++ toString line ++ ", column " ++ toString column ++ ")\n" ++
      String.ofList ((insertAfterLine (List.replicate column ' ' ++ ['^', '\n']) line expr).getD
        (expr ++ '\n' :: (List.replicate column ' ' ++ ['^', '\n']))) := by
  simp only [render, errorLocation_spec, caret]

/-- every token position the lexer reports is a character boundary inside the expression
(the end marker sits at its end) -/
theorem C12_token_positions (cs : List Char) (ts : List PT) (h : tokenize cs = .ok ts) :
    ∀ pt ∈ ts, IsBoundary cs pt.1 := tokenize_positions cs ts h

/-- a lexical error is reported at a character boundary inside the expression -/
theorem C12_lex_error_position (cs : List Char) (e : LexErr) (h : tokenize cs = .error e) :
    IsBoundary cs e.pos := tokenize_error_position cs e h

/-- every offset in the public tree is a token position (or 0); a call's offset is the position of
its `(` token and a slice's offset the position of its closing `]` -/
theorem C12_parse_offsets (ts : List PT) (e : Expr) (a : Ast) (h : parseTokens ts = .ok (e, a)) :
    (∀ o ∈ a.offsets, o = 0 ∨ o ∈ ts.map Prod.fst) ∧
    (∀ o ∈ a.callOffsets, (o, Tok.lparen) ∈ ts) ∧
    (∀ o ∈ a.sliceOffsets, (o, Tok.rbracket) ∈ ts) := parse_offsets ts e a h

/-- a syntax error is reported at a token position (or 0), hence at a character boundary -/
theorem C12_parse_error_offset (ts : List PT) (p : Nat) (h : parseTokens ts = .error (.at p)) :
    p = 0 ∨ p ∈ ts.map Prod.fst := parse_error_offset ts p h

/-- arity and type errors are runtime errors carrying the offset of the call being validated
(which `C12_parse_offsets` shows to be its opening parenthesis) -/
theorem C12_validate_error_offset (s : Sig) (args : List Val) (off : Nat) (e : EvalErr)
    (h : s.validate args off = .error e) : ∃ r, e = .runtime r off := validate_error_offset s args off e h

/-- an unknown function is reported at the offset of that call; an invalid slice at the slice's offset -/
theorem C12_unknown_function_offset (rt : Registry) (fuel : Nat) (d : Val) (o : Nat) (name : String)
    (args : List Ast) (off : Nat) (vs : List Val) (prev : Nat)
    (ha : interpAll rt fuel d args off = .ok (vs, prev)) (hn : rt.get name = none) :
    interp rt (fuel + 1) d (.function o name args) off = .error (.runtime (.unknownFunction name) o) := by
  simp [interp, ha, hn]

theorem C12_invalid_slice_offset (rt : Registry) (fuel : Nat) (d : Val) (o : Nat) (a b : Option Int) (step : Int)
    (hs : step = 0) (off : Nat) :
    interp rt (fuel + 1) d (.slice o a b step) off = .error (.runtime .invalidSlice o) := by
  subst hs
  rw [interp.eq_def]
  simp

/-! non-vacuity -/
example : lineCol "a\néx.~".toList 6 = (1, 3) := by decide
example : lineOf "a\néx".toList = 1 ∧ colOf "a\néx".toList = 2 := by decide


/-! ### the error vocabulary (errors.rs:104, :122), re-extracted on every run: failures are `Parse` or `Runtime`, and the
runtime kinds are exactly the model's -/
theorem C12_error_vocabulary :
    Generated.errorReasonFields = [("Parse", ["String"]), ("Runtime", ["RuntimeError"])]
    ∧ Generated.runtimeErrorFields =
        [("InvalidReturnType", ["expected", "actual", "position", "invocation"]), ("InvalidSlice", []),
         ("InvalidType", ["expected", "actual", "position"]), ("NotEnoughArguments", ["expected", "actual"]),
         ("TooManyArguments", ["expected", "actual"]), ("UnknownFunction", ["String"])]
    ∧ (∀ e : RtErr, Generated.runtimeErrorVariant e ∈ Generated.runtimeErrorFields.map (·.1)) := by
  refine ⟨rfl, rfl, ?_⟩
  intro e; cases e <;> simp [Generated.runtimeErrorVariant, Generated.runtimeErrorFields]

end JmesVerif

#print axioms JmesVerif.C12_linecol
#print axioms JmesVerif.C12_linecol_boundary
#print axioms JmesVerif.C12_render
#print axioms JmesVerif.C12_token_positions
#print axioms JmesVerif.C12_lex_error_position
#print axioms JmesVerif.C12_parse_offsets
#print axioms JmesVerif.C12_parse_error_offset
#print axioms JmesVerif.C12_validate_error_offset
#print axioms JmesVerif.C12_unknown_function_offset
#print axioms JmesVerif.C12_invalid_slice_offset
#print axioms JmesVerif.C12_error_vocabulary

/-! ## The global invariant: where the errors of a whole evaluation point

Proved by one induction over the interpreter's mutual block (`Lemmas/ErrorOffsetsInterp.lean`,
`locStep_all`), carrying the companion invariant that every value returned only holds expression
references whose call / slice offsets come from the tree or from the input data
(`C12_result_exprefs_from_input`) — so an error raised later inside `map` / `sort_by` / `max_by` /
`min_by`, which interpret an expression reference held in an argument *value*, is still located.

`Ast.callOffsets` / `Ast.sliceOffsets` do not look into literal values, but `Variable::Expref` is a
`Variable`, so a hand-built `Ast::Literal` may hold a tree (`C12_literal_expref_escapes`: then the
error points into that literal, and is *not* in `a.callOffsets`).  Hence two versions: the `_deep`
one for every tree (`Ast.callOffsetsDeep` descends into literals), and the one over
`Ast.callOffsets` for trees whose literals are JSON (`Ast.LitJson`), which is all the parser ever
builds (`parseExpr_litJson`). -/

namespace JmesVerif

theorem deepOffsets_append (a : Ast) (d : Val) :
    a.callOffsetsDeep ++ d.exprefCallOffsets = (a.nodesD ++ d.exNodes).filterMap OKind.callOff ∧
    a.sliceOffsetsDeep ++ d.exprefSliceOffsets = (a.nodesD ++ d.exNodes).filterMap OKind.sliceOff := by
  simp [Ast.callOffsetsDeep, Ast.sliceOffsetsDeep, Val.exprefCallOffsets, Val.exprefSliceOffsets,
    List.filterMap_append]

/-- **Names the call that failed.**  The node a runtime error of `interp` points at, by kind — in the
tree being evaluated (literals included: `Ast.nodesD`) or in an expression reference held in the
input data (`Val.exNodes`):
* `InvalidSlice`: a slice node;
* `UnknownFunction(name)`: a call of `name`, and `name` is not registered;
* `InvalidReturnType`: a call of a name bound to `sort_by` / `max_by` / `min_by` — the by-function's
  own call, not a call nested in its expression reference (the F10 repair);
* `TooManyArguments`, `NotEnoughArguments`, `InvalidType`: a call of a registered name. -/
theorem C12_runtime_error_names_call (rt : Registry) (fuel : Nat) (d : Val) (a : Ast) (off : Nat)
    (e : RtErr) (o : Nat) (h : interp rt fuel d a off = .error (.runtime e o)) :
    match e with
    | .invalidSlice => (OKind.slice, o) ∈ a.nodesD ++ d.exNodes
    | .unknownFunction n => (OKind.call n, o) ∈ a.nodesD ++ d.exNodes ∧ rt.get n = none
    | .invalidReturnType _ _ _ _ => ∃ n b, (OKind.call n, o) ∈ a.nodesD ++ d.exNodes ∧
        rt.get n = some (.builtin b) ∧ (b = .sortBy ∨ b = .maxBy ∨ b = .minBy)
    | _ => ∃ n f, (OKind.call n, o) ∈ a.nodesD ++ d.exNodes ∧ rt.get n = some f := by
  have := interp_located rt fuel d a off
  rw [h] at this
  cases e with
  | invalidSlice => exact this
  | unknownFunction n => exact this
  | invalidReturnType x y z w =>
    obtain ⟨b, ⟨n, hn, hg⟩, hb⟩ := this
    refine ⟨n, b, hn, hg, ?_⟩
    cases b <;> simp [Builtin.isBy] at hb <;> simp
  | tooMany x y => obtain ⟨f, n, hn, hg⟩ := this; exact ⟨n, f, hn, hg⟩
  | notEnough x y => obtain ⟨f, n, hn, hg⟩ := this; exact ⟨n, f, hn, hg⟩
  | invalidType x y z => obtain ⟨f, n, hn, hg⟩ := this; exact ⟨n, f, hn, hg⟩

/-- **Located, every tree.**  A runtime error of `interp` carries the offset of a slice node
(`InvalidSlice`) resp. of a call node (every other kind) of the tree being evaluated — literals
included — or of an expression reference held in the input data. -/
theorem C12_runtime_error_located_deep (rt : Registry) (fuel : Nat) (d : Val) (a : Ast) (off : Nat)
    (e : RtErr) (o : Nat) (h : interp rt fuel d a off = .error (.runtime e o)) :
    (e = .invalidSlice → o ∈ a.sliceOffsetsDeep ++ d.exprefSliceOffsets) ∧
    (e ≠ .invalidSlice → o ∈ a.callOffsetsDeep ++ d.exprefCallOffsets) := by
  have := C12_runtime_error_names_call rt fuel d a off e o h
  rw [(deepOffsets_append a d).1, (deepOffsets_append a d).2, mem_callOff, mem_sliceOff]
  cases e with
  | invalidSlice => exact ⟨fun _ => this, fun hne => absurd rfl hne⟩
  | unknownFunction n => exact ⟨fun hh => (by cases hh), fun _ => ⟨n, this.1⟩⟩
  | invalidReturnType x y z w =>
    obtain ⟨n, b, hn, _⟩ := this; exact ⟨fun hh => (by cases hh), fun _ => ⟨n, hn⟩⟩
  | tooMany x y => obtain ⟨n, f, hn, _⟩ := this; exact ⟨fun hh => (by cases hh), fun _ => ⟨n, hn⟩⟩
  | notEnough x y => obtain ⟨n, f, hn, _⟩ := this; exact ⟨fun hh => (by cases hh), fun _ => ⟨n, hn⟩⟩
  | invalidType x y z => obtain ⟨n, f, hn, _⟩ := this; exact ⟨fun hh => (by cases hh), fun _ => ⟨n, hn⟩⟩

/-- **Located.**  For a tree whose literals are JSON values (every parsed tree:
`C12_parsed_literals_json`): an `InvalidSlice` error carries the offset of a slice node of the tree
or of an expression reference in the data; every other runtime error (`UnknownFunction`,
`TooManyArguments`, `NotEnoughArguments`, `InvalidType`, `InvalidReturnType`) the offset of a call
node of the tree or of an expression reference in the data. -/
theorem C12_runtime_error_located (rt : Registry) (fuel : Nat) (d : Val) (a : Ast) (off : Nat)
    (hl : a.LitJson = true)
    (e : RtErr) (o : Nat) (h : interp rt fuel d a off = .error (.runtime e o)) :
    (e = .invalidSlice → o ∈ a.sliceOffsets ++ d.exprefSliceOffsets) ∧
    (e ≠ .invalidSlice → o ∈ a.callOffsets ++ d.exprefCallOffsets) := by
  have := C12_runtime_error_located_deep rt fuel d a off e o h
  rwa [Ast.callOffsetsDeep_eq a hl, Ast.sliceOffsetsDeep_eq a hl] at this

/-- the companion invariant: the expression references in a value returned by `interp` only contain
call / slice nodes of the tree or of expression references in the input data -/
theorem C12_result_exprefs_from_input (rt : Registry) (fuel : Nat) (d : Val) (a : Ast) (off : Nat)
    (v : Val) (off' : Nat) (h : interp rt fuel d a off = .ok (v, off')) :
    (∀ p ∈ v.exNodes, p ∈ a.nodesD ++ d.exNodes) ∧
    (∀ o ∈ v.exprefCallOffsets, o ∈ a.callOffsetsDeep ++ d.exprefCallOffsets) ∧
    (∀ o ∈ v.exprefSliceOffsets, o ∈ a.sliceOffsetsDeep ++ d.exprefSliceOffsets) := by
  have := interp_located rt fuel d a off
  rw [h] at this
  have h1 : ∀ p ∈ v.exNodes, p ∈ a.nodesD ++ d.exNodes := fun p hp => this p hp
  refine ⟨h1, ?_, ?_⟩
  · intro o ho
    rw [(deepOffsets_append a d).1, mem_callOff]
    obtain ⟨n, hn⟩ := (mem_callOff o _).1 ho
    exact ⟨n, h1 _ hn⟩
  · intro o ho
    rw [(deepOffsets_append a d).2, mem_sliceOff]
    exact h1 _ ((mem_sliceOff o _).1 ho)

/-- the parser only builds trees whose literals are JSON values -/
theorem C12_parsed_literals_json (cs : List Char) (e : Expr) (a : Ast) (h : parseExpr cs = .ok (e, a)) :
    a.LitJson = true := parseExpr_litJson cs e a h

/-- **Located in the text.**  Searching a JSON document with a compiled expression: the offset of an
`InvalidSlice` error is the position of a `]` token of the expression, the offset of every other
runtime error the position of a `(` token (the opening parenthesis of the call that failed). -/
theorem C12_search_error_located (rt : Registry) (fuel : Nat) (cs : List Char) (e : Expr) (a : Ast)
    (ts : List PT) (d : Val) (r : RtErr) (o : Nat)
    (hp : parseExpr cs = .ok (e, a)) (ht : tokenize cs = .ok ts) (hd : d.isJson = true)
    (h : search rt fuel a d = .error (.runtime r o)) :
    (r = .invalidSlice → (o, Tok.rbracket) ∈ ts) ∧ (r ≠ .invalidSlice → (o, Tok.lparen) ∈ ts) := by
  have hl := parseExpr_litJson cs e a hp
  have hpt : parseTokens ts = .ok (e, a) := by
    unfold parseExpr at hp
    rw [ht] at hp
    simp only at hp
    split at hp
    · simp at hp
    · rename_i r' hr; simp only [Except.ok.injEq] at hp; rw [hr, hp]
  obtain ⟨_, hcall, hslice⟩ := parse_offsets ts e a hpt
  have hi : interp rt fuel d a 0 = .error (.runtime r o) := by
    unfold search at h
    split at h
    · simp at h
    · rename_i e' he; simp only [Except.error.injEq] at h; rw [he, h]
  have := C12_runtime_error_located rt fuel d a 0 hl r o hi
  rw [Val.exprefCallOffsets_json d hd, Val.exprefSliceOffsets_json d hd, List.append_nil,
    List.append_nil] at this
  exact ⟨fun h1 => hslice o (this.1 h1), fun h1 => hcall o (this.2 h1)⟩

/-- **Classes.**  Every failure of `interp` is a runtime error (located by the theorems above); or
an `internal` error carrying one of the three messages of `numOfF64` (abs / avg / ceil / floor / sum
producing a non-finite double: finding F14); or the slice-loop fault, which needs a slice node in
the tree or in an expression reference of the data (and, `C12_slice_fault_needs_huge_array`, an
array longer than `i32::MAX`); or the model's fuel.  No `unreachable!()` / index-out-of-bounds arm
of a builtin or of the validator is ever reached. -/
theorem C12_error_classes (rt : Registry) (fuel : Nat) (d : Val) (a : Ast) (off : Nat) (err : EvalErr)
    (h : interp rt fuel d a off = .error err) :
    (∃ r o, err = .runtime r o) ∨
    (∃ msg, err = .internal msg ∧
      msg ∈ ["Expected to be a valid f64", "Expected n.ceil() to be a valid f64", "Expected to be a valid number"]) ∨
    (err = .panic "slice" ∧ a.sliceOffsetsDeep ++ d.exprefSliceOffsets ≠ []) ∨
    err = .fuel := by
  have := interp_located rt fuel d a off
  rw [h] at this
  cases err with
  | runtime r o => exact .inl ⟨r, o, rfl⟩
  | internal msg => exact .inr (.inl ⟨msg, rfl, this⟩)
  | panic m =>
    simp only [ROk_error, EOk, FromInput] at this
    obtain ⟨rfl, o, ho⟩ := this
    refine .inr (.inr (.inl ⟨rfl, ?_⟩))
    rw [(deepOffsets_append a d).2]
    exact List.ne_nil_of_mem ((mem_sliceOff o _).2 ho)
  | fuel => exact .inr (.inr (.inr rfl))

/-- in particular an evaluation that involves no slice node cannot panic at all -/
theorem C12_no_panic_without_slice (rt : Registry) (fuel : Nat) (d : Val) (a : Ast) (off : Nat) (m : String)
    (hs : a.sliceOffsetsDeep ++ d.exprefSliceOffsets = []) :
    interp rt fuel d a off ≠ .error (.panic m) := by
  intro h
  rcases C12_error_classes rt fuel d a off _ h with ⟨r, o, h'⟩ | ⟨msg, h', _⟩ | ⟨_, h'⟩ | h'
  · cases h'
  · cases h'
  · exact h' hs
  · cases h'

/-- the slice arm faults only for a non-zero step on an array longer than `i32::MAX`
(`C05_slice_total` / `C07_slice_eq_python`); threading an array-length bound through whole
evaluations (flatten and projections grow arrays) is not done here, so `.panic "slice"` stays in
`C12_error_classes` -/
theorem C12_slice_fault_needs_huge_array (rt : Registry) (fuel : Nat) (d : Val) (o : Nat)
    (st sp : Option Int) (step : Int) (off : Nat) (m : String)
    (h : interp rt fuel d (.slice o st sp step) off = .error (.panic m)) :
    step ≠ 0 ∧ m = "slice" ∧ ∃ xs, d = .arr xs ∧ I32_MAX < (xs.length : Int) :=
  slice_panic_huge rt fuel d o st sp step off m h

/-! ### non-vacuity: each kind is raised, at the offset the theorems predict -/

/-- a registry with two builtins and a custom function with a signature -/
def c12rt : Registry :=
  [("abs", .builtin .abs), ("max_by", .builtin .maxBy), ("map", .builtin .map),
   ("f", .custom 7 (some ⟨[.number], none⟩))]

/-- `abs('a')` with the call at offset 3: `InvalidType` at 3 -/
example : interp c12rt 5 .null (.function 3 "abs" [.literal 4 (.str "a")]) 0
    = .error (.runtime (.invalidType "number" "string" 0) 3) := by
  simp [interp, interpAll, c12rt, Registry.get, callFn, Builtin.sig, Sig.validate, Sig.validateArity,
    Sig.validateArgs, ArgT.isValid, Val.type, ArgT.name, JType.name]

/-- `abs()`: `NotEnoughArguments` at the call; `abs(@, @)`: `TooManyArguments` -/
example : interp c12rt 5 .null (.function 3 "abs" []) 0 = .error (.runtime (.notEnough 1 0) 3) := by
  simp [interp, interpAll, c12rt, Registry.get, callFn, Builtin.sig, Sig.validate, Sig.validateArity]
example : interp c12rt 5 .null (.function 3 "abs" [.identity 4, .identity 6]) 0
    = .error (.runtime (.tooMany 1 2) 3) := by
  simp [interp, interpAll, c12rt, Registry.get, callFn, Builtin.sig, Sig.validate, Sig.validateArity]

/-- an unknown function inside the argument of a known one: the inner call's offset -/
example : interp c12rt 5 .null (.function 3 "abs" [.function 9 "nope" []]) 0
    = .error (.runtime (.unknownFunction "nope") 9) := by
  simp [interp, interpAll, c12rt, Registry.get]

/-- a custom function with a signature: its type error is at its own call -/
example : interp c12rt 5 .null (.function 1 "f" [.literal 2 (.str "a")]) 0
    = .error (.runtime (.invalidType "number" "string" 0) 1) := by
  simp [interp, interpAll, c12rt, Registry.get, callFn, Sig.validate, Sig.validateArity,
    Sig.validateArgs, ArgT.isValid, Val.type, ArgT.name, JType.name]

/-- `[::0]` at offset 4 -/
example : interp c12rt 5 (.arr []) (.slice 4 none none 0) 0 = .error (.runtime .invalidSlice 4) := by
  simp [interp]

/-- `max_by(@, &abs(@))` on `[true]` (call at 6, inner call at 12): the by-function fails inside the
expression reference — the error is at the *inner* call -/
example : interp c12rt 9 (.arr [.bool true])
      (.function 6 "max_by" [.identity 7, .expref 10 (.function 12 "abs" [.identity 13])]) 0
    = .error (.runtime (.invalidType "number" "boolean" 0) 12) := by
  simp [interp, interpAll, c12rt, Registry.get, callFn, byExtreme, Builtin.sig, Sig.validate, Sig.validateArity,
    Sig.validateArgs, ArgT.isValid, Val.type, ArgT.name, JType.name]

/-- `max_by(@, &@)` on `[true]`: `InvalidReturnType` at the `max_by` call (offset restored: F10) -/
example : interp c12rt 9 (.arr [.bool true])
      (.function 6 "max_by" [.identity 7, .expref 10 (.identity 11)]) 0
    = .error (.runtime (.invalidReturnType "expression->number|expression->string" "boolean" 1 1) 6) := by
  simp [interp, interpAll, c12rt, Registry.get, callFn, byExtreme, Builtin.sig, Sig.validate, Sig.validateArity,
    Sig.validateArgs, ArgT.isValid, Val.type, JType.name]

/-- `max_by(@, &f(@))` on `[1]` (call at 6, nested call of the custom function at 12, which succeeds
and returns an object): `InvalidReturnType` is reported at the `max_by` call 6, not at the nested
call 12 that ran last — the register is restored after a call returns (F10) -/
example : interp c12rt 9 (.arr [.num (.pos 1)])
      (.function 6 "max_by" [.identity 7, .expref 10 (.function 12 "f" [.identity 13])]) 0
    = .error (.runtime (.invalidReturnType "expression->number|expression->string" "object" 1 1) 6) := by
  simp [interp, interpAll, c12rt, Registry.get, callFn, byExtreme, Builtin.sig, Sig.validate, Sig.validateArity,
    Sig.validateArgs, ArgT.isValid, Val.type, JType.name, customResult]

/-- an expression reference held in the *data*: `map(@[0], @)`-like call whose first argument comes
from the data; the error is at the call inside the data's tree (offset 40), which is in
`d.exprefCallOffsets`, not in the tree being evaluated -/
example : interp c12rt 9 (.arr [.expref (.function 40 "nope" [])])
      (.function 3 "map" [.index 4 0, .identity 8]) 0
    = .error (.runtime (.unknownFunction "nope") 40) := by
  simp [interp, interpAll, c12rt, Registry.get, callFn, mapExpref, Builtin.sig, Sig.validate, Sig.validateArity,
    Sig.validateArgs, ArgT.isValid, Val.type, indexList, getIndex]
example : (Val.arr [.expref (.function 40 "nope" [])]).exprefCallOffsets = [40] := by
  simp [Val.exprefCallOffsets, Val.exNodes, exNodesVs, Ast.nodesD, nodesDL, OKind.callOff]

/-- **why `LitJson` is needed**: a literal holding an expression reference (not buildable by the
parser, buildable through the public `Ast` type).  The error points into the literal: offset 7 is
in `callOffsetsDeep` but not in `callOffsets`. -/
theorem C12_literal_expref_escapes :
    let a : Ast := .function 1 "map" [.literal 2 (.expref (.function 7 "nope" [])), .literal 3 (.arr [.null])]
    interp c12rt 9 .null a 0 = .error (.runtime (.unknownFunction "nope") 7) ∧
    a.callOffsets = [1] ∧ a.callOffsetsDeep = [1, 7] ∧ (Val.null).exprefCallOffsets = [] := by
  refine ⟨?_, ?_, ?_, ?_⟩
  · simp [interp, interpAll, c12rt, Registry.get, callFn, mapExpref, Builtin.sig, Sig.validate, Sig.validateArity,
      Sig.validateArgs, ArgT.isValid, Val.type]
  · simp [Ast.callOffsets, Ast.callOffsetsL]
  · simp [Ast.callOffsetsDeep, Ast.nodesD, nodesDL, Val.exNodes, exNodesVs, OKind.callOff]
  · simp [Val.exprefCallOffsets, Val.exNodes]

/-! the `internal` class (F14): `sum(@)` on `[1.7976931348623157e308, 1.7976931348623157e308]` — two
finite doubles whose sum overflows — fails with the message of `numOfF64`, no expression, offset 0 -/
open F64 in
theorem maxVal_add_overflow : F64.add F64.maxVal F64.maxVal = .inf false := by
  have h970 : pow2 971 = 2 * pow2 970 := pow2_succ 970
  have h1024 : pow2 1024 = 18014398509481984 * pow2 970 := by
    have : pow2 (970 + 54) = pow2 970 * pow2 54 := pow2_add 970 54
    have h54 : pow2 54 = 18014398509481984 := by simp [pow2]
    rw [show (1024 : Int) = 970 + 54 from rfl, this, h54, Rat.mul_comm]
  have hp := pow2_pos 970
  have hq : maxVal.toRat + maxVal.toRat = 36028797018963964 * pow2 970 := by
    simp only [maxVal, toRat, h970]
    grind
  have hnn : ¬ (maxVal.toRat + maxVal.toRat < 0) := by
    rw [hq]; grind
  have := (ofRatSigned_inf_iff (false && false) (maxVal.toRat + maxVal.toRat)).2 (by
    unfold absq
    rw [if_neg hnn, hq, h1024]
    grind)
  rw [decide_eq_false hnn] at this
  simpa [F64.add, maxVal] using this

open F64 in
theorem zero_add_maxVal : F64.add F64.zero F64.maxVal = F64.maxVal := by
  have hc : CanonME 9007199254740991 971 := by
    right; right; refine ⟨by decide, by decide, by decide, by decide⟩
  have hr := roundPos_canon hc
  have hp := pow2_pos 971
  have hq : zero.toRat + maxVal.toRat = (9007199254740991 : Nat) * pow2 971 := by
    simp [zero, maxVal, toRat, Rat.zero_add]
  have hnn : ¬ ((9007199254740991 : Nat) * pow2 971 < 0) := by
    have : (0 : Rat) ≤ (9007199254740991 : Nat) * pow2 971 := Rat.mul_nonneg (by decide) (Rat.le_of_lt hp)
    grind
  show ofRatSigned (false && false) (zero.toRat + maxVal.toRat) = maxVal
  rw [hq]
  unfold ofRatSigned
  rw [if_neg hnn, hr]
  simp only [maxVal]
  rw [decide_eq_false hnn]

theorem C12_internal_inhabited :
    interp [("sum", .builtin .sum)] 5 (.arr [.num (.flt F64.maxVal), .num (.flt F64.maxVal)])
      (.function 3 "sum" [.identity 4]) 0 = .error (.internal "Expected to be a valid number") := by
  simp [interp, interpAll, Registry.get, callFn, Builtin.sig, Sig.validate, Sig.validateArity, arrNum,
    Sig.validateArgs, ArgT.isValid, allValid, Val.type, Builtin.usesExpref,
    Builtin.pure, sumF64, valNum, Num.toF64, zero_add_maxVal, maxVal_add_overflow, numOfF64, F64.isFinite]

end JmesVerif

#print axioms JmesVerif.C12_runtime_error_names_call
#print axioms JmesVerif.C12_runtime_error_located_deep
#print axioms JmesVerif.C12_runtime_error_located
#print axioms JmesVerif.C12_result_exprefs_from_input
#print axioms JmesVerif.C12_parsed_literals_json
#print axioms JmesVerif.C12_search_error_located
#print axioms JmesVerif.C12_error_classes
#print axioms JmesVerif.C12_no_panic_without_slice
#print axioms JmesVerif.C12_slice_fault_needs_huge_array
#print axioms JmesVerif.C12_literal_expref_escapes
#print axioms JmesVerif.C12_internal_inhabited
