import JmesVerif.Lemmas.Errors
import JmesVerif.Model.Interp
import JmesVerif.Lemmas.Positions
import JmesVerif.Lemmas.Signature
import JmesVerif.Generated.Vocab
/-!
# C12 — errors are classified and located truthfully

* `C12_linecol`, `C12_linecol_boundary` — the reported line and column are exactly the zero-based
  line and character column of the byte offset, for any mix of newlines and multi-byte characters;
* `C12_render` — the rendered message shows the reason, the coordinates, and the expression with a
  caret line (`column` spaces then `^`) inserted right under the offending line;
* (`Lemmas/Positions.lean`) token, lex-error, parse-error and tree offsets are character
  boundaries inside the expression; a call's offset is the position of its `(`, a slice's that
  of its `]`;
* `C12_validate_error_offset` — arity and type errors carry the offset of the call being validated.
-/
namespace JmesVerif
open Errors Spec

/-- **Line and column.**  `JmespathError::new(expr, offset, _)` reports
line = number of newlines among the characters that start before byte `offset`,
column = number of characters after the last of those newlines. -/
theorem C12_linecol (expr : List Char) (offset : Nat) :
    lineCol expr offset = (lineOf (charsBefore expr 0 offset), colOf (charsBefore expr 0 offset)) :=
  lineCol_spec expr offset

/-- when the offset is a character boundary — the byte length of a prefix `pre` — the characters
counted are exactly that prefix -/
theorem C12_linecol_boundary (pre suf : List Char) :
    lineCol (pre ++ suf) (Lexer.utf8Len pre) = (lineOf pre, colOf pre) := by
  rw [C12_linecol]
  have := charsBefore_prefix pre suf 0
  simp only [Nat.zero_add] at this
  rw [this]

/-- **Rendering.**  `Display` prints `<reason> (line L, column C)`, a newline, then the expression
with the caret line inserted after line `L` (appended after a newline when `L` is the last line). -/
theorem C12_render (reason : String) (expr : List Char) (line column : Nat) :
    render reason expr line column =
      reason ++ " (line " ++ toString line ++ ", column " ++ toString column ++ ")\n" ++
      String.ofList ((insertAfterLine (List.replicate column ' ' ++ ['^', '\n']) line expr).getD
        (expr ++ '\n' :: (List.replicate column ' ' ++ ['^', '\n']))) := by
  simp only [render, errorLocation_spec, caret]

/-- every token position the lexer reports is a character boundary inside the expression
(the end marker sits at its end) -/
theorem C12_token_positions (cs : List Char) (ts : List PT) (h : tokenize cs = .ok ts) :
    ∀ pt ∈ ts, IsBoundary cs pt.1 := tokenize_positions cs ts h

/-- a lexical error is reported at a character boundary inside the expression -/
theorem C12_lex_error_position (cs : List Char) (e : LexErr) (h : tokenize cs = .error e) :
    IsBoundary cs e.pos := tokenize_error_position cs e h

/-- every offset in the public tree is a token position (or 0); a call's offset is the position of
its `(` token and a slice's offset the position of its closing `]` -/
theorem C12_parse_offsets (ts : List PT) (e : Expr) (a : Ast) (h : parseTokens ts = .ok (e, a)) :
    (∀ o ∈ a.offsets, o = 0 ∨ o ∈ ts.map Prod.fst) ∧
    (∀ o ∈ a.callOffsets, (o, Tok.lparen) ∈ ts) ∧
    (∀ o ∈ a.sliceOffsets, (o, Tok.rbracket) ∈ ts) := parse_offsets ts e a h

/-- a syntax error is reported at a token position (or 0), hence at a character boundary -/
theorem C12_parse_error_offset (ts : List PT) (p : Nat) (h : parseTokens ts = .error (.at p)) :
    p = 0 ∨ p ∈ ts.map Prod.fst := parse_error_offset ts p h

/-- arity and type errors are runtime errors carrying the offset of the call being validated
(which `C12_parse_offsets` shows to be its opening parenthesis) -/
theorem C12_validate_error_offset (s : Sig) (args : List Val) (off : Nat) (e : EvalErr)
    (h : s.validate args off = .error e) : ∃ r, e = .runtime r off := validate_error_offset s args off e h

/-- an unknown function is reported at the offset of that call; an invalid slice at the slice's offset -/
theorem C12_unknown_function_offset (rt : Registry) (fuel : Nat) (d : Val) (o : Nat) (name : String)
    (args : List Ast) (off : Nat) (vs : List Val) (prev : Nat)
    (ha : interpAll rt fuel d args off = .ok (vs, prev)) (hn : rt.get name = none) :
    interp rt (fuel + 1) d (.function o name args) off = .error (.runtime (.unknownFunction name) o) := by
  simp [interp, ha, hn]

theorem C12_invalid_slice_offset (rt : Registry) (fuel : Nat) (d : Val) (o : Nat) (a b : Option Int) (step : Int)
    (hs : step = 0) (off : Nat) :
    interp rt (fuel + 1) d (.slice o a b step) off = .error (.runtime .invalidSlice o) := by
  subst hs
  rw [interp.eq_def]
  simp

/-! non-vacuity -/
example : lineCol "a\néx.~".toList 6 = (1, 3) := by decide
example : lineOf "a\néx".toList = 1 ∧ colOf "a\néx".toList = 2 := by decide


/-! ### the error vocabulary (errors.rs:104, :122), re-extracted on every run: failures are `Parse` or `Runtime`, and the
runtime kinds are exactly the model's -/
theorem C12_error_vocabulary :
    Generated.errorReasonFields = [("Parse", ["String"]), ("Runtime", ["RuntimeError"])]
    ∧ Generated.runtimeErrorFields =
        [("InvalidSlice", []), ("TooManyArguments", ["expected", "actual"]), ("NotEnoughArguments", ["expected", "actual"]),
         ("UnknownFunction", ["String"]), ("InvalidType", ["expected", "actual", "position"]),
         ("InvalidReturnType", ["expected", "actual", "position", "invocation"])]
    ∧ (∀ e : RtErr, Generated.runtimeErrorVariant e ∈ Generated.runtimeErrorFields.map (·.1)) := by
  refine ⟨rfl, rfl, ?_⟩
  intro e; cases e <;> simp [Generated.runtimeErrorVariant, Generated.runtimeErrorFields]

end JmesVerif

#print axioms JmesVerif.C12_linecol
#print axioms JmesVerif.C12_linecol_boundary
#print axioms JmesVerif.C12_render
#print axioms JmesVerif.C12_token_positions
#print axioms JmesVerif.C12_lex_error_position
#print axioms JmesVerif.C12_parse_offsets
#print axioms JmesVerif.C12_parse_error_offset
#print axioms JmesVerif.C12_validate_error_offset
#print axioms JmesVerif.C12_unknown_function_offset
#print axioms JmesVerif.C12_invalid_slice_offset
#print axioms JmesVerif.C12_error_vocabulary
