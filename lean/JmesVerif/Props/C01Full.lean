import JmesVerif.Lemmas.SemFullConform
import JmesVerif.Lemmas.SemFullExt
import JmesVerif.Props.C01
import JmesVerif.Lemmas.InterpEquiv
/-!
# C01, full language — search results conform to the JMESPath specification, functions included

`SemFull.expr` (`Spec/SemFull.lean`) extends the semantics of the core forms (`Spec/Sem.lean`) to
function calls with the 26 builtin functions and to expression references `&e` passed to `map`,
`sort_by`, `max_by`, `min_by` — an `&e` argument denotes the function `x ↦ ⟦e⟧ x`, never a value.

`C01_search_full`: for **every** string that compiles to a covered expression (`SemFull.exprOk`)
and **every** JSON document, `search` with the default runtime returns exactly the value the
semantics assigns, or a `JmespathError` exactly when the semantics says the expression is an error
(invalid slice, unknown function, wrong arity, wrong argument type, wrong expref return type,
non-finite arithmetic result); it never panics and never returns another value — for any nesting
of calls, projections, filters, … once given fuel for the finite recursion.

Side conditions.
* `SemFull.exprOk e` — the analogue of `Sem.exprCore`: literals are JSON; `&e` occurs only as a
  *direct* argument in an expref-typed parameter position (1st of `map`, 2nd of `sort_by`/`max_by`/
  `min_by`); no `callDev` (deviation F3).  It implies `Ast.Disciplined e.ast` (`exprOk_disciplined`)
  and holds for every core expression (`exprOk_of_core`).
* the width bound `e.wbF d.width ≤ 2^31 − 1` (`Lemmas/SemFullWidth.lean`): `wbF` is `wb` on core
  forms (`Expr.wbF_core`) and bounds function results too (a call over argument values / `&e`
  results within `B` yields a value within `max 1 B`, except `merge` of `k` objects: `max 1 (k·B)`).
  The exact hypothesis is `SafeF.expr d e` (`C01_conformance_full_safe`): every array a slice is
  applied to during evaluation — inside function arguments and inside the functions applied by
  `map`/`sort_by`/`max_by`/`min_by` too — has at most `i32::MAX` elements.
* errors are not distinguished by kind: `none` in `SemFull` ↔ any `JmespathError` of the code.
-/
namespace JmesVerif

/-- what a search outcome is: a value, a `JmespathError`, or something the code cannot return -/
def searchResultOfF (r : Except EvalErr Val) : Option (Option Val) :=
  match r with
  | .ok v => some (some v)
  | .error e => if e.genuine then some none else none

theorem searchResultOfF_search (rt : Registry) (fuel : Nat) (a : Ast) (d : Val) :
    searchResultOfF (search rt fuel a d) = resultOfF (interp rt fuel d a 0) := by
  unfold search
  cases h : interp rt fuel d a 0 with
  | error e => rfl
  | ok p => obtain ⟨v, o⟩ := p; rfl

/-- **Conformance of the interpreter to the full semantics** (re-exported from
`Lemmas/SemFullConform.lean`). -/
theorem C01_conformance_full' (e : Expr) (hc : SemFull.exprOk e = true) (a : Ast)
    (ha : a.strip = e.ast) (d : Val) (hd : d.isJson = true)
    (hb : e.wbF d.width ≤ 2147483647) (off : Nat) :
    ∃ n, ∀ fuel, n ≤ fuel →
      resultOfF (interp Registry.default fuel d a off) = some (SemFull.expr d e) :=
  C01_conformance_full e hc a ha d hd hb off

/-- **Search conforms to the specification, functions included.**  Whatever string compiles to a
covered expression `e`, searching any JSON document with it (default runtime) yields
`SemFull.expr d e`. -/
theorem C01_search_full (cs : List Char) (e : Expr) (a : Ast) (h : parseExpr cs = .ok (e, a))
    (hc : SemFull.exprOk e = true) (d : Val) (hd : d.isJson = true)
    (hb : e.wbF d.width ≤ 2147483647) :
    ∃ n, ∀ fuel, n ≤ fuel →
      searchResultOfF (search Registry.default fuel a d) = some (SemFull.expr d e) := by
  obtain ⟨ts, _, _, _, ha⟩ := C01_search.C04_parse_is_rule_tree_aux cs e a h
  obtain ⟨n, hn⟩ := C01_conformance_full e hc a ha d hd hb 0
  exact ⟨n, fun fuel hf => by rw [searchResultOfF_search]; exact hn fuel hf⟩

/-- the same under the exact side condition -/
theorem C01_search_full_safe (cs : List Char) (e : Expr) (a : Ast) (h : parseExpr cs = .ok (e, a))
    (hc : SemFull.exprOk e = true) (d : Val) (hd : d.isJson = true) (hs : SafeF.expr d e) :
    ∃ n, ∀ fuel, n ≤ fuel →
      searchResultOfF (search Registry.default fuel a d) = some (SemFull.expr d e) := by
  obtain ⟨ts, _, _, _, ha⟩ := C01_search.C04_parse_is_rule_tree_aux cs e a h
  obtain ⟨n, hn⟩ := C01_conformance_full_safe e hc a ha d hd hs 0
  exact ⟨n, fun fuel hf => by rw [searchResultOfF_search]; exact hn fuel hf⟩

/-- **`SemFull` extends `Sem`**: on core expressions the two semantics coincide (and core
expressions are covered, with the same width bound) -/
theorem SemFull_extends_Sem (e : Expr) (h : Sem.exprCore e = true) (d : Val) :
    SemFull.expr d e = Sem.expr d e :=
  SemFull_eq_Sem e h d

theorem SemFull_covers_core (e : Expr) (h : Sem.exprCore e = true) :
    SemFull.exprOk e = true ∧ ∀ b, e.wbF b = e.wb b :=
  ⟨exprOk_of_core e h, Expr.wbF_core e h⟩

/-- covered expressions are disciplined (the hypothesis of `C05_search_terminates`) -/
theorem SemFull_covered_disciplined (e : Expr) (h : SemFull.exprOk e = true) :
    e.ast.Disciplined = true :=
  exprOk_disciplined e h

/-- the specification's name table and expref positions are those of the code's registry and
signatures -/
theorem SemFull_names_are_the_registry (name : String) :
    Registry.default.get name = (SemFull.builtinOf name).map Fn.builtin :=
  default_get name
theorem SemFull_expref_positions (name : String) (b : Builtin) (h : SemFull.builtinOf name = some b)
    (i : Nat) : SemFull.exprefParam name i = true ↔ ∃ t, b.sig.inputs[i]? = some t ∧ t.isValid (.expref (.identity 0)) = true ∧ t.isValid .null = false := by
  have hm := lookup_mem_names _ _ _ h
  simp only [SemFull.names, List.mem_cons, Prod.mk.injEq, List.mem_nil_iff, or_false] at hm
  rcases hm with ⟨rfl, rfl⟩ | ⟨rfl, rfl⟩ | ⟨rfl, rfl⟩ | ⟨rfl, rfl⟩ | ⟨rfl, rfl⟩ | ⟨rfl, rfl⟩ | ⟨rfl, rfl⟩ |
    ⟨rfl, rfl⟩ | ⟨rfl, rfl⟩ | ⟨rfl, rfl⟩ | ⟨rfl, rfl⟩ | ⟨rfl, rfl⟩ | ⟨rfl, rfl⟩ | ⟨rfl, rfl⟩ | ⟨rfl, rfl⟩ |
    ⟨rfl, rfl⟩ | ⟨rfl, rfl⟩ | ⟨rfl, rfl⟩ | ⟨rfl, rfl⟩ | ⟨rfl, rfl⟩ | ⟨rfl, rfl⟩ | ⟨rfl, rfl⟩ | ⟨rfl, rfl⟩ |
    ⟨rfl, rfl⟩ | ⟨rfl, rfl⟩ | ⟨rfl, rfl⟩ <;>
  · rcases i with _ | _ | i <;>
      simp [SemFull.exprefParam, Builtin.sig, arrNum, arrStr, ArgT.isValid, anyValid, Val.type, Val.isNull]

/-! ### non-vacuity -/

/-- `map(&length(@), @)` on `["ab", [null]]` is `[2, 1]` -/
example : SemFull.expr (.arr [.str "ab", .arr [.null]])
    (.mk (.call "map" [.mk (.expref (.mk (.call "length" [.mk .at []]) [])) [], .mk .at []]) []) =
    some (.arr [.num (.pos 2), .num (.pos 1)]) := by
  simp [SemFull.expr, SemFull.nud, SemFull.leds, SemFull.args, SemFull.call, SemFull.builtinOf, SemFull.names,
    List.lookup, SemFull.apply, SemFull.mapShape, Sem.optMapM, SemFull.allVals, SemFull.pureFn,
    Builtin.sig, Sig.validate, Sig.validateArity, Sig.validateArgs, ArgT.isValid, anyValid, Val.type, Builtin.pure]

/-- `sort_by(@, &a)[*].a` on `[{"a":"b"},{"a":"a"}]` is `["a","b"]` -/
example : SemFull.expr (.arr [.obj [("a", .str "b")], .obj [("a", .str "a")]])
    (.mk (.call "sort_by" [.mk .at [], .mk (.expref (.mk (.field "a") [])) []])
      [.wildIdxL (.dot (.expr (.mk (.field "a") [])))]) =
    some (.arr [.str "a", .str "b"]) := by
  have hcmp : (Val.str "b").cmp (Val.str "a") = Ordering.gt := by decide
  simp [hcmp, SemFull.expr, SemFull.nud, SemFull.leds, SemFull.led, SemFull.rhs, SemFull.dot, SemFull.args, SemFull.call,
    SemFull.builtinOf, SemFull.names, List.lookup, SemFull.apply, SemFull.byShape, SemFull.sortBy, Sem.optMapM,
    Sem.field, Val.lookup, SemFull.keysOk, Val.type, SemFull.sortByKey, List.mergeSort,
    List.MergeSort.Internal.splitInTwo, Sem.dropNulls, Val.isNull]

/-- both are covered, and so is a nested use: `max_by(map(&[@, length(@)], @), &[1])[0]` -/
example : SemFull.exprOk
    (.mk (.call "map" [.mk (.expref (.mk (.call "length" [.mk .at []]) [])) [], .mk .at []]) []) = true := by
  decide
example : SemFull.exprOk
    (.mk (.call "sort_by" [.mk .at [], .mk (.expref (.mk (.field "a") [])) []])
      [.wildIdxL (.dot (.expr (.mk (.field "a") [])))]) = true := by
  decide

/-- an unknown function, a wrong arity, a wrong argument type, a wrong key type are errors -/
example (d : Val) : SemFull.expr d (.mk (.call "foo" [.mk .at []]) []) = none := by
  simp [SemFull.expr, SemFull.nud, SemFull.leds, SemFull.args, SemFull.call, SemFull.builtinOf, SemFull.names,
    List.lookup]
example : SemFull.expr (.arr [.bool true])
    (.mk (.call "sort_by" [.mk .at [], .mk (.expref (.mk .at [])) []]) []) = none := by
  simp [SemFull.expr, SemFull.nud, SemFull.leds, SemFull.args, SemFull.call, SemFull.builtinOf, SemFull.names,
    List.lookup, SemFull.apply, SemFull.byShape, SemFull.sortBy, Sem.optMapM, SemFull.keysOk, Val.type]

/-- the theorem applies to `map(&length(@), @)` on `["ab", [null]]` whatever offsets the tree carries -/
example (a : Ast) (ha : a.strip =
      (Expr.mk (.call "map" [.mk (.expref (.mk (.call "length" [.mk .at []]) [])) [], .mk .at []]) []).ast)
    (off : Nat) : ∃ n, ∀ fuel, n ≤ fuel →
      resultOfF (interp Registry.default fuel (.arr [.str "ab", .arr [.null]]) a off) =
        some (SemFull.expr (.arr [.str "ab", .arr [.null]])
          (.mk (.call "map" [.mk (.expref (.mk (.call "length" [.mk .at []]) [])) [], .mk .at []]) [])) :=
  C01_conformance_full _ (by decide) a ha _ (by decide) (by decide) off

/-- … and in the error direction: `sort_by(@, &@)` on `[true]` is a `JmespathError` of the code
(the key is neither a number nor a string), for every tree with that shape and every offset -/
example (a : Ast) (ha : a.strip =
      (Expr.mk (.call "sort_by" [.mk .at [], .mk (.expref (.mk .at [])) []]) []).ast) (off : Nat) :
    ∃ n, ∀ fuel, n ≤ fuel →
      ∃ e, interp Registry.default fuel (.arr [.bool true]) a off = .error e ∧ e.genuine = true := by
  obtain ⟨n, hn⟩ := C01_conformance_full
    (.mk (.call "sort_by" [.mk .at [], .mk (.expref (.mk .at [])) []]) []) (by decide) a ha
    (.arr [.bool true]) (by decide) (by decide) off
  have hsem : SemFull.expr (.arr [.bool true])
      (.mk (.call "sort_by" [.mk .at [], .mk (.expref (.mk .at [])) []]) []) = none := by
    simp [SemFull.expr, SemFull.nud, SemFull.leds, SemFull.args, SemFull.call, SemFull.builtinOf, SemFull.names,
      List.lookup, SemFull.apply, SemFull.byShape, SemFull.sortBy, Sem.optMapM, SemFull.keysOk, Val.type]
  refine ⟨n, fun fuel hf => ?_⟩
  have h := hn fuel hf
  rw [hsem] at h
  cases hr : interp Registry.default fuel (.arr [.bool true]) a off with
  | ok p => rw [hr] at h; obtain ⟨v, o⟩ := p; simp [resultOfF] at h
  | error e =>
    rw [hr] at h
    refine ⟨e, rfl, ?_⟩
    cases hg : e.genuine with
    | true => rfl
    | false => simp [resultOfF, hg] at h

/-- the model `interp` these theorems are about equals the evaluator as re-translated from interpreter.rs on every run
(`Generated/InterpCode.lean`, all 18 arms; see `Props/C11.lean` for the discussion of the side conditions) -/
theorem C01_translated_interpreter (rt : Registry) (fuel : Nat) (d : Val) (a : Ast) (off : Nat) (h : a.I32Ok = true) :
    Generated.InterpCode.interpret sliceGuarded rt.get (callFn rt) fuel d a off = interp rt fuel d a off :=
  gen_interpret_eq_guarded rt fuel d a off h

end JmesVerif

#print axioms JmesVerif.C01_conformance_full
#print axioms JmesVerif.C01_conformance_full_safe
#print axioms JmesVerif.C01_conformance_full_rt
#print axioms JmesVerif.C01_search_full
#print axioms JmesVerif.C01_search_full_safe
#print axioms JmesVerif.SemFull_extends_Sem
#print axioms JmesVerif.SemFull_covers_core
#print axioms JmesVerif.SemFull_covered_disciplined
#print axioms JmesVerif.SemFull_expref_positions

-- the theorems of Props/C01.lean (this module is the one the C01 check audits)
#print axioms JmesVerif.C01_conformance
#print axioms JmesVerif.C01_conformance_safe
#print axioms JmesVerif.C01_search
#print axioms JmesVerif.C01_unconditional_false
#print axioms JmesVerif.C01_translated_truthy_type
#print axioms JmesVerif.C01_translated_interpreter
