import JmesVerif.Lemmas.Slice
import JmesVerif.Lemmas.CodeEquiv

/-!
# C07 — slices select exactly the elements of the start:stop:step rule; negative indexes

Property theorems only (helper lemmas live in `Lemmas/Slice.lean`).  The model
(`Model/Slice.lean`) mirrors `variable.rs` `slice`/`adjust_slice_endpoint`/`get_index`/
`get_negative_index`; the specification (`Spec/PySlice.lean`) is Python's
`slice.indices` + `range`.  Quantification: every list (`length ≤ i32::MAX`, which is what
`array.len() as i32` assumes), every optional start/stop over *all* integers (a superset of
i32), every non-zero step over all integers.
-/
namespace JmesVerif
open Spec

/-- **C07 main theorem.**  For every array, every (possibly omitted) start/stop and every
non-zero step, the code's slice loop returns — without overflow, out-of-bounds access or
running out of fuel — exactly Python's `xs[start:stop:step]`. -/
theorem C07_slice_eq_python (xs : List α) (start stop : Option Int) (step : Int)
    (hstep : step ≠ 0) (hlen : (xs.length : Int) ≤ I32_MAX) :
    sliceList xs start stop step = .ok (pySlice xs start stop step) := by
  unfold sliceList pySlice
  by_cases h0 : (xs.length : Int) = 0
  · have : xs = [] := by
      cases xs with
      | nil => rfl
      | cons x t => simp only [List.length_cons] at h0; omega
    subst this; simp
  · simp only [h0, if_false]
    have hpos : (0 : Int) < xs.length := by omega
    have hA : sliceA xs.length start step = pyStart xs.length step start := by
      cases start <;> simp [sliceA, pyStart, adjust_eq_clamp _ _ _ (by omega : (0 : Int) ≤ xs.length)]
    have hB : sliceB xs.length stop step = pyStop xs.length step stop := by
      cases stop <;> simp [sliceB, pyStop, adjust_eq_clamp _ _ _ (by omega : (0 : Int) ≤ xs.length)]
    rw [hA, hB]
    by_cases hs : step > 0
    · simp only [hs, if_true]
      have hneg : ¬ step < 0 := by omega
      have hb : pyStop xs.length step stop ≤ xs.length := by
        cases stop <;> simp only [pyStop, hneg, if_false, clamp] <;> omega
      have ha : 0 ≤ pyStart xs.length step start := by
        cases start <;> simp only [pyStart, hneg, if_false, clamp] <;> omega
      exact loopUp_eq xs _ step hs hb hlen _ _ ha (by omega)
    · simp only [hs, if_false]
      have hneg : step < 0 := by omega
      have hb : -1 ≤ pyStop xs.length step stop := by
        cases stop <;> simp only [pyStop, hneg, if_true, clamp] <;> omega
      have ha : pyStart xs.length step start < xs.length := by
        cases start <;> simp only [pyStart, hneg, if_true, clamp] <;> omega
      exact loopDown_eq xs _ step hneg hb hlen _ _ ha (by omega)

/-- the positions Python's rule selects are the arithmetic progression from the effective start,
strictly before the effective stop in the direction of travel -/
theorem C07_mem_pyRange (a b step k : Int) (hstep : step ≠ 0) :
    k ∈ pyRange a b step ↔
      ∃ j : Nat, k = a + (j : Int) * step ∧ (if step > 0 then k < b else b < k) := by
  unfold pyRange
  simp only [List.mem_map, List.mem_range]
  constructor
  · rintro ⟨j, hj, rfl⟩
    refine ⟨j, rfl, ?_⟩
    unfold rangeLen at hj
    by_cases hs : step > 0
    · simp only [hs, if_true] at hj ⊢
      by_cases hab : a < b
      · simp only [hab, if_true] at hj
        have h1 : (j : Int) ≤ (b - a - 1) / step := by omega
        have h2 : (j : Int) * step ≤ b - a - 1 := by
          have := Int.mul_le_mul_of_nonneg_right h1 (by omega : 0 ≤ step)
          have := Int.ediv_mul_le (b - a - 1) (by omega : step ≠ 0)
          omega
        omega
      · simp [hab] at hj
    · have hn : step < 0 := by omega
      simp only [hs, if_false, hn, if_true] at hj ⊢
      by_cases hab : b < a
      · simp only [hab, if_true] at hj
        have h1 : (j : Int) ≤ (a - b - 1) / (-step) := by omega
        have h2 : (j : Int) * (-step) ≤ a - b - 1 := by
          have := Int.mul_le_mul_of_nonneg_right h1 (by omega : 0 ≤ -step)
          have := Int.ediv_mul_le (a - b - 1) (by omega : -step ≠ 0)
          omega
        have : (j : Int) * (-step) = -((j : Int) * step) := by rw [Int.mul_neg]
        omega
      · simp [hab] at hj
  · rintro ⟨j, rfl, hj⟩
    refine ⟨j, ?_, rfl⟩
    unfold rangeLen
    by_cases hs : step > 0
    · simp only [hs, if_true] at hj ⊢
      have hnn : 0 ≤ (j : Int) * step := Int.mul_nonneg (by omega) (by omega)
      have hab : a < b := by omega
      simp only [hab, if_true]
      have : (j : Int) ≤ (b - a - 1) / step := by
        rw [Int.le_ediv_iff_mul_le hs]; omega
      omega
    · have hn : step < 0 := by omega
      simp only [hs, if_false, hn, if_true] at hj ⊢
      have e : (j : Int) * (-step) = -((j : Int) * step) := by rw [Int.mul_neg]
      have hnn : 0 ≤ (j : Int) * (-step) := Int.mul_nonneg (by omega) (by omega)
      have hab : b < a := by omega
      simp only [hab, if_true]
      have : (j : Int) ≤ (a - b - 1) / (-step) := by
        rw [Int.le_ediv_iff_mul_le (by omega : 0 < -step)]; omega
      omega

/-- every position selected lies inside the array, so "looking up" never drops anything:
the result has exactly `len(range(...))` elements, in range order -/
theorem C07_positions_in_bounds (len : Nat) (start stop : Option Int) (step k : Int)
    (hstep : step ≠ 0)
    (hk : k ∈ pyRange (pyStart len step start) (pyStop len step stop) step) :
    0 ≤ k ∧ k < len := by
  rw [C07_mem_pyRange _ _ _ _ hstep] at hk
  obtain ⟨j, rfl, hj⟩ := hk
  by_cases hs : step > 0
  · simp only [hs, if_true] at hj
    have hneg : ¬ step < 0 := by omega
    have hnn : 0 ≤ (j : Int) * step := Int.mul_nonneg (by omega) (by omega)
    have ha : 0 ≤ pyStart len step start := by
      cases start <;> simp only [pyStart, hneg, if_false, clamp] <;> omega
    have hb : pyStop len step stop ≤ len := by
      cases stop <;> simp only [pyStop, hneg, if_false, clamp] <;> omega
    omega
  · have hn : step < 0 := by omega
    simp only [hs, if_false] at hj
    have e : (j : Int) * (-step) = -((j : Int) * step) := by rw [Int.mul_neg]
    have hnn : 0 ≤ (j : Int) * (-step) := Int.mul_nonneg (by omega) (by omega)
    have hb : -1 ≤ pyStop len step stop := by
      cases stop <;> simp only [pyStop, hn, if_true, clamp] <;> omega
    have ha : pyStart len step start ≤ (len : Int) - 1 ∨ len = 0 := by
      cases start <;> simp only [pyStart, hn, if_true, clamp] <;> omega
    rcases ha with ha | ha
    · omega
    · subst ha
      have : pyStart (0 : Nat) step start ≤ -1 := by
        cases start <;> simp only [pyStart, hn, if_true, clamp] <;> omega
      omega

/-- positions are visited in strictly increasing (step > 0) or strictly decreasing (step < 0)
order: no element is selected twice and order follows the direction of the step -/
theorem C07_pyRange_strict (a b step : Int) :
    (step > 0 → (pyRange a b step).Pairwise (· < ·)) ∧
    (step < 0 → (pyRange a b step).Pairwise (· > ·)) := by
  unfold pyRange
  constructor
  · intro hs
    rw [List.pairwise_map]
    refine List.Pairwise.imp ?_ List.pairwise_lt_range
    intro i j hij
    have : (i : Int) * step < (j : Int) * step :=
      Int.mul_lt_mul_of_pos_right (by omega) hs
    omega
  · intro hs
    rw [List.pairwise_map]
    refine List.Pairwise.imp ?_ List.pairwise_lt_range
    intro i j hij
    have : (i : Int) * (-step) < (j : Int) * (-step) :=
      Int.mul_lt_mul_of_pos_right (by omega) (by omega)
    rw [Int.mul_neg, Int.mul_neg] at this
    omega

/-- **Negative (and non-negative) indexes.**  `xs[n]` is the element at `n` for `n ≥ 0` and at
`len + n` for `n < 0`; out of range is null (`none`). -/
theorem C07_index_eq_python (xs : List α) (n : Int) : indexList xs n = pyIndex xs n := by
  unfold indexList pyIndex getIndex getNegIndex
  by_cases h : n ≥ 0
  · have : ¬ n < 0 := by omega
    simp [h, this]
  · have hn : n < 0 := by omega
    simp only [h, if_false, hn, if_true]
    by_cases hge : xs.length ≥ max (-n).toNat 1
    · have hk : ¬ ((xs.length : Int) + n < 0) := by omega
      simp only [hge, if_true, hk, if_false]
      congr 1; omega
    · have hk : (xs.length : Int) + n < 0 := by omega
      simp [hge, hk]

/-! ### non-vacuity: concrete instances of the hypotheses and of the conclusion -/

example : sliceList [10, 11, 12, 13, 14] (some 1) none 2 = .ok [11, 13] := by rfl
example : sliceList [10, 11, 12] (some 1) none 2147483647 = .ok [11] := by rfl
example : sliceList [10, 11, 12] none none (-1) = .ok [12, 11, 10] := by rfl
example : pySlice [10, 11, 12, 13, 14] (some (-2)) (some (-100)) (-2) = [13, 11] := by decide
example : indexList [10, 11, 12] (-1) = some 12 ∧ indexList [10, 11, 12] (-4) = none := by decide


/-! ### the code as re-translated from the Rust source on every run

`Generated/Code.lean` is written by `tools/rs2lean.py` from the *bodies* of `slice`, `adjust_slice_endpoint`
(variable.rs), `get_index`, `get_negative_index` and the `Ast::Index` arm of `interpret`, with **checked**
`i32` / `usize` arithmetic, casts and indexing at every site.  `Lemmas/CodeEquiv.lean` proves the translated
definitions equal to the hand-written model above; hence what the source says *today* computes Python's slice
and index rule, without overflow, out-of-bounds access or non-termination, for every array of up to `i32::MAX`
elements, every start / stop in the `i32` range and every non-zero step. -/
open Generated.Code in
theorem C07_translated_slice_eq_python {α : Type} (fuel : Nat) (xs : List α) (start stop : Option Int) (step : Int)
    (hfuel : xs.length + 1 ≤ fuel) (hlen : (xs.length : Int) ≤ I32_MAX)
    (hstart : OptInI32 start) (hstop : OptInI32 stop) (hstep : step ≠ 0) :
    slice fuel xs start stop step = .ok (pySlice xs start stop step) := by
  rw [gen_slice_eq fuel xs start stop step hfuel hlen hstart hstop hstep,
    C07_slice_eq_python xs start stop step hstep hlen]

open Generated.Code in
theorem C07_translated_index_eq_python {α : Type} (xs : List α) (idx : Int) (h1 : I32_MIN < idx) (h2 : idx ≤ I32_MAX) :
    index xs idx = .ok (pyIndex xs idx) := by
  rw [gen_index_eq xs idx h1 h2, C07_index_eq_python]

open Generated.Code in
example : slice 4 [1, 2, 3] (some 2147483647) (some (-2147483648)) (-1) = .ok (pySlice [1, 2, 3] (some 2147483647) (some (-2147483648)) (-1)) :=
  C07_translated_slice_eq_python 4 _ _ _ _ (by decide) (by decide) (by in_range) (by in_range) (by decide)

end JmesVerif

#print axioms JmesVerif.C07_slice_eq_python
#print axioms JmesVerif.C07_mem_pyRange
#print axioms JmesVerif.C07_positions_in_bounds
#print axioms JmesVerif.C07_pyRange_strict
#print axioms JmesVerif.C07_index_eq_python
#print axioms JmesVerif.C07_translated_slice_eq_python
#print axioms JmesVerif.C07_translated_index_eq_python
