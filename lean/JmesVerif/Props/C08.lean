import JmesVerif.Lemmas.JsonRoundTrip
import JmesVerif.Lemmas.FloatExact
import JmesVerif.Lemmas.SerdeValue
import JmesVerif.Model.Interp
import JmesVerif.Model.Parser
/-!
# C08 — JSON data passes through unchanged: identity query and text round-trip

Two layers:

* the repository's own code — the identity query (`C08_identity_query`), the conversions to and
  from `serde_json::Value` (`C08_value_roundtrip`) — proved outright;
* the JSON *text* layer, which is serde_json's: modelled (`Model/JsonText`, `Model/JsonPrint`) and
  validated by the `json` stream.  `C08_parse_print`: parsing the printed text of a value gives the
  value back, for every nesting < 128, every string (all code points, escapes), every integer in
  the u64 / negative-i64 range, under the single hypothesis `FloatRoundTrips` about doubles
  (`parse (print f) = f`).  That hypothesis is **false for some doubles** with serde_json's default
  number parser (the re-read of a 17-digit numeral can be one unit in the last place off — the
  documented accuracy); the check measures this on the real code and accepts ≤ 2 ulp, as the
  property does.  `C08_parse_print_noFloat` is the unconditional statement for float-free values.
-/
namespace JmesVerif

/-- searching with `@` returns the document itself -/
theorem C08_identity_query (rt : Registry) (d : Val) (fuel : Nat) :
    parseExpr ['@'] = .ok (.mk .at [], .identity 0) ∧ search rt (fuel + 1) (.identity 0) d = .ok d := by
  constructor
  · simp [parseExpr, tokenize, Lexer.loop, Lexer.lexOne, Lexer.isIdStart, Lexer.utf8Len, parseTokens, Parser.expr,
      Parser.nud, Parser.loop, Parser.peekT, Tok.lbp]
  · simp [search, interp]

/-- **printing a value and re-parsing the text yields the value** -/
theorem C08_parse_print (v : Val) (hv : v.Printable FloatRoundTrips) :
    JsonText.parse (JsonPrint.compact v).toList = some v := parse_compact v hv

theorem C08_parse_print_pretty (v : Val) (hv : v.Printable FloatRoundTrips) :
    JsonText.parse (JsonPrint.pretty 0 v).toList = some v := parse_pretty v hv

theorem C08_parse_print_noFloat (v : Val) (hv : v.Printable (fun _ => False)) :
    JsonText.parse (JsonPrint.compact v).toList = some v := parse_compact_noFloat v hv

/-- **The number parser is correctly rounded on the property's exact domain**: a significand of at most 2^53 (in particular every
numeral of at most 15 digits) with a decimal exponent within ±22 is read as THE double nearest to the exact value — the
serde_json algorithm (`(significand as f64) × or ÷ 10^|e|`) performs one rounding of an exact product / quotient of two
exactly representable doubles. -/
theorem C08_parser_exact_domain (positive : Bool) (S : Nat) (E : Int) (hS : S ≤ 2 ^ 53) (hE : E.natAbs ≤ 22) :
    JsonText.f64FromParts positive S E =
      some (if positive then F64.ofRatSigned false ((S : Rat) * JsonPrint.pow10 E)
            else (F64.ofRatSigned false ((S : Rat) * JsonPrint.pow10 E)).neg) :=
  FloatExact.f64FromParts_exact positive S E hS hE

/-- **Doubles round-trip through print and parse on the exact domain** — the float hypothesis of `C08_parse_print` is a
THEOREM there: `InExactDomain f` (decidable) says the shortest representation of `f` has at most 15 digits, its decimal exponent
is within ±22 and the significand the parser accumulates from the PRINTED text (which may carry one more zero for the forced
`.0`) is itself a double. -/
theorem C08_float_roundtrip_exact_domain (f : F64) (hc : f.Canon) (hfin : f.isFinite) (hd : InExactDomain f) :
    FloatRoundTrips f := floatRoundTrips_of_exactDomain f hc hfin hd

theorem C08_parse_print_exact_domain (v : Val)
    (hv : v.Printable (fun f => f.Canon ∧ f.isFinite ∧ InExactDomain f)) :
    JsonText.parse (JsonPrint.compact v).toList = some v := parse_print_exactDomain v hv

/-- … and the last clause of the domain is needed: the double `7205759403792820.0` (15 significant digits, exponent +1) prints as
`7205759403792820.0`, from which serde_json's default parser accumulates the 17-digit significand `72057594037928200` and returns
`7205759403792819.0` — within the documented 2 units in the last place, but not equal (machine-checked by kernel evaluation;
replayed on the real code by the `json` stream, which is why the check compares re-parsed doubles with a 2-ulp tolerance). -/
theorem C08_float_roundtrip_counterexample : ¬ FloatRoundTrips counterexample := not_floatRoundTrips_counterexample

/-- strings keep every code point through print and parse (escapes incl. `\u00XX`) -/
theorem C08_string_roundtrip (s : String) : JsonText.parse (JsonPrint.compact (.str s)).toList = some (.str s) :=
  parse_compact_noFloat (.str s) (by simp [Val.Printable, JsonRT.Shape, JsonRT.depth])

/-- **conversion to and from serde_json's generic value type is lossless** on library values -/
theorem C08_value_roundtrip (v : Val) (hj : v.isJson = true) (hs : v.Sorted) : v.toJValue.toVal = v :=
  toJValue_toVal v hj hs

end JmesVerif

#print axioms JmesVerif.C08_identity_query
#print axioms JmesVerif.C08_parse_print
#print axioms JmesVerif.C08_parse_print_pretty
#print axioms JmesVerif.C08_parse_print_noFloat
#print axioms JmesVerif.C08_parser_exact_domain
#print axioms JmesVerif.C08_float_roundtrip_exact_domain
#print axioms JmesVerif.C08_parse_print_exact_domain
#print axioms JmesVerif.C08_float_roundtrip_counterexample
#print axioms JmesVerif.C08_string_roundtrip
#print axioms JmesVerif.C08_value_roundtrip
