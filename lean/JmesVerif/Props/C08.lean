theorem C08_placeholder : True := trivial
