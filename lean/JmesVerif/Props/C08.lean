import JmesVerif.Lemmas.JsonRoundTrip
import JmesVerif.Lemmas.SerdeValue
import JmesVerif.Model.Interp
import JmesVerif.Model.Parser
/-!
# C08 — JSON data passes through unchanged: identity query and text round-trip

Two layers:

* the repository's own code — the identity query (`C08_identity_query`), the conversions to and
  from `serde_json::Value` (`C08_value_roundtrip`) — proved outright;
* the JSON *text* layer, which is serde_json's: modelled (`Model/JsonText`, `Model/JsonPrint`) and
  validated by the `json` stream.  `C08_parse_print`: parsing the printed text of a value gives the
  value back, for every nesting < 128, every string (all code points, escapes), every integer in
  the u64 / negative-i64 range, under the single hypothesis `FloatRoundTrips` about doubles
  (`parse (print f) = f`).  That hypothesis is **false for some doubles** with serde_json's default
  number parser (the re-read of a 17-digit numeral can be one unit in the last place off — the
  documented accuracy); the check measures this on the real code and accepts ≤ 2 ulp, as the
  property does.  `C08_parse_print_noFloat` is the unconditional statement for float-free values.
-/
namespace JmesVerif

/-- searching with `@` returns the document itself -/
theorem C08_identity_query (rt : Registry) (d : Val) (fuel : Nat) :
    parseExpr ['@'] = .ok (.mk .at [], .identity 0) ∧ search rt (fuel + 1) (.identity 0) d = .ok d := by
  constructor
  · simp [parseExpr, tokenize, Lexer.loop, Lexer.lexOne, Lexer.isIdStart, Lexer.utf8Len, parseTokens, Parser.expr,
      Parser.nud, Parser.loop, Parser.peekT, Tok.lbp]
  · simp [search, interp]

/-- **printing a value and re-parsing the text yields the value** -/
theorem C08_parse_print (v : Val) (hv : v.Printable FloatRoundTrips) :
    JsonText.parse (JsonPrint.compact v).toList = some v := parse_compact v hv

theorem C08_parse_print_pretty (v : Val) (hv : v.Printable FloatRoundTrips) :
    JsonText.parse (JsonPrint.pretty 0 v).toList = some v := parse_pretty v hv

theorem C08_parse_print_noFloat (v : Val) (hv : v.Printable (fun _ => False)) :
    JsonText.parse (JsonPrint.compact v).toList = some v := parse_compact_noFloat v hv

/-- strings keep every code point through print and parse (escapes incl. `\u00XX`) -/
theorem C08_string_roundtrip (s : String) : JsonText.parse (JsonPrint.compact (.str s)).toList = some (.str s) :=
  parse_compact_noFloat (.str s) (by simp [Val.Printable, JsonRT.Shape, JsonRT.depth])

/-- **conversion to and from serde_json's generic value type is lossless** on library values -/
theorem C08_value_roundtrip (v : Val) (hj : v.isJson = true) (hs : v.Sorted) : v.toJValue.toVal = v :=
  toJValue_toVal v hj hs

end JmesVerif

#print axioms JmesVerif.C08_identity_query
#print axioms JmesVerif.C08_parse_print
#print axioms JmesVerif.C08_parse_print_pretty
#print axioms JmesVerif.C08_parse_print_noFloat
#print axioms JmesVerif.C08_string_roundtrip
#print axioms JmesVerif.C08_value_roundtrip
