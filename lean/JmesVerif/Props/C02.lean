import JmesVerif.Lemmas.Builtins
import JmesVerif.Lemmas.F64Spec
import JmesVerif.Lemmas.SumAvg
import JmesVerif.Lemmas.FunctionsSpec
/-!
# C02 — every built-in function computes the value the specification defines

Contracts of the builtins over the model of `functions.rs` (`Model/Interp.lean`), each for *all*
well-typed arguments.  `vle a b` is the order `sort` uses (`Val.cmp a b ≠ Greater`: code-point
order on strings, order of the double image on numbers); `Homog xs` = all strings or all (finite)
numbers, which is what the signature `array[string]|array[number]` admits.
Helper lemmas and the remaining contracts (join, keys/values lookup, to_array, type, sum, …) are in
`Lemmas/Builtins.lean` (57 theorems); the principal ones are restated here.
-/
namespace JmesVerif

/-- **sort is a stable ascending permutation** (any length, duplicate keys included) -/
theorem C02_sort (args : List Val) (off : Nat) (hv : Builtin.sort.sig.validate args off = .ok ())
    (hfin : ∀ xs n, args = [.arr xs] → Val.num n ∈ xs → n.toF64.isFinite = true) :
    ∃ xs ys, args = [.arr xs] ∧ Builtin.pure .sort args = .ok (.arr ys) ∧ ys.Perm xs ∧
      ys.Pairwise (fun a b => vle a b = true) ∧
      ∀ a b, vle a b = true → [a, b].Sublist xs → [a, b].Sublist ys :=
  sort_spec args off hv hfin

theorem C02_sort_perm (xs : List Val) : (sortVals xs).Perm xs := sort_perm xs
theorem C02_sort_sorted (xs : List Val) (h : Homog xs) : (sortVals xs).Pairwise (fun a b => vle a b = true) :=
  sort_sorted xs h
theorem C02_sort_stable (xs : List Val) (h : Homog xs) (a b : Val) (hab : vle a b = true)
    (hs : [a, b].Sublist xs) : [a, b].Sublist (sortVals xs) := sort_stable xs h a b hab hs

/-- string order is code-point order -/
theorem C02_string_order (a b : String) : Val.cmp (.str a) (.str b) = compare a b := rfl

/-- **sort_by**: evaluates the expression reference once per element (first element, then `keysTyped`
over the rest, in order) and returns the elements in a stable ascending order of their keys -/
theorem C02_sort_by (rt : Registry) (fuel : Nat) (x : Val) (rest : List Val) (a : Ast) (off off1 off2 : Nat)
    (k0 : Val) (ks : List Val) (h1 : interp rt fuel x a off = .ok (k0, off1))
    (hty : k0.type = .string ∨ k0.type = .number)
    (h2 : keysTyped rt fuel rest a k0.type 1 off1 = .ok (ks, off2)) (hh : Homog (k0 :: ks)) :
    ∃ ps, callFn rt (fuel + 1) (.builtin .sortBy) [.arr (x :: rest), .expref a] off = .ok (.arr (ps.map (·.1)), off2) ∧
      ps.Perm ((x :: rest).zip (k0 :: ks)) ∧ (ps.map (·.1)).Perm (x :: rest) ∧
      ps.Pairwise (fun p q => vle p.2 q.2 = true) ∧
      ∀ p q, vle p.2 q.2 = true → [p, q].Sublist ((x :: rest).zip (k0 :: ks)) → [p, q].Sublist ps :=
  sortBy_spec rt fuel x rest a off off1 off2 k0 ks h1 hty h2 hh

/-- **max_by / min_by** return an input element whose key is extreme — the first such on ties -/
theorem C02_max_by (rt : Registry) (fuel : Nat) (x : Val) (rest : List Val) (a : Ast) (off off1 off2 : Nat)
    (k0 : Val) (ks : List Val) (h1 : interp rt fuel x a off = .ok (k0, off1))
    (hty : k0.type = .string ∨ k0.type = .number)
    (h2 : keysTyped rt fuel rest a k0.type 1 off1 = .ok (ks, off2)) (hh : Homog (k0 :: ks)) :
    ∃ p pre suf, byExtreme rt (fuel + 1) true (x :: rest) a off = .ok (p.1, off2) ∧
      (x :: rest).zip (k0 :: ks) = pre ++ p :: suf ∧ (∀ q ∈ pre, Val.cmp p.2 q.2 = .gt) ∧
      (∀ q ∈ suf, vle q.2 p.2 = true) ∧ (∀ q ∈ (x :: rest).zip (k0 :: ks), vle q.2 p.2 = true) :=
  maxBy_spec rt fuel x rest a off off1 off2 k0 ks h1 hty h2 hh

theorem C02_min_by (rt : Registry) (fuel : Nat) (x : Val) (rest : List Val) (a : Ast) (off off1 off2 : Nat)
    (k0 : Val) (ks : List Val) (h1 : interp rt fuel x a off = .ok (k0, off1))
    (hty : k0.type = .string ∨ k0.type = .number)
    (h2 : keysTyped rt fuel rest a k0.type 1 off1 = .ok (ks, off2)) (hh : Homog (k0 :: ks)) :
    ∃ p pre suf, byExtreme rt (fuel + 1) false (x :: rest) a off = .ok (p.1, off2) ∧
      (x :: rest).zip (k0 :: ks) = pre ++ p :: suf ∧ (∀ q ∈ pre, Val.cmp q.2 p.2 = .gt) ∧
      (∀ q ∈ suf, vle p.2 q.2 = true) ∧ (∀ q ∈ (x :: rest).zip (k0 :: ks), vle p.2 q.2 = true) :=
  minBy_spec rt fuel x rest a off off1 off2 k0 ks h1 hty h2 hh

/-- **max / min**: null on the empty array, otherwise an element that bounds all others -/
theorem C02_max (args : List Val) (off : Nat) (hv : Builtin.max.sig.validate args off = .ok ())
    (hfin : ∀ xs n, args = [.arr xs] → Val.num n ∈ xs → n.toF64.isFinite = true) :
    ∃ xs v, args = [.arr xs] ∧ Builtin.pure .max args = .ok v ∧
      ((xs = [] ∧ v = .null) ∨ (v ∈ xs ∧ (∀ x ∈ xs, vle x v = true) ∧
        ∃ pre suf, xs = pre ++ v :: suf ∧ ∀ x ∈ suf, Val.cmp v x = .gt)) :=
  max_spec args off hv hfin

theorem C02_min (args : List Val) (off : Nat) (hv : Builtin.min.sig.validate args off = .ok ())
    (hfin : ∀ xs n, args = [.arr xs] → Val.num n ∈ xs → n.toF64.isFinite = true) :
    ∃ xs v, args = [.arr xs] ∧ Builtin.pure .min args = .ok v ∧
      ((xs = [] ∧ v = .null) ∨ (v ∈ xs ∧ (∀ x ∈ xs, vle v x = true) ∧
        ∃ pre suf, xs = pre ++ v :: suf ∧ ∀ x ∈ pre, Val.cmp x v = .gt)) :=
  min_spec args off hv hfin

/-- **merge is right-biased**: a key's value is that of the last argument object having the key -/
theorem C02_merge (k : String) (args : List Val) :
    ∃ m, Builtin.pure .merge args = .ok (.obj m) ∧ Val.lookup k m = lastBinding k args :=
  merge_lookup k args

/-- **length / reverse count Unicode code points** -/
theorem C02_length_codepoints (s : String) : Builtin.pure .length [.str s] = .ok (.num (.pos s.toList.length)) :=
  length_str s
theorem C02_reverse_codepoints (s : String) :
    Builtin.pure .reverse [.str s] = .ok (.str (String.ofList s.toList.reverse)) := reverse_str s

/-- **keys and values correspond pairwise** -/
theorem C02_keys_values (kvs : List (String × Val)) :
    ∃ (ks : List String) (vs : List Val), Builtin.pure .keys [.obj kvs] = .ok (.arr (ks.map .str)) ∧
      Builtin.pure .values [.obj kvs] = .ok (.arr vs) ∧ ks.zip vs = kvs ∧ ks.length = kvs.length ∧ vs.length = kvs.length :=
  keys_values_zip kvs

/-- **to_number yields a number or null and nothing else** -/
theorem C02_to_number (a : Val) :
    (∃ n, Builtin.pure .toNumber [a] = .ok (.num n)) ∨ Builtin.pure .toNumber [a] = .ok .null :=
  toNumber_cases a

/-- **avg of an empty array is null**; otherwise sum / length in double arithmetic -/
theorem C02_avg_empty : Builtin.pure .avg [.arr []] = .ok .null := avg_empty
theorem C02_avg (xs : List Val) (h : xs ≠ []) :
    Builtin.pure .avg [.arr xs] = numOfF64 (F64.div (sumF64 xs) (F64.ofNat xs.length)) "Expected to be a valid f64" :=
  avg_nonempty xs h

/-- **map keeps nulls and preserves length**; the reference is evaluated once per element, against
that element, in order -/
theorem C02_map_length (rt : Registry) (fuel : Nat) (a : Ast) (xs : List Val) (off : Nat) (v : Val) (off' : Nat)
    (h : callFn rt (fuel + 1) (.builtin .map) [.expref a, .arr xs] off = .ok (v, off')) :
    ∃ ys, v = .arr ys ∧ ys.length = xs.length := map_length rt fuel a xs off v off' h

theorem C02_expref_once_per_element (rt : Registry) (fuel : Nat) (x : Val) (xs : List Val) (a : Ast) (off : Nat) :
    mapExpref rt (fuel + 1) (x :: xs) a off =
      (match interp rt fuel x a off with
       | .error e => .error e
       | .ok (v, off) =>
         match mapExpref rt fuel xs a off with
         | .error e => .error e
         | .ok (vs, off) => .ok (v :: vs, off)) := mapExpref_cons rt fuel x xs a off

/-- **not_null** returns the first non-null argument -/
theorem C02_not_null (args : List Val) :
    (∃ pre v suf, args = pre ++ v :: suf ∧ (∀ x ∈ pre, x = .null) ∧ v ≠ .null ∧ Builtin.pure .notNull args = .ok v) ∨
    ((∀ x ∈ args, x = .null) ∧ Builtin.pure .notNull args = .ok .null) := notNull_spec args

/-- **contains / starts_with / ends_with** are infix / prefix / suffix on code points -/
theorem C02_contains (s n : String) :
    Builtin.pure .contains [.str s, .str n] = .ok (.bool true) ↔ ∃ pre suf, s.toList = pre ++ n.toList ++ suf :=
  contains_str_iff s n
theorem C02_starts_with (s t : String) :
    Builtin.pure .startsWith [.str s, .str t] = .ok (.bool true) ↔ ∃ suf, s.toList = t.toList ++ suf :=
  startsWith_iff s t
theorem C02_ends_with (s t : String) :
    Builtin.pure .endsWith [.str s, .str t] = .ok (.bool true) ↔ ∃ pre, s.toList = pre ++ t.toList :=
  endsWith_iff s t

theorem C02_join (glue : String) (ss : List String) :
    Builtin.pure .join [.str glue, .arr (ss.map .str)] = .ok (.str (glue.intercalate ss)) := join_eq glue ss

/-! ### numeric contracts (the arithmetic of the model is IEEE-754 binary64 by theorem, not only by comparison with hardware)

`Lemmas/F64Spec.lean` proves that the rounding the model performs after every exact rational operation is round-to-nearest, ties to even,
of IEEE-754 binary64 — nearest among all canonical doubles, overflow to infinity exactly from `2^1024 − 2^970` on — and that it is the
identity on representable values.  The contracts of `abs`, `floor`, `ceil` follow for every number (no rounding error at all), and `+ − × ÷`
on finite doubles are the correctly rounded exact results. -/

/-- canonical payloads: what every double that comes from JSON text, from hardware or from the model's own arithmetic satisfies -/
def Num.Canon : Num → Prop
  | .flt f => f.Canon
  | _ => True

theorem Num.toF64_canon (n : Num) (h : n.Canon) : n.toF64.Canon := by
  cases n with
  | pos k => exact F64.ofRat_canon _
  | neg i => exact F64.ofRat_canon _
  | flt f => exact h

/-- **abs** returns exactly the absolute value (of the double image) -/
theorem C02_abs (n : Num) (hf : n.toF64.isFinite) :
    ∃ r : F64, Builtin.pure .abs [.num n] = .ok (.num (.flt r)) ∧ r.toRat = n.toF64.toRat.abs := by
  have h := F64.abs_spec n.toF64 hf
  refine ⟨n.toF64.abs, ?_, h.2⟩
  simp [Builtin.pure, numOfF64, h.1]

/-- **floor** returns exactly the largest integer not above the number — for every finite number, however large -/
theorem C02_floor (n : Num) (hc : n.Canon) (hf : n.toF64.isFinite) :
    ∃ r : F64, Builtin.pure .floor [.num n] = .ok (.num (.flt r)) ∧ r.toRat = (n.toF64.toRat.floor : Rat) := by
  have h := F64.floor_spec n.toF64 (Num.toF64_canon n hc) hf
  refine ⟨n.toF64.floor, ?_, h.2⟩
  simp [Builtin.pure, numOfF64, h.1]

/-- **ceil** returns exactly the smallest integer not below the number -/
theorem C02_ceil (n : Num) (hc : n.Canon) (hf : n.toF64.isFinite) :
    ∃ r : F64, Builtin.pure .ceil [.num n] = .ok (.num (.flt r)) ∧ r.toRat = (n.toF64.toRat.ceil : Rat) := by
  have h := F64.ceil_spec' n.toF64 (Num.toF64_canon n hc) hf
  refine ⟨n.toF64.ceil, ?_, h.2⟩
  simp [Builtin.pure, numOfF64, h.1]

/-- **the arithmetic behind sum and avg**: each `+` and the final `÷` return the IEEE-754 round-to-nearest-even image of the exact result
(nearest canonical double, ties to even, infinity exactly on overflow) -/
theorem C02_add_ieee (a b : F64) (ha : a.isFinite) (hb : b.isFinite) : F64.IEEERounded (a.toRat + b.toRat) (F64.add a b) :=
  F64.add_ieee a b ha hb
theorem C02_div_ieee (a b : F64) (ha : a.isFinite) (hb : b.isFinite) (hz : b.isZero = false) :
    F64.IEEERounded (a.toRat / b.toRat) (F64.div a b) := F64.div_ieee a b ha hb hz
/-- integers up to 2^53 enter the arithmetic exactly -/
theorem C02_int_exact (k : Nat) (h : k ≤ 2 ^ 53) : (F64.ofNat k).isFinite ∧ (F64.ofNat k).toRat = (k : Rat) := F64.ofNat_exact k h

/-- **sum is exact on integers** whose absolute values total at most 2^53 (no rounding can occur) -/
theorem C02_sum_ints (ks : List Int) (h : (ks.map Int.natAbs).sum ≤ 2^53) :
    ∃ r : F64, Builtin.pure .sum [.arr (ks.map intVal)] = .ok (.num (.flt r)) ∧ r.toRat = ((ks.sum : Int) : Rat) := sum_ints ks h
/-- **avg of integers is the IEEE-rounded exact mean**, and exactly the mean when that is an integer -/
theorem C02_avg_ints (ks : List Int) (hne : ks ≠ []) (h : (ks.map Int.natAbs).sum ≤ 2^53) (hl : ks.length ≤ 2^53) :
    ∃ r : F64, Builtin.pure .avg [.arr (ks.map intVal)] = .ok (.num (.flt r)) ∧
      F64.IEEERounded (((ks.sum : Int) : Rat) / (ks.length : Rat)) r := avg_ints ks hne h hl
/-- each step of `sum` over any finite numbers is one IEEE rounding of the exact partial sum -/
theorem C02_sum_step (acc : F64) (v : Val) (n : Num) (hv : v = .num n) (ha : acc.isFinite) (hn : n.toF64.isFinite) :
    F64.IEEERounded (acc.toRat + n.toF64.toRat) (F64.add acc ((valNum v).getD F64.zero)) := sum_step acc v n hv ha hn

/-! non-vacuity -/
example : Homog [.str "b", .str "a"] := Or.inl (by intro x hx; simp at hx; rcases hx with rfl | rfl <;> exact ⟨_, rfl⟩)

end JmesVerif

#print axioms JmesVerif.C02_sort
#print axioms JmesVerif.C02_sort_perm
#print axioms JmesVerif.C02_sort_sorted
#print axioms JmesVerif.C02_sort_stable
#print axioms JmesVerif.C02_sort_by
#print axioms JmesVerif.C02_max_by
#print axioms JmesVerif.C02_min_by
#print axioms JmesVerif.C02_max
#print axioms JmesVerif.C02_min
#print axioms JmesVerif.C02_merge
#print axioms JmesVerif.C02_length_codepoints
#print axioms JmesVerif.C02_reverse_codepoints
#print axioms JmesVerif.C02_keys_values
#print axioms JmesVerif.C02_to_number
#print axioms JmesVerif.C02_avg_empty
#print axioms JmesVerif.C02_avg
#print axioms JmesVerif.C02_map_length
#print axioms JmesVerif.C02_expref_once_per_element
#print axioms JmesVerif.C02_not_null
#print axioms JmesVerif.C02_contains
#print axioms JmesVerif.C02_starts_with
#print axioms JmesVerif.C02_ends_with
#print axioms JmesVerif.C02_join
#print axioms JmesVerif.C02_abs
#print axioms JmesVerif.C02_floor
#print axioms JmesVerif.C02_ceil
#print axioms JmesVerif.C02_add_ieee
#print axioms JmesVerif.C02_div_ieee
#print axioms JmesVerif.C02_int_exact
#print axioms JmesVerif.C02_sum_ints
#print axioms JmesVerif.C02_avg_ints
#print axioms JmesVerif.C02_sum_step

/-! ## All 26 builtins against one specification

`Spec/Functions.lean` states the JMESPath function specification as one relation
`Spec.Fn.result b args ev v` ("`v` is a value the specification allows `b(args)` to return", `ev` = the
evaluation of an expression reference on an element), written independently of `Builtin.pure`.
The theorems below (proofs in `Lemmas/FunctionsSpec.lean`, by cases over the 26 builtins) say that
*every* successful call of *every* builtin on *every* argument list its signature admits returns such a
value, and that a valid call of a builtin without expression reference always returns. -/
namespace JmesVerif
open Spec.Fn

/-- **C02, all builtins at once.**  For each of the 26 builtins `b`, every registry, budget and offset,
and every argument list that
* satisfies `b`'s declared signature (`hv`),
* is well formed — numbers are finite canonical doubles, objects have strictly ascending member names,
  which is what `serde_json::Number` and `BTreeMap` guarantee (`hwf`),
* makes the expression reference, where there is one, produce only finite numbers as keys (`hkeys`;
  vacuous for the 22 builtins without expression reference and for `map`),
* is not in the one deviation class `ToNumberPadded` (`to_number` of a number token padded with
  whitespace, see `C02_to_number_padded_deviation`),

a successful call returns a value that the function specification allows.  `evalRef rt fuel e x` is the
value of `interp rt fuel x e _` (`C02_evalRef_is_interp`): the reference is evaluated once per element,
against that element. -/
theorem C02_every_builtin_meets_spec (rt : Registry) (fuel : Nat) (b : Builtin) (args : List Val)
    (off : Nat) (v : Val) (off' : Nat)
    (hv : b.sig.validate args off = .ok ())
    (hwf : ∀ a ∈ args, WellFormed a)
    (hkeys : ∀ e xs, Val.expref e ∈ args → Val.arr xs ∈ args → ∀ x ∈ xs, ∀ n,
      evalRef rt fuel e x = some (.num n) → n.toF64.isFinite = true)
    (hdev : ¬ ToNumberPadded b args)
    (h : callFn rt fuel (.builtin b) args off = .ok (v, off')) :
    result b args (evalRef rt fuel) v :=
  callFn_meets_spec rt fuel b args off v off' hv hwf hkeys hdev h

/-- the 22 builtins without expression reference: the body alone, no evaluator involved -/
theorem C02_every_pure_builtin_meets_spec (b : Builtin) (hb : b.usesExpref = false) (args : List Val)
    (off : Nat) (hv : b.sig.validate args off = .ok ()) (hwf : ∀ a ∈ args, WellFormed a)
    (hdev : ¬ ToNumberPadded b args) (ev : Ev) (v : Val) (h : b.pure args = .ok v) :
    result b args ev v :=
  pure_meets_spec b hb args off hv hwf hdev ev v h

/-- what `evalRef` is: the value of a run of `interp` on the element at the same budget (from any
offset), and the value of every successful run at a smaller budget -/
theorem C02_evalRef_is_interp (rt : Registry) (fuel : Nat) (e : Ast) (x v : Val) :
    (evalRef rt fuel e x = some v ↔ ∃ o', interp rt fuel x e 0 = .ok (v, o')) ∧
    (∀ f o o', f ≤ fuel → interp rt f x e o = .ok (v, o') → evalRef rt fuel e x = some v) := by
  refine ⟨?_, fun f o o' hle h => evalRef_of_interp rt h hle⟩
  unfold evalRef
  cases interp rt fuel x e 0 with
  | error err => simp
  | ok p => obtain ⟨w, o⟩ := p; simp

/-- **a valid call of a builtin without expression reference always returns**: a value, with the offset
register unchanged, or — for `abs avg ceil floor sum` only — the internal "not a finite double" error;
never a panic (`unreachable!()`, index out of bounds), a runtime error, or an exhausted budget
(cf. `C05_builtins_no_unreachable`, `C06_no_unreachable`) -/
theorem C02_valid_call_outcomes (rt : Registry) (fuel : Nat) (b : Builtin) (args : List Val) (off : Nat)
    (hv : b.sig.validate args off = .ok ()) (hb : b.usesExpref = false) :
    (∃ v, callFn rt (fuel + 1) (.builtin b) args off = .ok (v, off)) ∨
    (∃ msg, callFn rt (fuel + 1) (.builtin b) args off = .error (.internal msg) ∧
      b ∈ [Builtin.abs, .avg, .ceil, .floor, .sum]) :=
  valid_call_outcomes rt fuel b args off hv hb

/-- on well-formed arguments only `sum` and `avg` can end in that error (a partial sum or the quotient
left the double range: finding F14) -/
theorem C02_valid_call_outcomes_wellformed (rt : Registry) (fuel : Nat) (b : Builtin) (args : List Val)
    (off : Nat) (hv : b.sig.validate args off = .ok ()) (hb : b.usesExpref = false)
    (hwf : ∀ a ∈ args, WellFormed a) :
    (∃ v, callFn rt (fuel + 1) (.builtin b) args off = .ok (v, off)) ∨
    (∃ msg, callFn rt (fuel + 1) (.builtin b) args off = .error (.internal msg) ∧
      b ∈ [Builtin.avg, .sum]) :=
  valid_call_outcomes_wf rt fuel b args off hv hb hwf

/-- **machine-checked deviation** (why `hdev` is there): `to_number(" 1 ")` returns `1`; `" 1 "` does
not match `json-number`, so the specification gives `null` -/
theorem C02_to_number_padded_deviation :
    Builtin.pure .toNumber [.str " 1 "] = .ok (.num (.pos 1)) ∧
    ToNumberPadded .toNumber [.str " 1 "] ∧
    ¬ toNumberSpec [.str " 1 "] (.num (.pos 1)) :=
  toNumber_padded_deviation

/-! ### non-vacuity: concrete calls that meet all hypotheses -/

theorem genuine_pos (k : Nat) (h : k ≤ 2 ^ 53) : Genuine (.pos k) :=
  ⟨(F64.ofNat_exact k h).1, F64.ofRat_canon _⟩

/-- `sort([3, 1, 2])` -/
example : ∃ v, callFn [] 1 (.builtin .sort) [.arr [.num (.pos 3), .num (.pos 1), .num (.pos 2)]] 0 = .ok (v, 0) ∧
    result .sort [.arr [.num (.pos 3), .num (.pos 1), .num (.pos 2)]] (evalRef [] 1) v := by
  have hv : Builtin.sort.sig.validate [.arr [.num (.pos 3), .num (.pos 1), .num (.pos 2)]] 0 = .ok () :=
    (validate_one _ _ _).2 ⟨_, rfl, by simp [ArgT.isValid, anyValid, allValid, arrStr, arrNum, Val.type]⟩
  have hwf : ∀ a ∈ [Val.arr [.num (.pos 3), .num (.pos 1), .num (.pos 2)]], WellFormed a := by
    intro a ha
    simp only [List.mem_singleton] at ha
    subst ha
    intro n hn
    simp only [List.mem_cons, Val.num.injEq, List.not_mem_nil, or_false] at hn
    rcases hn with rfl | rfl | rfl <;> exact genuine_pos _ (by decide)
  rcases C02_valid_call_outcomes [] 0 .sort _ 0 hv rfl with ⟨v, h⟩ | ⟨msg, _, hm⟩
  · exact ⟨v, h, C02_every_builtin_meets_spec [] 1 .sort _ 0 v 0 hv hwf (by simp)
      (by rintro ⟨h, _⟩; cases h) h⟩
  · simp at hm

/-- `merge({"a": 1, "b": 2}, {"b": 3})` -/
example : ∃ v, callFn [] 1 (.builtin .merge)
      [.obj [("a", .num (.pos 1)), ("b", .num (.pos 2))], .obj [("b", .num (.pos 3))]] 0 = .ok (v, 0) ∧
    result .merge [.obj [("a", .num (.pos 1)), ("b", .num (.pos 2))], .obj [("b", .num (.pos 3))]]
      (evalRef [] 1) v := by
  have hv : Builtin.merge.sig.validate
      [.obj [("a", .num (.pos 1)), ("b", .num (.pos 2))], .obj [("b", .num (.pos 3))]] 0 = .ok () :=
    (validate_var _ _ _ _).2 ⟨_, _, rfl, by simp [ArgT.isValid, Val.type], by simp [ArgT.isValid, Val.type]⟩
  have hwf : ∀ a ∈ [Val.obj [("a", .num (.pos 1)), ("b", .num (.pos 2))], .obj [("b", .num (.pos 3))]],
      WellFormed a := by
    intro a ha
    simp only [List.mem_cons, List.not_mem_nil, or_false] at ha
    rcases ha with rfl | rfl
    · show AscendingKeys _
      simp only [AscendingKeys, List.pairwise_cons, List.mem_singleton, List.not_mem_nil]
      refine ⟨fun p hp => ?_, by simp⟩
      subst hp
      decide
    · show AscendingKeys _
      simp [AscendingKeys]
  rcases C02_valid_call_outcomes [] 0 .merge _ 0 hv rfl with ⟨v, h⟩ | ⟨msg, _, hm⟩
  · exact ⟨v, h, C02_every_builtin_meets_spec [] 1 .merge _ 0 v 0 hv hwf (by simp)
      (by rintro ⟨h, _⟩; cases h) h⟩
  · simp at hm

/-- `max_by([{"a": "x"}, {"a": "y"}], &a)` returns `{"a": "y"}`, and the specification allows it -/
example : callFn [] 4 (.builtin .maxBy)
      [.arr [.obj [("a", .str "x")], .obj [("a", .str "y")]], .expref (.field 0 "a")] 0
      = .ok (.obj [("a", .str "y")], 0) ∧
    result .maxBy [.arr [.obj [("a", .str "x")], .obj [("a", .str "y")]], .expref (.field 0 "a")]
      (evalRef [] 4) (.obj [("a", .str "y")]) := by
  have hc : compare "y" "x" = Ordering.gt := by decide
  have h : callFn [] 4 (.builtin .maxBy)
      [.arr [.obj [("a", .str "x")], .obj [("a", .str "y")]], .expref (.field 0 "a")] 0
      = .ok (.obj [("a", .str "y")], 0) := by
    rw [callFn_maxBy]
    simp [byExtreme, keysTyped, interp, Val.type, Val.getField, Val.lookup, Val.cmp, hc]
  refine ⟨h, C02_every_builtin_meets_spec [] 4 .maxBy _ 0 _ 0 ?_ ?_ ?_ (by rintro ⟨h, _⟩; cases h) h⟩
  · exact (validate_two _ _ _ _).2 ⟨_, _, rfl, by simp [ArgT.isValid, Val.type], by simp [ArgT.isValid, Val.type]⟩
  · intro a ha
    simp only [List.mem_cons, List.not_mem_nil, or_false] at ha
    rcases ha with rfl | rfl
    · intro n hn; simp at hn
    · trivial
  · intro e xs he hxs x hx n hn
    simp only [List.mem_cons, Val.expref.injEq, List.not_mem_nil, or_false, reduceCtorEq, false_or] at he
    simp only [List.mem_cons, Val.arr.injEq, List.not_mem_nil, or_false, reduceCtorEq, or_false] at hxs
    subst he; subst hxs
    simp only [List.mem_cons, List.not_mem_nil, or_false] at hx
    rcases hx with rfl | rfl <;> simp [evalRef, interp, Val.getField, Val.lookup] at hn

/-! ### the specification is not vacuous either: it rejects wrong answers -/

/-- an unsorted answer is not a `sort` -/
example (ev : Ev) : ¬ result .sort [.arr [.str "b", .str "a"]] ev (.arr [.str "b", .str "a"]) := by
  rintro ⟨ys, hy, _, hs, _⟩
  cases hy
  simp only [List.pairwise_cons, List.mem_singleton, forall_eq] at hs
  exact absurd hs.1 (show ¬ ("b".toList ≤ "a".toList) by decide)

/-- a smaller element is not a `max` -/
example (ev : Ev) : ¬ result .max [.arr [.str "a", .str "b"]] ev (.str "a") := by
  rintro (⟨h, _⟩ | ⟨_, h⟩)
  · cases h
  · exact absurd (h (.str "b") (by simp)) (show ¬ ("b".toList ≤ "a".toList) by decide)

/-- `map` may not drop an element (as a projection would drop a `null`) -/
example (ev : Ev) (e : Ast) (x : Val) : ¬ result .map [.expref e, .arr [x]] ev (.arr []) := by
  rintro ⟨ys, hy, h⟩
  cases hy
  simp at h

/-- a left-biased `merge` is rejected -/
example (ev : Ev) : ¬ result .merge [.obj [("a", .null)], .obj [("a", .bool true)]] ev (.obj [("a", .null)]) := by
  rintro ⟨m, hm, _, h⟩
  cases hm
  rcases h "a" with ⟨pre, kvs, suf, x, he, hk, hr, hn⟩ | ⟨hr, _⟩
  · simp only [member, Val.lookup, if_true, Option.some.injEq] at hr
    subst hr
    rcases pre with _ | ⟨p, _ | ⟨q, pre⟩⟩
    · simp only [List.nil_append, List.cons.injEq, Val.obj.injEq] at he
      obtain ⟨_, rfl⟩ := he
      have := hn [("a", .bool true)] (by simp)
      simp [member, Val.lookup] at this
    · simp only [List.cons_append, List.nil_append, List.cons.injEq, Val.obj.injEq] at he
      obtain ⟨_, rfl, _⟩ := he
      simp [member, Val.lookup] at hk
    · have := congrArg List.length he
      simp at this
  · simp [member, Val.lookup] at hr

end JmesVerif

#print axioms JmesVerif.C02_every_builtin_meets_spec
#print axioms JmesVerif.C02_every_pure_builtin_meets_spec
#print axioms JmesVerif.C02_evalRef_is_interp
#print axioms JmesVerif.C02_valid_call_outcomes
#print axioms JmesVerif.C02_valid_call_outcomes_wellformed
#print axioms JmesVerif.C02_to_number_padded_deviation
