import JmesVerif.Lemmas.Builtins
import JmesVerif.Lemmas.F64Spec
import JmesVerif.Lemmas.SumAvg
/-!
# C02 — every built-in function computes the value the specification defines

Contracts of the builtins over the model of `functions.rs` (`Model/Interp.lean`), each for *all*
well-typed arguments.  `vle a b` is the order `sort` uses (`Val.cmp a b ≠ Greater`: code-point
order on strings, order of the double image on numbers); `Homog xs` = all strings or all (finite)
numbers, which is what the signature `array[string]|array[number]` admits.
Helper lemmas and the remaining contracts (join, keys/values lookup, to_array, type, sum, …) are in
`Lemmas/Builtins.lean` (57 theorems); the principal ones are restated here.
-/
namespace JmesVerif

/-- **sort is a stable ascending permutation** (any length, duplicate keys included) -/
theorem C02_sort (args : List Val) (off : Nat) (hv : Builtin.sort.sig.validate args off = .ok ())
    (hfin : ∀ xs n, args = [.arr xs] → Val.num n ∈ xs → n.toF64.isFinite = true) :
    ∃ xs ys, args = [.arr xs] ∧ Builtin.pure .sort args = .ok (.arr ys) ∧ ys.Perm xs ∧
      ys.Pairwise (fun a b => vle a b = true) ∧
      ∀ a b, vle a b = true → [a, b].Sublist xs → [a, b].Sublist ys :=
  sort_spec args off hv hfin

theorem C02_sort_perm (xs : List Val) : (sortVals xs).Perm xs := sort_perm xs
theorem C02_sort_sorted (xs : List Val) (h : Homog xs) : (sortVals xs).Pairwise (fun a b => vle a b = true) :=
  sort_sorted xs h
theorem C02_sort_stable (xs : List Val) (h : Homog xs) (a b : Val) (hab : vle a b = true)
    (hs : [a, b].Sublist xs) : [a, b].Sublist (sortVals xs) := sort_stable xs h a b hab hs

/-- string order is code-point order -/
theorem C02_string_order (a b : String) : Val.cmp (.str a) (.str b) = compare a b := rfl

/-- **sort_by**: evaluates the expression reference once per element (first element, then `keysTyped`
over the rest, in order) and returns the elements in a stable ascending order of their keys -/
theorem C02_sort_by (rt : Registry) (fuel : Nat) (x : Val) (rest : List Val) (a : Ast) (off off1 off2 : Nat)
    (k0 : Val) (ks : List Val) (h1 : interp rt fuel x a off = .ok (k0, off1))
    (hty : k0.type = .string ∨ k0.type = .number)
    (h2 : keysTyped rt fuel rest a k0.type 1 off1 = .ok (ks, off2)) (hh : Homog (k0 :: ks)) :
    ∃ ps, callFn rt (fuel + 1) (.builtin .sortBy) [.arr (x :: rest), .expref a] off = .ok (.arr (ps.map (·.1)), off2) ∧
      ps.Perm ((x :: rest).zip (k0 :: ks)) ∧ (ps.map (·.1)).Perm (x :: rest) ∧
      ps.Pairwise (fun p q => vle p.2 q.2 = true) ∧
      ∀ p q, vle p.2 q.2 = true → [p, q].Sublist ((x :: rest).zip (k0 :: ks)) → [p, q].Sublist ps :=
  sortBy_spec rt fuel x rest a off off1 off2 k0 ks h1 hty h2 hh

/-- **max_by / min_by** return an input element whose key is extreme — the first such on ties -/
theorem C02_max_by (rt : Registry) (fuel : Nat) (x : Val) (rest : List Val) (a : Ast) (off off1 off2 : Nat)
    (k0 : Val) (ks : List Val) (h1 : interp rt fuel x a off = .ok (k0, off1))
    (hty : k0.type = .string ∨ k0.type = .number)
    (h2 : keysTyped rt fuel rest a k0.type 1 off1 = .ok (ks, off2)) (hh : Homog (k0 :: ks)) :
    ∃ p pre suf, byExtreme rt (fuel + 1) true (x :: rest) a off = .ok (p.1, off2) ∧
      (x :: rest).zip (k0 :: ks) = pre ++ p :: suf ∧ (∀ q ∈ pre, Val.cmp p.2 q.2 = .gt) ∧
      (∀ q ∈ suf, vle q.2 p.2 = true) ∧ (∀ q ∈ (x :: rest).zip (k0 :: ks), vle q.2 p.2 = true) :=
  maxBy_spec rt fuel x rest a off off1 off2 k0 ks h1 hty h2 hh

theorem C02_min_by (rt : Registry) (fuel : Nat) (x : Val) (rest : List Val) (a : Ast) (off off1 off2 : Nat)
    (k0 : Val) (ks : List Val) (h1 : interp rt fuel x a off = .ok (k0, off1))
    (hty : k0.type = .string ∨ k0.type = .number)
    (h2 : keysTyped rt fuel rest a k0.type 1 off1 = .ok (ks, off2)) (hh : Homog (k0 :: ks)) :
    ∃ p pre suf, byExtreme rt (fuel + 1) false (x :: rest) a off = .ok (p.1, off2) ∧
      (x :: rest).zip (k0 :: ks) = pre ++ p :: suf ∧ (∀ q ∈ pre, Val.cmp q.2 p.2 = .gt) ∧
      (∀ q ∈ suf, vle p.2 q.2 = true) ∧ (∀ q ∈ (x :: rest).zip (k0 :: ks), vle p.2 q.2 = true) :=
  minBy_spec rt fuel x rest a off off1 off2 k0 ks h1 hty h2 hh

/-- **max / min**: null on the empty array, otherwise an element that bounds all others -/
theorem C02_max (args : List Val) (off : Nat) (hv : Builtin.max.sig.validate args off = .ok ())
    (hfin : ∀ xs n, args = [.arr xs] → Val.num n ∈ xs → n.toF64.isFinite = true) :
    ∃ xs v, args = [.arr xs] ∧ Builtin.pure .max args = .ok v ∧
      ((xs = [] ∧ v = .null) ∨ (v ∈ xs ∧ (∀ x ∈ xs, vle x v = true) ∧
        ∃ pre suf, xs = pre ++ v :: suf ∧ ∀ x ∈ suf, Val.cmp v x = .gt)) :=
  max_spec args off hv hfin

theorem C02_min (args : List Val) (off : Nat) (hv : Builtin.min.sig.validate args off = .ok ())
    (hfin : ∀ xs n, args = [.arr xs] → Val.num n ∈ xs → n.toF64.isFinite = true) :
    ∃ xs v, args = [.arr xs] ∧ Builtin.pure .min args = .ok v ∧
      ((xs = [] ∧ v = .null) ∨ (v ∈ xs ∧ (∀ x ∈ xs, vle v x = true) ∧
        ∃ pre suf, xs = pre ++ v :: suf ∧ ∀ x ∈ pre, Val.cmp x v = .gt)) :=
  min_spec args off hv hfin

/-- **merge is right-biased**: a key's value is that of the last argument object having the key -/
theorem C02_merge (k : String) (args : List Val) :
    ∃ m, Builtin.pure .merge args = .ok (.obj m) ∧ Val.lookup k m = lastBinding k args :=
  merge_lookup k args

/-- **length / reverse count Unicode code points** -/
theorem C02_length_codepoints (s : String) : Builtin.pure .length [.str s] = .ok (.num (.pos s.toList.length)) :=
  length_str s
theorem C02_reverse_codepoints (s : String) :
    Builtin.pure .reverse [.str s] = .ok (.str (String.ofList s.toList.reverse)) := reverse_str s

/-- **keys and values correspond pairwise** -/
theorem C02_keys_values (kvs : List (String × Val)) :
    ∃ (ks : List String) (vs : List Val), Builtin.pure .keys [.obj kvs] = .ok (.arr (ks.map .str)) ∧
      Builtin.pure .values [.obj kvs] = .ok (.arr vs) ∧ ks.zip vs = kvs ∧ ks.length = kvs.length ∧ vs.length = kvs.length :=
  keys_values_zip kvs

/-- **to_number yields a number or null and nothing else** -/
theorem C02_to_number (a : Val) :
    (∃ n, Builtin.pure .toNumber [a] = .ok (.num n)) ∨ Builtin.pure .toNumber [a] = .ok .null :=
  toNumber_cases a

/-- **avg of an empty array is null**; otherwise sum / length in double arithmetic -/
theorem C02_avg_empty : Builtin.pure .avg [.arr []] = .ok .null := avg_empty
theorem C02_avg (xs : List Val) (h : xs ≠ []) :
    Builtin.pure .avg [.arr xs] = numOfF64 (F64.div (sumF64 xs) (F64.ofNat xs.length)) "Expected to be a valid f64" :=
  avg_nonempty xs h

/-- **map keeps nulls and preserves length**; the reference is evaluated once per element, against
that element, in order -/
theorem C02_map_length (rt : Registry) (fuel : Nat) (a : Ast) (xs : List Val) (off : Nat) (v : Val) (off' : Nat)
    (h : callFn rt (fuel + 1) (.builtin .map) [.expref a, .arr xs] off = .ok (v, off')) :
    ∃ ys, v = .arr ys ∧ ys.length = xs.length := map_length rt fuel a xs off v off' h

theorem C02_expref_once_per_element (rt : Registry) (fuel : Nat) (x : Val) (xs : List Val) (a : Ast) (off : Nat) :
    mapExpref rt (fuel + 1) (x :: xs) a off =
      (match interp rt fuel x a off with
       | .error e => .error e
       | .ok (v, off) =>
         match mapExpref rt fuel xs a off with
         | .error e => .error e
         | .ok (vs, off) => .ok (v :: vs, off)) := mapExpref_cons rt fuel x xs a off

/-- **not_null** returns the first non-null argument -/
theorem C02_not_null (args : List Val) :
    (∃ pre v suf, args = pre ++ v :: suf ∧ (∀ x ∈ pre, x = .null) ∧ v ≠ .null ∧ Builtin.pure .notNull args = .ok v) ∨
    ((∀ x ∈ args, x = .null) ∧ Builtin.pure .notNull args = .ok .null) := notNull_spec args

/-- **contains / starts_with / ends_with** are infix / prefix / suffix on code points -/
theorem C02_contains (s n : String) :
    Builtin.pure .contains [.str s, .str n] = .ok (.bool true) ↔ ∃ pre suf, s.toList = pre ++ n.toList ++ suf :=
  contains_str_iff s n
theorem C02_starts_with (s t : String) :
    Builtin.pure .startsWith [.str s, .str t] = .ok (.bool true) ↔ ∃ suf, s.toList = t.toList ++ suf :=
  startsWith_iff s t
theorem C02_ends_with (s t : String) :
    Builtin.pure .endsWith [.str s, .str t] = .ok (.bool true) ↔ ∃ pre, s.toList = pre ++ t.toList :=
  endsWith_iff s t

theorem C02_join (glue : String) (ss : List String) :
    Builtin.pure .join [.str glue, .arr (ss.map .str)] = .ok (.str (glue.intercalate ss)) := join_eq glue ss

/-! ### numeric contracts (the arithmetic of the model is IEEE-754 binary64 by theorem, not only by comparison with hardware)

`Lemmas/F64Spec.lean` proves that the rounding the model performs after every exact rational operation is round-to-nearest, ties to even,
of IEEE-754 binary64 — nearest among all canonical doubles, overflow to infinity exactly from `2^1024 − 2^970` on — and that it is the
identity on representable values.  The contracts of `abs`, `floor`, `ceil` follow for every number (no rounding error at all), and `+ − × ÷`
on finite doubles are the correctly rounded exact results. -/

/-- canonical payloads: what every double that comes from JSON text, from hardware or from the model's own arithmetic satisfies -/
def Num.Canon : Num → Prop
  | .flt f => f.Canon
  | _ => True

theorem Num.toF64_canon (n : Num) (h : n.Canon) : n.toF64.Canon := by
  cases n with
  | pos k => exact F64.ofRat_canon _
  | neg i => exact F64.ofRat_canon _
  | flt f => exact h

/-- **abs** returns exactly the absolute value (of the double image) -/
theorem C02_abs (n : Num) (hf : n.toF64.isFinite) :
    ∃ r : F64, Builtin.pure .abs [.num n] = .ok (.num (.flt r)) ∧ r.toRat = n.toF64.toRat.abs := by
  have h := F64.abs_spec n.toF64 hf
  refine ⟨n.toF64.abs, ?_, h.2⟩
  simp [Builtin.pure, numOfF64, h.1]

/-- **floor** returns exactly the largest integer not above the number — for every finite number, however large -/
theorem C02_floor (n : Num) (hc : n.Canon) (hf : n.toF64.isFinite) :
    ∃ r : F64, Builtin.pure .floor [.num n] = .ok (.num (.flt r)) ∧ r.toRat = (n.toF64.toRat.floor : Rat) := by
  have h := F64.floor_spec n.toF64 (Num.toF64_canon n hc) hf
  refine ⟨n.toF64.floor, ?_, h.2⟩
  simp [Builtin.pure, numOfF64, h.1]

/-- **ceil** returns exactly the smallest integer not below the number -/
theorem C02_ceil (n : Num) (hc : n.Canon) (hf : n.toF64.isFinite) :
    ∃ r : F64, Builtin.pure .ceil [.num n] = .ok (.num (.flt r)) ∧ r.toRat = (n.toF64.toRat.ceil : Rat) := by
  have h := F64.ceil_spec' n.toF64 (Num.toF64_canon n hc) hf
  refine ⟨n.toF64.ceil, ?_, h.2⟩
  simp [Builtin.pure, numOfF64, h.1]

/-- **the arithmetic behind sum and avg**: each `+` and the final `÷` return the IEEE-754 round-to-nearest-even image of the exact result
(nearest canonical double, ties to even, infinity exactly on overflow) -/
theorem C02_add_ieee (a b : F64) (ha : a.isFinite) (hb : b.isFinite) : F64.IEEERounded (a.toRat + b.toRat) (F64.add a b) :=
  F64.add_ieee a b ha hb
theorem C02_div_ieee (a b : F64) (ha : a.isFinite) (hb : b.isFinite) (hz : b.isZero = false) :
    F64.IEEERounded (a.toRat / b.toRat) (F64.div a b) := F64.div_ieee a b ha hb hz
/-- integers up to 2^53 enter the arithmetic exactly -/
theorem C02_int_exact (k : Nat) (h : k ≤ 2 ^ 53) : (F64.ofNat k).isFinite ∧ (F64.ofNat k).toRat = (k : Rat) := F64.ofNat_exact k h

/-- **sum is exact on integers** whose absolute values total at most 2^53 (no rounding can occur) -/
theorem C02_sum_ints (ks : List Int) (h : (ks.map Int.natAbs).sum ≤ 2^53) :
    ∃ r : F64, Builtin.pure .sum [.arr (ks.map intVal)] = .ok (.num (.flt r)) ∧ r.toRat = ((ks.sum : Int) : Rat) := sum_ints ks h
/-- **avg of integers is the IEEE-rounded exact mean**, and exactly the mean when that is an integer -/
theorem C02_avg_ints (ks : List Int) (hne : ks ≠ []) (h : (ks.map Int.natAbs).sum ≤ 2^53) (hl : ks.length ≤ 2^53) :
    ∃ r : F64, Builtin.pure .avg [.arr (ks.map intVal)] = .ok (.num (.flt r)) ∧
      F64.IEEERounded (((ks.sum : Int) : Rat) / (ks.length : Rat)) r := avg_ints ks hne h hl
/-- each step of `sum` over any finite numbers is one IEEE rounding of the exact partial sum -/
theorem C02_sum_step (acc : F64) (v : Val) (n : Num) (hv : v = .num n) (ha : acc.isFinite) (hn : n.toF64.isFinite) :
    F64.IEEERounded (acc.toRat + n.toF64.toRat) (F64.add acc ((valNum v).getD F64.zero)) := sum_step acc v n hv ha hn

/-! non-vacuity -/
example : Homog [.str "b", .str "a"] := Or.inl (by intro x hx; simp at hx; rcases hx with rfl | rfl <;> exact ⟨_, rfl⟩)

end JmesVerif

#print axioms JmesVerif.C02_sort
#print axioms JmesVerif.C02_sort_perm
#print axioms JmesVerif.C02_sort_sorted
#print axioms JmesVerif.C02_sort_stable
#print axioms JmesVerif.C02_sort_by
#print axioms JmesVerif.C02_max_by
#print axioms JmesVerif.C02_min_by
#print axioms JmesVerif.C02_max
#print axioms JmesVerif.C02_min
#print axioms JmesVerif.C02_merge
#print axioms JmesVerif.C02_length_codepoints
#print axioms JmesVerif.C02_reverse_codepoints
#print axioms JmesVerif.C02_keys_values
#print axioms JmesVerif.C02_to_number
#print axioms JmesVerif.C02_avg_empty
#print axioms JmesVerif.C02_avg
#print axioms JmesVerif.C02_map_length
#print axioms JmesVerif.C02_expref_once_per_element
#print axioms JmesVerif.C02_not_null
#print axioms JmesVerif.C02_contains
#print axioms JmesVerif.C02_starts_with
#print axioms JmesVerif.C02_ends_with
#print axioms JmesVerif.C02_join
#print axioms JmesVerif.C02_abs
#print axioms JmesVerif.C02_floor
#print axioms JmesVerif.C02_ceil
#print axioms JmesVerif.C02_add_ieee
#print axioms JmesVerif.C02_div_ieee
#print axioms JmesVerif.C02_int_exact
#print axioms JmesVerif.C02_sum_ints
#print axioms JmesVerif.C02_avg_ints
#print axioms JmesVerif.C02_sum_step
