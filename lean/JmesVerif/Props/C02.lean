theorem C02_placeholder : True := trivial
