import JmesVerif.Props.C03
import JmesVerif.Lemmas.Paren
import JmesVerif.Lemmas.ParenLegal
import JmesVerif.Generated.Lbp
import JmesVerif.Generated.Vocab
/-!
# C04 — operators bind by the documented precedence; projections extend as specified

* the binding-power table and every call-site power are re-extracted from the source on each
  run (`Generated/Lbp.lean`) and proved equal to the documented ones the grammar theorems use;
* the parse of every sentence is the tree the rules assign (`C04_parse_is_rule_tree`, from T1),
  and that tree is unique (`C04_unambiguous`, from T2): two legal trees with the same token
  string are the same tree;
* every right operand binds tighter than its operator (`C04_operands_bind_tighter`), which is
  left associativity for `| || && ==`…, and a projection's right-hand side stops exactly at a
  token binding below 10 (`C04_projection_stop`);
* adding the implied parentheses never changes the tree (`C04_paren_invariance`).
Known finding F16 (a dotted multi-select list ends the right-hand side) is the one place where
`Legal` — which mirrors the code — differs from the stated rule; see `Spec/GrammarCheck.tailK`.
-/
namespace JmesVerif

/-- the table in lexer.rs today is the documented one -/
theorem C04_lbp_table (t : Tok) : Generated.lbp t = Tok.lbp t := by
  cases t <;> rfl

theorem C04_projection_stop_const : Generated.projectionStop = Parser.projectionStop := rfl

/- (The binding power passed at every call site of the parser used to be pattern-matched out of parser.rs and pinned here; it is now a
consequence of `C04_translated_parser` (`Props/C04Code.lean`): the whole parser is re-translated from the source and proved equal to the model.) -/

/-- the documented order: pipe < or < and < comparison < flatten < wildcard < filter < dot < not < bracket < call -/
theorem C04_documented_order :
    Tok.lbp .pipe < Tok.lbp .or ∧ Tok.lbp .or < Tok.lbp .and ∧ Tok.lbp .and < Tok.lbp .eq ∧
    Tok.lbp .eq = Tok.lbp .ne ∧ Tok.lbp .eq = Tok.lbp .lt ∧ Tok.lbp .eq = Tok.lbp .lte ∧
    Tok.lbp .eq = Tok.lbp .gt ∧ Tok.lbp .eq = Tok.lbp .gte ∧
    Tok.lbp .eq < Tok.lbp .flatten ∧ Tok.lbp .flatten < Parser.projectionStop ∧
    Parser.projectionStop ≤ Tok.lbp .star ∧ Tok.lbp .star < Tok.lbp .filter ∧
    Tok.lbp .filter < Tok.lbp .dot ∧ Tok.lbp .dot < Tok.lbp .not ∧ Tok.lbp .not < Tok.lbp .lbracket ∧
    Tok.lbp .lbracket < Tok.lbp .lparen ∧
    Tok.lbp .rbracket = 0 ∧ Tok.lbp .rparen = 0 ∧ Tok.lbp .rbrace = 0 ∧ Tok.lbp .comma = 0 ∧
    Tok.lbp .colon = 0 ∧ Tok.lbp .eof = 0 := by
  decide

/-- **The parse is the tree the rules define.**  Whatever `parse` returns is, up to offsets,
`ast` of a `Legal` tree spelling exactly the input tokens. -/
theorem C04_parse_is_rule_tree (cs : List Char) (e : Expr) (a : Ast) (h : parseExpr cs = .ok (e, a)) :
    ∃ ts, tokenize cs = .ok ts ∧ tk ts = e.toks ++ [Tok.eof] ∧ e.Legal 0 ∧ a.strip = e.ast := by
  obtain ⟨ts, e', hlex, hl, hy⟩ := (C03_language cs).mp ⟨e, a, h⟩
  refine ⟨ts, hlex, ?_⟩
  unfold parseExpr at h
  rw [hlex] at h
  simp only [] at h
  split at h
  · simp at h
  · rename_i r hp
    simp at h; subst h
    obtain ⟨hy', hl', ha⟩ := T1_parseTokens ts e a hp
    refine ⟨?_, hl', ha⟩
    rcases hy' with hy' | hy'
    · exfalso
      have hmem : Tok.eof ∈ e.toks := by rw [← hy', hy]; simp
      have := Expr.toks_real e _ hmem
      simp [Tok.isEof] at this
    · exact hy'

/-- **Unambiguity.**  Two legal trees with the same token string are the same tree (hence the
same abstract syntax tree): the binding-power rules leave no choice. -/
theorem C04_unambiguous (e₁ e₂ : Expr) (h₁ : e₁.Legal 0) (h₂ : e₂.Legal 0) (h : e₁.toks = e₂.toks) :
    e₁ = e₂ := by
  let ts : List PT := (e₁.toks ++ [Tok.eof]).map (fun t => (0, t))
  have hy1 : tk ts = e₁.toks ++ [Tok.eof] := by simp [ts, tk, List.map_map, Function.comp_def]
  have hy2 : tk ts = e₂.toks ++ [Tok.eof] := by rw [hy1, h]
  obtain ⟨a1, hp1, _⟩ := C03_complete e₁ h₁ ts hy1
  obtain ⟨a2, hp2, _⟩ := C03_complete e₂ h₂ ts hy2
  rw [hp1] at hp2
  simp at hp2
  exact hp2.1

/-- every infix/postfix application inside a tree parsed at power `k` binds tighter than `k`:
the right operand of `||` contains no top-level `||` or `|`, etc. (left associativity) -/
theorem chain_lbp (k f : Nat) (ls : List Led) (h : chain k f ls) : ∀ l ∈ ls, k < l.lbp := by
  induction ls generalizing f with
  | nil => intro l hl; cases hl
  | cons x xs ih =>
    intro l hl
    simp only [chain] at h
    rcases List.mem_cons.mp hl with rfl | hl
    · exact h.1
    · exact ih _ h.2.2.2 l hl

theorem C04_operands_bind_tighter (k : Nat) (h : Nud) (ls : List Led) (hl : (Expr.mk h ls).Legal k) :
    ∀ l ∈ ls, k < l.lbp := by
  simp only [Expr.Legal] at hl
  exact chain_lbp k _ ls hl.2.1

/-- a projection with an empty right-hand side is only followed by a token binding below 10
(pipe, or, and, comparators, closing brackets, comma, colon, flatten, end of input) -/
theorem C04_projection_stop (k : Nat) : Rhs.follow k .none = 9 ∧ 9 < Parser.projectionStop := by
  simp [Rhs.follow, Parser.projectionStop]

/-- **Adding the implied parentheses never changes the tree.** -/
theorem C04_paren_invariance (e : Expr) : (Paren.parenthesize e).ast = e.ast :=
  pExpr_ast e

/-- … and the parenthesised tree is itself a sentence, so (by completeness) the parenthesised *text*
compiles, to a tree with the same `ast`: parenthesising never changes the parse. -/
theorem C04_paren_legal (e : Expr) (h : e.Legal 0) :
    (Paren.parenthesize e).Legal 0 ∧
    ∀ ts : List PT, tk ts = (Paren.parenthesize e).toks ++ [Tok.eof] →
      ∃ a, parseTokens ts = .ok (Paren.parenthesize e, a) ∧ a.strip = e.ast := by
  refine ⟨parenthesize_legal e h, fun ts hy => ?_⟩
  obtain ⟨a, hp, ha⟩ := C03_complete _ (parenthesize_legal e h) ts hy
  exact ⟨a, hp, by rw [ha, C04_paren_invariance]⟩

/-! ### non-vacuity: `a || b || c` groups to the left, `a || b && c` groups `&&` first -/
example : (Expr.mk (.field "a") [.or (.mk (.field "b") []), .or (.mk (.field "c") [])]).Legal 0 := by
  simp [Expr.Legal, Nud.Legal, chain, Led.Legal, Led.lbp, Led.follow, Expr.follow, ledsFollow, Nud.follow, INF, callDevOk, Led.isCallDev]
example : ¬ (Expr.mk (.field "a") [.or (.mk (.field "b") [.or (.mk (.field "c") [])])]).Legal 0 := by
  simp [Expr.Legal, Nud.Legal, chain, Led.Legal, Led.lbp, Led.follow, Expr.follow, ledsFollow, Nud.follow, INF, callDevOk, Led.isCallDev]


/-! ### the public AST / token / comparator vocabulary (ast.rs:25-171, lexer.rs:19, ast.rs:190)

`Generated/Vocab.lean` is re-extracted from the `pub enum` definitions on every run; its functions
`astVariant`, `tokenVariant`, `comparatorVariant` match on the *model's* inductive types with one arm
per Rust variant and one `_` per field, so they elaborate only while the model types have exactly the
variants and arities of the source.  The theorem pins the variant lists to the documented ones and
states that every model node is one of them. -/
theorem C04_ast_vocabulary :
    Generated.astFields.map (·.1) =
      ["And", "Comparison", "Condition", "Expref", "Field", "Flatten", "Function", "Identity", "Index", "Literal",
       "MultiHash", "MultiList", "Not", "ObjectValues", "Or", "Projection", "Slice", "Subexpr"]
    ∧ (∀ a : Ast, Generated.astVariant a ∈ Generated.astFields.map (·.1))
    ∧ (∀ c : Cmp, Generated.comparatorVariant c ∈ Generated.comparatorFields.map (·.1))
    ∧ (∀ t : Tok, Generated.tokenVariant t ∈ Generated.tokenFields.map (·.1))
    ∧ Generated.astFields.all (fun p => p.2.head? == some "offset") = true := by
  refine ⟨rfl, ?_, ?_, ?_, by decide⟩
  · intro a; cases a <;> simp [Generated.astVariant, Generated.astFields]
  · intro c; cases c <;> simp [Generated.comparatorVariant, Generated.comparatorFields]
  · intro t; cases t <;> simp [Generated.tokenVariant, Generated.tokenFields]

end JmesVerif

#print axioms JmesVerif.C04_lbp_table
#print axioms JmesVerif.C04_documented_order
#print axioms JmesVerif.C04_parse_is_rule_tree
#print axioms JmesVerif.C04_unambiguous
#print axioms JmesVerif.C04_operands_bind_tighter
#print axioms JmesVerif.C04_projection_stop
#print axioms JmesVerif.C04_paren_invariance
#print axioms JmesVerif.C04_paren_legal
#print axioms JmesVerif.C04_ast_vocabulary
