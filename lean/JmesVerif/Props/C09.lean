import JmesVerif.Lemmas.SpellRoundTrip
import JmesVerif.Model.Interp
import JmesVerif.Model.Parser
/-!
# C09 — raw strings, JSON literals and quoted identifiers denote exactly their value

Spellings are defined in `Spec/Spelling.lean`.  A string has a raw-string spelling iff no odd run
of backslashes stands directly before a quote or at its end (`rawSpellable`: only backslash-quote
is an escape, so such a run would swallow the escaping backslash or the closing quote);
`C09_raw_unspellable` shows the guard is exactly right.
-/
namespace JmesVerif
open Spelling

/-- **Raw strings.**  The raw-string spelling of every spellable string lexes to that string. -/
theorem C09_raw_roundtrip (s : List Char) (hs : rawSpellable s = true) :
    tokenize (rawSpell s) = .ok [(0, .literal (.str (String.ofList s))), (Lexer.utf8Len (rawSpell s), .eof)] :=
  raw_tokenize s hs

theorem C09_raw_unspellable (s : List Char) (hs : rawSpellable s = false) :
    tokenize (rawSpell s) ≠ .ok [(0, .literal (.str (String.ofList s))), (Lexer.utf8Len (rawSpell s), .eof)] :=
  raw_unspellable s hs

/-- **Quoted identifiers.**  For every member name — any Unicode string: quotes, backslashes,
control characters (escaped as `\uXXXX`), astral code points — its JSON-string spelling lexes to
the quoted-identifier token of exactly that name. -/
theorem C09_quoted_roundtrip (k : String) :
    tokenize (quotedSpell k) = .ok [(0, .quotedIdentifier k), (Lexer.utf8Len (quotedSpell k), .eof)] :=
  quoted_tokenize k

/-- **JSON literals.**  The backtick literal holding a value's JSON text (backticks escaped) lexes
to that value — given that the JSON text itself parses back (`C08_parse_print`). -/
theorem C09_literal_roundtrip (v : Val) (hv : v.isJson = true)
    (hparse : JsonText.parse (JsonPrint.compact v).toList = some v) :
    tokenize (literalSpell v) = .ok [(0, .literal v), (Lexer.utf8Len (literalSpell v), .eof)] :=
  literal_roundtrip_of_parse v hv hparse

/-- one-token expressions: what the parser and the interpreter do with them -/
theorem parse_single_quoted (p e : Nat) (k : String) :
    parseTokens [(p, .quotedIdentifier k), (e, .eof)] = .ok (.mk (.qfield k) [], .field p k) := by
  simp [parseTokens, Parser.expr, Parser.nud, Parser.loop, Parser.peekT, Tok.lbp]

theorem parse_single_literal (p e : Nat) (v : Val) :
    parseTokens [(p, .literal v), (e, .eof)] = .ok (.mk (.lit v) [], .literal p v) := by
  simp [parseTokens, Parser.expr, Parser.nud, Parser.loop, Parser.peekT, Tok.lbp]

/-- **a quoted identifier selects the member with exactly that name** -/
theorem C09_quoted_selects (rt : Registry) (k : String) (kvs : List (String × Val)) (fuel : Nat) :
    ∃ e a, parseExpr (quotedSpell k) = .ok (e, a) ∧
      search rt (fuel + 1) a (.obj kvs) = .ok ((Val.lookup k kvs).getD .null) := by
  refine ⟨.mk (.qfield k) [], .field 0 k, ?_, ?_⟩
  · simp only [parseExpr, C09_quoted_roundtrip k, parse_single_quoted]
  · simp [search, interp, Val.getField]

/-- **a raw string evaluates to the string it spells** (on any document) -/
theorem C09_raw_evaluates (rt : Registry) (s : List Char) (hs : rawSpellable s = true) (d : Val) (fuel : Nat) :
    ∃ e a, parseExpr (rawSpell s) = .ok (e, a) ∧ search rt (fuel + 1) a d = .ok (.str (String.ofList s)) := by
  refine ⟨.mk (.lit (.str (String.ofList s))) [], .literal 0 (.str (String.ofList s)), ?_, ?_⟩
  · simp only [parseExpr, C09_raw_roundtrip s hs, parse_single_literal]
  · simp [search, interp]

/-- **a JSON literal evaluates to its value** -/
theorem C09_literal_evaluates (rt : Registry) (v : Val) (hv : v.isJson = true)
    (hparse : JsonText.parse (JsonPrint.compact v).toList = some v) (d : Val) (fuel : Nat) :
    ∃ e a, parseExpr (literalSpell v) = .ok (e, a) ∧ search rt (fuel + 1) a d = .ok v := by
  refine ⟨.mk (.lit v) [], .literal 0 v, ?_, ?_⟩
  · simp only [parseExpr, C09_literal_roundtrip v hv hparse, parse_single_literal]
  · simp [search, interp]

/-! non-vacuity -/
example : rawSpellable "it's a\\\\".toList = true ∧ rawSpellable "a\\".toList = false := by decide

end JmesVerif

#print axioms JmesVerif.C09_raw_roundtrip
#print axioms JmesVerif.C09_raw_unspellable
#print axioms JmesVerif.C09_quoted_roundtrip
#print axioms JmesVerif.C09_literal_roundtrip
#print axioms JmesVerif.C09_quoted_selects
#print axioms JmesVerif.C09_raw_evaluates
#print axioms JmesVerif.C09_literal_evaluates
