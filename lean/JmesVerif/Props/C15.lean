import JmesVerif.Model.Registry
/-!
# C15 — calls follow the runtime registry; custom functions receive evaluated arguments

`Registry.run ops` is the runtime after any sequence of `register_function` /
`deregister_function` / `register_builtin_functions` calls on a fresh runtime.
`lastLive ops name` is the specification: the function of the most recent registration of `name`
that no later deregistration removed (`register_builtin_functions` counts as 26 registrations).
-/
namespace JmesVerif

/-- what one operation does to one name: `some (some f)` binds it, `some none` unbinds it,
`none` leaves it alone -/
def RegOp.effect (name : String) : RegOp → Option (Option Fn)
  | .register n f => if n = name then some (some f) else none
  | .deregister n => if n = name then some none else none
  | .registerBuiltins =>
    match Builtin.all.reverse.find? (fun p => p.1 = name) with
    | some p => some (some (.builtin p.2))
    | none => none

/-- the most recent operation that touches `name` decides -/
def lastLive (name : String) : List RegOp → Option Fn
  | [] => none
  | op :: earlier =>          -- list given most-recent-first
    match op.effect name with
    | some r => r
    | none => lastLive name earlier

theorem get_remove_ne (r : Registry) (n name : String) (h : n ≠ name) :
    (r.remove n).get name = r.get name := by
  induction r with
  | nil => rfl
  | cons p rest ih =>
    obtain ⟨k, f⟩ := p
    simp only [Registry.remove]
    by_cases hk : k = n
    · subst hk
      simp only [if_true, Registry.get, h, if_false]
      exact ih
    · simp only [hk, if_false, Registry.get]
      by_cases hkn : k = name
      · simp [hkn]
      · simp [hkn, ih]

theorem get_remove_eq (r : Registry) (name : String) : (r.remove name).get name = none := by
  induction r with
  | nil => rfl
  | cons p rest ih =>
    obtain ⟨k, f⟩ := p
    simp only [Registry.remove]
    by_cases hk : k = name
    · simp [hk, ih]
    · simp [hk, Registry.get, ih]

theorem get_insert (r : Registry) (n name : String) (f : Fn) :
    (r.insert n f).get name = if n = name then some f else r.get name := by
  unfold Registry.insert
  by_cases h : n = name
  · simp [Registry.get, h]
  · simp only [Registry.get, h, if_false]
    exact get_remove_ne r n name h

theorem get_remove (r : Registry) (n name : String) :
    (r.remove n).get name = if n = name then none else r.get name := by
  by_cases h : n = name
  · subst h; simp only [if_true]; exact get_remove_eq r n
  · simp only [h, if_false]; exact get_remove_ne r n name h

theorem get_foldl_insert (l : List (String × Builtin)) (r : Registry) (name : String) :
    (l.foldl (fun r p => r.insert p.1 (.builtin p.2)) r).get name =
      match l.reverse.find? (fun p => p.1 = name) with
      | some p => some (.builtin p.2)
      | none => r.get name := by
  induction l generalizing r with
  | nil => simp
  | cons p rest ih =>
    simp only [List.foldl, List.reverse_cons, List.find?_append]
    rw [ih]
    cases hfind : rest.reverse.find? (fun p => p.1 = name) with
    | some q => simp
    | none =>
      simp only [Option.none_or, List.find?_cons, List.find?_nil]
      rw [get_insert]
      by_cases h : p.1 = name <;> simp [h]

theorem get_step (r : Registry) (op : RegOp) (name : String) :
    (r.step op).get name = match op.effect name with
      | some x => x
      | none => r.get name := by
  cases op with
  | register n f =>
    simp only [Registry.step, RegOp.effect, get_insert]
    by_cases h : n = name <;> simp [h]
  | deregister n =>
    simp only [Registry.step, RegOp.effect, get_remove]
    by_cases h : n = name <;> simp [h]
  | registerBuiltins =>
    simp only [Registry.step, RegOp.effect, Registry.registerBuiltins, get_foldl_insert]
    cases Builtin.all.reverse.find? (fun p => p.1 = name) <;> simp

/-- the runtime after a most-recent-first list of operations -/
def runRev : List RegOp → Registry
  | [] => []
  | op :: earlier => (runRev earlier).step op

theorem runRev_get (rops : List RegOp) (name : String) : (runRev rops).get name = lastLive name rops := by
  induction rops with
  | nil => rfl
  | cons op earlier ih =>
    simp only [runRev, lastLive, get_step, ih]

theorem run_eq_runRev (ops : List RegOp) : Registry.run ops = runRev ops.reverse := by
  unfold Registry.run
  have : ∀ (l : List RegOp) (r : Registry), l.foldl Registry.step r = (l.reverse.foldr (fun op r => r.step op) r) := by
    intro l
    induction l with
    | nil => intro r; rfl
    | cons x xs ih => intro r; simp only [List.foldl, ih, List.reverse_cons, List.foldr_append, List.foldr]
  rw [this]
  generalize ops.reverse = l
  induction l with
  | nil => rfl
  | cons x xs ih => simp [List.foldr, runRev, ih]

/-- **The registry is "last registration wins".**  After any sequence of operations on a fresh
runtime, looking a name up yields exactly the function of the most recent registration of that
name still in force — and nothing for a name never registered or since deregistered. -/
theorem C15_lookup_is_last_live (ops : List RegOp) (name : String) :
    (Registry.run ops).get name = lastLive name ops.reverse := by
  rw [run_eq_runRev, runRev_get]

/-- a fresh runtime has no functions -/
theorem C15_fresh_runtime_empty (name : String) : (Registry.run []).get name = none := rfl

/-- **A call consults the registry of the runtime it was compiled from**: the arguments are
evaluated first (against the current node, in source order), then the name is looked up; an
unregistered name is the unknown-function error at the call's offset. -/
theorem C15_call_follows_registry (rt : Registry) (fuel : Nat) (d : Val) (o : Nat) (name : String)
    (args : List Ast) (off : Nat) :
    interp rt (fuel + 1) d (.function o name args) off =
      match interpAll rt fuel d args off with
      | .error e => .error e
      | .ok (vs, prev) =>
        match rt.get name with
        | some f =>
          (match callFn rt fuel f vs o with
           | .error e => .error e
           | .ok (v, _) => .ok (v, prev))
        | none => .error (.runtime (.unknownFunction name) o) := by
  rw [interp]
  cases interpAll rt fuel d args off with
  | error e => rfl
  | ok p =>
    obtain ⟨vs, prev⟩ := p
    simp only []
    cases rt.get name with
    | none => rfl
    | some f => simp only []; cases callFn rt fuel f vs o with
      | error e => rfl
      | ok q => rfl

/-- arguments are evaluated in source order against the *same* current node -/
theorem C15_args_in_order (rt : Registry) (fuel : Nat) (d : Val) (a : Ast) (rest : List Ast) (off : Nat) :
    interpAll rt (fuel + 1) d (a :: rest) off =
      match interp rt fuel d a off with
      | .error e => .error e
      | .ok (v, off) =>
        match interpAll rt fuel d rest off with
        | .error e => .error e
        | .ok (vs, off) => .ok (v :: vs, off) := by
  rw [interpAll]
  cases interp rt fuel d a off with
  | error e => rfl
  | ok p =>
    obtain ⟨v, off'⟩ := p
    simp only []
    cases interpAll rt fuel d rest off' with
    | error e => rfl
    | ok q => rfl

/-- expression references are passed unevaluated -/
theorem C15_expref_unevaluated (rt : Registry) (fuel : Nat) (d : Val) (o : Nat) (a : Ast) (off : Nat) :
    interp rt (fuel + 1) d (.expref o a) off = .ok (.expref a, off) := by
  simp [interp]

/-- a custom function declared with a signature is only invoked when the arguments satisfy it;
it then receives exactly the evaluated arguments -/
theorem C15_custom_signature_guards (rt : Registry) (fuel : Nat) (id : Nat) (s : Sig) (args : List Val) (off : Nat) :
    callFn rt (fuel + 1) (.custom id (some s)) args off =
      match s.validate args off with
      | .error e => .error e
      | .ok () => .ok (customResult id args, off) := by
  simp only [callFn]
  cases s.validate args off <;> rfl

theorem C15_custom_closure (rt : Registry) (fuel : Nat) (id : Nat) (args : List Val) (off : Nat) :
    callFn rt (fuel + 1) (.custom id none) args off = .ok (customResult id args, off) := by
  simp [callFn]

/-! non-vacuity: shadowing a builtin, then deregistering -/
example : lastLive "abs" [RegOp.register "abs" (.custom 1 none), .registerBuiltins] = some (.custom 1 none) := by
  simp [lastLive, RegOp.effect]
example : lastLive "abs" [RegOp.deregister "abs", .register "abs" (.custom 1 none), .registerBuiltins] = none := by
  simp [lastLive, RegOp.effect]

end JmesVerif

#print axioms JmesVerif.C15_lookup_is_last_live
#print axioms JmesVerif.C15_fresh_runtime_empty
#print axioms JmesVerif.C15_call_follows_registry
#print axioms JmesVerif.C15_args_in_order
#print axioms JmesVerif.C15_expref_unevaluated
#print axioms JmesVerif.C15_custom_signature_guards
#print axioms JmesVerif.C15_custom_closure
