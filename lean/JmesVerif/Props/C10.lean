import JmesVerif.Lemmas.Compare
import JmesVerif.Lemmas.CodeEquiv
import JmesVerif.Lemmas.ValidEquiv
/-!
# C10 — equality and ordering operators obey their algebraic contract

Model: `Model/Compare.lean` (`float_eq`, `impl PartialEq`, `impl Ord`, `Variable::compare`).
Numbers are compared through their double image (`Number::as_f64`), `==` with the tolerant
`float_eq`, `< <= > >=` exactly.  "Well separated" (`WellSeparated`) means the tolerant equality
coincides with exact equality of the two doubles; the trichotomy and `≤ ↔ < ∨ ==` laws are stated
for such pairs, as the property does.
-/
namespace JmesVerif

/-! ### well-formed values: every stored double is finite (what `serde_json::Number` guarantees) -/
def Num.WF : Num → Prop
  | .flt f => f.isFinite = true
  | _ => True

mutual
def Val.WF : Val → Prop
  | .num n => n.WF
  | .arr xs => valsWF xs
  | .obj kvs => kvsWF kvs
  | .expref a => a.WF
  | _ => True
def valsWF : List Val → Prop
  | [] => True
  | v :: vs => v.WF ∧ valsWF vs
def kvsWF : List (String × Val) → Prop
  | [] => True
  | (_, v) :: r => v.WF ∧ kvsWF r
def Ast.WF : Ast → Prop
  | .comparison _ _ l r | .condition _ l r | .projection _ l r | .and _ l r | .or _ l r
  | .subexpr _ l r => l.WF ∧ r.WF
  | .expref _ a | .flatten _ a | .not _ a | .objectValues _ a => a.WF
  | .function _ _ as | .multiList _ as => astsWF as
  | .multiHash _ kvs => kasWF kvs
  | .literal _ v => v.WF
  | _ => True
def astsWF : List Ast → Prop
  | [] => True
  | a :: as => a.WF ∧ astsWF as
def kasWF : List (String × Ast) → Prop
  | [] => True
  | (_, a) :: r => a.WF ∧ kasWF r
end

theorem ofRat_ne_nan (q : Rat) : F64.ofRat q ≠ .nan := by
  unfold F64.ofRat
  simp only []
  split <;> simp

theorem Num.toF64_ne_nan (n : Num) (h : n.WF) : n.toF64 ≠ .nan := by
  cases n with
  | pos n => exact ofRat_ne_nan _
  | neg i => exact ofRat_ne_nan _
  | flt f => cases f <;> simp_all [Num.WF, Num.toF64, F64.isFinite]

/-! ### `==` is reflexive and symmetric; `!=` is its negation -/

mutual
theorem Val.beq_comm : ∀ a b : Val, Val.beq a b = Val.beq b a
  | .null, b => by cases b <;> simp [Val.beq]
  | .bool x, b => by cases b <;> simp [Val.beq, Bool.beq_comm]
  | .num x, b => by cases b <;> simp [Val.beq, floatEq_comm]
  | .str x, b => by cases b <;> simp [Val.beq, BEq.comm]
  | .arr xs, b => by cases b <;> simp [Val.beq, valsBeq_comm xs]
  | .obj xs, b => by cases b <;> simp [Val.beq, kvsBeq_comm xs]
  | .expref x, b => by cases b <;> simp [Val.beq, Ast.beq_comm x]
theorem valsBeq_comm : ∀ a b : List Val, valsBeq a b = valsBeq b a
  | [], b => by cases b <;> simp [valsBeq]
  | x :: xs, b => by
    cases b with
    | nil => simp [valsBeq]
    | cons y ys => simp [valsBeq, Val.beq_comm x y, valsBeq_comm xs ys]
theorem kvsBeq_comm : ∀ a b : List (String × Val), kvsBeq a b = kvsBeq b a
  | [], b => by cases b <;> simp [kvsBeq]
  | (k, x) :: xs, b => by
    cases b with
    | nil => simp [kvsBeq]
    | cons y ys =>
      obtain ⟨k', y⟩ := y
      simp [kvsBeq, Val.beq_comm x y, kvsBeq_comm xs ys, BEq.comm (a := k)]
theorem Ast.beq_comm : ∀ a b : Ast, Ast.beq a b = Ast.beq b a
  | .comparison o c l r, b => by
    cases b <;> simp [Ast.beq, Ast.beq_comm l, Ast.beq_comm r, BEq.comm (a := o), eq_comm (a := c)]
  | .condition o l r, b => by cases b <;> simp [Ast.beq, Ast.beq_comm l, Ast.beq_comm r, BEq.comm (a := o)]
  | .identity o, b => by cases b <;> simp [Ast.beq, BEq.comm (a := o)]
  | .expref o a, b => by cases b <;> simp [Ast.beq, Ast.beq_comm a, BEq.comm (a := o)]
  | .flatten o a, b => by cases b <;> simp [Ast.beq, Ast.beq_comm a, BEq.comm (a := o)]
  | .function o n as, b => by
    cases b <;> simp [Ast.beq, astsBeq_comm as, BEq.comm (a := o), BEq.comm (a := n)]
  | .field o n, b => by cases b <;> simp [Ast.beq, BEq.comm (a := o), BEq.comm (a := n)]
  | .index o i, b => by cases b <;> simp [Ast.beq, BEq.comm (a := o), BEq.comm (a := i)]
  | .literal o v, b => by cases b <;> simp [Ast.beq, Val.beq_comm v, BEq.comm (a := o)]
  | .multiList o as, b => by cases b <;> simp [Ast.beq, astsBeq_comm as, BEq.comm (a := o)]
  | .multiHash o kvs, b => by cases b <;> simp [Ast.beq, kasBeq_comm kvs, BEq.comm (a := o)]
  | .not o a, b => by cases b <;> simp [Ast.beq, Ast.beq_comm a, BEq.comm (a := o)]
  | .projection o l r, b => by cases b <;> simp [Ast.beq, Ast.beq_comm l, Ast.beq_comm r, BEq.comm (a := o)]
  | .objectValues o a, b => by cases b <;> simp [Ast.beq, Ast.beq_comm a, BEq.comm (a := o)]
  | .and o l r, b => by cases b <;> simp [Ast.beq, Ast.beq_comm l, Ast.beq_comm r, BEq.comm (a := o)]
  | .or o l r, b => by cases b <;> simp [Ast.beq, Ast.beq_comm l, Ast.beq_comm r, BEq.comm (a := o)]
  | .slice o x y z, b => by
    cases b <;> simp [Ast.beq, BEq.comm (a := o), BEq.comm (a := x), BEq.comm (a := y), BEq.comm (a := z)]
  | .subexpr o l r, b => by cases b <;> simp [Ast.beq, Ast.beq_comm l, Ast.beq_comm r, BEq.comm (a := o)]
theorem astsBeq_comm : ∀ a b : List Ast, astsBeq a b = astsBeq b a
  | [], b => by cases b <;> simp [astsBeq]
  | x :: xs, b => by
    cases b with
    | nil => simp [astsBeq]
    | cons y ys => simp [astsBeq, Ast.beq_comm x y, astsBeq_comm xs ys]
theorem kasBeq_comm : ∀ a b : List (String × Ast), kasBeq a b = kasBeq b a
  | [], b => by cases b <;> simp [kasBeq]
  | (k, x) :: xs, b => by
    cases b with
    | nil => simp [kasBeq]
    | cons y ys =>
      obtain ⟨k', y⟩ := y
      simp [kasBeq, Ast.beq_comm x y, kasBeq_comm xs ys, BEq.comm (a := k)]
end

mutual
theorem Val.beq_refl : ∀ a : Val, a.WF → Val.beq a a = true
  | .null, _ => by simp [Val.beq]
  | .bool x, _ => by simp [Val.beq]
  | .num x, h => by simp [Val.beq, floatEq_self _ (Num.toF64_ne_nan x h)]
  | .str x, _ => by simp [Val.beq]
  | .arr xs, h => by simp [Val.beq, valsBeq_refl xs h]
  | .obj xs, h => by simp [Val.beq, kvsBeq_refl xs h]
  | .expref x, h => by simp [Val.beq, Ast.beq_refl x h]
theorem valsBeq_refl : ∀ a : List Val, valsWF a → valsBeq a a = true
  | [], _ => by simp [valsBeq]
  | x :: xs, h => by simp [valsBeq, Val.beq_refl x h.1, valsBeq_refl xs h.2]
theorem kvsBeq_refl : ∀ a : List (String × Val), kvsWF a → kvsBeq a a = true
  | [], _ => by simp [kvsBeq]
  | (k, x) :: xs, h => by simp [kvsBeq, Val.beq_refl x h.1, kvsBeq_refl xs h.2]
theorem Ast.beq_refl : ∀ a : Ast, a.WF → Ast.beq a a = true
  | .comparison o c l r, h => by simp [Ast.beq, Ast.beq_refl l h.1, Ast.beq_refl r h.2]
  | .condition o l r, h => by simp [Ast.beq, Ast.beq_refl l h.1, Ast.beq_refl r h.2]
  | .identity o, _ => by simp [Ast.beq]
  | .expref o a, h => by simp [Ast.beq, Ast.beq_refl a h]
  | .flatten o a, h => by simp [Ast.beq, Ast.beq_refl a h]
  | .function o n as, h => by simp [Ast.beq, astsBeq_refl as h]
  | .field o n, _ => by simp [Ast.beq]
  | .index o i, _ => by simp [Ast.beq]
  | .literal o v, h => by simp [Ast.beq, Val.beq_refl v h]
  | .multiList o as, h => by simp [Ast.beq, astsBeq_refl as h]
  | .multiHash o kvs, h => by simp [Ast.beq, kasBeq_refl kvs h]
  | .not o a, h => by simp [Ast.beq, Ast.beq_refl a h]
  | .projection o l r, h => by simp [Ast.beq, Ast.beq_refl l h.1, Ast.beq_refl r h.2]
  | .objectValues o a, h => by simp [Ast.beq, Ast.beq_refl a h]
  | .and o l r, h => by simp [Ast.beq, Ast.beq_refl l h.1, Ast.beq_refl r h.2]
  | .or o l r, h => by simp [Ast.beq, Ast.beq_refl l h.1, Ast.beq_refl r h.2]
  | .slice o x y z, _ => by simp [Ast.beq]
  | .subexpr o l r, h => by simp [Ast.beq, Ast.beq_refl l h.1, Ast.beq_refl r h.2]
theorem astsBeq_refl : ∀ a : List Ast, astsWF a → astsBeq a a = true
  | [], _ => by simp [astsBeq]
  | x :: xs, h => by simp [astsBeq, Ast.beq_refl x h.1, astsBeq_refl xs h.2]
theorem kasBeq_refl : ∀ a : List (String × Ast), kasWF a → kasBeq a a = true
  | [], _ => by simp [kasBeq]
  | (k, x) :: xs, h => by simp [kasBeq, Ast.beq_refl x h.1, kasBeq_refl xs h.2]
end

/-- **`==` is symmetric** (all values, incl. nested containers and mixed number spellings). -/
theorem C10_eq_symm (a b : Val) : Val.compare .eq a b = Val.compare .eq b a := by
  simp [Val.compare, Val.beq_comm a b]

/-- **`==` is reflexive.** -/
theorem C10_eq_refl (a : Val) (h : a.WF) : Val.compare .eq a a = some true := by
  simp [Val.compare, Val.beq_refl a h]

/-- **`!=` is always the negation of `==`.** -/
theorem C10_ne_is_not_eq (a b : Val) :
    Val.compare .ne a b = (Val.compare .eq a b).map (fun r => !r) := by
  simp [Val.compare]

/-- **values of different types are never equal** -/
theorem C10_types_differ_ne (a b : Val) (h : a.type ≠ b.type) : Val.compare .eq a b = some false := by
  cases a <;> cases b <;> simp_all [Val.compare, Val.beq, Val.type]

/-- **ordering operators yield a boolean exactly when both operands are numbers, else null** -/
theorem C10_ord_defined_iff_numbers (c : Cmp) (hc : c ≠ .eq ∧ c ≠ .ne) (a b : Val) :
    (Val.compare c a b).isSome = (a.type == .number && b.type == .number) := by
  obtain ⟨h1, h2⟩ := hc
  cases c <;> simp_all <;> cases a <;> cases b <;> simp [Val.compare, Val.type]

/-! ### deep structural equality -/

/-- the specification's equality: same type; numbers by (tolerant) numeric value; arrays
element-wise in order; objects by key set and member values -/
inductive DeepEq : Val → Val → Prop
  | null : DeepEq .null .null
  | bool (b : Bool) : DeepEq (.bool b) (.bool b)
  | num (x y : Num) : floatEq x.toF64 y.toF64 = true → DeepEq (.num x) (.num y)
  | str (s : String) : DeepEq (.str s) (.str s)
  | arrNil : DeepEq (.arr []) (.arr [])
  | arrCons (x y : Val) (xs ys : List Val) :
      DeepEq x y → DeepEq (.arr xs) (.arr ys) → DeepEq (.arr (x :: xs)) (.arr (y :: ys))
  | objNil : DeepEq (.obj []) (.obj [])
  | objCons (k : String) (x y : Val) (xs ys : List (String × Val)) :
      DeepEq x y → DeepEq (.obj xs) (.obj ys) → DeepEq (.obj ((k, x) :: xs)) (.obj ((k, y) :: ys))

mutual
theorem beq_imp_deepEq : ∀ a b : Val, a.isJson = true → Val.beq a b = true → DeepEq a b
  | .null, b, _, h => by cases b <;> simp_all [Val.beq]; exact .null
  | .bool x, b, _, h => by
    cases b <;> simp_all [Val.beq]
    subst h; exact .bool _
  | .num x, b, _, h => by
    cases b <;> simp_all [Val.beq]
    exact .num _ _ h
  | .str x, b, _, h => by
    cases b <;> simp_all [Val.beq]
    exact .str _
  | .arr xs, b, hj, h => by
    cases b <;> simp_all [Val.beq]
    exact vals_imp xs _ (by simpa [Val.isJson] using hj) h
  | .obj xs, b, hj, h => by
    cases b <;> simp_all [Val.beq]
    exact kvs_imp xs _ (by simpa [Val.isJson] using hj) h
  | .expref x, b, hj, _ => by simp [Val.isJson] at hj
theorem vals_imp : ∀ a b : List Val, valsJson a = true → valsBeq a b = true → DeepEq (.arr a) (.arr b)
  | [], b, _, h => by cases b <;> simp_all [valsBeq]; exact .arrNil
  | x :: xs, b, hj, h => by
    cases b with
    | nil => simp [valsBeq] at h
    | cons y ys =>
      simp [valsBeq] at h
      simp [valsJson] at hj
      exact .arrCons _ _ _ _ (beq_imp_deepEq x y hj.1 h.1) (vals_imp xs ys hj.2 h.2)
theorem kvs_imp : ∀ a b : List (String × Val), kvsJson a = true → kvsBeq a b = true → DeepEq (.obj a) (.obj b)
  | [], b, _, h => by cases b <;> simp_all [kvsBeq]; exact .objNil
  | (k, x) :: xs, b, hj, h => by
    cases b with
    | nil => simp [kvsBeq] at h
    | cons y ys =>
      obtain ⟨k', y⟩ := y
      simp [kvsBeq] at h
      simp [kvsJson] at hj
      obtain ⟨⟨hk, hx⟩, hr⟩ := h
      subst hk
      exact .objCons _ _ _ _ _ (beq_imp_deepEq x y hj.1 hx) (kvs_imp xs ys hj.2 hr)
end

theorem deepEq_imp_beq {a b : Val} (h : DeepEq a b) : Val.beq a b = true := by
  induction h with
  | null => simp [Val.beq]
  | bool b => simp [Val.beq]
  | num x y h => simp [Val.beq, h]
  | str s => simp [Val.beq]
  | arrNil => simp [Val.beq, valsBeq]
  | arrCons x y xs ys _ _ ih1 ih2 => simp [Val.beq, valsBeq] at ih2 ⊢; exact ⟨ih1, ih2⟩
  | objNil => simp [Val.beq, kvsBeq]
  | objCons k x y xs ys _ _ ih1 ih2 => simp [Val.beq, kvsBeq] at ih2 ⊢; exact ⟨ih1, ih2⟩

/-- **`==` is deep structural equality on JSON values** -/
theorem C10_eq_iff_deepEq (a b : Val) (ha : a.isJson = true) :
    Val.compare .eq a b = some true ↔ DeepEq a b := by
  simp only [Val.compare]
  constructor
  · intro h
    simp at h
    exact beq_imp_deepEq a b ha h
  · intro h
    simp [deepEq_imp_beq h]

/-! ### ordering is the numeric order of the double images -/

/-- two finite doubles -/
def BothFinite (x y : Num) : Prop := x.toF64.isFinite = true ∧ y.toF64.isFinite = true

theorem flt_fin (a b : F64) (ha : a.isFinite = true) (hb : b.isFinite = true) :
    F64.flt a b = decide (a.toRat < b.toRat) := by
  cases a <;> cases b <;> simp_all [F64.flt, F64.isFinite]

theorem feq_fin (a b : F64) (ha : a.isFinite = true) (hb : b.isFinite = true) :
    F64.feq a b = decide (a.toRat = b.toRat) := by
  cases a <;> cases b <;> simp_all [F64.feq, F64.isFinite]

theorem cmp_num (x y : Num) (h : BothFinite x y) :
    Val.cmp (.num x) (.num y) =
      if x.toF64.toRat < y.toF64.toRat then .lt else if y.toF64.toRat < x.toF64.toRat then .gt else .eq := by
  obtain ⟨hx, hy⟩ := h
  simp only [Val.cmp, flt_fin _ _ hx hy, flt_fin _ _ hy hx, feq_fin _ _ hx hy]
  by_cases h1 : x.toF64.toRat < y.toF64.toRat
  · simp [h1]
  · by_cases h2 : y.toF64.toRat < x.toF64.toRat
    · simp [h1, h2]
    · have : x.toF64.toRat = y.toF64.toRat := by grind
      simp [h1, h2, this]

/-- **`< <= > >=` agree with the numeric order** of the operands' values -/
theorem C10_order_consistent (x y : Num) (h : BothFinite x y) :
    Val.compare .lt (.num x) (.num y) = some (decide (x.toF64.toRat < y.toF64.toRat)) ∧
    Val.compare .le (.num x) (.num y) = some (decide (x.toF64.toRat ≤ y.toF64.toRat)) ∧
    Val.compare .gt (.num x) (.num y) = some (decide (y.toF64.toRat < x.toF64.toRat)) ∧
    Val.compare .ge (.num x) (.num y) = some (decide (y.toF64.toRat ≤ x.toF64.toRat)) := by
  simp only [Val.compare, cmp_num x y h]
  by_cases h1 : x.toF64.toRat < y.toF64.toRat
  · have : ¬ y.toF64.toRat < x.toF64.toRat := by grind
    have : x.toF64.toRat ≤ y.toF64.toRat := by grind
    have : ¬ y.toF64.toRat ≤ x.toF64.toRat := by grind
    simp_all
  · by_cases h2 : y.toF64.toRat < x.toF64.toRat
    · have : ¬ x.toF64.toRat ≤ y.toF64.toRat := by grind
      have : y.toF64.toRat ≤ x.toF64.toRat := by grind
      simp_all
    · have h3 : x.toF64.toRat = y.toF64.toRat := by grind
      have : x.toF64.toRat ≤ y.toF64.toRat := by grind
      have : y.toF64.toRat ≤ x.toF64.toRat := by grind
      simp_all

/-- the tolerant equality of the pair coincides with exact equality of the two doubles -/
def WellSeparated (x y : Num) : Prop :=
  floatEq x.toF64 y.toF64 = decide (x.toF64.toRat = y.toF64.toRat)

/-- **trichotomy**: for well-separated numbers exactly one of `a<b`, `a==b`, `a>b` holds -/
theorem C10_trichotomy (x y : Num) (h : BothFinite x y) (hw : WellSeparated x y) :
    ∃ l e g : Bool,
      Val.compare .lt (.num x) (.num y) = some l ∧ Val.compare .eq (.num x) (.num y) = some e ∧
      Val.compare .gt (.num x) (.num y) = some g ∧
      ((l = true ∧ e = false ∧ g = false) ∨ (l = false ∧ e = true ∧ g = false) ∨
       (l = false ∧ e = false ∧ g = true)) := by
  obtain ⟨hlt, _, hgt, _⟩ := C10_order_consistent x y h
  refine ⟨_, floatEq x.toF64 y.toF64, _, hlt, by simp [Val.compare, Val.beq], hgt, ?_⟩
  unfold WellSeparated at hw
  rw [hw]
  by_cases h1 : x.toF64.toRat < y.toF64.toRat
  · have : ¬ y.toF64.toRat < x.toF64.toRat := by grind
    have : ¬ x.toF64.toRat = y.toF64.toRat := by grind
    simp_all
  · by_cases h2 : y.toF64.toRat < x.toF64.toRat
    · have : ¬ x.toF64.toRat = y.toF64.toRat := by grind
      simp_all
    · have h3 : x.toF64.toRat = y.toF64.toRat := by grind
      simp_all

/-- **`a <= b` iff `a < b` or `a == b`** (well-separated numbers) -/
theorem C10_le_iff_lt_or_eq (x y : Num) (h : BothFinite x y) (hw : WellSeparated x y) :
    ∃ l e : Bool, Val.compare .lt (.num x) (.num y) = some l ∧ Val.compare .eq (.num x) (.num y) = some e ∧
      Val.compare .le (.num x) (.num y) = some (l || e) := by
  obtain ⟨hlt, hle, _, _⟩ := C10_order_consistent x y h
  refine ⟨_, floatEq x.toF64 y.toF64, hlt, by simp [Val.compare, Val.beq], ?_⟩
  unfold WellSeparated at hw
  rw [hle, hw]
  congr 1
  by_cases h1 : x.toF64.toRat < y.toF64.toRat
  · have : x.toF64.toRat ≤ y.toF64.toRat := by grind
    simp_all
  · by_cases h3 : x.toF64.toRat = y.toF64.toRat
    · simp_all
    · have : ¬ x.toF64.toRat ≤ y.toF64.toRat := by grind
      simp_all

/-! ### non-vacuity -/
example : Val.compare .lt (.num (.pos 1)) (.str "a") = none := by rfl
example : Val.compare .eq (.arr [.str "a"]) (.arr [.str "a", .null]) = some false := by
  simp [Val.compare, Val.beq, valsBeq]
example : (Val.arr [.str "a", .obj [("k", .null)]]).WF ∧ (Val.arr [.str "a"]).isJson = true := by
  simp [Val.WF, valsWF, kvsWF, Val.isJson, valsJson]
example : BothFinite (.flt (.fin false 4503599627370496 (-52))) (.flt (.fin false 4503599627370496 (-51))) := by
  simp [BothFinite, Num.toF64, F64.isFinite]


/-! ### the operator gate of `Variable::compare` as re-translated from variable.rs on every run

which comparators require two numbers, and which Rust operator each comparator applies, are read off the source;
the translated gate composed with the value-level relation is the model's `Val.compare`. -/
open Generated.Code in
theorem C10_translated_compare_gate (c : Cmp) (a b : Val) :
    Val.compare c a b = (Generated.Code.compare (cmpOf c) (isNum a) (isNum b)).map (relEval a b) :=
  gen_compare_gate_eq c a b


/-! ### `float_eq`, `PartialEq` and `Ord` for `Variable` as re-translated from variable.rs on every run

the tolerant number equality, the type-gated deep equality and the internal total order are read off the source (`Generated/ValidCode.lean`)
and equal the model's `floatEq`, `Val.beq` and `Val.cmp` that the theorems above are about. -/
open Generated.ValidCode in
theorem C10_translated_equality :
    (∀ a b : F64, float_eq a b = floatEq a b) ∧ (∀ a b : Val, variable_eq a b = Val.beq a b) ∧ (∀ a b : Val, variable_cmp a b = Val.cmp a b) :=
  ⟨gen_float_eq_eq, gen_eq_eq, gen_cmp_eq⟩

end JmesVerif

#print axioms JmesVerif.C10_eq_symm
#print axioms JmesVerif.C10_eq_refl
#print axioms JmesVerif.C10_ne_is_not_eq
#print axioms JmesVerif.C10_types_differ_ne
#print axioms JmesVerif.C10_ord_defined_iff_numbers
#print axioms JmesVerif.C10_eq_iff_deepEq
#print axioms JmesVerif.C10_order_consistent
#print axioms JmesVerif.C10_trichotomy
#print axioms JmesVerif.C10_le_iff_lt_or_eq
#print axioms JmesVerif.C10_translated_compare_gate
#print axioms JmesVerif.C10_translated_equality
