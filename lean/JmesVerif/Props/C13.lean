import JmesVerif.Model.Registry
/-!
# C13 — compile and search are pure: deterministic, history-independent, non-mutating

`histRun` threads exactly the state the code has across a history of compile / clone / drop /
search calls on numbered handles: each handle holds a compiled tree and its source text; every
search builds a fresh `Context` (offset 0); documents are shared immutable inputs.
`statelessRun` is the specification: it remembers only *which source text* each handle denotes
and answers every search by compiling that text afresh and searching.  `C13_history_independent`:
the two agree on every history — so no result depends on what happened before.
(In an immutable model much of this holds by construction; its force comes from the `history`
correspondence stream, which runs the same histories against the real code.)
-/
namespace JmesVerif

abbrev Texts := List (Nat × List Char)

def Texts.get (t : Texts) (k : Nat) : Option (List Char) := aGet t k
def Texts.set (t : Texts) (k : Nat) (x : Option (List Char)) : Texts := aSet t k x

/-- the answer a single, isolated compile-and-search gives -/
def singleShot (fuel : Nat) (text : List Char) (doc : Val) : HistOut :=
  match parseExpr text with
  | .ok (_, a) => .searched (search Registry.default fuel a doc)
  | .error _ => .empty

def statelessStep (fuel : Nat) (docs : List Val) (t : Texts) : HistOp → Texts × HistOut
  | .compile k text =>
    match parseExpr text with
    | .ok (_, a) => (t.set k (some text), .compiled a)
    | .error e => (t.set k none, .compileErr e)
  | .clone k j =>
    match t.get j with
    | some x => (t.set k (some x), .cloned)
    | none => (t.set k none, .empty)
  | .drop k => (t.set k none, .dropped)
  | .search k j =>
    match t.get k with
    | none => (t, .empty)
    | some text => (t, singleShot fuel text (docs.getD j .null))

def statelessRun (fuel : Nat) (docs : List Val) : Texts → List HistOp → List HistOut
  | _, [] => []
  | t, op :: ops =>
    let (t', out) := statelessStep fuel docs t op
    out :: statelessRun fuel docs t' ops

/-- the handle table holds, for every handle, the tree its text compiles to -/
def Agree (s : Slots) (t : Texts) : Prop :=
  ∀ k, match s.get k, t.get k with
    | some c, some x => c.text = x ∧ ∃ e, parseExpr x = .ok (e, c.ast)
    | none, none => True
    | _, _ => False

theorem aGet_aRemove_ne {β : Type} (s : List (Nat × β)) (k j : Nat) (h : k ≠ j) :
    aGet (aRemove s k) j = aGet s j := by
  induction s with
  | nil => rfl
  | cons p rest ih =>
    obtain ⟨k', c⟩ := p
    simp only [aRemove]
    by_cases hk : k' = k
    · subst hk; simp only [if_true, aGet, h, if_false]; exact ih
    · simp only [hk, if_false, aGet]
      by_cases hj : k' = j
      · simp [hj]
      · simp [hj, ih]

theorem aGet_aRemove_eq {β : Type} (s : List (Nat × β)) (k : Nat) : aGet (aRemove s k) k = none := by
  induction s with
  | nil => rfl
  | cons p rest ih =>
    obtain ⟨k', c⟩ := p
    simp only [aRemove]
    by_cases hk : k' = k
    · simp [hk, ih]
    · simp [hk, aGet, ih]

theorem aGet_aSet {β : Type} (s : List (Nat × β)) (k j : Nat) (c : Option β) :
    aGet (aSet s k c) j = if k = j then c else aGet s j := by
  cases c with
  | none =>
    by_cases h : k = j
    · subst h; simp [aSet, aGet_aRemove_eq]
    · simp [aSet, h, aGet_aRemove_ne s k j h]
  | some c =>
    by_cases h : k = j
    · subst h; simp [aSet, aGet]
    · simp [aSet, aGet, h, aGet_aRemove_ne s k j h]

theorem slots_get_set (s : Slots) (k j : Nat) (c : Option Compiled) :
    (s.set k c).get j = if k = j then c else s.get j := aGet_aSet s k j c

theorem texts_get_set (s : Texts) (k j : Nat) (c : Option (List Char)) :
    (s.set k c).get j = if k = j then c else s.get j := aGet_aSet s k j c

theorem agree_set (s : Slots) (t : Texts) (h : Agree s t) (k : Nat) (c : Option Compiled) (x : Option (List Char))
    (hcx : match c, x with
      | some c, some x => c.text = x ∧ ∃ e, parseExpr x = .ok (e, c.ast)
      | none, none => True
      | _, _ => False) : Agree (s.set k c) (t.set k x) := by
  intro j
  rw [slots_get_set, texts_get_set]
  by_cases hk : k = j
  · simp only [hk, if_true]; exact hcx
  · simp only [hk, if_false]; exact h j

theorem step_agree (fuel : Nat) (docs : List Val) (s : Slots) (t : Texts) (h : Agree s t) (op : HistOp) :
    (histStep fuel docs s op).2 = (statelessStep fuel docs t op).2 ∧
    Agree (histStep fuel docs s op).1 (statelessStep fuel docs t op).1 := by
  cases op with
  | compile k text =>
    simp only [histStep, statelessStep]
    cases hp : parseExpr text with
    | error e => exact ⟨rfl, agree_set s t h k none none trivial⟩
    | ok r =>
      obtain ⟨e, a⟩ := r
      exact ⟨rfl, agree_set s t h k (some ⟨a, text⟩) (some text) ⟨rfl, e, hp⟩⟩
  | clone k j =>
    simp only [histStep, statelessStep]
    have hj := h j
    cases hs : s.get j with
    | none =>
      cases ht : t.get j with
      | none => exact ⟨rfl, agree_set s t h k none none trivial⟩
      | some x => simp [hs, ht] at hj
    | some c =>
      cases ht : t.get j with
      | none => simp [hs, ht] at hj
      | some x =>
        simp only [hs, ht] at hj
        exact ⟨rfl, agree_set s t h k (some c) (some x) hj⟩
  | drop k =>
    simp only [histStep, statelessStep]
    exact ⟨by first | rfl | trivial, agree_set s t h k none none trivial⟩
  | search k j =>
    simp only [histStep, statelessStep]
    have hk := h k
    cases hs : s.get k with
    | none =>
      cases ht : t.get k with
      | none => exact ⟨rfl, h⟩
      | some x => simp [hs, ht] at hk
    | some c =>
      cases ht : t.get k with
      | none => simp [hs, ht] at hk
      | some x =>
        simp only [hs, ht] at hk
        obtain ⟨_, e, hp⟩ := hk
        refine ⟨?_, h⟩
        simp [singleShot, hp]

/-- **History independence.**  For every history of compile / clone / drop / search calls over any
handles, expressions and documents — including failing compiles and failing searches — every
output equals what a fresh, isolated compile-and-search of the same text gives. -/
theorem C13_history_independent (fuel : Nat) (docs : List Val) (ops : List HistOp) :
    ∀ (s : Slots) (t : Texts), Agree s t → histRun fuel docs s ops = statelessRun fuel docs t ops := by
  induction ops with
  | nil => intro s t _; rfl
  | cons op rest ih =>
    intro s t h
    obtain ⟨h1, h2⟩ := step_agree fuel docs s t h op
    simp only [histRun, statelessRun]
    rw [h1, ih _ _ h2]

theorem C13_from_empty (fuel : Nat) (docs : List Val) (ops : List HistOp) :
    histRun fuel docs [] ops = statelessRun fuel docs [] ops :=
  C13_history_independent fuel docs ops [] [] (fun _ => by simp [Slots.get, Texts.get, aGet])

/-- compile is a function of the text (same string, same tree), and a search of a compiled
expression is a function of (tree, document): the model has no other state -/
theorem C13_compile_deterministic (t : List Char) : ∀ r₁ r₂, parseExpr t = r₁ → parseExpr t = r₂ → r₁ = r₂ := by
  intro r₁ r₂ h₁ h₂; rw [← h₁, ← h₂]

end JmesVerif

#print axioms JmesVerif.C13_history_independent
#print axioms JmesVerif.C13_from_empty
