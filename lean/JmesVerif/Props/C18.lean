import JmesVerif.Model.Cli
import JmesVerif.Generated.CliArgs
/-!
# C18 — the jp command-line tool reports exactly what the library computes

Model: `Model/Cli.lean` — `jp`'s decision logic over abstract read outcomes, with the library's
own `compile`, `Variable::from_json`, `search` and serde_json's pretty printer plugged in.
**Partial by nature**: process exit, pipes, the file system and clap's argument grammar are
observed by the `cli` stream (the real binary built from `jmespath-cli/src/main.rs`), not modelled.
-/
namespace JmesVerif
open Cli

/-- the successful path: an expression text is selected and compiles, the input is readable and
valid JSON, and the search returns `v` -/
def Succeeds (fuel : Nat) (a : Args) (stdin : ReadRes) (v : Val) : Prop :=
  ∃ t e tree jt doc, selectExpr a = some t ∧ parseExpr t = .ok (e, tree) ∧ inputOf a stdin = .ok jt ∧
    JsonText.parse jt = some doc ∧ search Registry.default fuel tree doc = .ok v

/-- **exit 0 with the pretty-printed result and a newline when compilation, JSON parsing and search
all succeed** (without `--ast`) -/
theorem C18_success (fuel : Nat) (a : Args) (stdin : ReadRes) (hast : a.ast = false) (v : Val)
    (h : Succeeds fuel a stdin v) :
    run fuel a stdin = ⟨0, showResult v a.unquoted, false, true⟩ := by
  obtain ⟨t, e, tree, jt, doc, hsel, hp, hin, hj, hs⟩ := h
  simp [run, hsel, hp, hast, evalStage, hin, hj, hs]

theorem evalStage_shape (fuel : Nat) (tree : Ast) (a : Args) (stdin : ReadRes) :
    (evalStage fuel tree a stdin = dieAfterInput) ∨
    (∃ jt doc v, inputOf a stdin = .ok jt ∧ JsonText.parse jt = some doc ∧
      search Registry.default fuel tree doc = .ok v ∧
      evalStage fuel tree a stdin = ⟨0, showResult v a.unquoted, false, true⟩) := by
  unfold evalStage
  cases hin : inputOf a stdin with
  | fail => exact Or.inl (by simp)
  | ok jt =>
    cases hj : JsonText.parse jt with
    | none => exact Or.inl (by simp [hj])
    | some doc =>
      cases hs : search Registry.default fuel tree doc with
      | error e => exact Or.inl (by simp [hj, hs])
      | ok v => exact Or.inr ⟨jt, doc, v, rfl, hj, hs, by simp [hj, hs]⟩

/-- **any failure prints nothing to stdout, something to stderr, and exits non-zero** -/
theorem C18_failure_shape (fuel : Nat) (a : Args) (stdin : ReadRes) :
    (run fuel a stdin).exit = 0 ∨
    ((run fuel a stdin).exit ≠ 0 ∧ (run fuel a stdin).stdout = "" ∧ (run fuel a stdin).stderrNonEmpty = true) := by
  unfold run
  cases hsel : selectExpr a with
  | none => exact Or.inr (by simp [die])
  | some t =>
    simp only []
    cases hp : parseExpr t with
    | error e => simp only []; exact Or.inr (by simp [die])
    | ok p =>
      obtain ⟨e, tree⟩ := p
      simp only []
      by_cases hast : a.ast = true
      · simp [hast]
      · simp only [hast, Bool.false_eq_true, if_false]
        rcases evalStage_shape fuel tree a stdin with h | ⟨_, _, _, _, _, _, h⟩
        · rw [h]; exact Or.inr (by simp [dieAfterInput])
        · rw [h]; exact Or.inl rfl

/-- exit 0 happens only on the successful path, and then stdout is exactly the rendered result -/
theorem C18_exit0_only_if (fuel : Nat) (a : Args) (stdin : ReadRes) (h0 : (run fuel a stdin).exit = 0)
    (hast : a.ast = false) : ∃ v, Succeeds fuel a stdin v ∧ (run fuel a stdin).stdout = showResult v a.unquoted := by
  unfold run at h0 ⊢
  cases hsel : selectExpr a with
  | none => simp [hsel, die] at h0
  | some t =>
    simp only [hsel] at h0 ⊢
    cases hp : parseExpr t with
    | error e => simp [hp, die] at h0
    | ok p =>
      obtain ⟨e, tree⟩ := p
      simp only [hp, hast, Bool.false_eq_true, if_false] at h0 ⊢
      rcases evalStage_shape fuel tree a stdin with h | ⟨jt, doc, v, hin, hj, hs, h⟩
      · rw [h] at h0; simp [dieAfterInput] at h0
      · rw [h]
        exact ⟨v, ⟨t, e, tree, jt, doc, hsel, hp, hin, hj, hs⟩, rfl⟩

/-- **`--unquoted` prints a string result without quotes and leaves every other result unaffected** -/
theorem C18_unquoted (v : Val) :
    (∀ s, v = .str s → showResult v true = s ++ "\n") ∧
    ((∀ s, v ≠ .str s) → showResult v true = showResult v false) := by
  constructor
  · intro s h; subst h; rfl
  · intro h; cases v <;> simp_all [showResult]

/-- **`--ast` prints the parse tree without reading input**: the outcome does not depend on stdin
and the run never consumes the input -/
theorem C18_ast_reads_no_input (fuel : Nat) (a : Args) (stdin stdin' : ReadRes) (hast : a.ast = true) :
    (run fuel a stdin).readInput = false ∧ run fuel a stdin' = run fuel a stdin := by
  unfold run
  cases hsel : selectExpr a with
  | none => simp [die]
  | some t =>
    simp only []
    cases hp : parseExpr t with
    | error e => simp [die]
    | ok p => obtain ⟨e, tree⟩ := p; simp [hast]


/-! ### the command-line surface, re-extracted from `jmespath-cli/src/main.rs` on every run

The clap argument table, the exit codes of `die!` and of the `--ast` branch and the order of the stages of
`main` are the ones the model (`Model/Cli.lean`: `Args`, `die`, `run`) assumes: `-f`, `--filename` and
`-e`, `--expr-file` take a value, `-u`, `--unquoted` and `--ast` are flags, exactly one of EXPRESSION (first positional) and
`--expr-file` is required and they exclude each other; `die!` writes to stderr and exits with the model's failure
code; the `--ast` test comes after compiling and before anything reads the input. -/
theorem C18_cli_surface :
    Generated.cliArgs =
      [⟨"filename", some "f", some "filename", true, false, false, none, []⟩,
       ⟨"unquoted", some "u", some "unquoted", false, false, false, none, []⟩,
       ⟨"ast", none, some "ast", false, false, false, none, []⟩,
       ⟨"expr-file", some "e", some "expr-file", true, false, true, none, ["expression"]⟩,
       ⟨"expression", none, none, false, false, true, some 1, ["expr-file"]⟩]
    ∧ Generated.dieExit = Cli.die.exit ∧ Generated.dieExit = Cli.dieAfterInput.exit ∧ Generated.dieExit ≠ 0
    ∧ Generated.dieWritesStderr = Cli.die.stderrNonEmpty
    ∧ Generated.astExit = 0
    ∧ Generated.mainOrder = ["compile", "ast", "input", "search", "show"]
    ∧ Generated.readsBeforeInput = [] := by
  refine ⟨by decide, rfl, rfl, by decide, rfl, rfl, by decide, rfl⟩

end JmesVerif

#print axioms JmesVerif.C18_success
#print axioms JmesVerif.C18_failure_shape
#print axioms JmesVerif.C18_exit0_only_if
#print axioms JmesVerif.C18_unquoted
#print axioms JmesVerif.C18_ast_reads_no_input
#print axioms JmesVerif.C18_cli_surface
