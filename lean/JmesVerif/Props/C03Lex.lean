import JmesVerif.Props.C03
import JmesVerif.Lemmas.LexTablePerm
import JmesVerif.Generated.LexTable
/-!
# C03 — the lexer's dispatch table, re-extracted from lexer.rs on every run

Kept in its own module so that a change of `Lexer::tokenize` which the table extractor cannot read confines the broken obligation to the
C03 check (the other parser properties import `Props/C03.lean`, not this file).  This is the module the C03 check audits: the axioms of the
theorems of `Props/C03.lean` are printed again at the end.
-/
namespace JmesVerif

/-- **The lexer's dispatch, re-extracted from lexer.rs on every run, is the documented one** (`decide` over the generated table):
which first characters start an identifier, which are single-character tokens, which look one character ahead, which are
whitespace — and, by `lexOne_eq_table`, the lexer model does exactly what that table says for every character.

The comparison is of the tables as SETS of (character range, action) entries (`flatArms`: one entry per range): the generated
entries are a permutation of the documented ones, and the documented ranges are checked to be pairwise disjoint
(`rangesDisjoint`; by `rangesDisjoint_perm` the generated ones then are too).  For pairwise disjoint patterns at most one arm
fits a character, so neither the ORDER of the arms of `match ch` nor the GROUPING of alternatives into `|` patterns
(`'a'..='z' | 'A'..='Z' | '_' => …` or three arms with the same body) matters (`actOf_perm_of_flat`) — such rewrites of
lexer.rs leave this obligation intact.  A change of what some character does (one more whitespace character, another token
for `*`, an arm removed or added, overlapping patterns) breaks it.  The two alternatives of `consume_lbracket` are likewise
compared up to order (their characters are distinct: `C03_lbracket_alts`). -/
theorem C03_lex_table :
    (flatArms Generated.lexArms).Perm (flatArms lexArmsDoc) ∧ rangesDisjoint (flatArms lexArmsDoc) = true ∧
    Generated.lbracketAlts.Perm lbracketAltsDoc := by decide

/-- the generated table and the documented one dispatch every character to the same action -/
theorem C03_lex_table_actOf (c : Char) : actOf Generated.lexArms c = actOf lexArmsDoc c :=
  (actOf_perm_of_flat C03_lex_table.2.1 C03_lex_table.1.symm c).symm

/-- the generated patterns are pairwise disjoint (so "first matching arm" is "the matching arm") -/
theorem C03_lex_arms_disjoint : rangesDisjoint (flatArms Generated.lexArms) = true := by
  rw [rangesDisjoint_perm C03_lex_table.1]; exact C03_lex_table.2.1

/-- after `[`: the generated alternatives and the documented ones give the same token for every next character, whatever their order -/
theorem C03_lbracket_alts (c : Char) : altOf Generated.lbracketAlts c = altOf lbracketAltsDoc c :=
  (altOf_perm (l₁ := lbracketAltsDoc) (by decide) C03_lex_table.2.2.symm c).symm

theorem C03_lexOne_follows_table (pos : Nat) (c : Char) (cs : List Char) :
    Lexer.lexOne pos c cs = Lexer.runAct (actOf Generated.lexArms c) pos c cs := by
  rw [C03_lex_table_actOf]; exact lexOne_eq_table pos c cs

/-- the only characters skipped between tokens are space, line feed, tab and carriage return -/
theorem C03_whitespace (c : Char) : actOf Generated.lexArms c = .skip ↔ (c = ' ' ∨ c = '\n' ∨ c = '\t' ∨ c = '\r') := by
  rw [C03_lex_table_actOf]; exact whitespace_iff c

end JmesVerif

#print axioms JmesVerif.C03_lex_table
#print axioms JmesVerif.C03_lex_table_actOf
#print axioms JmesVerif.C03_lex_arms_disjoint
#print axioms JmesVerif.C03_lbracket_alts
#print axioms JmesVerif.C03_lexOne_follows_table
#print axioms JmesVerif.C03_whitespace
#print axioms JmesVerif.C03_sound
#print axioms JmesVerif.C03_complete
#print axioms JmesVerif.C03_language
#print axioms JmesVerif.C03_no_fuel_tokens
#print axioms JmesVerif.C03_abnf_sound
#print axioms JmesVerif.C03_abnf_complete
#print axioms JmesVerif.C03_abnf_language
#print axioms JmesVerif.C03_sentence_has_string
#print axioms JmesVerif.C03_number_tokens_in_range
#print axioms JmesVerif.C03_multiselect_nonempty
#print axioms JmesVerif.T1_expr
#print axioms JmesVerif.T2_expr
#print axioms JmesVerif.expr_fuel_ok
