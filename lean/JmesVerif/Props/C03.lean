import JmesVerif.Lemmas.ParserSound
import JmesVerif.Lemmas.ParserComplete
import JmesVerif.Lemmas.ParserFuel
import JmesVerif.Lemmas.Lexer
import JmesVerif.Lemmas.AbnfSound
import JmesVerif.Lemmas.AbnfComplete
import JmesVerif.Lemmas.LexTable
import JmesVerif.Lemmas.LexSpell
/-!
# C03 — compile accepts exactly the JMESPath language

`Legal` (`Spec/Grammar.lean`) is the published grammar read at token level with the binding-power
disambiguation — extended at four marked places (known findings F3, F4, F5; F16 concerns the tree,
not acceptance) where the code, like the reference implementation, accepts more; the executable
deviation counters of `Spec/GrammarCheck.lean` classify those strings in the check.

* `C03_sound`     — whatever compiles is a sentence: the tokens are the yield of a `Legal` tree.
* `C03_complete`  — every sentence compiles (to its own tree), for every length and nesting.
* `C03_language`  — the two together, at string level, incl. the lexical rules.
* `C03_no_fuel`   — the model's fuel is never the reason for a rejection (so "rejected" means a
                    parse error of the code, not an artefact of the model).
-/
namespace JmesVerif
open Parser

/-! ### no tree spells the end marker -/

def allReal (ts : List Tok) : Prop := ∀ t ∈ ts, t.isEof = false

theorem allReal_nil : allReal [] := by intro t h; cases h
theorem allReal_cons {t : Tok} {ts : List Tok} (h1 : t.isEof = false) (h2 : allReal ts) : allReal (t :: ts) := by
  intro x hx
  rcases List.mem_cons.mp hx with rfl | hx
  · exact h1
  · exact h2 _ hx
theorem allReal_append {a b : List Tok} (h1 : allReal a) (h2 : allReal b) : allReal (a ++ b) := by
  intro x hx
  rcases List.mem_append.mp hx with hx | hx
  · exact h1 _ hx
  · exact h2 _ hx

theorem hdr_real (h : SliceHdr) : allReal h.toks := by
  obtain ⟨a, b, c⟩ := h
  cases a <;> cases b <;> cases c <;> (try rename_i c; cases c) <;>
    (intro t ht; simp [SliceHdr.toks, optNumToks] at ht; rcases ht with rfl | rfl | rfl | rfl | rfl <;> rfl) <;> done

theorem keyTok_real (q : Bool) (s : String) : (keyTok q s).isEof = false := by
  cases q <;> rfl
theorem cmpTok_real (o : Cmp) : (cmpTok o).isEof = false := by cases o <;> rfl

mutual
theorem Nud.toks_real : ∀ n : Nud, allReal n.toks
  | .at => allReal_cons rfl allReal_nil
  | .field _ => allReal_cons rfl allReal_nil
  | .qfield _ => allReal_cons rfl allReal_nil
  | .call _ args => allReal_cons rfl (allReal_cons rfl (allReal_append (argsToks_real args) (allReal_cons rfl allReal_nil)))
  | .lit _ => allReal_cons rfl allReal_nil
  | .star r => allReal_cons rfl (Rhs.toks_real r)
  | .idx _ => allReal_cons rfl (allReal_cons rfl (allReal_cons rfl allReal_nil))
  | .slice h r => allReal_cons rfl (allReal_append (hdr_real h) (allReal_cons rfl (Rhs.toks_real r)))
  | .wildIdx r => allReal_cons rfl (allReal_cons rfl (allReal_cons rfl (Rhs.toks_real r)))
  | .mlist es => allReal_cons rfl (allReal_append (argsToks_real es) (allReal_cons rfl allReal_nil))
  | .flatten r => allReal_cons rfl (Rhs.toks_real r)
  | .mhash kvs => allReal_cons rfl (allReal_append (kvsToks_real kvs) (allReal_cons rfl allReal_nil))
  | .not e => allReal_cons rfl (Expr.toks_real e)
  | .filter p r => allReal_cons rfl (allReal_append (Expr.toks_real p) (allReal_cons rfl (Rhs.toks_real r)))
  | .paren e => allReal_cons rfl (allReal_append (Expr.toks_real e) (allReal_cons rfl allReal_nil))
  | .expref e => allReal_cons rfl (Expr.toks_real e)
theorem Led.toks_real : ∀ l : Led, allReal l.toks
  | .dotStar r => allReal_cons rfl (allReal_cons rfl (Rhs.toks_real r))
  | .dot d => allReal_cons rfl (DotRhs.toks_real d)
  | .index _ => allReal_cons rfl (allReal_cons rfl (allReal_cons rfl allReal_nil))
  | .sliceL h r => allReal_cons rfl (allReal_append (hdr_real h) (allReal_cons rfl (Rhs.toks_real r)))
  | .wildIdxL r => allReal_cons rfl (allReal_cons rfl (allReal_cons rfl (Rhs.toks_real r)))
  | .or e => allReal_cons rfl (Expr.toks_real e)
  | .and e => allReal_cons rfl (Expr.toks_real e)
  | .pipe e => allReal_cons rfl (Expr.toks_real e)
  | .cmp o e => allReal_cons (cmpTok_real o) (Expr.toks_real e)
  | .flattenL r => allReal_cons rfl (Rhs.toks_real r)
  | .filterL p r => allReal_cons rfl (allReal_append (Expr.toks_real p) (allReal_cons rfl (Rhs.toks_real r)))
  | .callDev args => allReal_cons rfl (allReal_append (argsToks_real args) (allReal_cons rfl allReal_nil))
theorem Rhs.toks_real : ∀ r : Rhs, allReal r.toks
  | .none => allReal_nil
  | .dot d => allReal_cons rfl (DotRhs.toks_real d)
  | .bracket e => Expr.toks_real e
theorem DotRhs.toks_real : ∀ d : DotRhs, allReal d.toks
  | .mlist es => allReal_cons rfl (allReal_append (argsToks_real es) (allReal_cons rfl allReal_nil))
  | .expr e => Expr.toks_real e
theorem Expr.toks_real : ∀ e : Expr, allReal e.toks
  | .mk h ls => allReal_append (Nud.toks_real h) (ledsToks_real ls)
theorem ledsToks_real : ∀ ls : List Led, allReal (ledsToks ls)
  | [] => allReal_nil
  | l :: ls => allReal_append (Led.toks_real l) (ledsToks_real ls)
theorem argsToks_real : ∀ es : List Expr, allReal (argsToks es)
  | [] => allReal_nil
  | e :: es => allReal_append (Expr.toks_real e) (argsTail_real es)
theorem argsTail_real : ∀ es : List Expr, allReal (argsTail es)
  | [] => allReal_nil
  | e :: es => allReal_cons rfl (allReal_append (Expr.toks_real e) (argsTail_real es))
theorem kvsToks_real : ∀ kvs : List (Bool × String × Expr), allReal (kvsToks kvs)
  | [] => allReal_nil
  | (q, s, e) :: r => allReal_cons (keyTok_real q s) (allReal_cons rfl (allReal_append (Expr.toks_real e) (kvsTail_real r)))
theorem kvsTail_real : ∀ kvs : List (Bool × String × Expr), allReal (kvsTail kvs)
  | [] => allReal_nil
  | (q, s, e) :: r =>
    allReal_cons rfl (allReal_cons (keyTok_real q s) (allReal_cons rfl (allReal_append (Expr.toks_real e) (kvsTail_real r))))
end

/-! ### the property theorems -/

/-- **Soundness.** If the parser accepts a token list, that list is the yield of a `Legal` tree
(plus the end marker), and the tree the parser built is the one the rules assign. -/
theorem C03_sound (ts : List PT) (e : Expr) (a : Ast) (h : parseTokens ts = .ok (e, a)) :
    (tk ts = e.toks ∨ tk ts = e.toks ++ [Tok.eof]) ∧ e.Legal 0 ∧ a.strip = e.ast :=
  T1_parseTokens ts e a h

/-- **Completeness.** Every `Legal` tree — of any length and nesting — is accepted, and parses to
itself, whatever the positions attached to its tokens. -/
theorem C03_complete (e : Expr) (hl : e.Legal 0) (ts : List PT) (hy : tk ts = e.toks ++ [Tok.eof]) :
    ∃ a, parseTokens ts = .ok (e, a) ∧ a.strip = e.ast := by
  obtain ⟨n, hn⟩ := T2_expr e 0 hl (by omega) ts [Tok.eof] 0 hy (by simp [peekL, Tok.lbp]) (by simp [peekL, Tok.lbp])
  -- the fuel `parseTokens` uses is enough: its result is not the fuel error, hence stable
  let N := 8 * ts.length + 8
  have hN : Parser.expr N 0 ts 0 ≠ .error .fuel := expr_fuel_ok' N 0 ts 0 (by simp [N])
  obtain ⟨a, ts', off', hM, htk⟩ := hn (max N n) (Nat.le_max_right _ _)
  have hstab := expr_mono N 0 ts 0 _ rfl hN (max N n) (Nat.le_max_left _ _)
  rw [hM] at hstab
  have hts' : ∃ p, ts' = [(p, Tok.eof)] := by
    cases ts' with
    | nil => simp [tk] at htk
    | cons pt r =>
      obtain ⟨p, t⟩ := pt
      simp only [tk_cons, List.cons.injEq] at htk
      obtain ⟨rfl, hr⟩ := htk
      cases r with
      | nil => exact ⟨p, rfl⟩
      | cons x xs => simp [tk] at hr
  obtain ⟨p, rfl⟩ := hts'
  have hres : parseTokens ts = .ok (e, a) := by
    unfold parseTokens
    simp only [← hstab, N]
  refine ⟨a, hres, ?_⟩
  exact (T1_parseTokens ts e a hres).2.2

/-- **Against the published ABNF (one direction).** `Spec/Abnf.lean` transcribes the specification's ABNF, production by
production, as an (ambiguous) context-free grammar over tokens.  Whatever the parser accepts without using one of the three
listed deviations (F3 a call applied to a parenthesised field, F4 a multi-select list as a projection's bracket right-hand
side, F5 `&e` outside a function argument) is a sentence of that grammar — so the deviations counted by `GrammarCheck` are
the ONLY way a non-sentence can compile. -/
theorem C03_abnf_sound (ts : List PT) (e : Expr) (a : Ast) (h : parseTokens ts = .ok (e, a))
    (hd : (GrammarCheck.exprDev false e).languageClean) : Abnf.Expression e.toks :=
  abnf_sound e 0 (C03_sound ts e a h).2.1 hd

/-- the model never rejects for lack of fuel -/
theorem C03_no_fuel_tokens (ts : List PT) : parseTokens ts ≠ .error .fuel := parseTokens_no_fuel ts

/-- **The language.** A string compiles iff it lexes (documented lexical rules, `Model/Lexer`) to
tokens that are exactly the yield of a `Legal` tree followed by the end marker. -/
theorem C03_language (cs : List Char) :
    (∃ (e : Expr) (a : Ast), parseExpr cs = .ok (e, a)) ↔
    (∃ (ts : List PT) (e : Expr), tokenize cs = .ok ts ∧ e.Legal 0 ∧ tk ts = e.toks ++ [Tok.eof]) := by
  constructor
  · rintro ⟨e, a, h⟩
    unfold parseExpr at h
    split at h
    · simp at h
    · rename_i ts hlex
      split at h
      · simp at h
      · rename_i r hp
        simp at h
        subst h
        obtain ⟨hy, hl, _⟩ := T1_parseTokens ts e a hp
        refine ⟨ts, e, hlex, hl, ?_⟩
        rcases hy with hy | hy
        · -- impossible: the lexer's list ends with the end marker, no tree spells it
          obtain ⟨mid, rfl, _⟩ := tokenize_shape cs ts hlex
          have hmem : Tok.eof ∈ e.toks := by
            rw [← hy]; simp [tk]
          have := Expr.toks_real e _ hmem
          simp [Tok.isEof] at this
        · exact hy
  · rintro ⟨ts, e, hlex, hl, hy⟩
    obtain ⟨a, hp, _⟩ := C03_complete e hl ts hy
    exact ⟨e, a, by simp [parseExpr, hlex, hp]⟩

/-- **Against the published ABNF (other direction).** Every sentence of the published grammar — any derivation of the ambiguous
ABNF, of any size — is accepted by the parser, through a tree that uses none of the deviations. -/
theorem C03_abnf_complete (w : List Tok) (h : Abnf.Expression w) (ts : List PT) (hy : tk ts = w ++ [Tok.eof]) :
    ∃ (e : Expr) (a : Ast), parseTokens ts = .ok (e, a) ∧ (GrammarCheck.exprDev false e).languageClean := by
  obtain ⟨e, hl, ht, hc⟩ := abnf_complete w h
  obtain ⟨a, hp, _⟩ := C03_complete e hl ts (by rw [ht]; exact hy)
  exact ⟨e, a, hp, hc⟩

/-- **The language, against the specification's own grammar.** A string compiles *without one of the three listed deviations*
iff it lexes to a token list that the published ABNF derives (followed by the end marker).  Together with the deviation
counters this says: `compile` accepts exactly the JMESPath language, plus exactly the strings of the classes F3, F4, F5. -/
theorem C03_abnf_language (cs : List Char) :
    (∃ (e : Expr) (a : Ast), parseExpr cs = .ok (e, a) ∧ (GrammarCheck.exprDev false e).languageClean) ↔
    (∃ (ts : List PT) (w : List Tok), tokenize cs = .ok ts ∧ Abnf.Expression w ∧ tk ts = w ++ [Tok.eof]) := by
  constructor
  · rintro ⟨e, a, h, hc⟩
    obtain ⟨ts, e', hlex, _, _⟩ := (C03_language cs).mp ⟨e, a, h⟩
    have hp : parseTokens ts = .ok (e, a) := by
      unfold parseExpr at h
      simp only [hlex] at h
      split at h
      · simp at h
      · rename_i r hp
        simp at h
        subst h
        exact hp
    obtain ⟨hy, hl, _⟩ := T1_parseTokens ts e a hp
    refine ⟨ts, e.toks, hlex, abnf_sound e 0 hl hc, ?_⟩
    rcases hy with hy | hy
    · obtain ⟨mid, rfl, _⟩ := tokenize_shape cs ts hlex
      have hmem : Tok.eof ∈ e.toks := by
        rw [← hy]; simp [tk]
      have := Expr.toks_real e _ hmem
      simp [Tok.isEof] at this
    · exact hy
  · rintro ⟨ts, w, hlex, hw, hy⟩
    obtain ⟨e, a, hp, hc⟩ := C03_abnf_complete w hw ts hy
    exact ⟨e, a, by simp [parseExpr, hlex, hp], hc⟩

/-- **From sentences to strings.** Every sentence of the published grammar whose token payloads can be written down
(`Tok.Spellable`: identifiers are identifiers, numbers fit 32 bits, literals are JSON values that print and parse back) is the
token list of an actual string — its tokens spelled canonically and separated by single spaces — and that string compiles, to a tree
that spells exactly the sentence and uses none of the deviations. -/
theorem C03_sentence_has_string (w : List Tok) (hw : Abnf.Expression w) (hs : ∀ t ∈ w, t.Spellable) :
    ∃ (e : Expr) (a : Ast), parseExpr (spellToks w) = .ok (e, a) ∧ e.toks = w ∧ a.strip = e.ast ∧
      (GrammarCheck.exprDev false e).languageClean := by
  obtain ⟨ps, hlex, hps⟩ := lex_spell w hs
  obtain ⟨e, hl, ht, hc⟩ := abnf_complete w hw
  obtain ⟨a, hp, hstrip⟩ := C03_complete e hl ps (by rw [ht]; exact hps)
  exact ⟨e, a, by simp [parseExpr, hlex, hp], ht, hstrip, hc⟩


/-- every number token the lexer produces fits a signed 32-bit integer (magnitude ≤ 2^31 − 1) -/
theorem C03_number_tokens_in_range (cs : List Char) (ts : List PT) (h : tokenize cs = .ok ts) (p : Nat) (n : Int)
    (hm : (p, Tok.number n) ∈ ts) : -2147483647 ≤ n ∧ n ≤ 2147483647 := by
  obtain ⟨mid, rfl, hmid⟩ := tokenize_shape cs ts h
  rcases List.mem_append.mp hm with hm | hm
  · have := (hmid _ hm).2
    simpa [Tok.numOk] using this
  · simp at hm

/-- multi-select lists and hashes are non-empty, and their elements are comma separated
(read off the grammar: `argsToks` is `e (, e)*`) -/
theorem C03_multiselect_nonempty (es : List Expr) (kvs : List (Bool × String × Expr)) :
    ((Nud.mlist es).Legal → es ≠ []) ∧ ((Nud.mhash kvs).Legal → kvs ≠ []) ∧
    (∀ k, (DotRhs.mlist es).Legal k → es ≠ []) := by
  refine ⟨fun h => ?_, fun h => ?_, fun k h => ?_⟩
  · simp [Nud.Legal] at h; exact h.1
  · simp [Nud.Legal] at h; exact h.1
  · simp [DotRhs.Legal] at h; exact h.1

theorem C03_commas (e1 e2 : Expr) (es : List Expr) :
    argsToks (e1 :: e2 :: es) = e1.toks ++ Tok.comma :: argsToks (e2 :: es) := by
  simp [argsToks, argsTail]

/-! ### non-vacuity -/
example : (Expr.mk (.field "a") [.or (.mk (.field "b") [])]).Legal 0 := by
  simp [Expr.Legal, Nud.Legal, chain, Led.Legal, Led.lbp, Nud.follow, INF, callDevOk, Led.isCallDev]
example : ¬ (Nud.mlist []).Legal := by simp [Nud.Legal]

end JmesVerif

#print axioms JmesVerif.C03_sound
#print axioms JmesVerif.C03_complete
#print axioms JmesVerif.C03_language
#print axioms JmesVerif.C03_no_fuel_tokens
#print axioms JmesVerif.C03_abnf_sound
#print axioms JmesVerif.C03_abnf_complete
#print axioms JmesVerif.C03_abnf_language
#print axioms JmesVerif.C03_sentence_has_string
#print axioms JmesVerif.C03_number_tokens_in_range
#print axioms JmesVerif.C03_multiselect_nonempty
#print axioms JmesVerif.T1_expr
#print axioms JmesVerif.T2_expr
#print axioms JmesVerif.expr_fuel_ok
