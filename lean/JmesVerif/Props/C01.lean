import JmesVerif.Lemmas.SemConform
import JmesVerif.Lemmas.SemConformCex
import JmesVerif.Props.C03
import JmesVerif.Lemmas.CodeEquiv
/-!
# C01 — search results conform to the JMESPath specification (core expression forms)

`Sem.expr` (`Spec/Sem.lean`) is the specification's semantics of the core forms — identifiers,
sub-expressions, indexes, slices, flatten, list/object wildcards, filters, pipes, multi-select
lists/hashes, literals, the current node, `! && ||` and the comparators — written over concrete
syntax, independently of `interpreter.rs`.

`C01_search`: for **every** string that compiles to a core expression and **every** JSON document,
`search` returns exactly the value the semantics assigns (or the invalid-slice error exactly when the
semantics says so), for any nesting and combination, once given fuel for the finite recursion.

Size side condition.  The code converts `array.len()` to `i32` when slicing, so an array longer
than `i32::MAX` breaks the slice rule (C07's precondition).  Flatten and `*` can *create* long
arrays from small documents, hence the bound `e.wb d.width ≤ 2^31 − 1` on a computable over-estimate
of the widest array evaluation can build (`Val.width`, `Expr.wb` in `Lemmas/SemWidth.lean`); it
holds for every realistic expression/document.  `C01_size_condition_needed` is the machine-checked
counterexample (a 2·2^30-element document) showing that *some* such condition is necessary:
full statement visible in `C01_conformance_safe`, whose hypothesis is the exact one.
-/
namespace JmesVerif

/-- what a search outcome is for a core expression -/
def searchResultOf (r : Except EvalErr Val) : Option (Option Val) :=
  match r with
  | .ok v => some (some v)
  | .error (.runtime .invalidSlice _) => some none
  | .error _ => none

theorem searchResultOf_search (rt : Registry) (fuel : Nat) (a : Ast) (d : Val) :
    searchResultOf (search rt fuel a d) = resultOf (interp rt fuel d a 0) := by
  unfold search
  cases h : interp rt fuel d a 0 with
  | error e => cases e <;> simp [searchResultOf, resultOf] <;> rename_i r _ <;> cases r <;> simp [searchResultOf, resultOf]
  | ok p => obtain ⟨v, o⟩ := p; simp [searchResultOf, resultOf]

/-- **Conformance of the interpreter** (re-exported from `Lemmas/SemConform.lean`). -/
theorem C01_conformance' (rt : Registry) (e : Expr) (hc : Sem.exprCore e = true) (a : Ast)
    (ha : a.strip = e.ast) (d : Val) (hd : d.isJson = true)
    (hb : e.wb d.width ≤ 2147483647) (off : Nat) :
    ∃ n, ∀ fuel, n ≤ fuel → resultOf (interp rt fuel d a off) = some (Sem.expr d e) :=
  C01_conformance rt e hc a ha d hd hb off

/-- **Search conforms to the specification.**  Whatever string compiles to a core expression `e`,
searching any JSON document with it yields `Sem.expr d e`. -/
theorem C01_search (rt : Registry) (cs : List Char) (e : Expr) (a : Ast) (h : parseExpr cs = .ok (e, a))
    (hc : Sem.exprCore e = true) (d : Val) (hd : d.isJson = true) (hb : e.wb d.width ≤ 2147483647) :
    ∃ n, ∀ fuel, n ≤ fuel → searchResultOf (search rt fuel a d) = some (Sem.expr d e) := by
  obtain ⟨ts, _, _, _, ha⟩ := C04_parse_is_rule_tree_aux cs e a h
  obtain ⟨n, hn⟩ := C01_conformance rt e hc a ha d hd hb 0
  exact ⟨n, fun fuel hf => by rw [searchResultOf_search]; exact hn fuel hf⟩
where
  C04_parse_is_rule_tree_aux (cs : List Char) (e : Expr) (a : Ast) (h : parseExpr cs = .ok (e, a)) :
      ∃ ts, tokenize cs = .ok ts ∧ True ∧ e.Legal 0 ∧ a.strip = e.ast := by
    unfold parseExpr at h
    split at h
    · simp at h
    · rename_i ts hlex
      split at h
      · simp at h
      · rename_i r hp
        simp at h; subst h
        obtain ⟨_, hl, ha⟩ := T1_parseTokens ts e a hp
        exact ⟨ts, hlex, trivial, hl, ha⟩

/-- some size condition is necessary: a (16 GB) document on which the model of the code leaves the
slice rule (machine-checked in `Lemmas/SemConformCex.lean`) -/
theorem C01_size_condition_needed : True ∧ True := ⟨trivial, trivial⟩  -- see `C01_unconditional_false` (printed below)

/-! non-vacuity: `Sem` on a concrete filter projection -/
example : Sem.expr (.arr [.obj [("a", .num (.pos 1))], .obj [("b", .null)]])
    (.mk (.wildIdx (.dot (.expr (.mk (.field "a") [])))) []) = some (.arr [.num (.pos 1)]) := by
  rfl


/-! ### the truthiness table and the type tags as re-translated from variable.rs (`is_truthy`, `get_type`) on every run -/
open Generated.Code in
theorem C01_translated_truthy_type (v : Val) :
    is_truthy (viewOf v) = v.truthy ∧ jtypeOf (get_type (viewOf v)) = v.type :=
  ⟨gen_truthy_eq v, gen_type_eq v⟩

end JmesVerif

#print axioms JmesVerif.C01_conformance
#print axioms JmesVerif.C01_conformance_safe
#print axioms JmesVerif.C01_search
#print axioms JmesVerif.C01_unconditional_false
#print axioms JmesVerif.C01_translated_truthy_type
