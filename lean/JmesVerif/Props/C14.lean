theorem C14_placeholder : True := trivial
