import JmesVerif.Lemmas.SerdeBridge
/-!
# C14 — serde bridge: typed values are searched as their JSON image and decode back

Model: `Model/Serde.lean` — the library's `Serializer` (`svToVariable`) and its
`Deserializer for Variable` (`deVar`) against serde's data model, standard and derive visitors;
`svToJson` / `deJson` are the specification (what serde_json produces from the same inputs;
external code, modelled and validated by the `serde` stream).

* `C14_ser_eq_serde_json` — for every value of the serde data model with string-keyed maps (all
  entry points, nested arbitrarily), converting it for searching yields exactly serde_json's JSON value;
* `C14_de_eq_serde_json` — decoding a library value into a Rust type yields what serde_json yields
  (by construction of the model after the F15 repair; `C14_tuple_length_counterexample` is the
  machine-checked witness of the defect that was fixed, `C14_lenient_extends_strict` shows the
  length check was the *only* difference);
* `C14_roundtrip` — a well-typed Rust value survives the trip through the library: serialise
  (derive conventions), convert, decode ⇒ the same value.
-/
namespace JmesVerif

theorem C14_ser_eq_serde_json (x : SVal) (h : svStringKeyed x = true) : svToVariable x = svToJson x :=
  ser_eq_serde_json x h

theorem C14_de_eq_serde_json (s : Shape) (v : Val) : deVar s v = deJson s v := de_eq_serde_json s v

theorem C14_tuple_length_counterexample :
    deVal ⟨false⟩ (.tuple [.int true 32, .int true 32]) (.arr [.num (.pos 1), .num (.pos 2), .num (.pos 3)])
      = some (.seq [.int 1, .int 2]) ∧
    deVal ⟨true⟩ (.tuple [.int true 32, .int true 32]) (.arr [.num (.pos 1), .num (.pos 2), .num (.pos 3)]) = none :=
  tuple_length_counterexample

theorem C14_lenient_extends_strict (s : Shape) (v : Val) (t : TVal) (h : deVal ⟨true⟩ s v = some t) :
    deVal ⟨false⟩ s v = some t := lenient_extends_strict s v t h

theorem C14_roundtrip (s : Shape) (t : TVal) (h : WellTyped s t) :
    ∃ sv v, serOf s t = some sv ∧ svToVariable sv = some v ∧ deVar s v = some t := typed_roundtrip s t h

end JmesVerif

#print axioms JmesVerif.C14_ser_eq_serde_json
#print axioms JmesVerif.C14_de_eq_serde_json
#print axioms JmesVerif.C14_tuple_length_counterexample
#print axioms JmesVerif.C14_lenient_extends_strict
#print axioms JmesVerif.C14_roundtrip
