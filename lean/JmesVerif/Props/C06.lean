import JmesVerif.Lemmas.Signature
import JmesVerif.Generated.Signatures
import JmesVerif.Generated.Vocab
import JmesVerif.Lemmas.CodeEquiv
import JmesVerif.Lemmas.ValidEquiv
/-!
# C06 — built-in functions enforce their signatures: arity and argument types

* the 26 signatures and the name→function registrations are re-extracted from `functions.rs` /
  `runtime.rs` on every run (`Generated/Signatures.lean`) and proved equal to the documented ones
  the model uses (`C06_signature_table`, `C06_registration_table`);
* the validator, for *every* signature: wrong arity ⇒ the arity error; right arity and a bad
  argument ⇒ the invalid-type error of the first offending position naming declared and actual
  type; success iff every argument satisfies its parameter type (`C06_validate_*`);
* validity of an argument depends only on its type class (type tag, and for arrays the element
  type tags), which lifts the finite class-level decision table the check enumerates to all values
  (`C06_class_level`);
* a call whose arguments satisfy the signature never fails with an arity/type error, never reaches
  an `unreachable!()`, and its result has the function's declared result type (`C06_result_type`);
* an unregistered name is the unknown-function error.
-/
namespace JmesVerif

/-- struct name of each builtin in functions.rs -/
def Builtin.structName : Builtin → String
  | .abs => "AbsFn" | .avg => "AvgFn" | .ceil => "CeilFn" | .contains => "ContainsFn"
  | .endsWith => "EndsWithFn" | .floor => "FloorFn" | .join => "JoinFn" | .keys => "KeysFn"
  | .length => "LengthFn" | .map => "MapFn" | .min => "MinFn" | .max => "MaxFn"
  | .maxBy => "MaxByFn" | .minBy => "MinByFn" | .merge => "MergeFn" | .notNull => "NotNullFn"
  | .reverse => "ReverseFn" | .sort => "SortFn" | .sortBy => "SortByFn" | .startsWith => "StartsWithFn"
  | .sum => "SumFn" | .toArray => "ToArrayFn" | .toNumber => "ToNumberFn" | .toString => "ToStringFn"
  | .type => "TypeFn" | .values => "ValuesFn"

def lookupSig (n : String) : List (String × Sig) → Option Sig
  | [] => none
  | (k, s) :: r => if k = n then some s else lookupSig n r

def lookupStr (n : String) : List (String × String) → Option String
  | [] => none
  | (k, s) :: r => if k = n then some s else lookupStr n r

/-- every `defn!` in functions.rs today declares the documented signature -/
theorem C06_signature_table (b : Builtin) :
    lookupSig b.structName Generated.signatures = some b.sig := by
  cases b <;> rfl

/-- `register_builtin_functions` registers exactly the 26 documented names, each bound to its struct -/
theorem C06_registration_table :
    Generated.registrations.length = 26 ∧
    ∀ p ∈ Builtin.all, lookupStr p.1 Generated.registrations = some p.2.structName := by
  refine ⟨rfl, ?_⟩
  intro p hp
  simp only [Builtin.all, List.mem_cons, List.mem_nil_iff, or_false] at hp
  rcases hp with h | h | h | h | h | h | h | h | h | h | h | h | h | h | h | h | h | h | h | h | h | h | h | h | h | h <;>
    (subst h; rfl)

theorem C06_validate_arity (s : Sig) (args : List Val) (off : Nat) (h : s.arityOk args.length = false) :
    s.validate args off =
      .error (.runtime (if args.length < s.inputs.length then .notEnough s.inputs.length args.length
                        else .tooMany s.inputs.length args.length) off) :=
  validate_arity_error s args off h

theorem C06_validate_ok_iff (s : Sig) (args : List Val) (off : Nat) :
    s.validate args off = .ok () ↔
      s.arityOk args.length = true ∧ ∀ k v, args[k]? = some v → ∃ t, s.param k = some t ∧ t.isValid v = true :=
  validate_ok_iff s args off

theorem C06_validate_type (s : Sig) (args : List Val) (off : Nat) (ha : s.arityOk args.length = true)
    (k : Nat) (v : Val) (t : ArgT) (hk : args[k]? = some v) (ht : s.param k = some t) (hbad : t.isValid v = false)
    (hfirst : ∀ j < k, ∀ w u, args[j]? = some w → s.param j = some u → u.isValid w = true) :
    s.validate args off = .error (.runtime (.invalidType t.name v.type.name k) off) :=
  validate_type_error s args off ha k v t hk ht hbad hfirst

/-- whether an argument satisfies a builtin's parameter type depends only on its type class -/
theorem C06_class_level (b : Builtin) (t : ArgT) (ht : t ∈ b.sig.inputs ∨ b.sig.variadic = some t)
    (v w : Val) (h : v.cls = w.cls) : t.isValid v = t.isValid w := by
  have hf := builtin_sigs_flat b
  rcases ht with ht | ht
  · exact isValid_depends_on_cls t (hf.1 t ht) v w h
  · exact isValid_depends_on_cls t (hf.2 t ht) v w h

/-- a successful builtin call returns a value of the function's declared result type -/
theorem C06_result_type (rt : Registry) (fuel : Nat) (b : Builtin) (args : List Val) (off : Nat) (v : Val) (o : Nat)
    (h : callFn rt (fuel + 1) (.builtin b) args off = .ok (v, o)) : v.type ∈ b.resultTypes :=
  callFn_result_type rt fuel b args off v o h

/-- after successful validation a builtin without expression-reference parameters cannot hit an
`unreachable!()` / out-of-bounds arm, and its only possible failure is the non-finite-number error
of abs/avg/ceil/floor/sum -/
theorem C06_no_unreachable (b : Builtin) (args : List Val) (off : Nat) (hv : b.sig.validate args off = .ok ())
    (hb : b.usesExpref = false) :
    (∀ m, b.pure args ≠ .error (.panic m)) ∧
    (∀ e, b.pure args = .error e → (∃ msg, e = .internal msg) ∧ b ∈ [Builtin.abs, .avg, .ceil, .floor, .sum]) :=
  ⟨pure_no_panic b args off hv hb, fun e he => pure_error_is_internal b args off hv hb e he⟩

theorem C06_expref_args_shape (b : Builtin) (args : List Val) (off : Nat) (hv : b.sig.validate args off = .ok ())
    (hb : b.usesExpref = true) :
    (b = .map ∧ ∃ a xs, args = [.expref a, .arr xs]) ∨
    ((b = .sortBy ∨ b = .maxBy ∨ b = .minBy) ∧ ∃ a xs, args = [.arr xs, .expref a]) :=
  expref_args_shape b args off hv hb


/-! ### the argument-type, value and type-tag vocabularies (functions.rs:20, variable.rs:52, :22), re-extracted on every run -/
theorem C06_type_vocabulary :
    Generated.argumentTypeFields.map (·.1) = ["Any", "Array", "Bool", "Expref", "Null", "Number", "Object", "String", "TypedArray", "Union"]
    ∧ Generated.jmespathTypeFields.map (·.1) = ["Array", "Boolean", "Expref", "Null", "Number", "Object", "String"]
    ∧ Generated.variableFields.map (·.1) = ["Array", "Bool", "Expref", "Null", "Number", "Object", "String"]
    ∧ (∀ t : ArgT, Generated.argumentTypeVariant t ∈ Generated.argumentTypeFields.map (·.1))
    ∧ (∀ v : Val, Generated.variableVariant v ∈ Generated.variableFields.map (·.1))
    ∧ (∀ v : Val, Generated.jmespathTypeVariant v.type ∈ Generated.jmespathTypeFields.map (·.1)) := by
  refine ⟨rfl, rfl, rfl, ?_, ?_, ?_⟩
  · intro t; cases t <;> simp [Generated.argumentTypeVariant, Generated.argumentTypeFields]
  · intro v; cases v <;> simp [Generated.variableVariant, Generated.variableFields]
  · intro v; cases h : v.type <;> simp [Generated.jmespathTypeVariant, Generated.jmespathTypeFields]


/-! ### `Signature::validate_arity` as re-translated from functions.rs on every run equals the model's arity check -/
open Generated.Code in
theorem C06_translated_validate_arity (s : Sig) (actual off : Nat) :
    arityToExcept off (validate_arity s.inputs s.variadic actual) = s.validateArity actual off :=
  gen_validate_arity_eq s actual off


/-! ### the signature validator as re-translated from functions.rs on every run

`Generated/ValidCode.lean` (by `tools/rs2lean.py`) holds the bodies of `ArgumentType::is_valid`, `Signature::validate`, `validate_arg`,
`validate_arity` and the `Display` impls that name the declared and the actual type, with checked indexing.  They equal the model's validator
for every signature and argument list: the first offending position is the one reported, arity is checked before types, and the checked
`self.inputs[k]` of the non-variadic loop can never be out of bounds once the arity check has passed (a safety fact of the source, proved). -/
open Generated.ValidCode in
theorem C06_translated_validator :
    (∀ (t : ArgT) (v : Val), is_valid t v = t.isValid v) ∧
    (∀ (s : Sig) (args : List Val) (off : Nat), toExcept off (validate s.inputs s.variadic args) = s.validate args off) ∧
    (∀ (inputs : List ArgT) (variadic : Option ArgT) (args : List Val) (f : Fault), validate inputs variadic args ≠ .error (.fault f)) ∧
    (∀ t : ArgT, argument_type_fmt t = t.name) ∧ (∀ t : JType, jmespath_type_fmt t = t.name) :=
  ⟨gen_is_valid_eq, gen_validate_eq, gen_validate_no_fault, gen_argt_name_eq, gen_jtype_name_eq⟩

end JmesVerif

#print axioms JmesVerif.C06_signature_table
#print axioms JmesVerif.C06_registration_table
#print axioms JmesVerif.C06_validate_arity
#print axioms JmesVerif.C06_validate_ok_iff
#print axioms JmesVerif.C06_validate_type
#print axioms JmesVerif.C06_class_level
#print axioms JmesVerif.C06_result_type
#print axioms JmesVerif.C06_no_unreachable
#print axioms JmesVerif.C06_expref_args_shape
#print axioms JmesVerif.C06_type_vocabulary
#print axioms JmesVerif.C06_translated_validate_arity
#print axioms JmesVerif.C06_translated_validator
