import JmesVerif.Lemmas.ErrorOffsetsInterp
/-!
# Where runtime errors point: the located-error theorems, and trees whose literals are JSON

`Ast.callOffsets` / `Ast.sliceOffsets` do not look inside literal values.  On a tree whose literals
are JSON values (`Ast.LitJson` — what the parser builds: `parseExpr_litJson` in
`Lemmas/ErrorOffsetsParse.lean`) they coincide with the deep versions.
-/
namespace JmesVerif

/-- selectors on node descriptors -/
def OKind.callOff : OKind × Nat → Option Nat
  | (.call _, o) => some o
  | _ => none
def OKind.sliceOff : OKind × Nat → Option Nat
  | (.slice, o) => some o
  | _ => none
def OKind.sel (k : Bool) : OKind × Nat → Option Nat := if k then OKind.callOff else OKind.sliceOff

/-- offsets of the call nodes of a tree, including trees held as expression references inside
literal values -/
def Ast.callOffsetsDeep (a : Ast) : List Nat := a.nodesD.filterMap OKind.callOff
/-- offsets of the slice nodes of a tree, including those inside literal values -/
def Ast.sliceOffsetsDeep (a : Ast) : List Nat := a.nodesD.filterMap OKind.sliceOff
/-- offsets of the call nodes of every expression reference nested anywhere in a value -/
def Val.exprefCallOffsets (v : Val) : List Nat := v.exNodes.filterMap OKind.callOff
/-- offsets of the slice nodes of every expression reference nested anywhere in a value -/
def Val.exprefSliceOffsets (v : Val) : List Nat := v.exNodes.filterMap OKind.sliceOff

theorem mem_callOff (o : Nat) (l : List (OKind × Nat)) :
    o ∈ l.filterMap OKind.callOff ↔ ∃ n, (OKind.call n, o) ∈ l := by
  simp only [List.mem_filterMap]
  constructor
  · rintro ⟨⟨k, o'⟩, hm, hk⟩
    cases k <;> simp [OKind.callOff] at hk
    subst hk; exact ⟨_, hm⟩
  · rintro ⟨n, hm⟩; exact ⟨_, hm, rfl⟩
theorem mem_sliceOff (o : Nat) (l : List (OKind × Nat)) :
    o ∈ l.filterMap OKind.sliceOff ↔ (OKind.slice, o) ∈ l := by
  simp only [List.mem_filterMap]
  constructor
  · rintro ⟨⟨k, o'⟩, hm, hk⟩
    cases k <;> simp [OKind.sliceOff] at hk
    subst hk; exact hm
  · intro hm; exact ⟨_, hm, rfl⟩

mutual
/-- every literal of the tree is a JSON value (holds no expression reference) -/
def Ast.LitJson : Ast → Bool
  | .comparison _ _ l r => l.LitJson && r.LitJson
  | .condition _ p t => p.LitJson && t.LitJson
  | .identity _ => true
  | .expref _ a => a.LitJson
  | .flatten _ a => a.LitJson
  | .function _ _ args => Ast.litJsonL args
  | .field _ _ => true
  | .index _ _ => true
  | .literal _ v => v.isJson
  | .multiList _ es => Ast.litJsonL es
  | .multiHash _ kvs => Ast.litJsonK kvs
  | .not _ a => a.LitJson
  | .projection _ l r => l.LitJson && r.LitJson
  | .objectValues _ a => a.LitJson
  | .and _ l r => l.LitJson && r.LitJson
  | .or _ l r => l.LitJson && r.LitJson
  | .slice _ _ _ _ => true
  | .subexpr _ l r => l.LitJson && r.LitJson
def Ast.litJsonL : List Ast → Bool
  | [] => true
  | a :: as => a.LitJson && Ast.litJsonL as
def Ast.litJsonK : List (String × Ast) → Bool
  | [] => true
  | (_, a) :: r => a.LitJson && Ast.litJsonK r
end

mutual
theorem Val.exNodes_json : ∀ v : Val, v.isJson = true → v.exNodes = []
  | .null, _ => by simp [Val.exNodes]
  | .bool _, _ => by simp [Val.exNodes]
  | .num _, _ => by simp [Val.exNodes]
  | .str _, _ => by simp [Val.exNodes]
  | .arr xs, h => by
    rw [Val.exNodes]; exact exNodesVs_json xs (by simpa [Val.isJson] using h)
  | .obj kvs, h => by
    rw [Val.exNodes]; exact exNodesKVs_json kvs (by simpa [Val.isJson] using h)
  | .expref _, h => by simp [Val.isJson] at h
theorem exNodesVs_json : ∀ xs : List Val, valsJson xs = true → exNodesVs xs = []
  | [], _ => by simp [exNodesVs]
  | x :: xs, h => by
    simp only [valsJson, Bool.and_eq_true] at h
    simp [exNodesVs, Val.exNodes_json x h.1, exNodesVs_json xs h.2]
theorem exNodesKVs_json : ∀ kvs : List (String × Val), kvsJson kvs = true → exNodesKVs kvs = []
  | [], _ => by simp [exNodesKVs]
  | (s, x) :: xs, h => by
    simp only [kvsJson, Bool.and_eq_true] at h
    simp [exNodesKVs, Val.exNodes_json x h.1, exNodesKVs_json xs h.2]
end

/-- the shallow offset lists of `Lemmas/Positions.lean`, by kind -/
def Ast.offsS (k : Bool) (a : Ast) : List Nat := if k then a.callOffsets else a.sliceOffsets
def offsSL (k : Bool) (as : List Ast) : List Nat := if k then Ast.callOffsetsL as else Ast.sliceOffsetsL as
def offsSK (k : Bool) (as : List (String × Ast)) : List Nat := if k then Ast.callOffsetsK as else Ast.sliceOffsetsK as

mutual
theorem Ast.offsD_litJson (k : Bool) : ∀ a : Ast, a.LitJson = true → a.nodesD.filterMap (OKind.sel k) = a.offsS k
  | .comparison _ _ l r, h => by
    simp only [Ast.LitJson, Bool.and_eq_true] at h
    rw [Ast.nodesD, List.filterMap_append, Ast.offsD_litJson k l h.1, Ast.offsD_litJson k r h.2]
    cases k <;> simp [Ast.offsS, Ast.callOffsets, Ast.sliceOffsets]
  | .condition _ l r, h => by
    simp only [Ast.LitJson, Bool.and_eq_true] at h
    rw [Ast.nodesD, List.filterMap_append, Ast.offsD_litJson k l h.1, Ast.offsD_litJson k r h.2]
    cases k <;> simp [Ast.offsS, Ast.callOffsets, Ast.sliceOffsets]
  | .projection _ l r, h => by
    simp only [Ast.LitJson, Bool.and_eq_true] at h
    rw [Ast.nodesD, List.filterMap_append, Ast.offsD_litJson k l h.1, Ast.offsD_litJson k r h.2]
    cases k <;> simp [Ast.offsS, Ast.callOffsets, Ast.sliceOffsets]
  | .and _ l r, h => by
    simp only [Ast.LitJson, Bool.and_eq_true] at h
    rw [Ast.nodesD, List.filterMap_append, Ast.offsD_litJson k l h.1, Ast.offsD_litJson k r h.2]
    cases k <;> simp [Ast.offsS, Ast.callOffsets, Ast.sliceOffsets]
  | .or _ l r, h => by
    simp only [Ast.LitJson, Bool.and_eq_true] at h
    rw [Ast.nodesD, List.filterMap_append, Ast.offsD_litJson k l h.1, Ast.offsD_litJson k r h.2]
    cases k <;> simp [Ast.offsS, Ast.callOffsets, Ast.sliceOffsets]
  | .subexpr _ l r, h => by
    simp only [Ast.LitJson, Bool.and_eq_true] at h
    rw [Ast.nodesD, List.filterMap_append, Ast.offsD_litJson k l h.1, Ast.offsD_litJson k r h.2]
    cases k <;> simp [Ast.offsS, Ast.callOffsets, Ast.sliceOffsets]
  | .expref _ a, h => by
    simp only [Ast.LitJson] at h
    rw [Ast.nodesD, Ast.offsD_litJson k a h]
    cases k <;> simp [Ast.offsS, Ast.callOffsets, Ast.sliceOffsets]
  | .flatten _ a, h => by
    simp only [Ast.LitJson] at h
    rw [Ast.nodesD, Ast.offsD_litJson k a h]
    cases k <;> simp [Ast.offsS, Ast.callOffsets, Ast.sliceOffsets]
  | .not _ a, h => by
    simp only [Ast.LitJson] at h
    rw [Ast.nodesD, Ast.offsD_litJson k a h]
    cases k <;> simp [Ast.offsS, Ast.callOffsets, Ast.sliceOffsets]
  | .objectValues _ a, h => by
    simp only [Ast.LitJson] at h
    rw [Ast.nodesD, Ast.offsD_litJson k a h]
    cases k <;> simp [Ast.offsS, Ast.callOffsets, Ast.sliceOffsets]
  | .identity _, _ => by cases k <;> simp [Ast.nodesD, Ast.offsS, Ast.callOffsets, Ast.sliceOffsets, OKind.sel]
  | .field _ _, _ => by cases k <;> simp [Ast.nodesD, Ast.offsS, Ast.callOffsets, Ast.sliceOffsets, OKind.sel]
  | .index _ _, _ => by cases k <;> simp [Ast.nodesD, Ast.offsS, Ast.callOffsets, Ast.sliceOffsets, OKind.sel]
  | .slice _ _ _ _, _ => by cases k <;> simp [Ast.nodesD, Ast.offsS, Ast.callOffsets, Ast.sliceOffsets, OKind.sel, OKind.callOff, OKind.sliceOff]
  | .literal _ v, h => by
    simp only [Ast.LitJson] at h
    rw [Ast.nodesD, Val.exNodes_json v h]
    cases k <;> simp [Ast.offsS, Ast.callOffsets, Ast.sliceOffsets]
  | .function o _ args, h => by
    simp only [Ast.LitJson] at h
    rw [Ast.nodesD, List.filterMap_cons]
    have h1 := offsDL_litJson k args h
    cases k
    · simp only [OKind.sel, OKind.sliceOff, if_false, Bool.false_eq_true] at h1 ⊢
      rw [h1]; simp [Ast.offsS, offsSL, Ast.sliceOffsets]
    · simp only [OKind.sel, OKind.callOff, if_true] at h1 ⊢
      rw [h1]; simp [Ast.offsS, offsSL, Ast.callOffsets]
  | .multiList _ es, h => by
    simp only [Ast.LitJson] at h
    rw [Ast.nodesD, offsDL_litJson k es h]
    cases k <;> simp [Ast.offsS, offsSL, Ast.callOffsets, Ast.sliceOffsets]
  | .multiHash _ kvs, h => by
    simp only [Ast.LitJson] at h
    rw [Ast.nodesD, offsDK_litJson k kvs h]
    cases k <;> simp [Ast.offsS, offsSK, Ast.callOffsets, Ast.sliceOffsets]
theorem offsDL_litJson (k : Bool) : ∀ as : List Ast, Ast.litJsonL as = true → (nodesDL as).filterMap (OKind.sel k) = offsSL k as
  | [], _ => by cases k <;> simp [nodesDL, offsSL, Ast.callOffsetsL, Ast.sliceOffsetsL]
  | a :: as, h => by
    simp only [Ast.litJsonL, Bool.and_eq_true] at h
    rw [nodesDL, List.filterMap_append, Ast.offsD_litJson k a h.1, offsDL_litJson k as h.2]
    cases k <;> simp [Ast.offsS, offsSL, Ast.callOffsetsL, Ast.sliceOffsetsL]
theorem offsDK_litJson (k : Bool) : ∀ as : List (String × Ast), Ast.litJsonK as = true → (nodesDK as).filterMap (OKind.sel k) = offsSK k as
  | [], _ => by cases k <;> simp [nodesDK, offsSK, Ast.callOffsetsK, Ast.sliceOffsetsK]
  | (s, a) :: as, h => by
    simp only [Ast.litJsonK, Bool.and_eq_true] at h
    rw [nodesDK, List.filterMap_append, Ast.offsD_litJson k a h.1, offsDK_litJson k as h.2]
    cases k <;> simp [Ast.offsS, offsSK, Ast.callOffsetsK, Ast.sliceOffsetsK]
end

theorem Ast.callOffsetsDeep_eq (a : Ast) (h : a.LitJson = true) : a.callOffsetsDeep = a.callOffsets := by
  simpa [Ast.offsS, Ast.callOffsetsDeep, OKind.sel] using Ast.offsD_litJson true a h
theorem Ast.sliceOffsetsDeep_eq (a : Ast) (h : a.LitJson = true) : a.sliceOffsetsDeep = a.sliceOffsets := by
  simpa [Ast.offsS, Ast.sliceOffsetsDeep, OKind.sel] using Ast.offsD_litJson false a h
theorem Val.exprefCallOffsets_json (v : Val) (h : v.isJson = true) : v.exprefCallOffsets = [] := by
  simp [Val.exprefCallOffsets, Val.exNodes_json v h]
theorem Val.exprefSliceOffsets_json (v : Val) (h : v.isJson = true) : v.exprefSliceOffsets = [] := by
  simp [Val.exprefSliceOffsets, Val.exNodes_json v h]

/-! ### the located-error theorems -/

/-- the predicate the invariant is instantiated with: the node occurs in the tree or in an
expression reference held in the input data -/
def FromInput (a : Ast) (d : Val) (k : OKind) (o : Nat) : Prop := (k, o) ∈ a.nodesD ++ d.exNodes

/-- every outcome of `interp`: expression references in the value returned, and the node a
runtime error points at, come from the tree or from expression references in the data -/
theorem interp_located (rt : Registry) (fuel : Nat) (d : Val) (a : Ast) (off : Nat) :
    ROk (FromInput a d) rt (VOk (FromInput a d)) (interp rt fuel d a off) :=
  (locStep_all (FromInput a d) rt fuel).interp d a off
    (fun _ h => List.mem_append.2 (.inl h)) (fun _ h => List.mem_append.2 (.inr h))

end JmesVerif
