import JmesVerif.Spec.Sem
import JmesVerif.Props.C07
import JmesVerif.Lemmas.SemJson
import JmesVerif.Lemmas.SemSafe
/-
A computable sufficient condition for `SliceSafe`: the *width* of a value is the largest member
count of any array or object inside it; `X.wb b` bounds the width of every value that arises
when evaluating `X` on a document of width ≤ `b`.  Only flatten can make arrays longer than the
widths present in its input (by at most squaring), literals and multi-selects contribute their
own sizes.
-/
namespace JmesVerif
open Spec

mutual
/-- every array and object inside has at most `n` members -/
def Val.Within (n : Nat) : Val → Prop
  | .arr xs => xs.length ≤ n ∧ valsWithin n xs
  | .obj kvs => kvs.length ≤ n ∧ kvsWithin n kvs
  | _ => True
def valsWithin (n : Nat) : List Val → Prop
  | [] => True
  | v :: vs => v.Within n ∧ valsWithin n vs
def kvsWithin (n : Nat) : List (String × Val) → Prop
  | [] => True
  | (_, v) :: r => v.Within n ∧ kvsWithin n r
end

mutual
/-- the largest member count of an array or object inside the value -/
def Val.width : Val → Nat
  | .arr xs => max xs.length (valsWidth xs)
  | .obj kvs => max kvs.length (kvsWidth kvs)
  | _ => 0
def valsWidth : List Val → Nat
  | [] => 0
  | v :: vs => max v.width (valsWidth vs)
def kvsWidth : List (String × Val) → Nat
  | [] => 0
  | (_, v) :: r => max v.width (kvsWidth r)
end

theorem valsWithin_iff {n : Nat} {xs : List Val} : valsWithin n xs ↔ ∀ x ∈ xs, x.Within n := by
  induction xs with
  | nil => simp [valsWithin]
  | cons x r ih => simp [valsWithin, ih]

theorem kvsWithin_iff {n : Nat} {kvs : List (String × Val)} :
    kvsWithin n kvs ↔ ∀ p ∈ kvs, p.2.Within n := by
  induction kvs with
  | nil => simp [kvsWithin]
  | cons p r ih => obtain ⟨k, v⟩ := p; simp [kvsWithin, ih]

theorem arr_within {n : Nat} {xs : List Val} :
    (Val.arr xs).Within n ↔ xs.length ≤ n ∧ ∀ x ∈ xs, x.Within n := by
  simp [Val.Within, valsWithin_iff]

theorem obj_within {n : Nat} {kvs : List (String × Val)} :
    (Val.obj kvs).Within n ↔ kvs.length ≤ n ∧ ∀ p ∈ kvs, p.2.Within n := by
  simp [Val.Within, kvsWithin_iff]

mutual
theorem Val.Within.mono {n m : Nat} (hnm : n ≤ m) : ∀ v : Val, v.Within n → v.Within m
  | .arr xs, h => ⟨Nat.le_trans h.1 hnm, valsWithin_mono hnm xs h.2⟩
  | .obj kvs, h => ⟨Nat.le_trans h.1 hnm, kvsWithin_mono hnm kvs h.2⟩
  | .null, _ => trivial
  | .bool _, _ => trivial
  | .num _, _ => trivial
  | .str _, _ => trivial
  | .expref _, _ => trivial
theorem valsWithin_mono {n m : Nat} (hnm : n ≤ m) : ∀ xs : List Val, valsWithin n xs → valsWithin m xs
  | [], _ => trivial
  | v :: vs, h => ⟨Val.Within.mono hnm v h.1, valsWithin_mono hnm vs h.2⟩
theorem kvsWithin_mono {n m : Nat} (hnm : n ≤ m) :
    ∀ kvs : List (String × Val), kvsWithin n kvs → kvsWithin m kvs
  | [], _ => trivial
  | (_, v) :: r, h => ⟨Val.Within.mono hnm v h.1, kvsWithin_mono hnm r h.2⟩
end

mutual
theorem Val.within_width : ∀ v : Val, v.Within v.width
  | .arr xs => ⟨Nat.le_max_left _ _, valsWithin_mono (Nat.le_max_right _ _) xs (valsWithin_width xs)⟩
  | .obj kvs => ⟨Nat.le_max_left _ _, kvsWithin_mono (Nat.le_max_right _ _) kvs (kvsWithin_width kvs)⟩
  | .null => trivial
  | .bool _ => trivial
  | .num _ => trivial
  | .str _ => trivial
  | .expref _ => trivial
theorem valsWithin_width : ∀ xs : List Val, valsWithin (valsWidth xs) xs
  | [] => trivial
  | v :: vs => ⟨Val.Within.mono (Nat.le_max_left _ _) v (Val.within_width v),
      valsWithin_mono (Nat.le_max_right _ _) vs (valsWithin_width vs)⟩
theorem kvsWithin_width : ∀ kvs : List (String × Val), kvsWithin (kvsWidth kvs) kvs
  | [] => trivial
  | (_, v) :: r => ⟨Val.Within.mono (Nat.le_max_left _ _) v (Val.within_width v),
      kvsWithin_mono (Nat.le_max_right _ _) r (kvsWithin_width r)⟩
end

/-! ### lengths -/

theorem loopUp_len {α : Type} (xs : List α) (b step : Int) :
    ∀ (fuel : Nat) (i : Int) (r : List α), loopUp xs b step fuel i = .ok r → r.length < fuel
  | 0, _, _, h => by simp [loopUp] at h
  | fuel + 1, i, r, h => by
    simp only [loopUp] at h
    split at h
    · split at h
      · simp at h
      · split at h
        · simp at h
        · split at h
          · rename_i r' hr
            simp only [Except.ok.injEq] at h
            subst h
            have := loopUp_len xs b step fuel _ r' hr
            simp; omega
          · simp at h
    · simp only [Except.ok.injEq] at h
      subst h; simp

theorem loopDown_len {α : Type} (xs : List α) (b step : Int) :
    ∀ (fuel : Nat) (i : Int) (r : List α), loopDown xs b step fuel i = .ok r → r.length < fuel
  | 0, _, _, h => by simp [loopDown] at h
  | fuel + 1, i, r, h => by
    simp only [loopDown] at h
    split at h
    · split at h
      · simp at h
      · split at h
        · simp at h
        · split at h
          · rename_i r' hr
            simp only [Except.ok.injEq] at h
            subst h
            have := loopDown_len xs b step fuel _ r' hr
            simp; omega
          · simp at h
    · simp only [Except.ok.injEq] at h
      subst h; simp

theorem sliceList_len {α : Type} (xs : List α) (a b : Option Int) (c : Int) (r : List α)
    (h : sliceList xs a b c = .ok r) : r.length ≤ xs.length := by
  unfold sliceList at h
  simp only [] at h
  split at h
  · simp only [Except.ok.injEq] at h; subst h; simp
  · split at h
    · have := loopUp_len _ _ _ _ _ _ h; omega
    · have := loopDown_len _ _ _ _ _ _ h; omega

theorem pySlice_len {α : Type} (xs : List α) (a b : Option Int) (c : Int) (hc : c ≠ 0)
    (hlen : (xs.length : Int) ≤ I32_MAX) : (pySlice xs a b c).length ≤ xs.length :=
  sliceList_len xs a b c _ (C07_slice_eq_python xs a b c hc hlen)

theorem optMapM_len {f : Val → Option Val} :
    ∀ {xs ys : List Val}, Sem.optMapM f xs = some ys → ys.length = xs.length
  | [], ys, h => by simp [Sem.optMapM] at h; subst h; rfl
  | x :: r, ys, h => by
    simp only [Sem.optMapM] at h
    cases hfx : f x with
    | none => simp [hfx] at h
    | some v =>
      simp only [hfx] at h
      cases hm : Sem.optMapM f r with
      | none => simp [hm] at h
      | some zs =>
        simp only [hm, Option.map_some, Option.some.injEq] at h
        subst h
        simp [optMapM_len hm]

theorem dropNulls_len (ys : List Val) : (Sem.dropNulls ys).length ≤ ys.length := by
  unfold Sem.dropNulls; exact List.length_filter_le _ _

theorem values_len (kvs : List (String × Val)) : (Sem.values kvs).length = kvs.length := by
  simp [Sem.values]

theorem flatten1_len_aux {b : Nat} (hb : 1 ≤ b) :
    ∀ xs : List Val, (∀ x ∈ xs, x.Within b) → (Sem.flatten1 xs).length ≤ xs.length * b
  | [], _ => by simp [Sem.flatten1]
  | x :: r, h => by
    have ih := flatten1_len_aux hb r (fun y hy => h y (by simp [hy]))
    have hx := h x (by simp)
    cases x with
    | arr ys =>
      have := (arr_within.mp hx).1
      simp only [Sem.flatten1, List.length_append, List.length_cons, Nat.add_mul, Nat.one_mul]
      omega
    | _ =>
      simp only [Sem.flatten1, List.length_cons, Nat.add_mul, Nat.one_mul]
      omega

theorem flatten1_len {b : Nat} {xs : List Val} (h : (Val.arr xs).Within b) :
    (Sem.flatten1 xs).length ≤ b * b := by
  obtain ⟨hl, hx⟩ := arr_within.mp h
  by_cases hb : 1 ≤ b
  · exact Nat.le_trans (flatten1_len_aux hb xs hx) (Nat.mul_le_mul_right b hl)
  · have : xs = [] := by
      cases xs with
      | nil => rfl
      | cons => simp at hl; omega
    subst this; simp [Sem.flatten1]

theorem flatten1_within {b : Nat} {xs : List Val} (h : (Val.arr xs).Within b) :
    ∀ x ∈ Sem.flatten1 xs, x.Within b := by
  intro x hx
  have hh := (arr_within.mp h).2
  rcases mem_flatten1 hx with hx | ⟨ys, h1, h2⟩
  · exact hh x hx
  · exact (arr_within.mp (hh _ h1)).2 x h2

theorem values_within {b : Nat} {kvs : List (String × Val)} (h : (Val.obj kvs).Within b) :
    ∀ x ∈ Sem.values kvs, x.Within b := by
  intro x hx
  obtain ⟨p, hp, rfl⟩ := mem_values hx
  exact (obj_within.mp h).2 p hp

theorem insertKV_len {β : Type} (k : String) (v : β) (acc : List (String × β)) :
    (insertKV k v acc).length ≤ acc.length + 1 := by
  induction acc with
  | nil => simp [insertKV]
  | cons q r ih =>
    obtain ⟨k', v'⟩ := q
    simp only [insertKV]
    split
    · simp
    · split
      · simp
      · simp only [List.length_cons]; omega

theorem field_within {b : Nat} {d : Val} (k : String) (hd : d.Within b) : (Sem.field d k).Within b := by
  cases d with
  | obj kvs =>
    simp only [Sem.field]
    cases h : Val.lookup k kvs with
    | none => trivial
    | some v => exact (obj_within.mp hd).2 _ (lookup_mem h)
  | _ => trivial

theorem index_within {b : Nat} {d : Val} (n : Int) (hd : d.Within b) : (Sem.index d n).Within b := by
  cases d with
  | arr xs =>
    simp only [Sem.index]
    cases h : pyIndex xs n with
    | none => trivial
    | some v => exact (arr_within.mp hd).2 _ (mem_pyIndex h)
  | _ => trivial

theorem cmpVal_within (W : Nat) (o : Cmp) (l r : Val) : (Sem.cmpVal o l r).Within W := by
  unfold Sem.cmpVal; cases Val.compare o l r <;> trivial

/-- the result of a projection over a list of at most `W` elements whose images are within `W` -/
theorem proj_within {f : Val → Option Val} {xs : List Val} {W : Nat} {v : Val}
    (hlen : xs.length ≤ W)
    (hf : ∀ x ∈ xs, ∀ y, f x = some y → y.Within W)
    (h : ((Sem.optMapM f xs).map fun ys => Val.arr (Sem.dropNulls ys)) = some v) :
    v.Within W := by
  cases hm : Sem.optMapM f xs with
  | none => simp [hm] at h
  | some ys =>
    simp only [hm, Option.map_some, Option.some.injEq] at h
    subst h
    refine arr_within.mpr ⟨?_, fun y hy => ?_⟩
    · have := dropNulls_len ys
      have := optMapM_len hm
      omega
    · obtain ⟨x, hx, hfx⟩ := optMapM_mem hm y (mem_dropNulls hy)
      exact hf x hx y hfx

/-! ### the width bound of an expression -/
mutual
/-- `h.wb b`: bound on the width of every value arising when `h` is evaluated on a document of
width ≤ `b` (and of the result) -/
def Nud.wb (b : Nat) : Nud → Nat
  | .lit v => max b v.width
  | .paren e | .not e => max b (e.wb b)
  | .mlist es => max (max b es.length) (exprsWb b es)
  | .mhash kvs => max (max b kvs.length) (kvsWb b kvs)
  | .wildIdx r | .star r | .slice _ r => max b (r.wb b)
  | .flatten r => max (max b (b * b)) (r.wb b)
  | .filter p r => max b (max (p.wb b) (r.wb b))
  | _ => b
/-- `b` bounds both the current node and the left value -/
def Led.wb (b : Nat) : Led → Nat
  | .dot dr => max b (dr.wb b)
  | .pipe e | .or e | .and e | .cmp _ e => max b (e.wb b)
  | .wildIdxL r | .dotStar r | .sliceL _ r => max b (r.wb b)
  | .flattenL r => max (max b (b * b)) (r.wb b)
  | .filterL p r => max b (max (p.wb b) (r.wb b))
  | _ => b
def Rhs.wb (b : Nat) : Rhs → Nat
  | .none => b
  | .dot dr => max b (dr.wb b)
  | .bracket e => max b (e.wb b)
def DotRhs.wb (b : Nat) : DotRhs → Nat
  | .mlist es => max (max b es.length) (exprsWb b es)
  | .expr e => max b (e.wb b)
def Expr.wb (b : Nat) : Expr → Nat
  | .mk h ls => ledsWb (h.wb b) ls
def ledsWb (b : Nat) : List Led → Nat
  | [] => b
  | l :: ls => ledsWb (l.wb b) ls
def exprsWb (b : Nat) : List Expr → Nat
  | [] => b
  | e :: es => max (e.wb b) (exprsWb b es)
def kvsWb (b : Nat) : List (Bool × String × Expr) → Nat
  | [] => b
  | (_, _, e) :: r => max (e.wb b) (kvsWb b r)
end

theorem Nud.le_wb (b : Nat) (h : Nud) : b ≤ h.wb b := by
  cases h <;> simp only [Nud.wb] <;> omega
theorem Led.le_wb (b : Nat) (l : Led) : b ≤ l.wb b := by
  cases l <;> simp only [Led.wb] <;> omega
theorem Rhs.le_wb (b : Nat) (r : Rhs) : b ≤ r.wb b := by
  cases r <;> simp only [Rhs.wb] <;> omega
theorem ledsWb_le : ∀ (ls : List Led) (b : Nat), b ≤ ledsWb b ls
  | [], b => by simp [ledsWb]
  | l :: ls, b => by
    simp only [ledsWb]
    exact Nat.le_trans (Led.le_wb b l) (ledsWb_le ls _)
theorem Expr.le_wb (b : Nat) : ∀ e : Expr, b ≤ e.wb b
  | .mk h ls => by
    simp only [Expr.wb]
    exact Nat.le_trans (Nud.le_wb b h) (ledsWb_le ls _)

/-- the cap: `i32::MAX` as a natural number -/
abbrev CAP : Nat := 2147483647

theorem cap_int {n : Nat} (h : n ≤ CAP) : (n : Int) ≤ I32_MAX := by
  unfold I32_MAX; unfold CAP at h; omega

/-! ### evaluation stays within the bound, hence every slice is safe -/

theorem proj_w {r : Rhs} {b W : Nat} {xs : List Val}
    (ih : ∀ x : Val, x.Within b → SliceSafe.rhs x r ∧ ∀ v, Sem.rhs x r = some v → v.Within (r.wb b))
    (hx : ∀ x ∈ xs, x.Within b) (hlen : xs.length ≤ W) (hW : r.wb b ≤ W) :
    (∀ x ∈ xs, SliceSafe.rhs x r) ∧
    ∀ v, ((Sem.optMapM (fun x => Sem.rhs x r) xs).map fun ys => Val.arr (Sem.dropNulls ys)) = some v →
      v.Within W :=
  ⟨fun x h => (ih x (hx x h)).1,
   fun _ h => proj_within hlen (fun x hxm y hy => Val.Within.mono hW y ((ih x (hx x hxm)).2 y hy)) h⟩

theorem filt_w {p : Expr} {r : Rhs} {b W : Nat} {xs : List Val}
    (ihp : ∀ x : Val, x.Within b → SliceSafe.expr x p)
    (ih : ∀ x : Val, x.Within b → SliceSafe.rhs x r ∧ ∀ v, Sem.rhs x r = some v → v.Within (r.wb b))
    (hx : ∀ x ∈ xs, x.Within b) (hlen : xs.length ≤ W) (hW : r.wb b ≤ W) :
    (∀ x ∈ xs, SliceSafe.expr x p ∧
      ∀ c, Sem.expr x p = some c → Sem.truthy c = true → SliceSafe.rhs x r) ∧
    ∀ v, ((Sem.optMapM (fun x => match Sem.expr x p with
        | none => none
        | some c => if Sem.truthy c then Sem.rhs x r else some .null) xs).map
          fun ys => Val.arr (Sem.dropNulls ys)) = some v → v.Within W := by
  refine ⟨fun x h => ⟨ihp x (hx x h), fun _ _ _ => (ih x (hx x h)).1⟩, fun v h => ?_⟩
  refine proj_within hlen (fun x hxm y hy => ?_) h
  cases hp : Sem.expr x p with
  | none => simp [hp] at hy
  | some c =>
    simp only [hp] at hy
    split at hy
    · exact Val.Within.mono hW y ((ih x (hx x hxm)).2 y hy)
    · simp at hy; subst hy; trivial

mutual
theorem nud_w : ∀ (h : Nud) (b : Nat) (d : Val), d.Within b → h.wb b ≤ CAP →
    SliceSafe.nud d h ∧ ∀ v, Sem.nud d h = some v → v.Within (h.wb b)
  | .at, b, d, hd, _ => ⟨trivial, fun v hv => by simp [Sem.nud] at hv; subst hv; exact hd⟩
  | .field s, b, d, hd, _ => ⟨trivial, fun v hv => by simp [Sem.nud] at hv; subst hv; exact field_within s hd⟩
  | .qfield s, b, d, hd, _ => ⟨trivial, fun v hv => by simp [Sem.nud] at hv; subst hv; exact field_within s hd⟩
  | .idx n, b, d, hd, _ => ⟨trivial, fun v hv => by simp [Sem.nud] at hv; subst hv; exact index_within n hd⟩
  | .call _ _, b, d, hd, _ => ⟨trivial, fun v hv => by simp [Sem.nud] at hv⟩
  | .expref _, b, d, hd, _ => ⟨trivial, fun v hv => by simp [Sem.nud] at hv⟩
  | .lit w, b, d, hd, _ => ⟨trivial, fun v hv => by
      simp [Sem.nud] at hv; subst hv
      exact Val.Within.mono (by simp only [Nud.wb]; omega) _ (Val.within_width _)⟩
  | .paren e, b, d, hd, hb => by
    simp only [Nud.wb] at hb ⊢
    have ih := expr_w e b d hd (by omega)
    exact ⟨ih.1, fun v hv => Val.Within.mono (by omega) v (ih.2 v hv)⟩
  | .not e, b, d, hd, hb => by
    simp only [Nud.wb] at hb ⊢
    have ih := expr_w e b d hd (by omega)
    refine ⟨ih.1, fun v hv => ?_⟩
    simp only [Sem.nud] at hv
    cases h : Sem.expr d e <;> simp [h] at hv
    subst hv; trivial
  | .mlist es, b, d, hd, hb => by
    simp only [Nud.wb] at hb ⊢
    have ih := exprs_w es b d hd (by omega)
    refine ⟨fun _ => ih.1, fun v hv => ?_⟩
    simp only [Sem.nud] at hv
    split at hv
    · simp at hv; subst hv; trivial
    · cases h : Sem.exprs d es <;> simp [h] at hv
      subst hv
      obtain ⟨h1, h2⟩ := ih.2 _ h
      exact arr_within.mpr ⟨by omega, fun x hx => Val.Within.mono (by omega) x (h2 x hx)⟩
  | .mhash kvs, b, d, hd, hb => by
    simp only [Nud.wb] at hb ⊢
    have ih := kvs_w kvs b d hd (by omega)
    refine ⟨fun _ => ih.1, fun v hv => ?_⟩
    simp only [Sem.nud] at hv
    split at hv
    · simp at hv; subst hv; trivial
    · cases h : Sem.kvs' d kvs [] <;> simp [h] at hv
      subst hv
      obtain ⟨h1, h2⟩ := ih.2 (kvsWb b kvs) [] _ (Nat.le_refl _) (by simp) h
      simp only [List.length_nil, Nat.zero_add] at h1
      exact obj_within.mpr ⟨by omega, fun x hx => Val.Within.mono (by omega) _ (h2 x hx)⟩
  | .wildIdx r, b, d, hd, hb => by
    simp only [Nud.wb] at hb ⊢
    simp only [SliceSafe.nud, Sem.nud]
    cases d with
    | arr xs =>
      obtain ⟨hl, hx⟩ := arr_within.mp hd
      have := proj_w (W := max b (r.wb b)) (fun x hx => rhs_w r b x hx (by omega)) hx (by omega) (by omega)
      exact ⟨fun ys h x hx' => (by cases h; exact this.1 x hx'), this.2⟩
    | _ => exact ⟨fun ys h => (by cases h), fun v hv => (by simp at hv; subst hv; trivial)⟩
  | .star r, b, d, hd, hb => by
    simp only [Nud.wb] at hb ⊢
    simp only [SliceSafe.nud, Sem.nud]
    cases d with
    | obj m =>
      have hl := (obj_within.mp hd).1
      have := proj_w (W := max b (r.wb b)) (fun x hx => rhs_w r b x hx (by omega)) (values_within hd)
        (by rw [values_len]; omega) (by omega)
      exact ⟨fun ys h x hx' => (by cases h; exact this.1 x hx'), this.2⟩
    | _ => exact ⟨fun ys h => (by cases h), fun v hv => (by simp at hv; subst hv; trivial)⟩
  | .flatten r, b, d, hd, hb => by
    simp only [Nud.wb] at hb ⊢
    simp only [SliceSafe.nud, Sem.nud]
    cases d with
    | arr xs =>
      have hl := flatten1_len hd
      have := proj_w (W := max (max b (b * b)) (r.wb b)) (fun x hx => rhs_w r b x hx (by omega))
        (flatten1_within hd) (by omega) (by omega)
      exact ⟨fun ys h x hx' => (by cases h; exact this.1 x hx'), this.2⟩
    | _ => exact ⟨fun ys h => (by cases h), fun v hv => (by simp at hv; subst hv; trivial)⟩
  | .slice h r, b, d, hd, hb => by
    simp only [Nud.wb] at hb ⊢
    simp only [SliceSafe.nud, Sem.nud]
    by_cases h0 : h.step = 0
    · exact ⟨fun hne => absurd h0 hne, fun v hv => (by simp [h0] at hv)⟩
    · simp only [h0, if_false]
      cases d with
      | arr xs =>
        obtain ⟨hl, hx⟩ := arr_within.mp hd
        have hcap : (xs.length : Int) ≤ I32_MAX := cap_int (by omega)
        have hpl := pySlice_len xs h.a h.b h.step h0 hcap
        have := proj_w (W := max b (r.wb b)) (xs := pySlice xs h.a h.b h.step)
          (fun x hx => rhs_w r b x hx (by omega))
          (fun x hx' => hx x (mem_pySlice hx')) (by omega) (by omega)
        exact ⟨fun _ ys hh => (by cases hh; exact ⟨hcap, this.1⟩), this.2⟩
      | _ => exact ⟨fun _ ys h => (by cases h), fun v hv => (by simp at hv; subst hv; trivial)⟩
  | .filter p r, b, d, hd, hb => by
    simp only [Nud.wb] at hb ⊢
    simp only [SliceSafe.nud, Sem.nud]
    cases d with
    | arr xs =>
      obtain ⟨hl, hx⟩ := arr_within.mp hd
      have := filt_w (W := max b (max (p.wb b) (r.wb b)))
        (fun x hx => (expr_w p b x hx (by omega)).1)
        (fun x hx => rhs_w r b x hx (by omega)) hx (by omega) (by omega)
      exact ⟨fun ys h x hx' => (by cases h; exact this.1 x hx'), this.2⟩
    | _ => exact ⟨fun ys h => (by cases h), fun v hv => (by simp at hv; subst hv; trivial)⟩
theorem led_w : ∀ (l : Led) (b : Nat) (d lv : Val), d.Within b → lv.Within b → l.wb b ≤ CAP →
    SliceSafe.led d lv l ∧ ∀ v, Sem.led d lv l = some v → v.Within (l.wb b)
  | .callDev _, b, d, lv, hd, hl, _ => ⟨trivial, fun v hv => by simp [Sem.led] at hv⟩
  | .index n, b, d, lv, hd, hl, _ =>
    ⟨trivial, fun v hv => by simp [Sem.led] at hv; subst hv; exact index_within n hl⟩
  | .dot dr, b, d, lv, hd, hl, hb => by
    simp only [Led.wb] at hb ⊢
    have ih := dot_w dr b lv hl (by omega)
    exact ⟨ih.1, fun v hv => Val.Within.mono (by omega) v (ih.2 v hv)⟩
  | .pipe e, b, d, lv, hd, hl, hb => by
    simp only [Led.wb] at hb ⊢
    have ih := expr_w e b lv hl (by omega)
    exact ⟨ih.1, fun v hv => Val.Within.mono (by omega) v (ih.2 v hv)⟩
  | .or e, b, d, lv, hd, hl, hb => by
    simp only [Led.wb] at hb ⊢
    have ih := expr_w e b d hd (by omega)
    refine ⟨fun _ => ih.1, fun v hv => ?_⟩
    simp only [Sem.led] at hv
    split at hv
    · simp at hv; subst hv; exact Val.Within.mono (by omega) _ hl
    · exact Val.Within.mono (by omega) v (ih.2 v hv)
  | .and e, b, d, lv, hd, hl, hb => by
    simp only [Led.wb] at hb ⊢
    have ih := expr_w e b d hd (by omega)
    refine ⟨fun _ => ih.1, fun v hv => ?_⟩
    simp only [Sem.led] at hv
    split at hv
    · simp at hv; subst hv; exact Val.Within.mono (by omega) _ hl
    · exact Val.Within.mono (by omega) v (ih.2 v hv)
  | .cmp o e, b, d, lv, hd, hl, hb => by
    simp only [Led.wb] at hb ⊢
    have ih := expr_w e b d hd (by omega)
    refine ⟨ih.1, fun v hv => ?_⟩
    simp only [Sem.led] at hv
    cases h : Sem.expr d e <;> simp [h] at hv
    subst hv; exact cmpVal_within _ _ _ _
  | .wildIdxL r, b, d, lv, hd, hlv, hb => by
    simp only [Led.wb] at hb ⊢
    simp only [SliceSafe.led, Sem.led]
    cases lv with
    | arr xs =>
      obtain ⟨hl, hx⟩ := arr_within.mp hlv
      have := proj_w (W := max b (r.wb b)) (fun x hx => rhs_w r b x hx (by omega)) hx (by omega) (by omega)
      exact ⟨fun ys h x hx' => (by cases h; exact this.1 x hx'), this.2⟩
    | _ => exact ⟨fun ys h => (by cases h), fun v hv => (by simp at hv; subst hv; trivial)⟩
  | .dotStar r, b, d, lv, hd, hlv, hb => by
    simp only [Led.wb] at hb ⊢
    simp only [SliceSafe.led, Sem.led]
    cases lv with
    | obj m =>
      have hl := (obj_within.mp hlv).1
      have := proj_w (W := max b (r.wb b)) (fun x hx => rhs_w r b x hx (by omega)) (values_within hlv)
        (by rw [values_len]; omega) (by omega)
      exact ⟨fun ys h x hx' => (by cases h; exact this.1 x hx'), this.2⟩
    | _ => exact ⟨fun ys h => (by cases h), fun v hv => (by simp at hv; subst hv; trivial)⟩
  | .flattenL r, b, d, lv, hd, hlv, hb => by
    simp only [Led.wb] at hb ⊢
    simp only [SliceSafe.led, Sem.led]
    cases lv with
    | arr xs =>
      have hl := flatten1_len hlv
      have := proj_w (W := max (max b (b * b)) (r.wb b)) (fun x hx => rhs_w r b x hx (by omega))
        (flatten1_within hlv) (by omega) (by omega)
      exact ⟨fun ys h x hx' => (by cases h; exact this.1 x hx'), this.2⟩
    | _ => exact ⟨fun ys h => (by cases h), fun v hv => (by simp at hv; subst hv; trivial)⟩
  | .sliceL h r, b, d, lv, hd, hlv, hb => by
    simp only [Led.wb] at hb ⊢
    simp only [SliceSafe.led, Sem.led]
    by_cases h0 : h.step = 0
    · exact ⟨fun hne => absurd h0 hne, fun v hv => (by simp [h0] at hv)⟩
    · simp only [h0, if_false]
      cases lv with
      | arr xs =>
        obtain ⟨hl, hx⟩ := arr_within.mp hlv
        have hcap : (xs.length : Int) ≤ I32_MAX := cap_int (by omega)
        have hpl := pySlice_len xs h.a h.b h.step h0 hcap
        have := proj_w (W := max b (r.wb b)) (xs := pySlice xs h.a h.b h.step)
          (fun x hx => rhs_w r b x hx (by omega))
          (fun x hx' => hx x (mem_pySlice hx')) (by omega) (by omega)
        exact ⟨fun _ ys hh => (by cases hh; exact ⟨hcap, this.1⟩), this.2⟩
      | _ => exact ⟨fun _ ys h => (by cases h), fun v hv => (by simp at hv; subst hv; trivial)⟩
  | .filterL p r, b, d, lv, hd, hlv, hb => by
    simp only [Led.wb] at hb ⊢
    simp only [SliceSafe.led, Sem.led]
    cases lv with
    | arr xs =>
      obtain ⟨hl, hx⟩ := arr_within.mp hlv
      have := filt_w (W := max b (max (p.wb b) (r.wb b)))
        (fun x hx => (expr_w p b x hx (by omega)).1)
        (fun x hx => rhs_w r b x hx (by omega)) hx (by omega) (by omega)
      exact ⟨fun ys h x hx' => (by cases h; exact this.1 x hx'), this.2⟩
    | _ => exact ⟨fun ys h => (by cases h), fun v hv => (by simp at hv; subst hv; trivial)⟩
theorem rhs_w : ∀ (r : Rhs) (b : Nat) (el : Val), el.Within b → r.wb b ≤ CAP →
    SliceSafe.rhs el r ∧ ∀ v, Sem.rhs el r = some v → v.Within (r.wb b)
  | .none, b, el, hel, _ => ⟨trivial, fun v hv => by simp [Sem.rhs] at hv; subst hv; exact hel⟩
  | .dot dr, b, el, hel, hb => by
    simp only [Rhs.wb] at hb ⊢
    have ih := dot_w dr b el hel (by omega)
    exact ⟨ih.1, fun v hv => Val.Within.mono (by omega) v (ih.2 v hv)⟩
  | .bracket e, b, el, hel, hb => by
    simp only [Rhs.wb] at hb ⊢
    have ih := expr_w e b el hel (by omega)
    exact ⟨ih.1, fun v hv => Val.Within.mono (by omega) v (ih.2 v hv)⟩
theorem dot_w : ∀ (dr : DotRhs) (b : Nat) (el : Val), el.Within b → dr.wb b ≤ CAP →
    SliceSafe.dot el dr ∧ ∀ v, Sem.dot el dr = some v → v.Within (dr.wb b)
  | .mlist es, b, el, hel, hb => by
    simp only [DotRhs.wb] at hb ⊢
    have ih := exprs_w es b el hel (by omega)
    refine ⟨fun _ => ih.1, fun v hv => ?_⟩
    simp only [Sem.dot] at hv
    split at hv
    · simp at hv; subst hv; trivial
    · cases h : Sem.exprs el es <;> simp [h] at hv
      subst hv
      obtain ⟨h1, h2⟩ := ih.2 _ h
      exact arr_within.mpr ⟨by omega, fun x hx => Val.Within.mono (by omega) x (h2 x hx)⟩
  | .expr e, b, el, hel, hb => by
    simp only [DotRhs.wb] at hb ⊢
    have ih := expr_w e b el hel (by omega)
    exact ⟨ih.1, fun v hv => Val.Within.mono (by omega) v (ih.2 v hv)⟩
theorem expr_w : ∀ (e : Expr) (b : Nat) (d : Val), d.Within b → e.wb b ≤ CAP →
    SliceSafe.expr d e ∧ ∀ v, Sem.expr d e = some v → v.Within (e.wb b)
  | .mk h ls, b, d, hd, hb => by
    simp only [Expr.wb] at hb ⊢
    have hle := ledsWb_le ls (h.wb b)
    have ihn := nud_w h b d hd (by omega)
    have hd' : d.Within (h.wb b) := Val.Within.mono (Nud.le_wb b h) d hd
    simp only [SliceSafe.expr, Sem.expr]
    refine ⟨⟨ihn.1, fun v hv => (leds_w ls (h.wb b) d v hd' (ihn.2 v hv) hb).1⟩, fun v hv => ?_⟩
    cases hn : Sem.nud d h with
    | none => simp [hn] at hv
    | some w =>
      simp only [hn] at hv
      exact (leds_w ls (h.wb b) d w hd' (ihn.2 w hn) hb).2 v hv
theorem leds_w : ∀ (ls : List Led) (b : Nat) (d lv : Val), d.Within b → lv.Within b →
    ledsWb b ls ≤ CAP →
    SliceSafe.leds d lv ls ∧ ∀ v, Sem.leds d lv ls = some v → v.Within (ledsWb b ls)
  | [], b, d, lv, hd, hl, _ => ⟨trivial, fun v hv => by simp [Sem.leds] at hv; subst hv; exact hl⟩
  | l :: ls, b, d, lv, hd, hl, hb => by
    simp only [ledsWb] at hb ⊢
    have hle := ledsWb_le ls (l.wb b)
    have ihl := led_w l b d lv hd hl (by omega)
    have hd' : d.Within (l.wb b) := Val.Within.mono (Led.le_wb b l) d hd
    simp only [SliceSafe.leds, Sem.leds]
    refine ⟨⟨ihl.1, fun v hv => (leds_w ls (l.wb b) d v hd' (ihl.2 v hv) hb).1⟩, fun v hv => ?_⟩
    cases hn : Sem.led d lv l with
    | none => simp [hn] at hv
    | some w =>
      simp only [hn] at hv
      exact (leds_w ls (l.wb b) d w hd' (ihl.2 w hn) hb).2 v hv
theorem exprs_w : ∀ (es : List Expr) (b : Nat) (d : Val), d.Within b → exprsWb b es ≤ CAP →
    SliceSafe.exprs d es ∧ ∀ vs, Sem.exprs d es = some vs →
      vs.length = es.length ∧ ∀ v ∈ vs, v.Within (exprsWb b es)
  | [], b, d, hd, _ => ⟨trivial, fun vs hv => by simp [Sem.exprs] at hv; subst hv; simp⟩
  | e :: es, b, d, hd, hb => by
    simp only [exprsWb] at hb ⊢
    have ihe := expr_w e b d hd (by omega)
    have ihs := exprs_w es b d hd (by omega)
    refine ⟨⟨ihe.1, ihs.1⟩, fun vs hv => ?_⟩
    simp only [Sem.exprs] at hv
    cases he : Sem.expr d e with
    | none => simp [he] at hv
    | some w =>
      simp only [he] at hv
      cases hes : Sem.exprs d es with
      | none => simp [hes] at hv
      | some ws =>
        simp only [hes, Option.map_some, Option.some.injEq] at hv
        subst hv
        obtain ⟨h1, h2⟩ := ihs.2 ws hes
        refine ⟨by simp [h1], fun v hv => ?_⟩
        rcases List.mem_cons.mp hv with rfl | hv
        · exact Val.Within.mono (by omega) _ (ihe.2 _ he)
        · exact Val.Within.mono (by omega) _ (h2 v hv)
theorem kvs_w : ∀ (kvs : List (Bool × String × Expr)) (b : Nat) (d : Val), d.Within b →
    kvsWb b kvs ≤ CAP →
    SliceSafe.kvs d kvs ∧ ∀ (W : Nat) (acc m : List (String × Val)), kvsWb b kvs ≤ W →
      (∀ p ∈ acc, p.2.Within W) → Sem.kvs' d kvs acc = some m →
      m.length ≤ acc.length + kvs.length ∧ ∀ p ∈ m, p.2.Within W
  | [], b, d, hd, _ =>
    ⟨trivial, fun W acc m _ hacc hm => by simp [Sem.kvs'] at hm; subst hm; exact ⟨by simp, hacc⟩⟩
  | (_, k, e) :: r, b, d, hd, hb => by
    simp only [kvsWb] at hb ⊢
    have ihe := expr_w e b d hd (by omega)
    have ihs := kvs_w r b d hd (by omega)
    refine ⟨⟨ihe.1, ihs.1⟩, fun W acc m hW hacc hm => ?_⟩
    simp only [Sem.kvs'] at hm
    cases he : Sem.expr d e with
    | none => simp [he] at hm
    | some w =>
      simp only [he] at hm
      have hacc' : ∀ p ∈ insertKV k w acc, p.2.Within W := by
        intro p hp
        rcases mem_insertKV hp with rfl | hp
        · exact Val.Within.mono (by omega) _ (ihe.2 _ he)
        · exact hacc p hp
      obtain ⟨h1, h2⟩ := ihs.2 W _ m (by omega) hacc' hm
      have := insertKV_len k w acc
      exact ⟨by simp only [List.length_cons]; omega, h2⟩
end

/-! ### flatten-free expressions: the bound is just "everything is small" -/

mutual
theorem Val.width_le {n : Nat} : ∀ v : Val, v.Within n → v.width ≤ n
  | .arr xs, h => by
    simp only [Val.width]; have := h.1; have := valsWidth_le xs h.2; omega
  | .obj kvs, h => by
    simp only [Val.width]; have := h.1; have := kvsWidth_le kvs h.2; omega
  | .null, _ => Nat.zero_le _
  | .bool _, _ => Nat.zero_le _
  | .num _, _ => Nat.zero_le _
  | .str _, _ => Nat.zero_le _
  | .expref _, _ => Nat.zero_le _
theorem valsWidth_le {n : Nat} : ∀ xs : List Val, valsWithin n xs → valsWidth xs ≤ n
  | [], _ => Nat.zero_le _
  | v :: vs, h => by
    simp only [valsWidth]; have := Val.width_le v h.1; have := valsWidth_le vs h.2; omega
theorem kvsWidth_le {n : Nat} : ∀ kvs : List (String × Val), kvsWithin n kvs → kvsWidth kvs ≤ n
  | [], _ => Nat.zero_le _
  | (_, v) :: r, h => by
    simp only [kvsWidth]; have := Val.width_le v h.1; have := kvsWidth_le r h.2; omega
end

/-- arrays and objects have at most `i32::MAX` members, hereditarily -/
def Val.Small (v : Val) : Prop := v.Within CAP

mutual
/-- every literal is `Small` and every multi-select has at most `i32::MAX` members -/
def Nud.Small : Nud → Prop
  | .lit v => v.Small
  | .call _ args => exprsSmall args
  | .star r | .slice _ r | .wildIdx r | .flatten r => r.Small
  | .mlist es => es.length ≤ CAP ∧ exprsSmall es
  | .mhash kvs => kvs.length ≤ CAP ∧ kvsSmall kvs
  | .not e | .paren e | .expref e => e.Small
  | .filter p r => p.Small ∧ r.Small
  | _ => True
def Led.Small : Led → Prop
  | .dotStar r | .sliceL _ r | .wildIdxL r | .flattenL r => r.Small
  | .dot d => d.Small
  | .or e | .and e | .pipe e | .cmp _ e => e.Small
  | .filterL p r => p.Small ∧ r.Small
  | .callDev args => exprsSmall args
  | .index _ => True
def Rhs.Small : Rhs → Prop
  | .none => True
  | .dot d => d.Small
  | .bracket e => e.Small
def DotRhs.Small : DotRhs → Prop
  | .mlist es => es.length ≤ CAP ∧ exprsSmall es
  | .expr e => e.Small
def Expr.Small : Expr → Prop
  | .mk h ls => h.Small ∧ ledsSmall ls
def ledsSmall : List Led → Prop
  | [] => True
  | l :: ls => l.Small ∧ ledsSmall ls
def exprsSmall : List Expr → Prop
  | [] => True
  | e :: es => e.Small ∧ exprsSmall es
def kvsSmall : List (Bool × String × Expr) → Prop
  | [] => True
  | (_, _, e) :: r => e.Small ∧ kvsSmall r
end

mutual
/-- the expression contains no flatten (`[]`) -/
def Nud.flattenFree : Nud → Bool
  | .flatten _ => false
  | .call _ args => exprsFlattenFree args
  | .star r | .slice _ r | .wildIdx r => r.flattenFree
  | .mlist es => exprsFlattenFree es
  | .mhash kvs => kvsFlattenFree kvs
  | .not e | .paren e | .expref e => e.flattenFree
  | .filter p r => p.flattenFree && r.flattenFree
  | _ => true
def Led.flattenFree : Led → Bool
  | .flattenL _ => false
  | .dotStar r | .sliceL _ r | .wildIdxL r => r.flattenFree
  | .dot d => d.flattenFree
  | .or e | .and e | .pipe e | .cmp _ e => e.flattenFree
  | .filterL p r => p.flattenFree && r.flattenFree
  | .callDev args => exprsFlattenFree args
  | .index _ => true
def Rhs.flattenFree : Rhs → Bool
  | .none => true
  | .dot d => d.flattenFree
  | .bracket e => e.flattenFree
def DotRhs.flattenFree : DotRhs → Bool
  | .mlist es => exprsFlattenFree es
  | .expr e => e.flattenFree
def Expr.flattenFree : Expr → Bool
  | .mk h ls => h.flattenFree && ledsFlattenFree ls
def ledsFlattenFree : List Led → Bool
  | [] => true
  | l :: ls => l.flattenFree && ledsFlattenFree ls
def exprsFlattenFree : List Expr → Bool
  | [] => true
  | e :: es => e.flattenFree && exprsFlattenFree es
def kvsFlattenFree : List (Bool × String × Expr) → Bool
  | [] => true
  | (_, _, e) :: r => e.flattenFree && kvsFlattenFree r
end

mutual
theorem Nud.wb_cap : ∀ h : Nud, h.Small → h.flattenFree = true → h.wb CAP = CAP
  | .at, _, _ => rfl
  | .field _, _, _ => rfl
  | .qfield _, _, _ => rfl
  | .idx _, _, _ => rfl
  | .call _ _, _, _ => rfl
  | .expref _, _, _ => rfl
  | .lit v, hs, _ => by
    simp only [Nud.Small, Val.Small] at hs
    have := Val.width_le v hs
    simp only [Nud.wb]; omega
  | .paren e, hs, hf => by
    simp only [Nud.Small] at hs; simp only [Nud.flattenFree] at hf
    simp only [Nud.wb, Expr.wb_cap e hs hf]; omega
  | .not e, hs, hf => by
    simp only [Nud.Small] at hs; simp only [Nud.flattenFree] at hf
    simp only [Nud.wb, Expr.wb_cap e hs hf]; omega
  | .mlist es, hs, hf => by
    simp only [Nud.Small] at hs; simp only [Nud.flattenFree] at hf
    have := hs.1
    simp only [Nud.wb, exprsWb_cap es hs.2 hf]; omega
  | .mhash kvs, hs, hf => by
    simp only [Nud.Small] at hs; simp only [Nud.flattenFree] at hf
    have := hs.1
    simp only [Nud.wb, kvsWb_cap kvs hs.2 hf]; omega
  | .wildIdx r, hs, hf => by
    simp only [Nud.Small] at hs; simp only [Nud.flattenFree] at hf
    simp only [Nud.wb, Rhs.wb_cap r hs hf]; omega
  | .star r, hs, hf => by
    simp only [Nud.Small] at hs; simp only [Nud.flattenFree] at hf
    simp only [Nud.wb, Rhs.wb_cap r hs hf]; omega
  | .slice _ r, hs, hf => by
    simp only [Nud.Small] at hs; simp only [Nud.flattenFree] at hf
    simp only [Nud.wb, Rhs.wb_cap r hs hf]; omega
  | .flatten _, _, hf => by simp [Nud.flattenFree] at hf
  | .filter p r, hs, hf => by
    simp only [Nud.Small] at hs; simp only [Nud.flattenFree, Bool.and_eq_true] at hf
    simp only [Nud.wb, Expr.wb_cap p hs.1 hf.1, Rhs.wb_cap r hs.2 hf.2]; omega
theorem Led.wb_cap : ∀ l : Led, l.Small → l.flattenFree = true → l.wb CAP = CAP
  | .index _, _, _ => rfl
  | .callDev _, _, _ => rfl
  | .dot dr, hs, hf => by
    simp only [Led.Small] at hs; simp only [Led.flattenFree] at hf
    simp only [Led.wb, DotRhs.wb_cap dr hs hf]; omega
  | .pipe e, hs, hf => by
    simp only [Led.Small] at hs; simp only [Led.flattenFree] at hf
    simp only [Led.wb, Expr.wb_cap e hs hf]; omega
  | .or e, hs, hf => by
    simp only [Led.Small] at hs; simp only [Led.flattenFree] at hf
    simp only [Led.wb, Expr.wb_cap e hs hf]; omega
  | .and e, hs, hf => by
    simp only [Led.Small] at hs; simp only [Led.flattenFree] at hf
    simp only [Led.wb, Expr.wb_cap e hs hf]; omega
  | .cmp _ e, hs, hf => by
    simp only [Led.Small] at hs; simp only [Led.flattenFree] at hf
    simp only [Led.wb, Expr.wb_cap e hs hf]; omega
  | .wildIdxL r, hs, hf => by
    simp only [Led.Small] at hs; simp only [Led.flattenFree] at hf
    simp only [Led.wb, Rhs.wb_cap r hs hf]; omega
  | .dotStar r, hs, hf => by
    simp only [Led.Small] at hs; simp only [Led.flattenFree] at hf
    simp only [Led.wb, Rhs.wb_cap r hs hf]; omega
  | .sliceL _ r, hs, hf => by
    simp only [Led.Small] at hs; simp only [Led.flattenFree] at hf
    simp only [Led.wb, Rhs.wb_cap r hs hf]; omega
  | .flattenL _, _, hf => by simp [Led.flattenFree] at hf
  | .filterL p r, hs, hf => by
    simp only [Led.Small] at hs; simp only [Led.flattenFree, Bool.and_eq_true] at hf
    simp only [Led.wb, Expr.wb_cap p hs.1 hf.1, Rhs.wb_cap r hs.2 hf.2]; omega
theorem Rhs.wb_cap : ∀ r : Rhs, r.Small → r.flattenFree = true → r.wb CAP = CAP
  | .none, _, _ => rfl
  | .dot dr, hs, hf => by
    simp only [Rhs.Small] at hs; simp only [Rhs.flattenFree] at hf
    simp only [Rhs.wb, DotRhs.wb_cap dr hs hf]; omega
  | .bracket e, hs, hf => by
    simp only [Rhs.Small] at hs; simp only [Rhs.flattenFree] at hf
    simp only [Rhs.wb, Expr.wb_cap e hs hf]; omega
theorem DotRhs.wb_cap : ∀ dr : DotRhs, dr.Small → dr.flattenFree = true → dr.wb CAP = CAP
  | .mlist es, hs, hf => by
    simp only [DotRhs.Small] at hs; simp only [DotRhs.flattenFree] at hf
    have := hs.1
    simp only [DotRhs.wb, exprsWb_cap es hs.2 hf]; omega
  | .expr e, hs, hf => by
    simp only [DotRhs.Small] at hs; simp only [DotRhs.flattenFree] at hf
    simp only [DotRhs.wb, Expr.wb_cap e hs hf]; omega
theorem Expr.wb_cap : ∀ e : Expr, e.Small → e.flattenFree = true → e.wb CAP = CAP
  | .mk h ls, hs, hf => by
    simp only [Expr.Small] at hs; simp only [Expr.flattenFree, Bool.and_eq_true] at hf
    simp only [Expr.wb, Nud.wb_cap h hs.1 hf.1, ledsWb_cap ls hs.2 hf.2]
theorem ledsWb_cap : ∀ ls : List Led, ledsSmall ls → ledsFlattenFree ls = true → ledsWb CAP ls = CAP
  | [], _, _ => rfl
  | l :: ls, hs, hf => by
    simp only [ledsSmall] at hs; simp only [ledsFlattenFree, Bool.and_eq_true] at hf
    simp only [ledsWb, Led.wb_cap l hs.1 hf.1, ledsWb_cap ls hs.2 hf.2]
theorem exprsWb_cap : ∀ es : List Expr, exprsSmall es → exprsFlattenFree es = true →
    exprsWb CAP es = CAP
  | [], _, _ => rfl
  | e :: es, hs, hf => by
    simp only [exprsSmall] at hs; simp only [exprsFlattenFree, Bool.and_eq_true] at hf
    simp only [exprsWb, Expr.wb_cap e hs.1 hf.1, exprsWb_cap es hs.2 hf.2]; omega
theorem kvsWb_cap : ∀ kvs : List (Bool × String × Expr), kvsSmall kvs → kvsFlattenFree kvs = true →
    kvsWb CAP kvs = CAP
  | [], _, _ => rfl
  | (_, _, e) :: r, hs, hf => by
    simp only [kvsSmall] at hs; simp only [kvsFlattenFree, Bool.and_eq_true] at hf
    simp only [kvsWb, Expr.wb_cap e hs.1 hf.1, kvsWb_cap r hs.2 hf.2]; omega
end

end JmesVerif
