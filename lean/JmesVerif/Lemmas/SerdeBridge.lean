import JmesVerif.Model.Serde
import JmesVerif.Lemmas.SerdeValue
/-!
# The serde bridge (`Serializer` / `Deserializer for Variable`) against serde_json

1. `ser_eq_serde_json`   — serialising string-keyed data for searching yields serde_json's value;
2. `tuple_length_counterexample`, `de_eq_serde_json`, `lenient_extends_strict` — the F15 defect
   (missing length check) and its repair;
3. `typed_roundtrip`     — a well-typed Rust value survives serialise → (identity search) → deserialise.

Helper lemmas live in `JmesVerif.SerdeB`.
-/
namespace JmesVerif

/-! ## Theorem 1 — `Variable::from_serializable` = `serde_json::to_value` on string-keyed data -/

namespace SerdeB
mutual
theorem ser_eq_val : ∀ x : SVal, svStringKeyed x = true → svToVariable x = svToJson x
  | .bool _, _ => rfl
  | .int _, _ => rfl
  | .f32 _, _ => rfl
  | .f64 _, _ => rfl
  | .char _, _ => rfl
  | .str _, _ => rfl
  | .bytes _, _ => rfl
  | .none, _ => rfl
  | .some v, h => by
    simp only [svStringKeyed] at h
    simp only [svToVariable, svToJson, ser_eq_val v h]
  | .unit, _ => rfl
  | .unitStruct, _ => rfl
  | .unitVariant _, _ => rfl
  | .newtypeStruct v, h => by
    simp only [svStringKeyed] at h
    simp only [svToVariable, svToJson, ser_eq_val v h]
  | .newtypeVariant _ v, h => by
    simp only [svStringKeyed] at h
    simp only [svToVariable, svToJson, ser_eq_val v h]
  | .seq vs, h => by
    simp only [svStringKeyed] at h
    simp only [svToVariable, svToJson, ser_eq_seq vs h]
  | .tupleVariant _ vs, h => by
    simp only [svStringKeyed] at h
    simp only [svToVariable, svToJson, ser_eq_seq vs h]
  | .map kvs, h => by
    simp only [svStringKeyed] at h
    simp only [svToVariable, svToJson, ser_eq_map kvs h]
  | .struct fs, h => by
    simp only [svStringKeyed] at h
    simp only [svToVariable, svToJson, ser_eq_fields fs h]
  | .structVariant _ fs, h => by
    simp only [svStringKeyed] at h
    simp only [svToVariable, svToJson, ser_eq_fields fs h]
theorem ser_eq_seq : ∀ vs : List SVal, svAllStringKeyed vs = true → svSeqToVariable vs = svSeqToJson vs
  | [], _ => rfl
  | v :: vs, h => by
    simp only [svAllStringKeyed, Bool.and_eq_true] at h
    simp only [svSeqToVariable, svSeqToJson, ser_eq_val v h.1, ser_eq_seq vs h.2]
theorem ser_eq_map : ∀ kvs : List (SVal × SVal), svMapStringKeyed kvs = true →
    ∀ acc, svMapToVariable kvs acc = svMapToJson kvs acc
  | [], _, _ => rfl
  | (k, v) :: r, h, acc => by
    simp only [svMapStringKeyed, Bool.and_eq_true] at h
    obtain ⟨⟨hk, hv⟩, hr⟩ := h
    simp only [svMapToVariable, svMapToJson, ser_eq_val v hv, ser_eq_map r hr]
    cases k <;> simp at hk <;> simp [svToVariable, jsonKey]
theorem ser_eq_fields : ∀ fs : List (String × SVal), svFieldsStringKeyed fs = true →
    ∀ acc, svFieldsToVariable fs acc = svFieldsToJson fs acc
  | [], _, _ => rfl
  | (k, v) :: r, h, acc => by
    simp only [svFieldsStringKeyed, Bool.and_eq_true] at h
    simp only [svFieldsToVariable, svFieldsToJson, ser_eq_val v h.1, ser_eq_fields r h.2]
end

end SerdeB

/-- serialising for search gives serde_json's JSON value (the two serializers differ only in what
they accept as a map key; a string or char key is rendered identically by both) -/
theorem ser_eq_serde_json (x : SVal) (h : svStringKeyed x = true) : svToVariable x = svToJson x :=
  SerdeB.ser_eq_val x h

/-! ## Theorem 2 — the F15 counterexample and its repair -/

/-- before the fix (no length check) the library accepted a longer array for a tuple; serde_json
(length check) rejects it -/
theorem tuple_length_counterexample :
    deVal ⟨false⟩ (.tuple [.int true 32, .int true 32]) (.arr [.num (.pos 1), .num (.pos 2), .num (.pos 3)])
      = some (.seq [.int 1, .int 2]) ∧
    deVal ⟨true⟩ (.tuple [.int true 32, .int true 32]) (.arr [.num (.pos 1), .num (.pos 2), .num (.pos 3)]) = none := by
  simp [deVal, deTuple, numToInt, intInRange]

/-- after the fix the library's deserializer *is* the model of `serde_json::from_value`
(true by definition: both are the kind-directed core with the length check) -/
theorem de_eq_serde_json (s : Shape) (v : Val) : deVar s v = deJson s v := rfl

namespace SerdeB

theorem optMapL_mono {α β : Type} (f g : α → Option β) :
    ∀ (xs : List α) (ys : List β), (∀ x y, f x = some y → g x = some y) →
      optMapL f xs = some ys → optMapL g xs = some ys
  | [], ys, _, h => by simpa [optMapL] using h
  | x :: xs, ys, hfg, h => by
    simp only [optMapL] at h ⊢
    cases hx : f x with
    | none => simp [hx] at h
    | some y =>
      simp only [hx, Option.map_eq_some_iff] at h
      obtain ⟨ys', h1, rfl⟩ := h
      simp [hfg x y hx, optMapL_mono f g xs ys' hfg h1]

theorem map_some_mono {α β : Type} {a b : Option α} {f : α → β} {t : β}
    (hab : ∀ x, a = some x → b = some x) (h : a.map f = some t) : b.map f = some t := by
  cases a with
  | none => simp at h
  | some x => rw [hab x rfl]; exact h

mutual
theorem lenient_val : ∀ (s : Shape) (v : Val) (t : TVal), deVal ⟨true⟩ s v = some t → deVal ⟨false⟩ s v = some t
  | .bool, v, t, h => by cases v <;> simp_all [deVal]
  | .int _ _, v, t, h => by cases v <;> simp_all [deVal]
  | .f32, v, t, h => by cases v <;> simp_all [deVal]
  | .f64, v, t, h => by cases v <;> simp_all [deVal]
  | .char, v, t, h => by cases v <;> simp_all [deVal]
  | .string, v, t, h => by cases v <;> simp_all [deVal]
  | .unit, v, t, h => by cases v <;> simp_all [deVal]
  | .unitStruct, v, t, h => by cases v <;> simp_all [deVal]
  | .option s, v, t, h => by
    cases v <;> simp only [deVal] at h ⊢ <;> first | exact h | exact map_some_mono (lenient_val s _) h
  | .newtype s, v, t, h => by
    simp only [deVal] at h ⊢
    exact map_some_mono (lenient_val s _) h
  | .seq s, v, t, h => by
    cases v <;> simp only [deVal] at h ⊢ <;> try (cases h; done)
    exact map_some_mono (fun ys => optMapL_mono _ _ _ ys (lenient_val s)) h
  | .tuple ss, v, t, h => by
    cases v <;> simp only [deVal] at h ⊢ <;> try (cases h; done)
    exact map_some_mono (lenient_tuple ss _) h
  | .map s, v, t, h => by
    cases v <;> simp only [deVal] at h ⊢ <;> try (cases h; done)
    refine map_some_mono (fun ys => optMapL_mono _ _ _ ys ?_) h
    intro p y hy
    exact map_some_mono (lenient_val s _) hy
  | .struct fields, v, t, h => by
    cases v <;> simp only [deVal] at h ⊢ <;> try (cases h; done)
    · exact map_some_mono (lenient_fieldsSeq fields _) h
    · exact map_some_mono (lenient_structMap fields _) h
  | .enum variants, v, t, h => by
    match v, h with
    | .str name, h => simp only [deVal] at h ⊢; exact lenient_enum variants name none t h
    | .obj [(name, payload)], h => simp only [deVal] at h ⊢; exact lenient_enum variants name _ t h
    | .obj [], h => simp [deVal] at h
    | .obj (_ :: _ :: _), h => simp [deVal] at h
    | .null, h => simp [deVal] at h
    | .bool _, h => simp [deVal] at h
    | .num _, h => simp [deVal] at h
    | .arr _, h => simp [deVal] at h
    | .expref _, h => simp [deVal] at h
theorem lenient_enum : ∀ (variants : List (String × VShape)) (name : String) (payload : Option Val) (t : TVal),
    deEnum ⟨true⟩ name payload variants = some t → deEnum ⟨false⟩ name payload variants = some t
  | [], _, _, _, h => by simp [deEnum] at h
  | (n, vs) :: rest, name, payload, t, h => by
    simp only [deEnum] at h ⊢
    split
    · rename_i hn; rw [if_pos hn] at h; exact lenient_variant vs name payload t h
    · rename_i hn; rw [if_neg hn] at h; exact lenient_enum rest name payload t h
theorem lenient_tuple : ∀ (ss : List Shape) (xs : List Val) (ts : List TVal),
    deTuple ⟨true⟩ ss xs = some ts → deTuple ⟨false⟩ ss xs = some ts
  | [], [], _, h => by simpa [deTuple] using h
  | [], _ :: _, _, h => by simp [deTuple] at h
  | _ :: _, [], _, h => by simp [deTuple] at h
  | s :: ss, x :: xs, ts, h => by
    simp only [deTuple] at h ⊢
    cases hx : deVal ⟨true⟩ s x with
    | none => simp [hx] at h
    | some y =>
      simp only [hx] at h
      simp only [lenient_val s x y hx]
      exact map_some_mono (lenient_tuple ss xs) h
theorem lenient_structMap : ∀ (fields : List (String × Shape)) (kvs : List (String × Val)) (ts : List TVal),
    deStructMap ⟨true⟩ fields kvs = some ts → deStructMap ⟨false⟩ fields kvs = some ts
  | [], _, _, h => by simpa [deStructMap] using h
  | (f, s) :: rest, kvs, ts, h => by
    simp only [deStructMap] at h ⊢
    cases hl : Val.lookup f kvs with
    | some x =>
      simp only [hl] at h ⊢
      cases hx : deVal ⟨true⟩ s x with
      | none => simp [hx] at h
      | some y =>
        simp only [hx] at h
        simp only [lenient_val s x y hx]
        exact map_some_mono (lenient_structMap rest kvs) h
    | none =>
      simp only [hl] at h ⊢
      cases s <;> simp only [] at h ⊢ <;> try (cases h; done)
      exact map_some_mono (lenient_structMap rest kvs) h
theorem lenient_fieldsSeq : ∀ (fields : List (String × Shape)) (xs : List Val) (ts : List TVal),
    deFieldsSeq ⟨true⟩ fields xs = some ts → deFieldsSeq ⟨false⟩ fields xs = some ts
  | [], [], _, h => by simpa [deFieldsSeq] using h
  | [], _ :: _, _, h => by simp [deFieldsSeq] at h
  | _ :: _, [], _, h => by simp [deFieldsSeq] at h
  | (_, s) :: ss, x :: xs, ts, h => by
    simp only [deFieldsSeq] at h ⊢
    cases hx : deVal ⟨true⟩ s x with
    | none => simp [hx] at h
    | some y =>
      simp only [hx] at h
      simp only [lenient_val s x y hx]
      exact map_some_mono (lenient_fieldsSeq ss xs) h
theorem lenient_variant : ∀ (vs : VShape) (name : String) (payload : Option Val) (t : TVal),
    deVariant ⟨true⟩ name vs payload = some t → deVariant ⟨false⟩ name vs payload = some t
  | .unit, name, payload, t, h => by
    unfold deVariant at h ⊢
    split at h <;> simp_all
  | .newtype s, name, payload, t, h => by
    cases payload <;> simp only [deVariant] at h ⊢ <;> try (cases h; done)
    exact map_some_mono (lenient_val s _) h
  | .tuple ss, name, payload, t, h => by
    match payload, h with
    | some (.arr xs), h =>
      simp only [deVariant] at h ⊢
      split
      · rename_i he; simp [he] at h
      · rename_i he; rw [if_neg he] at h; exact map_some_mono (lenient_tuple ss xs) h
    | none, h => simp [deVariant] at h
    | some .null, h => simp [deVariant] at h
    | some (.bool _), h => simp [deVariant] at h
    | some (.num _), h => simp [deVariant] at h
    | some (.str _), h => simp [deVariant] at h
    | some (.obj _), h => simp [deVariant] at h
    | some (.expref _), h => simp [deVariant] at h
  | .struct fields, name, payload, t, h => by
    match payload, h with
    | some (.obj kvs), h =>
      simp only [deVariant] at h ⊢
      exact map_some_mono (lenient_structMap fields kvs) h
    | none, h => simp [deVariant] at h
    | some .null, h => simp [deVariant] at h
    | some (.bool _), h => simp [deVariant] at h
    | some (.num _), h => simp [deVariant] at h
    | some (.str _), h => simp [deVariant] at h
    | some (.arr _), h => simp [deVariant] at h
    | some (.expref _), h => simp [deVariant] at h
end

end SerdeB

/-- without the length check the library never rejects what serde_json accepts, and agrees with it
whenever serde_json accepts: the defect was purely one of accepting too much -/
theorem lenient_extends_strict (s : Shape) (v : Val) (t : TVal) (h : deVal ⟨true⟩ s v = some t) :
    deVal ⟨false⟩ s v = some t :=
  SerdeB.lenient_val s v t h

/-! ## Theorem 3 — a typed value survives the trip through the library -/

mutual
/-- `WellTyped s t`: the typed value `t` inhabits the Rust type described by `s`, *and* satisfies
the side conditions under which serialise-then-deserialise is the identity.  Pairs of a shape and a
value of another kind are not well typed (`derive(Serialize)` would not even present them: `serOf`
is `none`).  Condition by condition:

* `.int signed bits, .int v` — `intInRange signed bits v`: the value fits the integer type (the
  visitor rejects anything else; a Rust value of that type always satisfies it).
* `.f64, .f64 x` — `x` finite: NaN/±∞ serialise to `null` (`Number::from_f64` fails), which does not
  decode as a float.
* `.f32, .f32 x` — `x` finite and `toF32 x = x`: the widened value is an f32 (always true of a Rust
  `f32`), because decoding narrows with `as f32`.
* `.option s, .some t` — the inner value is well typed and does **not** serialise to `null`:
  `Some(())`, `Some(None)`, `Some(f64::NAN)`… come back as `None` (serde_json behaves the same).
* `.seq s, .seq ts` — every element well typed.  `.tuple ss, .seq ts` — pointwise (`WellTypedTuple`).
* `.map s, .map kvs` — keys strictly increasing (the iteration order of a `BTreeMap`; the result is
  rebuilt in key order, so any other presentation order or a duplicate key cannot be reproduced)
  and every value well typed.
* `.struct fields, .struct ts` — field names pairwise distinct (a later duplicate would overwrite
  the earlier member of the object; Rust guarantees distinctness), values pointwise well typed
  (`WellTypedFields`).
* `.newtype s, .newtype t` — the inner value well typed.
* `.bool`, `.char`, `.string`, `.unit`, `.unitStruct`, `.option _, .none` — no condition.
* `.enum variants, .variant name payload` — `WellTypedEnum`: the **first** declared variant called
  `name` exists and the payload has that variant's kind (`WellTypedVariant`): nothing for a unit
  variant; a well-typed value for a newtype variant; for a tuple variant pointwise well-typed
  components and **at least one component** (an empty tuple variant serialises to `{"V": []}`, which
  neither deserializer decodes back); for a struct variant distinct field names and pointwise
  well-typed values.  Pairwise distinctness of the variant *names* (suggested in the task) is **not**
  required: `serVariant` and `deEnum` both use the first variant of that name, so they agree even
  in the presence of (impossible in Rust) duplicates. -/
def WellTyped : Shape → TVal → Prop
  | .bool, .bool _ => True
  | .int signed bits, .int v => intInRange signed bits v = true
  | .f32, .f32 x => x.isFinite = true ∧ toF32 x = x
  | .f64, .f64 x => x.isFinite = true
  | .char, .char _ => True
  | .string, .str _ => True
  | .unit, .unit => True
  | .option _, .none => True
  | .option s, .some t => WellTyped s t ∧ ∀ sv, serOf s t = some sv → svToVariable sv ≠ some .null
  | .seq s, .seq ts => ∀ t ∈ ts, WellTyped s t
  | .tuple ss, .seq ts => WellTypedTuple ss ts
  | .map s, .map kvs => List.Pairwise (fun a b => a.1 < b.1) kvs ∧ ∀ p ∈ kvs, WellTyped s p.2
  | .struct fields, .struct ts => (fields.map (·.1)).Nodup ∧ WellTypedFields fields ts
  | .newtype s, .newtype t => WellTyped s t
  | .unitStruct, .unitStruct => True
  | .enum variants, .variant name payload => WellTypedEnum name payload variants
  | _, _ => False
def WellTypedTuple : List Shape → List TVal → Prop
  | [], [] => True
  | s :: ss, t :: ts => WellTyped s t ∧ WellTypedTuple ss ts
  | _, _ => False
def WellTypedFields : List (String × Shape) → List TVal → Prop
  | [], [] => True
  | (_, s) :: ss, t :: ts => WellTyped s t ∧ WellTypedFields ss ts
  | _, _ => False
def WellTypedEnum (name : String) (payload : Option TVal) : List (String × VShape) → Prop
  | [] => False
  | (n, vs) :: rest => if n = name then WellTypedVariant vs payload else WellTypedEnum name payload rest
def WellTypedVariant : VShape → Option TVal → Prop
  | .unit, none => True
  | .newtype s, some t => WellTyped s t
  | .tuple ss, some (.seq ts) => ss ≠ [] ∧ WellTypedTuple ss ts
  | .struct fields, some (.struct ts) => (fields.map (·.1)).Nodup ∧ WellTypedFields fields ts
  | _, _ => False
end

namespace SerdeB

/-- the round-trip property for one typed value -/
def RT (s : Shape) (t : TVal) : Prop :=
  ∃ sv v, serOf s t = some sv ∧ svToVariable sv = some v ∧ deVal ⟨true⟩ s v = some t

def TupleRT : List Shape → List TVal → Prop
  | [], [] => True
  | s :: ss, t :: ts => RT s t ∧ TupleRT ss ts
  | _, _ => False

def FieldsRT : List (String × Shape) → List TVal → Prop
  | [], [] => True
  | (_, s) :: ss, t :: ts => RT s t ∧ FieldsRT ss ts
  | _, _ => False

theorem lookup_insertKV_same (k : String) (v : Val) (m : List (String × Val)) :
    Val.lookup k (insertKV k v m) = some v := by
  induction m with
  | nil => simp [insertKV, Val.lookup]
  | cons p rest ih =>
    obtain ⟨k', v'⟩ := p
    simp only [insertKV]
    split
    · simp [Val.lookup]
    · split
      · simp [Val.lookup]
      · rename_i hne
        simp only [Val.lookup, ih]
        rw [if_neg (fun h => hne h.symm)]

theorem lookup_insertKV_ne (k k' : String) (v : Val) (m : List (String × Val)) (hne : k' ≠ k) :
    Val.lookup k' (insertKV k v m) = Val.lookup k' m := by
  induction m with
  | nil => simp [insertKV, Val.lookup, hne.symm]
  | cons p rest ih =>
    obtain ⟨k1, v1⟩ := p
    simp only [insertKV]
    split
    · simp [Val.lookup, hne.symm]
    · split
      · rename_i heq
        subst heq
        simp [Val.lookup, hne.symm]
      · simp only [Val.lookup, ih]

/-- `Vec<T>`: element-wise -/
theorem seq_rt (s : Shape) : ∀ ts : List TVal, (∀ t ∈ ts, RT s t) →
    ∃ svs vs, optMapL (fun t => serOf s t) ts = some svs ∧ svSeqToVariable svs = some vs ∧
      optMapL (fun x => deVal ⟨true⟩ s x) vs = some ts
  | [], _ => ⟨[], [], rfl, rfl, rfl⟩
  | t :: ts, h => by
    obtain ⟨sv, v, h1, h2, h3⟩ := h t (by simp)
    obtain ⟨svs, vs, g1, g2, g3⟩ := seq_rt s ts (fun t ht => h t (by simp [ht]))
    exact ⟨sv :: svs, v :: vs, by simp [optMapL, h1, g1], by simp [svSeqToVariable, h2, g2],
      by simp [optMapL, h3, g3]⟩

/-- tuples: component-wise; the produced array has exactly as many elements as the tuple -/
theorem tuple_rt : ∀ (ss : List Shape) (ts : List TVal), TupleRT ss ts →
    ∃ svs vs, serTuple ss ts = some svs ∧ svSeqToVariable svs = some vs ∧
      deTuple ⟨true⟩ ss vs = some ts ∧ vs.length = ss.length
  | [], [], _ => ⟨[], [], rfl, rfl, rfl, rfl⟩
  | s :: ss, t :: ts, h => by
    obtain ⟨⟨sv, v, h1, h2, h3⟩, h'⟩ := h
    obtain ⟨svs, vs, g1, g2, g3, g4⟩ := tuple_rt ss ts h'
    exact ⟨sv :: svs, v :: vs, by simp [serTuple, h1, g1], by simp [svSeqToVariable, h2, g2],
      by simp [deTuple, h3, g3], by simp [g4]⟩
  | [], _ :: _, h => by simp [TupleRT] at h
  | _ :: _, [], h => by simp [TupleRT] at h

/-- `BTreeMap<String, T>`: with strictly increasing keys every `insert` appends -/
theorem map_rt (s : Shape) : ∀ kvs : List (String × TVal), (∀ p ∈ kvs, RT s p.2) →
    List.Pairwise (fun a b => a.1 < b.1) kvs →
    ∃ skvs vkvs, optMapL (fun (p : String × TVal) => (serOf s p.2).map fun v => (SVal.str p.1, v)) kvs = some skvs ∧
      (∀ acc : List (String × Val), (∀ a ∈ acc, ∀ p ∈ kvs, a.1 < p.1) →
        svMapToVariable skvs acc = some (acc ++ vkvs)) ∧
      optMapL (fun (p : String × Val) => (deVal ⟨true⟩ s p.2).map fun t => (p.1, t)) vkvs = some kvs
  | [], _, _ => ⟨[], [], rfl, by intro acc _; simp [svMapToVariable], rfl⟩
  | (k, t) :: r, h, hp => by
    obtain ⟨sv, v, h1, h2, h3⟩ := h (k, t) (by simp)
    rw [List.pairwise_cons] at hp
    obtain ⟨skvs, vkvs, g1, g2, g3⟩ := map_rt s r (fun p hp' => h p (by simp [hp'])) hp.2
    refine ⟨(.str k, sv) :: skvs, (k, v) :: vkvs, by simp [optMapL, h1, g1], ?_, by simp [optMapL, h3, g3]⟩
    intro acc hacc
    have hk : svToVariable (SVal.str k) = some (.str k) := by simp [svToVariable]
    simp only [svMapToVariable, hk, h2]
    rw [insertKV_append k v acc (fun a ha => hacc a ha (k, t) (by simp))]
    rw [g2]
    · simp
    · intro a ha p hp'
      rcases List.mem_append.mp ha with ha | ha
      · exact hacc a ha p (by simp [hp'])
      · simp at ha; subst ha; exact hp.1 p hp'

/-- structs: with distinct field names every field is found again under its name -/
theorem fields_rt : ∀ (fields : List (String × Shape)) (ts : List TVal), FieldsRT fields ts →
    (fields.map (·.1)).Nodup →
    ∃ fsvs, serFields fields ts = some fsvs ∧
      ∀ acc, ∃ m, svFieldsToVariable fsvs acc = some m ∧
        (∀ g, g ∉ fields.map (·.1) → Val.lookup g m = Val.lookup g acc) ∧
        deStructMap ⟨true⟩ fields m = some ts
  | [], [], _, _ => ⟨[], rfl, fun acc => ⟨acc, rfl, fun _ _ => rfl, rfl⟩⟩
  | (f, s) :: rest, t :: ts, h, hd => by
    obtain ⟨⟨sv, v, h1, h2, h3⟩, h'⟩ := h
    simp only [List.map_cons, List.nodup_cons] at hd
    obtain ⟨fsvs, g1, g2⟩ := fields_rt rest ts h' hd.2
    refine ⟨(f, sv) :: fsvs, by simp [serFields, h1, g1], ?_⟩
    intro acc
    obtain ⟨m, m1, m2, m3⟩ := g2 (insertKV f v acc)
    refine ⟨m, by simp [svFieldsToVariable, h2, m1], ?_, ?_⟩
    · intro g hg
      simp only [List.map_cons, List.mem_cons, not_or] at hg
      rw [m2 g hg.2, lookup_insertKV_ne f g v acc hg.1]
    · have hl : Val.lookup f m = some v := by rw [m2 f hd.1, lookup_insertKV_same]
      simp [deStructMap, hl, h3, m3]
  | [], _ :: _, h, _ => by simp [FieldsRT] at h
  | _ :: _, [], h, _ => by simp [FieldsRT] at h

/-- `serVariant` only looks at the first variant with the right name -/
theorem serVariant_cons (name : String) (payload : Option TVal) (n : String) (vs : VShape)
    (rest : List (String × VShape)) :
    serVariant name payload ((n, vs) :: rest) =
      if n = name then serVariant name payload [(name, vs)] else serVariant name payload rest := by
  by_cases h : n = name
  · subst h
    rw [if_pos rfl, serVariant.eq_def, serVariant.eq_def n payload [(n, vs)]]
    simp only [if_pos]
  · rw [if_neg h, serVariant.eq_def]
    simp only [if_neg h]

/-- round trip of an enum value, given the variant's shape -/
def VariantRT (name : String) (vs : VShape) (payload : Option TVal) : Prop :=
  ∃ sv, serVariant name payload [(name, vs)] = some sv ∧
    ((svToVariable sv = some (.str name) ∧
        deVariant ⟨true⟩ name vs none = some (.variant name payload)) ∨
     ∃ p, svToVariable sv = some (.obj [(name, p)]) ∧
        deVariant ⟨true⟩ name vs (some p) = some (.variant name payload))

def EnumRT (name : String) (payload : Option TVal) (variants : List (String × VShape)) : Prop :=
  ∃ sv, serVariant name payload variants = some sv ∧
    ((svToVariable sv = some (.str name) ∧
        deEnum ⟨true⟩ name none variants = some (.variant name payload)) ∨
     ∃ p, svToVariable sv = some (.obj [(name, p)]) ∧
        deEnum ⟨true⟩ name (some p) variants = some (.variant name payload))

theorem numToInt_numOfInt (v : Int) : numToInt (numOfInt v) = some v := by
  unfold numOfInt
  split
  · rfl
  · simp only [numToInt]; congr 1; omega

mutual
theorem rt_val : ∀ (s : Shape) (t : TVal), WellTyped s t → RT s t
  | .bool, .bool b, _ => ⟨.bool b, .bool b, rfl, rfl, rfl⟩
  | .int sg bits, .int v, h => by
    simp only [WellTyped] at h
    exact ⟨.int v, .num (numOfInt v), rfl, rfl, by simp [deVal, numToInt_numOfInt, h]⟩
  | .f32, .f32 x, h => by
    simp only [WellTyped] at h
    exact ⟨.f32 x, .num (.flt x), rfl, by simp [svToVariable, valOfF64, h.1], by simp [deVal, Num.toF64, h.2]⟩
  | .f64, .f64 x, h => by
    simp only [WellTyped] at h
    exact ⟨.f64 x, .num (.flt x), rfl, by simp [svToVariable, valOfF64, h], by simp [deVal, Num.toF64]⟩
  | .char, .char c, _ => ⟨.char c, .str (String.singleton c), rfl, rfl, by simp [deVal]⟩
  | .string, .str s, _ => ⟨.str s, .str s, rfl, rfl, rfl⟩
  | .unit, .unit, _ => ⟨.unit, .null, rfl, rfl, rfl⟩
  | .unitStruct, .unitStruct, _ => ⟨.unitStruct, .null, rfl, rfl, rfl⟩
  | .option s, .none, _ => ⟨.none, .null, rfl, rfl, rfl⟩
  | .option s, .some t, h => by
    simp only [WellTyped] at h
    obtain ⟨sv, v, h1, h2, h3⟩ := rt_val s t h.1
    have hn : v ≠ .null := fun e => h.2 sv h1 (by rw [h2, e])
    refine ⟨.some sv, v, by simp [serOf, h1], by simp [svToVariable, h2], ?_⟩
    cases v <;> simp_all [deVal]
  | .newtype s, .newtype t, h => by
    simp only [WellTyped] at h
    obtain ⟨sv, v, h1, h2, h3⟩ := rt_val s t h
    exact ⟨.newtypeStruct sv, v, by simp [serOf, h1], by simp [svToVariable, h2], by simp [deVal, h3]⟩
  | .seq s, .seq ts, h => by
    simp only [WellTyped] at h
    obtain ⟨svs, vs, h1, h2, h3⟩ := seq_rt s ts (fun t ht => rt_val s t (h t ht))
    exact ⟨.seq svs, .arr vs, by simp [serOf, h1], by simp [svToVariable, h2], by simp [deVal, h3]⟩
  | .tuple ss, .seq ts, h => by
    simp only [WellTyped] at h
    obtain ⟨svs, vs, h1, h2, h3, _⟩ := tuple_rt ss ts (rt_tuple ss ts h)
    exact ⟨.seq svs, .arr vs, by simp [serOf, h1], by simp [svToVariable, h2], by simp [deVal, h3]⟩
  | .map s, .map kvs, h => by
    simp only [WellTyped] at h
    obtain ⟨skvs, vkvs, h1, h2, h3⟩ := map_rt s kvs (fun p hp => rt_val s p.2 (h.2 p hp)) h.1
    have h2' := h2 [] (by simp)
    exact ⟨.map skvs, .obj vkvs, by simp [serOf, h1], by simp [svToVariable, h2'], by simp [deVal, h3]⟩
  | .struct fields, .struct ts, h => by
    simp only [WellTyped] at h
    obtain ⟨fsvs, h1, h2⟩ := fields_rt fields ts (rt_fields fields ts h.2) h.1
    obtain ⟨m, m1, _, m3⟩ := h2 []
    exact ⟨.struct fsvs, .obj m, by simp [serOf, h1], by simp [svToVariable, m1], by simp [deVal, m3]⟩
  | .enum variants, .variant name payload, h => by
    simp only [WellTyped] at h
    obtain ⟨sv, h1, h2⟩ := rt_enum variants name payload h
    rcases h2 with ⟨h2, h3⟩ | ⟨p, h2, h3⟩
    · exact ⟨sv, .str name, by simp [serOf, h1], h2, by simp [deVal, h3]⟩
    · exact ⟨sv, .obj [(name, p)], by simp [serOf, h1], h2, by simp [deVal, h3]⟩
theorem rt_tuple : ∀ (ss : List Shape) (ts : List TVal), WellTypedTuple ss ts → TupleRT ss ts
  | [], [], _ => trivial
  | s :: ss, t :: ts, h => by
    simp only [WellTypedTuple] at h
    exact ⟨rt_val s t h.1, rt_tuple ss ts h.2⟩
theorem rt_fields : ∀ (fields : List (String × Shape)) (ts : List TVal), WellTypedFields fields ts → FieldsRT fields ts
  | [], [], _ => trivial
  | (_, s) :: ss, t :: ts, h => by
    simp only [WellTypedFields] at h
    exact ⟨rt_val s t h.1, rt_fields ss ts h.2⟩
theorem rt_enum : ∀ (variants : List (String × VShape)) (name : String) (payload : Option TVal),
    WellTypedEnum name payload variants → EnumRT name payload variants
  | (n, vs) :: rest, name, payload, h => by
    simp only [WellTypedEnum] at h
    unfold EnumRT
    rw [serVariant_cons]
    simp only [deEnum]
    split
    · rename_i hn; rw [if_pos hn] at h; exact rt_variant vs name payload h
    · rename_i hn; rw [if_neg hn] at h; exact rt_enum rest name payload h
theorem rt_variant : ∀ (vs : VShape) (name : String) (payload : Option TVal),
    WellTypedVariant vs payload → VariantRT name vs payload
  | .unit, name, none, _ => ⟨.unitVariant name, by simp [serVariant], .inl ⟨rfl, rfl⟩⟩
  | .newtype s, name, some t, h => by
    simp only [WellTypedVariant] at h
    obtain ⟨sv, v, h1, h2, h3⟩ := rt_val s t h
    exact ⟨.newtypeVariant name sv, by simp [serVariant, h1], .inr ⟨v, by simp [svToVariable, h2], by simp [deVariant, h3]⟩⟩
  | .tuple ss, name, some (.seq ts), h => by
    simp only [WellTypedVariant] at h
    obtain ⟨svs, vs, h1, h2, h3, h4⟩ := tuple_rt ss ts (rt_tuple ss ts h.2)
    have hne : vs ≠ [] := by
      intro e; subst e; cases ss with
      | nil => exact h.1 rfl
      | cons _ _ => simp at h4
    exact ⟨.tupleVariant name svs, by simp [serVariant, h1],
      .inr ⟨.arr vs, by simp [svToVariable, h2], by simp [deVariant, hne, h3]⟩⟩
  | .struct fields, name, some (.struct ts), h => by
    simp only [WellTypedVariant] at h
    obtain ⟨fsvs, h1, h2⟩ := fields_rt fields ts (rt_fields fields ts h.2) h.1
    obtain ⟨m, m1, _, m3⟩ := h2 []
    exact ⟨.structVariant name fsvs, by simp [serVariant, h1],
      .inr ⟨.obj m, by simp [svToVariable, m1], by simp [deVariant, m3]⟩⟩
end

end SerdeB

/-- converting a well-typed Rust value for searching (`derive(Serialize)` → the library's
`Serializer`) and deserialising the (identity) search result (`Deserializer for Variable`)
yields the value back -/
theorem typed_roundtrip (s : Shape) (t : TVal) (h : WellTyped s t) :
    ∃ sv v, serOf s t = some sv ∧ svToVariable sv = some v ∧ deVar s v = some t :=
  SerdeB.rt_val s t h

/-! ### the side conditions are not idle: each failure mode, concretely -/

/-- `Some(())` of an `Option<()>` comes back as `None` -/
theorem option_unit_not_roundtrip :
    serOf (.option .unit) (.some .unit) = some (.some .unit) ∧ svToVariable (.some .unit) = some .null ∧
      deVar (.option .unit) .null = some .none := by
  simp [serOf, svToVariable, deVar, deVal]

/-- an empty tuple variant `V()` serialises to `{"V": []}`, which is rejected -/
theorem empty_tuple_variant_not_roundtrip :
    serOf (.enum [("V", .tuple [])]) (.variant "V" (some (.seq []))) = some (.tupleVariant "V" []) ∧
      svToVariable (.tupleVariant "V" []) = some (.obj [("V", .arr [])]) ∧
      deVar (.enum [("V", .tuple [])]) (.obj [("V", .arr [])]) = none := by
  simp [serOf, serVariant, serTuple, svToVariable, svSeqToVariable, deVar, deVal, deEnum, deVariant]

/-- a NaN serialises to `null`, which is not an `f64` -/
theorem nan_not_roundtrip :
    serOf .f64 (.f64 .nan) = some (.f64 .nan) ∧ svToVariable (.f64 .nan) = some .null ∧
      deVar .f64 .null = none := by
  simp [serOf, svToVariable, valOfF64, F64.isFinite, deVar, deVal]

/-- a map presented out of key order comes back in key order -/
theorem unsorted_map_not_roundtrip :
    serOf (.map .bool) (.map [("b", .bool true), ("a", .bool false)])
        = some (.map [(.str "b", .bool true), (.str "a", .bool false)]) ∧
      svToVariable (.map [(.str "b", .bool true), (.str "a", .bool false)])
        = some (.obj [("a", .bool false), ("b", .bool true)]) ∧
      deVar (.map .bool) (.obj [("a", .bool false), ("b", .bool true)])
        = some (.map [("a", .bool false), ("b", .bool true)]) := by
  refine ⟨by simp [serOf, optMapL], ?_, by simp [deVar, deVal, optMapL]⟩
  have h : ("a" : String) < "b" := by decide
  simp [svToVariable, svMapToVariable, insertKV, h]


#print axioms ser_eq_serde_json
#print axioms tuple_length_counterexample
#print axioms de_eq_serde_json
#print axioms lenient_extends_strict
#print axioms typed_roundtrip

end JmesVerif
