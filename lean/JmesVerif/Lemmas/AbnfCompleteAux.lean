import JmesVerif.Lemmas.AbnfAttach
/-
Completeness of `Legal` w.r.t. the published ABNF, part 2: closure of "has a legal, deviation-free
tree" under each ABNF production (prefix `!`, binary operators, the postfix items).
-/
namespace JmesVerif
open GrammarCheck

/-- the token string has a legal tree without deviations F3/F4/F5 -/
def Good (ts : List Tok) : Prop := ∃ e : Expr, e.Legal 0 ∧ e.toks = ts ∧ Cl (exprDev false e)

/-! ### lists of applications -/

theorem ledsToks_append : ∀ (a b : List Led), ledsToks (a ++ b) = ledsToks a ++ ledsToks b
  | [], b => by simp [ledsToks]
  | l :: a, b => by simp [ledsToks, ledsToks_append a b]

theorem ledsDev_append : ∀ (a b : List Led), Cl (ledsDev (a ++ b)) ↔ Cl (ledsDev a) ∧ Cl (ledsDev b)
  | [], b => by simp [ledsDev, Cl_empty]
  | l :: a, b => by simp [ledsDev, Cl_add, ledsDev_append a b, and_assoc]

/-- split a chain at power `p`: the applications binding tighter than `p` that come first stay with
the head, the rest continues the enclosing level -/
theorem chain_split (p : Nat) : ∀ (ls : List Led) (f : Nat), chain 0 f ls →
    ∃ pre post, ls = pre ++ post ∧ chain p f pre ∧ chain 0 (min p (ledsFollow f pre)) post
  | [], f, _ => ⟨[], [], rfl, by simp [chain], by simp [chain]⟩
  | l :: ls, f, h => by
    simp only [chain] at h
    by_cases hp : p < l.lbp
    · obtain ⟨pre, post, h1, h2, h3⟩ := chain_split p ls l.follow h.2.2.2
      refine ⟨l :: pre, post, by simp [h1], ?_, ?_⟩
      · simp only [chain]; exact ⟨hp, h.2.1, h.2.2.1, h2⟩
      · simpa [ledsFollow] using h3
    · refine ⟨[], l :: ls, rfl, by simp [chain], ?_⟩
      simp only [chain, ledsFollow]
      exact ⟨h.1, by omega, h.2.2.1, h.2.2.2⟩

theorem Led.follow_le5 (l : Led) (h : l.lbp ≤ 5) : l.follow ≤ 5 := by
  cases l <;> simp [Led.lbp] at h <;> simp only [Led.follow] <;> omega

theorem chain_low : ∀ (ls : List Led) (f : Nat), f ≤ 5 → chain 0 f ls →
    ∀ l ∈ ls, l.lbp ≤ 9 ∧ 0 < l.lbp ∧ l.Legal
  | [], _, _, _ => by simp
  | l :: ls, f, hf, h => by
    simp only [chain] at h
    intro l' hl'
    rcases List.mem_cons.1 hl' with rfl | hl'
    · exact ⟨by omega, h.1, h.2.2.1⟩
    · exact chain_low ls l.follow (Led.follow_le5 l (by omega)) h.2.2.2 l' hl'

theorem good_attach (it : Item) (hp : 0 < it.led.lbp) {ts : List Tok} (h : Good ts) :
    Good (ts ++ it.led.toks) := by
  obtain ⟨e, h1, h2, h3⟩ := h
  obtain ⟨e', g1, g2, g3⟩ := attach0 it hp e h1 h3
  exact ⟨e', g1, by rw [g2, h2], g3⟩

theorem good_fold : ∀ (post : List Led) (ts : List Tok), Good ts →
    (∀ l ∈ post, l.lbp ≤ 9 ∧ 0 < l.lbp ∧ l.Legal) → Cl (ledsDev post) → Good (ts ++ ledsToks post)
  | [], ts, h, _, _ => by simpa [ledsToks] using h
  | l :: post, ts, h, hall, hc => by
    simp only [ledsDev, Cl_add] at hc
    have hl := hall l (List.mem_cons_self ..)
    have := good_attach ⟨l, hl.2.2, hc.1, Or.inl hl.1⟩ hl.2.1 h
    have := good_fold post _ this (fun l' hl' => hall l' (List.mem_cons_of_mem _ hl')) hc.2
    simpa [ledsToks, List.append_assoc] using this

/-! ### prefix `!` -/

theorem good_not {ts : List Tok} (h : Good ts) : Good (.not :: ts) := by
  obtain ⟨⟨hd, ls⟩, h1, h2, h3⟩ := h
  simp only [Expr.Legal] at h1
  rw [exprDev_false_clean_q] at h3
  obtain ⟨pre, post, rfl, c1, c2⟩ := chain_split 45 ls hd.follow h1.2.1
  rw [ledsDev_append] at h3
  refine ⟨.mk (.not (.mk hd pre)) post, ?_, ?_, ?_⟩
  · simp only [Expr.Legal, Nud.Legal, Nud.follow, Expr.follow]
    exact ⟨⟨h1.1, c1, callDevOk_of_clean _ _ h3.2.1.1⟩, c2, callDevOk_of_clean _ _ h3.2.1.2⟩
  · rw [← h2]; simp [Expr.toks, Nud.toks, ledsToks_append]
  · rw [exprDev_false_clean_q]
    refine ⟨?_, h3.2.1.2, by simp [Nud.tag]⟩
    simp only [nudDev]; rw [exprDev_false_clean_q]; exact ⟨h3.1, h3.2.1.1, h3.2.2⟩

/-! ### binary operators -/

/-- a binary operator: its power, its token and its `Led` constructor -/
structure BinOp where
  p : Nat
  t : Tok
  op : Expr → Led
  hp : 0 < p ∧ p ≤ 5
  lbp : ∀ e, (op e).lbp = p
  legal : ∀ e, (op e).Legal ↔ e.Legal p
  toks : ∀ e, (op e).toks = t :: e.toks
  dev : ∀ e, ledDev (op e) = exprDev false e

def BinOp.or : BinOp := ⟨2, .or, .or, by omega, fun _ => rfl, fun _ => by simp [Led.Legal], fun _ => by simp [Led.toks], fun _ => by simp [ledDev]⟩
def BinOp.and : BinOp := ⟨3, .and, .and, by omega, fun _ => rfl, fun _ => by simp [Led.Legal], fun _ => by simp [Led.toks], fun _ => by simp [ledDev]⟩
def BinOp.pipe : BinOp := ⟨1, .pipe, .pipe, by omega, fun _ => rfl, fun _ => by simp [Led.Legal], fun _ => by simp [Led.toks], fun _ => by simp [ledDev]⟩
def BinOp.cmp (o : Cmp) : BinOp := ⟨5, cmpTok o, .cmp o, by omega, fun _ => rfl, fun _ => by simp [Led.Legal], fun _ => by simp [Led.toks], fun _ => by simp [ledDev]⟩

theorem good_bin (b : BinOp) {l r : List Tok} (hl : Good l) (hr : Good r) : Good (l ++ b.t :: r) := by
  obtain ⟨⟨hd, ls⟩, h1, h2, h3⟩ := hr
  simp only [Expr.Legal] at h1
  rw [exprDev_false_clean_q] at h3
  obtain ⟨pre, post, rfl, c1, c2⟩ := chain_split b.p ls hd.follow h1.2.1
  rw [ledsDev_append] at h3
  have hop : (b.op (.mk hd pre)).Legal := by
    rw [b.legal]; simp only [Expr.Legal]; exact ⟨h1.1, c1, callDevOk_of_clean _ _ h3.2.1.1⟩
  have hcl : Cl (ledDev (b.op (.mk hd pre))) := by
    rw [b.dev, exprDev_false_clean_q]; exact ⟨h3.1, h3.2.1.1, h3.2.2⟩
  have g1 := good_attach ⟨b.op (.mk hd pre), hop, hcl, Or.inl (by rw [b.lbp]; have := b.hp; omega)⟩
    (by simp only [b.lbp]; exact b.hp.1) hl
  have g2 := good_fold post _ g1
    (chain_low post _ (by have := b.hp; omega) c2) h3.2.1.2
  rw [← h2]
  simpa [b.toks, Expr.toks, ledsToks_append, List.append_assoc] using g2

/-! ### postfix items -/

/-- `.` followed by a closed head (identifier, quoted identifier, multi-select hash, function call) -/
def Item.dotHead (h : Nud) (hl : h.Legal) (hd : h.isDotHead = true) (hs : h.isStar = false)
    (hc : Cl (nudDev h)) (ht : h.tag ≠ 15) : Item where
  led := .dot (.expr (.mk h []))
  legal := by
    simp only [Led.Legal, DotRhs.Legal, Expr.Legal, chain, callDevOk, Expr.headIsDot, DotRhs.startsWithStar]
    exact ⟨⟨⟨hl, trivial, trivial⟩, hd⟩, hs⟩
  clean := by
    simp only [ledDev, dotDev]; rw [exprDev_false_clean_q]
    exact ⟨hc, by simp [ledsDev, Cl_empty], ht⟩
  rhs := Or.inr fun k => ⟨.dot (.expr (.mk h [])), by
    simp only [Rhs.Legal, DotRhs.Legal, Expr.Legal, chain, callDevOk, Expr.headIsDot]
    exact ⟨⟨hl, trivial, trivial⟩, hd⟩, by simp [Rhs.toks, Led.toks], by
    simp only [rhsDev, dotDev]; rw [exprDev_false_clean_q]
    exact ⟨hc, by simp [ledsDev, Cl_empty], ht⟩⟩

/-- `.` followed by a multi-select list -/
def Item.dotMlist (es : List Expr) (hne : es ≠ []) (hl : argsLegal es) (hc : Cl (argsDev false es)) : Item where
  led := .dot (.mlist es)
  legal := by
    simp only [Led.Legal, DotRhs.Legal, DotRhs.startsWithStar]
    exact ⟨⟨hne, hl⟩, trivial⟩
  clean := by simpa [ledDev, dotDev] using hc
  rhs := Or.inr fun k => ⟨.dot (.mlist es), by
    simp only [Rhs.Legal, DotRhs.Legal]; exact ⟨hne, hl⟩, by simp [Rhs.toks, Led.toks], by
    simpa [rhsDev, dotDev] using hc⟩

/-- `.*` -/
def Item.dotStar : Item where
  led := .dotStar .none
  legal := by simp [Led.Legal, Rhs.Legal]
  clean := by simp [ledDev, rhsDev, Cl_empty]
  rhs := Or.inr fun k => ⟨.dot (.expr (.mk (.star .none) [])), by
    simp [Rhs.Legal, DotRhs.Legal, Expr.Legal, Nud.Legal, chain, callDevOk, Expr.headIsDot, Nud.isDotHead],
    by simp [Rhs.toks, Led.toks, DotRhs.toks, Expr.toks, Nud.toks, ledsToks], by
    simp only [rhsDev, dotDev]; rw [exprDev_false_clean_q]
    simp [nudDev, rhsDev, ledsDev, Cl_empty, Nud.tag]⟩

/-- a bracket specifier: as an application `l` and as a head `h` -/
def Item.bracket (l : Led) (h : Nud) (ll : l.Legal) (lc : Cl (ledDev l)) (hl : h.Legal)
    (hb : h.isBracketHead = true) (hc : Cl (nudDev h)) (ht : h.tag ≠ 9) (ht' : h.tag ≠ 15)
    (htoks : h.toks = l.toks) : Item where
  led := l
  legal := ll
  clean := lc
  rhs := Or.inr fun k => ⟨.bracket (.mk h []), by
    simp only [Rhs.Legal, Expr.Legal, chain, callDevOk, Expr.headIsBracket]
    exact ⟨⟨hl, trivial, trivial⟩, hb⟩, by simp [Rhs.toks, Expr.toks, ledsToks, htoks], by
    rw [rhsDev_bracket_clean_q, exprDev_false_clean_q]
    exact ⟨⟨hc, by simp [ledsDev, Cl_empty], ht'⟩, ht⟩⟩

/-- `[]` -/
def Item.flatten : Item where
  led := .flattenL .none
  legal := by simp [Led.Legal, Rhs.Legal]
  clean := by simp [ledDev, rhsDev, Cl_empty]
  rhs := Or.inl (by simp [Led.lbp])

/-- a head without applications -/
theorem good_head (h : Nud) (hl : h.Legal) (hc : Cl (nudDev h)) (ht : h.tag ≠ 15) : Good h.toks := by
  refine ⟨.mk h [], ?_, by simp [Expr.toks, ledsToks], ?_⟩
  · simp only [Expr.Legal, chain, callDevOk]; exact ⟨hl, trivial, trivial⟩
  · rw [exprDev_false_clean_q]; exact ⟨hc, by simp [ledsDev, Cl_empty], ht⟩

/-! ### slices -/

theorem optNum_toks {a : List Tok} (h : Abnf.OptNum a) : ∃ o, optNumToks o = a := by
  cases h with
  | none => exact ⟨.none, rfl⟩
  | some n => exact ⟨.some n, rfl⟩

theorem slice_toks {s : List Tok} (h : Abnf.SliceExpr s) : ∃ hdr : SliceHdr, hdr.toks = s := by
  cases h with
  | two ha hb =>
    obtain ⟨a, rfl⟩ := optNum_toks ha
    obtain ⟨b, rfl⟩ := optNum_toks hb
    exact ⟨⟨a, b, .none⟩, by simp [SliceHdr.toks]⟩
  | three ha hb hc =>
    obtain ⟨a, rfl⟩ := optNum_toks ha
    obtain ⟨b, rfl⟩ := optNum_toks hb
    obtain ⟨c, rfl⟩ := optNum_toks hc
    exact ⟨⟨a, b, .some c⟩, by simp [SliceHdr.toks]⟩

/-! ### argument lists -/

theorem argsTail_eq : ∀ es : List Expr, es ≠ [] → argsTail es = .comma :: argsToks es
  | [], h => absurd rfl h
  | e :: es, _ => by simp [argsTail, argsToks]

theorem kvsTail_eq : ∀ kvs : List (Bool × String × Expr), kvs ≠ [] → kvsTail kvs = .comma :: kvsToks kvs
  | [], h => absurd rfl h
  | (q, s, e) :: r, _ => by simp [kvsTail, kvsToks]

theorem ident_key {k : List Tok} (h : Abnf.Ident k) : ∃ q s, k = [keyTok q s] := by
  cases h with
  | unquoted s => exact ⟨false, s, by simp [keyTok]⟩
  | quoted s => exact ⟨true, s, by simp [keyTok]⟩

end JmesVerif
