import JmesVerif.Lemmas.SemWidth
import JmesVerif.Lemmas.SemFullSafe
import JmesVerif.Lemmas.InterpJson
/-
The width bound of `SemWidth.lean` for the full language (`SemFull`): `X.wbF b` bounds the width of
every value that arises when `X` — function calls included — is evaluated on a document of width
≤ `b`; hence (`exprF_w`) a bound below `i32::MAX` implies `SafeF`.
-/
namespace JmesVerif
open Spec

/-! ### the width bound of an expression of the full language -/
mutual
/-- `h.wbF b`: bound on the width of every value arising when `h` is evaluated on a document of
width ≤ `b` (and of the result).  Same equations as `Nud.wb` on the core forms. -/
def Nud.wbF (b : Nat) : Nud → Nat
  | .lit v => max b v.width
  | .paren e | .not e => max b (e.wbF b)
  | .mlist es => max (max b es.length) (exprsWbF b es)
  | .mhash kvs => max (max b kvs.length) (kvsWbF b kvs)
  | .wildIdx r | .star r | .slice _ r => max b (r.wbF b)
  | .flatten r => max (max b (b * b)) (r.wbF b)
  | .filter p r => max b (max (p.wbF b) (r.wbF b))
  | .call name args =>
    if name == "merge" then
      max (max 1 (fnsWbF (exprsWbF b args) args)) (args.length * fnsWbF (exprsWbF b args) args)
    else max 1 (fnsWbF (exprsWbF b args) args)
  | _ => b
/-- the body of an `&e` head, evaluated on an element of width ≤ `B` -/
def Nud.fnWbF (B : Nat) : Nud → Nat
  | .expref e => e.wbF B
  | _ => B
/-- `b` bounds both the current node and the left value -/
def Led.wbF (b : Nat) : Led → Nat
  | .dot dr => max b (dr.wbF b)
  | .pipe e | .or e | .and e | .cmp _ e => max b (e.wbF b)
  | .wildIdxL r | .dotStar r | .sliceL _ r => max b (r.wbF b)
  | .flattenL r => max (max b (b * b)) (r.wbF b)
  | .filterL p r => max b (max (p.wbF b) (r.wbF b))
  | _ => b
def Rhs.wbF (b : Nat) : Rhs → Nat
  | .none => b
  | .dot dr => max b (dr.wbF b)
  | .bracket e => max b (e.wbF b)
def DotRhs.wbF (b : Nat) : DotRhs → Nat
  | .mlist es => max (max b es.length) (exprsWbF b es)
  | .expr e => max b (e.wbF b)
def Expr.wbF (b : Nat) : Expr → Nat
  | .mk h ls => ledsWbF (h.wbF b) ls
/-- an argument of the form `&body`: the bound of `body` on an element of width ≤ `B`; any other
argument: `B` -/
def Expr.fnWbF (B : Nat) : Expr → Nat
  | .mk h [] => h.fnWbF B
  | .mk _ (_ :: _) => B
def ledsWbF (b : Nat) : List Led → Nat
  | [] => b
  | l :: ls => ledsWbF (l.wbF b) ls
/-- `max` of `b` and the bounds of the members (an `&e` argument of a call contributes `b`) -/
def exprsWbF (b : Nat) : List Expr → Nat
  | [] => b
  | e :: es => max (e.wbF b) (exprsWbF b es)
/-- `max` of `B` and the bounds of the bodies of the `&body` arguments on elements of width ≤ `B` -/
def fnsWbF (B : Nat) : List Expr → Nat
  | [] => B
  | e :: es => max (e.fnWbF B) (fnsWbF B es)
def kvsWbF (b : Nat) : List (Bool × String × Expr) → Nat
  | [] => b
  | (_, _, e) :: r => max (e.wbF b) (kvsWbF b r)
end

example : (Expr.mk (.call "map" [.mk (.expref (.mk (.call "length" [.mk .at []]) [])) [], .mk .at []]) []).wbF 2
    = 2 := by decide
example : (Expr.mk (.call "contains" [.mk .at [], .mk .at []]) []).wbF 7 = 7 := by decide
/-- `merge(@, @, @)` on a document of width ≤ 5 -/
example : (Expr.mk (.call "merge" [.mk .at [], .mk .at [], .mk .at []]) []).wbF 5 = 15 := by decide
/-- `sort_by(@[], &foo)`: the flatten squares the bound, the call adds nothing -/
example : (Expr.mk (.call "sort_by" [.mk (.flatten .none) [], .mk (.expref (.mk (.field "foo") [])) []]) []).wbF 3
    = 9 := by decide


/-! ### monotonicity -/
theorem exprsWbF_le : ∀ (es : List Expr) (b : Nat), b ≤ exprsWbF b es
  | [], b => by simp [exprsWbF]
  | e :: es, b => by
    simp only [exprsWbF]; have := exprsWbF_le es b; omega
theorem fnsWbF_le : ∀ (es : List Expr) (b : Nat), b ≤ fnsWbF b es
  | [], b => by simp [fnsWbF]
  | e :: es, b => by
    simp only [fnsWbF]; have := fnsWbF_le es b; omega
theorem Nud.le_wbF (b : Nat) (h : Nud) : b ≤ h.wbF b := by
  cases h with
  | call name args =>
    simp only [Nud.wbF]
    have := exprsWbF_le args b
    have := fnsWbF_le args (exprsWbF b args)
    split <;> omega
  | _ => simp only [Nud.wbF] <;> omega
theorem Led.le_wbF (b : Nat) (l : Led) : b ≤ l.wbF b := by
  cases l <;> simp only [Led.wbF] <;> omega
theorem Rhs.le_wbF (b : Nat) (r : Rhs) : b ≤ r.wbF b := by
  cases r <;> simp only [Rhs.wbF] <;> omega
theorem ledsWbF_le : ∀ (ls : List Led) (b : Nat), b ≤ ledsWbF b ls
  | [], b => by simp [ledsWbF]
  | l :: ls, b => by
    simp only [ledsWbF]
    exact Nat.le_trans (Led.le_wbF b l) (ledsWbF_le ls _)
theorem Expr.le_wbF (b : Nat) : ∀ e : Expr, b ≤ e.wbF b
  | .mk h ls => by
    simp only [Expr.wbF]
    exact Nat.le_trans (Nud.le_wbF b h) (ledsWbF_le ls _)

/-! ### the argument list of a call: unfolding the overlapping patterns -/
theorem fnArg_dec (h : Nud) (ls : List Led) :
    (∃ e, h = .expref e ∧ ls = []) ∨ (∀ e, Expr.mk h ls = .mk (.expref e) [] → False) := by
  cases ls with
  | cons l ls => exact .inr (fun e he => by cases he)
  | nil =>
    cases h with
    | expref e => exact .inl ⟨e, rfl, rfl⟩
    | _ => exact .inr (fun e he => by cases he)

theorem fnWbF_other {h : Nud} {ls : List Led} (hne : ∀ e, Expr.mk h ls = .mk (.expref e) [] → False)
    (B : Nat) : (Expr.mk h ls).fnWbF B = B := by
  cases ls with
  | cons l ls => simp only [Expr.fnWbF]
  | nil =>
    cases h with
    | expref e => exact absurd rfl (hne e)
    | _ => simp only [Expr.fnWbF, Nud.fnWbF]

theorem fnArg_wbF (e : Expr) (b : Nat) : (Expr.mk (.expref e) []).wbF b = b := by
  simp only [Expr.wbF, Nud.wbF, ledsWbF]

theorem fnArg_fnWbF (e : Expr) (B : Nat) : (Expr.mk (.expref e) []).fnWbF B = e.wbF B := by
  simp only [Expr.fnWbF, Nud.fnWbF]

/-! ### the builtins stay within the bound -/
theorem numOfF64_within (n : Nat) (f : F64) (msg : String) (v : Val) (h : numOfF64 f msg = .ok v) :
    v.Within n := by
  unfold numOfF64 at h
  split at h <;> simp at h
  subst h; trivial

theorem foldInsert_len (kvs : List (String × Val)) : ∀ acc : List (String × Val),
    (kvs.foldl (fun m (kv : String × Val) => insertKV kv.1 kv.2 m) acc).length ≤ acc.length + kvs.length := by
  induction kvs with
  | nil => intro acc; simp
  | cons q kvs ih =>
    intro acc
    simp only [List.foldl_cons, List.length_cons]
    have := ih (insertKV q.1 q.2 acc)
    have := insertKV_len q.1 q.2 acc
    omega

theorem foldInsert_within {B : Nat} (kvs : List (String × Val)) : ∀ acc : List (String × Val),
    (∀ p ∈ kvs, p.2.Within B) → (∀ p ∈ acc, p.2.Within B) →
    ∀ p ∈ kvs.foldl (fun m (kv : String × Val) => insertKV kv.1 kv.2 m) acc, p.2.Within B := by
  induction kvs with
  | nil => intro acc _ h; simpa using h
  | cons q kvs ih =>
    intro acc hk ha
    simp only [List.foldl_cons]
    apply ih
    · intro p hp; exact hk p (by simp [hp])
    · intro p hp
      rcases insertKV_mem _ _ _ p hp with rfl | h
      · exact hk q (by simp)
      · exact ha p h

theorem mergeObjs_len {B : Nat} : ∀ (args : List Val) (acc : List (String × Val)),
    (∀ a ∈ args, a.Within B) → (mergeObjs acc args).length ≤ acc.length + args.length * B := by
  intro args
  induction args with
  | nil => intro acc _; simp [mergeObjs]
  | cons a args ih =>
    intro acc hk
    have hk' : ∀ a ∈ args, a.Within B := fun x hx => hk x (by simp [hx])
    simp only [List.length_cons, Nat.add_mul, Nat.one_mul]
    cases a with
    | obj kvs =>
      rw [mergeObjs]
      have h1 := (obj_within.mp (hk (.obj kvs) (by simp))).1
      have h2 := foldInsert_len kvs acc
      have h3 := ih (kvs.foldl (fun m (kv : String × Val) => insertKV kv.1 kv.2 m) acc) hk'
      exact Nat.le_trans h3 (by omega)
    | _ => rw [mergeObjs]; have := ih acc hk'; omega; simp

theorem mergeObjs_within {B : Nat} : ∀ (args : List Val) (acc : List (String × Val)),
    (∀ a ∈ args, a.Within B) → (∀ p ∈ acc, p.2.Within B) →
    ∀ p ∈ mergeObjs acc args, p.2.Within B := by
  intro args
  induction args with
  | nil => intro acc _ h; simpa [mergeObjs] using h
  | cons a args ih =>
    intro acc hk ha
    have hk' : ∀ a ∈ args, a.Within B := fun x hx => hk x (by simp [hx])
    cases a with
    | obj kvs =>
      rw [mergeObjs]
      apply ih _ hk'
      exact foldInsert_within kvs acc (obj_within.mp (hk (.obj kvs) (by simp))).2 ha
    | _ => rw [mergeObjs]; exact ih _ hk' ha; simp

/-- a builtin that does not evaluate expression references: the result is a scalar, an argument, a
part or rearrangement of an argument, a one-element array, or (merge) an object with at most as
many members as all arguments together -/
theorem pure_within {B R : Nat} (b : Builtin) (args : List Val) (v : Val)
    (ha : ∀ a ∈ args, a.Within B) (hB : B ≤ R) (h1 : 1 ≤ R)
    (hk : b = .merge → args.length * B ≤ R) (h : b.pure args = .ok v) : v.Within R := by
  unfold Builtin.pure at h
  split at h
  all_goals (try (exact numOfF64_within _ _ _ _ h))
  all_goals (try (simp only [Except.ok.injEq] at h; subst h))
  all_goals (try (trivial))
  case h_2 =>
    split at h
    · simp only [Except.ok.injEq] at h; subst h; trivial
    · exact numOfF64_within _ _ _ _ h
  case h_6 =>
    split at h <;> (simp only [Except.ok.injEq] at h; subst h; trivial)
  case h_10 =>
    have hh := obj_within.mp (ha _ (List.mem_singleton.mpr rfl))
    refine arr_within.mpr ⟨by rw [List.length_map]; omega, fun x hx => ?_⟩
    obtain ⟨p, _, rfl⟩ := List.mem_map.mp hx
    trivial
  case h_11 =>
    have hh := obj_within.mp (ha _ (List.mem_singleton.mpr rfl))
    refine arr_within.mpr ⟨by rw [List.length_map]; omega, fun x hx => ?_⟩
    obtain ⟨p, hp, rfl⟩ := List.mem_map.mp hx
    exact Val.Within.mono hB _ (hh.2 p hp)
  case h_15 =>
    have hh := arr_within.mp (ha _ (List.mem_singleton.mpr rfl))
    cases hf : foldMax _ with
    | none => trivial
    | some w => exact Val.Within.mono hB _ (hh.2 w (foldMax_mem_ij _ _ hf))
  case h_16 =>
    have hh := arr_within.mp (ha _ (List.mem_singleton.mpr rfl))
    cases hf : foldMin _ with
    | none => trivial
    | some w => exact Val.Within.mono hB _ (hh.2 w (foldMin_mem_ij _ _ hf))
  case h_17 =>
    refine obj_within.mpr ⟨?_, fun p hp => ?_⟩
    · have := mergeObjs_len args [] ha
      simp only [List.length_nil, Nat.zero_add] at this
      have := hk rfl
      omega
    · exact Val.Within.mono hB _ (mergeObjs_within args [] ha (by simp) p hp)
  case h_18 =>
    cases hf : List.find? _ args with
    | none => trivial
    | some w => exact Val.Within.mono hB _ (ha w (List.mem_of_find?_eq_some hf))
  case h_19 =>
    have hh := arr_within.mp (ha _ (List.mem_singleton.mpr rfl))
    refine arr_within.mpr ⟨by rw [List.length_reverse]; omega, fun x hx => ?_⟩
    exact Val.Within.mono hB _ (hh.2 x (List.mem_reverse.mp hx))
  case h_21 =>
    have hh := arr_within.mp (ha _ (List.mem_singleton.mpr rfl))
    refine arr_within.mpr ⟨by unfold sortVals; rw [List.length_mergeSort]; omega, fun x hx => ?_⟩
    exact Val.Within.mono hB _ (hh.2 x ((sortVals_mem _ _).mp hx))
  case h_23 =>
    exact Val.Within.mono hB _ (ha _ (List.mem_singleton.mpr rfl))
  case h_24 =>
    refine arr_within.mpr ⟨by simpa using h1, fun x hx => ?_⟩
    rw [List.mem_singleton.mp hx]
    exact Val.Within.mono hB _ (ha _ (List.mem_singleton.mpr rfl))
  case h_26 =>
    split at h <;> (simp only [Except.ok.injEq] at h; subst h; trivial)

/-! ### the functions over evaluated arguments -/
theorem allVals_spec : ∀ (as : List SemFull.Arg) (vs : List Val), SemFull.allVals as = some vs →
    vs.length = as.length ∧ ∀ v ∈ vs, SemFull.Arg.val v ∈ as
  | [], vs, h => by simp [SemFull.allVals] at h; subst h; simp
  | .fn _ :: _, vs, h => by simp [SemFull.allVals] at h
  | .val w :: r, vs, h => by
    simp only [SemFull.allVals] at h
    cases hr : SemFull.allVals r with
    | none => simp [hr] at h
    | some ws =>
      simp only [hr, Option.map_some, Option.some.injEq] at h
      subst h
      obtain ⟨h1, h2⟩ := allVals_spec r ws hr
      refine ⟨by simp [h1], fun v hv => ?_⟩
      rcases List.mem_cons.mp hv with rfl | hv
      · simp
      · exact List.mem_cons_of_mem _ (h2 v hv)

theorem mapShape_eq {as : List SemFull.Arg} {p : (Val → Option Val) × List Val}
    (h : SemFull.mapShape as = some p) : as = [.fn p.1, .val (.arr p.2)] := by
  unfold SemFull.mapShape at h
  split at h
  · simp only [Option.some.injEq] at h; subst h; rfl
  · simp at h

theorem byShape_eq {as : List SemFull.Arg} {p : (Val → Option Val) × List Val}
    (h : SemFull.byShape as = some p) : as = [.val (.arr p.2), .fn p.1] := by
  unfold SemFull.byShape at h
  split at h
  · simp only [Option.some.injEq] at h; subst h; rfl
  · simp at h

theorem sortBy_within {B : Nat} {f : Val → Option Val} {xs : List Val} {v : Val}
    (hx : (Val.arr xs).Within B) (h : SemFull.sortBy f xs = some v) : v.Within B := by
  obtain ⟨hl, hm⟩ := arr_within.mp hx
  unfold SemFull.sortBy at h
  split at h
  · simp at h
  · rename_i ks _
    split at h
    · simp only [Option.some.injEq] at h; subst h
      refine arr_within.mpr ⟨?_, fun y hy => ?_⟩
      · unfold SemFull.sortByKey
        rw [List.length_map, List.length_mergeSort, List.length_zip]
        omega
      · obtain ⟨p, hp, rfl⟩ := List.mem_map.mp hy
        unfold SemFull.sortByKey at hp
        rw [List.mem_mergeSort] at hp
        obtain ⟨a, b⟩ := p
        exact hm _ (List.of_mem_zip hp).1
    · simp at h

theorem pickExtreme_within {B : Nat} (isMax : Bool) (xs ks : List Val)
    (hm : ∀ x ∈ xs, x.Within B) : (SemFull.pickExtreme isMax (xs.zip ks)).Within B := by
  cases hz : xs.zip ks with
  | nil => trivial
  | cons p ps =>
    simp only [SemFull.pickExtreme]
    have := foldl_pick_mem_h (fun (cand q : Val × Val) =>
      if (if isMax then Val.cmp q.2 cand.2 == .gt else Val.cmp q.2 cand.2 == .lt) then q else cand)
      (by intro a b
          cases (if isMax then Val.cmp b.2 a.2 == .gt else Val.cmp b.2 a.2 == .lt) <;> simp) ps p
    rw [← hz] at this
    generalize List.foldl _ p ps = r at this
    obtain ⟨a, b⟩ := r
    exact hm _ (List.of_mem_zip this).1

theorem extremeBy_within {B : Nat} {isMax : Bool} {f : Val → Option Val} {xs : List Val} {v : Val}
    (hx : (Val.arr xs).Within B) (h : SemFull.extremeBy isMax f xs = some v) : v.Within B := by
  unfold SemFull.extremeBy at h
  split at h
  · simp at h
  · split at h
    · simp only [Option.some.injEq] at h; subst h
      exact pickExtreme_within _ _ _ (arr_within.mp hx).2
    · simp at h

theorem lookup_mem_namesW {α : Type} : ∀ (l : List (String × α)) (k : String) (v : α),
    l.lookup k = some v → (k, v) ∈ l
  | [], k, v, h => by simp [List.lookup] at h
  | (k', v') :: l, k, v, h => by
    simp only [List.lookup] at h
    split at h
    · rename_i heq
      simp only [Option.some.injEq] at h; subst h
      have : k = k' := by simpa using heq
      subst this; simp
    · exact List.mem_cons_of_mem _ (lookup_mem_namesW l k v h)

theorem builtinOf_merge {name : String} (h : SemFull.builtinOf name = some .merge) :
    name = "merge" := by
  have := lookup_mem_namesW _ _ _ h
  simpa [SemFull.names] using this

/-- the value of a builtin on evaluated arguments: values within `B`, functions mapping values
within `B` to values within `B'`; only `merge` can exceed `max 1 B'` -/
theorem apply_within {B B' R : Nat} (hBB : B ≤ B') (b : Builtin) (as : List SemFull.Arg)
    (hv : ∀ v, SemFull.Arg.val v ∈ as → v.Within B)
    (hf : ∀ f, SemFull.Arg.fn f ∈ as → ∀ x : Val, x.Within B → ∀ y, f x = some y → y.Within B')
    (hR1 : max 1 B' ≤ R) (hk : b = .merge → as.length * B' ≤ R)
    (v : Val) (h : SemFull.apply b as = some v) : v.Within R := by
  have hR : B' ≤ R := by omega
  have hpure : ∀ b' : Builtin, b' = b → (SemFull.allVals as).bind (SemFull.pureFn b') = some v →
      v.Within R := by
    intro b' hb' h
    cases ha : SemFull.allVals as with
    | none => simp [ha] at h
    | some vs =>
      simp only [ha, Option.bind_some] at h
      obtain ⟨h1, h2⟩ := allVals_spec as vs ha
      unfold SemFull.pureFn at h
      split at h
      · simp at h
      · split at h
        · rename_i w hw
          simp only [Option.some.injEq] at h; subst h
          exact pure_within (B := B') b' vs _ (fun a ha' => Val.Within.mono hBB _ (hv a (h2 a ha')))
            hR (by omega) (fun hm => by rw [h1]; exact hk (hb' ▸ hm)) hw
        · simp at h
  have hby : ∀ p, SemFull.byShape as = some p → (Val.arr p.2).Within B := fun p hp =>
    hv _ (by rw [byShape_eq hp]; simp)
  cases b
  case map =>
    simp only [SemFull.apply] at h
    cases hs : SemFull.mapShape as with
    | none => simp [hs] at h
    | some p =>
      simp only [hs, Option.bind_some] at h
      have has := mapShape_eq hs
      have hxs := arr_within.mp (hv (.arr p.2) (by rw [has]; simp))
      have hfp := hf p.1 (by rw [has]; simp)
      cases hm : Sem.optMapM p.1 p.2 with
      | none => simp [hm] at h
      | some ys =>
        simp only [hm, Option.map_some, Option.some.injEq] at h; subst h
        refine Val.Within.mono hR _ (arr_within.mpr ⟨?_, fun y hy => ?_⟩)
        · rw [optMapM_len hm]; omega
        · obtain ⟨x, hx, hfx⟩ := optMapM_mem hm y hy
          exact hfp x (hxs.2 x hx) y hfx
  case sortBy =>
    simp only [SemFull.apply] at h
    cases hs : SemFull.byShape as with
    | none => simp [hs] at h
    | some p =>
      simp only [hs, Option.bind_some] at h
      exact Val.Within.mono (by omega) _ (sortBy_within (hby p hs) h)
  case maxBy =>
    simp only [SemFull.apply] at h
    cases hs : SemFull.byShape as with
    | none => simp [hs] at h
    | some p =>
      simp only [hs, Option.bind_some] at h
      exact Val.Within.mono (by omega) _ (extremeBy_within (hby p hs) h)
  case minBy =>
    simp only [SemFull.apply] at h
    cases hs : SemFull.byShape as with
    | none => simp [hs] at h
    | some p =>
      simp only [hs, Option.bind_some] at h
      exact Val.Within.mono (by omega) _ (extremeBy_within (hby p hs) h)
  all_goals exact hpure _ rfl (by simpa only [SemFull.apply] using h)

/-! ### statements of the induction -/
def NudW (h : Nud) : Prop := ∀ (b : Nat) (d : Val), d.Within b → h.wbF b ≤ CAP →
    SafeF.nud d h ∧ ∀ v, SemFull.nud d h = some v → v.Within (h.wbF b)
def LedsW (ls : List Led) : Prop := ∀ (b : Nat) (d lv : Val), d.Within b → lv.Within b →
    ledsWbF b ls ≤ CAP →
    SafeF.leds d lv ls ∧ ∀ v, SemFull.leds d lv ls = some v → v.Within (ledsWbF b ls)
def ExprW (e : Expr) : Prop := ∀ (b : Nat) (d : Val), d.Within b → e.wbF b ≤ CAP →
    SafeF.expr d e ∧ ∀ v, SemFull.expr d e = some v → v.Within (e.wbF b)
/-- the arguments of a call: the evaluated ones at the current node `d` of width ≤ `b`; the bodies
of the `&e` ones at an element `x` of width ≤ `B` -/
def ArgsW (es : List Expr) : Prop :=
  (∀ (b : Nat) (d : Val), d.Within b → exprsWbF b es ≤ CAP →
    SafeF.args d es ∧ ∀ as, SemFull.args d es = some as →
      as.length = es.length ∧ ∀ v, SemFull.Arg.val v ∈ as → v.Within (exprsWbF b es)) ∧
  (∀ (B : Nat) (x : Val), x.Within B → fnsWbF B es ≤ CAP →
    SafeF.fnArgs x es ∧ ∀ d as, SemFull.args d es = some as →
      ∀ f, SemFull.Arg.fn f ∈ as → ∀ y, f x = some y → y.Within (fnsWbF B es))

theorem expr_mk_w {h : Nud} {ls : List Led} (ihn : NudW h) (ihl : LedsW ls) : ExprW (.mk h ls) := by
  intro b d hd hb
  simp only [Expr.wbF] at hb ⊢
  have hle := ledsWbF_le ls (h.wbF b)
  have ihn := ihn b d hd (by omega)
  have hd' : d.Within (h.wbF b) := Val.Within.mono (Nud.le_wbF b h) d hd
  simp only [SafeF.expr, SemFull.expr]
  refine ⟨⟨ihn.1, fun v hv => (ihl (h.wbF b) d v hd' (ihn.2 v hv) hb).1⟩, fun v hv => ?_⟩
  cases hn : SemFull.nud d h with
  | none => simp [hn] at hv
  | some w =>
    simp only [hn] at hv
    exact (ihl (h.wbF b) d w hd' (ihn.2 w hn) hb).2 v hv

theorem args_nil_w : ArgsW [] := by
  refine ⟨fun b d hd hb => ⟨trivial, fun as has => ?_⟩, fun B x hx hb => ⟨trivial, fun d as has => ?_⟩⟩
  · simp [SemFull.args] at has; subst has; simp
  · simp [SemFull.args] at has; subst has; simp

theorem args_cons_w (h : Nud) (ls : List Led) (rest : List Expr) (ihn : NudW h)
    (ihf : ∀ e, h = .expref e → ExprW e) (ihl : LedsW ls) (ihr : ArgsW rest) :
    ArgsW (.mk h ls :: rest) := by
  rcases fnArg_dec h ls with ⟨e, rfl, rfl⟩ | hne
  · have ihe := ihf e rfl
    refine ⟨fun b d hd hb => ?_, fun B x hx hb => ?_⟩
    · simp only [exprsWbF, fnArg_wbF] at hb ⊢
      have hle := exprsWbF_le rest b
      obtain ⟨h1, h2⟩ := ihr.1 b d hd (by omega)
      rw [SafeF.args.eq_2, SemFull.args.eq_2]
      refine ⟨h1, fun as has => ?_⟩
      cases hr : SemFull.args d rest with
      | none => simp [hr] at has
      | some as' =>
        simp only [hr, Option.map_some, Option.some.injEq] at has
        subst has
        obtain ⟨h3, h4⟩ := h2 as' hr
        refine ⟨by simp [h3], fun v hv => ?_⟩
        have : SemFull.Arg.val v ∈ as' := by simpa using hv
        exact Val.Within.mono (by omega) _ (h4 v this)
    · simp only [fnsWbF, fnArg_fnWbF] at hb ⊢
      have hle := fnsWbF_le rest B
      obtain ⟨h1, h2⟩ := ihr.2 B x hx (by omega)
      obtain ⟨h5, h6⟩ := ihe B x hx (by omega)
      rw [SafeF.fnArgs.eq_2]
      refine ⟨⟨h5, h1⟩, fun d as has f hfm y hy => ?_⟩
      rw [SemFull.args.eq_2] at has
      cases hr : SemFull.args d rest with
      | none => simp [hr] at has
      | some as' =>
        simp only [hr, Option.map_some, Option.some.injEq] at has
        subst has
        rcases List.mem_cons.mp hfm with heq | hfm
        · simp only [SemFull.Arg.fn.injEq] at heq; subst heq
          exact Val.Within.mono (by omega) _ (h6 y hy)
        · exact Val.Within.mono (by omega) _ (h2 d as' hr f hfm y hy)
  · have ihe : ExprW (.mk h ls) := expr_mk_w ihn ihl
    refine ⟨fun b d hd hb => ?_, fun B x hx hb => ?_⟩
    · simp only [exprsWbF] at hb ⊢
      obtain ⟨h1, h2⟩ := ihr.1 b d hd (by omega)
      obtain ⟨h5, h6⟩ := ihe b d hd (by omega)
      rw [SafeF.args.eq_3 _ _ _ hne, SemFull.args.eq_3 _ _ _ hne]
      refine ⟨⟨h5, h1⟩, fun as has => ?_⟩
      cases he : SemFull.expr d (.mk h ls) with
      | none => simp [he] at has
      | some w =>
        simp only [he] at has
        cases hr : SemFull.args d rest with
        | none => simp [hr] at has
        | some as' =>
          simp only [hr, Option.map_some, Option.some.injEq] at has
          subst has
          obtain ⟨h3, h4⟩ := h2 as' hr
          refine ⟨by simp [h3], fun v hv => ?_⟩
          rcases List.mem_cons.mp hv with heq | hv
          · cases heq; exact Val.Within.mono (by omega) _ (h6 w he)
          · exact Val.Within.mono (by omega) _ (h4 v hv)
    · simp only [fnsWbF, fnWbF_other hne] at hb ⊢
      obtain ⟨h1, h2⟩ := ihr.2 B x hx (by omega)
      rw [SafeF.fnArgs.eq_3 _ _ _ hne]
      refine ⟨h1, fun d as has f hfm y hy => ?_⟩
      rw [SemFull.args.eq_3 _ _ _ hne] at has
      cases he : SemFull.expr d (.mk h ls) with
      | none => simp [he] at has
      | some w =>
        simp only [he] at has
        cases hr : SemFull.args d rest with
        | none => simp [hr] at has
        | some as' =>
          simp only [hr, Option.map_some, Option.some.injEq] at has
          subst has
          have : SemFull.Arg.fn f ∈ as' := by simpa using hfm
          exact Val.Within.mono (by omega) _ (h2 d as' hr f this y hy)

theorem fnDomain_mem {as : List SemFull.Arg} {x : Val} (h : x ∈ fnDomain (some as)) :
    ∃ xs, SemFull.Arg.val (.arr xs) ∈ as ∧ x ∈ xs := by
  unfold fnDomain at h
  split at h
  · rename_i xs heq; simp only [Option.some.injEq] at heq; subst heq; exact ⟨_, by simp, h⟩
  · rename_i xs heq; simp only [Option.some.injEq] at heq; subst heq; exact ⟨_, by simp, h⟩
  · simp at h

theorem call_w (name : String) (es : List Expr) (ih : ArgsW es) : NudW (.call name es) := by
  intro b d hd hb
  simp only [Nud.wbF] at hb ⊢
  have hle := exprsWbF_le es b
  have hle' := fnsWbF_le es (exprsWbF b es)
  have hcap : fnsWbF (exprsWbF b es) es ≤ CAP := by split at hb <;> omega
  obtain ⟨hA1, hA2⟩ := ih.1 b d hd (by omega)
  have hF := fun x hx => ih.2 (exprsWbF b es) x hx hcap
  simp only [SafeF.nud, SemFull.nud]
  refine ⟨⟨hA1, fun x hx => ?_⟩, fun v hv => ?_⟩
  · cases hargs : SemFull.args d es with
    | none => rw [hargs] at hx; simp [fnDomain] at hx
    | some as =>
      rw [hargs] at hx
      obtain ⟨xs, h1, h2⟩ := fnDomain_mem hx
      exact (hF x ((arr_within.mp ((hA2 as hargs).2 _ h1)).2 x h2)).1
  · cases hargs : SemFull.args d es with
    | none => simp [hargs, SemFull.call] at hv
    | some as =>
      simp only [hargs, SemFull.call] at hv
      cases hbi : SemFull.builtinOf name with
      | none => simp [hbi] at hv
      | some bi =>
        simp only [hbi] at hv
        refine apply_within hle' bi as (hA2 as hargs).2
          (fun f hfm x hx y hy => (hF x hx).2 d as hargs f hfm y hy) ?_ (fun hm => ?_) v hv
        · split <;> omega
        · subst hm
          have := builtinOf_merge hbi
          subst this
          rw [(hA2 as hargs).1]
          simp only [beq_self_eq_true, if_true]
          omega

/-! ### evaluation stays within the bound, hence every slice is safe -/

theorem proj_wF {r : Rhs} {b W : Nat} {xs : List Val}
    (ih : ∀ x : Val, x.Within b → SafeF.rhs x r ∧ ∀ v, SemFull.rhs x r = some v → v.Within (r.wbF b))
    (hx : ∀ x ∈ xs, x.Within b) (hlen : xs.length ≤ W) (hW : r.wbF b ≤ W) :
    (∀ x ∈ xs, SafeF.rhs x r) ∧
    ∀ v, ((Sem.optMapM (fun x => SemFull.rhs x r) xs).map fun ys => Val.arr (Sem.dropNulls ys)) = some v →
      v.Within W :=
  ⟨fun x h => (ih x (hx x h)).1,
   fun _ h => proj_within hlen (fun x hxm y hy => Val.Within.mono hW y ((ih x (hx x hxm)).2 y hy)) h⟩

theorem filt_wF {p : Expr} {r : Rhs} {b W : Nat} {xs : List Val}
    (ihp : ∀ x : Val, x.Within b → SafeF.expr x p)
    (ih : ∀ x : Val, x.Within b → SafeF.rhs x r ∧ ∀ v, SemFull.rhs x r = some v → v.Within (r.wbF b))
    (hx : ∀ x ∈ xs, x.Within b) (hlen : xs.length ≤ W) (hW : r.wbF b ≤ W) :
    (∀ x ∈ xs, SafeF.expr x p ∧
      ∀ c, SemFull.expr x p = some c → Sem.truthy c = true → SafeF.rhs x r) ∧
    ∀ v, ((Sem.optMapM (fun x => match SemFull.expr x p with
        | none => none
        | some c => if Sem.truthy c then SemFull.rhs x r else some .null) xs).map
          fun ys => Val.arr (Sem.dropNulls ys)) = some v → v.Within W := by
  refine ⟨fun x h => ⟨ihp x (hx x h), fun _ _ _ => (ih x (hx x h)).1⟩, fun v h => ?_⟩
  refine proj_within hlen (fun x hxm y hy => ?_) h
  cases hp : SemFull.expr x p with
  | none => simp [hp] at hy
  | some c =>
    simp only [hp] at hy
    split at hy
    · exact Val.Within.mono hW y ((ih x (hx x hxm)).2 y hy)
    · simp at hy; subst hy; trivial

mutual
theorem nudF_w : ∀ (h : Nud) (b : Nat) (d : Val), d.Within b → h.wbF b ≤ CAP →
    SafeF.nud d h ∧ ∀ v, SemFull.nud d h = some v → v.Within (h.wbF b)
  | .at, b, d, hd, _ => ⟨trivial, fun v hv => by simp [SemFull.nud] at hv; subst hv; exact hd⟩
  | .field s, b, d, hd, _ => ⟨trivial, fun v hv => by simp [SemFull.nud] at hv; subst hv; exact field_within s hd⟩
  | .qfield s, b, d, hd, _ => ⟨trivial, fun v hv => by simp [SemFull.nud] at hv; subst hv; exact field_within s hd⟩
  | .idx n, b, d, hd, _ => ⟨trivial, fun v hv => by simp [SemFull.nud] at hv; subst hv; exact index_within n hd⟩
  | .call name es, b, d, hd, hb => call_w name es (argsF_w es) b d hd hb
  | .expref _, b, d, hd, _ => ⟨trivial, fun v hv => by simp [SemFull.nud] at hv⟩
  | .lit w, b, d, hd, _ => ⟨trivial, fun v hv => by
      simp [SemFull.nud] at hv; subst hv
      exact Val.Within.mono (by simp only [Nud.wbF]; omega) _ (Val.within_width _)⟩
  | .paren e, b, d, hd, hb => by
    simp only [Nud.wbF] at hb ⊢
    have ih := exprF_w e b d hd (by omega)
    exact ⟨ih.1, fun v hv => Val.Within.mono (by omega) v (ih.2 v hv)⟩
  | .not e, b, d, hd, hb => by
    simp only [Nud.wbF] at hb ⊢
    have ih := exprF_w e b d hd (by omega)
    refine ⟨ih.1, fun v hv => ?_⟩
    simp only [SemFull.nud] at hv
    cases h : SemFull.expr d e <;> simp [h] at hv
    subst hv; trivial
  | .mlist es, b, d, hd, hb => by
    simp only [Nud.wbF] at hb ⊢
    have ih := exprsF_w es b d hd (by omega)
    refine ⟨fun _ => ih.1, fun v hv => ?_⟩
    simp only [SemFull.nud] at hv
    split at hv
    · simp at hv; subst hv; trivial
    · cases h : SemFull.exprs d es <;> simp [h] at hv
      subst hv
      obtain ⟨h1, h2⟩ := ih.2 _ h
      exact arr_within.mpr ⟨by omega, fun x hx => Val.Within.mono (by omega) x (h2 x hx)⟩
  | .mhash kvs, b, d, hd, hb => by
    simp only [Nud.wbF] at hb ⊢
    have ih := kvsF_w kvs b d hd (by omega)
    refine ⟨fun _ => ih.1, fun v hv => ?_⟩
    simp only [SemFull.nud] at hv
    split at hv
    · simp at hv; subst hv; trivial
    · cases h : SemFull.kvs' d kvs [] <;> simp [h] at hv
      subst hv
      obtain ⟨h1, h2⟩ := ih.2 (kvsWbF b kvs) [] _ (Nat.le_refl _) (by simp) h
      simp only [List.length_nil, Nat.zero_add] at h1
      exact obj_within.mpr ⟨by omega, fun x hx => Val.Within.mono (by omega) _ (h2 x hx)⟩
  | .wildIdx r, b, d, hd, hb => by
    simp only [Nud.wbF] at hb ⊢
    simp only [SafeF.nud, SemFull.nud]
    cases d with
    | arr xs =>
      obtain ⟨hl, hx⟩ := arr_within.mp hd
      have := proj_wF (W := max b (r.wbF b)) (fun x hx => rhsF_w r b x hx (by omega)) hx (by omega) (by omega)
      exact ⟨fun ys h x hx' => (by cases h; exact this.1 x hx'), this.2⟩
    | _ => exact ⟨fun ys h => (by cases h), fun v hv => (by simp at hv; subst hv; trivial)⟩
  | .star r, b, d, hd, hb => by
    simp only [Nud.wbF] at hb ⊢
    simp only [SafeF.nud, SemFull.nud]
    cases d with
    | obj m =>
      have hl := (obj_within.mp hd).1
      have := proj_wF (W := max b (r.wbF b)) (fun x hx => rhsF_w r b x hx (by omega)) (values_within hd)
        (by rw [values_len]; omega) (by omega)
      exact ⟨fun ys h x hx' => (by cases h; exact this.1 x hx'), this.2⟩
    | _ => exact ⟨fun ys h => (by cases h), fun v hv => (by simp at hv; subst hv; trivial)⟩
  | .flatten r, b, d, hd, hb => by
    simp only [Nud.wbF] at hb ⊢
    simp only [SafeF.nud, SemFull.nud]
    cases d with
    | arr xs =>
      have hl := flatten1_len hd
      have := proj_wF (W := max (max b (b * b)) (r.wbF b)) (fun x hx => rhsF_w r b x hx (by omega))
        (flatten1_within hd) (by omega) (by omega)
      exact ⟨fun ys h x hx' => (by cases h; exact this.1 x hx'), this.2⟩
    | _ => exact ⟨fun ys h => (by cases h), fun v hv => (by simp at hv; subst hv; trivial)⟩
  | .slice h r, b, d, hd, hb => by
    simp only [Nud.wbF] at hb ⊢
    simp only [SafeF.nud, SemFull.nud]
    by_cases h0 : h.step = 0
    · exact ⟨fun hne => absurd h0 hne, fun v hv => (by simp [h0] at hv)⟩
    · simp only [h0, if_false]
      cases d with
      | arr xs =>
        obtain ⟨hl, hx⟩ := arr_within.mp hd
        have hcap : (xs.length : Int) ≤ I32_MAX := cap_int (by omega)
        have hpl := pySlice_len xs h.a h.b h.step h0 hcap
        have := proj_wF (W := max b (r.wbF b)) (xs := pySlice xs h.a h.b h.step)
          (fun x hx => rhsF_w r b x hx (by omega))
          (fun x hx' => hx x (mem_pySlice hx')) (by omega) (by omega)
        exact ⟨fun _ ys hh => (by cases hh; exact ⟨hcap, this.1⟩), this.2⟩
      | _ => exact ⟨fun _ ys h => (by cases h), fun v hv => (by simp at hv; subst hv; trivial)⟩
  | .filter p r, b, d, hd, hb => by
    simp only [Nud.wbF] at hb ⊢
    simp only [SafeF.nud, SemFull.nud]
    cases d with
    | arr xs =>
      obtain ⟨hl, hx⟩ := arr_within.mp hd
      have := filt_wF (W := max b (max (p.wbF b) (r.wbF b)))
        (fun x hx => (exprF_w p b x hx (by omega)).1)
        (fun x hx => rhsF_w r b x hx (by omega)) hx (by omega) (by omega)
      exact ⟨fun ys h x hx' => (by cases h; exact this.1 x hx'), this.2⟩
    | _ => exact ⟨fun ys h => (by cases h), fun v hv => (by simp at hv; subst hv; trivial)⟩
theorem ledF_w : ∀ (l : Led) (b : Nat) (d lv : Val), d.Within b → lv.Within b → l.wbF b ≤ CAP →
    SafeF.led d lv l ∧ ∀ v, SemFull.led d lv l = some v → v.Within (l.wbF b)
  | .callDev _, b, d, lv, hd, hl, _ => ⟨trivial, fun v hv => by simp [SemFull.led] at hv⟩
  | .index n, b, d, lv, hd, hl, _ =>
    ⟨trivial, fun v hv => by simp [SemFull.led] at hv; subst hv; exact index_within n hl⟩
  | .dot dr, b, d, lv, hd, hl, hb => by
    simp only [Led.wbF] at hb ⊢
    have ih := dotF_w dr b lv hl (by omega)
    exact ⟨ih.1, fun v hv => Val.Within.mono (by omega) v (ih.2 v hv)⟩
  | .pipe e, b, d, lv, hd, hl, hb => by
    simp only [Led.wbF] at hb ⊢
    have ih := exprF_w e b lv hl (by omega)
    exact ⟨ih.1, fun v hv => Val.Within.mono (by omega) v (ih.2 v hv)⟩
  | .or e, b, d, lv, hd, hl, hb => by
    simp only [Led.wbF] at hb ⊢
    have ih := exprF_w e b d hd (by omega)
    refine ⟨fun _ => ih.1, fun v hv => ?_⟩
    simp only [SemFull.led] at hv
    split at hv
    · simp at hv; subst hv; exact Val.Within.mono (by omega) _ hl
    · exact Val.Within.mono (by omega) v (ih.2 v hv)
  | .and e, b, d, lv, hd, hl, hb => by
    simp only [Led.wbF] at hb ⊢
    have ih := exprF_w e b d hd (by omega)
    refine ⟨fun _ => ih.1, fun v hv => ?_⟩
    simp only [SemFull.led] at hv
    split at hv
    · simp at hv; subst hv; exact Val.Within.mono (by omega) _ hl
    · exact Val.Within.mono (by omega) v (ih.2 v hv)
  | .cmp o e, b, d, lv, hd, hl, hb => by
    simp only [Led.wbF] at hb ⊢
    have ih := exprF_w e b d hd (by omega)
    refine ⟨ih.1, fun v hv => ?_⟩
    simp only [SemFull.led] at hv
    cases h : SemFull.expr d e <;> simp [h] at hv
    subst hv; exact cmpVal_within _ _ _ _
  | .wildIdxL r, b, d, lv, hd, hlv, hb => by
    simp only [Led.wbF] at hb ⊢
    simp only [SafeF.led, SemFull.led]
    cases lv with
    | arr xs =>
      obtain ⟨hl, hx⟩ := arr_within.mp hlv
      have := proj_wF (W := max b (r.wbF b)) (fun x hx => rhsF_w r b x hx (by omega)) hx (by omega) (by omega)
      exact ⟨fun ys h x hx' => (by cases h; exact this.1 x hx'), this.2⟩
    | _ => exact ⟨fun ys h => (by cases h), fun v hv => (by simp at hv; subst hv; trivial)⟩
  | .dotStar r, b, d, lv, hd, hlv, hb => by
    simp only [Led.wbF] at hb ⊢
    simp only [SafeF.led, SemFull.led]
    cases lv with
    | obj m =>
      have hl := (obj_within.mp hlv).1
      have := proj_wF (W := max b (r.wbF b)) (fun x hx => rhsF_w r b x hx (by omega)) (values_within hlv)
        (by rw [values_len]; omega) (by omega)
      exact ⟨fun ys h x hx' => (by cases h; exact this.1 x hx'), this.2⟩
    | _ => exact ⟨fun ys h => (by cases h), fun v hv => (by simp at hv; subst hv; trivial)⟩
  | .flattenL r, b, d, lv, hd, hlv, hb => by
    simp only [Led.wbF] at hb ⊢
    simp only [SafeF.led, SemFull.led]
    cases lv with
    | arr xs =>
      have hl := flatten1_len hlv
      have := proj_wF (W := max (max b (b * b)) (r.wbF b)) (fun x hx => rhsF_w r b x hx (by omega))
        (flatten1_within hlv) (by omega) (by omega)
      exact ⟨fun ys h x hx' => (by cases h; exact this.1 x hx'), this.2⟩
    | _ => exact ⟨fun ys h => (by cases h), fun v hv => (by simp at hv; subst hv; trivial)⟩
  | .sliceL h r, b, d, lv, hd, hlv, hb => by
    simp only [Led.wbF] at hb ⊢
    simp only [SafeF.led, SemFull.led]
    by_cases h0 : h.step = 0
    · exact ⟨fun hne => absurd h0 hne, fun v hv => (by simp [h0] at hv)⟩
    · simp only [h0, if_false]
      cases lv with
      | arr xs =>
        obtain ⟨hl, hx⟩ := arr_within.mp hlv
        have hcap : (xs.length : Int) ≤ I32_MAX := cap_int (by omega)
        have hpl := pySlice_len xs h.a h.b h.step h0 hcap
        have := proj_wF (W := max b (r.wbF b)) (xs := pySlice xs h.a h.b h.step)
          (fun x hx => rhsF_w r b x hx (by omega))
          (fun x hx' => hx x (mem_pySlice hx')) (by omega) (by omega)
        exact ⟨fun _ ys hh => (by cases hh; exact ⟨hcap, this.1⟩), this.2⟩
      | _ => exact ⟨fun _ ys h => (by cases h), fun v hv => (by simp at hv; subst hv; trivial)⟩
  | .filterL p r, b, d, lv, hd, hlv, hb => by
    simp only [Led.wbF] at hb ⊢
    simp only [SafeF.led, SemFull.led]
    cases lv with
    | arr xs =>
      obtain ⟨hl, hx⟩ := arr_within.mp hlv
      have := filt_wF (W := max b (max (p.wbF b) (r.wbF b)))
        (fun x hx => (exprF_w p b x hx (by omega)).1)
        (fun x hx => rhsF_w r b x hx (by omega)) hx (by omega) (by omega)
      exact ⟨fun ys h x hx' => (by cases h; exact this.1 x hx'), this.2⟩
    | _ => exact ⟨fun ys h => (by cases h), fun v hv => (by simp at hv; subst hv; trivial)⟩
theorem rhsF_w : ∀ (r : Rhs) (b : Nat) (el : Val), el.Within b → r.wbF b ≤ CAP →
    SafeF.rhs el r ∧ ∀ v, SemFull.rhs el r = some v → v.Within (r.wbF b)
  | .none, b, el, hel, _ => ⟨trivial, fun v hv => by simp [SemFull.rhs] at hv; subst hv; exact hel⟩
  | .dot dr, b, el, hel, hb => by
    simp only [Rhs.wbF] at hb ⊢
    have ih := dotF_w dr b el hel (by omega)
    exact ⟨ih.1, fun v hv => Val.Within.mono (by omega) v (ih.2 v hv)⟩
  | .bracket e, b, el, hel, hb => by
    simp only [Rhs.wbF] at hb ⊢
    have ih := exprF_w e b el hel (by omega)
    exact ⟨ih.1, fun v hv => Val.Within.mono (by omega) v (ih.2 v hv)⟩
theorem dotF_w : ∀ (dr : DotRhs) (b : Nat) (el : Val), el.Within b → dr.wbF b ≤ CAP →
    SafeF.dot el dr ∧ ∀ v, SemFull.dot el dr = some v → v.Within (dr.wbF b)
  | .mlist es, b, el, hel, hb => by
    simp only [DotRhs.wbF] at hb ⊢
    have ih := exprsF_w es b el hel (by omega)
    refine ⟨fun _ => ih.1, fun v hv => ?_⟩
    simp only [SemFull.dot] at hv
    split at hv
    · simp at hv; subst hv; trivial
    · cases h : SemFull.exprs el es <;> simp [h] at hv
      subst hv
      obtain ⟨h1, h2⟩ := ih.2 _ h
      exact arr_within.mpr ⟨by omega, fun x hx => Val.Within.mono (by omega) x (h2 x hx)⟩
  | .expr e, b, el, hel, hb => by
    simp only [DotRhs.wbF] at hb ⊢
    have ih := exprF_w e b el hel (by omega)
    exact ⟨ih.1, fun v hv => Val.Within.mono (by omega) v (ih.2 v hv)⟩
theorem exprF_w : ∀ (e : Expr) (b : Nat) (d : Val), d.Within b → e.wbF b ≤ CAP →
    SafeF.expr d e ∧ ∀ v, SemFull.expr d e = some v → v.Within (e.wbF b)
  | .mk h ls, b, d, hd, hb => by
    simp only [Expr.wbF] at hb ⊢
    have hle := ledsWbF_le ls (h.wbF b)
    have ihn := nudF_w h b d hd (by omega)
    have hd' : d.Within (h.wbF b) := Val.Within.mono (Nud.le_wbF b h) d hd
    simp only [SafeF.expr, SemFull.expr]
    refine ⟨⟨ihn.1, fun v hv => (ledsF_w ls (h.wbF b) d v hd' (ihn.2 v hv) hb).1⟩, fun v hv => ?_⟩
    cases hn : SemFull.nud d h with
    | none => simp [hn] at hv
    | some w =>
      simp only [hn] at hv
      exact (ledsF_w ls (h.wbF b) d w hd' (ihn.2 w hn) hb).2 v hv
theorem ledsF_w : ∀ (ls : List Led) (b : Nat) (d lv : Val), d.Within b → lv.Within b →
    ledsWbF b ls ≤ CAP →
    SafeF.leds d lv ls ∧ ∀ v, SemFull.leds d lv ls = some v → v.Within (ledsWbF b ls)
  | [], b, d, lv, hd, hl, _ => ⟨trivial, fun v hv => by simp [SemFull.leds] at hv; subst hv; exact hl⟩
  | l :: ls, b, d, lv, hd, hl, hb => by
    simp only [ledsWbF] at hb ⊢
    have hle := ledsWbF_le ls (l.wbF b)
    have ihl := ledF_w l b d lv hd hl (by omega)
    have hd' : d.Within (l.wbF b) := Val.Within.mono (Led.le_wbF b l) d hd
    simp only [SafeF.leds, SemFull.leds]
    refine ⟨⟨ihl.1, fun v hv => (ledsF_w ls (l.wbF b) d v hd' (ihl.2 v hv) hb).1⟩, fun v hv => ?_⟩
    cases hn : SemFull.led d lv l with
    | none => simp [hn] at hv
    | some w =>
      simp only [hn] at hv
      exact (ledsF_w ls (l.wbF b) d w hd' (ihl.2 w hn) hb).2 v hv
theorem exprsF_w : ∀ (es : List Expr) (b : Nat) (d : Val), d.Within b → exprsWbF b es ≤ CAP →
    SafeF.exprs d es ∧ ∀ vs, SemFull.exprs d es = some vs →
      vs.length = es.length ∧ ∀ v ∈ vs, v.Within (exprsWbF b es)
  | [], b, d, hd, _ => ⟨trivial, fun vs hv => by simp [SemFull.exprs] at hv; subst hv; simp⟩
  | e :: es, b, d, hd, hb => by
    simp only [exprsWbF] at hb ⊢
    have ihe := exprF_w e b d hd (by omega)
    have ihs := exprsF_w es b d hd (by omega)
    refine ⟨⟨ihe.1, ihs.1⟩, fun vs hv => ?_⟩
    simp only [SemFull.exprs] at hv
    cases he : SemFull.expr d e with
    | none => simp [he] at hv
    | some w =>
      simp only [he] at hv
      cases hes : SemFull.exprs d es with
      | none => simp [hes] at hv
      | some ws =>
        simp only [hes, Option.map_some, Option.some.injEq] at hv
        subst hv
        obtain ⟨h1, h2⟩ := ihs.2 ws hes
        refine ⟨by simp [h1], fun v hv => ?_⟩
        rcases List.mem_cons.mp hv with rfl | hv
        · exact Val.Within.mono (by omega) _ (ihe.2 _ he)
        · exact Val.Within.mono (by omega) _ (h2 v hv)
theorem kvsF_w : ∀ (kvs : List (Bool × String × Expr)) (b : Nat) (d : Val), d.Within b →
    kvsWbF b kvs ≤ CAP →
    SafeF.kvs d kvs ∧ ∀ (W : Nat) (acc m : List (String × Val)), kvsWbF b kvs ≤ W →
      (∀ p ∈ acc, p.2.Within W) → SemFull.kvs' d kvs acc = some m →
      m.length ≤ acc.length + kvs.length ∧ ∀ p ∈ m, p.2.Within W
  | [], b, d, hd, _ =>
    ⟨trivial, fun W acc m _ hacc hm => by simp [SemFull.kvs'] at hm; subst hm; exact ⟨by simp, hacc⟩⟩
  | (_, k, e) :: r, b, d, hd, hb => by
    simp only [kvsWbF] at hb ⊢
    have ihe := exprF_w e b d hd (by omega)
    have ihs := kvsF_w r b d hd (by omega)
    refine ⟨⟨ihe.1, ihs.1⟩, fun W acc m hW hacc hm => ?_⟩
    simp only [SemFull.kvs'] at hm
    cases he : SemFull.expr d e with
    | none => simp [he] at hm
    | some w =>
      simp only [he] at hm
      have hacc' : ∀ p ∈ insertKV k w acc, p.2.Within W := by
        intro p hp
        rcases mem_insertKV hp with rfl | hp
        · exact Val.Within.mono (by omega) _ (ihe.2 _ he)
        · exact hacc p hp
      obtain ⟨h1, h2⟩ := ihs.2 W _ m (by omega) hacc' hm
      have := insertKV_len k w acc
      exact ⟨by simp only [List.length_cons]; omega, h2⟩
theorem nud_fnF_w : ∀ (h : Nud) (e : Expr), h = .expref e → ExprW e
  | .expref e, _, he => by cases he; exact exprF_w e
  | .at, _, he => nomatch he
  | .field _, _, he => nomatch he
  | .qfield _, _, he => nomatch he
  | .call _ _, _, he => nomatch he
  | .lit _, _, he => nomatch he
  | .star _, _, he => nomatch he
  | .idx _, _, he => nomatch he
  | .slice _ _, _, he => nomatch he
  | .wildIdx _, _, he => nomatch he
  | .mlist _, _, he => nomatch he
  | .flatten _, _, he => nomatch he
  | .mhash _, _, he => nomatch he
  | .not _, _, he => nomatch he
  | .filter _ _, _, he => nomatch he
  | .paren _, _, he => nomatch he
theorem argsF_w : ∀ es : List Expr, ArgsW es
  | [] => args_nil_w
  | .mk h ls :: rest =>
    args_cons_w h ls rest (nudF_w h) (nud_fnF_w h) (ledsF_w ls) (argsF_w rest)
end

/-! ### on core expressions the bound is the bound of `SemWidth.lean` -/
mutual
theorem Nud.wbF_core : ∀ h : Nud, Sem.nudCore h = true → ∀ b : Nat, h.wbF b = h.wb b
  | .at, _, _ => rfl
  | .field _, _, _ => rfl
  | .qfield _, _, _ => rfl
  | .idx _, _, _ => rfl
  | .lit _, _, _ => rfl
  | .call _ _, hc, _ => by simp [Sem.nudCore] at hc
  | .expref _, hc, _ => by simp [Sem.nudCore] at hc
  | .paren e, hc, b => by
    simp only [Sem.nudCore] at hc; simp only [Nud.wbF, Nud.wb, Expr.wbF_core e hc]
  | .not e, hc, b => by
    simp only [Sem.nudCore] at hc; simp only [Nud.wbF, Nud.wb, Expr.wbF_core e hc]
  | .mlist es, hc, b => by
    simp only [Sem.nudCore] at hc; simp only [Nud.wbF, Nud.wb, exprsWbF_core es hc]
  | .mhash kvs, hc, b => by
    simp only [Sem.nudCore] at hc; simp only [Nud.wbF, Nud.wb, kvsWbF_core kvs hc]
  | .wildIdx r, hc, b => by
    simp only [Sem.nudCore] at hc; simp only [Nud.wbF, Nud.wb, Rhs.wbF_core r hc]
  | .star r, hc, b => by
    simp only [Sem.nudCore] at hc; simp only [Nud.wbF, Nud.wb, Rhs.wbF_core r hc]
  | .slice _ r, hc, b => by
    simp only [Sem.nudCore] at hc; simp only [Nud.wbF, Nud.wb, Rhs.wbF_core r hc]
  | .flatten r, hc, b => by
    simp only [Sem.nudCore] at hc; simp only [Nud.wbF, Nud.wb, Rhs.wbF_core r hc]
  | .filter p r, hc, b => by
    simp only [Sem.nudCore, Bool.and_eq_true] at hc
    simp only [Nud.wbF, Nud.wb, Expr.wbF_core p hc.1, Rhs.wbF_core r hc.2]
theorem Led.wbF_core : ∀ l : Led, Sem.ledCore l = true → ∀ b : Nat, l.wbF b = l.wb b
  | .index _, _, _ => rfl
  | .callDev _, _, _ => rfl
  | .dot dr, hc, b => by
    simp only [Sem.ledCore] at hc; simp only [Led.wbF, Led.wb, DotRhs.wbF_core dr hc]
  | .pipe e, hc, b => by
    simp only [Sem.ledCore] at hc; simp only [Led.wbF, Led.wb, Expr.wbF_core e hc]
  | .or e, hc, b => by
    simp only [Sem.ledCore] at hc; simp only [Led.wbF, Led.wb, Expr.wbF_core e hc]
  | .and e, hc, b => by
    simp only [Sem.ledCore] at hc; simp only [Led.wbF, Led.wb, Expr.wbF_core e hc]
  | .cmp _ e, hc, b => by
    simp only [Sem.ledCore] at hc; simp only [Led.wbF, Led.wb, Expr.wbF_core e hc]
  | .wildIdxL r, hc, b => by
    simp only [Sem.ledCore] at hc; simp only [Led.wbF, Led.wb, Rhs.wbF_core r hc]
  | .dotStar r, hc, b => by
    simp only [Sem.ledCore] at hc; simp only [Led.wbF, Led.wb, Rhs.wbF_core r hc]
  | .sliceL _ r, hc, b => by
    simp only [Sem.ledCore] at hc; simp only [Led.wbF, Led.wb, Rhs.wbF_core r hc]
  | .flattenL r, hc, b => by
    simp only [Sem.ledCore] at hc; simp only [Led.wbF, Led.wb, Rhs.wbF_core r hc]
  | .filterL p r, hc, b => by
    simp only [Sem.ledCore, Bool.and_eq_true] at hc
    simp only [Led.wbF, Led.wb, Expr.wbF_core p hc.1, Rhs.wbF_core r hc.2]
theorem Rhs.wbF_core : ∀ r : Rhs, Sem.rhsCore r = true → ∀ b : Nat, r.wbF b = r.wb b
  | .none, _, _ => rfl
  | .dot dr, hc, b => by
    simp only [Sem.rhsCore] at hc; simp only [Rhs.wbF, Rhs.wb, DotRhs.wbF_core dr hc]
  | .bracket e, hc, b => by
    simp only [Sem.rhsCore] at hc; simp only [Rhs.wbF, Rhs.wb, Expr.wbF_core e hc]
theorem DotRhs.wbF_core : ∀ dr : DotRhs, Sem.dotCore dr = true → ∀ b : Nat, dr.wbF b = dr.wb b
  | .mlist es, hc, b => by
    simp only [Sem.dotCore] at hc; simp only [DotRhs.wbF, DotRhs.wb, exprsWbF_core es hc]
  | .expr e, hc, b => by
    simp only [Sem.dotCore] at hc; simp only [DotRhs.wbF, DotRhs.wb, Expr.wbF_core e hc]
/-- on the core language `wbF` is `wb` -/
theorem Expr.wbF_core : ∀ (e : Expr), Sem.exprCore e = true → ∀ b : Nat, e.wbF b = e.wb b
  | .mk h ls, hc, b => by
    simp only [Sem.exprCore, Bool.and_eq_true] at hc
    simp only [Expr.wbF, Expr.wb, Nud.wbF_core h hc.1, ledsWbF_core ls hc.2]
theorem ledsWbF_core : ∀ ls : List Led, Sem.ledsCore ls = true → ∀ b : Nat, ledsWbF b ls = ledsWb b ls
  | [], _, _ => rfl
  | l :: ls, hc, b => by
    simp only [Sem.ledsCore, Bool.and_eq_true] at hc
    simp only [ledsWbF, ledsWb, Led.wbF_core l hc.1, ledsWbF_core ls hc.2]
theorem exprsWbF_core : ∀ es : List Expr, Sem.exprsCore es = true → ∀ b : Nat,
    exprsWbF b es = exprsWb b es
  | [], _, _ => rfl
  | e :: es, hc, b => by
    simp only [Sem.exprsCore, Bool.and_eq_true] at hc
    simp only [exprsWbF, exprsWb, Expr.wbF_core e hc.1, exprsWbF_core es hc.2]
theorem kvsWbF_core : ∀ kvs : List (Bool × String × Expr), Sem.kvsCore kvs = true → ∀ b : Nat,
    kvsWbF b kvs = kvsWb b kvs
  | [], _, _ => rfl
  | (_, _, e) :: r, hc, b => by
    simp only [Sem.kvsCore, Bool.and_eq_true] at hc
    simp only [kvsWbF, kvsWb, Expr.wbF_core e hc.1, kvsWbF_core r hc.2]
end


#print axioms JmesVerif.exprF_w
#print axioms JmesVerif.Expr.le_wbF
#print axioms JmesVerif.Expr.wbF_core

end JmesVerif
