import JmesVerif.Generated.Code
import JmesVerif.Lemmas.Slice
import JmesVerif.Model.Interp

/-!
# The hand-written model equals the code re-translated from the Rust source

`Generated/Code.lean` is written by `tools/rs2lean.py` from the *bodies* of the Rust functions on
every run (shallow embedding: checked `i32`/`usize` arithmetic, checked indexing, fuel-bounded
loops).  This file proves each generated definition equal to the hand-written model the property
theorems are about, for **all** inputs in the `i32` range and lists of any length up to
`i32::MAX` (what `array.len() as i32` assumes).  A semantic change of the Rust source changes
`Generated/Code.lean` and makes a proof here fail; a reformatting does not.

The proofs avoid depending on the exact shape of the generated terms: they unfold, normalise the
`Except` plumbing (`rs_norm`), split every `if`/`match` (`repeat' split`) and close the leaves with
`omega`.
-/
namespace JmesVerif
open Generated.Code Spec

/-! ### plumbing -/

theorem ok_bind {ε α β} (a : α) (f : α → Except ε β) : (Except.ok a >>= f) = f a := rfl
theorem error_bind {ε α β} (e : ε) (f : α → Except ε β) :
    ((Except.error e : Except ε α) >>= f) = .error e := rfl
theorem ite_bind {ε α β} (c : Prop) [Decidable c] (a b : Except ε α) (f : α → Except ε β) :
    ((if c then a else b) >>= f) = if c then a >>= f else b >>= f := by split <;> rfl

/-- push `>>=` through `if`, evaluate it on `.ok`/`.error`, expose the range checks -/
macro "rs_norm" : tactic =>
  `(tactic| simp only [ite_bind, ok_bind, error_bind, i32Add, i32Sub, i32Neg, i32Check, usizeAdd, usizeSub])

macro "rs_leaves" : tactic =>
  `(tactic| all_goals first | rfl | omega | (simp only [decide_eq_true_eq, decide_eq_false_iff_not, Bool.not_eq_true] at *; omega) | (congr 1; omega) | (exfalso; omega) | (simp_all; done) | (simp_all; omega))

def InI32 (x : Int) : Prop := I32_MIN ≤ x ∧ x ≤ I32_MAX

def OptInI32 : Option Int → Prop
  | none => True
  | some x => InI32 x

/-- discharge a concrete range hypothesis -/
macro "in_range" : tactic =>
  `(tactic| first | trivial | (simp only [OptInI32, InI32, I32_MIN, I32_MAX]; omega))

/-! ### 1. `adjust_slice_endpoint` -/

/-- the generated `adjust_slice_endpoint` never overflows and computes `adjustEndpoint`
(the step is unconstrained: it is only compared with 0) -/
theorem gen_adjust_eq (len endpoint step : Int) (h0 : 0 ≤ len) (h1 : len ≤ I32_MAX)
    (he : InI32 endpoint) :
    adjust_slice_endpoint len endpoint step = .ok (adjustEndpoint len endpoint step) := by
  unfold adjust_slice_endpoint adjustEndpoint
  rs_norm
  unfold InI32 I32_MIN I32_MAX at *
  repeat' split
  rs_leaves

example : adjust_slice_endpoint 5 (-2147483648) (-1) = .ok (-1) ∧ adjustEndpoint 5 (-2147483648) (-1) = -1 :=
  ⟨gen_adjust_eq 5 (-2147483648) (-1) (by decide) (by decide) (by in_range), by decide⟩

/- (The hypothesis `0 ≤ len` is needed: an array of 2^31 elements makes `array.len() as i32` wrap to `i32::MIN`,
`castUsizeToI32 2147483648 = -2147483648`, and with today's source `endpoint += len` then overflows.  Behaviour
outside the domain is not part of any property, so it is not checked here: a rewrite of the source that differs only
there must not break this file.) -/
example : castUsizeToI32 2147483648 = -2147483648 := by decide

/-! ### 2. `slice` -/

/-- what `array[i as usize]` does for an `i32` index, under `len ≤ i32::MAX`: a negative index
wraps to at least `2^64 - 2^31`, which is out of bounds -/
theorem index_cast_eq {α : Type} (xs : List α) (i : Int) (hi : I32_MIN ≤ i)
    (hlen : (xs.length : Int) ≤ I32_MAX) :
    indexChecked xs (castI32ToUsize i) =
      if i < 0 then .error .outOfBounds else
      match xs[i.toNat]? with
      | none => .error .outOfBounds
      | some x => .ok x := by
  unfold indexChecked castI32ToUsize
  unfold I32_MIN I32_MAX at *
  by_cases h : i < 0
  · have h' : ¬ i ≥ 0 := by omega
    have : xs[(18446744073709551616 + i).toNat]? = none := by
      apply List.getElem?_eq_none; omega
    simp only [h', if_false, h, if_true, this]
  · have h' : i ≥ 0 := by omega
    simp only [h', if_true, h, if_false]
    cases xs[i.toNat]? <;> rfl

theorem sat_eq (i step : Int) : i32SaturatingAdd i step = addI32 i step := rfl

theorem sat_range (i step : Int) : I32_MIN ≤ i32SaturatingAdd i step := by
  unfold i32SaturatingAdd I32_MIN I32_MAX; repeat' split
  all_goals omega

/-- the generated loops accumulate (`push`), the hand model conses -/
def accOk {α : Type} (acc : List α) : Except Fault (List α) → Except Fault (List α)
  | .ok r => .ok (acc ++ r)
  | .error e => .error e

theorem accOk_nil {α : Type} (r : Except Fault (List α)) : accOk [] r = r := by
  cases r <;> simp [accOk]

/-- the first generated loop is `loopUp`, fuel for fuel, fault for fault -/
theorem gen_loop_up_eq {α : Type} (xs : List α) (b step : Int) (hlen : (xs.length : Int) ≤ I32_MAX) :
    ∀ (fuel : Nat) (acc : List α) (i : Int), I32_MIN ≤ i →
      slice_loop_1 xs step b fuel acc i = accOk acc (loopUp xs b step fuel i) := by
  intro fuel
  induction fuel with
  | zero => intro acc i _; rfl
  | succ n ih =>
    intro acc i hi
    unfold slice_loop_1 loopUp
    simp only [index_cast_eq xs i hi hlen, sat_eq]
    have hr := fun acc' => ih acc' (addI32 i step) (sat_range i step)
    split
    · split
      · rfl
      · cases hx : xs[i.toNat]? with
        | none => rfl
        | some x =>
          simp only [ok_bind, hr]
          cases loopUp xs b step n (addI32 i step) <;> simp [accOk]
    · simp [accOk]

/-- the second generated loop is `loopDown` -/
theorem gen_loop_down_eq {α : Type} (xs : List α) (b step : Int) (hlen : (xs.length : Int) ≤ I32_MAX) :
    ∀ (fuel : Nat) (acc : List α) (i : Int), I32_MIN ≤ i →
      slice_loop_2 xs step b fuel acc i = accOk acc (loopDown xs b step fuel i) := by
  intro fuel
  induction fuel with
  | zero => intro acc i _; rfl
  | succ n ih =>
    intro acc i hi
    unfold slice_loop_2 loopDown
    simp only [index_cast_eq xs i hi hlen, sat_eq]
    have hr := fun acc' => ih acc' (addI32 i step) (sat_range i step)
    split
    · split
      · rfl
      · cases hx : xs[i.toNat]? with
        | none => rfl
        | some x =>
          simp only [ok_bind, hr]
          cases loopDown xs b step n (addI32 i step) <;> simp [accOk]
    · simp [accOk]

theorem cast_len (n : Nat) (h : (n : Int) ≤ I32_MAX) : castUsizeToI32 n = n := by
  unfold castUsizeToI32; unfold I32_MAX at h
  have : n % 4294967296 = n := Nat.mod_eq_of_lt (by omega)
  rw [this]
  have : n < 2147483648 := by omega
  simp [this]

/-- the hand model with the fuel as a parameter (`sliceList` is the instance `xs.length + 1`) -/
def sliceListFuel {α : Type} (fuel : Nat) (xs : List α) (start stop : Option Int) (step : Int) :
    Except Fault (List α) :=
  let len : Int := xs.length
  if len = 0 then .ok [] else
  if step > 0 then loopUp xs (sliceB len stop step) step fuel (sliceA len start step)
  else loopDown xs (sliceB len stop step) step fuel (sliceA len start step)

theorem sliceListFuel_default {α : Type} (xs : List α) (start stop : Option Int) (step : Int) :
    sliceListFuel (xs.length + 1) xs start stop step = sliceList xs start stop step := rfl

theorem adjust_lower (len e step : Int) (h0 : 0 ≤ len) : I32_MIN ≤ adjustEndpoint len e step := by
  simp only [adjustEndpoint]; unfold I32_MIN
  repeat' split
  all_goals omega

macro "rs_lower" : tactic =>
  `(tactic| first | (unfold I32_MIN I32_MAX at *; omega) | (apply adjust_lower; omega))

/-- the generated `slice` is the hand model, for every fuel, fault for fault: no arithmetic site
of the function itself overflows, and the loops correspond step by step.  (The step needs no range
hypothesis: it is only compared with 0 and fed to `saturating_add`.) -/
theorem gen_slice_eq_fuel {α : Type} (fuel : Nat) (xs : List α) (start stop : Option Int) (step : Int)
    (hlen : (xs.length : Int) ≤ I32_MAX) (hstart : OptInI32 start) (hstop : OptInI32 stop) :
    slice fuel xs start stop step = sliceListFuel fuel xs start stop step := by
  have h0 : (0 : Int) ≤ xs.length := by omega
  have hadj : ∀ e, InI32 e →
      adjust_slice_endpoint xs.length e step = .ok (adjustEndpoint xs.length e step) :=
    fun e he => gen_adjust_eq _ e step h0 hlen he
  unfold slice sliceListFuel
  simp only [cast_len _ hlen]
  split
  · rfl
  · cases start <;> cases stop <;> simp only [OptInI32] at hstart hstop <;>
      (try simp only [hadj _ hstart]) <;> (try simp only [hadj _ hstop]) <;>
      simp only [sliceA, sliceB] <;> rs_norm <;> repeat' split
    -- a condition stored in a `let` (`let backwards = step < 0;`) reaches the leaves as `decide (..) = true`
    all_goals (try simp only [decide_eq_true_eq, decide_eq_false_iff_not, Bool.not_eq_true] at *)
    all_goals first
      | (exfalso; omega)
      | (exfalso; unfold I32_MIN I32_MAX at *; omega)
      | (rw [gen_loop_up_eq xs _ _ hlen _ _ _ (by rs_lower), accOk_nil]; done)
      | (rw [gen_loop_down_eq xs _ _ hlen _ _ _ (by rs_lower), accOk_nil]; done)

theorem sliceA_up (len : Int) (start : Option Int) (step : Int) (h0 : 0 ≤ len) (hs : step > 0) :
    0 ≤ sliceA len start step := by
  cases start <;> simp only [sliceA, adjustEndpoint] <;> repeat' split
  all_goals omega

theorem sliceB_up (len : Int) (stop : Option Int) (step : Int) (h0 : 0 ≤ len) (hs : step > 0) :
    sliceB len stop step ≤ len := by
  cases stop <;> simp only [sliceB, adjustEndpoint] <;> repeat' split
  all_goals omega

theorem sliceA_down (len : Int) (start : Option Int) (step : Int) (h0 : 0 < len) (hs : step < 0) :
    sliceA len start step < len := by
  cases start <;> simp only [sliceA, adjustEndpoint] <;> repeat' split
  all_goals omega

theorem sliceB_down (len : Int) (stop : Option Int) (step : Int) (h0 : 0 ≤ len) (hs : step < 0) :
    -1 ≤ sliceB len stop step := by
  cases stop <;> simp only [sliceB, adjustEndpoint] <;> repeat' split
  all_goals omega

/-- any fuel of at least `len + 1` gives the hand model's result -/
theorem sliceListFuel_eq {α : Type} (fuel : Nat) (xs : List α) (start stop : Option Int) (step : Int)
    (hfuel : xs.length + 1 ≤ fuel) (hstep : step ≠ 0) (hlen : (xs.length : Int) ≤ I32_MAX) :
    sliceListFuel fuel xs start stop step = sliceList xs start stop step := by
  rw [← sliceListFuel_default]
  unfold sliceListFuel
  have h0 : (0 : Int) ≤ xs.length := by omega
  by_cases hz : (xs.length : Int) = 0
  · simp only [hz, if_true]
  · simp only [hz, if_false]
    by_cases hs : step > 0
    · simp only [hs, if_true]
      have ha := sliceA_up xs.length start step h0 hs
      have hb := sliceB_up xs.length stop step h0 hs
      rw [loopUp_eq xs _ step hs hb hlen fuel _ ha (by omega),
        loopUp_eq xs _ step hs hb hlen (xs.length + 1) _ ha (by omega)]
    · simp only [hs, if_false]
      have hn : step < 0 := by omega
      have ha := sliceA_down xs.length start step (by omega) hn
      have hb := sliceB_down xs.length stop step h0 hn
      rw [loopDown_eq xs _ step hn hb hlen fuel _ ha (by omega),
        loopDown_eq xs _ step hn hb hlen (xs.length + 1) _ ha (by omega)]

/-- **the generated `slice` equals the hand model** for every array of at most `i32::MAX`
elements, every start/stop in the `i32` range (or absent), every non-zero step, and every fuel of
at least `len + 1` (so the statement is not vacuous because of fuel: `len + 1` always suffices) -/
theorem gen_slice_eq {α : Type} (fuel : Nat) (xs : List α) (start stop : Option Int) (step : Int)
    (hfuel : xs.length + 1 ≤ fuel) (hlen : (xs.length : Int) ≤ I32_MAX)
    (hstart : OptInI32 start) (hstop : OptInI32 stop) (hstep : step ≠ 0) :
    slice fuel xs start stop step = sliceList xs start stop step := by
  rw [gen_slice_eq_fuel fuel xs start stop step hlen hstart hstop,
    sliceListFuel_eq fuel xs start stop step hfuel hstep hlen]

example : slice 6 [10, 20, 30, 40, 50] (some (-2)) none (-2147483648) = .ok [40] ∧
    sliceList [10, 20, 30, 40, 50] (some (-2)) none (-2147483648) = .ok [40] :=
  ⟨rfl, rfl⟩
example : slice 6 [10, 20, 30, 40, 50] (some (-2)) none (-2147483648)
    = sliceList [10, 20, 30, 40, 50] (some (-2)) none (-2147483648) :=
  gen_slice_eq 6 _ _ _ _ (by decide) (by decide) (by in_range) (by in_range) (by decide)
/-! ### 3. indexes -/

theorem get_index_eq {α : Type} (xs : List α) (i : Nat) : get_index xs i = getIndex xs i := by
  unfold get_index getIndex
  cases xs[i]? <;> rfl

theorem indexChecked_eq {α : Type} (xs : List α) (i : Nat) (h : i < xs.length) :
    indexChecked xs i = .ok xs[i] := by
  simp [indexChecked, List.getElem?_eq_getElem h]

/-- `array.len() - adjusted_index` never underflows and `array[..]` is in bounds -/
theorem get_negative_index_eq {α : Type} (xs : List α) (i : Nat) :
    get_negative_index xs i = .ok (getNegIndex xs i) := by
  unfold get_negative_index getNegIndex
  rs_norm
  repeat' split
  all_goals first
    | (exfalso; omega)
    | rfl
    | (simp (disch := omega) only [ok_bind, indexChecked_eq, List.getElem?_eq_getElem]; done)

theorem cast_nonneg (x : Int) (h : 0 ≤ x) : castI32ToUsize x = x.toNat := by
  unfold castI32ToUsize; simp [h]

/-- the `Ast::Index` arm on an array, for every index except `i32::MIN` -/
theorem gen_index_eq {α : Type} (xs : List α) (idx : Int) (h1 : I32_MIN < idx) (h2 : idx ≤ I32_MAX) :
    index xs idx = .ok (indexList xs idx) := by
  unfold index indexList
  simp only [get_index_eq, get_negative_index_eq]
  rs_norm
  unfold I32_MIN I32_MAX at *
  repeat' split
  all_goals first
    | (exfalso; omega)
    | (simp (disch := omega) only [cast_nonneg]; done)

/-- `-idx` overflows exactly at `i32::MIN`; the lexer never produces it
(`C05_number_tokens_no_overflow`) -/
theorem gen_index_min_overflows {α : Type} (xs : List α) : index xs I32_MIN = .error .overflow := by
  unfold index
  rs_norm
  unfold I32_MIN I32_MAX
  repeat' split
  all_goals first | (exfalso; omega) | rfl

example : index [10, 20, 30] (-2147483647) = .ok none ∧ index [10, 20, 30] (-1) = .ok (some 30) :=
  ⟨gen_index_eq _ _ (by decide) (by decide), gen_index_eq _ _ (by decide) (by decide)⟩

/-! ### 4. `Signature::validate_arity` -/

/-- the `Err(JmespathError::from_ctx(ctx, ErrorReason::Runtime(e)))` wrapper: `ctx.offset` is attached -/
def arityToExcept (off : Nat) : ArityResult → Except EvalErr Unit
  | .ok => .ok ()
  | .notEnough e a => .error (.runtime (.notEnough e a) off)
  | .tooMany e a => .error (.runtime (.tooMany e a) off)

theorem gen_validate_arity_eq (s : Sig) (actual off : Nat) :
    arityToExcept off (validate_arity s.inputs s.variadic actual) = s.validateArity actual off := by
  unfold validate_arity Sig.validateArity
  simp only []
  repeat' split
  all_goals first | rfl | (exfalso; omega) | (simp_all [arityToExcept]; done)

example : arityToExcept 7 (validate_arity [ArgT.number, ArgT.string] (none : Option ArgT) 3)
    = .error (.runtime (.tooMany 2 3) 7) := rfl

/-! ### 5. truth, type and comparison tables -/

/-- what the translated functions observe of a value -/
def viewOf : Val → VariableView
  | .null => .Null
  | .bool b => .Bool b
  | .num _ => .Number
  | .str s => .String s.isEmpty
  | .arr xs => .Array xs.isEmpty
  | .obj kvs => .Object kvs.isEmpty
  | .expref _ => .Expref

def jtypeOf : JmespathType → JType
  | .Null => .null | .String => .string | .Number => .number | .Boolean => .boolean
  | .Array => .array | .Object => .object | .Expref => .expref

def cmpOf : Cmp → Comparator
  | .eq => .Equal | .ne => .NotEqual | .lt => .LessThan | .le => .LessThanEqual
  | .gt => .GreaterThan | .ge => .GreaterThanEqual

/-- `Variable::is_number` -/
def isNum : Val → Bool
  | .num _ => true
  | _ => false

/-- the meaning of the Rust operators on `Variable` (`impl PartialEq`, `impl Ord`) in the model -/
def relEval (a b : Val) : RelOp → Bool
  | .eq => Val.beq a b
  | .ne => !Val.beq a b
  | .lt => Val.cmp a b == .lt
  | .le => Val.cmp a b == .eq || Val.cmp a b == .lt
  | .gt => Val.cmp a b == .gt
  | .ge => Val.cmp a b == .eq || Val.cmp a b == .gt

theorem gen_truthy_eq (v : Val) : is_truthy (viewOf v) = v.truthy := by
  cases v <;> rfl

theorem gen_type_eq (v : Val) : jtypeOf (get_type (viewOf v)) = v.type := by
  cases v <;> rfl

/-- the gate (which comparators need two numbers) and the operator each comparator maps to -/
theorem gen_compare_gate_eq (c : Cmp) (a b : Val) :
    Val.compare c a b = (compare (cmpOf c) (isNum a) (isNum b)).map (relEval a b) := by
  cases c <;> cases a <;> cases b <;> rfl

example : is_truthy (viewOf (.str "")) = false ∧ jtypeOf (get_type (viewOf (.arr []))) = .array ∧
    compare (cmpOf .lt) (isNum (.str "a")) (isNum (.num (.pos 1))) = none ∧
    compare (cmpOf .le) (isNum (.num (.pos 2))) (isNum (.num (.pos 1))) = some .le := by decide

end JmesVerif

#print axioms JmesVerif.gen_adjust_eq
#print axioms JmesVerif.gen_slice_eq_fuel
#print axioms JmesVerif.gen_slice_eq
#print axioms JmesVerif.gen_index_eq
#print axioms JmesVerif.gen_index_min_overflows
#print axioms JmesVerif.gen_validate_arity_eq
#print axioms JmesVerif.gen_truthy_eq
#print axioms JmesVerif.gen_type_eq
#print axioms JmesVerif.gen_compare_gate_eq
