import JmesVerif.Lemmas.Lexer
import JmesVerif.Lemmas.ParserSound
/-!
Positions are truthful.

* Part 1 (lexer): every token position, and the position of a lexer error, is the byte length of a
  prefix of the expression (`IsBoundary`).
* Part 2 (parser): every `offset` the parser stores in the tree, and the offset of every parse
  error, is `0` (the initial `self.offset`) or the position of a token; a `Function` node's offset
  is the position of a `(` token, a `Slice` node's offset the position of a `]` token.
-/
namespace JmesVerif
open Parser

/-! ## Part 1 — lexer -/

/-- `p` is the byte length of a prefix of `cs`: a character boundary, ≤ the byte length of `cs` -/
def IsBoundary (cs : List Char) (p : Nat) : Prop :=
  ∃ pre suf, cs = pre ++ suf ∧ p = Lexer.utf8Len pre

namespace LexPos

theorem utf8Len_append (a b : List Char) :
    Lexer.utf8Len (a ++ b) = Lexer.utf8Len a + Lexer.utf8Len b := by
  induction a with
  | nil => simp [Lexer.utf8Len]
  | cons c a ih => simp [Lexer.utf8Len, ih, Nat.add_assoc]

theorem takeWhile_suffix' (p : Char → Bool) (cs : List Char) :
    ∃ mid, cs = mid ++ (Lexer.takeWhile p cs).2 := by
  induction cs with
  | nil => exact ⟨[], by simp [Lexer.takeWhile]⟩
  | cons c cs ih =>
    simp only [Lexer.takeWhile]
    split
    · obtain ⟨mid, hm⟩ := ih
      exact ⟨c :: mid, by simpa using hm⟩
    · exact ⟨[], by simp⟩

theorem takeWhile_suffix (p : Char → Bool) (cs a r : List Char)
    (h : Lexer.takeWhile p cs = (a, r)) : ∃ mid, cs = mid ++ r := by
  have := takeWhile_suffix' p cs
  rw [h] at this; exact this

theorem consumeInside_suffix (w : Char) (cs acc : List Char) (b r : List Char)
    (h : Lexer.consumeInside w cs acc = some (b, r)) : ∃ mid, cs = mid ++ r := by
  fun_induction Lexer.consumeInside w cs acc
  · simp at h
  · simp at h; obtain ⟨_, rfl⟩ := h; exact ⟨[_], rfl⟩
  · rename_i ih
    obtain ⟨mid, hm⟩ := ih h
    subst hm
    exact ⟨_ :: _ :: mid, rfl⟩
  · simp at h
  · rename_i ih
    obtain ⟨mid, hm⟩ := ih h
    subst hm
    exact ⟨_ :: mid, rfl⟩

/-- every helper of `lexOne` returns a suffix of what it was given -/
theorem lexOne_suffix (pos : Nat) (c : Char) (cs : List Char) (t : Option Tok) (r : List Char)
    (h : Lexer.lexOne pos c cs = .ok (t, r)) : ∃ mid, cs = mid ++ r := by
  have tw := takeWhile_suffix
  have ci := consumeInside_suffix
  unfold Lexer.lexOne at h
  repeat' (replace h := ok_ite h; obtain ⟨_, h⟩ | ⟨_, h⟩ := h)
  all_goals repeat' (first | (replace h := ok_ite h; obtain ⟨_, h⟩ | ⟨_, h⟩ := h) | split at h)
  all_goals first
    | (simp at h; done)
    | (simp at h; obtain ⟨_, rfl⟩ := h; exact ⟨[], rfl⟩)
    | (simp at h; obtain ⟨_, rfl⟩ := h; exact ⟨[_], rfl⟩)
    | (simp at h; obtain ⟨_, rfl⟩ := h; exact tw _ _ _ _ ‹_›)
    | (simp at h; obtain ⟨_, rfl⟩ := h; obtain ⟨m, hm⟩ := tw _ _ _ _ ‹_›; subst hm; exact ⟨_ :: m, rfl⟩)
    | (simp at h; obtain ⟨_, rfl⟩ := h; exact takeWhile_suffix' _ _)
    | (simp at h; obtain ⟨_, rfl⟩ := h; rename_i d cs'' _ _ _
       obtain ⟨m, hm⟩ := takeWhile_suffix' Lexer.isDigit cs''
       exact ⟨d :: m, by rw [List.cons_append, ← hm]⟩)
    | (simp at h; obtain ⟨_, rfl⟩ := h; exact ci _ _ _ _ _ ‹_›)

theorem err_ite {ε α : Type} {c : Prop} [Decidable c] {a b : Except ε α} {x : ε}
    (h : (if c then a else b) = .error x) : (c ∧ a = .error x) ∨ (¬c ∧ b = .error x) := by
  split at h <;> simp_all

/-- a lexer error carries the position of the character the token started at -/
theorem lexOne_error_pos (pos : Nat) (c : Char) (cs : List Char) (e : LexErr)
    (h : Lexer.lexOne pos c cs = .error e) : e.pos = pos := by
  unfold Lexer.lexOne at h
  repeat' (replace h := err_ite h; obtain ⟨_, h⟩ | ⟨_, h⟩ := h)
  all_goals repeat' (first | (replace h := err_ite h; obtain ⟨_, h⟩ | ⟨_, h⟩ := h) | split at h)
  all_goals first
    | (simp at h; done)
    | (simp at h; subst h; rfl)

theorem isBoundary_of_suffix (input pre suf : List Char) (h : input = pre ++ suf) :
    IsBoundary input (Lexer.utf8Len input - Lexer.utf8Len suf) :=
  ⟨pre, suf, h, by subst h; rw [utf8Len_append]; omega⟩

theorem lexLoop_positions (input : List Char) :
    ∀ (fuel : Nat) (cs : List Char) (acc : List (Nat × Tok)),
    (∃ pre, input = pre ++ cs) → (∀ pt ∈ acc, IsBoundary input pt.1) →
    (∀ ts, Lexer.loop (Lexer.utf8Len input) fuel cs acc = .ok ts → ∀ pt ∈ ts, IsBoundary input pt.1) ∧
    (∀ e, Lexer.loop (Lexer.utf8Len input) fuel cs acc = .error e → IsBoundary input e.pos) := by
  intro fuel
  induction fuel with
  | zero =>
    intro cs acc _ _
    refine ⟨by intro ts h; simp [Lexer.loop] at h, ?_⟩
    intro e h
    simp [Lexer.loop] at h
    subst h
    exact ⟨[], input, by simp, by simp [Lexer.utf8Len]⟩
  | succ n ih =>
    intro cs acc hsuf hacc
    obtain ⟨pre, hpre⟩ := hsuf
    cases cs with
    | nil =>
      constructor
      · intro ts h
        simp [Lexer.loop] at h
        subst h
        intro pt hpt
        simp at hpt
        rcases hpt with hpt | rfl
        · exact hacc _ hpt
        · exact ⟨input, [], by simp, rfl⟩
      · intro e h; simp [Lexer.loop] at h
    | cons c cs' =>
      have hb := isBoundary_of_suffix input pre (c :: cs') hpre
      simp only [Lexer.loop]
      split
      · rename_i e' hlex
        refine ⟨by intro ts h; simp at h, ?_⟩
        intro e h
        simp at h; subst h
        rw [lexOne_error_pos _ _ _ _ hlex]; exact hb
      · rename_i t r hlex
        obtain ⟨mid, hmid⟩ := lexOne_suffix _ _ _ _ _ hlex
        refine ih r _ ⟨pre ++ c :: mid, by simp [hpre, hmid]⟩ ?_
        intro pt hpt
        rcases List.mem_cons.mp hpt with rfl | hpt
        · exact hb
        · exact hacc _ hpt
      · rename_i r hlex
        obtain ⟨mid, hmid⟩ := lexOne_suffix _ _ _ _ _ hlex
        exact ih r _ ⟨pre ++ c :: mid, by simp [hpre, hmid]⟩ hacc

end LexPos

theorem tokenize_positions (cs : List Char) (ts : List PT) (h : tokenize cs = .ok ts) :
    ∀ pt ∈ ts, IsBoundary cs pt.1 :=
  (LexPos.lexLoop_positions cs _ cs [] ⟨[], rfl⟩ (by simp)).1 ts h

theorem tokenize_error_position (cs : List Char) (e : LexErr) (h : tokenize cs = .error e) :
    IsBoundary cs e.pos :=
  (LexPos.lexLoop_positions cs _ cs [] ⟨[], rfl⟩ (by simp)).2 e h

/-! ## Part 2 — parser -/

mutual
/-- all `offset` fields of a tree (not descending into literal values) -/
def Ast.offsets : Ast → List Nat
  | .comparison o _ l r => o :: (l.offsets ++ r.offsets)
  | .condition o p t => o :: (p.offsets ++ t.offsets)
  | .identity o => [o]
  | .expref o a => o :: a.offsets
  | .flatten o a => o :: a.offsets
  | .function o _ args => o :: Ast.offsetsL args
  | .field o _ => [o]
  | .index o _ => [o]
  | .literal o _ => [o]
  | .multiList o es => o :: Ast.offsetsL es
  | .multiHash o kvs => o :: Ast.offsetsK kvs
  | .not o a => o :: a.offsets
  | .projection o l r => o :: (l.offsets ++ r.offsets)
  | .objectValues o a => o :: a.offsets
  | .and o l r => o :: (l.offsets ++ r.offsets)
  | .or o l r => o :: (l.offsets ++ r.offsets)
  | .slice o _ _ _ => [o]
  | .subexpr o l r => o :: (l.offsets ++ r.offsets)
def Ast.offsetsL : List Ast → List Nat
  | [] => []
  | a :: as => a.offsets ++ Ast.offsetsL as
def Ast.offsetsK : List (String × Ast) → List Nat
  | [] => []
  | (_, a) :: r => a.offsets ++ Ast.offsetsK r
end

mutual
/-- offsets of the `Function` nodes of a tree -/
def Ast.callOffsets : Ast → List Nat
  | .comparison _ _ l r => l.callOffsets ++ r.callOffsets
  | .condition _ p t => p.callOffsets ++ t.callOffsets
  | .identity _ => []
  | .expref _ a => a.callOffsets
  | .flatten _ a => a.callOffsets
  | .function o _ args => o :: Ast.callOffsetsL args
  | .field _ _ => []
  | .index _ _ => []
  | .literal _ _ => []
  | .multiList _ es => Ast.callOffsetsL es
  | .multiHash _ kvs => Ast.callOffsetsK kvs
  | .not _ a => a.callOffsets
  | .projection _ l r => l.callOffsets ++ r.callOffsets
  | .objectValues _ a => a.callOffsets
  | .and _ l r => l.callOffsets ++ r.callOffsets
  | .or _ l r => l.callOffsets ++ r.callOffsets
  | .slice _ _ _ _ => []
  | .subexpr _ l r => l.callOffsets ++ r.callOffsets
def Ast.callOffsetsL : List Ast → List Nat
  | [] => []
  | a :: as => a.callOffsets ++ Ast.callOffsetsL as
def Ast.callOffsetsK : List (String × Ast) → List Nat
  | [] => []
  | (_, a) :: r => a.callOffsets ++ Ast.callOffsetsK r
end

mutual
/-- offsets of the `Slice` nodes of a tree -/
def Ast.sliceOffsets : Ast → List Nat
  | .comparison _ _ l r => l.sliceOffsets ++ r.sliceOffsets
  | .condition _ p t => p.sliceOffsets ++ t.sliceOffsets
  | .identity _ => []
  | .expref _ a => a.sliceOffsets
  | .flatten _ a => a.sliceOffsets
  | .function _ _ args => Ast.sliceOffsetsL args
  | .field _ _ => []
  | .index _ _ => []
  | .literal _ _ => []
  | .multiList _ es => Ast.sliceOffsetsL es
  | .multiHash _ kvs => Ast.sliceOffsetsK kvs
  | .not _ a => a.sliceOffsets
  | .projection _ l r => l.sliceOffsets ++ r.sliceOffsets
  | .objectValues _ a => a.sliceOffsets
  | .and _ l r => l.sliceOffsets ++ r.sliceOffsets
  | .or _ l r => l.sliceOffsets ++ r.sliceOffsets
  | .slice o _ _ _ => [o]
  | .subexpr _ l r => l.sliceOffsets ++ r.sliceOffsets
def Ast.sliceOffsetsL : List Ast → List Nat
  | [] => []
  | a :: as => a.sliceOffsets ++ Ast.sliceOffsetsL as
def Ast.sliceOffsetsK : List (String × Ast) → List Nat
  | [] => []
  | (_, a) :: r => a.sliceOffsets ++ Ast.sliceOffsetsK r
end

theorem mem_offsetsL (o : Nat) (as : List Ast) :
    o ∈ Ast.offsetsL as ↔ ∃ a ∈ as, o ∈ a.offsets := by
  induction as with
  | nil => simp [Ast.offsetsL]
  | cons a as ih => simp [Ast.offsetsL, ih]
theorem mem_callOffsetsL (o : Nat) (as : List Ast) :
    o ∈ Ast.callOffsetsL as ↔ ∃ a ∈ as, o ∈ a.callOffsets := by
  induction as with
  | nil => simp [Ast.callOffsetsL]
  | cons a as ih => simp [Ast.callOffsetsL, ih]
theorem mem_sliceOffsetsL (o : Nat) (as : List Ast) :
    o ∈ Ast.sliceOffsetsL as ↔ ∃ a ∈ as, o ∈ a.sliceOffsets := by
  induction as with
  | nil => simp [Ast.sliceOffsetsL]
  | cons a as ih => simp [Ast.sliceOffsetsL, ih]
theorem mem_offsetsK (o : Nat) (as : List (String × Ast)) :
    o ∈ Ast.offsetsK as ↔ ∃ a ∈ as, o ∈ a.2.offsets := by
  induction as with
  | nil => simp [Ast.offsetsK]
  | cons a as ih => obtain ⟨k, a⟩ := a; simp [Ast.offsetsK, ih]
theorem mem_callOffsetsK (o : Nat) (as : List (String × Ast)) :
    o ∈ Ast.callOffsetsK as ↔ ∃ a ∈ as, o ∈ a.2.callOffsets := by
  induction as with
  | nil => simp [Ast.callOffsetsK]
  | cons a as ih => obtain ⟨k, a⟩ := a; simp [Ast.callOffsetsK, ih]
theorem mem_sliceOffsetsK (o : Nat) (as : List (String × Ast)) :
    o ∈ Ast.sliceOffsetsK as ↔ ∃ a ∈ as, o ∈ a.2.sliceOffsets := by
  induction as with
  | nil => simp [Ast.sliceOffsetsK]
  | cons a as ih => obtain ⟨k, a⟩ := a; simp [Ast.sliceOffsetsK, ih]

namespace Pos
section
variable (P C S : Nat → Prop)

/-- every offset of the tree is allowed (`P`), every call offset satisfies `C`, every slice offset `S` -/
def Good (a : Ast) : Prop :=
  (∀ o ∈ a.offsets, P o) ∧ (∀ o ∈ a.callOffsets, C o) ∧ (∀ o ∈ a.sliceOffsets, S o)
def GoodL (as : List Ast) : Prop := ∀ a ∈ as, Good P C S a
def GoodK (as : List (String × Ast)) : Prop := ∀ a ∈ as, Good P C S a.2

theorem goodL_nil : GoodL P C S [] := by simp [GoodL]
theorem goodK_nil : GoodK P C S [] := by simp [GoodK]
theorem goodL_snoc (as : List Ast) (a : Ast) :
    GoodL P C S (as ++ [a]) ↔ GoodL P C S as ∧ Good P C S a := by
  simp [GoodL, or_imp, forall_and]
theorem goodK_snoc (as : List (String × Ast)) (k : String) (a : Ast) :
    GoodK P C S (as ++ [(k, a)]) ↔ GoodK P C S as ∧ Good P C S a := by
  simp [GoodK, or_imp, forall_and]

theorem good_identity (o) : Good P C S (.identity o) ↔ P o := by
  simp [Good, Ast.offsets, Ast.callOffsets, Ast.sliceOffsets]
theorem good_field (o s) : Good P C S (.field o s) ↔ P o := by
  simp [Good, Ast.offsets, Ast.callOffsets, Ast.sliceOffsets]
theorem good_index (o s) : Good P C S (.index o s) ↔ P o := by
  simp [Good, Ast.offsets, Ast.callOffsets, Ast.sliceOffsets]
theorem good_literal (o s) : Good P C S (.literal o s) ↔ P o := by
  simp [Good, Ast.offsets, Ast.callOffsets, Ast.sliceOffsets]
theorem good_slice (o a b c) : Good P C S (.slice o a b c) ↔ P o ∧ S o := by
  simp [Good, Ast.offsets, Ast.callOffsets, Ast.sliceOffsets]
theorem good_expref (o a) : Good P C S (.expref o a) ↔ P o ∧ Good P C S a := by
  simp [Good, Ast.offsets, Ast.callOffsets, Ast.sliceOffsets]; grind
theorem good_flatten (o a) : Good P C S (.flatten o a) ↔ P o ∧ Good P C S a := by
  simp [Good, Ast.offsets, Ast.callOffsets, Ast.sliceOffsets]; grind
theorem good_not (o a) : Good P C S (.not o a) ↔ P o ∧ Good P C S a := by
  simp [Good, Ast.offsets, Ast.callOffsets, Ast.sliceOffsets]; grind
theorem good_objectValues (o a) : Good P C S (.objectValues o a) ↔ P o ∧ Good P C S a := by
  simp [Good, Ast.offsets, Ast.callOffsets, Ast.sliceOffsets]; grind
theorem good_comparison (o c l r) :
    Good P C S (.comparison o c l r) ↔ P o ∧ Good P C S l ∧ Good P C S r := by
  simp [Good, Ast.offsets, Ast.callOffsets, Ast.sliceOffsets]; grind
theorem good_condition (o l r) :
    Good P C S (.condition o l r) ↔ P o ∧ Good P C S l ∧ Good P C S r := by
  simp [Good, Ast.offsets, Ast.callOffsets, Ast.sliceOffsets]; grind
theorem good_projection (o l r) :
    Good P C S (.projection o l r) ↔ P o ∧ Good P C S l ∧ Good P C S r := by
  simp [Good, Ast.offsets, Ast.callOffsets, Ast.sliceOffsets]; grind
theorem good_and (o l r) :
    Good P C S (.and o l r) ↔ P o ∧ Good P C S l ∧ Good P C S r := by
  simp [Good, Ast.offsets, Ast.callOffsets, Ast.sliceOffsets]; grind
theorem good_or (o l r) :
    Good P C S (.or o l r) ↔ P o ∧ Good P C S l ∧ Good P C S r := by
  simp [Good, Ast.offsets, Ast.callOffsets, Ast.sliceOffsets]; grind
theorem good_subexpr (o l r) :
    Good P C S (.subexpr o l r) ↔ P o ∧ Good P C S l ∧ Good P C S r := by
  simp [Good, Ast.offsets, Ast.callOffsets, Ast.sliceOffsets]; grind
theorem good_function (o n args) :
    Good P C S (.function o n args) ↔ P o ∧ C o ∧ GoodL P C S args := by
  simp [Good, GoodL, Ast.offsets, Ast.callOffsets, Ast.sliceOffsets, mem_offsetsL,
    mem_callOffsetsL, mem_sliceOffsetsL]; grind
theorem good_multiList (o args) :
    Good P C S (.multiList o args) ↔ P o ∧ GoodL P C S args := by
  simp [Good, GoodL, Ast.offsets, Ast.callOffsets, Ast.sliceOffsets, mem_offsetsL,
    mem_callOffsetsL, mem_sliceOffsetsL]; grind
theorem good_multiHash (o args) :
    Good P C S (.multiHash o args) ↔ P o ∧ GoodK P C S args := by
  simp [Good, GoodK, Ast.offsets, Ast.callOffsets, Ast.sliceOffsets, mem_offsetsK,
    mem_callOffsetsK, mem_sliceOffsetsK]; grind


/-- the allowed sets contain everything the remaining tokens can contribute -/
def Closed : List PT → Prop
  | [] => True
  | (p, t) :: r => P p ∧ (t = .lparen → C p) ∧ (t = .rbracket → S p) ∧ Closed r

def ErrOk (e : PErr) : Prop := ∀ p, e = .at p → P p

/-- what a parser function may answer: a payload satisfying `G` (which may also look at the new
`self.offset`), remaining tokens still covered by the allowed sets, an allowed new offset; or an
error at an allowed position -/
def ResOk {α : Type} (G : α → Nat → Prop) (r : PRes α) : Prop :=
  match r with
  | .ok (x, ts', off') => G x off' ∧ Closed P C S ts' ∧ P off'
  | .error e => ErrOk P e

theorem peekPos_ok (ts : List PT) (off : Nat) (hc : Closed P C S ts) (ho : P off) :
    P (peekPos ts off) := by
  cases ts with
  | nil => exact ho
  | cons pt r => obtain ⟨p, t⟩ := pt; exact hc.1

grind_pattern peekPos_ok => Closed P C S ts, peekPos ts off

/-- `idxLoop` ends on the `]`: the offset it returns is the position of an `rbracket` token -/
theorem idxLoop_ok : ∀ (fuel : Nat) ts off a b c k, Closed P C S ts → P off →
    ResOk P C S (fun _ o => S o) (idxLoop fuel ts off a b c k) := by
  intro fuel
  induction fuel with
  | zero => intro ts off a b c k _ _; simp [idxLoop, ResOk, ErrOk]
  | succ n ih =>
    intro ts off a b c k hc ho
    unfold idxLoop
    grind [ResOk, ErrOk, Closed]

grind_pattern idxLoop_ok => Closed P C S ts, idxLoop fuel ts off a b c k

/-! ### the invariants, one per parser function -/

def ExprInv (n : Nat) : Prop :=
  ∀ rbp ts off, Closed P C S ts → P off →
    ResOk P C S (fun x _ => Good P C S x.2) (Parser.expr n rbp ts off)
def LoopInv (n : Nat) : Prop :=
  ∀ rbp h acc left ts off, Closed P C S ts → P off → Good P C S left →
    ResOk P C S (fun x _ => Good P C S x.2) (Parser.loop n rbp h acc left ts off)
def NudInv (n : Nat) : Prop :=
  ∀ ts off, Closed P C S ts → P off →
    ResOk P C S (fun x _ => Good P C S x.2) (Parser.nud n ts off)
def LedInv (n : Nat) : Prop :=
  ∀ left ts off, Closed P C S ts → P off → Good P C S left →
    ResOk P C S (fun x _ => Good P C S x.2) (Parser.led n left ts off)
def IndexInv (n : Nat) : Prop :=
  ∀ ts off, Closed P C S ts → P off →
    ResOk P C S (fun x _ => Good P C S x.2) (Parser.parseIndex n ts off)
def ProjRhsInv (n : Nat) : Prop :=
  ∀ k ts off, Closed P C S ts → P off →
    ResOk P C S (fun x _ => Good P C S x.2) (Parser.projRhs n k ts off)
def DotInv (n : Nat) : Prop :=
  ∀ k ts off, Closed P C S ts → P off →
    ResOk P C S (fun x _ => Good P C S x.2) (Parser.parseDot n k ts off)
def MultiListInv (n : Nat) : Prop :=
  ∀ ts off, Closed P C S ts → P off →
    ResOk P C S (fun x _ => Good P C S x.2) (Parser.multiList n ts off)
def ListInv (n : Nat) : Prop :=
  ∀ paren ts off es as, Closed P C S ts → P off → GoodL P C S as →
    ResOk P C S (fun x _ => GoodL P C S x.2) (Parser.parseList n paren ts off es as)
def KvpsInv (n : Nat) : Prop :=
  ∀ ts off ks aks, Closed P C S ts → P off → GoodK P C S aks →
    ResOk P C S (fun x _ => GoodK P C S x.2) (Parser.kvps n ts off ks aks)
def FilterInv (n : Nat) : Prop :=
  ∀ lhs ts off, Closed P C S ts → P off → Good P C S lhs →
    ResOk P C S (fun x _ => Good P C S x.2.2) (Parser.parseFilter n lhs ts off)
def FlattenInv (n : Nat) : Prop :=
  ∀ lhs ts off, Closed P C S ts → P off → Good P C S lhs →
    ResOk P C S (fun x _ => Good P C S x.2) (Parser.parseFlatten n lhs ts off)
def WvInv (n : Nat) : Prop :=
  ∀ lhs ts off, Closed P C S ts → P off → Good P C S lhs →
    ResOk P C S (fun x _ => Good P C S x.2) (Parser.wildcardValues n lhs ts off)
def WiInv (n : Nat) : Prop :=
  ∀ lhs ts off, Closed P C S ts → P off → Good P C S lhs →
    ResOk P C S (fun x _ => Good P C S x.2) (Parser.wildcardIndex n lhs ts off)

structure PosIH (n : Nat) : Prop where
  expr : ExprInv P C S n
  loop : LoopInv P C S n
  nud : NudInv P C S n
  led : LedInv P C S n
  index : IndexInv P C S n
  projRhs : ProjRhsInv P C S n
  dot : DotInv P C S n
  multiList : MultiListInv P C S n
  list : ListInv P C S n
  kvps : KvpsInv P C S n
  filter : FilterInv P C S n
  flatten : FlattenInv P C S n
  wv : WvInv P C S n
  wi : WiInv P C S n

theorem posIH_zero : PosIH P C S 0 := by
  constructor <;> intro <;> intros <;>
    simp [ResOk, ErrOk, Parser.expr, Parser.loop, Parser.nud, Parser.led, Parser.parseIndex,
      Parser.projRhs, Parser.parseDot, Parser.multiList, Parser.parseList, Parser.kvps,
      Parser.parseFilter, Parser.parseFlatten, Parser.wildcardValues, Parser.wildcardIndex]

end

variable {P C S : Nat → Prop} {n : Nat}

/-! the induction hypotheses as `grind` rules triggered by the call they speak about -/
theorem u_expr (ih : PosIH P C S n) (rbp ts off) (hc : Closed P C S ts) (ho : P off) :
    ResOk P C S (fun x _ => Good P C S x.2) (Parser.expr n rbp ts off) := ih.expr rbp ts off hc ho
grind_pattern u_expr => PosIH P C S n, Parser.expr n rbp ts off
theorem u_loop (ih : PosIH P C S n) (rbp h acc left ts off) (hc : Closed P C S ts) (ho : P off) (hl : Good P C S left) :
    ResOk P C S (fun x _ => Good P C S x.2) (Parser.loop n rbp h acc left ts off) := ih.loop rbp h acc left ts off hc ho hl
grind_pattern u_loop => PosIH P C S n, Parser.loop n rbp h acc left ts off
theorem u_nud (ih : PosIH P C S n) (ts off) (hc : Closed P C S ts) (ho : P off) :
    ResOk P C S (fun x _ => Good P C S x.2) (Parser.nud n ts off) := ih.nud ts off hc ho
grind_pattern u_nud => PosIH P C S n, Parser.nud n ts off
theorem u_led (ih : PosIH P C S n) (left ts off) (hc : Closed P C S ts) (ho : P off) (hl : Good P C S left) :
    ResOk P C S (fun x _ => Good P C S x.2) (Parser.led n left ts off) := ih.led left ts off hc ho hl
grind_pattern u_led => PosIH P C S n, Parser.led n left ts off
theorem u_index (ih : PosIH P C S n) (ts off) (hc : Closed P C S ts) (ho : P off) :
    ResOk P C S (fun x _ => Good P C S x.2) (Parser.parseIndex n ts off) := ih.index ts off hc ho
grind_pattern u_index => PosIH P C S n, Parser.parseIndex n ts off
theorem u_projRhs (ih : PosIH P C S n) (k ts off) (hc : Closed P C S ts) (ho : P off) :
    ResOk P C S (fun x _ => Good P C S x.2) (Parser.projRhs n k ts off) := ih.projRhs k ts off hc ho
grind_pattern u_projRhs => PosIH P C S n, Parser.projRhs n k ts off
theorem u_dot (ih : PosIH P C S n) (k ts off) (hc : Closed P C S ts) (ho : P off) :
    ResOk P C S (fun x _ => Good P C S x.2) (Parser.parseDot n k ts off) := ih.dot k ts off hc ho
grind_pattern u_dot => PosIH P C S n, Parser.parseDot n k ts off
theorem u_multiList (ih : PosIH P C S n) (ts off) (hc : Closed P C S ts) (ho : P off) :
    ResOk P C S (fun x _ => Good P C S x.2) (Parser.multiList n ts off) := ih.multiList ts off hc ho
grind_pattern u_multiList => PosIH P C S n, Parser.multiList n ts off
theorem u_list (ih : PosIH P C S n) (paren ts off es as) (hc : Closed P C S ts) (ho : P off) (hl : GoodL P C S as) :
    ResOk P C S (fun x _ => GoodL P C S x.2) (Parser.parseList n paren ts off es as) := ih.list paren ts off es as hc ho hl
grind_pattern u_list => PosIH P C S n, Parser.parseList n paren ts off es as
theorem u_kvps (ih : PosIH P C S n) (ts off ks aks) (hc : Closed P C S ts) (ho : P off) (hl : GoodK P C S aks) :
    ResOk P C S (fun x _ => GoodK P C S x.2) (Parser.kvps n ts off ks aks) := ih.kvps ts off ks aks hc ho hl
grind_pattern u_kvps => PosIH P C S n, Parser.kvps n ts off ks aks
theorem u_filter (ih : PosIH P C S n) (lhs ts off) (hc : Closed P C S ts) (ho : P off) (hl : Good P C S lhs) :
    ResOk P C S (fun x _ => Good P C S x.2.2) (Parser.parseFilter n lhs ts off) := ih.filter lhs ts off hc ho hl
grind_pattern u_filter => PosIH P C S n, Parser.parseFilter n lhs ts off
theorem u_flatten (ih : PosIH P C S n) (lhs ts off) (hc : Closed P C S ts) (ho : P off) (hl : Good P C S lhs) :
    ResOk P C S (fun x _ => Good P C S x.2) (Parser.parseFlatten n lhs ts off) := ih.flatten lhs ts off hc ho hl
grind_pattern u_flatten => PosIH P C S n, Parser.parseFlatten n lhs ts off
theorem u_wv (ih : PosIH P C S n) (lhs ts off) (hc : Closed P C S ts) (ho : P off) (hl : Good P C S lhs) :
    ResOk P C S (fun x _ => Good P C S x.2) (Parser.wildcardValues n lhs ts off) := ih.wv lhs ts off hc ho hl
grind_pattern u_wv => PosIH P C S n, Parser.wildcardValues n lhs ts off
theorem u_wi (ih : PosIH P C S n) (lhs ts off) (hc : Closed P C S ts) (ho : P off) (hl : Good P C S lhs) :
    ResOk P C S (fun x _ => Good P C S x.2) (Parser.wildcardIndex n lhs ts off) := ih.wi lhs ts off hc ho hl
grind_pattern u_wi => PosIH P C S n, Parser.wildcardIndex n lhs ts off

/-! ### one step per function -/

theorem expr_pos (ih : PosIH P C S n) : ExprInv P C S (n + 1) := by
  intro rbp ts off hc ho
  unfold Parser.expr
  grind (splits := 40) (gen := 30) (ematch := 30) [ResOk, ErrOk, Closed, good_identity, good_field, good_index, good_literal, good_slice, good_expref, good_flatten, good_not, good_objectValues, good_comparison, good_condition, good_projection, good_and, good_or, good_subexpr, good_function, good_multiList, good_multiHash, goodL_nil, goodK_nil, goodL_snoc, goodK_snoc]

theorem loop_pos (ih : PosIH P C S n) : LoopInv P C S (n + 1) := by
  intro rbp h acc left ts off hc ho hl
  unfold Parser.loop
  grind (splits := 40) (gen := 30) (ematch := 30) [ResOk, ErrOk, Closed, good_identity, good_field, good_index, good_literal, good_slice, good_expref, good_flatten, good_not, good_objectValues, good_comparison, good_condition, good_projection, good_and, good_or, good_subexpr, good_function, good_multiList, good_multiHash, goodL_nil, goodK_nil, goodL_snoc, goodK_snoc]

theorem nud_pos (ih : PosIH P C S n) : NudInv P C S (n + 1) := by
  intro ts off hc ho
  unfold Parser.nud
  grind (splits := 40) (gen := 30) (ematch := 30) [ResOk, ErrOk, Closed, good_identity, good_field, good_index, good_literal, good_slice, good_expref, good_flatten, good_not, good_objectValues, good_comparison, good_condition, good_projection, good_and, good_or, good_subexpr, good_function, good_multiList, good_multiHash, goodL_nil, goodK_nil, goodL_snoc, goodK_snoc]

theorem led_pos (ih : PosIH P C S n) : LedInv P C S (n + 1) := by
  intro left ts off hc ho hl
  unfold Parser.led
  grind (splits := 40) (gen := 30) (ematch := 30) [ResOk, ErrOk, Closed, good_identity, good_field, good_index, good_literal, good_slice, good_expref, good_flatten, good_not, good_objectValues, good_comparison, good_condition, good_projection, good_and, good_or, good_subexpr, good_function, good_multiList, good_multiHash, goodL_nil, goodK_nil, goodL_snoc, goodK_snoc]

theorem index_pos (ih : PosIH P C S n) : IndexInv P C S (n + 1) := by
  intro ts off hc ho
  unfold Parser.parseIndex
  grind (splits := 40) (gen := 30) (ematch := 30) [ResOk, ErrOk, Closed, good_identity, good_field, good_index, good_literal, good_slice, good_expref, good_flatten, good_not, good_objectValues, good_comparison, good_condition, good_projection, good_and, good_or, good_subexpr, good_function, good_multiList, good_multiHash, goodL_nil, goodK_nil, goodL_snoc, goodK_snoc]

theorem projRhs_pos (ih : PosIH P C S n) : ProjRhsInv P C S (n + 1) := by
  intro k ts off hc ho
  unfold Parser.projRhs
  grind (splits := 40) (gen := 30) (ematch := 30) [ResOk, ErrOk, Closed, good_identity, good_field, good_index, good_literal, good_slice, good_expref, good_flatten, good_not, good_objectValues, good_comparison, good_condition, good_projection, good_and, good_or, good_subexpr, good_function, good_multiList, good_multiHash, goodL_nil, goodK_nil, goodL_snoc, goodK_snoc]

theorem dot_pos (ih : PosIH P C S n) : DotInv P C S (n + 1) := by
  intro k ts off hc ho
  unfold Parser.parseDot
  grind (splits := 40) (gen := 30) (ematch := 30) [ResOk, ErrOk, Closed, good_identity, good_field, good_index, good_literal, good_slice, good_expref, good_flatten, good_not, good_objectValues, good_comparison, good_condition, good_projection, good_and, good_or, good_subexpr, good_function, good_multiList, good_multiHash, goodL_nil, goodK_nil, goodL_snoc, goodK_snoc]

theorem multiList_pos (ih : PosIH P C S n) : MultiListInv P C S (n + 1) := by
  intro ts off hc ho
  unfold Parser.multiList
  grind (splits := 40) (gen := 30) (ematch := 30) [ResOk, ErrOk, Closed, good_identity, good_field, good_index, good_literal, good_slice, good_expref, good_flatten, good_not, good_objectValues, good_comparison, good_condition, good_projection, good_and, good_or, good_subexpr, good_function, good_multiList, good_multiHash, goodL_nil, goodK_nil, goodL_snoc, goodK_snoc]

theorem list_pos (ih : PosIH P C S n) : ListInv P C S (n + 1) := by
  intro paren ts off es as hc ho hl
  unfold Parser.parseList
  grind (splits := 40) (gen := 30) (ematch := 30) [ResOk, ErrOk, Closed, good_identity, good_field, good_index, good_literal, good_slice, good_expref, good_flatten, good_not, good_objectValues, good_comparison, good_condition, good_projection, good_and, good_or, good_subexpr, good_function, good_multiList, good_multiHash, goodL_nil, goodK_nil, goodL_snoc, goodK_snoc]

theorem kvps_pos (ih : PosIH P C S n) : KvpsInv P C S (n + 1) := by
  intro ts off ks aks hc ho hl
  unfold Parser.kvps
  grind (splits := 40) (gen := 30) (ematch := 30) [ResOk, ErrOk, Closed, good_identity, good_field, good_index, good_literal, good_slice, good_expref, good_flatten, good_not, good_objectValues, good_comparison, good_condition, good_projection, good_and, good_or, good_subexpr, good_function, good_multiList, good_multiHash, goodL_nil, goodK_nil, goodL_snoc, goodK_snoc]

theorem filter_pos (ih : PosIH P C S n) : FilterInv P C S (n + 1) := by
  intro lhs ts off hc ho hl
  unfold Parser.parseFilter
  grind (splits := 40) (gen := 30) (ematch := 30) [ResOk, ErrOk, Closed, good_identity, good_field, good_index, good_literal, good_slice, good_expref, good_flatten, good_not, good_objectValues, good_comparison, good_condition, good_projection, good_and, good_or, good_subexpr, good_function, good_multiList, good_multiHash, goodL_nil, goodK_nil, goodL_snoc, goodK_snoc]

theorem flatten_pos (ih : PosIH P C S n) : FlattenInv P C S (n + 1) := by
  intro lhs ts off hc ho hl
  unfold Parser.parseFlatten
  grind (splits := 40) (gen := 30) (ematch := 30) [ResOk, ErrOk, Closed, good_identity, good_field, good_index, good_literal, good_slice, good_expref, good_flatten, good_not, good_objectValues, good_comparison, good_condition, good_projection, good_and, good_or, good_subexpr, good_function, good_multiList, good_multiHash, goodL_nil, goodK_nil, goodL_snoc, goodK_snoc]

theorem wv_pos (ih : PosIH P C S n) : WvInv P C S (n + 1) := by
  intro lhs ts off hc ho hl
  unfold Parser.wildcardValues
  grind (splits := 40) (gen := 30) (ematch := 30) [ResOk, ErrOk, Closed, good_identity, good_field, good_index, good_literal, good_slice, good_expref, good_flatten, good_not, good_objectValues, good_comparison, good_condition, good_projection, good_and, good_or, good_subexpr, good_function, good_multiList, good_multiHash, goodL_nil, goodK_nil, goodL_snoc, goodK_snoc]

theorem wi_pos (ih : PosIH P C S n) : WiInv P C S (n + 1) := by
  intro lhs ts off hc ho hl
  unfold Parser.wildcardIndex
  grind (splits := 40) (gen := 30) (ematch := 30) [ResOk, ErrOk, Closed, good_identity, good_field, good_index, good_literal, good_slice, good_expref, good_flatten, good_not, good_objectValues, good_comparison, good_condition, good_projection, good_and, good_or, good_subexpr, good_function, good_multiList, good_multiHash, goodL_nil, goodK_nil, goodL_snoc, goodK_snoc]

theorem posIH_all (P C S : Nat → Prop) : ∀ n, PosIH P C S n := by
  intro n
  induction n with
  | zero => exact posIH_zero P C S
  | succ n ih => exact ⟨expr_pos ih, loop_pos ih, nud_pos ih, led_pos ih, index_pos ih, projRhs_pos ih, dot_pos ih, multiList_pos ih, list_pos ih, kvps_pos ih, filter_pos ih, flatten_pos ih, wv_pos ih, wi_pos ih⟩


/-! ### every parser function returns a suffix of its token queue -/

theorem sfx_cons {l big : List PT} (a : PT) (h : a :: l <:+ big) : l <:+ big :=
  (List.suffix_cons a l).trans h
grind_pattern sfx_cons => a :: l <:+ big

theorem idxLoop_suffix : ∀ (fuel : Nat) ts off a b c k r ts' off',
    idxLoop fuel ts off a b c k = .ok (r, ts', off') → ∀ big, ts <:+ big → ts' <:+ big := by
  intro fuel
  induction fuel with
  | zero => intro ts off a b c k r ts' off' h; simp [idxLoop] at h
  | succ n ih =>
    intro ts off a b c k r ts' off' h big hb
    unfold idxLoop at h
    grind

structure Sfx (n : Nat) : Prop where
  expr : ∀ rbp ts off r ts' off', Parser.expr n rbp ts off = .ok (r, ts', off') → ∀ big, ts <:+ big → ts' <:+ big
  loop : ∀ rbp h acc left ts off r ts' off', Parser.loop n rbp h acc left ts off = .ok (r, ts', off') → ∀ big, ts <:+ big → ts' <:+ big
  nud : ∀ ts off r ts' off', Parser.nud n ts off = .ok (r, ts', off') → ∀ big, ts <:+ big → ts' <:+ big
  led : ∀ left ts off r ts' off', Parser.led n left ts off = .ok (r, ts', off') → ∀ big, ts <:+ big → ts' <:+ big
  index : ∀ ts off r ts' off', Parser.parseIndex n ts off = .ok (r, ts', off') → ∀ big, ts <:+ big → ts' <:+ big
  projRhs : ∀ k ts off r ts' off', Parser.projRhs n k ts off = .ok (r, ts', off') → ∀ big, ts <:+ big → ts' <:+ big
  dot : ∀ k ts off r ts' off', Parser.parseDot n k ts off = .ok (r, ts', off') → ∀ big, ts <:+ big → ts' <:+ big
  multiList : ∀ ts off r ts' off', Parser.multiList n ts off = .ok (r, ts', off') → ∀ big, ts <:+ big → ts' <:+ big
  list : ∀ paren ts off es as r ts' off', Parser.parseList n paren ts off es as = .ok (r, ts', off') → ∀ big, ts <:+ big → ts' <:+ big
  kvps : ∀ ts off ks aks r ts' off', Parser.kvps n ts off ks aks = .ok (r, ts', off') → ∀ big, ts <:+ big → ts' <:+ big
  filter : ∀ lhs ts off r ts' off', Parser.parseFilter n lhs ts off = .ok (r, ts', off') → ∀ big, ts <:+ big → ts' <:+ big
  flatten : ∀ lhs ts off r ts' off', Parser.parseFlatten n lhs ts off = .ok (r, ts', off') → ∀ big, ts <:+ big → ts' <:+ big
  wv : ∀ lhs ts off r ts' off', Parser.wildcardValues n lhs ts off = .ok (r, ts', off') → ∀ big, ts <:+ big → ts' <:+ big
  wi : ∀ lhs ts off r ts' off', Parser.wildcardIndex n lhs ts off = .ok (r, ts', off') → ∀ big, ts <:+ big → ts' <:+ big

theorem sfx_zero : Sfx 0 := by
  constructor <;> intros <;> rename_i h _ _ <;>
    simp [Parser.expr, Parser.loop, Parser.nud, Parser.led, Parser.parseIndex,
      Parser.projRhs, Parser.parseDot, Parser.multiList, Parser.parseList, Parser.kvps,
      Parser.parseFilter, Parser.parseFlatten, Parser.wildcardValues, Parser.wildcardIndex] at h

theorem sfx_expr {n} (ih : Sfx n) : ∀ rbp ts off r ts' off',
    Parser.expr (n+1) rbp ts off = .ok (r, ts', off') → ∀ big, ts <:+ big → ts' <:+ big := by
  intro rbp ts off r ts' off' h big hb
  obtain ⟨h1, h2, h3, h4, h5, h6, h7, h8, h9, h10, h11, h12, h13, h14⟩ := ih
  have := idxLoop_suffix
  unfold Parser.expr at h
  grind (splits := 40) (gen := 30) (ematch := 30)

theorem sfx_loop {n} (ih : Sfx n) : ∀ rbp h acc left ts off r ts' off',
    Parser.loop (n+1) rbp h acc left ts off = .ok (r, ts', off') → ∀ big, ts <:+ big → ts' <:+ big := by
  intro rbp h acc left ts off r ts' off' h big hb
  obtain ⟨h1, h2, h3, h4, h5, h6, h7, h8, h9, h10, h11, h12, h13, h14⟩ := ih
  have := idxLoop_suffix
  unfold Parser.loop at h
  split at h
  · split at h
    · have hb' := sfx_cons _ hb
      split at h
      · split at h
        · simp at h
        · rename_i hp
          have := h9 _ _ _ _ _ _ _ _ hp _ hb'
          split at h
          · exact h2 _ _ _ _ _ _ _ _ _ h _ this
          · exact h2 _ _ _ _ _ _ _ _ _ h _ this
      · simp at h
    · split at h
      · simp at h
      · rename_i hp
        have := h4 _ _ _ _ _ _ hp _ hb
        exact h2 _ _ _ _ _ _ _ _ _ h _ this
  · grind

theorem sfx_nud {n} (ih : Sfx n) : ∀ ts off r ts' off',
    Parser.nud (n+1) ts off = .ok (r, ts', off') → ∀ big, ts <:+ big → ts' <:+ big := by
  intro ts off r ts' off' h big hb
  obtain ⟨h1, h2, h3, h4, h5, h6, h7, h8, h9, h10, h11, h12, h13, h14⟩ := ih
  have := idxLoop_suffix
  unfold Parser.nud at h
  grind (splits := 40) (gen := 30) (ematch := 30)

theorem sfx_led {n} (ih : Sfx n) : ∀ left ts off r ts' off',
    Parser.led (n+1) left ts off = .ok (r, ts', off') → ∀ big, ts <:+ big → ts' <:+ big := by
  intro left ts off r ts' off' h big hb
  obtain ⟨h1, h2, h3, h4, h5, h6, h7, h8, h9, h10, h11, h12, h13, h14⟩ := ih
  have := idxLoop_suffix
  unfold Parser.led at h
  grind (splits := 40) (gen := 30) (ematch := 30)

theorem sfx_index {n} (ih : Sfx n) : ∀ ts off r ts' off',
    Parser.parseIndex (n+1) ts off = .ok (r, ts', off') → ∀ big, ts <:+ big → ts' <:+ big := by
  intro ts off r ts' off' h big hb
  obtain ⟨h1, h2, h3, h4, h5, h6, h7, h8, h9, h10, h11, h12, h13, h14⟩ := ih
  have := idxLoop_suffix
  unfold Parser.parseIndex at h
  grind (splits := 40) (gen := 30) (ematch := 30)

theorem sfx_projRhs {n} (ih : Sfx n) : ∀ k ts off r ts' off',
    Parser.projRhs (n+1) k ts off = .ok (r, ts', off') → ∀ big, ts <:+ big → ts' <:+ big := by
  intro k ts off r ts' off' h big hb
  obtain ⟨h1, h2, h3, h4, h5, h6, h7, h8, h9, h10, h11, h12, h13, h14⟩ := ih
  have := idxLoop_suffix
  unfold Parser.projRhs at h
  grind (splits := 40) (gen := 30) (ematch := 30)

theorem sfx_dot {n} (ih : Sfx n) : ∀ k ts off r ts' off',
    Parser.parseDot (n+1) k ts off = .ok (r, ts', off') → ∀ big, ts <:+ big → ts' <:+ big := by
  intro k ts off r ts' off' h big hb
  obtain ⟨h1, h2, h3, h4, h5, h6, h7, h8, h9, h10, h11, h12, h13, h14⟩ := ih
  have := idxLoop_suffix
  unfold Parser.parseDot at h
  grind (splits := 40) (gen := 30) (ematch := 30)

theorem sfx_multiList {n} (ih : Sfx n) : ∀ ts off r ts' off',
    Parser.multiList (n+1) ts off = .ok (r, ts', off') → ∀ big, ts <:+ big → ts' <:+ big := by
  intro ts off r ts' off' h big hb
  obtain ⟨h1, h2, h3, h4, h5, h6, h7, h8, h9, h10, h11, h12, h13, h14⟩ := ih
  have := idxLoop_suffix
  unfold Parser.multiList at h
  grind (splits := 40) (gen := 30) (ematch := 30)

theorem sfx_list {n} (ih : Sfx n) : ∀ paren ts off es as r ts' off',
    Parser.parseList (n+1) paren ts off es as = .ok (r, ts', off') → ∀ big, ts <:+ big → ts' <:+ big := by
  intro paren ts off es as r ts' off' h big hb
  obtain ⟨h1, h2, h3, h4, h5, h6, h7, h8, h9, h10, h11, h12, h13, h14⟩ := ih
  have := idxLoop_suffix
  unfold Parser.parseList at h
  grind (splits := 40) (gen := 30) (ematch := 30)

theorem sfx_kvps {n} (ih : Sfx n) : ∀ ts off ks aks r ts' off',
    Parser.kvps (n+1) ts off ks aks = .ok (r, ts', off') → ∀ big, ts <:+ big → ts' <:+ big := by
  intro ts off ks aks r ts' off' h big hb
  obtain ⟨h1, h2, h3, h4, h5, h6, h7, h8, h9, h10, h11, h12, h13, h14⟩ := ih
  have := idxLoop_suffix
  unfold Parser.kvps at h
  simp only at h
  split at h
  · grind
  · rename_i hk
    split at hk
    · grind (splits := 40) (gen := 30) (ematch := 30)
    · grind (splits := 40) (gen := 30) (ematch := 30)
    · grind

theorem sfx_filter {n} (ih : Sfx n) : ∀ lhs ts off r ts' off',
    Parser.parseFilter (n+1) lhs ts off = .ok (r, ts', off') → ∀ big, ts <:+ big → ts' <:+ big := by
  intro lhs ts off r ts' off' h big hb
  obtain ⟨h1, h2, h3, h4, h5, h6, h7, h8, h9, h10, h11, h12, h13, h14⟩ := ih
  have := idxLoop_suffix
  unfold Parser.parseFilter at h
  grind (splits := 40) (gen := 30) (ematch := 30)

theorem sfx_flatten {n} (ih : Sfx n) : ∀ lhs ts off r ts' off',
    Parser.parseFlatten (n+1) lhs ts off = .ok (r, ts', off') → ∀ big, ts <:+ big → ts' <:+ big := by
  intro lhs ts off r ts' off' h big hb
  obtain ⟨h1, h2, h3, h4, h5, h6, h7, h8, h9, h10, h11, h12, h13, h14⟩ := ih
  have := idxLoop_suffix
  unfold Parser.parseFlatten at h
  grind (splits := 40) (gen := 30) (ematch := 30)

theorem sfx_wv {n} (ih : Sfx n) : ∀ lhs ts off r ts' off',
    Parser.wildcardValues (n+1) lhs ts off = .ok (r, ts', off') → ∀ big, ts <:+ big → ts' <:+ big := by
  intro lhs ts off r ts' off' h big hb
  obtain ⟨h1, h2, h3, h4, h5, h6, h7, h8, h9, h10, h11, h12, h13, h14⟩ := ih
  have := idxLoop_suffix
  unfold Parser.wildcardValues at h
  grind (splits := 40) (gen := 30) (ematch := 30)

theorem sfx_wi {n} (ih : Sfx n) : ∀ lhs ts off r ts' off',
    Parser.wildcardIndex (n+1) lhs ts off = .ok (r, ts', off') → ∀ big, ts <:+ big → ts' <:+ big := by
  intro lhs ts off r ts' off' h big hb
  obtain ⟨h1, h2, h3, h4, h5, h6, h7, h8, h9, h10, h11, h12, h13, h14⟩ := ih
  have := idxLoop_suffix
  unfold Parser.wildcardIndex at h
  grind (splits := 40) (gen := 30) (ematch := 30)

theorem sfx_all : ∀ n, Sfx n := by
  intro n
  induction n with
  | zero => exact sfx_zero
  | succ n ih => exact ⟨sfx_expr ih, sfx_loop ih, sfx_nud ih, sfx_led ih, sfx_index ih, sfx_projRhs ih, sfx_dot ih, sfx_multiList ih, sfx_list ih, sfx_kvps ih, sfx_filter ih, sfx_flatten ih, sfx_wv ih, sfx_wi ih⟩

/-- `expr` returns a suffix of its token queue -/
theorem expr_suffix (fuel rbp : Nat) (ts : List PT) (off : Nat) (r : Expr × Ast)
    (ts' : List PT) (off' : Nat) (h : Parser.expr fuel rbp ts off = .ok (r, ts', off')) :
    ∃ pre, ts = pre ++ ts' := by
  obtain ⟨pre, hp⟩ := (sfx_all fuel).expr _ _ _ _ _ _ h ts (List.suffix_refl ts)
  exact ⟨pre, hp.symm⟩

/-! ### the statements on whole parses -/

theorem closed_of_forall (P C S : Nat → Prop) (l : List PT) (hP : ∀ pt ∈ l, P pt.1)
    (hC : ∀ p, (p, Tok.lparen) ∈ l → C p) (hS : ∀ p, (p, Tok.rbracket) ∈ l → S p) :
    Closed P C S l := by
  induction l with
  | nil => trivial
  | cons pt r ih =>
    obtain ⟨p, t⟩ := pt
    refine ⟨hP (p, t) List.mem_cons_self, ?_, ?_, ih ?_ ?_ ?_⟩
    · rintro rfl; exact hC _ List.mem_cons_self
    · rintro rfl; exact hS _ List.mem_cons_self
    · intro pt h; exact hP _ (List.mem_cons_of_mem _ h)
    · intro p h; exact hC _ (List.mem_cons_of_mem _ h)
    · intro p h; exact hS _ (List.mem_cons_of_mem _ h)

theorem closed_mem (P C S : Nat → Prop) (l : List PT) (h : Closed P C S l) :
    ∀ pt ∈ l, P pt.1 := by
  induction l with
  | nil => simp
  | cons pt r ih =>
    obtain ⟨p, t⟩ := pt
    intro pt' h'
    rcases List.mem_cons.mp h' with rfl | h'
    · exact h.1
    · exact ih h.2.2.2 _ h'

/-- the allowed sets relative to the input of a call: offsets are the incoming `self.offset` or
the position of one of the tokens, call offsets the position of a `(`, slice offsets of a `]` -/
theorem closed_self (ts : List PT) (off : Nat) :
    Closed (fun o => o = off ∨ o ∈ ts.map Prod.fst) (fun o => (o, Tok.lparen) ∈ ts)
      (fun o => (o, Tok.rbracket) ∈ ts) ts :=
  closed_of_forall _ _ _ ts (fun _ h => Or.inr (List.mem_map_of_mem h)) (fun _ h => h) (fun _ h => h)

/-- `expr`, relative to its own input: every offset in the tree it returns is the incoming offset
or the position of one of its tokens; so are the new `self.offset` and the positions of the
remaining tokens; call offsets are positions of `(` tokens, slice offsets of `]` tokens -/
theorem expr_offsets (fuel rbp : Nat) (ts : List PT) (off : Nat) (e : Expr) (a : Ast)
    (ts' : List PT) (off' : Nat) (h : Parser.expr fuel rbp ts off = .ok ((e, a), ts', off')) :
    (∀ o ∈ a.offsets, o = off ∨ o ∈ ts.map Prod.fst) ∧
    (∀ o ∈ a.callOffsets, (o, Tok.lparen) ∈ ts) ∧
    (∀ o ∈ a.sliceOffsets, (o, Tok.rbracket) ∈ ts) ∧
    (off' = off ∨ off' ∈ ts.map Prod.fst) ∧
    (∀ pt ∈ ts', pt.1 = off ∨ pt.1 ∈ ts.map Prod.fst) := by
  have := (posIH_all _ _ _ fuel).expr rbp ts off (closed_self ts off) (Or.inl rfl)
  rw [h] at this
  obtain ⟨⟨h1, h2, h3⟩, h4, h5⟩ := this
  exact ⟨h1, h2, h3, h5, closed_mem _ _ _ _ h4⟩

theorem expr_error_offset (fuel rbp : Nat) (ts : List PT) (off p : Nat)
    (h : Parser.expr fuel rbp ts off = .error (.at p)) : p = off ∨ p ∈ ts.map Prod.fst := by
  have := (posIH_all _ _ _ fuel).expr rbp ts off (closed_self ts off) (Or.inl rfl)
  rw [h] at this
  exact this p rfl

end Pos

/-- every offset in the tree is `0` (the initial `self.offset`) or a token position; the offset
of a `Function` node is the position of a `(` token, that of a `Slice` node of a `]` token -/
theorem parse_offsets (ts : List PT) (e : Expr) (a : Ast) (h : parseTokens ts = .ok (e, a)) :
    (∀ o ∈ a.offsets, o = 0 ∨ o ∈ ts.map Prod.fst) ∧
    (∀ o ∈ a.callOffsets, (o, Tok.lparen) ∈ ts) ∧
    (∀ o ∈ a.sliceOffsets, (o, Tok.rbracket) ∈ ts) := by
  unfold parseTokens at h
  split at h
  · simp at h
  · rename_i e' a' rest off' he
    have := Pos.expr_offsets _ _ _ _ _ _ _ _ he
    split at h
    · simp at h; obtain ⟨_, rfl⟩ := h; exact ⟨this.1, this.2.1, this.2.2.1⟩
    · simp at h; obtain ⟨_, rfl⟩ := h; exact ⟨this.1, this.2.1, this.2.2.1⟩
    · simp at h

/-- the offset of a parse error is `0` or a token position -/
theorem parse_error_offset (ts : List PT) (p : Nat) (h : parseTokens ts = .error (.at p)) :
    p = 0 ∨ p ∈ ts.map Prod.fst := by
  unfold parseTokens at h
  split at h
  · rename_i e' he
    simp at h; subst h
    exact Pos.expr_error_offset _ _ _ _ _ he
  · rename_i e' a' rest off' he
    have := (Pos.expr_offsets _ _ _ _ _ _ _ _ he).2.2.2.2
    split at h
    · simp at h
    · simp at h
    · simp at h; subst h
      exact this (_, _) List.mem_cons_self

#print axioms tokenize_positions
#print axioms tokenize_error_position
#print axioms parse_offsets
#print axioms parse_error_offset

end JmesVerif
