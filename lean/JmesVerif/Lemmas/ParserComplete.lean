import JmesVerif.Lemmas.ParserCompleteAux
/-!
T2 (completeness): every `Legal` concrete syntax tree is what the parser returns on its yield.
This file: the induction steps for `led` and `nud`, the strong induction on fuel, and `T2_expr`.
-/
namespace JmesVerif
open Parser

theorem DotRhs.first_ne_star (d : DotRhs) (k : Nat) (hl : d.Legal k) (hs : d.startsWithStar = false) :
    ∃ t rest, d.toks = t :: rest ∧ t ≠ .star := by
  cases d with
  | mlist es => exact ⟨_, _, rfl, by simp⟩
  | expr e =>
    obtain ⟨h, ls⟩ := e
    have hb := hl.2
    simp only [Expr.headIsDot] at hb
    simp only [DotRhs.startsWithStar] at hs
    cases h <;> simp [Nud.isDotHead] at hb <;> simp [Nud.isStar] at hs <;>
      simp [DotRhs.toks, Expr.toks, Nud.toks]

theorem comp_led (n : Nat) (ih : ∀ m, m < n → Comp m) (l : Led) (left : Ast) (ts : List PT) (r0 : List Tok) (off : Nat)
    (hsz : l.size ≤ n) (hl : l.Legal) (hcd : l.isCallDev = false) (hy : tk ts = l.toks ++ r0)
    (h2 : (peekL r0).lbp ≤ l.follow) :
    ∃ a ts' off', Parser.led n left ts off = .ok ((l, a), ts', off') ∧ tk ts' = r0 := by
  cases n with
  | zero => cases l <;> simp [Led.size] at hsz
  | succ f =>
  cases f with
  | zero => cases l <;> simp [Led.size] at hsz
  | succ f' =>
  have ih0 := ih f' (by omega)
  have ih1 := ih (f'+1) (by omega)
  cases l with
  | dotStar r =>
    simp only [Led.toks, List.cons_append] at hy
    simp only [Led.size] at hsz
    simp only [Led.Legal] at hl
    simp only [Led.follow] at h2
    obtain ⟨p, ts₁, rfl, hy1⟩ := tk_cons_inv hy
    obtain ⟨p2, ts₂, rfl, hy2⟩ := tk_cons_inv hy1
    obtain ⟨a, ts', off', hp, htk⟩ := wildcardValues_complete f' ih0 r left ts₂ r0 p2 (by omega) hl hy2 h2
    simp only [Parser.led, hp]
    exact ⟨_, _, _, rfl, htk⟩
  | dot d =>
    simp only [Led.toks, List.cons_append] at hy
    simp only [Led.size] at hsz
    simp only [Led.Legal] at hl
    simp only [Led.follow] at h2
    obtain ⟨p, ts₁, rfl, hy1⟩ := tk_cons_inv hy
    obtain ⟨a, ts', off', hp, htk⟩ := ih1.dot d 40 ts₁ r0 p (by omega) hl.1 (by omega) hy1 h2
    obtain ⟨t, rest, ht1, ht2⟩ := d.first_ne_star 40 hl.1 hl.2
    rw [Parser.led.eq_4 _ _ _ _ _ (by
      intro p2 r2 h; subst h; rw [ht1] at hy1; simp at hy1; exact ht2 hy1.1.symm)]
    simp only [hp]
    exact ⟨_, _, _, rfl, htk⟩
  | index i =>
    simp only [Led.toks, List.cons_append, List.nil_append] at hy
    obtain ⟨p, ts₁, rfl, hy1⟩ := tk_cons_inv hy
    obtain ⟨a, ts', off', hp, htk⟩ := parseIndex_idx f' i ts₁ r0 p hy1
    obtain ⟨p2, ts₂, rfl, hy2⟩ := tk_cons_inv hy1
    simp only [Parser.led, hp]
    exact ⟨_, _, _, rfl, htk⟩
  | sliceL h r =>
    simp only [Led.toks, List.cons_append, List.append_assoc] at hy
    simp only [Led.size] at hsz
    simp only [Led.Legal] at hl
    simp only [Led.follow] at h2
    obtain ⟨p, ts₁, rfl, hy1⟩ := tk_cons_inv hy
    obtain ⟨a, ts', off', hp, htk⟩ := parseIndex_slice f' ih0 h r ts₁ r0 p (by omega) hl hy1 h2
    rcases h.toks_first (.rbracket :: (r.toks ++ r0)) with ⟨i, rest, hh⟩ | ⟨rest, hh⟩
    · have hy1' := hy1
      rw [hh] at hy1'
      obtain ⟨p2, ts₂, rfl, hy2⟩ := tk_cons_inv hy1'
      simp only [Parser.led, hp]
      exact ⟨_, _, _, rfl, htk⟩
    · have hy1' := hy1
      rw [hh] at hy1'
      obtain ⟨p2, ts₂, rfl, hy2⟩ := tk_cons_inv hy1'
      simp only [Parser.led, hp]
      exact ⟨_, _, _, rfl, htk⟩
  | wildIdxL r =>
    simp only [Led.toks, List.cons_append] at hy
    simp only [Led.size] at hsz
    simp only [Led.Legal] at hl
    simp only [Led.follow] at h2
    obtain ⟨p, ts₁, rfl, hy1⟩ := tk_cons_inv hy
    obtain ⟨p2, ts₂, rfl, hy2⟩ := tk_cons_inv hy1
    obtain ⟨a, ts', off', hp, htk⟩ := wildcardIndex_complete f' ih0 r left ts₂ r0 p2 (by omega) hl hy2 h2
    simp only [Parser.led, hp]
    exact ⟨_, _, _, rfl, htk⟩
  | or e =>
    simp only [Led.toks, List.cons_append] at hy
    simp only [Led.size] at hsz
    simp only [Led.Legal] at hl
    simp only [Led.follow] at h2
    obtain ⟨p, ts₁, rfl, hy1⟩ := tk_cons_inv hy
    obtain ⟨a, ts', off', hp, htk, _⟩ := ih1.expr e 2 ts₁ r0 p (by omega) hl (by omega) hy1 (by omega) (by omega)
    simp only [Parser.led, hp]
    exact ⟨_, _, _, rfl, htk⟩
  | and e =>
    simp only [Led.toks, List.cons_append] at hy
    simp only [Led.size] at hsz
    simp only [Led.Legal] at hl
    simp only [Led.follow] at h2
    obtain ⟨p, ts₁, rfl, hy1⟩ := tk_cons_inv hy
    obtain ⟨a, ts', off', hp, htk, _⟩ := ih1.expr e 3 ts₁ r0 p (by omega) hl (by omega) hy1 (by omega) (by omega)
    simp only [Parser.led, hp]
    exact ⟨_, _, _, rfl, htk⟩
  | pipe e =>
    simp only [Led.toks, List.cons_append] at hy
    simp only [Led.size] at hsz
    simp only [Led.Legal] at hl
    simp only [Led.follow] at h2
    obtain ⟨p, ts₁, rfl, hy1⟩ := tk_cons_inv hy
    obtain ⟨a, ts', off', hp, htk, _⟩ := ih1.expr e 1 ts₁ r0 p (by omega) hl (by omega) hy1 (by omega) (by omega)
    simp only [Parser.led, hp]
    exact ⟨_, _, _, rfl, htk⟩
  | cmp o e =>
    simp only [Led.toks, List.cons_append] at hy
    simp only [Led.size] at hsz
    simp only [Led.Legal] at hl
    simp only [Led.follow] at h2
    obtain ⟨p, ts₁, rfl, hy1⟩ := tk_cons_inv hy
    obtain ⟨a, ts', off', hp, htk, _⟩ := ih1.expr e 5 ts₁ r0 p (by omega) hl (by omega) hy1 (by omega) (by omega)
    cases o <;> simp [Parser.led, cmpTok, cmpOfTok, hp] <;> exact ⟨_, _, ⟨rfl, rfl⟩, htk⟩
  | flattenL r =>
    simp only [Led.toks, List.cons_append] at hy
    simp only [Led.size] at hsz
    simp only [Led.Legal] at hl
    simp only [Led.follow] at h2
    obtain ⟨p, ts₁, rfl, hy1⟩ := tk_cons_inv hy
    obtain ⟨a, ts', off', hp, htk⟩ := parseFlatten_complete f' ih0 r left ts₁ r0 p (by omega) hl hy1 h2
    simp only [Parser.led, hp]
    exact ⟨_, _, _, rfl, htk⟩
  | filterL pe r =>
    simp only [Led.toks, List.cons_append, List.append_assoc] at hy
    simp only [Led.size] at hsz
    simp only [Led.Legal] at hl
    simp only [Led.follow] at h2
    obtain ⟨p, ts₁, rfl, hy1⟩ := tk_cons_inv hy
    obtain ⟨a, ts', off', hp, htk⟩ := parseFilter_complete f' ih0 pe r left ts₁ r0 p (by omega) (by omega) hl.1 hl.2 hy1 h2
    simp only [Parser.led, hp]
    exact ⟨_, _, _, rfl, htk⟩
  | callDev args => simp [Led.isCallDev] at hcd

theorem mlist_dispatch (e : Expr) (es : List Expr) (hs : isStarOnly (e :: es) = false) (X : List Tok) :
    ∃ t rest, argsToks (e :: es) ++ .rbracket :: X = t :: rest ∧ t.nudStart = true ∧
      (t = .star → ∀ rest', rest ≠ .rbracket :: rest') := by
  obtain ⟨h, ls⟩ := e
  by_cases hstar : h.isStar = true
  · cases h <;> simp [Nud.isStar] at hstar
    rename_i r
    refine ⟨.star, _, by simp only [argsToks, Expr.toks, Nud.toks, List.cons_append, List.append_assoc]; rfl, rfl, fun _ => ?_⟩
    cases r with
    | dot d => simp [Rhs.toks]
    | bracket e' =>
      obtain ⟨t', rest', h1, h2⟩ := e'.toks_first
      simp only [Rhs.toks, h1, List.cons_append]
      intro rest'' hh
      simp only [List.cons.injEq] at hh
      rw [hh.1] at h2; simp [Tok.nudStart] at h2
    | none =>
      simp only [Rhs.toks, List.nil_append]
      cases ls with
      | cons l ls' =>
        obtain ⟨t', rest', h1, _, _, h4⟩ := l.toks_first
        simp only [ledsToks, h1, List.cons_append]
        intro rest'' hh
        simp only [List.cons.injEq] at hh
        exact h4 hh.1
      | nil =>
        cases es with
        | nil => simp [isStarOnly] at hs
        | cons e' es' => simp [ledsToks, argsTail]
  · obtain ⟨t, rest, h1, h2⟩ := h.toks_first
    refine ⟨t, _, by simp only [argsToks, Expr.toks, h1, List.cons_append, List.append_assoc]; rfl, h2, fun ht => ?_⟩
    subst ht
    cases h <;> simp [Nud.toks] at h1 <;> simp [Nud.isStar] at hstar

theorem comp_nud (n : Nat) (ih : ∀ m, m < n → Comp m) (h : Nud) (ts : List PT) (r0 : List Tok) (off : Nat)
    (hsz : h.size ≤ n) (hl : h.Legal) (hcall : h.isCall = false) (hy : tk ts = h.toks ++ r0)
    (h2 : (peekL r0).lbp ≤ h.follow) (hq : h.isQfield = true → peekL r0 ≠ .lparen) :
    ∃ a ts' off', Parser.nud n ts off = .ok ((h, a), ts', off') ∧ tk ts' = r0 ∧
      ((Expr.mk h []).isField = true → IsFieldAst a) := by
  cases n with
  | zero => cases h <;> simp [Nud.size] at hsz
  | succ f =>
  cases f with
  | zero => cases h <;> simp [Nud.size] at hsz
  | succ f' =>
  have ih0 := ih f' (by omega)
  have ih1 := ih (f'+1) (by omega)
  cases h with
  | «at» =>
    simp only [Nud.toks, List.cons_append, List.nil_append] at hy
    obtain ⟨p, ts₁, rfl, hy1⟩ := tk_cons_inv hy
    simp only [Parser.nud]
    exact ⟨_, _, _, rfl, hy1, by simp [Expr.isField]⟩
  | field s =>
    simp only [Nud.toks, List.cons_append, List.nil_append] at hy
    obtain ⟨p, ts₁, rfl, hy1⟩ := tk_cons_inv hy
    simp only [Parser.nud]
    exact ⟨_, _, _, rfl, hy1, fun _ => ⟨_, _, rfl⟩⟩
  | qfield s =>
    simp only [Nud.toks, List.cons_append, List.nil_append] at hy
    obtain ⟨p, ts₁, rfl, hy1⟩ := tk_cons_inv hy
    have hq' := hq rfl
    rw [← hy1, ← peekT_eq_peekL] at hq'
    simp only [Parser.nud]
    exact ⟨_, _, _, rfl, hy1, fun _ => ⟨_, _, rfl⟩⟩
  | call s args => simp [Nud.isCall] at hcall
  | lit v =>
    simp only [Nud.toks, List.cons_append, List.nil_append] at hy
    obtain ⟨p, ts₁, rfl, hy1⟩ := tk_cons_inv hy
    simp only [Parser.nud]
    exact ⟨_, _, _, rfl, hy1, by simp [Expr.isField]⟩
  | star r =>
    simp only [Nud.toks, List.cons_append] at hy
    simp only [Nud.size] at hsz
    simp only [Nud.Legal] at hl
    simp only [Nud.follow] at h2
    obtain ⟨p, ts₁, rfl, hy1⟩ := tk_cons_inv hy
    obtain ⟨a, ts', off', hp, htk⟩ := wildcardValues_complete f' ih0 r (.identity p) ts₁ r0 p (by omega) hl hy1 h2
    simp only [Parser.nud, hp]
    exact ⟨_, _, _, rfl, htk, by simp [Expr.isField]⟩
  | idx i =>
    simp only [Nud.toks, List.cons_append, List.nil_append] at hy
    obtain ⟨p, ts₁, rfl, hy1⟩ := tk_cons_inv hy
    obtain ⟨a, ts', off', hp, htk⟩ := parseIndex_idx f' i ts₁ r0 p hy1
    obtain ⟨p2, ts₂, rfl, hy2⟩ := tk_cons_inv hy1
    simp only [Parser.nud, hp]
    exact ⟨_, _, _, rfl, htk, by simp [Expr.isField]⟩
  | slice hd r =>
    simp only [Nud.toks, List.cons_append, List.append_assoc] at hy
    simp only [Nud.size] at hsz
    simp only [Nud.Legal] at hl
    simp only [Nud.follow] at h2
    obtain ⟨p, ts₁, rfl, hy1⟩ := tk_cons_inv hy
    obtain ⟨a, ts', off', hp, htk⟩ := parseIndex_slice f' ih0 hd r ts₁ r0 p (by omega) hl hy1 h2
    rcases hd.toks_first (.rbracket :: (r.toks ++ r0)) with ⟨i, rest, hh⟩ | ⟨rest, hh⟩
    · have hy1' := hy1
      rw [hh] at hy1'
      obtain ⟨p2, ts₂, rfl, hy2⟩ := tk_cons_inv hy1'
      simp only [Parser.nud, hp]
      exact ⟨_, _, _, rfl, htk, by simp [Expr.isField]⟩
    · have hy1' := hy1
      rw [hh] at hy1'
      obtain ⟨p2, ts₂, rfl, hy2⟩ := tk_cons_inv hy1'
      simp only [Parser.nud, hp]
      exact ⟨_, _, _, rfl, htk, by simp [Expr.isField]⟩
  | wildIdx r =>
    simp only [Nud.toks, List.cons_append] at hy
    simp only [Nud.size] at hsz
    simp only [Nud.Legal] at hl
    simp only [Nud.follow] at h2
    obtain ⟨p, ts₁, rfl, hy1⟩ := tk_cons_inv hy
    obtain ⟨p2, ts₂, rfl, hy2⟩ := tk_cons_inv hy1
    obtain ⟨a, ts', off', hp, htk⟩ := wildcardIndex_complete f' ih0 r (.identity p) ts₂ r0 p2 (by omega) hl hy2 h2
    obtain ⟨p3, ts₃, rfl, hy3⟩ := tk_cons_inv hy2
    simp only [Parser.nud, hp]
    exact ⟨_, _, _, rfl, htk, by simp [Expr.isField]⟩
  | mlist es =>
    simp only [Nud.toks, List.cons_append, List.append_assoc, List.nil_append] at hy
    simp only [Nud.size] at hsz
    simp only [Nud.Legal] at hl
    obtain ⟨p, ts₁, rfl, hy1⟩ := tk_cons_inv hy
    cases es with
    | nil => simp at hl
    | cons e es =>
    obtain ⟨a, ts', off', hp, htk⟩ := multiList_complete f' ih0 e es ts₁ r0 p (by omega) hl.2.2 hy1
    obtain ⟨t, rest, hd1, hd2, hd3⟩ := mlist_dispatch e es hl.2.1 r0
    rw [hd1] at hy1
    rw [Parser.nud.eq_11 _ _ _ _
      (by intro q i tl hh; subst hh; simp at hy1; rw [← hy1.1] at hd2; simp [Tok.nudStart] at hd2)
      (by intro q tl hh; subst hh; simp at hy1; rw [← hy1.1] at hd2; simp [Tok.nudStart] at hd2)
      (by intro q q' tl hh; subst hh; simp at hy1; exact hd3 hy1.1.symm _ hy1.2.symm)]
    simp only [hp]
    exact ⟨_, _, _, rfl, htk, by simp [Expr.isField]⟩
  | flatten r =>
    simp only [Nud.toks, List.cons_append] at hy
    simp only [Nud.size] at hsz
    simp only [Nud.Legal] at hl
    simp only [Nud.follow] at h2
    obtain ⟨p, ts₁, rfl, hy1⟩ := tk_cons_inv hy
    obtain ⟨a, ts', off', hp, htk⟩ := parseFlatten_complete f' ih0 r (.identity p) ts₁ r0 p (by omega) hl hy1 h2
    simp only [Parser.nud, hp]
    exact ⟨_, _, _, rfl, htk, by simp [Expr.isField]⟩
  | mhash kvs =>
    simp only [Nud.toks, List.cons_append, List.append_assoc, List.nil_append] at hy
    simp only [Nud.size] at hsz
    simp only [Nud.Legal] at hl
    obtain ⟨p, ts₁, rfl, hy1⟩ := tk_cons_inv hy
    cases kvs with
    | nil => simp at hl
    | cons kv kvs =>
    obtain ⟨a, ts', off', hp, htk⟩ := ih1.kvs kv kvs ts₁ r0 p [] [] (by omega) hl.2 hy1
    simp only [List.nil_append] at hp
    simp only [Parser.nud, hp]
    exact ⟨_, _, _, rfl, htk, by simp [Expr.isField]⟩
  | not e =>
    simp only [Nud.toks, List.cons_append] at hy
    simp only [Nud.size] at hsz
    simp only [Nud.Legal] at hl
    simp only [Nud.follow] at h2
    obtain ⟨p, ts₁, rfl, hy1⟩ := tk_cons_inv hy
    obtain ⟨a, ts', off', hp, htk, _⟩ := ih1.expr e 45 ts₁ r0 p (by omega) hl (by omega) hy1 (by omega) (by omega)
    simp only [Parser.nud, hp]
    exact ⟨_, _, _, rfl, htk, by simp [Expr.isField]⟩
  | filter pe r =>
    simp only [Nud.toks, List.cons_append, List.append_assoc] at hy
    simp only [Nud.size] at hsz
    simp only [Nud.Legal] at hl
    simp only [Nud.follow] at h2
    obtain ⟨p, ts₁, rfl, hy1⟩ := tk_cons_inv hy
    obtain ⟨a, ts', off', hp, htk⟩ := parseFilter_complete f' ih0 pe r (.identity p) ts₁ r0 p (by omega) (by omega) hl.1 hl.2 hy1 h2
    simp only [Parser.nud, hp]
    exact ⟨_, _, _, rfl, htk, by simp [Expr.isField]⟩
  | paren e =>
    simp only [Nud.toks, List.cons_append, List.append_assoc, List.nil_append] at hy
    simp only [Nud.size] at hsz
    simp only [Nud.Legal] at hl
    obtain ⟨p, ts₁, rfl, hy1⟩ := tk_cons_inv hy
    obtain ⟨a, ts', off', hp, htk, hfa⟩ := ih1.expr e 0 ts₁ (.rparen :: r0) p (by omega) hl (by omega) hy1
      (by simp [Tok.lbp]) (by simp [Tok.lbp])
    obtain ⟨p2, ts₂, rfl, hy2⟩ := tk_cons_inv htk
    simp only [Parser.nud, hp]
    exact ⟨_, _, _, rfl, hy2, fun hf => hfa (by simpa [Expr.isField] using hf)⟩
  | expref e =>
    simp only [Nud.toks, List.cons_append] at hy
    simp only [Nud.size] at hsz
    simp only [Nud.Legal] at hl
    simp only [Nud.follow] at h2
    obtain ⟨p, ts₁, rfl, hy1⟩ := tk_cons_inv hy
    obtain ⟨a, ts', off', hp, htk, _⟩ := ih1.expr e 0 ts₁ r0 p (by omega) hl (by omega) hy1 (by omega) (by omega)
    simp only [Parser.nud, hp]
    exact ⟨_, _, _, rfl, htk, by simp [Expr.isField]⟩

/-- all statements, for every fuel, by strong induction -/
theorem comp_all (n : Nat) : Comp n := by
  induction n using Nat.strongRecOn with
  | _ n ih =>
    exact ⟨comp_expr n ih, comp_loop n ih, comp_nud n ih, comp_led n ih, comp_rhs n ih, comp_dot n ih,
      comp_args n ih, comp_kvs n ih⟩

/-- **T2**: a `Legal` tree, spelled out as tokens and followed by a token that does not continue it,
is parsed back to itself; `e.size` fuel suffices.  The hypothesis `rbp < 60` is needed: at
`rbp ≥ 60` the loop never takes a `(`, so a `.call` head (legal at every `rbp`) is not rebuilt. -/
theorem T2_expr (e : Expr) (rbp : Nat) (hl : e.Legal rbp) (hr : rbp < 60) (ts : List PT) (r0 : List Tok) (off : Nat)
    (hy : tk ts = e.toks ++ r0) (h1 : (peekL r0).lbp ≤ rbp) (h2 : (peekL r0).lbp ≤ e.follow) :
    ∃ n, ∀ fuel, n ≤ fuel → ∃ a ts' off', Parser.expr fuel rbp ts off = .ok ((e, a), ts', off') ∧ tk ts' = r0 := by
  refine ⟨e.size, fun fuel hf => ?_⟩
  obtain ⟨a, ts', off', h, htk, _⟩ := (comp_all fuel).expr e rbp ts r0 off hf hl hr hy h1 h2
  exact ⟨a, ts', off', h, htk⟩

/-- the extra hypothesis `rbp < 60` of `T2_expr` cannot be dropped: a call head is `Legal` at every
`rbp`, but at `rbp = 60` the loop does not take the `(` (no caller in the parser uses `rbp > 55`) -/
theorem T2_needs_rbp : ∃ (e : Expr) (rbp : Nat) (ts : List PT) (r0 : List Tok) (off : Nat),
    e.Legal rbp ∧ tk ts = e.toks ++ r0 ∧ (peekL r0).lbp ≤ rbp ∧ (peekL r0).lbp ≤ e.follow ∧
    ∀ fuel a ts' off', Parser.expr fuel rbp ts off ≠ .ok ((e, a), ts', off') := by
  refine ⟨.mk (.call "f" []) [], 60, [(0, .identifier "f"), (1, .lparen), (2, .rparen)], [], 0, ?_, ?_, ?_, ?_, ?_⟩
  · simp [Expr.Legal, Nud.Legal, argsLegal, chain, callDevOk]
  · simp [tk, Expr.toks, Nud.toks, argsToks, ledsToks]
  · simp [peekL, Tok.lbp]
  · simp [peekL, Tok.lbp]
  · intro fuel a ts' off'
    rcases fuel with _ | _ | _ | f <;> simp [Parser.expr, Parser.nud, Parser.loop, Parser.peekT, Tok.lbp]

end JmesVerif
