import JmesVerif.Model.F64

/-
Numeric contracts of the binary64 model (`JmesVerif/Model/F64.lean`), proved against the IEEE-754
*definition* (exact rational value, one round-to-nearest-even) rather than against hardware.

Main results
* `roundPos_some`, `roundPos_nearest`, `roundPos_ties_even`, `roundPos_eq_none_iff`:
  `roundPos` returns a canonical pair within half an ulp, no canonical pair is nearer, ties go to the
  even significand, and overflow happens exactly from `2^1024 − 2^970` on.
* `roundPos_canon`, `roundPos_repr`: rounding is the identity on representable values.
* `IEEERounded`, `ofRat_ieee`, `ofRatSigned_ieee`, `add_ieee`, `sub_ieee`, `mul_ieee`, `div_ieee`.
* `abs_spec`, `neg_spec`, `floor_spec`, `ceil_spec` (full generality: any canonical finite input).
* `ofNat_exact`, `ofInt_exact`, `foldl_add_isInt` (`sum`), `avg_correct`, `avg_exact`.
-/
namespace JmesVerif
namespace F64

/-! ### `pow2`, `ilog2` -/

theorem pow2_eq_zpow (e : Int) : pow2 e = (2 : Rat) ^ e := by
  unfold pow2
  split
  · rename_i h
    obtain ⟨n, rfl⟩ := Int.eq_ofNat_of_zero_le h
    simp [Rat.zpow_natCast]
  · rename_i h
    obtain ⟨n, hn⟩ : ∃ n : Nat, e = -(n : Int) := ⟨(-e).toNat, by omega⟩
    subst hn
    rw [Rat.zpow_neg, Rat.zpow_natCast]
    simp [Rat.div_def]

theorem pow2_pos (e : Int) : 0 < pow2 e := by
  rw [pow2_eq_zpow]; exact Rat.zpow_pos (by decide)

theorem pow2_add (a b : Int) : pow2 (a + b) = pow2 a * pow2 b := by
  simp only [pow2_eq_zpow]; exact Rat.zpow_add (by decide) a b

theorem pow2_natCast (n : Nat) : pow2 (n : Int) = ((2 ^ n : Nat) : Rat) := by
  simp [pow2]

theorem pow2_zero : pow2 0 = 1 := by simp [pow2]
theorem pow2_one : pow2 1 = 2 := by simp [pow2]
theorem pow2_neg_one : pow2 (-1) = 1/2 := by simp [pow2]
theorem pow2_succ (e : Int) : pow2 (e + 1) = 2 * pow2 e := by
  rw [pow2_add, pow2_one, Rat.mul_comm]

theorem one_le_pow2 {e : Int} (h : 0 ≤ e) : 1 ≤ pow2 e := by
  obtain ⟨n, rfl⟩ := Int.eq_ofNat_of_zero_le h
  rw [pow2_natCast]
  have : 1 ≤ 2 ^ n := Nat.one_le_two_pow
  exact_mod_cast this

theorem pow2_le_pow2 {a b : Int} (h : a ≤ b) : pow2 a ≤ pow2 b := by
  have : b = a + (b - a) := by omega
  rw [this, pow2_add]
  have h1 := one_le_pow2 (e := b - a) (by omega)
  have h2 := pow2_pos a
  have := Rat.mul_le_mul_of_nonneg_left h1 (Rat.le_of_lt h2)
  simpa using this

theorem pow2_lt_pow2 {a b : Int} (h : a < b) : pow2 a < pow2 b := by
  have h1 : pow2 (a+1) ≤ pow2 b := pow2_le_pow2 (by omega)
  rw [pow2_succ] at h1
  have := pow2_pos a
  grind

theorem lt_of_pow2_lt_pow2 {a b : Int} (h : pow2 a < pow2 b) : a < b := by
  apply Decidable.byContradiction; intro hn
  have := pow2_le_pow2 (a := b) (b := a) (by omega)
  grind

theorem le_of_pow2_le_pow2 {a b : Int} (h : pow2 a ≤ pow2 b) : a ≤ b := by
  apply Decidable.byContradiction; intro hn
  have := pow2_lt_pow2 (a := b) (b := a) (by omega)
  grind


theorem num_toNat_div_den {q : Rat} (hq : 0 < q) : (q.num.toNat : Rat) = q * (q.den : Rat) := by
  have h0 : 0 ≤ q.num := Rat.num_nonneg.2 (Rat.le_of_lt hq)
  have h1 : ((q.num.toNat : Nat) : Int) = q.num := by omega
  have h2 : (q.num.toNat : Rat) = ((q.num : Int) : Rat) := by
    rw [← Rat.intCast_natCast, h1]
  rw [h2]
  have := Rat.mkRat_self q
  rw [Rat.mkRat_eq_div] at this
  have hd : (q.den : Rat) ≠ 0 := by
    simp [q.den_nz]
  have := Rat.div_mul_cancel (a := (q.num : Rat)) hd
  grind

theorem ilog2_spec {q : Rat} (hq : 0 < q) : pow2 (ilog2 q) ≤ q ∧ q < pow2 (ilog2 q + 1) := by
  have hn := num_toNat_div_den hq
  have hn0 : q.num.toNat ≠ 0 := by
    have : 0 < q.num := by
      have := Rat.num_nonneg.2 (Rat.le_of_lt hq)
      have : q.num ≠ 0 := fun h => by
        have := Rat.num_eq_zero.1 h; grind
      omega
    omega
  have hd0 : q.den ≠ 0 := q.den_nz
  have hdpos : (0 : Rat) < (q.den : Rat) := by
    have : 0 < q.den := Nat.pos_of_ne_zero hd0
    exact_mod_cast this
  generalize hN : q.num.toNat = n at *
  generalize hD : q.den = d at *
  have n1 : ((2 ^ n.log2 : Nat) : Rat) ≤ (n : Rat) := by
    exact_mod_cast Nat.log2_self_le hn0
  have n2 : (n : Rat) < ((2 ^ (n.log2 + 1) : Nat) : Rat) := by
    exact_mod_cast Nat.lt_log2_self
  have d1 : ((2 ^ d.log2 : Nat) : Rat) ≤ (d : Rat) := by
    exact_mod_cast Nat.log2_self_le hd0
  have d2 : (d : Rat) < ((2 ^ (d.log2 + 1) : Nat) : Rat) := by
    exact_mod_cast Nat.lt_log2_self
  rw [← pow2_natCast] at n1 n2 d1 d2
  -- upper: q < pow2 (k+1)
  have up : q < pow2 ((n.log2 : Int) - (d.log2 : Int) + 1) := by
    have e1 : pow2 ((n.log2 + 1 : Nat) : Int) = pow2 ((n.log2 : Int) - (d.log2 : Int) + 1) * pow2 (d.log2 : Int) := by
      rw [← pow2_add]; congr 1; omega
    have p := pow2_pos ((n.log2 : Int) - (d.log2 : Int) + 1)
    have := Rat.mul_le_mul_of_nonneg_left d1 (Rat.le_of_lt p)
    apply Rat.lt_of_mul_lt_mul_right (c := (d : Rat)) _ (Rat.le_of_lt hdpos)
    grind
  have lo : pow2 ((n.log2 : Int) - (d.log2 : Int) - 1) ≤ q := by
    have e1 : pow2 ((n.log2 : Nat) : Int) = pow2 ((n.log2 : Int) - (d.log2 : Int) - 1) * pow2 ((d.log2 + 1 : Nat) : Int) := by
      rw [← pow2_add]; congr 1; omega
    have p := pow2_pos ((n.log2 : Int) - (d.log2 : Int) - 1)
    have := Rat.mul_lt_mul_of_pos_left d2 p
    apply Rat.le_of_mul_le_mul_right (c := (d : Rat)) _ hdpos
    grind
  unfold ilog2
  simp only [hN, hD]
  split
  · exact ⟨by assumption, up⟩
  · refine ⟨lo, ?_⟩
    rw [show (n.log2 : Int) - (d.log2 : Int) - 1 + 1 = (n.log2 : Int) - (d.log2 : Int) by omega]
    grind

theorem ilog2_unique {q : Rat} {k : Int} (h1 : pow2 k ≤ q) (h2 : q < pow2 (k + 1)) : ilog2 q = k := by
  have hq : 0 < q := by have := pow2_pos k; grind
  obtain ⟨a, b⟩ := ilog2_spec hq
  have c1 : ilog2 q < k + 1 := lt_of_pow2_lt_pow2 (by grind)
  have c2 : k < ilog2 q + 1 := lt_of_pow2_lt_pow2 (by grind)
  omega

theorem ilog2_lt {q : Rat} {k : Int} (hq : 0 < q) (h2 : q < pow2 k) : ilog2 q < k := by
  obtain ⟨a, b⟩ := ilog2_spec hq
  exact lt_of_pow2_lt_pow2 (by grind)

theorem le_ilog2 {q : Rat} {k : Int} (h2 : pow2 k ≤ q) : k ≤ ilog2 q := by
  have hq : 0 < q := by have := pow2_pos k; grind
  obtain ⟨a, b⟩ := ilog2_spec hq
  have : k < ilog2 q + 1 := lt_of_pow2_lt_pow2 (by grind)
  omega

/-- the exponent `roundPos` scales by -/
def rexp (q : Rat) : Int := if ilog2 q - 52 < -1074 then -1074 else ilog2 q - 52

/-- the rounded (integer) significand before the carry fix-up -/
def rsig (q : Rat) : Int :=
  let scaled := q / pow2 (rexp q)
  let fl := scaled.floor
  let rem := scaled - (fl : Rat)
  if rem > 1/2 ∨ (rem = 1/2 ∧ fl % 2 = 1) then fl + 1 else fl

theorem roundPos_eq {q : Rat} (hq : 0 < q) :
    roundPos q =
      if rsig q = 9007199254740992 then
        (if rexp q + 1 > 971 then none else some (4503599627370496, rexp q + 1))
      else if rexp q > 971 then none else some ((rsig q).toNat, rexp q) := by
  have : ¬ q ≤ 0 := by grind
  by_cases h : rsig q = 9007199254740992
  · rw [if_pos h]
    unfold rsig rexp at h
    unfold roundPos rexp
    simp only [this, if_false, h, if_true]
    rfl
  · rw [if_neg h]
    unfold rsig rexp at h
    unfold roundPos rexp rsig
    simp only [this, if_false, h]
    rfl

/-- round-to-nearest-even of a rational to an integer -/
def rne (sc : Rat) : Int :=
  if sc - (sc.floor : Rat) > 1/2 ∨ (sc - (sc.floor : Rat) = 1/2 ∧ sc.floor % 2 = 1) then sc.floor + 1 else sc.floor

theorem rsig_eq (q : Rat) : rsig q = rne (q / pow2 (rexp q)) := rfl

theorem rat_le_of_eq {a b : Rat} (h : a = b) : a ≤ b := h ▸ Rat.le_refl
theorem rat_ge_of_eq {a b : Rat} (h : a = b) : b ≤ a := h ▸ Rat.le_refl

theorem rne_err (sc : Rat) : (rne sc : Rat) - sc ≤ 1/2 ∧ sc - (rne sc : Rat) ≤ 1/2 := by
  have h1 := Rat.floor_le sc
  have h2 := Rat.lt_floor_add_one sc
  rw [Rat.intCast_add] at h2
  unfold rne
  split
  · rename_i hc
    rw [Rat.intCast_add]
    rcases hc with hc | ⟨hc, _⟩
    · grind
    · have := rat_le_of_eq hc; have := rat_ge_of_eq hc; grind
  · grind

theorem le_rne {sc : Rat} {a : Int} (h : (a : Rat) ≤ sc) : a ≤ rne sc := by
  have : a ≤ sc.floor := Rat.le_floor_iff.2 h
  unfold rne; split <;> omega

theorem rne_le {sc : Rat} {b : Int} (h : sc ≤ (b : Rat)) : rne sc ≤ b := by
  have h1 : sc.floor ≤ b := by
    have := Rat.floor_le sc
    have : (sc.floor : Rat) ≤ (b : Rat) := by grind
    exact Rat.intCast_le_intCast.1 this
  unfold rne; split
  · rename_i hc
    have : sc.floor ≠ b := by
      intro heq; rw [heq] at hc
      rcases hc with hc | ⟨hc, _⟩
      · grind
      · have := rat_ge_of_eq hc; grind
    omega
  · exact h1

theorem rne_intCast (n : Int) : rne (n : Rat) = n := by
  have h1 : n ≤ rne (n : Rat) := le_rne Rat.le_refl
  have h2 : rne (n : Rat) ≤ n := rne_le Rat.le_refl
  omega

theorem rexp_ge (q : Rat) : -1074 ≤ rexp q := by unfold rexp; split <;> omega

theorem rexp_ge' (q : Rat) : ilog2 q - 52 ≤ rexp q := by unfold rexp; split <;> omega

theorem scaled_mul {q : Rat} : q / pow2 (rexp q) * pow2 (rexp q) = q :=
  Rat.div_mul_cancel (by have := pow2_pos (rexp q); grind)

theorem pow2_52 : pow2 52 = 4503599627370496 := by simp [pow2]
theorem pow2_53 : pow2 53 = 9007199254740992 := by simp [pow2]

theorem scaled_lt {q : Rat} (hq : 0 < q) : q / pow2 (rexp q) < 9007199254740992 := by
  have ⟨_, h2⟩ := ilog2_spec hq
  have h3 : pow2 (ilog2 q + 1) ≤ pow2 (53 + rexp q) := pow2_le_pow2 (by have := rexp_ge' q; omega)
  rw [pow2_add 53, pow2_53] at h3
  rw [Rat.div_lt_iff (pow2_pos _)]
  grind

theorem scaled_ge {q : Rat} (hq : 0 < q) (hn : -1074 ≤ ilog2 q - 52) :
    4503599627370496 ≤ q / pow2 (rexp q) := by
  have ⟨h1, _⟩ := ilog2_spec hq
  have he : rexp q = ilog2 q - 52 := by unfold rexp; split <;> omega
  have h3 : pow2 (ilog2 q) = pow2 (52 + rexp q) := by congr 1; omega
  rw [pow2_add, pow2_52] at h3
  have := scaled_mul (q := q)
  have hp := pow2_pos (rexp q)
  apply Rat.le_of_mul_le_mul_right (c := pow2 (rexp q)) _ hp
  grind

theorem scaled_lt_sub {q : Rat} (hq : 0 < q) (hn : ilog2 q - 52 < -1074) :
    q / pow2 (rexp q) < 4503599627370496 := by
  have ⟨_, h2⟩ := ilog2_spec hq
  have he : rexp q = -1074 := by unfold rexp; split <;> omega
  have h3 : pow2 (ilog2 q + 1) ≤ pow2 (52 + rexp q) := pow2_le_pow2 (by omega)
  rw [pow2_add 52, pow2_52] at h3
  rw [Rat.div_lt_iff (pow2_pos _)]
  grind

/-- canonical (significand, exponent) pairs -/
def CanonME (m : Nat) (e : Int) : Prop :=
  (m = 0 ∧ e = -1074) ∨ (m < 2^52 ∧ e = -1074) ∨ (2^52 ≤ m ∧ m < 2^53 ∧ -1074 ≤ e ∧ e ≤ 971)

/-- canonical doubles -/
def Canon : F64 → Prop
  | .fin _ m e => (m = 0 ∧ e = -1074) ∨ (m < 2^52 ∧ e = -1074) ∨ (2^52 ≤ m ∧ m < 2^53 ∧ -1074 ≤ e ∧ e ≤ 971)
  | _ => True

theorem canon_fin (s : Bool) (m : Nat) (e : Int) : Canon (.fin s m e) ↔ CanonME m e := Iff.rfl

theorem roundPos_zero {q : Rat} (hq : q ≤ 0) : roundPos q = some (0, -1074) := by
  simp [roundPos, hq]

theorem err_scale {r sc P q : Rat} (hP : 0 < P) (hq : sc * P = q)
    (h1 : r - sc ≤ 1/2) (h2 : sc - r ≤ 1/2) :
    r * P - q ≤ P * (1/2) ∧ q - r * P ≤ P * (1/2) := by
  have a := Rat.mul_le_mul_of_nonneg_right h1 (Rat.le_of_lt hP)
  have b := Rat.mul_le_mul_of_nonneg_right h2 (Rat.le_of_lt hP)
  grind

theorem pow2_pred (e : Int) : pow2 (e - 1) = pow2 e * (1/2) := by
  rw [show e - 1 = e + (-1) by omega, pow2_add, pow2_neg_one]

theorem rsig_bounds {q : Rat} (hq : 0 < q) : 0 ≤ rsig q ∧ rsig q ≤ 9007199254740992 := by
  rw [rsig_eq]
  constructor
  · apply le_rne
    have : 0 < q / pow2 (rexp q) := by
      rw [Rat.div_def]; exact Rat.mul_pos hq (Rat.inv_pos.2 (pow2_pos _))
    simpa using Rat.le_of_lt this
  · apply rne_le
    have := scaled_lt hq
    simpa using Rat.le_of_lt this

theorem rsig_err {q : Rat} :
    (rsig q : Rat) * pow2 (rexp q) - q ≤ pow2 (rexp q - 1) ∧
    q - (rsig q : Rat) * pow2 (rexp q) ≤ pow2 (rexp q - 1) := by
  have ⟨h1, h2⟩ := rne_err (q / pow2 (rexp q))
  rw [pow2_pred, rsig_eq]
  exact err_scale (pow2_pos _) scaled_mul h1 h2

theorem rsig_normal {q : Rat} (hq : 0 < q) (hn : -1074 ≤ ilog2 q - 52) :
    4503599627370496 ≤ rsig q := by
  rw [rsig_eq]; apply le_rne
  simpa using scaled_ge hq hn

theorem rsig_subnormal {q : Rat} (hq : 0 < q) (hn : ilog2 q - 52 < -1074) :
    rsig q ≤ 4503599627370496 ∧ rexp q = -1074 := by
  refine ⟨?_, by unfold rexp; split <;> omega⟩
  rw [rsig_eq]; apply rne_le
  simpa using Rat.le_of_lt (scaled_lt_sub hq hn)

/-- **Correct rounding, part 1**: a result of `roundPos` is canonical and within half an ulp. -/
theorem roundPos_some {q : Rat} (hq : 0 ≤ q) {m : Nat} {e : Int} (h : roundPos q = some (m, e)) :
    CanonME m e ∧ (m : Rat) * pow2 e - q ≤ pow2 (e - 1) ∧ q - (m : Rat) * pow2 e ≤ pow2 (e - 1) := by
  by_cases h0 : q ≤ 0
  · rw [roundPos_zero h0] at h
    have hq0 : q = 0 := Rat.le_antisymm h0 hq
    simp only [Option.some.injEq, Prod.mk.injEq] at h
    obtain ⟨rfl, rfl⟩ := h
    have := pow2_pos (-1074 - 1)
    refine ⟨Or.inl ⟨rfl, rfl⟩, ?_, ?_⟩ <;> simp [hq0] <;> grind
  · have hpos : 0 < q := by grind
    rw [roundPos_eq hpos] at h
    have ⟨b1, b2⟩ := rsig_bounds hpos
    have ⟨e1, e2⟩ := rsig_err (q := q)
    have hge := rexp_ge q
    split at h
    · rename_i hr
      split at h
      · cases h
      · simp only [Option.some.injEq, Prod.mk.injEq] at h
        obtain ⟨rfl, rfl⟩ := h
        refine ⟨Or.inr (Or.inr ⟨by decide, by decide, by omega, by omega⟩), ?_⟩
        rw [hr] at e1 e2
        have hs := pow2_succ (rexp q)
        have hp := pow2_pos (rexp q)
        have hpp := pow2_pred (rexp q)
        rw [show rexp q + 1 - 1 = rexp q by omega]
        simp only [Rat.intCast_ofNat, Rat.natCast_ofNat] at *
        grind
    · rename_i hr
      split at h
      · cases h
      · simp only [Option.some.injEq, Prod.mk.injEq] at h
        obtain ⟨rfl, rfl⟩ := h
        have hcast : (((rsig q).toNat : Nat) : Rat) = ((rsig q : Int) : Rat) := by
          rw [← Rat.intCast_natCast]; congr 1; omega
        rw [hcast]
        refine ⟨?_, e1, e2⟩
        by_cases hn : -1074 ≤ ilog2 q - 52
        · have := rsig_normal hpos hn
          exact Or.inr (Or.inr ⟨by omega, by omega, by omega, by omega⟩)
        · have ⟨c1, c2⟩ := rsig_subnormal hpos (by omega)
          by_cases hlt : rsig q < 4503599627370496
          · exact Or.inr (Or.inl ⟨by omega, c2⟩)
          · exact Or.inr (Or.inr ⟨by omega, by omega, by omega, by omega⟩)

theorem mul_le_mul' {a b c d : Rat} (h1 : a ≤ b) (h2 : c ≤ d) (ha : 0 ≤ a) (hd : 0 ≤ d) : a * c ≤ b * d := by
  have x := Rat.mul_le_mul_of_nonneg_left h2 ha
  have y := Rat.mul_le_mul_of_nonneg_right h1 hd
  exact Rat.le_trans x y

/-- **Correct rounding, part 2**: overflow only at or above the IEEE overflow threshold
`2^1024 − 2^970` (the midpoint between `f64::MAX` and `2^1024`). -/
theorem roundPos_none {q : Rat} (h : roundPos q = none) : pow2 1024 - pow2 970 ≤ q := by
  by_cases h0 : q ≤ 0
  · rw [roundPos_zero h0] at h; cases h
  · have hpos : 0 < q := by grind
    rw [roundPos_eq hpos] at h
    have a1 : pow2 1024 = 9007199254740992 * pow2 971 := by
      rw [show (1024 : Int) = 53 + 971 from rfl, pow2_add, pow2_53]
    have a2 : pow2 970 = pow2 971 * (1/2) := pow2_pred 971
    have p971 := pow2_pos 971
    split at h
    · rename_i hr
      split at h
      · rename_i he
        have ⟨e2, _⟩ := rne_err (q / pow2 (rexp q))
        rw [← rsig_eq, hr] at e2
        have hsc := scaled_mul (q := q)
        have hp : pow2 971 ≤ pow2 (rexp q) := pow2_le_pow2 (by omega)
        simp only [Rat.intCast_ofNat] at e2
        have hp' := pow2_pos (rexp q)
        generalize q / pow2 (rexp q) = sc at *
        have hm : (9007199254740992 - 1/2 : Rat) ≤ sc := by grind
        have := mul_le_mul' hm hp (by grind) (Rat.le_of_lt hp')
        grind
      · cases h
    · split at h
      · rename_i he
        have hL : 1024 ≤ ilog2 q := by
          unfold rexp at he; split at he <;> omega
        have ⟨l1, _⟩ := ilog2_spec hpos
        have := pow2_le_pow2 hL
        have := pow2_pos 970
        grind
      · cases h

theorem roundPos_of_scaled {q : Rat} (hq : 0 < q) {N : Nat} (hN : q = (N : Rat) * pow2 (rexp q))
    (he : rexp q ≤ 971) : roundPos q = some (N, rexp q) := by
  have hp := pow2_pos (rexp q)
  have hsc : q / pow2 (rexp q) = ((N : Int) : Rat) := by
    rw [Rat.intCast_natCast]
    have := Rat.mul_div_cancel (a := (N : Rat)) (b := pow2 (rexp q)) (by grind)
    rw [← hN] at this; exact this
  have hr : rsig q = (N : Int) := by rw [rsig_eq, hsc, rne_intCast]
  have hlt := scaled_lt hq
  rw [hsc] at hlt
  have hlt' : (N : Int) < 9007199254740992 := by
    have : ((N : Int) : Rat) < ((9007199254740992 : Int) : Rat) := by simpa using hlt
    exact Rat.intCast_lt_intCast.1 this
  rw [roundPos_eq hq, hr, if_neg (by omega), if_neg (by omega)]
  simp

theorem rexp_le_of_lt {q : Rat} (hq : 0 < q) {E : Int} (hE : -1074 ≤ E) (h : q < pow2 (E + 53)) :
    rexp q ≤ E := by
  have := ilog2_lt hq h
  unfold rexp; split <;> omega

theorem nat_mul_pow2 (M : Nat) (k : Nat) : (M : Rat) * pow2 (k : Int) = ((M * 2 ^ k : Nat) : Rat) := by
  rw [pow2_natCast, Rat.natCast_mul]

/-- **Exactness on representable values** (value form): `M·2^E` with `M < 2^53`, `E ≥ -1074`,
below `2^1024`, is returned unchanged. -/
theorem roundPos_repr {M : Nat} {E : Int} (hM : M < 2^53) (hE : -1074 ≤ E)
    (hlt : (M : Rat) * pow2 E < pow2 1024) :
    ∃ m e, roundPos ((M : Rat) * pow2 E) = some (m, e) ∧ (m : Rat) * pow2 e = (M : Rat) * pow2 E := by
  by_cases h0 : M = 0
  · subst h0
    exact ⟨0, -1074, by simp [roundPos], by simp⟩
  · have hMpos : (0 : Rat) < (M : Rat) := by
      have : 0 < M := Nat.pos_of_ne_zero h0
      exact_mod_cast this
    have hpE := pow2_pos E
    have hq : 0 < (M : Rat) * pow2 E := Rat.mul_pos hMpos hpE
    have hM' : (M : Rat) < pow2 53 := by
      rw [pow2_53]; exact_mod_cast hM
    have hup : (M : Rat) * pow2 E < pow2 (E + 53) := by
      rw [Int.add_comm, pow2_add]
      exact Rat.mul_lt_mul_of_pos_right hM' hpE
    generalize hqd : (M : Rat) * pow2 E = q at *
    have hle := rexp_le_of_lt hq hE hup
    have h971 : rexp q ≤ 971 := by
      have := ilog2_lt hq hlt
      unfold rexp; split <;> omega
    obtain ⟨k, hk⟩ : ∃ k : Nat, E = rexp q + (k : Int) := ⟨(E - rexp q).toNat, by omega⟩
    have hN : q = ((M * 2 ^ k : Nat) : Rat) * pow2 (rexp q) := by
      have hpw : pow2 E = pow2 (rexp q) * pow2 k := by rw [← pow2_add, ← hk]
      rw [← nat_mul_pow2]
      grind
    exact ⟨_, _, roundPos_of_scaled hq hN h971, hN.symm⟩

/-- **Exactness on representable values** (syntactic form): rounding a canonical pair's value
returns that pair. -/
theorem roundPos_canon {m : Nat} {e : Int} (h : CanonME m e) :
    roundPos ((m : Rat) * pow2 e) = some (m, e) := by
  by_cases h0 : m = 0
  · subst h0
    have : e = -1074 := by
      rcases h with ⟨_, h⟩ | ⟨_, h⟩ | ⟨h, _⟩
      · exact h
      · exact h
      · simp at h
    subst this
    simp [roundPos]
  · have hMpos : (0 : Rat) < (m : Rat) := by
      have : 0 < m := Nat.pos_of_ne_zero h0
      exact_mod_cast this
    have hpE := pow2_pos e
    have hq : 0 < (m : Rat) * pow2 e := Rat.mul_pos hMpos hpE
    have hre : rexp ((m : Rat) * pow2 e) = e ∧ e ≤ 971 := by
      rcases h with ⟨h, _⟩ | ⟨h, he⟩ | ⟨h1, h2, h3, h4⟩
      · exact absurd h h0
      · subst he
        have hM' : (m : Rat) < pow2 52 := by
          rw [pow2_52]; exact_mod_cast h
        have hup : (m : Rat) * pow2 (-1074) < pow2 (-1022) := by
          rw [show (-1022 : Int) = 52 + -1074 from rfl, pow2_add]
          exact Rat.mul_lt_mul_of_pos_right hM' hpE
        have := ilog2_lt hq hup
        constructor
        · unfold rexp; split <;> omega
        · omega
      · have hM1 : pow2 52 ≤ (m : Rat) := by
          rw [pow2_52]; exact_mod_cast h1
        have hM2 : (m : Rat) < pow2 53 := by
          rw [pow2_53]; exact_mod_cast h2
        have hlo : pow2 (e + 52) ≤ (m : Rat) * pow2 e := by
          rw [Int.add_comm, pow2_add]
          exact Rat.mul_le_mul_of_nonneg_right hM1 (Rat.le_of_lt hpE)
        have hup : (m : Rat) * pow2 e < pow2 (e + 52 + 1) := by
          rw [show e + 52 + 1 = 53 + e by omega, pow2_add]
          exact Rat.mul_lt_mul_of_pos_right hM2 hpE
        have := ilog2_unique hlo hup
        constructor
        · unfold rexp; split <;> omega
        · omega
    obtain ⟨hre, h971⟩ := hre
    have := roundPos_of_scaled hq (N := m) (by rw [hre]) (by omega)
    rw [hre] at this; exact this

/-! ### `neg`, `abs` -/

theorem toRat_fin (s : Bool) (m : Nat) (e : Int) :
    (F64.fin s m e).toRat = if s then -((m : Rat) * pow2 e) else (m : Rat) * pow2 e := by
  cases s <;> simp [toRat, Rat.neg_mul]

theorem mag_nonneg (m : Nat) (e : Int) : 0 ≤ (m : Rat) * pow2 e :=
  Rat.mul_nonneg Rat.natCast_nonneg (Rat.le_of_lt (pow2_pos e))

theorem neg_spec (x : F64) : (neg x).isFinite = x.isFinite ∧ (neg x).toRat = -x.toRat := by
  cases x with
  | fin s m e => cases s <;> simp [neg, isFinite, toRat, Rat.neg_mul]
  | inf s => simp [neg, isFinite, toRat]
  | nan => simp [neg, isFinite, toRat]

theorem neg_canon (x : F64) (h : x.Canon) : (neg x).Canon := by
  cases x <;> simp_all [neg, Canon]

theorem abs_spec (x : F64) (h : x.isFinite) :
    (abs x).isFinite ∧ (abs x).toRat = x.toRat.abs := by
  cases x with
  | fin s m e =>
    have := mag_nonneg m e
    refine ⟨rfl, ?_⟩
    simp only [abs, toRat_fin, Rat.abs]
    cases s <;> simp <;> grind
  | inf s => cases h
  | nan => cases h

/-- `abs_spec` with the absolute value spelled as an `if` -/
theorem abs_spec' (x : F64) (h : x.isFinite) :
    (abs x).isFinite ∧ (abs x).toRat = (if x.toRat < 0 then -x.toRat else x.toRat) := by
  refine ⟨(abs_spec x h).1, ?_⟩
  rw [(abs_spec x h).2, Rat.abs]
  split <;> split <;> grind

theorem abs_canon (x : F64) (h : x.Canon) : (abs x).Canon := by
  cases x <;> simp_all [abs, Canon]

/-! ### `ofRat`, `ofRatSigned` -/

/-- the magnitude the model feeds to `roundPos` -/
def absq (q : Rat) : Rat := if q < 0 then -q else q

theorem absq_nonneg (q : Rat) : 0 ≤ absq q := by unfold absq; split <;> grind
theorem absq_eq_abs (q : Rat) : absq q = q.abs := by
  unfold absq Rat.abs; split <;> split <;> grind
theorem absq_neg (q : Rat) : absq (-q) = absq q := by
  unfold absq; split <;> split <;> grind

/-- `q` is (the value of) a finite double: `|q| = M·2^E` with `M < 2^53`, `-1074 ≤ E ≤ 971` -/
def Representable (q : Rat) : Prop :=
  ∃ (M : Nat) (E : Int), M < 2^53 ∧ -1074 ≤ E ∧ E ≤ 971 ∧ absq q = (M : Rat) * pow2 E

theorem Representable.neg {q : Rat} (h : Representable q) : Representable (-q) := by
  obtain ⟨M, E, h1, h2, h3, h4⟩ := h
  exact ⟨M, E, h1, h2, h3, by rw [absq_neg, h4]⟩

theorem roundPos_of_representable {q : Rat} (h : Representable q) :
    ∃ m e, roundPos (absq q) = some (m, e) ∧ (m : Rat) * pow2 e = absq q := by
  obtain ⟨M, E, h1, h2, h3, h4⟩ := h
  rw [h4]
  apply roundPos_repr h1 h2
  have hM' : (M : Rat) < pow2 53 := by
    rw [pow2_53]; exact_mod_cast h1
  have a : (M : Rat) * pow2 E < pow2 53 * pow2 E := Rat.mul_lt_mul_of_pos_right hM' (pow2_pos E)
  have b : pow2 (53 + E) ≤ pow2 1024 := pow2_le_pow2 (by omega)
  rw [pow2_add] at b
  grind

theorem toRat_of_mag {q : Rat} {m : Nat} {e : Int} (h : (m : Rat) * pow2 e = absq q) :
    (F64.fin (decide (q < 0)) m e).toRat = q := by
  rw [toRat_fin]
  unfold absq at h
  by_cases hq : q < 0 <;> simp [hq] at h ⊢ <;> grind

theorem ofRatSigned_exact (z : Bool) {q : Rat} (h : Representable q) :
    (ofRatSigned z q).isFinite ∧ (ofRatSigned z q).toRat = q := by
  obtain ⟨m, e, h1, h2⟩ := roundPos_of_representable h
  unfold ofRatSigned
  rw [show (if q < 0 then -q else q) = absq q from rfl, h1]
  cases m with
  | zero =>
    refine ⟨rfl, ?_⟩
    have : absq q = 0 := by rw [← h2]; simp
    unfold absq at this
    simp only [toRat]
    split at this <;> simp <;> grind
  | succ k => exact ⟨rfl, toRat_of_mag h2⟩

theorem ofRat_exact {q : Rat} (h : Representable q) :
    (ofRat q).isFinite ∧ (ofRat q).toRat = q := by
  obtain ⟨m, e, h1, h2⟩ := roundPos_of_representable h
  unfold ofRat
  simp only [show (if q < 0 then -q else q) = absq q from rfl, h1]
  exact ⟨rfl, toRat_of_mag h2⟩

theorem CanonME.lt {m : Nat} {e : Int} (h : CanonME m e) : m < 2^53 ∧ -1074 ≤ e ∧ e ≤ 971 := by
  rcases h with ⟨h, he⟩ | ⟨h, he⟩ | ⟨h1, h2, h3, h4⟩ <;> omega

/-- every canonical finite double's value is representable -/
theorem representable_toRat (x : F64) (hc : x.Canon) : Representable x.toRat := by
  cases x with
  | fin s m e =>
    have ⟨a, b, c⟩ := CanonME.lt hc
    refine ⟨m, e, a, b, c, ?_⟩
    have := mag_nonneg m e
    rw [toRat_fin]; unfold absq
    cases s <;> simp <;> grind
  | inf s => exact ⟨0, 0, by decide, by decide, by decide, by simp [toRat, absq]⟩
  | nan => exact ⟨0, 0, by decide, by decide, by decide, by simp [toRat, absq]⟩

theorem representable_int (n : Int) (h : n.natAbs < 2^53) : Representable (n : Rat) := by
  refine ⟨n.natAbs, 0, h, by decide, by decide, ?_⟩
  rw [pow2_zero, Rat.mul_one]
  unfold absq
  by_cases hn : n < 0
  · have : (n : Rat) < 0 := by exact_mod_cast hn
    rw [if_pos this, ← Rat.intCast_natCast, ← Rat.intCast_neg]; congr 1; omega
  · have : ¬ (n : Rat) < 0 := by
      intro h; have : n < 0 := by exact_mod_cast h
      exact hn this
    rw [if_neg this, ← Rat.intCast_natCast]; congr 1; omega

/-! ### `floor`, `ceil` -/

theorem floor_representable {q : Rat} (h : Representable q) : Representable (q.floor : Rat) := by
  obtain ⟨M, E, h1, h2, h3, h4⟩ := h
  by_cases hE : 0 ≤ E
  · -- `q` is an integer
    obtain ⟨k, rfl⟩ := Int.eq_ofNat_of_zero_le hE
    rw [nat_mul_pow2] at h4
    have hq : (q.floor : Rat) = q := by
      unfold absq at h4
      split at h4
      · have : q = ((-((M * 2 ^ k : Nat) : Int) : Int) : Rat) := by
          rw [Rat.intCast_neg, Rat.intCast_natCast]; grind
        rw [this, Rat.floor_intCast]
      · have : q = ((((M * 2 ^ k : Nat) : Int) : Int) : Rat) := by
          rw [Rat.intCast_natCast]; grind
        rw [this, Rat.floor_intCast]
    rw [hq]
    exact ⟨M, (k : Int), h1, h2, h3, by rw [h4, nat_mul_pow2]⟩
  · -- `|q| < 2^52`
    apply representable_int
    have hM' : (M : Rat) < pow2 53 := by
      rw [pow2_53]; exact_mod_cast h1
    have a : (M : Rat) * pow2 E < pow2 53 * pow2 E := Rat.mul_lt_mul_of_pos_right hM' (pow2_pos E)
    have b : pow2 (53 + E) ≤ pow2 52 := pow2_le_pow2 (by omega)
    rw [pow2_add] at b
    rw [← h4, pow2_52] at *
    have hlt : absq q < 4503599627370496 := by grind
    unfold absq at hlt
    have u : q.floor < 4503599627370496 := by
      apply Rat.floor_lt_iff.2
      simp only [Rat.intCast_ofNat]
      split at hlt <;> grind
    have l : -4503599627370496 ≤ q.floor := by
      apply Rat.le_floor_iff.2
      simp only [Rat.intCast_neg, Rat.intCast_ofNat]
      split at hlt <;> grind
    omega

theorem floor_spec (x : F64) (hc : x.Canon) (h : x.isFinite) :
    (floor x).isFinite ∧ (floor x).toRat = (x.toRat.floor : Rat) := by
  cases x with
  | fin s m e =>
    exact ofRatSigned_exact s (floor_representable (representable_toRat _ hc))
  | inf s => cases h
  | nan => cases h

theorem ceil_spec (x : F64) (hc : x.Canon) (h : x.isFinite) :
    (ceil x).isFinite ∧ (ceil x).toRat = ((-((-x.toRat).floor) : Int) : Rat) := by
  cases x with
  | fin s m e =>
    have := (floor_representable (representable_toRat _ hc).neg).neg
    rw [← Rat.intCast_neg] at this
    exact ofRatSigned_exact s this
  | inf s => cases h
  | nan => cases h

theorem ceil_spec' (x : F64) (hc : x.Canon) (h : x.isFinite) :
    (ceil x).isFinite ∧ (ceil x).toRat = (x.toRat.ceil : Rat) := by
  rw [Rat.ceil_eq_neg_floor_neg]; exact ceil_spec x hc h

/-! ### correct rounding of `ofRat` / `ofRatSigned` and the four operations -/

/-- `r` is a correctly rounded image of the exact value `q`:
a canonical finite double within half a unit in the last place of `q` carrying `q`'s sign
(a zero result may carry either sign), or the infinity of `q`'s sign when `|q|` is at or beyond the
IEEE overflow threshold `2^1024 − 2^970`. -/
def CorrectlyRounded (q : Rat) (r : F64) : Prop :=
  r.Canon ∧
  match r with
  | .fin s m e =>
      (F64.fin s m e).toRat - q ≤ pow2 (e - 1) ∧ q - (F64.fin s m e).toRat ≤ pow2 (e - 1) ∧
      (m ≠ 0 → s = decide (q < 0))
  | .inf s => s = decide (q < 0) ∧ pow2 1024 - pow2 970 ≤ absq q
  | .nan => False

theorem ofRatSigned_correct (z : Bool) (q : Rat) : CorrectlyRounded q (ofRatSigned z q) := by
  unfold ofRatSigned
  rw [show (if q < 0 then -q else q) = absq q from rfl]
  cases hr : roundPos (absq q) with
  | none => exact ⟨trivial, rfl, roundPos_none hr⟩
  | some me =>
    obtain ⟨m, e⟩ := me
    have ⟨c, e1, e2⟩ := roundPos_some (absq_nonneg q) hr
    cases m with
    | zero =>
      have he : e = -1074 := by
        rcases c with ⟨_, h⟩ | ⟨_, h⟩ | ⟨h, _⟩
        · exact h
        · exact h
        · simp at h
      subst he
      have hz : (F64.fin z 0 (-1074)).toRat = 0 := by simp [toRat]
      have hp := pow2_pos (-1074 - 1)
      have e2' : absq q ≤ pow2 (-1074 - 1) := by
        have : (((0 : Nat) : Rat)) = 0 := rfl
        rw [this, Rat.zero_mul] at e2; grind
      refine ⟨Or.inl ⟨rfl, rfl⟩, ?_, ?_, fun h => absurd rfl h⟩
      · rw [hz]; unfold absq at e2'; split at e2' <;> grind
      · rw [hz]; unfold absq at e2'; split at e2' <;> grind
    | succ k =>
      refine ⟨c, ?_, ?_, fun _ => rfl⟩
      · rw [toRat_fin]; unfold absq at e1 e2
        by_cases hq : q < 0 <;> simp [hq] at e1 e2 ⊢ <;> grind
      · rw [toRat_fin]; unfold absq at e1 e2
        by_cases hq : q < 0 <;> simp [hq] at e1 e2 ⊢ <;> grind

theorem roundPos_zero_exp {q : Rat} {e : Int} (hq : 0 ≤ q) (h : roundPos q = some (0, e)) : e = -1074 := by
  have ⟨c, _⟩ := roundPos_some hq h
  rcases c with ⟨_, h⟩ | ⟨_, h⟩ | ⟨h, _⟩
  · exact h
  · exact h
  · simp at h

theorem ofRat_eq_ofRatSigned (q : Rat) : ofRat q = ofRatSigned (decide (q < 0)) q := by
  unfold ofRat ofRatSigned
  simp only [show (if q < 0 then -q else q) = absq q from rfl]
  cases hr : roundPos (absq q) with
  | none => rfl
  | some me =>
    obtain ⟨m, e⟩ := me
    cases m with
    | zero => simp [roundPos_zero_exp (absq_nonneg q) hr]
    | succ k => rfl

theorem ofRat_correct (q : Rat) : CorrectlyRounded q (ofRat q) := by
  rw [ofRat_eq_ofRatSigned]; exact ofRatSigned_correct _ q

theorem ofRatSigned_canon (z : Bool) (q : Rat) : (ofRatSigned z q).Canon := (ofRatSigned_correct z q).1
theorem ofRat_canon (q : Rat) : (ofRat q).Canon := (ofRat_correct q).1

theorem floor_canon (x : F64) (h : x.Canon) : (floor x).Canon := by
  cases x with
  | fin s m e => exact ofRatSigned_canon _ _
  | inf s => exact h
  | nan => exact h

theorem ceil_canon (x : F64) (h : x.Canon) : (ceil x).Canon := by
  cases x with
  | fin s m e => exact ofRatSigned_canon _ _
  | inf s => exact h
  | nan => exact h

/-! #### `+ - * /` on finite operands: exact result, rounded once -/

theorem add_correct (a b : F64) (ha : a.isFinite) (hb : b.isFinite) :
    CorrectlyRounded (a.toRat + b.toRat) (add a b) := by
  cases a <;> cases b <;> simp [isFinite] at ha hb
  exact ofRatSigned_correct _ _

theorem sub_correct (a b : F64) (ha : a.isFinite) (hb : b.isFinite) :
    CorrectlyRounded (a.toRat - b.toRat) (sub a b) := by
  have := add_correct a (neg b) ha (by rw [(neg_spec b).1]; exact hb)
  rw [(neg_spec b).2, ← Rat.sub_eq_add_neg] at this
  exact this

theorem mul_correct (a b : F64) (ha : a.isFinite) (hb : b.isFinite) :
    CorrectlyRounded (a.toRat * b.toRat) (mul a b) := by
  cases a <;> cases b <;> simp [isFinite] at ha hb
  exact ofRatSigned_correct _ _

theorem div_correct (a b : F64) (ha : a.isFinite) (hb : b.isFinite) (hz : b.isZero = false) :
    CorrectlyRounded (a.toRat / b.toRat) (div a b) := by
  cases a <;> cases b <;> simp [isFinite] at ha hb
  simp only [div, hz]
  exact ofRatSigned_correct _ _

theorem add_exact (a b : F64) (ha : a.isFinite) (hb : b.isFinite)
    (h : Representable (a.toRat + b.toRat)) :
    (add a b).isFinite ∧ (add a b).toRat = a.toRat + b.toRat := by
  cases a <;> cases b <;> simp [isFinite] at ha hb
  exact ofRatSigned_exact _ h

theorem sub_exact (a b : F64) (ha : a.isFinite) (hb : b.isFinite)
    (h : Representable (a.toRat - b.toRat)) :
    (sub a b).isFinite ∧ (sub a b).toRat = a.toRat - b.toRat := by
  have := add_exact a (neg b) ha (by rw [(neg_spec b).1]; exact hb)
  rw [(neg_spec b).2, ← Rat.sub_eq_add_neg] at this
  exact this h

theorem mul_exact (a b : F64) (ha : a.isFinite) (hb : b.isFinite)
    (h : Representable (a.toRat * b.toRat)) :
    (mul a b).isFinite ∧ (mul a b).toRat = a.toRat * b.toRat := by
  cases a <;> cases b <;> simp [isFinite] at ha hb
  exact ofRatSigned_exact _ h

theorem div_exact (a b : F64) (ha : a.isFinite) (hb : b.isFinite) (hz : b.isZero = false)
    (h : Representable (a.toRat / b.toRat)) :
    (div a b).isFinite ∧ (div a b).toRat = a.toRat / b.toRat := by
  cases a <;> cases b <;> simp [isFinite] at ha hb
  simp only [div, hz]
  exact ofRatSigned_exact _ h

/-! ### integer conversions and exact integer arithmetic -/

theorem absq_intCast (n : Int) : absq (n : Rat) = (n.natAbs : Rat) := by
  unfold absq
  by_cases hn : n < 0
  · have : (n : Rat) < 0 := by exact_mod_cast hn
    rw [if_pos this, ← Rat.intCast_natCast, ← Rat.intCast_neg]; congr 1; omega
  · have : ¬ (n : Rat) < 0 := by
      intro h; have : n < 0 := by exact_mod_cast h
      exact hn this
    rw [if_neg this, ← Rat.intCast_natCast]; congr 1; omega

/-- every integer of magnitude at most `2^53` is a double -/
theorem representable_int' (n : Int) (h : n.natAbs ≤ 2^53) : Representable (n : Rat) := by
  by_cases h' : n.natAbs < 2^53
  · exact representable_int n h'
  · have : n.natAbs = 2^53 := by omega
    refine ⟨2^52, 1, by decide, by decide, by decide, ?_⟩
    rw [absq_intCast, this, pow2_one]
    exact_mod_cast (by decide : (2 ^ 53 : Nat) = 2 ^ 52 * 2)

theorem ofInt_exact (n : Int) (h : n.natAbs ≤ 2^53) :
    (ofInt n).isFinite ∧ (ofInt n).toRat = (n : Rat) :=
  ofRat_exact (representable_int' n h)

theorem ofNat_exact (n : Nat) (h : n ≤ 2^53) :
    (ofNat n).isFinite ∧ (ofNat n).toRat = (n : Rat) := by
  have := ofInt_exact (n : Int) (by simpa using h)
  rw [Rat.intCast_natCast] at this
  exact this

theorem ofInt_correct (n : Int) : CorrectlyRounded (n : Rat) (ofInt n) := ofRat_correct _
theorem ofNat_correct (n : Nat) : CorrectlyRounded (n : Rat) (ofNat n) := ofRat_correct _

/-- a finite double holding the integer `n` -/
def IsInt (x : F64) (n : Int) : Prop := x.isFinite ∧ x.toRat = (n : Rat)

theorem isInt_zero : IsInt zero 0 := ⟨rfl, by simp [zero, toRat]⟩

theorem add_isInt {a b : F64} {m n : Int} (ha : IsInt a m) (hb : IsInt b n)
    (h : (m + n).natAbs ≤ 2^53) : IsInt (add a b) (m + n) := by
  have := add_exact a b ha.1 hb.1 (by
    rw [ha.2, hb.2, ← Rat.intCast_add]; exact representable_int' _ h)
  rw [ha.2, hb.2, ← Rat.intCast_add] at this
  exact this

theorem sub_isInt {a b : F64} {m n : Int} (ha : IsInt a m) (hb : IsInt b n)
    (h : (m - n).natAbs ≤ 2^53) : IsInt (sub a b) (m - n) := by
  have := sub_exact a b ha.1 hb.1 (by
    rw [ha.2, hb.2, ← Rat.intCast_sub]; exact representable_int' _ h)
  rw [ha.2, hb.2, ← Rat.intCast_sub] at this
  exact this

theorem mul_isInt {a b : F64} {m n : Int} (ha : IsInt a m) (hb : IsInt b n)
    (h : (m * n).natAbs ≤ 2^53) : IsInt (mul a b) (m * n) := by
  have := mul_exact a b ha.1 hb.1 (by
    rw [ha.2, hb.2, ← Rat.intCast_mul]; exact representable_int' _ h)
  rw [ha.2, hb.2, ← Rat.intCast_mul] at this
  exact this

/-- pointwise `IsInt` -/
inductive AllInt : List F64 → List Int → Prop
  | nil : AllInt [] []
  | cons {x n xs ns} : IsInt x n → AllInt xs ns → AllInt (x :: xs) (n :: ns)

/-- **`sum` is exact on small integers**: a left fold of `add` over doubles holding integers whose
absolute values (together with the accumulator's) total at most `2^53` holds the exact integer sum. -/
theorem foldl_add_isInt : ∀ (xs : List F64) (ns : List Int) (acc : F64) (a : Int),
    IsInt acc a → AllInt xs ns →
    a.natAbs + (ns.map Int.natAbs).sum ≤ 2^53 →
    IsInt (xs.foldl add acc) (a + ns.sum)
  | [], _, acc, a, hacc, h, _ => by
    cases h; simpa using hacc
  | x :: xs, _, acc, a, hacc, h, hb => by
    cases h with
    | cons hx hrest =>
      rename_i n ns
      simp only [List.map_cons, List.sum_cons] at hb
      have := foldl_add_isInt xs ns (add acc x) (a + n)
        (add_isInt hacc hx (by omega)) hrest (by omega)
      simp only [List.foldl_cons, List.sum_cons]
      rw [← Int.add_assoc]; exact this

theorem toRat_of_isZero {x : F64} (h : x.isZero = true) : x.toRat = 0 := by
  cases x with
  | fin s m e =>
    cases m with
    | zero => simp [toRat]
    | succ k => simp [isZero] at h
  | inf s => rfl
  | nan => rfl

theorem isZero_ofNat {n : Nat} (h0 : 0 < n) (h : n ≤ 2^53) : (ofNat n).isZero = false := by
  cases hz : (ofNat n).isZero with
  | false => rfl
  | true =>
    have := toRat_of_isZero hz
    rw [(ofNat_exact n h).2] at this
    have : n = 0 := by exact_mod_cast this
    omega

theorem AllInt.length_eq {xs : List F64} {ns : List Int} (h : AllInt xs ns) : xs.length = ns.length := by
  induction h with
  | nil => rfl
  | cons _ _ ih => simp [ih]

/-- **`avg` on small integers**: the model's `sum / length` is the correctly rounded exact mean. -/
theorem avg_correct {xs : List F64} {ns : List Int} (h : AllInt xs ns)
    (hb : (ns.map Int.natAbs).sum ≤ 2^53) (h0 : 0 < xs.length) (hl : xs.length ≤ 2^53) :
    CorrectlyRounded ((ns.sum : Rat) / (xs.length : Rat))
      (div (xs.foldl add zero) (ofNat xs.length)) := by
  have hs := foldl_add_isInt xs ns zero 0 isInt_zero h (by simpa using hb)
  rw [Int.zero_add] at hs
  have hn := ofNat_exact xs.length hl
  have := div_correct _ _ hs.1 hn.1 (isZero_ofNat h0 hl)
  rw [hs.2, hn.2] at this
  exact this

/-- … and it is exact when the mean is itself an integer (of magnitude at most `2^53`). -/
theorem avg_exact {xs : List F64} {ns : List Int} (h : AllInt xs ns)
    (hb : (ns.map Int.natAbs).sum ≤ 2^53) (h0 : 0 < xs.length) (hl : xs.length ≤ 2^53)
    {k : Int} (hk : ns.sum = k * xs.length) (hkb : k.natAbs ≤ 2^53) :
    IsInt (div (xs.foldl add zero) (ofNat xs.length)) k := by
  have hs := foldl_add_isInt xs ns zero 0 isInt_zero h (by simpa using hb)
  rw [Int.zero_add] at hs
  have hn := ofNat_exact xs.length hl
  have hq : (ns.sum : Rat) / (xs.length : Rat) = (k : Rat) := by
    rw [hk, Rat.intCast_mul, Rat.intCast_natCast]
    apply Rat.mul_div_cancel
    have : xs.length ≠ 0 := by omega
    exact_mod_cast this
  have := div_exact _ _ hs.1 hn.1 (isZero_ofNat h0 hl) (by
    rw [hs.2, hn.2, hq]; exact representable_int' k hkb)
  rw [hs.2, hn.2, hq] at this
  exact this

/-! ### `roundPos` is round-to-nearest, ties-to-even, in the IEEE sense -/

theorem absq_mul_pos (x : Rat) {P : Rat} (hP : 0 < P) : absq (x * P) = absq x * P := by
  unfold absq
  have := Rat.mul_neg_iff_of_pos_right (a := x) hP
  by_cases hx : x < 0
  · rw [if_pos hx, if_pos (this.2 hx), Rat.neg_mul]
  · rw [if_neg hx, if_neg (fun h => hx (this.1 h))]

theorem intCast_succ_le {a b : Int} (h : a + 1 ≤ b) : (a : Rat) + 1 ≤ (b : Rat) := by
  have : ((a + 1 : Int) : Rat) ≤ (b : Rat) := Rat.intCast_le_intCast.2 h
  rw [Rat.intCast_add] at this
  simpa using this

theorem rne_far (sc : Rat) {N : Int} (h : N ≠ rne sc) : 1/2 ≤ absq ((N : Rat) - sc) := by
  have ⟨h1, h2⟩ := rne_err sc
  unfold absq
  rcases Int.lt_or_gt_of_ne h with hlt | hgt
  · have := intCast_succ_le (a := N) (b := rne sc) (by omega)
    split <;> grind
  · have := intCast_succ_le (a := rne sc) (b := N) (by omega)
    split <;> grind

theorem rne_near (sc : Rat) : absq ((rne sc : Rat) - sc) ≤ 1/2 := by
  have ⟨h1, h2⟩ := rne_err sc
  unfold absq; split <;> grind

theorem rne_nearest (sc : Rat) (N : Int) : absq ((rne sc : Rat) - sc) ≤ absq ((N : Rat) - sc) := by
  by_cases h : N = rne sc
  · rw [h]; exact Rat.le_refl
  · exact Rat.le_trans (rne_near sc) (rne_far sc h)

theorem rne_tie (sc : Rat) (h : absq ((rne sc : Rat) - sc) = 1/2) : rne sc % 2 = 0 := by
  have f1 := Rat.floor_le sc
  have f2 := Rat.lt_floor_add_one sc
  rw [Rat.intCast_add] at f2
  have a := rat_le_of_eq h
  have b := rat_ge_of_eq h
  unfold rne at *
  unfold absq at a b
  split
  · rename_i hc
    rw [if_pos hc, Rat.intCast_add] at a b
    rcases hc with hc | ⟨_, hodd⟩
    · exfalso; split at b <;> grind
    · omega
  · rename_i hc
    rw [if_neg hc] at a b
    have hhalf : sc - (sc.floor : Rat) = 1/2 := by
      apply Rat.le_antisymm
      · split at a <;> grind
      · split at b <;> grind
    have : ¬ sc.floor % 2 = 1 := fun h => hc (Or.inr ⟨hhalf, h⟩)
    omega

theorem rne_tie' (sc : Rat) {N : Int} (hN : N ≠ rne sc)
    (h : absq ((rne sc : Rat) - sc) = absq ((N : Rat) - sc)) : rne sc % 2 = 0 := by
  apply rne_tie
  apply Rat.le_antisymm (rne_near sc)
  rw [h]; exact rne_far sc hN

theorem absq_scaled {x sc P q : Rat} (hP : 0 < P) (hsc : sc * P = q) :
    absq (x * P - q) = absq (x - sc) * P := by
  rw [← absq_mul_pos _ hP]; congr 1; grind

theorem mul_right_cancel_pos {a b P : Rat} (hP : 0 < P) (h : a * P = b * P) : a = b :=
  Rat.le_antisymm (Rat.le_of_mul_le_mul_right (rat_le_of_eq h) hP)
    (Rat.le_of_mul_le_mul_right (rat_ge_of_eq h) hP)

theorem rsig_nearest {q : Rat} (hq : 0 < q) {m' : Nat} {e' : Int} (hc : CanonME m' e') :
    absq ((rsig q : Rat) * pow2 (rexp q) - q) ≤ absq ((m' : Rat) * pow2 e' - q) ∧
    ((m' : Rat) * pow2 e' ≠ (rsig q : Rat) * pow2 (rexp q) →
      absq ((rsig q : Rat) * pow2 (rexp q) - q) = absq ((m' : Rat) * pow2 e' - q) →
      rsig q % 2 = 0) := by
  have hP := pow2_pos (rexp q)
  have hsc := scaled_mul (q := q)
  have ⟨cm, ce1, ce2⟩ := CanonME.lt hc
  rw [rsig_eq]
  by_cases hE : rexp q ≤ e'
  · obtain ⟨k, hk⟩ : ∃ k : Nat, e' = rexp q + (k : Int) := ⟨(e' - rexp q).toNat, by omega⟩
    have hv : (m' : Rat) * pow2 e' = (((m' * 2 ^ k : Nat) : Int) : Rat) * pow2 (rexp q) := by
      rw [Rat.intCast_natCast, ← nat_mul_pow2, hk, pow2_add]; grind
    rw [hv, absq_scaled hP hsc, absq_scaled hP hsc]
    refine ⟨Rat.mul_le_mul_of_nonneg_right (rne_nearest _ _) (Rat.le_of_lt hP), ?_⟩
    intro hne heq
    apply rne_tie' _ (N := ((m' * 2 ^ k : Nat) : Int)) _ (mul_right_cancel_pos hP heq)
    intro h; rw [h] at hne; exact hne rfl
  · have hge := rexp_ge q
    have hn : -1074 ≤ ilog2 q - 52 := by
      unfold rexp at hE; split at hE <;> omega
    have h52 := scaled_ge hq hn
    have hnear := rne_nearest (q / pow2 (rexp q)) 4503599627370496
    have hM' : (m' : Rat) < pow2 53 := by
      rw [pow2_53]; exact_mod_cast cm
    have a : (m' : Rat) * pow2 e' < pow2 53 * pow2 e' := Rat.mul_lt_mul_of_pos_right hM' (pow2_pos e')
    have b : pow2 (53 + e') ≤ pow2 (52 + rexp q) := pow2_le_pow2 (by omega)
    rw [pow2_add 53, pow2_add 52, pow2_52] at b
    have hnear' := Rat.mul_le_mul_of_nonneg_right hnear (Rat.le_of_lt hP)
    rw [← absq_scaled hP hsc, ← absq_scaled hP hsc] at hnear'
    simp only [Rat.intCast_ofNat] at hnear'
    have h52' := Rat.mul_le_mul_of_nonneg_right h52 (Rat.le_of_lt hP)
    rw [hsc] at h52'
    generalize (m' : Rat) * pow2 e' = v' at *
    generalize ((rne (q / pow2 (rexp q)) : Int) : Rat) * pow2 (rexp q) = v at *
    have e1 : absq (4503599627370496 * pow2 (rexp q) - q) = q - 4503599627370496 * pow2 (rexp q) := by
      unfold absq; split <;> grind
    have e2 : absq (v' - q) = q - v' := by
      unfold absq; split <;> grind
    rw [e1] at hnear'; rw [e2]
    constructor
    · grind
    · intro _ heq; exfalso; grind

theorem roundPos_some_val {q : Rat} (hq : 0 < q) {m : Nat} {e : Int}
    (h : roundPos q = some (m, e)) :
    (m : Rat) * pow2 e = (rsig q : Rat) * pow2 (rexp q) ∧ (rsig q % 2 = 0 → m % 2 = 0) := by
  rw [roundPos_eq hq] at h
  have ⟨b1, b2⟩ := rsig_bounds hq
  split at h
  · rename_i hr
    split at h
    · cases h
    · simp only [Option.some.injEq, Prod.mk.injEq] at h
      obtain ⟨rfl, rfl⟩ := h
      refine ⟨?_, fun _ => by decide⟩
      rw [hr, pow2_succ]
      simp only [Rat.intCast_ofNat, Rat.natCast_ofNat]
      grind
  · split at h
    · cases h
    · simp only [Option.some.injEq, Prod.mk.injEq] at h
      obtain ⟨rfl, rfl⟩ := h
      have hcast : (((rsig q).toNat : Nat) : Rat) = ((rsig q : Int) : Rat) := by
        rw [← Rat.intCast_natCast]; congr 1; omega
      exact ⟨by rw [hcast], fun _ => by omega⟩

/-- **Correct rounding, nearest**: no canonical double is strictly nearer to `q` than the result. -/
theorem roundPos_nearest {q : Rat} (hq : 0 ≤ q) {m : Nat} {e : Int} (h : roundPos q = some (m, e))
    {m' : Nat} {e' : Int} (hc : CanonME m' e') :
    absq ((m : Rat) * pow2 e - q) ≤ absq ((m' : Rat) * pow2 e' - q) := by
  by_cases h0 : q ≤ 0
  · rw [roundPos_zero h0] at h
    have hq0 : q = 0 := Rat.le_antisymm h0 hq
    simp only [Option.some.injEq, Prod.mk.injEq] at h
    obtain ⟨rfl, rfl⟩ := h
    have : absq (((0 : Nat) : Rat) * pow2 (-1074) - q) = 0 := by
      rw [hq0, show ((0 : Nat) : Rat) = 0 from rfl, Rat.zero_mul]
      unfold absq; split <;> grind
    rw [this]; exact absq_nonneg _
  · have hpos : 0 < q := by grind
    rw [(roundPos_some_val hpos h).1]
    exact (rsig_nearest hpos hc).1

/-- **Correct rounding, ties to even**: if some other canonical value is exactly as near, the
result's significand is even. -/
theorem roundPos_ties_even {q : Rat} {m : Nat} {e : Int}
    (h : roundPos q = some (m, e)) {m' : Nat} {e' : Int} (hc : CanonME m' e')
    (hne : (m' : Rat) * pow2 e' ≠ (m : Rat) * pow2 e)
    (heq : absq ((m : Rat) * pow2 e - q) = absq ((m' : Rat) * pow2 e' - q)) :
    m % 2 = 0 := by
  by_cases h0 : q ≤ 0
  · rw [roundPos_zero h0] at h
    simp only [Option.some.injEq, Prod.mk.injEq] at h
    obtain ⟨rfl, rfl⟩ := h
    rfl
  · have hpos : 0 < q := by grind
    have ⟨hv, hev⟩ := roundPos_some_val hpos h
    rw [hv] at hne heq
    exact hev ((rsig_nearest hpos hc).2 hne heq)

theorem intCast_le_of_le {a b : Int} (h : a ≤ b) : (a : Rat) ≤ (b : Rat) := Rat.intCast_le_intCast.2 h

/-- **Overflow threshold, converse**: at or above `2^1024 − 2^970` the result is `none` (the tie at
the threshold itself goes to the even neighbour `2^1024`, i.e. to infinity). -/
theorem roundPos_overflow {q : Rat} (h : pow2 1024 - pow2 970 ≤ q) : roundPos q = none := by
  have a1 : pow2 1024 = 9007199254740992 * pow2 971 := by
    rw [show (1024 : Int) = 53 + 971 from rfl, pow2_add, pow2_53]
  have a2 : pow2 970 = pow2 971 * (1/2) := pow2_pred 971
  have a3 : pow2 971 = 2 * pow2 970 := pow2_succ 970
  have p970 := pow2_pos 970
  have hpos : 0 < q := by grind
  have hP := pow2_pos (rexp q)
  have hsc := scaled_mul (q := q)
  have ⟨_, e2⟩ := rne_err (q / pow2 (rexp q))
  have hnear := rne_near (q / pow2 (rexp q))
  have hscpos : 0 < q / pow2 (rexp q) := by
    rw [Rat.div_def]; exact Rat.mul_pos hpos (Rat.inv_pos.2 hP)
  have htie := rne_tie (q / pow2 (rexp q))
  rw [roundPos_eq hpos]
  rw [rsig_eq]
  generalize hsc' : q / pow2 (rexp q) = sc at *
  split
  · rename_i hr
    rw [if_pos]
    apply Decidable.byContradiction; intro hE
    have hp : pow2 (rexp q) ≤ pow2 970 := pow2_le_pow2 (by omega)
    rw [hr] at e2
    simp only [Rat.intCast_ofNat] at e2
    have hm : sc ≤ (9007199254740992 + 1/2 : Rat) := by grind
    have := mul_le_mul' hm hp (Rat.le_of_lt hscpos) (Rat.le_of_lt p970)
    grind
  · rename_i hr
    rw [if_pos]
    apply Decidable.byContradiction; intro hE
    have hp : pow2 (rexp q) ≤ pow2 971 := pow2_le_pow2 (by omega)
    have hrb : rne sc ≤ 9007199254740991 := by
      have := rne_le (sc := sc) (b := 9007199254740992) (by
        have := scaled_lt hpos; rw [hsc'] at this
        simpa using Rat.le_of_lt this)
      omega
    have hrb' := intCast_le_of_le hrb
    simp only [Rat.intCast_ofNat] at hrb'
    have hm : sc ≤ (9007199254740991 + 1/2 : Rat) := by grind
    -- `q = sc·P ≤ (2^53 − 1/2)·2^971 = threshold ≤ q`, so everything is tight
    have hPeq : pow2 (rexp q) = pow2 971 := by
      apply Rat.le_antisymm hp
      apply Rat.not_lt.1; intro hlt
      have x := Rat.mul_le_mul_of_nonneg_right hm (Rat.le_of_lt hP)
      have y := Rat.mul_lt_mul_of_pos_left hlt (show (0 : Rat) < 9007199254740991 + 1/2 by grind)
      grind
    rw [hPeq] at hsc
    have hsceq : sc = 9007199254740991 + 1/2 := by
      apply Rat.le_antisymm hm
      apply Rat.le_of_mul_le_mul_right (c := pow2 971) _ (pow2_pos 971)
      grind
    have hreq : rne sc = 9007199254740991 := by
      have : (9007199254740991 : Int) ≤ rne sc := le_rne (by rw [hsceq]; simp; grind)
      omega
    have : rne sc % 2 = 0 := by
      apply htie
      rw [hreq, hsceq]; unfold absq
      simp only [Rat.intCast_ofNat]
      split <;> grind
    omega

theorem roundPos_eq_none_iff {q : Rat} : roundPos q = none ↔ pow2 1024 - pow2 970 ≤ q :=
  ⟨roundPos_none, roundPos_overflow⟩

theorem absq_def' (x : Rat) : (x < 0 ∧ absq x = -x) ∨ (0 ≤ x ∧ absq x = x) := by
  unfold absq; split <;> grind

theorem sign_nearest {a b c v q y : Rat} (hc : 0 ≤ c)
    (hv : v = if q < 0 then -a else a) (hqb : b = absq q) (hy : y = c ∨ y = -c)
    (N : absq (a - b) ≤ absq (c - b)) : absq (v - q) ≤ absq (y - q) := by
  rcases absq_def' (a - b) with ⟨_, h1⟩ | ⟨_, h1⟩ <;>
  rcases absq_def' (c - b) with ⟨_, h2⟩ | ⟨_, h2⟩ <;>
  rcases absq_def' q with ⟨_, h3⟩ | ⟨_, h3⟩ <;>
  rcases absq_def' (v - q) with ⟨_, h4⟩ | ⟨_, h4⟩ <;>
  rcases absq_def' (y - q) with ⟨_, h5⟩ | ⟨_, h5⟩ <;>
  rcases hy with hy | hy <;>
  rw [h4, h5] <;> rw [h1, h2] at N <;> rw [h3] at hqb <;> subst hv hy hqb <;>
  split <;> grind

theorem sign_tie {a b c v q y : Rat} (ha : 0 ≤ a) (hc : 0 ≤ c)
    (hv : v = if q < 0 then -a else a) (hqb : b = absq q) (hy : y = c ∨ y = -c)
    (N : absq (a - b) ≤ absq (c - b)) (hne : y ≠ v) (heq : absq (v - q) = absq (y - q)) :
    (c ≠ a ∧ absq (a - b) = absq (c - b)) ∨ b = 0 := by
  have le1 := rat_le_of_eq heq
  have le2 := rat_ge_of_eq heq
  rcases absq_def' (a - b) with ⟨_, h1⟩ | ⟨_, h1⟩ <;>
  rcases absq_def' (c - b) with ⟨_, h2⟩ | ⟨_, h2⟩ <;>
  rcases absq_def' q with ⟨_, h3⟩ | ⟨_, h3⟩ <;>
  rcases absq_def' (v - q) with ⟨_, h4⟩ | ⟨_, h4⟩ <;>
  rcases absq_def' (y - q) with ⟨_, h5⟩ | ⟨_, h5⟩ <;>
  rcases hy with hy | hy <;>
  rw [h4, h5] at le1 le2 <;> rw [h1, h2] at N ⊢ <;> rw [h3] at hqb <;> subst hv hy hqb <;>
  split at * <;> grind

theorem ofRatSigned_cases (z : Bool) (q : Rat) :
    (roundPos (absq q) = none ∧ ofRatSigned z q = .inf (decide (q < 0))) ∨
    (∃ m e, roundPos (absq q) = some (m, e) ∧ ∃ s, ofRatSigned z q = .fin s m e ∧
      (F64.fin s m e).toRat = if q < 0 then -((m : Rat) * pow2 e) else (m : Rat) * pow2 e) := by
  unfold ofRatSigned
  rw [show (if q < 0 then -q else q) = absq q from rfl]
  cases hr : roundPos (absq q) with
  | none => exact Or.inl ⟨rfl, rfl⟩
  | some me =>
    obtain ⟨m, e⟩ := me
    right
    cases m with
    | zero =>
      have := roundPos_zero_exp (absq_nonneg q) hr
      subst this
      refine ⟨0, -1074, rfl, z, rfl, ?_⟩
      rw [toRat_fin, show ((0 : Nat) : Rat) = 0 from rfl]
      split <;> split <;> simp
    | succ k =>
      refine ⟨k + 1, e, rfl, decide (q < 0), rfl, ?_⟩
      rw [toRat_fin]; simp

theorem toRat_mag (y : F64) : ∃ (m : Nat) (e : Int),
    (y.Canon → CanonME m e) ∧ (y.toRat = (m : Rat) * pow2 e ∨ y.toRat = -((m : Rat) * pow2 e)) := by
  cases y with
  | fin s m e =>
    refine ⟨m, e, fun h => h, ?_⟩
    rw [toRat_fin]; cases s <;> simp
  | inf s => exact ⟨0, -1074, fun _ => Or.inl ⟨rfl, rfl⟩, Or.inl (by simp [toRat])⟩
  | nan => exact ⟨0, -1074, fun _ => Or.inl ⟨rfl, rfl⟩, Or.inl (by simp [toRat])⟩

/-- **`ofRatSigned` rounds to nearest**: a finite result is at least as near to the exact value as
any canonical double. -/
theorem ofRatSigned_nearest (z : Bool) (q : Rat) {s : Bool} {m : Nat} {e : Int}
    (h : ofRatSigned z q = .fin s m e) (y : F64) (hy : y.Canon) :
    absq ((F64.fin s m e).toRat - q) ≤ absq (y.toRat - q) := by
  rcases ofRatSigned_cases z q with ⟨_, h'⟩ | ⟨m₁, e₁, hr, s₁, h', hv⟩
  · rw [h'] at h; cases h
  · rw [h'] at h; cases h
    obtain ⟨m', e', hc, hyv⟩ := toRat_mag y
    exact sign_nearest (mag_nonneg m' e') hv rfl hyv
      (roundPos_nearest (absq_nonneg q) hr (hc hy))

/-- **… ties to even**: if another canonical double is exactly as near, the result's significand is
even. -/
theorem ofRatSigned_ties_even (z : Bool) (q : Rat) {s : Bool} {m : Nat} {e : Int}
    (h : ofRatSigned z q = .fin s m e) (y : F64) (hy : y.Canon)
    (hne : y.toRat ≠ (F64.fin s m e).toRat)
    (heq : absq ((F64.fin s m e).toRat - q) = absq (y.toRat - q)) : m % 2 = 0 := by
  rcases ofRatSigned_cases z q with ⟨_, h'⟩ | ⟨m₁, e₁, hr, s₁, h', hv⟩
  · rw [h'] at h; cases h
  · rw [h'] at h; cases h
    obtain ⟨m', e', hc, hyv⟩ := toRat_mag y
    have N := roundPos_nearest (absq_nonneg q) hr (hc hy)
    rcases sign_tie (mag_nonneg m e) (mag_nonneg m' e') hv rfl hyv N hne heq with ⟨t1, t2⟩ | hb
    · exact roundPos_ties_even hr (hc hy) t1 t2
    · rw [hb, roundPos_zero Rat.le_refl] at hr
      cases hr; rfl

/-- **… and overflows exactly from the IEEE threshold on.** -/
theorem ofRatSigned_inf_iff (z : Bool) (q : Rat) :
    ofRatSigned z q = .inf (decide (q < 0)) ↔ pow2 1024 - pow2 970 ≤ absq q := by
  rw [← roundPos_eq_none_iff]
  rcases ofRatSigned_cases z q with ⟨h1, h2⟩ | ⟨m, e, hr, s, h', _⟩
  · simp [h1, h2]
  · simp [hr, h']

theorem ofRatSigned_finite_iff (z : Bool) (q : Rat) :
    (ofRatSigned z q).isFinite = true ↔ absq q < pow2 1024 - pow2 970 := by
  rw [← Rat.not_le, ← roundPos_eq_none_iff]
  rcases ofRatSigned_cases z q with ⟨h1, h2⟩ | ⟨m, e, hr, s, h', _⟩
  · simp [h1, h2, isFinite]
  · simp [hr, h', isFinite]

/-- `r` is *the* IEEE-754 round-to-nearest-even image of the exact value `q` (up to the sign of a
zero result): correctly rounded in the half-ulp sense, nearest among all canonical doubles, with ties
resolved to the even significand, and infinite exactly when `|q| ≥ 2^1024 − 2^970`. -/
def IEEERounded (q : Rat) (r : F64) : Prop :=
  CorrectlyRounded q r ∧
  (∀ s m e, r = .fin s m e → ∀ y : F64, y.Canon →
      absq ((F64.fin s m e).toRat - q) ≤ absq (y.toRat - q) ∧
      (y.toRat ≠ (F64.fin s m e).toRat →
        absq ((F64.fin s m e).toRat - q) = absq (y.toRat - q) → m % 2 = 0)) ∧
  (r.isFinite = true ↔ absq q < pow2 1024 - pow2 970)

theorem ofRatSigned_ieee (z : Bool) (q : Rat) : IEEERounded q (ofRatSigned z q) :=
  ⟨ofRatSigned_correct z q,
   fun _ _ _ h y hy => ⟨ofRatSigned_nearest z q h y hy, ofRatSigned_ties_even z q h y hy⟩,
   ofRatSigned_finite_iff z q⟩

theorem ofRat_ieee (q : Rat) : IEEERounded q (ofRat q) := by
  rw [ofRat_eq_ofRatSigned]; exact ofRatSigned_ieee _ q

theorem ofInt_ieee (n : Int) : IEEERounded (n : Rat) (ofInt n) := ofRat_ieee _
theorem ofNat_ieee (n : Nat) : IEEERounded (n : Rat) (ofNat n) := ofRat_ieee _

theorem add_eq_ofRatSigned (a b : F64) (ha : a.isFinite) (hb : b.isFinite) :
    add a b = ofRatSigned (a.isNeg && b.isNeg) (a.toRat + b.toRat) := by
  cases a <;> cases b <;> simp [isFinite] at ha hb
  rfl

theorem mul_eq_ofRatSigned (a b : F64) (ha : a.isFinite) (hb : b.isFinite) :
    mul a b = ofRatSigned (a.isNeg != b.isNeg) (a.toRat * b.toRat) := by
  cases a <;> cases b <;> simp [isFinite] at ha hb
  rfl

theorem div_eq_ofRatSigned (a b : F64) (ha : a.isFinite) (hb : b.isFinite) (hz : b.isZero = false) :
    div a b = ofRatSigned (a.isNeg != b.isNeg) (a.toRat / b.toRat) := by
  cases a <;> cases b <;> simp [isFinite] at ha hb
  simp only [div, hz]
  rfl

/-- **`+` is exact-then-round-once** -/
theorem add_ieee (a b : F64) (ha : a.isFinite) (hb : b.isFinite) :
    IEEERounded (a.toRat + b.toRat) (add a b) := by
  rw [add_eq_ofRatSigned a b ha hb]; exact ofRatSigned_ieee _ _

/-- **`-` is exact-then-round-once** -/
theorem sub_ieee (a b : F64) (ha : a.isFinite) (hb : b.isFinite) :
    IEEERounded (a.toRat - b.toRat) (sub a b) := by
  have := add_ieee a (neg b) ha (by rw [(neg_spec b).1]; exact hb)
  rw [(neg_spec b).2, ← Rat.sub_eq_add_neg] at this
  exact this

/-- **`*` is exact-then-round-once** -/
theorem mul_ieee (a b : F64) (ha : a.isFinite) (hb : b.isFinite) :
    IEEERounded (a.toRat * b.toRat) (mul a b) := by
  rw [mul_eq_ofRatSigned a b ha hb]; exact ofRatSigned_ieee _ _

/-- **`/` (non-zero divisor) is exact-then-round-once** -/
theorem div_ieee (a b : F64) (ha : a.isFinite) (hb : b.isFinite) (hz : b.isZero = false) :
    IEEERounded (a.toRat / b.toRat) (div a b) := by
  rw [div_eq_ofRatSigned a b ha hb hz]; exact ofRatSigned_ieee _ _

/-! ### round trips, uniqueness of canonical forms, comparisons -/

/-- a canonical pair is determined by its value -/
theorem canonME_unique {m m' : Nat} {e e' : Int} (h : CanonME m e) (h' : CanonME m' e')
    (hv : (m : Rat) * pow2 e = (m' : Rat) * pow2 e') : m = m' ∧ e = e' := by
  have a := roundPos_canon h
  have b := roundPos_canon h'
  rw [hv, b] at a
  simp only [Option.some.injEq, Prod.mk.injEq] at a
  exact ⟨a.1.symm, a.2.symm⟩

/-- rounding the value of a canonical finite double gives the double back -/
theorem ofRatSigned_toRat (s : Bool) (m : Nat) (e : Int) (hc : (F64.fin s m e).Canon) :
    ofRatSigned s (F64.fin s m e).toRat = .fin s m e := by
  have hmag := mag_nonneg m e
  have habs : absq (F64.fin s m e).toRat = (m : Rat) * pow2 e := by
    rw [toRat_fin]; unfold absq
    cases s <;> simp <;> grind
  have hr := roundPos_canon hc
  unfold ofRatSigned
  rw [show (if (F64.fin s m e).toRat < 0 then -(F64.fin s m e).toRat else (F64.fin s m e).toRat)
      = absq (F64.fin s m e).toRat from rfl, habs, hr]
  cases m with
  | zero =>
    have : e = -1074 := by
      rcases hc with ⟨_, h⟩ | ⟨_, h⟩ | ⟨h, _⟩
      · exact h
      · exact h
      · simp at h
    subst this; rfl
  | succ k =>
    have hpos : 0 < ((k + 1 : Nat) : Rat) * pow2 e :=
      Rat.mul_pos (by exact_mod_cast Nat.succ_pos k) (pow2_pos e)
    simp only [toRat_fin]
    cases s <;> simp <;> grind

theorem floor_toRat_of_nonneg_exp (s : Bool) (m : Nat) (e : Int) (he : 0 ≤ e) :
    (((F64.fin s m e).toRat.floor : Int) : Rat) = (F64.fin s m e).toRat := by
  obtain ⟨k, rfl⟩ := Int.eq_ofNat_of_zero_le he
  rw [toRat_fin, nat_mul_pow2]
  cases s
  · simp only [Bool.false_eq_true, if_false]
    rw [← Rat.intCast_natCast, Rat.floor_intCast]
  · simp only [if_true]
    rw [← Rat.intCast_natCast, ← Rat.intCast_neg, Rat.floor_intCast]

/-- a canonical double with a non-negative exponent is an integer: `floor` and `ceil` return it
unchanged (sign of zero included) -/
theorem floor_of_nonneg_exp (s : Bool) (m : Nat) (e : Int) (hc : (F64.fin s m e).Canon)
    (he : 0 ≤ e) : floor (.fin s m e) = .fin s m e := by
  simp only [floor]
  rw [floor_toRat_of_nonneg_exp s m e he]
  exact ofRatSigned_toRat s m e hc

theorem ceil_of_nonneg_exp (s : Bool) (m : Nat) (e : Int) (hc : (F64.fin s m e).Canon)
    (he : 0 ≤ e) : ceil (.fin s m e) = .fin s m e := by
  simp only [ceil]
  have h1 := (neg_spec (.fin s m e)).2
  simp only [neg] at h1
  rw [← h1, Rat.intCast_neg, floor_toRat_of_nonneg_exp (!s) m e he, h1, Rat.neg_neg]
  exact ofRatSigned_toRat s m e hc

/-- comparisons of finite doubles are comparisons of their values -/
theorem flt_spec (a b : F64) (ha : a.isFinite) (hb : b.isFinite) :
    flt a b = decide (a.toRat < b.toRat) := by
  cases a <;> cases b <;> simp [isFinite] at ha hb
  rfl

theorem feq_spec (a b : F64) (ha : a.isFinite) (hb : b.isFinite) :
    feq a b = decide (a.toRat = b.toRat) := by
  cases a <;> cases b <;> simp [isFinite] at ha hb
  rfl

theorem fle_spec (a b : F64) (ha : a.isFinite) (hb : b.isFinite) :
    fle a b = decide (a.toRat ≤ b.toRat) := by
  unfold fle
  rw [flt_spec a b ha hb, feq_spec a b ha hb]
  by_cases h : a.toRat ≤ b.toRat
  · rcases Rat.le_iff_lt_or_eq.1 h with h1 | h1 <;> simp [h, h1]
  · have h1 : ¬ a.toRat < b.toRat := fun x => h (Rat.le_of_lt x)
    have h2 : ¬ a.toRat = b.toRat := fun x => h (rat_le_of_eq x)
    simp [h, h1, h2]

/-- `avg` on small integers, strongest form: the IEEE rounding of the exact mean -/
theorem avg_ieee {xs : List F64} {ns : List Int} (h : AllInt xs ns)
    (hb : (ns.map Int.natAbs).sum ≤ 2^53) (h0 : 0 < xs.length) (hl : xs.length ≤ 2^53) :
    IEEERounded ((ns.sum : Rat) / (xs.length : Rat))
      (div (xs.foldl add zero) (ofNat xs.length)) := by
  have hs := foldl_add_isInt xs ns zero 0 isInt_zero h (by simpa using hb)
  rw [Int.zero_add] at hs
  have hn := ofNat_exact xs.length hl
  have := div_ieee _ _ hs.1 hn.1 (isZero_ofNat h0 hl)
  rw [hs.2, hn.2] at this
  exact this

end F64
end JmesVerif

open JmesVerif.F64 in
section
#print axioms abs_spec
#print axioms neg_spec
#print axioms floor_spec
#print axioms ceil_spec
#print axioms floor_of_nonneg_exp
#print axioms roundPos_canon
#print axioms roundPos_repr
#print axioms roundPos_some
#print axioms roundPos_nearest
#print axioms roundPos_ties_even
#print axioms roundPos_eq_none_iff
#print axioms ofRat_ieee
#print axioms ofRatSigned_ieee
#print axioms ofRat_exact
#print axioms ofRatSigned_toRat
#print axioms add_ieee
#print axioms sub_ieee
#print axioms mul_ieee
#print axioms div_ieee
#print axioms add_exact
#print axioms ofNat_exact
#print axioms ofInt_exact
#print axioms foldl_add_isInt
#print axioms avg_correct
#print axioms avg_exact
#print axioms avg_ieee
#print axioms canonME_unique
#print axioms fle_spec
end
