import JmesVerif.Model.Interp
import JmesVerif.Lemmas.InterpMono
import JmesVerif.Lemmas.InterpOmega
import JmesVerif.Lemmas.InterpOmegaParse
import JmesVerif.Lemmas.InterpTerm
/-!
Fuel facts about the interpreter model (`Model/Interp.lean`).

* Part 1 (`Lemmas/InterpMono.lean`): `interp_mono` and the analogous `_mono` lemma of every function
  of the mutual block — a result other than the out-of-fuel error is stable under more fuel.
* Part 2 (`Lemmas/InterpDisc.lean`, `InterpJson.lean`, `InterpSafe.lean`, `InterpTerm.lean`, this
  file): a *disciplined* tree (`Ast.Disciplined`) evaluated on JSON data yields JSON data
  (`interp_json`) and never diverges (`interp_terminates`).  The fuel needed is **not** bounded by a
  function of the size of the tree alone (`no_fuel_bound_in_size`): the loops over the elements of
  an array (`projectEach`, `mapExpref`, `keysTyped`) consume one unit of fuel per element.
* Part 3 (`Lemmas/InterpOmega.lean`): `omega_diverges` — an expression reference that becomes data
  can apply itself; `omegaAt_diverges` is the same for arbitrary offsets in the tree, and
  `omegaSrc_diverges` (`Lemmas/InterpOmegaParse.lean`) for the tree the model parser produces from the
  concrete syntax `to_array(not_null(&map(@[0], [@]))) | map(@[0], [@])`.
-/
namespace JmesVerif

/-- Termination for any registry in which every name is bound to a builtin whose expref-typed
parameters cover the positions `Ast.Disciplined` allows (`RegOK`), with the limit value. -/
theorem interp_converges (rt : Registry) (hrt : RegOK rt) (a : Ast) (ha : a.Disciplined = true)
    (d : Val) (hd : d.isJson = true) (off : Nat) :
    ∃ n r, r ≠ .error .fuel ∧ (∀ v off', r = .ok (v, off') → v.isJson = true) ∧
      ∀ fuel, n ≤ fuel → interp rt fuel d a off = r := by
  obtain ⟨n, hn⟩ := term_ast rt hrt a.size a (Nat.le_refl _) ha d hd off
  refine ⟨n, interp rt n d a off, hn, ?_, ?_⟩
  · intro v off' h
    exact interp_json rt hrt n d a off v off' ha hd h
  · intro fuel hf
    exact interp_mono rt n d a off _ rfl hn fuel hf

/-- Part 2: a disciplined tree on JSON data does not run out of fuel, given enough of it.
(No bound on `n` in terms of `a.size` alone exists, see `no_fuel_bound_in_size`.) -/
theorem interp_terminates (a : Ast) (ha : a.Disciplined = true) (d : Val) (hd : d.isJson = true) (off : Nat) :
    ∃ n, ∀ fuel, n ≤ fuel → interp Registry.default fuel d a off ≠ .error .fuel := by
  obtain ⟨n, r, hr, _, h⟩ := interp_converges Registry.default regOK_default a ha d hd off
  exact ⟨n, fun fuel hf => by rw [h fuel hf]; exact hr⟩

/-- the result of a terminating run is JSON again -/
theorem interp_terminates_json (a : Ast) (ha : a.Disciplined = true) (d : Val) (hd : d.isJson = true)
    (off fuel : Nat) (v : Val) (off' : Nat) (h : interp Registry.default fuel d a off = .ok (v, off')) :
    v.isJson = true :=
  interp_json Registry.default regOK_default fuel d a off v off' ha hd h

theorem projectEach_short (rt : Registry) : ∀ (n : Nat) (xs : List Val) (off : Nat), n ≤ xs.length →
    projectEach rt n xs (.identity 0) off = .error .fuel := by
  intro n
  induction n with
  | zero => intro xs off _; simp [projectEach]
  | succ n ih =>
    intro xs off h
    cases xs with
    | nil => simp at h
    | cons x rest =>
      simp only [List.length_cons, Nat.add_le_add_iff_right] at h
      simp only [projectEach]
      cases n with
      | zero => simp [interp]
      | succ m =>
        simp only [interp]
        have hr : m + 1 ≤ rest.length := h
        rw [ih rest off hr]

/-- the fuel `[*]` (`Projection(Identity, Identity)`, 3 nodes, disciplined) needs grows with the
data: no bound in terms of the tree alone is sufficient for all JSON data -/
theorem no_fuel_bound_in_size : ∃ a : Ast, a.Disciplined = true ∧ ∀ N : Nat, ∃ d : Val, d.isJson = true ∧
    interp Registry.default N d a 0 = .error .fuel := by
  refine ⟨.projection 0 (.identity 0) (.identity 0), by simp [Ast.Disciplined], ?_⟩
  intro N
  refine ⟨.arr (List.replicate N .null), by simp, ?_⟩
  cases N with
  | zero => simp [interp]
  | succ n =>
    simp only [interp]
    cases n with
    | zero => simp [interp]
    | succ m =>
      simp only [interp]
      rw [projectEach_short _ _ _ _ (by simp)]

/-- sanity: disciplined trees in the sense intended, and Ω is not one -/
example : (Ast.function 0 "sort_by" [.field 1 "a", .expref 2 (.field 3 "k")]).Disciplined = true := by
  simp [Ast.Disciplined, Ast.discArgs, exprefOK]
example : (Ast.function 0 "map" [.expref 2 (.function 3 "max_by" [.identity 4, .expref 5 (.field 6 "k")]),
    .field 1 "a"]).Disciplined = true := by
  simp [Ast.Disciplined, Ast.discArgs, exprefOK]
example : (Ast.function 0 "to_array" [.expref 2 (.field 3 "k")]).Disciplined = false := by
  simp [Ast.Disciplined, Ast.discArgs, exprefOK]
example : omega.Disciplined = false := by
  simp [omega, omegaBody, Ast.Disciplined, Ast.discArgs, exprefOK]

end JmesVerif

#print axioms JmesVerif.interp_mono
#print axioms JmesVerif.interp_terminates
#print axioms JmesVerif.omega_diverges
#print axioms JmesVerif.interp_converges
#print axioms JmesVerif.no_fuel_bound_in_size
#print axioms JmesVerif.omegaSrc_diverges
