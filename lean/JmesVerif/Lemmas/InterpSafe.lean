import JmesVerif.Lemmas.InterpJson
/-!
Evaluating a disciplined tree on JSON data yields JSON data (no expression reference ever becomes
data), for any fuel.
-/
namespace JmesVerif

/-- the expref-typed parameter positions of a builtin -/
def Builtin.slot : Builtin → Nat → Bool
  | .map, i => i == 0
  | .sortBy, i => i == 1
  | .maxBy, i => i == 1
  | .minBy, i => i == 1
  | _, _ => false

/-- an argument list (positions `i, i+1, …`): every value is JSON, or an expression reference
satisfying `Q` in a position allowed by `s` -/
def ArgsQ (Q : Ast → Prop) (s : Nat → Bool) : Nat → List Val → Prop
  | _, [] => True
  | i, v :: vs => (v.isJson = true ∨ ∃ a, v = .expref a ∧ s i = true ∧ Q a) ∧ ArgsQ Q s (i + 1) vs

theorem ArgsQ.mono {Q Q' : Ast → Prop} {s s' : Nat → Bool} (hQ : ∀ a, Q a → Q' a)
    (hs : ∀ i, s i = true → s' i = true) : ∀ (vs : List Val) (i : Nat), ArgsQ Q s i vs → ArgsQ Q' s' i vs := by
  intro vs
  induction vs with
  | nil => intro i _; trivial
  | cons v vs ih =>
    intro i h
    refine ⟨?_, ih _ h.2⟩
    rcases h.1 with h1 | ⟨a, h1, h2, h3⟩
    · exact .inl h1
    · exact .inr ⟨a, h1, hs _ h2, hQ _ h3⟩

theorem ArgsQ.allJson {Q : Ast → Prop} {s : Nat → Bool} (hs : ∀ i, s i = false) :
    ∀ (vs : List Val) (i : Nat), ArgsQ Q s i vs → ∀ v ∈ vs, v.isJson = true := by
  intro vs
  induction vs with
  | nil => intro i _ v hv; simp at hv
  | cons w vs ih =>
    intro i h v hv
    simp only [List.mem_cons] at hv
    rcases hv with rfl | hv
    · rcases h.1 with h1 | ⟨a, _, h2, _⟩
      · exact h1
      · simp [hs] at h2
    · exact ih _ h.2 v hv

theorem slot_of_not_usesExpref (b : Builtin) (h : b.usesExpref = false) (i : Nat) : b.slot i = false := by
  cases b <;> simp [Builtin.usesExpref] at h <;> simp [Builtin.slot]

/-- every name is bound to a builtin whose expref-typed positions include those `Ast.Disciplined`
allows for that name -/
def RegOK (rt : Registry) : Prop :=
  ∀ name f, rt.get name = some f → ∃ b, f = .builtin b ∧ ∀ i, exprefOK name i = true → b.slot i = true

structure JsonStep (rt : Registry) (n : Nat) : Prop where
  j_interp : ∀ d a off v off', a.Disciplined = true → d.isJson = true →
    interp rt n d a off = .ok (v, off') → v.isJson = true
  j_projectEach : ∀ xs a off ys off', a.Disciplined = true → (∀ x ∈ xs, x.isJson = true) →
    projectEach rt n xs a off = .ok (ys, off') → ∀ y ∈ ys, y.isJson = true
  j_interpAll : ∀ d es off vs off', Ast.discList es = true → d.isJson = true →
    interpAll rt n d es off = .ok (vs, off') → ∀ v ∈ vs, v.isJson = true
  j_interpArgs : ∀ (Q : Ast → Prop) name i d es off vs off', Ast.discArgs name i es = true →
    (∀ o a, Ast.expref o a ∈ es → a.Disciplined = true → Q a) → d.isJson = true →
    interpAll rt n d es off = .ok (vs, off') → ArgsQ Q (exprefOK name) i vs
  j_interpKVs : ∀ d kvs acc off m off', Ast.discKVs kvs = true → d.isJson = true →
    (∀ p ∈ acc, p.2.isJson = true) →
    interpKVs rt n d kvs acc off = .ok (m, off') → ∀ p ∈ m, p.2.isJson = true
  j_mapExpref : ∀ xs a off ys off', a.Disciplined = true → (∀ x ∈ xs, x.isJson = true) →
    mapExpref rt n xs a off = .ok (ys, off') → ∀ y ∈ ys, y.isJson = true
  j_callFn : ∀ b vs off v off', ArgsQ (fun a => a.Disciplined = true) b.slot 0 vs →
    callFn rt n (.builtin b) vs off = .ok (v, off') → v.isJson = true

theorem JsonStep.zero (rt : Registry) : JsonStep rt 0 := by
  constructor <;> intros <;> simp_all [JmesVerif.interp, JmesVerif.projectEach, JmesVerif.interpAll,
    JmesVerif.interpKVs, JmesVerif.mapExpref, JmesVerif.callFn]

theorem projectEach_jstep (rt : Registry) (n : Nat) (ih : JsonStep rt n) :
    ∀ xs a off ys off', a.Disciplined = true → (∀ x ∈ xs, x.isJson = true) →
    projectEach rt (n+1) xs a off = .ok (ys, off') → ∀ y ∈ ys, y.isJson = true := by
  intro xs a off ys off' ha hx h
  rw [projectEach.eq_def] at h
  simp only at h
  repeat' (split at h)
  all_goals (try (simp at h; done))
  all_goals (try rw [List.forall_mem_cons] at hx)
  · simp at h; obtain ⟨rfl, rfl⟩ := h; simp
  all_goals
    have hl := ih.j_interp _ _ _ _ _ ha hx.1 (by assumption)
    have hr := ih.j_projectEach _ _ _ _ _ ha hx.2 (by assumption)
    simp at h; obtain ⟨rfl, rfl⟩ := h; simp_all

theorem mapExpref_jstep (rt : Registry) (n : Nat) (ih : JsonStep rt n) :
    ∀ xs a off ys off', a.Disciplined = true → (∀ x ∈ xs, x.isJson = true) →
    mapExpref rt (n+1) xs a off = .ok (ys, off') → ∀ y ∈ ys, y.isJson = true := by
  intro xs a off ys off' ha hx h
  rw [mapExpref.eq_def] at h
  simp only at h
  repeat' (split at h)
  all_goals (try (simp at h; done))
  all_goals (try rw [List.forall_mem_cons] at hx)
  · simp at h; obtain ⟨rfl, rfl⟩ := h; simp
  all_goals
    have hl := ih.j_interp _ _ _ _ _ ha hx.1 (by assumption)
    have hr := ih.j_mapExpref _ _ _ _ _ ha hx.2 (by assumption)
    simp at h; obtain ⟨rfl, rfl⟩ := h; simp_all

theorem interpAll_jstep (rt : Registry) (n : Nat) (ih : JsonStep rt n) :
    ∀ d es off vs off', Ast.discList es = true → d.isJson = true →
    interpAll rt (n+1) d es off = .ok (vs, off') → ∀ v ∈ vs, v.isJson = true := by
  intro d es off vs off' he hd h
  rw [interpAll.eq_def] at h
  simp only at h
  repeat' (split at h)
  all_goals (try (simp at h; done))
  · simp at h; obtain ⟨rfl, rfl⟩ := h; simp
  all_goals
    simp only [Ast.discList, Bool.and_eq_true] at he
    have hl := ih.j_interp _ _ _ _ _ he.1 hd (by assumption)
    have hr := ih.j_interpAll _ _ _ _ _ he.2 hd (by assumption)
    simp at h; obtain ⟨rfl, rfl⟩ := h; simp_all

theorem interpKVs_jstep (rt : Registry) (n : Nat) (ih : JsonStep rt n) :
    ∀ d kvs acc off m off', Ast.discKVs kvs = true → d.isJson = true →
    (∀ p ∈ acc, p.2.isJson = true) →
    interpKVs rt (n+1) d kvs acc off = .ok (m, off') → ∀ p ∈ m, p.2.isJson = true := by
  intro d kvs acc off m off' he hd hacc h
  rw [interpKVs.eq_def] at h
  simp only at h
  repeat' (split at h)
  all_goals (try (simp at h; done))
  · simp at h; obtain ⟨rfl, rfl⟩ := h; exact hacc
  all_goals
    simp only [Ast.discKVs, Bool.and_eq_true] at he
    have hl := ih.j_interp _ _ _ _ _ he.1 hd (by assumption)
    exact ih.j_interpKVs _ _ _ _ _ _ he.2 hd (insertKV_json_ij _ _ _ hl hacc) h

theorem interp_expref_eq (rt : Registry) (n : Nat) (d : Val) (o : Nat) (body : Ast) (off : Nat) (v : Val)
    (off' : Nat) (h : interp rt n d (.expref o body) off = .ok (v, off')) : v = .expref body := by
  cases n with
  | zero => simp [interp] at h
  | succ n => simp [interp] at h; exact h.1.symm

theorem interpArgs_jstep (rt : Registry) (n : Nat) (ih : JsonStep rt n) :
    ∀ (Q : Ast → Prop) name i d es off vs off', Ast.discArgs name i es = true →
    (∀ o a, Ast.expref o a ∈ es → a.Disciplined = true → Q a) → d.isJson = true →
    interpAll rt (n+1) d es off = .ok (vs, off') → ArgsQ Q (exprefOK name) i vs := by
  intro Q name i d es off vs off' he hQ hd h
  rw [interpAll.eq_def] at h
  simp only at h
  repeat' (split at h)
  all_goals (try (simp at h; done))
  · simp at h; obtain ⟨rfl, rfl⟩ := h; trivial
  · rename_i e rest _ v off1 h1 _ vs1 off2 h2
    simp at h; obtain ⟨rfl, rfl⟩ := h
    have hQ' : ∀ o a, Ast.expref o a ∈ rest → a.Disciplined = true → Q a :=
      fun o a hm => hQ o a (by simp [hm])
    by_cases hex : ∃ o body, e = .expref o body
    · obtain ⟨o, body, rfl⟩ := hex
      rw [Ast.discArgs] at he
      simp only [Bool.and_eq_true] at he
      have := interp_expref_eq _ _ _ _ _ _ _ _ h1
      subst this
      exact ⟨.inr ⟨body, rfl, he.1.1, hQ o body (by simp) he.1.2⟩,
        ih.j_interpArgs Q name (i+1) _ _ _ _ _ he.2 hQ' hd h2⟩
    · rw [Ast.discArgs] at he
      · simp only [Bool.and_eq_true] at he
        exact ⟨.inl (ih.j_interp _ _ _ _ _ he.1 hd h1),
          ih.j_interpArgs Q name (i+1) _ _ _ _ _ he.2 hQ' hd h2⟩
      · intro o body hb; exact hex ⟨o, body, hb⟩

theorem callFn_jstep (rt : Registry) (n : Nat) (ih : JsonStep rt n) :
    ∀ b vs off v off', ArgsQ (fun a => a.Disciplined = true) b.slot 0 vs →
    callFn rt (n+1) (.builtin b) vs off = .ok (v, off') → v.isJson = true := by
  intro b vs off v off' hq h
  rw [callFn.eq_def] at h
  simp only at h
  split at h
  · simp at h
  split at h
  · -- map
    simp [ArgsQ, Builtin.slot] at hq
    split at h
    · simp at h
    · simp at h; obtain ⟨rfl, rfl⟩ := h
      rw [isJson_arr]
      exact ih.j_mapExpref _ _ _ _ _ hq.1 hq.2 (by assumption)
  · -- sort_by
    simp [ArgsQ, Builtin.slot] at hq
    repeat' (split at h)
    all_goals (try (simp at h; done))
    · simp at h; obtain ⟨rfl, rfl⟩ := h; simp
    · simp only [Except.ok.injEq, Prod.mk.injEq] at h
      obtain ⟨rfl, rfl⟩ := h
      rw [isJson_arr]
      intro y hy
      exact hq.1 y (sortBy_mem _ _ y hy)
  · simp [ArgsQ, Builtin.slot] at hq
    exact byExtreme_json _ _ _ _ _ _ _ _ hq.1 h
  · simp [ArgsQ, Builtin.slot] at hq
    exact byExtreme_json _ _ _ _ _ _ _ _ hq.1 h
  · split at h
    · simp at h
    · rename_i hu
      simp only [Bool.not_eq_true] at hu
      have hj := ArgsQ.allJson (slot_of_not_usesExpref b hu) _ _ hq
      split at h
      · simp at h
      · simp at h; obtain ⟨rfl, rfl⟩ := h
        exact pure_json _ _ _ hj (by assumption)

theorem flatten_json (xs : List Val) (h : ∀ x ∈ xs, x.isJson = true) :
    ∀ y ∈ xs.flatMap (fun x => match x with | .arr ys => ys | other => [other]), y.isJson = true := by
  intro y hy
  rw [List.mem_flatMap] at hy
  obtain ⟨x, hx, hy⟩ := hy
  have hxj := h x hx
  split at hy
  · rw [isJson_arr] at hxj; exact hxj y hy
  · simp at hy; subst hy; exact hxj

macro "jprep" h:ident ha:ident : tactic => `(tactic| (
  simp only at $h:ident
  try simp only [Ast.Disciplined, Bool.and_eq_true] at $ha:ident
  repeat' (split at $h:ident)
  all_goals (try (simp at $h:ident; done))
  all_goals (try (simp only [Except.ok.injEq, Prod.mk.injEq] at $h:ident; obtain ⟨h1, h2⟩ := $h:ident; subst h1; subst h2))
  all_goals (try (simp; done))))

theorem interp_jstep (rt : Registry) (hrt : RegOK rt) (n : Nat) (ih : JsonStep rt n) :
    ∀ d a off v off', a.Disciplined = true → d.isJson = true →
    interp rt (n+1) d a off = .ok (v, off') → v.isJson = true := by
  intro d a off v off' ha hd h
  rw [interp.eq_def] at h
  cases a with
  | field o name => jprep h ha; exact getField_json _ _ hd
  | identity o => jprep h ha; exact hd
  | literal o w => jprep h ha; exact ha
  | expref o a => simp [Ast.Disciplined] at ha
  | index o i => jprep h ha; exact index_json_ij _ _ (by simpa using hd)
  | slice o st sp step =>
    jprep h ha
    rw [isJson_arr] at hd ⊢
    intro y hy
    exact hd y (sliceList_mem _ _ _ _ _ (by assumption) y hy)
  | subexpr o l r =>
    jprep h ha
    have hl := ih.j_interp _ _ _ _ _ ha.1 hd (by assumption)
    exact ih.j_interp _ _ _ _ _ ha.2 hl h
  | or o l r =>
    jprep h ha
    · exact ih.j_interp _ _ _ _ _ ha.1 hd (by assumption)
    · exact ih.j_interp _ _ _ _ _ ha.2 hd h
  | and o l r =>
    jprep h ha
    · exact ih.j_interp _ _ _ _ _ ha.1 hd (by assumption)
    · exact ih.j_interp _ _ _ _ _ ha.2 hd h
  | not o a => jprep h ha
  | condition o p t =>
    jprep h ha
    exact ih.j_interp _ _ _ _ _ ha.2 hd h
  | comparison o c l r => jprep h ha
  | objectValues o a =>
    jprep h ha
    have hl := ih.j_interp _ _ _ _ _ ha hd (by assumption)
    rw [isJson_obj] at hl
    rw [isJson_arr]
    intro y hy
    rw [List.mem_map] at hy
    obtain ⟨p, hp, rfl⟩ := hy
    exact hl p hp
  | projection o l r =>
    jprep h ha
    have hl := ih.j_interp _ _ _ _ _ ha.1 hd (by assumption)
    rw [isJson_arr] at hl ⊢
    exact ih.j_projectEach _ _ _ _ _ ha.2 hl (by assumption)
  | flatten o a =>
    jprep h ha
    have hl := ih.j_interp _ _ _ _ _ ha hd (by assumption)
    rw [isJson_arr] at hl ⊢
    exact flatten_json _ hl
  | multiList o es =>
    jprep h ha
    rw [isJson_arr]
    exact ih.j_interpAll _ _ _ _ _ ha hd (by assumption)
  | multiHash o kvs =>
    jprep h ha
    rw [isJson_obj]
    exact ih.j_interpKVs _ _ [] _ _ _ ha hd (by simp) (by assumption)
  | function o name args =>
    jprep h ha
    rename_i hargs _ f hget _ _ _ hcall
    obtain ⟨b, rfl, hs⟩ := hrt _ _ hget
    have hq := ih.j_interpArgs (fun a => a.Disciplined = true) name 0 _ _ _ _ _ ha
      (fun _ _ _ h => h) hd hargs
    exact ih.j_callFn _ _ _ _ _ (ArgsQ.mono (fun _ h => h) hs _ _ hq) hcall

theorem jsonStep_all (rt : Registry) (hrt : RegOK rt) : ∀ n, JsonStep rt n
  | 0 => JsonStep.zero rt
  | n + 1 =>
    have ih := jsonStep_all rt hrt n
    ⟨interp_jstep rt hrt n ih, projectEach_jstep rt n ih, interpAll_jstep rt n ih,
     interpArgs_jstep rt n ih, interpKVs_jstep rt n ih, mapExpref_jstep rt n ih, callFn_jstep rt n ih⟩

/-- evaluating a disciplined tree on JSON data yields JSON data -/
theorem interp_json (rt : Registry) (hrt : RegOK rt) (fuel : Nat) (d : Val) (a : Ast) (off : Nat)
    (v : Val) (off' : Nat) (ha : a.Disciplined = true) (hd : d.isJson = true)
    (h : interp rt fuel d a off = .ok (v, off')) : v.isJson = true :=
  (jsonStep_all rt hrt fuel).j_interp d a off v off' ha hd h

theorem get_map_builtin (l : List (String × Builtin)) (name : String) (f : Fn)
    (h : Registry.get (l.map fun (n, b) => (n, Fn.builtin b)) name = some f) :
    ∃ b, f = .builtin b ∧ (name, b) ∈ l := by
  induction l with
  | nil => simp [Registry.get] at h
  | cons p l ih =>
    obtain ⟨n, b⟩ := p
    simp only [List.map, Registry.get] at h
    split at h
    · simp at h; subst h; rename_i hn; subst hn; exact ⟨b, rfl, by simp⟩
    · obtain ⟨b', h1, h2⟩ := ih h
      exact ⟨b', h1, by simp [h2]⟩

theorem all_slots : ∀ p ∈ Builtin.all, ∀ i, exprefOK p.1 i = true → p.2.slot i = true := by
  simp [Builtin.all, exprefOK, Builtin.slot]

theorem regOK_default : RegOK Registry.default := by
  intro name f h
  obtain ⟨b, rfl, hb⟩ := get_map_builtin _ _ _ h
  exact ⟨b, rfl, all_slots _ hb⟩

end JmesVerif
