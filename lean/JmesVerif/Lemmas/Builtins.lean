import JmesVerif.Lemmas.Signature
import JmesVerif.Props.C10
/-!
# Functional contracts of the built-in functions

Groups: A (`sort`/`sort_by`), B (`max`/`min`/`max_by`/`min_by`), C (`merge`), D (`keys`/`values`/
`length`/`reverse`), E (`avg`/`sum`/`not_null`/`to_array`/`type`/`map`), F (`contains`/
`starts_with`/`ends_with`/`join`).
-/
namespace JmesVerif

/-! ## A. `sort` / `sort_by` are stable ascending permutations -/

/-- the order `sort` uses -/
def vle (a b : Val) : Bool := Val.cmp a b != .gt

/-- all strings, or all numbers whose double image is finite (what the signature
`array[string]|array[number]` accepts) -/
def Homog (xs : List Val) : Prop :=
  (∀ x ∈ xs, ∃ s, x = .str s) ∨ (∀ x ∈ xs, ∃ n, x = .num n ∧ n.toF64.isFinite = true)

/-- string order is code-point order (`String`'s `compare`) -/
theorem cmp_str (a b : String) : Val.cmp (.str a) (.str b) = compare a b := rfl

/-- values of different types, or of a type other than string/number, compare `Equal` -/
theorem cmp_other (a b : Val) (h : ¬ ((∃ x y, a = .str x ∧ b = .str y) ∨ (∃ x y, a = .num x ∧ b = .num y))) :
    Val.cmp a b = .eq := by
  cases a <;> cases b <;> simp_all [Val.cmp]

/-! ### a globally total and transitive extension of `vle` -/

/-- type rank used only to totalise the order: other < string < number -/
def vrank : Val → Nat
  | .str _ => 1
  | .num _ => 2
  | _ => 0

def vcore : Val → Val → Bool
  | .str x, .str y => (compare x y).isLE
  | .num x, .num y => decide (x.toF64.toRat ≤ y.toF64.toRat)
  | _, _ => true

/-- a total preorder on all values that coincides with `vle` on strings and on finite numbers -/
def vleT (a b : Val) : Bool :=
  decide (vrank a < vrank b) || (decide (vrank a = vrank b) && vcore a b)

theorem vrank_one {v : Val} (h : vrank v = 1) : ∃ s, v = .str s := by
  cases v <;> simp_all [vrank]
theorem vrank_two {v : Val} (h : vrank v = 2) : ∃ n, v = .num n := by
  cases v <;> simp_all [vrank]
theorem vrank_le (v : Val) : vrank v = 0 ∨ vrank v = 1 ∨ vrank v = 2 := by
  cases v <;> simp [vrank]

theorem vcore_zero {a : Val} (h : vrank a = 0) (b : Val) : vcore a b = true := by
  cases a <;> simp_all [vrank, vcore]

theorem vcore_trans (a b c : Val) (hab : vrank a = vrank b) (hbc : vrank b = vrank c)
    (h1 : vcore a b = true) (h2 : vcore b c = true) : vcore a c = true := by
  rcases vrank_le a with h | h | h
  · exact vcore_zero h c
  · obtain ⟨x, rfl⟩ := vrank_one h
    obtain ⟨y, rfl⟩ := vrank_one (hab ▸ h)
    obtain ⟨z, rfl⟩ := vrank_one (hbc ▸ hab ▸ h)
    simp only [vcore] at *
    exact Std.TransOrd.isLE_trans h1 h2
  · obtain ⟨x, rfl⟩ := vrank_two h
    obtain ⟨y, rfl⟩ := vrank_two (hab ▸ h)
    obtain ⟨z, rfl⟩ := vrank_two (hbc ▸ hab ▸ h)
    simp only [vcore, decide_eq_true_eq] at *
    exact Rat.le_trans h1 h2

theorem vcore_total (a b : Val) (hab : vrank a = vrank b) : vcore a b = true ∨ vcore b a = true := by
  rcases vrank_le a with h | h | h
  · exact .inl (vcore_zero h b)
  · obtain ⟨x, rfl⟩ := vrank_one h
    obtain ⟨y, rfl⟩ := vrank_one (hab ▸ h)
    simp only [vcore]
    by_cases h1 : (compare x y).isLE = true
    · exact .inl h1
    · right
      apply Std.OrientedCmp.isLE_of_isGE
      revert h1
      cases compare x y <;> simp [Ordering.isLE, Ordering.isGE]
  · obtain ⟨x, rfl⟩ := vrank_two h
    obtain ⟨y, rfl⟩ := vrank_two (hab ▸ h)
    simp only [vcore, decide_eq_true_eq]
    exact Rat.le_total

theorem vleT_trans (a b c : Val) (h1 : vleT a b = true) (h2 : vleT b c = true) : vleT a c = true := by
  simp only [vleT, Bool.or_eq_true, Bool.and_eq_true, decide_eq_true_eq] at *
  rcases h1 with h1 | ⟨e1, c1⟩ <;> rcases h2 with h2 | ⟨e2, c2⟩
  · left; omega
  · left; omega
  · left; omega
  · right; exact ⟨by omega, vcore_trans a b c e1 e2 c1 c2⟩

theorem vleT_total (a b : Val) : (vleT a b || vleT b a) = true := by
  simp only [vleT, Bool.or_eq_true, Bool.and_eq_true, decide_eq_true_eq]
  by_cases h : vrank a = vrank b
  · rcases vcore_total a b h with h' | h'
    · exact .inl (.inr ⟨h, h'⟩)
    · exact .inr (.inr ⟨h.symm, h'⟩)
  · by_cases h' : vrank a < vrank b
    · exact .inl (.inl h')
    · exact .inr (.inl (by omega))

/-- on two strings `vle` is `≤` of `compare` -/
theorem vle_str (x y : String) : vle (.str x) (.str y) = (compare x y).isLE := by
  simp only [vle, Val.cmp]
  cases compare x y <;> rfl

/-- on two finite numbers `vle` is `≤` on the denoted rationals -/
theorem vle_num (x y : Num) (h : BothFinite x y) :
    vle (.num x) (.num y) = decide (x.toF64.toRat ≤ y.toF64.toRat) := by
  simp only [vle, cmp_num x y h]
  by_cases h1 : x.toF64.toRat < y.toF64.toRat
  · have : x.toF64.toRat ≤ y.toF64.toRat := by grind
    simp [h1, this]
  · by_cases h2 : y.toF64.toRat < x.toF64.toRat
    · have : ¬ x.toF64.toRat ≤ y.toF64.toRat := by grind
      simp [h1, h2, this]
    · have : x.toF64.toRat ≤ y.toF64.toRat := by grind
      simp [h1, h2, this]

/-- the members of a homogeneous list are pairwise "comparable": `vle` is the total preorder -/
theorem vle_eq_vleT {xs : List Val} (h : Homog xs) {a b : Val} (ha : a ∈ xs) (hb : b ∈ xs) :
    vle a b = vleT a b := by
  rcases h with h | h
  · obtain ⟨x, rfl⟩ := h a ha
    obtain ⟨y, rfl⟩ := h b hb
    simp [vle_str, vleT, vrank, vcore]
  · obtain ⟨x, rfl, hx⟩ := h a ha
    obtain ⟨y, rfl, hy⟩ := h b hb
    simp [vle_num x y ⟨hx, hy⟩, vleT, vrank, vcore]

/-- `vle` is total on all values (mixed/other types compare `Equal`) -/
theorem vle_total_homog {xs : List Val} (h : Homog xs) {a b : Val} (ha : a ∈ xs) (hb : b ∈ xs) :
    vle a b = true ∨ vle b a = true := by
  rw [vle_eq_vleT h ha hb, vle_eq_vleT h hb ha]
  simpa using vleT_total a b

theorem vle_trans_homog {xs : List Val} (h : Homog xs) {a b c : Val} (ha : a ∈ xs) (hb : b ∈ xs)
    (hc : c ∈ xs) (h1 : vle a b = true) (h2 : vle b c = true) : vle a c = true := by
  rw [vle_eq_vleT h ha hb] at h1
  rw [vle_eq_vleT h hb hc] at h2
  rw [vle_eq_vleT h ha hc]
  exact vleT_trans a b c h1 h2

/-! ### generic: merge sort by a `Val`-valued key -/

/-- sorting by key with `vle` = sorting by key with the total preorder, when the keys are homogeneous -/
theorem mergeSort_key_congr {α : Type} (f : α → Val) (xs : List α) (h : Homog (xs.map f)) :
    xs.mergeSort (fun a b => vle (f a) (f b)) = xs.mergeSort (fun a b => vleT (f a) (f b)) := by
  have := List.map_mergeSort (r := fun a b => vle (f a) (f b)) (s := fun a b => vleT (f a) (f b))
    (f := id) (l := xs)
    (fun a ha b hb => vle_eq_vleT h (List.mem_map_of_mem ha) (List.mem_map_of_mem hb))
  simpa using this

theorem sortKey_perm {α : Type} (f : α → Val) (xs : List α) :
    (xs.mergeSort (fun a b => vle (f a) (f b))).Perm xs :=
  List.mergeSort_perm _ _

theorem sortKey_sorted {α : Type} (f : α → Val) (xs : List α) (h : Homog (xs.map f)) :
    (xs.mergeSort (fun a b => vle (f a) (f b))).Pairwise (fun a b => vle (f a) (f b) = true) := by
  have hp : (xs.mergeSort (fun a b => vleT (f a) (f b))).Pairwise (fun a b => vleT (f a) (f b) = true) :=
    List.pairwise_mergeSort (le := fun a b => vleT (f a) (f b))
      (fun a b c => vleT_trans (f a) (f b) (f c)) (fun a b => vleT_total (f a) (f b)) xs
  rw [mergeSort_key_congr f xs h]
  refine hp.imp_of_mem ?_
  intro a b ha hb hab
  rw [List.mem_mergeSort] at ha hb
  rw [vle_eq_vleT h (List.mem_map_of_mem ha) (List.mem_map_of_mem hb)]
  exact hab

theorem sortKey_stable {α : Type} (f : α → Val) (xs : List α) (h : Homog (xs.map f)) (a b : α)
    (hab : vle (f a) (f b) = true) (hs : [a, b].Sublist xs) :
    [a, b].Sublist (xs.mergeSort (fun a b => vle (f a) (f b))) := by
  rw [mergeSort_key_congr f xs h]
  have ha : a ∈ xs := hs.subset (by simp)
  have hb : b ∈ xs := hs.subset (by simp)
  rw [vle_eq_vleT h (List.mem_map_of_mem ha) (List.mem_map_of_mem hb)] at hab
  exact List.pair_sublist_mergeSort (le := fun a b => vleT (f a) (f b))
    (fun a b c => vleT_trans (f a) (f b) (f c)) (fun a b => vleT_total (f a) (f b)) hab hs

/-! ### `sort` -/

theorem sortVals_eq (xs : List Val) : sortVals xs = xs.mergeSort (fun a b => vle (id a) (id b)) := rfl

/-- **`sort` returns a permutation of its input** -/
theorem sort_perm (xs : List Val) : (sortVals xs).Perm xs := List.mergeSort_perm _ _

/-- **`sort` returns an ascending list** -/
theorem sort_sorted (xs : List Val) (h : Homog xs) :
    (sortVals xs).Pairwise (fun a b => vle a b = true) := by
  rw [sortVals_eq]
  exact sortKey_sorted id xs (by simpa using h)

/-- **`sort` is stable**: equal-key elements (more generally any `a ≤ b` appearing in this order)
keep their input order -/
theorem sort_stable (xs : List Val) (h : Homog xs) (a b : Val) (hab : vle a b = true)
    (hs : [a, b].Sublist xs) : [a, b].Sublist (sortVals xs) := by
  rw [sortVals_eq]
  exact sortKey_stable id xs (by simpa using h) a b hab hs

/-! ### `sort_by` (the key is the second component of each pair) -/

theorem sortPairs_eq (xs : List (Val × Val)) :
    sortPairs xs = xs.mergeSort (fun a b => vle a.2 b.2) := rfl

theorem sortPairs_perm (xs : List (Val × Val)) : (sortPairs xs).Perm xs := List.mergeSort_perm _ _

theorem sortPairs_sorted (xs : List (Val × Val)) (h : Homog (xs.map (·.2))) :
    (sortPairs xs).Pairwise (fun a b => vle a.2 b.2 = true) := by
  rw [sortPairs_eq]
  exact sortKey_sorted (·.2) xs h

theorem sortPairs_stable (xs : List (Val × Val)) (h : Homog (xs.map (·.2))) (a b : Val × Val)
    (hab : vle a.2 b.2 = true) (hs : [a, b].Sublist xs) : [a, b].Sublist (sortPairs xs) := by
  rw [sortPairs_eq]
  exact sortKey_stable (·.2) xs h a b hab hs

/-- what `sort_by` returns, given the keys: the elements, stably sorted by key -/
theorem callFn_sortBy (rt : Registry) (fuel : Nat) (x : Val) (rest : List Val) (a : Ast) (off off1 off2 : Nat)
    (k0 : Val) (ks : List Val)
    (h1 : interp rt fuel x a off = .ok (k0, off1))
    (hty : k0.type = .string ∨ k0.type = .number)
    (h2 : keysTyped rt fuel rest a k0.type 1 off1 = .ok (ks, off2)) :
    callFn rt (fuel + 1) (.builtin .sortBy) [.arr (x :: rest), .expref a] off =
      .ok (.arr ((sortPairs ((x :: rest).zip (k0 :: ks))).map (·.1)), off2) := by
  have hv : (Builtin.sig .sortBy).validate [.arr (x :: rest), .expref a] off = .ok () := by
    exact (validate_two _ _ _ _).2 ⟨_, _, rfl, by simp [ArgT.isValid, Val.type], by simp [ArgT.isValid, Val.type]⟩
  have hty' : ¬ (k0.type ≠ .string ∧ k0.type ≠ .number) := by
    rcases hty with h | h <;> simp [h]
  simp only [callFn, hv, h1, h2, if_neg hty']

/-! ## B. `max` / `min` / `max_by` / `min_by` -/

/-- a left fold that replaces the candidate exactly when `P cand v`: the result splits the list into
a prefix of elements all `P`-related to it and a suffix of elements it is not `P`-related to -/
theorem foldl_replace_spec {α : Type} (S : α → Prop) (P : α → α → Bool) (step : α → α → α)
    (hstep : ∀ a v, S a → S v → step a v = if P a v then v else a)
    (T1 : ∀ a b c, S a → S b → S c → P a b = true → P b c = true → P a c = true)
    (T2 : ∀ a x y, S a → S x → S y → P a x = false → P a y = true → P x y = true) :
    ∀ (rest pre : List α) (acc : α) (suf : List α), (∀ x ∈ pre ++ acc :: suf ++ rest, S x) →
      (∀ x ∈ pre, P x acc = true) → (∀ x ∈ suf, P acc x = false) →
      ∃ pre' suf', pre ++ acc :: suf ++ rest = pre' ++ rest.foldl step acc :: suf' ∧
        (∀ x ∈ pre', P x (rest.foldl step acc) = true) ∧ (∀ x ∈ suf', P (rest.foldl step acc) x = false) := by
  intro rest
  induction rest with
  | nil =>
    intro pre acc suf _ h1 h2
    exact ⟨pre, suf, by simp, h1, h2⟩
  | cons y rest ih =>
    intro pre acc suf hS h1 h2
    have hSacc : S acc := hS acc (by simp)
    have hSy : S y := hS y (by simp)
    simp only [List.foldl_cons, hstep acc y hSacc hSy]
    by_cases hp : P acc y = true
    · simp only [hp, if_true]
      have := ih (pre ++ acc :: suf) y [] (by simpa using hS)
        (by
          intro x hx
          simp only [List.mem_append, List.mem_cons] at hx
          rcases hx with hx | rfl | hx
          · exact T1 x acc y (hS x (by simp [hx])) hSacc hSy (h1 x hx) hp
          · exact hp
          · exact T2 acc x y hSacc (hS x (by simp [hx])) hSy (h2 x hx) hp)
        (by simp)
      simpa using this
    · simp only [hp]
      have := ih pre acc (suf ++ [y]) (by simpa using hS) h1
        (by
          intro x hx
          simp only [List.mem_append, List.mem_singleton] at hx
          rcases hx with hx | rfl
          · exact h2 x hx
          · simpa using hp)
      simpa using this

/-- a total preorder on the elements satisfying `S` -/
structure TotalOn {α : Type} (S : α → Prop) (le : α → α → Bool) : Prop where
  total : ∀ a b, S a → S b → le a b = true ∨ le b a = true
  trans : ∀ a b c, S a → S b → S c → le a b = true → le b c = true → le a c = true

theorem TotalOn.refl {α : Type} {S : α → Prop} {le : α → α → Bool} (h : TotalOn S le) (a : α) (ha : S a) :
    le a a = true := by
  rcases h.total a a ha ha with h | h <;> exact h

theorem TotalOn.of_not {α : Type} {S : α → Prop} {le : α → α → Bool} (h : TotalOn S le) {a b : α}
    (ha : S a) (hb : S b) (hn : le a b = false) : le b a = true := by
  rcases h.total a b ha hb with h | h
  · simp [h] at hn
  · exact h

/-- `vle` on keys is a total preorder on the members of a list with homogeneous keys -/
theorem totalOn_homog {α : Type} (f : α → Val) (xs : List α) (h : Homog (xs.map f)) :
    TotalOn (· ∈ xs) (fun a b => vle (f a) (f b)) where
  total _ _ ha hb := vle_total_homog h (List.mem_map_of_mem ha) (List.mem_map_of_mem hb)
  trans _ _ _ ha hb hc := vle_trans_homog h (List.mem_map_of_mem ha) (List.mem_map_of_mem hb)
    (List.mem_map_of_mem hc)

/-- "last maximum": replace when `cand ≤ v` -/
theorem foldl_lastMax {α : Type} {S : α → Prop} {le : α → α → Bool} (h : TotalOn S le)
    (step : α → α → α) (hstep : ∀ a v, S a → S v → step a v = if le a v then v else a)
    (x : α) (rest : List α) (hS : ∀ y ∈ x :: rest, S y) :
    ∃ pre suf, x :: rest = pre ++ rest.foldl step x :: suf ∧
      (∀ y ∈ pre, le y (rest.foldl step x) = true) ∧ (∀ y ∈ suf, le (rest.foldl step x) y = false) := by
  have := foldl_replace_spec S le step hstep h.trans
    (fun a x y ha hx hy h1 h2 => h.trans x a y hx ha hy (h.of_not ha hx h1) h2)
    rest [] x [] (by simpa using hS) (by simp) (by simp)
  simpa using this

/-- "first minimum": replace when `¬ cand ≤ v` (strictly smaller) -/
theorem foldl_firstMin {α : Type} {S : α → Prop} {le : α → α → Bool} (h : TotalOn S le)
    (step : α → α → α) (hstep : ∀ a v, S a → S v → step a v = if le a v then a else v)
    (x : α) (rest : List α) (hS : ∀ y ∈ x :: rest, S y) :
    ∃ pre suf, x :: rest = pre ++ rest.foldl step x :: suf ∧
      (∀ y ∈ pre, le y (rest.foldl step x) = false) ∧ (∀ y ∈ suf, le (rest.foldl step x) y = true) := by
  have := foldl_replace_spec S (fun a b => !le a b) step
    (by intro a v ha hv; rw [hstep a v ha hv]; cases le a v <;> simp)
    (by
      intro a b c ha hb hc h1 h2
      simp only [Bool.not_eq_eq_eq_not, Bool.not_true] at *
      cases hac : le a c with
      | false => rfl
      | true =>
        have := h.trans a c b ha hc hb hac (h.of_not hb hc h2)
        simp [this] at h1)
    (by
      intro a x y ha hx hy h1 h2
      simp only [Bool.not_eq_eq_eq_not, Bool.not_true, Bool.not_false] at *
      cases hxy : le x y with
      | false => rfl
      | true =>
        have := h.trans a x y ha hx hy h1 hxy
        simp [this] at h2)
    rest [] x [] (by simpa using hS) (by simp) (by simp)
  simpa using this

theorem TotalOn.swap {α : Type} {S : α → Prop} {le : α → α → Bool} (h : TotalOn S le) :
    TotalOn S (fun a b => le b a) where
  total a b ha hb := (h.total a b ha hb).symm
  trans a b c ha hb hc h1 h2 := h.trans c b a hc hb ha h2 h1

/-- on the members of a homogeneous list, `a < b` iff `b > a` -/
theorem cmp_lt_iff_gt {xs : List Val} (h : Homog xs) {a b : Val} (ha : a ∈ xs) (hb : b ∈ xs) :
    Val.cmp a b = .lt ↔ Val.cmp b a = .gt := by
  rcases h with h | h
  · obtain ⟨x, rfl⟩ := h a ha
    obtain ⟨y, rfl⟩ := h b hb
    simp only [cmp_str]
    exact Std.OrientedCmp.gt_iff_lt.symm
  · obtain ⟨x, rfl, hx⟩ := h a ha
    obtain ⟨y, rfl, hy⟩ := h b hb
    rw [cmp_num x y ⟨hx, hy⟩, cmp_num y x ⟨hy, hx⟩]
    by_cases h1 : x.toF64.toRat < y.toF64.toRat
    · have : ¬ y.toF64.toRat < x.toF64.toRat := by grind
      simp [h1, this]
    · by_cases h2 : y.toF64.toRat < x.toF64.toRat <;> simp [h1, h2]

theorem vle_false_iff (a b : Val) : vle a b = false ↔ Val.cmp a b = .gt := by
  simp [vle]

/-- **`max`** returns an element of the array that is `≥` every element; on ties the *last* one
(every later element is strictly smaller) -/
theorem foldMax_spec (xs : List Val) (h : Homog xs) (v : Val) (hv : foldMax xs = some v) :
    v ∈ xs ∧ (∀ x ∈ xs, vle x v = true) ∧
      ∃ pre suf, xs = pre ++ v :: suf ∧ ∀ x ∈ suf, Val.cmp v x = .gt := by
  cases xs with
  | nil => simp [foldMax] at hv
  | cons x rest =>
    simp only [foldMax, Option.some.injEq] at hv
    have T := totalOn_homog id (x :: rest) (by simpa using h)
    obtain ⟨pre, suf, he, h1, h2⟩ := foldl_lastMax T
      (fun acc v => if Val.cmp acc v == .gt then acc else v)
      (by intro a v _ _; simp only [vle, id]; by_cases hc : Val.cmp a v = .gt <;> simp [hc]) x rest (fun _ hy => hy)
    rw [hv] at he h1 h2
    have hmem : v ∈ x :: rest := by rw [he]; simp
    refine ⟨hmem, ?_, pre, suf, he, fun y hy => (vle_false_iff _ _).1 (h2 y hy)⟩
    intro y hy
    rw [he] at hy
    simp only [List.mem_append, List.mem_cons] at hy
    rcases hy with hy | rfl | hy
    · exact h1 y hy
    · exact T.refl y hmem
    · exact T.of_not hmem (by rw [he]; simp [hy]) (h2 y hy)

/-- **`min`** returns an element of the array that is `≤` every element; on ties the *first* one
(every earlier element is strictly greater) -/
theorem foldMin_spec (xs : List Val) (h : Homog xs) (v : Val) (hv : foldMin xs = some v) :
    v ∈ xs ∧ (∀ x ∈ xs, vle v x = true) ∧
      ∃ pre suf, xs = pre ++ v :: suf ∧ ∀ x ∈ pre, Val.cmp x v = .gt := by
  cases xs with
  | nil => simp [foldMin] at hv
  | cons x rest =>
    simp only [foldMin, Option.some.injEq] at hv
    have T := totalOn_homog id (x :: rest) (by simpa using h)
    obtain ⟨pre, suf, he, h1, h2⟩ := foldl_firstMin T
      (fun acc v => if Val.cmp acc v == .gt then v else acc)
      (by intro a v _ _; simp only [vle, id]; by_cases hc : Val.cmp a v = .gt <;> simp [hc]) x rest (fun _ hy => hy)
    rw [hv] at he h1 h2
    have hmem : v ∈ x :: rest := by rw [he]; simp
    refine ⟨hmem, ?_, pre, suf, he, fun y hy => (vle_false_iff _ _).1 (h1 y hy)⟩
    intro y hy
    rw [he] at hy
    simp only [List.mem_append, List.mem_cons] at hy
    rcases hy with hy | rfl | hy
    · exact T.of_not (by rw [he]; simp [hy]) hmem (h1 y hy)
    · exact T.refl y hmem
    · exact h2 y hy

/-- `max([])` / `min([])` are `null` -/
theorem max_empty : Builtin.pure .max [.arr []] = .ok .null := rfl
theorem min_empty : Builtin.pure .min [.arr []] = .ok .null := rfl

/-- the candidate fold of `max_by` / `min_by` (`min_and_max_by!`), on (element, key) pairs -/
def pickExtreme (isMax : Bool) (x : Val) (k0 : Val) (rest : List (Val × Val)) : Val × Val :=
  rest.foldl (fun cand vk =>
    if isMax then (if Val.cmp vk.2 cand.2 == .gt then vk else cand)
    else (if Val.cmp vk.2 cand.2 == .lt then vk else cand)) (x, k0)

/-- **`max_by`** picks the *first* pair with the greatest key: every earlier key is strictly
smaller, every later key is `≤` -/
theorem pickMax_spec (x k0 : Val) (rest : List (Val × Val))
    (h : Homog (((x, k0) :: rest).map (·.2))) :
    ∃ pre suf, (x, k0) :: rest = pre ++ pickExtreme true x k0 rest :: suf ∧
      (∀ q ∈ pre, Val.cmp (pickExtreme true x k0 rest).2 q.2 = .gt) ∧
      (∀ q ∈ suf, vle q.2 (pickExtreme true x k0 rest).2 = true) := by
  have T := (totalOn_homog (·.2) ((x, k0) :: rest) h).swap
  obtain ⟨pre, suf, he, h1, h2⟩ := foldl_firstMin T
    (fun cand vk => if true then (if Val.cmp vk.2 cand.2 == .gt then vk else cand)
      else (if Val.cmp vk.2 cand.2 == .lt then vk else cand))
    (by intro a v _ _; simp only [vle, if_true]; by_cases hc : Val.cmp v.2 a.2 = .gt <;> simp [hc]) (x, k0) rest (fun _ hy => hy)
  exact ⟨pre, suf, he, fun q hq => (vle_false_iff _ _).1 (h1 q hq), h2⟩

/-- **`min_by`** picks the *first* pair with the least key: every earlier key is strictly
greater, every later key is `≥` -/
theorem pickMin_spec (x k0 : Val) (rest : List (Val × Val))
    (h : Homog (((x, k0) :: rest).map (·.2))) :
    ∃ pre suf, (x, k0) :: rest = pre ++ pickExtreme false x k0 rest :: suf ∧
      (∀ q ∈ pre, Val.cmp q.2 (pickExtreme false x k0 rest).2 = .gt) ∧
      (∀ q ∈ suf, vle (pickExtreme false x k0 rest).2 q.2 = true) := by
  have T := totalOn_homog (·.2) ((x, k0) :: rest) h
  obtain ⟨pre, suf, he, h1, h2⟩ := foldl_firstMin T
    (fun cand vk => if false then (if Val.cmp vk.2 cand.2 == .gt then vk else cand)
      else (if Val.cmp vk.2 cand.2 == .lt then vk else cand))
    (by
      intro a v ha hv
      have := cmp_lt_iff_gt h (List.mem_map_of_mem (f := (·.2)) hv) (List.mem_map_of_mem (f := (·.2)) ha)
      simp only [vle, Bool.false_eq_true, if_false]
      by_cases hc : Val.cmp a.2 v.2 = .gt
      · simp [hc, this.2 hc]
      · have hc' : ¬ Val.cmp v.2 a.2 = .lt := fun h => hc (this.1 h)
        simp [hc, hc'])
    (x, k0) rest (fun _ hy => hy)
  exact ⟨pre, suf, he, fun q hq => (vle_false_iff _ _).1 (h1 q hq), h2⟩

/-- the picked pair is one of the inputs -/
theorem pickExtreme_mem (isMax : Bool) (x k0 : Val) (rest : List (Val × Val)) :
    pickExtreme isMax x k0 rest ∈ (x, k0) :: rest := by
  unfold pickExtreme
  generalize (x, k0) = c
  induction rest generalizing c with
  | nil => simp
  | cons y rest ih =>
    simp only [List.foldl_cons]
    have := ih (if isMax then (if Val.cmp y.2 c.2 == .gt then y else c)
      else (if Val.cmp y.2 c.2 == .lt then y else c))
    simp only [List.mem_cons] at this ⊢
    rcases this with h | h
    · rw [h]; cases isMax <;> simp only [Bool.false_eq_true, if_false, if_true] <;> split <;> simp
    · exact .inr (.inr h)

/-- its key is extreme among all keys -/
theorem pickMax_extreme (x k0 : Val) (rest : List (Val × Val))
    (h : Homog (((x, k0) :: rest).map (·.2))) :
    ∀ q ∈ (x, k0) :: rest, vle q.2 (pickExtreme true x k0 rest).2 = true := by
  obtain ⟨pre, suf, he, h1, h2⟩ := pickMax_spec x k0 rest h
  have T := totalOn_homog (·.2) ((x, k0) :: rest) h
  have hm := pickExtreme_mem true x k0 rest
  intro q hq
  have hq' := hq
  rw [he] at hq
  simp only [List.mem_append, List.mem_cons] at hq
  rcases hq with hq | rfl | hq
  · exact T.of_not hm hq' ((vle_false_iff _ _).2 (h1 q hq))
  · exact T.refl _ hm
  · exact h2 q hq

theorem pickMin_extreme (x k0 : Val) (rest : List (Val × Val))
    (h : Homog (((x, k0) :: rest).map (·.2))) :
    ∀ q ∈ (x, k0) :: rest, vle (pickExtreme false x k0 rest).2 q.2 = true := by
  obtain ⟨pre, suf, he, h1, h2⟩ := pickMin_spec x k0 rest h
  have T := totalOn_homog (·.2) ((x, k0) :: rest) h
  have hm := pickExtreme_mem false x k0 rest
  intro q hq
  have hq' := hq
  rw [he] at hq
  simp only [List.mem_append, List.mem_cons] at hq
  rcases hq with hq | rfl | hq
  · exact T.of_not hq' hm ((vle_false_iff _ _).2 (h1 q hq))
  · exact T.refl _ hm
  · exact h2 q hq

/-- `max_by` / `min_by` evaluate the key of every element once, in order, then run `pickExtreme` -/
theorem byExtreme_eq (rt : Registry) (fuel : Nat) (isMax : Bool) (x : Val) (rest : List Val) (a : Ast)
    (off off1 off2 : Nat) (k0 : Val) (ks : List Val)
    (h1 : interp rt fuel x a off = .ok (k0, off1))
    (hty : k0.type = .string ∨ k0.type = .number)
    (h2 : keysTyped rt fuel rest a k0.type 1 off1 = .ok (ks, off2)) :
    byExtreme rt (fuel + 1) isMax (x :: rest) a off =
      .ok ((pickExtreme isMax x k0 (rest.zip ks)).1, off2) := by
  have hty' : ¬ (k0.type ≠ .string ∧ k0.type ≠ .number) := by
    rcases hty with h | h <;> simp [h]
  simp only [byExtreme, h1, h2, if_neg hty', pickExtreme]

theorem byExtreme_nil (rt : Registry) (fuel : Nat) (isMax : Bool) (a : Ast) (off : Nat) :
    byExtreme rt (fuel + 1) isMax [] a off = .ok (.null, off) := by
  simp [byExtreme]

/-- `keysTyped` returns one key per element, each of the requested type -/
theorem keysTyped_spec (rt : Registry) (a : Ast) (ty : JType) : ∀ (fuel : Nat) (xs : List Val)
    (inv off : Nat) (ks : List Val) (off' : Nat),
    keysTyped rt fuel xs a ty inv off = .ok (ks, off') →
      ks.length = xs.length ∧ ∀ k ∈ ks, k.type = ty := by
  intro fuel
  induction fuel with
  | zero => intro xs inv off ks off' h; simp [keysTyped] at h
  | succ fuel ih =>
    intro xs inv off ks off' h
    cases xs with
    | nil =>
      simp only [keysTyped, Except.ok.injEq, Prod.mk.injEq] at h
      obtain ⟨rfl, _⟩ := h
      simp
    | cons x rest =>
      simp only [keysTyped] at h
      split at h
      · simp at h
      · rename_i v o hi
        split at h
        · simp at h
        · rename_i hv
          split at h
          · simp at h
          · rename_i vs o' hk
            simp only [Except.ok.injEq, Prod.mk.injEq] at h
            obtain ⟨rfl, _⟩ := h
            obtain ⟨hl, ht⟩ := ih rest _ _ _ _ hk
            refine ⟨by simp [hl], ?_⟩
            intro k hk
            simp only [List.mem_cons] at hk
            rcases hk with rfl | hk
            · simpa using hv
            · exact ht k hk

theorem zip_keys_homog (x k0 : Val) (rest ks : List Val) (hl : ks.length = rest.length)
    (h : Homog (k0 :: ks)) : Homog (((x, k0) :: rest.zip ks).map (·.2)) := by
  have : (rest.zip ks).map (·.2) = ks := List.map_snd_zip (by omega)
  simpa [this] using h

/-- **`max_by` end to end**: if the keys evaluate to `k0 :: ks` (homogeneous strings / finite
numbers), the result is the element of the *first* pair with the greatest key -/
theorem maxBy_spec (rt : Registry) (fuel : Nat) (x : Val) (rest : List Val) (a : Ast)
    (off off1 off2 : Nat) (k0 : Val) (ks : List Val)
    (h1 : interp rt fuel x a off = .ok (k0, off1))
    (hty : k0.type = .string ∨ k0.type = .number)
    (h2 : keysTyped rt fuel rest a k0.type 1 off1 = .ok (ks, off2))
    (hh : Homog (k0 :: ks)) :
    ∃ p pre suf, byExtreme rt (fuel + 1) true (x :: rest) a off = .ok (p.1, off2) ∧
      (x :: rest).zip (k0 :: ks) = pre ++ p :: suf ∧
      (∀ q ∈ pre, Val.cmp p.2 q.2 = .gt) ∧ (∀ q ∈ suf, vle q.2 p.2 = true) ∧
      (∀ q ∈ (x :: rest).zip (k0 :: ks), vle q.2 p.2 = true) := by
  have hl := (keysTyped_spec rt a _ fuel rest _ _ _ _ h2).1
  have hH := zip_keys_homog x k0 rest ks hl hh
  obtain ⟨pre, suf, he, hp, hs⟩ := pickMax_spec x k0 (rest.zip ks) hH
  exact ⟨_, pre, suf, byExtreme_eq rt fuel true x rest a off off1 off2 k0 ks h1 hty h2, he, hp, hs,
    pickMax_extreme x k0 (rest.zip ks) hH⟩

/-- **`min_by` end to end**: the element of the *first* pair with the least key -/
theorem minBy_spec (rt : Registry) (fuel : Nat) (x : Val) (rest : List Val) (a : Ast)
    (off off1 off2 : Nat) (k0 : Val) (ks : List Val)
    (h1 : interp rt fuel x a off = .ok (k0, off1))
    (hty : k0.type = .string ∨ k0.type = .number)
    (h2 : keysTyped rt fuel rest a k0.type 1 off1 = .ok (ks, off2))
    (hh : Homog (k0 :: ks)) :
    ∃ p pre suf, byExtreme rt (fuel + 1) false (x :: rest) a off = .ok (p.1, off2) ∧
      (x :: rest).zip (k0 :: ks) = pre ++ p :: suf ∧
      (∀ q ∈ pre, Val.cmp q.2 p.2 = .gt) ∧ (∀ q ∈ suf, vle p.2 q.2 = true) ∧
      (∀ q ∈ (x :: rest).zip (k0 :: ks), vle p.2 q.2 = true) := by
  have hl := (keysTyped_spec rt a _ fuel rest _ _ _ _ h2).1
  have hH := zip_keys_homog x k0 rest ks hl hh
  obtain ⟨pre, suf, he, hp, hs⟩ := pickMin_spec x k0 (rest.zip ks) hH
  exact ⟨_, pre, suf, byExtreme_eq rt fuel false x rest a off off1 off2 k0 ks h1 hty h2, he, hp, hs,
    pickMin_extreme x k0 (rest.zip ks) hH⟩

/-! ## C. `merge` is right-biased -/

theorem lookup_insertKV_same_bi (k : String) (v : Val) (m : List (String × Val)) :
    Val.lookup k (insertKV k v m) = some v := by
  induction m with
  | nil => simp [insertKV, Val.lookup]
  | cons p rest ih =>
    obtain ⟨k', v'⟩ := p
    simp only [insertKV]
    split
    · simp [Val.lookup]
    · rename_i hlt
      split
      · simp [Val.lookup]
      · rename_i hne
        simp only [Val.lookup, ih]
        rw [if_neg (fun h => hne h.symm)]

theorem lookup_insertKV_ne_bi (k k' : String) (v : Val) (m : List (String × Val)) (hne : k' ≠ k) :
    Val.lookup k' (insertKV k v m) = Val.lookup k' m := by
  induction m with
  | nil => simp [insertKV, Val.lookup, hne.symm]
  | cons p rest ih =>
    obtain ⟨k1, v1⟩ := p
    simp only [insertKV]
    split
    · simp [Val.lookup, hne.symm]
    · split
      · rename_i heq
        subst heq
        simp [Val.lookup, hne.symm]
      · simp only [Val.lookup, ih]

theorem lookup_append (k : String) (a b : List (String × Val)) :
    Val.lookup k (a ++ b) = (Val.lookup k a).or (Val.lookup k b) := by
  induction a with
  | nil => simp [Val.lookup]
  | cons p a ih =>
    obtain ⟨k1, v1⟩ := p
    simp only [List.cons_append, Val.lookup]
    split <;> simp [ih]

/-- `BTreeMap::extend`: afterwards `k` maps to its last binding in the inserted list, else to what
it mapped to before -/
theorem lookup_extend (k : String) (kvs : List (String × Val)) : ∀ acc : List (String × Val),
    Val.lookup k (kvs.foldl (fun m (p : String × Val) => insertKV p.1 p.2 m) acc) =
      (Val.lookup k kvs.reverse).or (Val.lookup k acc) := by
  induction kvs with
  | nil => intro acc; simp [Val.lookup]
  | cons p kvs ih =>
    intro acc
    obtain ⟨k1, v1⟩ := p
    simp only [List.foldl_cons, ih, List.reverse_cons, lookup_append, Option.or_assoc]
    congr 1
    by_cases h : k1 = k
    · subst h
      simp [lookup_insertKV_same_bi, Val.lookup]
    · rw [lookup_insertKV_ne_bi _ _ _ _ (fun h' => h h'.symm)]
      simp [Val.lookup, h]

theorem findSome?_congr' {α β : Type} {f g : α → Option β} {l : List α} (h : ∀ a ∈ l, f a = g a) :
    l.findSome? f = l.findSome? g := by
  induction l with
  | nil => rfl
  | cons a l ih =>
    simp only [List.findSome?_cons, h a (by simp)]
    rw [ih (fun b hb => h b (by simp [hb]))]

/-- the last binding of `k` among the object arguments (scanning right to left) -/
def lastBinding (k : String) (args : List Val) : Option Val :=
  args.reverse.findSome? fun a => match a with
    | .obj kvs => Val.lookup k kvs.reverse
    | _ => none

theorem mergeObjs_lookup (k : String) (args : List Val) : ∀ acc : List (String × Val),
    Val.lookup k (mergeObjs acc args) = (lastBinding k args).or (Val.lookup k acc) := by
  induction args with
  | nil => intro acc; simp [mergeObjs, lastBinding]
  | cons a rest ih =>
    intro acc
    have hcons : lastBinding k (a :: rest) = (lastBinding k rest).or (lastBinding k [a]) := by
      simp [lastBinding, List.findSome?_append]
    cases a with
    | obj kvs =>
      simp only [mergeObjs, ih, lookup_extend, hcons]
      simp [lastBinding, Option.or_assoc]
    | _ =>
      simp only [mergeObjs, ih, hcons]
      simp [lastBinding]

/-- **`merge` is right-biased**: a key maps to its value in the last argument object that binds it -/
theorem merge_lookup (k : String) (args : List Val) :
    ∃ m, Builtin.pure .merge args = .ok (.obj m) ∧ Val.lookup k m = lastBinding k args := by
  refine ⟨mergeObjs [] args, by simp [Builtin.pure], ?_⟩
  rw [mergeObjs_lookup]
  simp [Val.lookup]

/-- strictly increasing keys (the `BTreeMap` invariant of every object) -/
def SortedKeys (m : List (String × Val)) : Prop := m.Pairwise (fun a b => a.1 < b.1)

theorem mem_insertKV_bi {k : String} {v : Val} {m : List (String × Val)} {p : String × Val}
    (h : p ∈ insertKV k v m) : p = (k, v) ∨ p ∈ m := by
  induction m with
  | nil => simpa [insertKV] using h
  | cons q rest ih =>
    obtain ⟨k', v'⟩ := q
    simp only [insertKV] at h
    split at h
    · simpa using h
    · split at h
      · simp only [List.mem_cons] at h ⊢
        rcases h with h | h
        · exact .inl h
        · exact .inr (.inr h)
      · simp only [List.mem_cons] at h ⊢
        rcases h with h | h
        · exact .inr (.inl h)
        · rcases ih h with h | h
          · exact .inl h
          · exact .inr (.inr h)

/-- `BTreeMap::insert` keeps the keys strictly increasing -/
theorem insertKV_sorted (k : String) (v : Val) (m : List (String × Val)) (h : SortedKeys m) :
    SortedKeys (insertKV k v m) := by
  unfold SortedKeys at *
  induction m with
  | nil => simp [insertKV]
  | cons q rest ih =>
    obtain ⟨k', v'⟩ := q
    rw [List.pairwise_cons] at h
    simp only [insertKV]
    split
    · rename_i hlt
      refine List.pairwise_cons.2 ⟨?_, List.pairwise_cons.2 h⟩
      intro p hp
      simp only [List.mem_cons] at hp
      rcases hp with rfl | hp
      · exact hlt
      · exact String.lt_trans hlt (h.1 p hp)
    · rename_i hlt
      split
      · rename_i heq
        subst heq
        exact List.pairwise_cons.2 ⟨h.1, h.2⟩
      · rename_i hne
        refine List.pairwise_cons.2 ⟨?_, ih h.2⟩
        intro p hp
        rcases mem_insertKV_bi hp with rfl | hp
        · have hle : k' ≤ k := String.not_lt.1 hlt
          rcases Decidable.em (k' < k) with h' | h'
          · exact h'
          · exact absurd (String.le_antisymm hle (String.not_lt.1 h')).symm hne
        · exact h.1 p hp

theorem mergeObjs_sorted (args : List Val) : ∀ acc, SortedKeys acc → SortedKeys (mergeObjs acc args) := by
  induction args with
  | nil => intro acc h; simpa [mergeObjs] using h
  | cons a rest ih =>
    intro acc h
    cases a with
    | obj kvs =>
      simp only [mergeObjs]
      apply ih
      induction kvs generalizing acc with
      | nil => simpa using h
      | cons p kvs ih2 =>
        simp only [List.foldl_cons]
        exact ih2 _ (insertKV_sorted _ _ _ h)
    | _ => simp only [mergeObjs]; exact ih _ h

/-- the result of `merge` is a well-formed (sorted, duplicate-free) object -/
theorem merge_sorted (args : List Val) : SortedKeys (mergeObjs [] args) :=
  mergeObjs_sorted args [] (by simp [SortedKeys])

/-- on a duplicate-free object the scan direction does not matter -/
theorem lookup_eq_some_iff (k : String) (v : Val) (m : List (String × Val))
    (h : m.Pairwise (fun a b => a.1 ≠ b.1)) : Val.lookup k m = some v ↔ (k, v) ∈ m := by
  induction m with
  | nil => simp [Val.lookup]
  | cons q rest ih =>
    obtain ⟨k', v'⟩ := q
    rw [List.pairwise_cons] at h
    simp only [Val.lookup, List.mem_cons, Prod.mk.injEq]
    by_cases hk : k' = k
    · subst hk
      simp only [if_true, Option.some.injEq, true_and]
      constructor
      · intro h'; exact .inl h'.symm
      · rintro (h' | h')
        · exact h'.symm
        · exact absurd rfl (h.1 (_, v) h')
    · rw [if_neg hk, ih h.2]
      constructor
      · exact .inr
      · rintro (⟨h', _⟩ | h')
        · exact absurd h'.symm hk
        · exact h'

theorem lookup_reverse (k : String) (m : List (String × Val)) (h : SortedKeys m) :
    Val.lookup k m.reverse = Val.lookup k m := by
  have h0 : m.Pairwise (fun a b => a.1 < b.1) := h
  have hne : m.Pairwise (fun a b => a.1 ≠ b.1) := by
    refine h0.imp ?_
    intro a b hab heq
    rw [heq] at hab
    exact String.lt_irrefl _ hab
  have hne' : m.reverse.Pairwise (fun a b => a.1 ≠ b.1) := by
    rw [List.pairwise_reverse]
    exact hne.imp (fun hab => hab.symm)
  apply Option.ext
  intro v
  rw [lookup_eq_some_iff k v _ hne, lookup_eq_some_iff k v _ hne']
  simp

/-- for well-formed argument objects: `merge(a₁,…,aₙ).k` is `aᵢ.k` for the last `i` that has `k` -/
theorem lastBinding_sorted (k : String) (args : List Val)
    (h : ∀ kvs, Val.obj kvs ∈ args → SortedKeys kvs) :
    lastBinding k args = args.reverse.findSome? fun a => match a with
      | .obj kvs => Val.lookup k kvs
      | _ => none := by
  unfold lastBinding
  apply findSome?_congr'
  intro a ha
  cases a with
  | obj kvs => exact lookup_reverse k kvs (h kvs (by simpa using ha))
  | _ => rfl

/-- two-argument instance: the right operand wins -/
theorem merge_two (k : String) (m1 m2 : List (String × Val)) (h2 : SortedKeys m2) :
    Val.lookup k (mergeObjs [] [.obj m1, .obj m2]) =
      (Val.lookup k m2).or (Val.lookup k m1.reverse) := by
  rw [mergeObjs_lookup]
  simp only [lastBinding, List.reverse_cons, List.reverse_nil, List.nil_append, List.singleton_append,
    List.findSome?_cons, List.findSome?_nil, lookup_reverse k m2 h2, Val.lookup]
  cases Val.lookup k m2 <;> cases Val.lookup k m1.reverse <;> simp

/-! ## D. `keys` / `values` / `length` / `reverse` -/

theorem keys_eq (kvs : List (String × Val)) :
    Builtin.pure .keys [.obj kvs] = .ok (.arr (kvs.map fun p => .str p.1)) := rfl

theorem values_eq_bi (kvs : List (String × Val)) :
    Builtin.pure .values [.obj kvs] = .ok (.arr (kvs.map (·.2))) := rfl

/-- **`keys` and `values` correspond pairwise**: zipping them gives back the members, in order -/
theorem keys_values_zip (kvs : List (String × Val)) :
    ∃ (ks : List String) (vs : List Val), Builtin.pure .keys [.obj kvs] = .ok (.arr (ks.map .str)) ∧
      Builtin.pure .values [.obj kvs] = .ok (.arr vs) ∧ ks.zip vs = kvs ∧
      ks.length = kvs.length ∧ vs.length = kvs.length := by
  refine ⟨kvs.map (·.1), kvs.map (·.2), by simp [keys_eq], values_eq_bi kvs, ?_, by simp, by simp⟩
  induction kvs with
  | nil => rfl
  | cons p kvs ih => simp [ih]

/-- `keys(o)[i]` is the key under which `values(o)[i]` is stored (for a well-formed object) -/
theorem keys_values_lookup (kvs : List (String × Val)) (h : SortedKeys kvs) (i : Nat) (hi : i < kvs.length) :
    Val.lookup kvs[i].1 kvs = some kvs[i].2 := by
  have h0 : kvs.Pairwise (fun a b => a.1 < b.1) := h
  have hne : kvs.Pairwise (fun a b => a.1 ≠ b.1) := by
    refine h0.imp ?_
    intro a b hab heq
    rw [heq] at hab
    exact String.lt_irrefl _ hab
  rw [lookup_eq_some_iff _ _ _ hne]
  exact List.getElem_mem hi

theorem length_str (s : String) : Builtin.pure .length [.str s] = .ok (.num (.pos s.toList.length)) := rfl
theorem length_arr (xs : List Val) : Builtin.pure .length [.arr xs] = .ok (.num (.pos xs.length)) := rfl
theorem length_obj (kvs : List (String × Val)) :
    Builtin.pure .length [.obj kvs] = .ok (.num (.pos kvs.length)) := rfl

theorem reverse_str (s : String) :
    Builtin.pure .reverse [.str s] = .ok (.str (String.ofList s.toList.reverse)) := rfl
theorem reverse_arr (xs : List Val) : Builtin.pure .reverse [.arr xs] = .ok (.arr xs.reverse) := rfl

/-- `reverse(reverse(x)) = x` for arrays -/
theorem reverse_reverse_arr (xs : List Val) :
    ∃ ys, Builtin.pure .reverse [.arr xs] = .ok (.arr ys) ∧ Builtin.pure .reverse [.arr ys] = .ok (.arr xs) :=
  ⟨xs.reverse, rfl, by simp [reverse_arr]⟩

/-- `reverse(reverse(x)) = x` for strings (code-point reversal) -/
theorem reverse_reverse_str (s : String) :
    ∃ t, Builtin.pure .reverse [.str s] = .ok (.str t) ∧ Builtin.pure .reverse [.str t] = .ok (.str s) ∧
      t.toList = s.toList.reverse :=
  ⟨String.ofList s.toList.reverse, rfl, by simp [reverse_str], by simp⟩

/-- `reverse` preserves `length` -/
theorem length_reverse_str (s : String) :
    (String.ofList s.toList.reverse).toList.length = s.toList.length := by simp

/-! ## E. `avg` / `sum` / `not_null` / `to_array` / `type` / `map` -/

theorem avg_empty : Builtin.pure .avg [.arr []] = .ok .null := rfl

theorem avg_nonempty (xs : List Val) (h : xs ≠ []) :
    Builtin.pure .avg [.arr xs] =
      numOfF64 (F64.div (sumF64 xs) (F64.ofNat xs.length)) "Expected to be a valid f64" := by
  cases xs with
  | nil => exact absurd rfl h
  | cons x xs => rfl

theorem sum_eq (xs : List Val) :
    Builtin.pure .sum [.arr xs] = numOfF64 (sumF64 xs) "Expected to be a valid number" := rfl

/-- the sum is a left fold of IEEE additions over the double images, starting from `+0.0` -/
theorem sumF64_nums (ns : List Num) :
    sumF64 (ns.map .num) = ns.foldl (fun acc n => F64.add acc n.toF64) F64.zero := by
  unfold sumF64
  have : ∀ z : F64, (ns.map Val.num).foldl (fun acc v => F64.add acc ((valNum v).getD F64.zero)) z =
      ns.foldl (fun acc n => F64.add acc n.toF64) z := by
    induction ns with
    | nil => intro z; rfl
    | cons n ns ih => intro z; simp only [List.map_cons, List.foldl_cons, ih]; rfl
  exact this _

theorem sum_empty : Builtin.pure .sum [.arr []] = .ok (.num (.flt F64.zero)) := rfl

/-- **`not_null`** returns the first non-null argument, or null -/
theorem notNull_eq (args : List Val) :
    Builtin.pure .notNull args = .ok ((args.find? (fun v => !v.isNull)).getD .null) := by
  simp [Builtin.pure]

theorem notNull_spec (args : List Val) :
    (∃ pre v suf, args = pre ++ v :: suf ∧ (∀ x ∈ pre, x = .null) ∧ v ≠ .null ∧
        Builtin.pure .notNull args = .ok v) ∨
    ((∀ x ∈ args, x = .null) ∧ Builtin.pure .notNull args = .ok .null) := by
  rw [notNull_eq]
  have hn : ∀ x : Val, (!x.isNull) = true ↔ x ≠ .null := by
    intro x; cases x <;> simp [Val.isNull]
  cases hf : args.find? (fun v => !v.isNull) with
  | none =>
    right
    rw [List.find?_eq_none] at hf
    refine ⟨fun x hx => ?_, rfl⟩
    have := hf x hx
    cases x <;> simp_all [Val.isNull]
  | some v =>
    left
    obtain ⟨hv, pre, suf, he, hp⟩ := List.find?_eq_some_iff_append.1 hf
    refine ⟨pre, v, suf, he, fun x hx => ?_, (hn v).1 hv, rfl⟩
    have := hp x hx
    simp only [Bool.not_not] at this
    cases x <;> simp_all [Val.isNull]

/-- **`to_array`** wraps non-arrays and leaves arrays alone -/
theorem toArray_arr (xs : List Val) : Builtin.pure .toArray [.arr xs] = .ok (.arr xs) := rfl
theorem toArray_other (v : Val) (h : ∀ xs, v ≠ .arr xs) : Builtin.pure .toArray [v] = .ok (.arr [v]) := by
  cases v <;> first | rfl | exact absurd rfl (h _)

/-- `to_array` always yields an array, and is idempotent -/
theorem toArray_idem (v : Val) :
    ∃ ys, Builtin.pure .toArray [v] = .ok (.arr ys) ∧ Builtin.pure .toArray [.arr ys] = .ok (.arr ys) := by
  cases v <;> exact ⟨_, rfl, rfl⟩

theorem type_eq (v : Val) : Builtin.pure .type [v] = .ok (.str v.type.name) := by
  cases v <;> rfl

/-- the type names -/
theorem type_names :
    Builtin.pure .type [.null] = .ok (.str "null") ∧
    (∀ b, Builtin.pure .type [.bool b] = .ok (.str "boolean")) ∧
    (∀ n, Builtin.pure .type [.num n] = .ok (.str "number")) ∧
    (∀ s, Builtin.pure .type [.str s] = .ok (.str "string")) ∧
    (∀ xs, Builtin.pure .type [.arr xs] = .ok (.str "array")) ∧
    (∀ kvs, Builtin.pure .type [.obj kvs] = .ok (.str "object")) ∧
    (∀ a, Builtin.pure .type [.expref a] = .ok (.str "expref")) :=
  ⟨rfl, fun _ => rfl, fun _ => rfl, fun _ => rfl, fun _ => rfl, fun _ => rfl, fun _ => rfl⟩

/-- `map(&e, xs)`: the expression is evaluated once per element, against that element, in order -/
theorem mapExpref_cons (rt : Registry) (fuel : Nat) (x : Val) (xs : List Val) (a : Ast) (off : Nat) :
    mapExpref rt (fuel + 1) (x :: xs) a off =
      (match interp rt fuel x a off with
       | .error e => .error e
       | .ok (v, off) =>
         match mapExpref rt fuel xs a off with
         | .error e => .error e
         | .ok (vs, off) => .ok (v :: vs, off)) := by
  simp only [mapExpref]
  rfl

theorem mapExpref_nil (rt : Registry) (fuel : Nat) (a : Ast) (off : Nat) :
    mapExpref rt (fuel + 1) [] a off = .ok ([], off) := by
  simp only [mapExpref]

/-- **`map` preserves length and keeps nulls**: the `i`-th output is the value of the expression on
the `i`-th input (nothing is dropped, unlike a projection) -/
theorem mapExpref_spec (rt : Registry) (a : Ast) : ∀ (fuel : Nat) (xs : List Val) (off : Nat)
    (ys : List Val) (off' : Nat), mapExpref rt fuel xs a off = .ok (ys, off') →
      ys.length = xs.length ∧
      ∀ i (h1 : i < xs.length) (h2 : i < ys.length), ∃ f o o', interp rt f xs[i] a o = .ok (ys[i], o') := by
  intro fuel
  induction fuel with
  | zero => intro xs off ys off' h; simp [mapExpref] at h
  | succ fuel ih =>
    intro xs off ys off' h
    cases xs with
    | nil =>
      simp only [mapExpref, Except.ok.injEq, Prod.mk.injEq] at h
      obtain ⟨rfl, _⟩ := h
      simp
    | cons x rest =>
      rw [mapExpref_cons] at h
      split at h
      · simp at h
      · rename_i v o hi
        split at h
        · simp at h
        · rename_i vs o' hk
          simp only [Except.ok.injEq, Prod.mk.injEq] at h
          obtain ⟨rfl, _⟩ := h
          obtain ⟨hl, hr⟩ := ih rest _ _ _ hk
          refine ⟨by simp [hl], ?_⟩
          intro i h1 h2
          cases i with
          | zero => exact ⟨fuel, off, o, by simpa using hi⟩
          | succ i =>
            simp only [List.getElem_cons_succ]
            exact hr i (by simpa using h1) (by simpa using h2)

theorem mapExpref_length (rt : Registry) (fuel : Nat) (xs : List Val) (a : Ast) (off : Nat)
    (ys : List Val) (off' : Nat) (h : mapExpref rt fuel xs a off = .ok (ys, off')) :
    ys.length = xs.length :=
  (mapExpref_spec rt a fuel xs off ys off' h).1

/-- `map` end to end: an array of the same length -/
theorem map_length (rt : Registry) (fuel : Nat) (a : Ast) (xs : List Val) (off : Nat) (v : Val) (off' : Nat)
    (h : callFn rt (fuel + 1) (.builtin .map) [.expref a, .arr xs] off = .ok (v, off')) :
    ∃ ys, v = .arr ys ∧ ys.length = xs.length := by
  rw [callFn_map] at h
  split at h
  · simp at h
  · rename_i vs o hm
    simp only [Except.ok.injEq, Prod.mk.injEq] at h
    exact ⟨vs, h.1.symm, mapExpref_length rt fuel xs a off vs o hm⟩

/-! ## F. `contains` / `starts_with` / `ends_with` / `join` -/

/-- **`contains(string, string)`** is the substring relation on code points -/
theorem isInfix_iff (n h : List Char) : isInfix n h = true ↔ ∃ pre suf, h = pre ++ n ++ suf := by
  induction h with
  | nil =>
    simp only [isInfix, List.isEmpty_iff]
    constructor
    · rintro rfl; exact ⟨[], [], rfl⟩
    · rintro ⟨pre, suf, h⟩
      have := congrArg List.length h
      simp only [List.length_nil, List.length_append] at this
      exact List.eq_nil_of_length_eq_zero (by omega)
  | cons c t ih =>
    simp only [isInfix, Bool.or_eq_true, List.isPrefixOf_iff_prefix, ih]
    constructor
    · rintro (⟨suf, h⟩ | ⟨pre, suf, h⟩)
      · exact ⟨[], suf, by simpa using h.symm⟩
      · exact ⟨c :: pre, suf, by simp [h]⟩
    · rintro ⟨pre, suf, h⟩
      cases pre with
      | nil => exact .inl ⟨suf, by simpa using h.symm⟩
      | cons d pre =>
        simp only [List.cons_append, List.cons.injEq] at h
        exact .inr ⟨pre, suf, h.2⟩

theorem contains_str (s n : String) :
    Builtin.pure .contains [.str s, .str n] = .ok (.bool (isInfix n.toList s.toList)) := rfl

theorem contains_str_iff (s n : String) :
    Builtin.pure .contains [.str s, .str n] = .ok (.bool true) ↔
      ∃ pre suf, s.toList = pre ++ n.toList ++ suf := by
  rw [contains_str, ← isInfix_iff]
  simp

/-- a string never "contains" a non-string -/
theorem contains_str_other (s : String) (v : Val) (h : ∀ n, v ≠ .str n) :
    Builtin.pure .contains [.str s, v] = .ok (.bool false) := by
  cases v <;> first | rfl | exact absurd rfl (h _)

/-- `contains(array, x)`: some element is `==` to `x` -/
theorem contains_arr (xs : List Val) (v : Val) :
    Builtin.pure .contains [.arr xs, v] = .ok (.bool (xs.any (fun x => Val.beq x v))) := rfl

theorem startsWith_iff (s t : String) :
    Builtin.pure .startsWith [.str s, .str t] = .ok (.bool true) ↔ ∃ suf, s.toList = t.toList ++ suf := by
  simp only [Builtin.pure, Except.ok.injEq, Val.bool.injEq, List.isPrefixOf_iff_prefix]
  constructor
  · rintro ⟨suf, h⟩; exact ⟨suf, h.symm⟩
  · rintro ⟨suf, h⟩; exact ⟨suf, h.symm⟩

theorem endsWith_iff (s t : String) :
    Builtin.pure .endsWith [.str s, .str t] = .ok (.bool true) ↔ ∃ pre, s.toList = pre ++ t.toList := by
  simp only [Builtin.pure, Except.ok.injEq, Val.bool.injEq, List.isPrefixOf_iff_prefix,
    List.reverse_prefix]
  constructor
  · rintro ⟨pre, h⟩; exact ⟨pre, h.symm⟩
  · rintro ⟨pre, h⟩; exact ⟨pre, h.symm⟩

/-- `starts_with` / `ends_with` always answer with a boolean -/
theorem startsWith_eq (s t : String) :
    Builtin.pure .startsWith [.str s, .str t] = .ok (.bool (t.toList.isPrefixOf s.toList)) := rfl
theorem endsWith_eq (s t : String) :
    Builtin.pure .endsWith [.str s, .str t] = .ok (.bool (t.toList.reverse.isPrefixOf s.toList.reverse)) := rfl

/-- **`join`** is `intercalate` -/
theorem join_eq (glue : String) (ss : List String) :
    Builtin.pure .join [.str glue, .arr (ss.map .str)] = .ok (.str (glue.intercalate ss)) := by
  simp only [Builtin.pure]
  congr 3
  induction ss with
  | nil => rfl
  | cons s ss ih => simp only [List.map_cons, List.filterMap_cons, ih]

theorem join_two (glue a b : String) :
    Builtin.pure .join [.str glue, .arr [.str a, .str b]] = .ok (.str (a ++ glue ++ b)) := by
  rw [show [Val.str a, Val.str b] = [a, b].map Val.str from rfl, join_eq]
  simp

theorem join_nil (glue : String) : Builtin.pure .join [.str glue, .arr []] = .ok (.str "") := by
  simp [Builtin.pure]

theorem join_one (glue a : String) : Builtin.pure .join [.str glue, .arr [.str a]] = .ok (.str a) := by
  rw [show [Val.str a] = [a].map Val.str from rfl, join_eq]
  simp

/-- the recursion: first element, glue, the rest joined -/
theorem join_cons_cons (glue a b : String) (ss : List String) :
    glue.intercalate (a :: b :: ss) = a ++ glue ++ glue.intercalate (b :: ss) :=
  String.intercalate_cons_cons

/-! ## G. the contracts, end to end through the validated call -/

/-- string order is the lexicographic order of the code-point lists -/
theorem cmp_str_lt (a b : String) : Val.cmp (.str a) (.str b) = .lt ↔ a.toList < b.toList := by
  show compareOfLessAndEq a b = .lt ↔ a < b
  unfold compareOfLessAndEq
  split
  · simp [*]
  · split <;> simp [*]

theorem cmp_str_eq (a b : String) : Val.cmp (.str a) (.str b) = .eq ↔ a = b := by
  show compare a b = .eq ↔ a = b
  exact Std.compare_eq_iff_eq

/-- `vle` is total on *all* values (mixed and other types compare `Equal`), given finiteness -/
theorem vle_total (a b : Val) (hfin : ∀ x y, a = .num x → b = .num y → BothFinite x y) :
    vle a b = true ∨ vle b a = true := by
  cases a <;> cases b <;> try (simp [vle, Val.cmp]; done)
  · rename_i x y
    have h := hfin x y rfl rfl
    rw [vle_num x y h, vle_num y x ⟨h.2, h.1⟩]
    simpa using Rat.le_total
  · rename_i x y
    rw [vle_str, vle_str]
    have := vcore_total (.str x) (.str y) rfl
    simpa [vcore] using this

/-- the signature `array[string]|array[number]` (plus finiteness of the stored doubles, which
`serde_json::Number` guarantees) yields `Homog` -/
theorem homog_of_valid (xs : List Val)
    (hv : ArgT.isValid (.union [arrStr, arrNum]) (.arr xs) = true)
    (hfin : ∀ n, Val.num n ∈ xs → n.toF64.isFinite = true) : Homog xs := by
  rw [isValid_strs_or_nums] at hv
  obtain ⟨ys, he, h⟩ := hv
  cases he
  rcases h with h | h
  · left
    intro x hx
    have := h x hx
    cases x <;> simp_all [Val.type]
  · right
    intro x hx
    have := h x hx
    cases x <;> simp_all [Val.type]

/-- **`sort`**: a stable ascending permutation of the argument -/
theorem sort_spec (args : List Val) (off : Nat)
    (hv : Builtin.sort.sig.validate args off = .ok ())
    (hfin : ∀ xs n, args = [.arr xs] → Val.num n ∈ xs → n.toF64.isFinite = true) :
    ∃ xs ys, args = [.arr xs] ∧ Builtin.pure .sort args = .ok (.arr ys) ∧ ys.Perm xs ∧
      ys.Pairwise (fun a b => vle a b = true) ∧
      ∀ a b, vle a b = true → [a, b].Sublist xs → [a, b].Sublist ys := by
  simp only [Builtin.sig, validate_one] at hv
  obtain ⟨a, rfl, ha⟩ := hv
  obtain ⟨xs, rfl, _⟩ := (isValid_strs_or_nums a).1 ha
  have hH := homog_of_valid xs ha (fun n hn => hfin xs n rfl hn)
  exact ⟨xs, sortVals xs, rfl, rfl, sort_perm xs, sort_sorted xs hH, fun a b => sort_stable xs hH a b⟩

/-- **`max`**: null for the empty array, else the last greatest element -/
theorem max_spec (args : List Val) (off : Nat)
    (hv : Builtin.max.sig.validate args off = .ok ())
    (hfin : ∀ xs n, args = [.arr xs] → Val.num n ∈ xs → n.toF64.isFinite = true) :
    ∃ xs v, args = [.arr xs] ∧ Builtin.pure .max args = .ok v ∧
      ((xs = [] ∧ v = .null) ∨
       (v ∈ xs ∧ (∀ x ∈ xs, vle x v = true) ∧
        ∃ pre suf, xs = pre ++ v :: suf ∧ ∀ x ∈ suf, Val.cmp v x = .gt)) := by
  simp only [Builtin.sig, validate_one] at hv
  obtain ⟨a, rfl, ha⟩ := hv
  obtain ⟨xs, rfl, _⟩ := (isValid_strs_or_nums a).1 ha
  have hH := homog_of_valid xs ha (fun n hn => hfin xs n rfl hn)
  cases hf : foldMax xs with
  | none =>
    refine ⟨xs, .null, rfl, by simp [Builtin.pure, hf], .inl ⟨?_, rfl⟩⟩
    cases xs <;> simp_all [foldMax]
  | some v =>
    exact ⟨xs, v, rfl, by simp [Builtin.pure, hf], .inr (foldMax_spec xs hH v hf)⟩

/-- **`min`**: null for the empty array, else the first least element -/
theorem min_spec (args : List Val) (off : Nat)
    (hv : Builtin.min.sig.validate args off = .ok ())
    (hfin : ∀ xs n, args = [.arr xs] → Val.num n ∈ xs → n.toF64.isFinite = true) :
    ∃ xs v, args = [.arr xs] ∧ Builtin.pure .min args = .ok v ∧
      ((xs = [] ∧ v = .null) ∨
       (v ∈ xs ∧ (∀ x ∈ xs, vle v x = true) ∧
        ∃ pre suf, xs = pre ++ v :: suf ∧ ∀ x ∈ pre, Val.cmp x v = .gt)) := by
  simp only [Builtin.sig, validate_one] at hv
  obtain ⟨a, rfl, ha⟩ := hv
  obtain ⟨xs, rfl, _⟩ := (isValid_strs_or_nums a).1 ha
  have hH := homog_of_valid xs ha (fun n hn => hfin xs n rfl hn)
  cases hf : foldMin xs with
  | none =>
    refine ⟨xs, .null, rfl, by simp [Builtin.pure, hf], .inl ⟨?_, rfl⟩⟩
    cases xs <;> simp_all [foldMin]
  | some v =>
    exact ⟨xs, v, rfl, by simp [Builtin.pure, hf], .inr (foldMin_spec xs hH v hf)⟩

/-- **`sort_by`**: with keys `k0 :: ks` (homogeneous), the result lists the elements in a stable
ascending order of their keys -/
theorem sortBy_spec (rt : Registry) (fuel : Nat) (x : Val) (rest : List Val) (a : Ast)
    (off off1 off2 : Nat) (k0 : Val) (ks : List Val)
    (h1 : interp rt fuel x a off = .ok (k0, off1))
    (hty : k0.type = .string ∨ k0.type = .number)
    (h2 : keysTyped rt fuel rest a k0.type 1 off1 = .ok (ks, off2))
    (hh : Homog (k0 :: ks)) :
    ∃ ps, callFn rt (fuel + 1) (.builtin .sortBy) [.arr (x :: rest), .expref a] off =
        .ok (.arr (ps.map (·.1)), off2) ∧
      ps.Perm ((x :: rest).zip (k0 :: ks)) ∧ (ps.map (·.1)).Perm (x :: rest) ∧
      ps.Pairwise (fun p q => vle p.2 q.2 = true) ∧
      ∀ p q, vle p.2 q.2 = true → [p, q].Sublist ((x :: rest).zip (k0 :: ks)) → [p, q].Sublist ps := by
  have hl := (keysTyped_spec rt a _ fuel rest _ _ _ _ h2).1
  have hH : Homog (((x :: rest).zip (k0 :: ks)).map (·.2)) := zip_keys_homog x k0 rest ks hl hh
  have hfst : ((x :: rest).zip (k0 :: ks)).map (·.1) = x :: rest :=
    List.map_fst_zip (by simp [hl])
  exact ⟨_, callFn_sortBy rt fuel x rest a off off1 off2 k0 ks h1 hty h2, sortPairs_perm _,
    by simpa only [hfst] using (sortPairs_perm ((x :: rest).zip (k0 :: ks))).map (·.1),
    sortPairs_sorted _ hH, fun p q => sortPairs_stable _ hH p q⟩

/-! ### non-vacuity -/
example : Homog [.str "b", .str "a"] := .inl (by simp)
example : Homog [.num (.flt (.fin false 4503599627370496 (-52))), .num (.flt F64.zero)] :=
  .inr (by simp [Num.toF64, F64.isFinite, F64.zero])
example : vle (.str "a") (.str "b") = true := by decide
example : SortedKeys [("a", .null), ("b", .null)] := by
  simp only [SortedKeys, List.pairwise_cons]; simp
example : lastBinding "k" [.obj [("k", .bool true)], .null, .obj [("k", .bool false)], .obj [("j", .null)]]
    = some (.bool false) := by simp [lastBinding, Val.lookup]

end JmesVerif

#print axioms JmesVerif.sort_perm
#print axioms JmesVerif.sort_sorted
#print axioms JmesVerif.sort_stable
#print axioms JmesVerif.sortPairs_perm
#print axioms JmesVerif.sortPairs_sorted
#print axioms JmesVerif.sortPairs_stable
#print axioms JmesVerif.callFn_sortBy
#print axioms JmesVerif.sort_spec
#print axioms JmesVerif.sortBy_spec
#print axioms JmesVerif.cmp_str
#print axioms JmesVerif.cmp_str_lt
#print axioms JmesVerif.foldMax_spec
#print axioms JmesVerif.foldMin_spec
#print axioms JmesVerif.max_spec
#print axioms JmesVerif.min_spec
#print axioms JmesVerif.pickExtreme_mem
#print axioms JmesVerif.pickMax_spec
#print axioms JmesVerif.pickMin_spec
#print axioms JmesVerif.pickMax_extreme
#print axioms JmesVerif.pickMin_extreme
#print axioms JmesVerif.byExtreme_eq
#print axioms JmesVerif.keysTyped_spec
#print axioms JmesVerif.maxBy_spec
#print axioms JmesVerif.minBy_spec
#print axioms JmesVerif.lookup_insertKV_same_bi
#print axioms JmesVerif.lookup_insertKV_ne_bi
#print axioms JmesVerif.lookup_extend
#print axioms JmesVerif.mergeObjs_lookup
#print axioms JmesVerif.merge_lookup
#print axioms JmesVerif.insertKV_sorted
#print axioms JmesVerif.merge_sorted
#print axioms JmesVerif.lastBinding_sorted
#print axioms JmesVerif.merge_two
#print axioms JmesVerif.keys_values_zip
#print axioms JmesVerif.keys_values_lookup
#print axioms JmesVerif.length_str
#print axioms JmesVerif.reverse_str
#print axioms JmesVerif.reverse_reverse_arr
#print axioms JmesVerif.reverse_reverse_str
#print axioms JmesVerif.avg_empty
#print axioms JmesVerif.avg_nonempty
#print axioms JmesVerif.sum_eq
#print axioms JmesVerif.sumF64_nums
#print axioms JmesVerif.notNull_eq
#print axioms JmesVerif.notNull_spec
#print axioms JmesVerif.toArray_idem
#print axioms JmesVerif.toArray_other
#print axioms JmesVerif.type_eq
#print axioms JmesVerif.mapExpref_cons
#print axioms JmesVerif.mapExpref_spec
#print axioms JmesVerif.map_length
#print axioms JmesVerif.isInfix_iff
#print axioms JmesVerif.contains_str_iff
#print axioms JmesVerif.startsWith_iff
#print axioms JmesVerif.endsWith_iff
#print axioms JmesVerif.join_eq
#print axioms JmesVerif.join_two
