import JmesVerif.Spec.Paren
namespace JmesVerif
open Paren

theorem wrap_ast (e : Expr) : (wrap e).ast = e.ast := by
  unfold wrap
  split
  · rfl
  · simp [Expr.ast, Nud.ast, ledsAst]

theorem ledsAst_append (left : Ast) (a b : List Led) :
    ledsAst left (a ++ b) = ledsAst (ledsAst left a) b := by
  induction a generalizing left with
  | nil => simp [ledsAst]
  | cons x xs ih => simp [ledsAst, ih]

mutual
theorem pExpr_ast : ∀ e : Expr, (pExpr e).ast = e.ast
  | .mk h ls => by
    simp only [pExpr]
    rw [pSpine_ast _ ls]
    simp [Expr.ast, ledsAst, pNud_ast h]
theorem pSpine_ast : ∀ (cur : Expr) (ls : List Led), (pSpine cur ls).ast = ledsAst cur.ast ls
  | cur, [] => by simp [pSpine, ledsAst]
  | cur, l :: ls => by
    simp only [pSpine]
    have hw := wrap_ast cur
    cases hc : wrap cur with
    | mk h acc =>
      simp only []
      rw [pSpine_ast _ ls]
      rw [hc] at hw
      simp only [Expr.ast] at hw ⊢
      rw [ledsAst_append, hw]
      simp [ledsAst, pLed_ast l]
theorem pInner_ast : ∀ e : Expr, (pInner e).ast = e.ast
  | .mk h ls => by
    simp only [pInner, Expr.ast, pNud_ast h, pLeds_ast ls]
theorem pLeds_ast : ∀ (ls : List Led) (left : Ast), ledsAst left (pLeds ls) = ledsAst left ls
  | [], left => by simp [pLeds]
  | l :: ls, left => by simp [pLeds, ledsAst, pLed_ast l, pLeds_ast ls]
theorem pNud_ast : ∀ n : Nud, (pNud n).ast = n.ast
  | .at => rfl
  | .field _ => rfl
  | .qfield _ => rfl
  | .call s args => by simp [pNud, Nud.ast, pArgs_ast args]
  | .lit _ => rfl
  | .star r => by simp [pNud, Nud.ast, pRhs_ast r]
  | .idx _ => rfl
  | .slice h r => by simp [pNud, Nud.ast, pRhs_ast r]
  | .wildIdx r => by simp [pNud, Nud.ast, pRhs_ast r]
  | .mlist es => by simp [pNud, Nud.ast, pElems_ast es]
  | .flatten r => by simp [pNud, Nud.ast, pRhs_ast r]
  | .mhash kvs => by simp [pNud, Nud.ast, pKvs_ast kvs]
  | .not e => by simp [pNud, Nud.ast, wrap_ast, pExpr_ast e]
  | .filter p r => by simp [pNud, Nud.ast, wrap_ast, pExpr_ast p, pRhs_ast r]
  | .paren e => by simp [pNud, Nud.ast, pExpr_ast e]
  | .expref e => by simp [pNud, Nud.ast, wrap_ast, pExpr_ast e]
theorem pLed_ast : ∀ (l : Led) (left : Ast), (pLed l).ast left = l.ast left
  | .dotStar r, left => by simp [pLed, Led.ast, pRhs_ast r]
  | .dot d, left => by simp [pLed, Led.ast, pDot_ast d]
  | .index _, left => rfl
  | .sliceL h r, left => by simp [pLed, Led.ast, pRhs_ast r]
  | .wildIdxL r, left => by simp [pLed, Led.ast, pRhs_ast r]
  | .or e, left => by simp [pLed, Led.ast, wrap_ast, pExpr_ast e]
  | .and e, left => by simp [pLed, Led.ast, wrap_ast, pExpr_ast e]
  | .pipe e, left => by simp [pLed, Led.ast, wrap_ast, pExpr_ast e]
  | .cmp o e, left => by simp [pLed, Led.ast, wrap_ast, pExpr_ast e]
  | .flattenL r, left => by simp [pLed, Led.ast, pRhs_ast r]
  | .filterL p r, left => by simp [pLed, Led.ast, wrap_ast, pExpr_ast p, pRhs_ast r]
  | .callDev args, left => by simp [pLed, Led.ast, pArgs_ast args]
theorem pRhs_ast : ∀ r : Rhs, (pRhs r).ast = r.ast
  | .none => rfl
  | .dot d => by simp [pRhs, Rhs.ast, pDot_ast d]
  | .bracket e => by simp [pRhs, Rhs.ast, pInner_ast e]
theorem pDot_ast : ∀ d : DotRhs, (pDot d).ast = d.ast
  | .mlist es => by simp [pDot, DotRhs.ast, pElems_ast es]
  | .expr e => by simp [pDot, DotRhs.ast, pInner_ast e]
theorem pElems_ast : ∀ es : List Expr, exprsAst (pElems es) = exprsAst es
  | [] => rfl
  | e :: es => by simp [pElems, exprsAst, wrap_ast, pExpr_ast e, pElems_ast es]
theorem pArgs_ast : ∀ es : List Expr, exprsAst (pArgs es) = exprsAst es
  | [] => rfl
  | e :: es => by
    simp only [pArgs, exprsAst, pArgs_ast es]
    split <;> simp [wrap_ast, pExpr_ast e, pInner_ast e]
theorem pKvs_ast : ∀ kvs : List (Bool × String × Expr), kvsAst (pKvs kvs) = kvsAst kvs
  | [] => rfl
  | (q, s, e) :: r => by simp [pKvs, kvsAst, wrap_ast, pExpr_ast e, pKvs_ast r]
end

end JmesVerif
