import JmesVerif.Lemmas.ParserFuel
namespace JmesVerif

def Tok.isEof : Tok → Bool
  | .eof => true
  | _ => false

def Tok.numOk : Tok → Bool
  | .number n => decide (-2147483647 ≤ n ∧ n ≤ 2147483647)
  | _ => true

/-- every token `lexOne` emits is a real token (never the end marker), and a number token fits
the documented range |n| ≤ 2^31 − 1 -/
theorem lexOne_tok (pos : Nat) (c : Char) (cs : List Char) (t : Tok) (r : List Char)
    (h : Lexer.lexOne pos c cs = .ok (some t, r)) : t.isEof = false ∧ t.numOk = true := by
  unfold Lexer.lexOne at h
  repeat' (replace h := ok_ite h; obtain ⟨_, h⟩ | ⟨_, h⟩ := h)
  all_goals repeat' (first | (replace h := ok_ite h; obtain ⟨_, h⟩ | ⟨_, h⟩ := h) | split at h)
  all_goals first
    | (simp at h; done)
    | (simp at h; obtain ⟨rfl, _⟩ := h; simp [Tok.isEof, Tok.numOk]; done)
    | (simp at h; obtain ⟨rfl, _⟩ := h; simp [Tok.isEof, Tok.numOk]; omega)

/-- the token list the lexer returns is what it had accumulated, then real tokens, then exactly
one end marker positioned at the end of the input -/
theorem lexLoop_shape (total : Nat) : ∀ (fuel : Nat) (cs : List Char) (acc ts : List (Nat × Tok)),
    Lexer.loop total fuel cs acc = .ok ts →
    ∃ mid, ts = acc.reverse ++ mid ++ [(total, Tok.eof)] ∧
      ∀ pt ∈ mid, pt.2.isEof = false ∧ pt.2.numOk = true := by
  intro fuel
  induction fuel with
  | zero => intro cs acc ts h; simp [Lexer.loop] at h
  | succ n ih =>
    intro cs acc ts h
    cases cs with
    | nil =>
      simp [Lexer.loop] at h
      exact ⟨[], by simp [← h], by simp⟩
    | cons c cs' =>
      simp only [Lexer.loop] at h
      split at h
      · simp at h
      · rename_i t r hlex
        obtain ⟨mid, rfl, hm⟩ := ih _ _ _ h
        refine ⟨(total - Lexer.utf8Len (c :: cs'), t) :: mid, by simp, ?_⟩
        intro pt hpt
        rcases List.mem_cons.mp hpt with rfl | hpt
        · exact lexOne_tok _ _ _ _ _ hlex
        · exact hm _ hpt
      · exact ih _ _ _ h

theorem tokenize_shape (cs : List Char) (ts : List (Nat × Tok)) (h : tokenize cs = .ok ts) :
    ∃ mid, ts = mid ++ [(Lexer.utf8Len cs, Tok.eof)] ∧
      ∀ pt ∈ mid, pt.2.isEof = false ∧ pt.2.numOk = true := by
  obtain ⟨mid, h1, h2⟩ := lexLoop_shape _ _ _ _ _ h
  exact ⟨mid, by simpa using h1, h2⟩

end JmesVerif
