import JmesVerif.Model.Interp
namespace JmesVerif

/-! ## Part 1 — the signature validator -/

/-- the parameter type that governs argument position k -/
def Sig.param (s : Sig) (k : Nat) : Option ArgT :=
  match s.inputs[k]? with
  | some t => some t
  | none => s.variadic

/-- the arity rule -/
def Sig.arityOk (s : Sig) (n : Nat) : Bool :=
  if s.variadic.isSome then decide (s.inputs.length ≤ n) else decide (n = s.inputs.length)

theorem Sig.validateArgs_cons (s : Sig) (off k : Nat) (v : Val) (vs : List Val) :
    s.validateArgs off k (v :: vs) =
      match s.param k with
      | none => .error (.panic "index out of bounds: self.inputs[k]")
      | some t =>
        if t.isValid v then s.validateArgs off (k + 1) vs
        else .error (.runtime (.invalidType t.name v.type.name k) off) := by
  simp only [Sig.validateArgs, Sig.param]
  rfl

theorem Sig.validateArity_ok_iff (s : Sig) (n off : Nat) :
    s.validateArity n off = .ok () ↔ s.arityOk n = true := by
  unfold Sig.validateArity Sig.arityOk
  by_cases hv : s.variadic.isSome = true
  · by_cases h : s.inputs.length ≤ n <;> simp [hv, h]
  · by_cases h : n = s.inputs.length
    · simp [hv, h]
    · by_cases h2 : n < s.inputs.length <;> simp [hv, h, h2]

theorem Sig.validateArity_error (s : Sig) (n off : Nat) (h : s.arityOk n = false) :
    s.validateArity n off =
      .error (.runtime (if n < s.inputs.length then .notEnough s.inputs.length n
                        else .tooMany s.inputs.length n) off) := by
  unfold Sig.validateArity
  unfold Sig.arityOk at h
  by_cases hv : s.variadic.isSome = true
  · simp only [hv, if_true, decide_eq_false_iff_not, Nat.not_le] at h
    have h' : ¬ n ≥ s.inputs.length := by omega
    simp [hv, h, h']
  · simp only [hv, Bool.false_eq_true, if_false, decide_eq_false_iff_not] at h
    by_cases h2 : n < s.inputs.length <;> simp [hv, h, h2]

theorem validate_arity_error (s : Sig) (args : List Val) (off : Nat)
    (h : s.arityOk args.length = false) :
    s.validate args off =
      .error (.runtime (if args.length < s.inputs.length then .notEnough s.inputs.length args.length
                        else .tooMany s.inputs.length args.length) off) := by
  unfold Sig.validate
  rw [Sig.validateArity_error s _ off h]

/-- with a passing arity check, `validate` is the argument loop -/
theorem validate_of_arityOk (s : Sig) (args : List Val) (off : Nat)
    (h : s.arityOk args.length = true) :
    s.validate args off = s.validateArgs off 0 args := by
  unfold Sig.validate
  have := (Sig.validateArity_ok_iff s args.length off).2 h
  rw [this]

/-- the arity rule guarantees that every argument position has a governing parameter type -/
theorem Sig.param_isSome_of_arityOk (s : Sig) (n : Nat) (h : s.arityOk n = true) (k : Nat)
    (hk : k < n) : ∃ t, s.param k = some t := by
  unfold Sig.arityOk at h
  unfold Sig.param
  by_cases hv : s.variadic.isSome = true
  · cases hi : s.inputs[k]? with
    | some t => exact ⟨t, rfl⟩
    | none =>
      obtain ⟨t, ht⟩ := Option.isSome_iff_exists.1 hv
      exact ⟨t, by simp [ht]⟩
  · simp only [hv, Bool.false_eq_true, if_false, decide_eq_true_eq] at h
    have hk' : k < s.inputs.length := by omega
    exact ⟨s.inputs[k], by simp [List.getElem?_eq_getElem hk']⟩

/-- the argument loop, generalised over its index accumulator -/
theorem Sig.validateArgs_ok_iff (s : Sig) (off : Nat) (vs : List Val) : ∀ k : Nat,
    s.validateArgs off k vs = .ok () ↔
      ∀ j v, vs[j]? = some v → ∃ t, s.param (k + j) = some t ∧ t.isValid v = true := by
  induction vs with
  | nil => intro k; simp [Sig.validateArgs]
  | cons a as ih =>
    intro k
    rw [Sig.validateArgs_cons]
    constructor
    · intro h j v hj
      cases hp : s.param k with
      | none => simp [hp] at h
      | some t =>
        simp only [hp] at h
        by_cases hv : t.isValid a = true
        · simp only [hv, if_true] at h
          cases j with
          | zero =>
            simp only [List.getElem?_cons_zero, Option.some.injEq] at hj
            subst hj
            exact ⟨t, by simpa using hp, hv⟩
          | succ j =>
            simp only [List.getElem?_cons_succ] at hj
            obtain ⟨u, hu, hvu⟩ := (ih (k + 1)).1 h j v hj
            exact ⟨u, by rw [← hu]; congr 1; omega, hvu⟩
        · simp [hv] at h
    · intro h
      obtain ⟨t, ht, hv⟩ := h 0 a (by simp)
      simp only [Nat.add_zero] at ht
      simp only [ht, hv, if_true]
      apply (ih (k + 1)).2
      intro j v hj
      obtain ⟨u, hu, hvu⟩ := h (j + 1) v (by simpa using hj)
      exact ⟨u, by rw [← hu]; congr 1; omega, hvu⟩

theorem validate_ok_iff (s : Sig) (args : List Val) (off : Nat) :
    s.validate args off = .ok () ↔
      s.arityOk args.length = true ∧
        ∀ k v, args[k]? = some v → ∃ t, s.param k = some t ∧ t.isValid v = true := by
  by_cases ha : s.arityOk args.length = true
  · rw [validate_of_arityOk s args off ha, Sig.validateArgs_ok_iff]
    simp [ha]
  · have ha' : s.arityOk args.length = false := by simpa using ha
    rw [validate_arity_error s args off ha']
    simp [ha']

/-- the loop stops at the first offending position -/
theorem Sig.validateArgs_type_error (s : Sig) (off : Nat) (vs : List Val) : ∀ (k0 j : Nat) (v : Val)
    (t : ArgT), vs[j]? = some v → s.param (k0 + j) = some t → t.isValid v = false →
    (∀ i < j, ∀ w, vs[i]? = some w → ∃ u, s.param (k0 + i) = some u ∧ u.isValid w = true) →
    s.validateArgs off k0 vs = .error (.runtime (.invalidType t.name v.type.name (k0 + j)) off) := by
  induction vs with
  | nil => intro k0 j v t hj; simp at hj
  | cons a as ih =>
    intro k0 j v t hj ht hbad hfirst
    rw [Sig.validateArgs_cons]
    cases j with
    | zero =>
      simp only [List.getElem?_cons_zero, Option.some.injEq] at hj
      subst hj
      simp only [Nat.add_zero] at ht ⊢
      simp [ht, hbad]
    | succ j =>
      simp only [List.getElem?_cons_succ] at hj
      obtain ⟨u, hu, hvu⟩ := hfirst 0 (by omega) a (by simp)
      simp only [Nat.add_zero] at hu
      simp only [hu, hvu, if_true]
      have := ih (k0 + 1) j v t hj (by rw [← ht]; congr 1; omega) hbad (by
        intro i hi w hw
        obtain ⟨u', hu', hvu'⟩ := hfirst (i + 1) (by omega) w (by simpa using hw)
        exact ⟨u', by rw [← hu']; congr 1; omega, hvu'⟩)
      rw [this]
      congr 3; omega

/-- with the right number of arguments, failure is the invalid-type error of the FIRST offending
position, naming the declared type and the actual type -/
theorem validate_type_error (s : Sig) (args : List Val) (off : Nat)
    (ha : s.arityOk args.length = true)
    (k : Nat) (v : Val) (t : ArgT) (hk : args[k]? = some v) (ht : s.param k = some t)
    (hbad : t.isValid v = false)
    (hfirst : ∀ j < k, ∀ w u, args[j]? = some w → s.param j = some u → u.isValid w = true) :
    s.validate args off = .error (.runtime (.invalidType t.name v.type.name k) off) := by
  rw [validate_of_arityOk s args off ha]
  have := Sig.validateArgs_type_error s off args 0 k v t hk (by simpa using ht) hbad (by
    intro i hi w hw
    have hlt : i < args.length := by
      have := List.getElem?_eq_some_iff.1 hw
      exact this.1
    obtain ⟨u, hu⟩ := Sig.param_isSome_of_arityOk s _ ha i hlt
    exact ⟨u, by simpa using hu, hfirst i hi w u hw hu⟩)
  simpa using this

/-- the loop never reaches its out-of-bounds arm when every position has a parameter type -/
theorem Sig.validateArgs_error (s : Sig) (off : Nat) (vs : List Val) : ∀ (k : Nat) (e : EvalErr),
    (∀ j < vs.length, ∃ t, s.param (k + j) = some t) →
    s.validateArgs off k vs = .error e → ∃ r, e = .runtime r off := by
  induction vs with
  | nil => intro k e _ h; simp [Sig.validateArgs] at h
  | cons a as ih =>
    intro k e hp h
    rw [Sig.validateArgs_cons] at h
    obtain ⟨t, ht⟩ := hp 0 (by simp)
    simp only [Nat.add_zero] at ht
    simp only [ht] at h
    by_cases hv : t.isValid a = true
    · simp only [hv, if_true] at h
      refine ih (k + 1) e ?_ h
      intro j hj
      obtain ⟨u, hu⟩ := hp (j + 1) (by simpa using hj)
      exact ⟨u, by rw [← hu]; congr 1; omega⟩
    · simp only [hv, Bool.false_eq_true, if_false, Except.error.injEq] at h
      exact ⟨_, h.symm⟩

/-- every error of the validator is a runtime error carrying the offset it was given -/
theorem validate_error_offset (s : Sig) (args : List Val) (off : Nat) (e : EvalErr)
    (h : s.validate args off = .error e) : ∃ r, e = .runtime r off := by
  by_cases ha : s.arityOk args.length = true
  · rw [validate_of_arityOk s args off ha] at h
    refine Sig.validateArgs_error s off args 0 e ?_ h
    intro j hj
    obtain ⟨t, ht⟩ := Sig.param_isSome_of_arityOk s _ ha j hj
    exact ⟨t, by simpa using ht⟩
  · have ha' : s.arityOk args.length = false := by simpa using ha
    rw [validate_arity_error s args off ha'] at h
    simp only [Except.error.injEq] at h
    exact ⟨_, h.symm⟩

/-- in particular the validator itself never panics -/
theorem validate_no_panic (s : Sig) (args : List Val) (off : Nat) (m : String) :
    s.validate args off ≠ .error (.panic m) := by
  intro h
  obtain ⟨r, hr⟩ := validate_error_offset s args off _ h
  cases hr

/-! ### validity depends only on the type class of a value -/

/-- type tag, and for arrays the list of element type tags -/
def Val.cls : Val → JType × List JType
  | .arr xs => (.array, xs.map Val.type)
  | v => (v.type, [])

/-- a base parameter type: neither `typedArray` nor `union` -/
def ArgT.base : ArgT → Bool
  | .typedArray _ | .union _ => false
  | _ => true

/-- a base type or an array of a base type -/
def ArgT.simple : ArgT → Bool
  | .typedArray t => t.base
  | .union _ => false
  | _ => true

/-- a parameter type as the builtins use them: a base type, an array of a base type, or a union
of those -/
def ArgT.flat : ArgT → Bool
  | .union ts => ts.all ArgT.simple
  | t => t.simple

theorem Val.isNull_eq_type (v : Val) : v.isNull = (v.type == .null) := by
  cases v <;> rfl

theorem isValid_base_type (t : ArgT) (ht : t.base = true) (v w : Val) (h : v.type = w.type) :
    t.isValid v = t.isValid w := by
  cases t <;> simp_all [ArgT.isValid, ArgT.base, Val.isNull_eq_type]

theorem allValid_iff (t : ArgT) (xs : List Val) :
    allValid t xs = true ↔ ∀ x ∈ xs, t.isValid x = true := by
  induction xs with
  | nil => simp [allValid]
  | cons a as ih => simp [allValid, ih]

theorem anyValid_iff (ts : List ArgT) (v : Val) :
    anyValid ts v = true ↔ ∃ t ∈ ts, t.isValid v = true := by
  induction ts with
  | nil => simp [anyValid]
  | cons a as ih => simp [anyValid, ih]

theorem allValid_base_types (t : ArgT) (ht : t.base = true) (xs : List Val) : ∀ ys : List Val,
    xs.map Val.type = ys.map Val.type → allValid t xs = allValid t ys := by
  induction xs with
  | nil => intro ys h; cases ys with
    | nil => rfl
    | cons b bs => simp at h
  | cons a as ih =>
    intro ys h
    cases ys with
    | nil => simp at h
    | cons b bs =>
      simp only [List.map_cons, List.cons.injEq] at h
      simp only [allValid, isValid_base_type t ht a b h.1, ih bs h.2]

theorem Val.cls_fst (v : Val) : v.cls.1 = v.type := by
  cases v <;> rfl

theorem isValid_simple_cls (t : ArgT) (ht : t.simple = true) (v w : Val) (h : v.cls = w.cls) :
    t.isValid v = t.isValid w := by
  have hty : v.type = w.type := by rw [← Val.cls_fst, ← Val.cls_fst, h]
  cases t with
  | typedArray u =>
    simp only [ArgT.simple] at ht
    cases v <;> cases w <;> simp_all [Val.cls, Val.type, ArgT.isValid]
    exact allValid_base_types u ht _ _ h
  | union ts => simp [ArgT.simple] at ht
  | _ => exact isValid_base_type _ rfl v w hty

theorem anyValid_simple_cls (ts : List ArgT) (hts : ts.all ArgT.simple = true) (v w : Val)
    (h : v.cls = w.cls) : anyValid ts v = anyValid ts w := by
  induction ts with
  | nil => simp [anyValid]
  | cons a as ih =>
    simp only [List.all_cons, Bool.and_eq_true] at hts
    simp only [anyValid, isValid_simple_cls a hts.1 v w h, ih hts.2]

theorem isValid_depends_on_cls (t : ArgT) (ht : t.flat = true) (v w : Val) (h : v.cls = w.cls) :
    t.isValid v = t.isValid w := by
  cases t with
  | union ts =>
    simp only [ArgT.flat] at ht
    simp only [ArgT.isValid]
    exact anyValid_simple_cls ts ht v w h
  | typedArray u => exact isValid_simple_cls _ (by simpa [ArgT.flat] using ht) v w h
  | _ => exact isValid_simple_cls _ rfl v w h

theorem builtin_sigs_flat (b : Builtin) :
    (∀ t ∈ b.sig.inputs, t.flat = true) ∧ (∀ t, b.sig.variadic = some t → t.flat = true) := by
  cases b <;> simp [Builtin.sig, ArgT.flat, ArgT.simple, ArgT.base, arrNum, arrStr]

/-! ## Part 2 — the builtins behind their signatures -/

/-! ### argument-list shapes forced by the three kinds of builtin signature -/

theorem validate_one (t : ArgT) (args : List Val) (off : Nat) :
    (⟨[t], none⟩ : Sig).validate args off = .ok () ↔ ∃ a, args = [a] ∧ t.isValid a = true := by
  rcases args with _ | ⟨a, _ | ⟨b, rest⟩⟩
  · simp [Sig.validate, Sig.validateArity]
  · by_cases h : t.isValid a = true <;> simp [Sig.validate, Sig.validateArity, Sig.validateArgs, h]
  · simp [Sig.validate, Sig.validateArity]

theorem validate_two (t u : ArgT) (args : List Val) (off : Nat) :
    (⟨[t, u], none⟩ : Sig).validate args off = .ok () ↔
      ∃ a b, args = [a, b] ∧ t.isValid a = true ∧ u.isValid b = true := by
  rcases args with _ | ⟨a, _ | ⟨b, _ | ⟨c, rest⟩⟩⟩
  · simp [Sig.validate, Sig.validateArity]
  · simp [Sig.validate, Sig.validateArity]
  · by_cases h : t.isValid a = true <;> by_cases h2 : u.isValid b = true <;>
      simp [Sig.validate, Sig.validateArity, Sig.validateArgs, h, h2]
    exact ⟨a, b, ⟨rfl, rfl⟩, h, h2⟩
  · have : ¬ (rest.length + 1 + 1 + 1 < 2) := by omega
    simp [Sig.validate, Sig.validateArity, this]

theorem validate_var (t u : ArgT) (args : List Val) (off : Nat) :
    (⟨[t], some u⟩ : Sig).validate args off = .ok () ↔
      ∃ a rest, args = a :: rest ∧ t.isValid a = true ∧ ∀ x ∈ rest, u.isValid x = true := by
  rw [validate_ok_iff]
  rcases args with _ | ⟨a, rest⟩
  · simp [Sig.arityOk]
  · simp only [Sig.arityOk, Option.isSome_some, if_true, List.length_cons, List.length_nil,
      decide_eq_true_eq, List.cons.injEq]
    constructor
    · rintro ⟨_, h⟩
      refine ⟨a, rest, ⟨rfl, rfl⟩, ?_, ?_⟩
      · simpa [Sig.param] using h 0 a (by simp)
      · intro x hx
        obtain ⟨j, hj, rfl⟩ := List.getElem_of_mem hx
        simpa [Sig.param] using h (j + 1) rest[j] (by simp [hj])
    · rintro ⟨a', rest', ⟨rfl, rfl⟩, ha, hr⟩
      refine ⟨by omega, ?_⟩
      intro k v hk
      cases k with
      | zero => simp at hk; subst hk; simpa [Sig.param] using ha
      | succ k =>
        simp at hk
        have := hr v (List.mem_of_getElem? hk)
        simpa [Sig.param] using this

/-! ### result types and the per-builtin analysis -/

def JType.all : List JType := [.null, .string, .number, .boolean, .array, .object, .expref]

theorem JType.mem_all (t : JType) : t ∈ JType.all := by cases t <;> simp [JType.all]

/-- the JMESPath result type(s) each builtin declares (JMESPath function specification) -/
def Builtin.resultTypes : Builtin → List JType
  | .abs => [.number] | .avg => [.number, .null] | .ceil => [.number] | .contains => [.boolean]
  | .endsWith => [.boolean] | .floor => [.number] | .join => [.string] | .keys => [.array]
  | .length => [.number] | .map => [.array] | .max => [.number, .string, .null]
  | .min => [.number, .string, .null] | .maxBy => JType.all | .minBy => JType.all
  | .merge => [.object] | .notNull => JType.all | .reverse => [.array, .string] | .sort => [.array]
  | .sortBy => [.array] | .startsWith => [.boolean] | .sum => [.number] | .toArray => [.array]
  | .toNumber => [.number, .null] | .toString => [.string] | .type => [.string]
  | .values => [.array]

/-- the builtins whose body can fail (with the non-finite-float `internal` error) -/
def Builtin.mayFail : Builtin → Bool
  | .abs | .avg | .ceil | .floor | .sum => true
  | _ => false

/-- what a non-expref builtin does on validated arguments: a value of a declared result type, or
(for the five float-producing ones only) the `internal` error -/
def PureSpec (b : Builtin) (args : List Val) : Prop :=
  (∃ v, b.pure args = .ok v ∧ v.type ∈ b.resultTypes) ∨
  (∃ msg, b.pure args = .error (.internal msg) ∧ b.mayFail = true)

theorem numOfF64_cases (f : F64) (msg : String) :
    numOfF64 f msg = .ok (.num (.flt f)) ∨ numOfF64 f msg = .error (.internal msg) := by
  unfold numOfF64; split <;> simp

theorem foldl_pick_mem (c : Val → Val → Bool) (rest : List Val) : ∀ init : Val,
    rest.foldl (fun acc v => if c acc v then acc else v) init ∈ init :: rest := by
  induction rest with
  | nil => intro init; simp
  | cons a as ih =>
    intro init
    simp only [List.foldl_cons]
    by_cases h : c init a = true
    · simp only [h, if_true]
      have := ih init
      simp only [List.mem_cons] at this ⊢
      rcases this with h | h <;> simp [h]
    · simp only [h, Bool.false_eq_true, if_false]
      have := ih a
      simp only [List.mem_cons] at this ⊢
      rcases this with h | h <;> simp [h]

theorem foldMax_mem (xs : List Val) (v : Val) (h : foldMax xs = some v) : v ∈ xs := by
  cases xs with
  | nil => simp [foldMax] at h
  | cons a as =>
    simp only [foldMax, Option.some.injEq] at h
    rw [← h]
    exact foldl_pick_mem (fun acc v => Val.cmp acc v == .gt) as a

theorem foldMin_mem (xs : List Val) (v : Val) (h : foldMin xs = some v) : v ∈ xs := by
  cases xs with
  | nil => simp [foldMin] at h
  | cons a as =>
    simp only [foldMin, Option.some.injEq] at h
    rw [← h]
    have := foldl_pick_mem (fun acc v => !(Val.cmp acc v == .gt)) as a
    simpa using this

theorem isValid_number (v : Val) : ArgT.isValid .number v = true ↔ ∃ n, v = .num n := by
  cases v <;> simp [ArgT.isValid, Val.type]
theorem isValid_string (v : Val) : ArgT.isValid .string v = true ↔ ∃ s, v = .str s := by
  cases v <;> simp [ArgT.isValid, Val.type]
theorem isValid_object (v : Val) : ArgT.isValid .object v = true ↔ ∃ kvs, v = .obj kvs := by
  cases v <;> simp [ArgT.isValid, Val.type]
theorem isValid_array (v : Val) : ArgT.isValid .array v = true ↔ ∃ xs, v = .arr xs := by
  cases v <;> simp [ArgT.isValid, Val.type]
theorem isValid_expref (v : Val) : ArgT.isValid .expref v = true ↔ ∃ a, v = .expref a := by
  cases v <;> simp [ArgT.isValid, Val.type]
theorem isValid_typedArray (t : ArgT) (v : Val) :
    ArgT.isValid (.typedArray t) v = true ↔ ∃ xs, v = .arr xs ∧ ∀ x ∈ xs, t.isValid x = true := by
  cases v <;> simp [ArgT.isValid, allValid_iff]

theorem pureSpec_abs (args : List Val) (off : Nat)
    (hv : Builtin.abs.sig.validate args off = .ok ()) : PureSpec .abs args := by
  simp only [Builtin.sig, validate_one, isValid_number] at hv
  obtain ⟨a, rfl, n, rfl⟩ := hv
  rcases numOfF64_cases n.toF64.abs "Expected to be a valid f64" with h | h
  · exact .inl ⟨_, h, by simp [Builtin.resultTypes, Val.type]⟩
  · exact .inr ⟨_, h, rfl⟩

theorem pureSpec_ceil (args : List Val) (off : Nat)
    (hv : Builtin.ceil.sig.validate args off = .ok ()) : PureSpec .ceil args := by
  simp only [Builtin.sig, validate_one, isValid_number] at hv
  obtain ⟨a, rfl, n, rfl⟩ := hv
  rcases numOfF64_cases n.toF64.ceil "Expected n.ceil() to be a valid f64" with h | h
  · exact .inl ⟨_, h, by simp [Builtin.resultTypes, Val.type]⟩
  · exact .inr ⟨_, h, rfl⟩

theorem pureSpec_floor (args : List Val) (off : Nat)
    (hv : Builtin.floor.sig.validate args off = .ok ()) : PureSpec .floor args := by
  simp only [Builtin.sig, validate_one, isValid_number] at hv
  obtain ⟨a, rfl, n, rfl⟩ := hv
  rcases numOfF64_cases n.toF64.floor "Expected to be a valid number" with h | h
  · exact .inl ⟨_, h, by simp [Builtin.resultTypes, Val.type]⟩
  · exact .inr ⟨_, h, rfl⟩

theorem pureSpec_avg (args : List Val) (off : Nat)
    (hv : Builtin.avg.sig.validate args off = .ok ()) : PureSpec .avg args := by
  simp only [Builtin.sig, validate_one, arrNum, isValid_typedArray] at hv
  obtain ⟨a, rfl, xs, rfl, _⟩ := hv
  by_cases he : xs.isEmpty = true
  · exact .inl ⟨.null, by simp [Builtin.pure, he], by simp [Builtin.resultTypes, Val.type]⟩
  · rcases numOfF64_cases (F64.div (sumF64 xs) (F64.ofNat xs.length)) "Expected to be a valid f64"
      with h | h
    · exact .inl ⟨_, by simp only [Builtin.pure, he]; exact h, by simp [Builtin.resultTypes, Val.type]⟩
    · exact .inr ⟨_, by simp only [Builtin.pure, he]; exact h, rfl⟩

theorem pureSpec_sum (args : List Val) (off : Nat)
    (hv : Builtin.sum.sig.validate args off = .ok ()) : PureSpec .sum args := by
  simp only [Builtin.sig, validate_one, arrNum, isValid_typedArray] at hv
  obtain ⟨a, rfl, xs, rfl, _⟩ := hv
  rcases numOfF64_cases (sumF64 xs) "Expected to be a valid number" with h | h
  · exact .inl ⟨_, h, by simp [Builtin.resultTypes, Val.type]⟩
  · exact .inr ⟨_, h, rfl⟩

theorem pureSpec_contains (args : List Val) (off : Nat)
    (hv : Builtin.contains.sig.validate args off = .ok ()) : PureSpec .contains args := by
  simp only [Builtin.sig, validate_two] at hv
  obtain ⟨a, b, rfl, ha, _⟩ := hv
  left
  cases a <;> simp [ArgT.isValid, anyValid, Val.type] at ha
  · cases b <;> exact ⟨_, rfl, by simp [Builtin.resultTypes, Val.type]⟩
  · exact ⟨_, rfl, by simp [Builtin.resultTypes, Val.type]⟩

theorem pureSpec_endsWith (args : List Val) (off : Nat)
    (hv : Builtin.endsWith.sig.validate args off = .ok ()) : PureSpec .endsWith args := by
  simp only [Builtin.sig, validate_two, isValid_string] at hv
  obtain ⟨a, b, rfl, ⟨s, rfl⟩, ⟨t, rfl⟩⟩ := hv
  exact .inl ⟨_, rfl, by simp [Builtin.resultTypes, Val.type]⟩

theorem pureSpec_startsWith (args : List Val) (off : Nat)
    (hv : Builtin.startsWith.sig.validate args off = .ok ()) : PureSpec .startsWith args := by
  simp only [Builtin.sig, validate_two, isValid_string] at hv
  obtain ⟨a, b, rfl, ⟨s, rfl⟩, ⟨t, rfl⟩⟩ := hv
  exact .inl ⟨_, rfl, by simp [Builtin.resultTypes, Val.type]⟩

theorem pureSpec_join (args : List Val) (off : Nat)
    (hv : Builtin.join.sig.validate args off = .ok ()) : PureSpec .join args := by
  simp only [Builtin.sig, validate_two, isValid_string, arrStr, isValid_typedArray] at hv
  obtain ⟨a, b, rfl, ⟨s, rfl⟩, ⟨xs, rfl, _⟩⟩ := hv
  exact .inl ⟨_, rfl, by simp [Builtin.resultTypes, Val.type]⟩

theorem pureSpec_keys (args : List Val) (off : Nat)
    (hv : Builtin.keys.sig.validate args off = .ok ()) : PureSpec .keys args := by
  simp only [Builtin.sig, validate_one, isValid_object] at hv
  obtain ⟨a, rfl, kvs, rfl⟩ := hv
  exact .inl ⟨_, rfl, by simp [Builtin.resultTypes, Val.type]⟩

theorem pureSpec_values (args : List Val) (off : Nat)
    (hv : Builtin.values.sig.validate args off = .ok ()) : PureSpec .values args := by
  simp only [Builtin.sig, validate_one, isValid_object] at hv
  obtain ⟨a, rfl, kvs, rfl⟩ := hv
  exact .inl ⟨_, rfl, by simp [Builtin.resultTypes, Val.type]⟩

theorem pureSpec_length (args : List Val) (off : Nat)
    (hv : Builtin.length.sig.validate args off = .ok ()) : PureSpec .length args := by
  simp only [Builtin.sig, validate_one] at hv
  obtain ⟨a, rfl, ha⟩ := hv
  cases a <;> simp [ArgT.isValid, anyValid, Val.type] at ha <;>
    exact .inl ⟨_, rfl, by simp [Builtin.resultTypes, Val.type]⟩

theorem pureSpec_reverse (args : List Val) (off : Nat)
    (hv : Builtin.reverse.sig.validate args off = .ok ()) : PureSpec .reverse args := by
  simp only [Builtin.sig, validate_one] at hv
  obtain ⟨a, rfl, ha⟩ := hv
  cases a <;> simp [ArgT.isValid, anyValid, Val.type] at ha <;>
    exact .inl ⟨_, rfl, by simp [Builtin.resultTypes, Val.type]⟩

/-- `array[string] | array[number]` -/
theorem isValid_strs_or_nums (v : Val) :
    ArgT.isValid (.union [arrStr, arrNum]) v = true ↔
      ∃ xs, v = .arr xs ∧ ((∀ x ∈ xs, x.type = .string) ∨ (∀ x ∈ xs, x.type = .number)) := by
  cases v <;> simp [ArgT.isValid, anyValid, arrStr, arrNum, allValid_iff]

theorem pureSpec_sort (args : List Val) (off : Nat)
    (hv : Builtin.sort.sig.validate args off = .ok ()) : PureSpec .sort args := by
  simp only [Builtin.sig, validate_one, isValid_strs_or_nums] at hv
  obtain ⟨a, rfl, xs, rfl, _⟩ := hv
  exact .inl ⟨_, rfl, by simp [Builtin.resultTypes, Val.type]⟩

theorem pureSpec_max (args : List Val) (off : Nat)
    (hv : Builtin.max.sig.validate args off = .ok ()) : PureSpec .max args := by
  simp only [Builtin.sig, validate_one, isValid_strs_or_nums] at hv
  obtain ⟨a, rfl, xs, rfl, hxs⟩ := hv
  refine .inl ⟨_, rfl, ?_⟩
  cases h : foldMax xs with
  | none => simp [Builtin.resultTypes, Val.type]
  | some v =>
    have hm := foldMax_mem xs v h
    rcases hxs with hxs | hxs <;> simp [Builtin.resultTypes, hxs v hm]

theorem pureSpec_min (args : List Val) (off : Nat)
    (hv : Builtin.min.sig.validate args off = .ok ()) : PureSpec .min args := by
  simp only [Builtin.sig, validate_one, isValid_strs_or_nums] at hv
  obtain ⟨a, rfl, xs, rfl, hxs⟩ := hv
  refine .inl ⟨_, rfl, ?_⟩
  cases h : foldMin xs with
  | none => simp [Builtin.resultTypes, Val.type]
  | some v =>
    have hm := foldMin_mem xs v h
    rcases hxs with hxs | hxs <;> simp [Builtin.resultTypes, hxs v hm]

theorem pureSpec_merge (args : List Val) : PureSpec .merge args := by
  refine .inl ⟨.obj (mergeObjs [] args), ?_, by simp [Builtin.resultTypes, Val.type]⟩
  unfold Builtin.pure
  split <;> simp_all

theorem pureSpec_notNull (args : List Val) : PureSpec .notNull args := by
  refine .inl ⟨(args.find? (fun v => !v.isNull)).getD .null, ?_, JType.mem_all _⟩
  unfold Builtin.pure
  split <;> simp_all

theorem pureSpec_toArray (args : List Val) (off : Nat)
    (hv : Builtin.toArray.sig.validate args off = .ok ()) : PureSpec .toArray args := by
  simp only [Builtin.sig, validate_one] at hv
  obtain ⟨a, rfl, _⟩ := hv
  cases a <;> exact .inl ⟨_, rfl, by simp [Builtin.resultTypes, Val.type]⟩

theorem pureSpec_toString (args : List Val) (off : Nat)
    (hv : Builtin.toString.sig.validate args off = .ok ()) : PureSpec .toString args := by
  simp only [Builtin.sig, validate_one] at hv
  obtain ⟨a, rfl, _⟩ := hv
  cases a <;> exact .inl ⟨_, rfl, by simp [Builtin.resultTypes, Val.type]⟩

theorem pureSpec_type (args : List Val) (off : Nat)
    (hv : Builtin.type.sig.validate args off = .ok ()) : PureSpec .type args := by
  simp only [Builtin.sig, validate_one] at hv
  obtain ⟨a, rfl, _⟩ := hv
  exact .inl ⟨_, rfl, by simp [Builtin.resultTypes, Val.type]⟩

/-- `to_number` returns a number or `null` only -/
theorem toNumber_cases (a : Val) :
    (∃ n, Builtin.pure .toNumber [a] = .ok (.num n)) ∨ Builtin.pure .toNumber [a] = .ok .null := by
  cases a with
  | num n => exact .inl ⟨n, rfl⟩
  | str s =>
    simp only [Builtin.pure]
    split
    · exact .inl ⟨_, rfl⟩
    · exact .inr rfl
  | _ => exact .inr rfl

theorem pureSpec_toNumber (args : List Val) (off : Nat)
    (hv : Builtin.toNumber.sig.validate args off = .ok ()) : PureSpec .toNumber args := by
  simp only [Builtin.sig, validate_one] at hv
  obtain ⟨a, rfl, _⟩ := hv
  rcases toNumber_cases a with ⟨n, h⟩ | h <;>
    exact .inl ⟨_, h, by simp [Builtin.resultTypes, Val.type]⟩

theorem pure_spec (b : Builtin) (args : List Val) (off : Nat)
    (hv : b.sig.validate args off = .ok ()) (hb : b.usesExpref = false) : PureSpec b args := by
  cases b
  case map | sortBy | maxBy | minBy => simp [Builtin.usesExpref] at hb
  case abs => exact pureSpec_abs args off hv
  case avg => exact pureSpec_avg args off hv
  case ceil => exact pureSpec_ceil args off hv
  case contains => exact pureSpec_contains args off hv
  case endsWith => exact pureSpec_endsWith args off hv
  case floor => exact pureSpec_floor args off hv
  case join => exact pureSpec_join args off hv
  case keys => exact pureSpec_keys args off hv
  case length => exact pureSpec_length args off hv
  case min => exact pureSpec_min args off hv
  case max => exact pureSpec_max args off hv
  case merge => exact pureSpec_merge args
  case notNull => exact pureSpec_notNull args
  case reverse => exact pureSpec_reverse args off hv
  case sort => exact pureSpec_sort args off hv
  case startsWith => exact pureSpec_startsWith args off hv
  case sum => exact pureSpec_sum args off hv
  case toArray => exact pureSpec_toArray args off hv
  case toNumber => exact pureSpec_toNumber args off hv
  case toString => exact pureSpec_toString args off hv
  case type => exact pureSpec_type args off hv
  case values => exact pureSpec_values args off hv

/-- after a successful validation no non-expref builtin reaches its `unreachable!()` /
out-of-bounds arm -/
theorem pure_no_panic (b : Builtin) (args : List Val) (off : Nat)
    (hv : b.sig.validate args off = .ok ()) (hb : b.usesExpref = false) :
    ∀ m, b.pure args ≠ .error (.panic m) := by
  intro m h
  rcases pure_spec b args off hv hb with ⟨v, h', _⟩ | ⟨msg, h', _⟩ <;> rw [h] at h' <;> cases h'

theorem pure_result_type (b : Builtin) (args : List Val) (off : Nat)
    (hv : b.sig.validate args off = .ok ()) (hb : b.usesExpref = false) (v : Val)
    (h : b.pure args = .ok v) : v.type ∈ b.resultTypes := by
  rcases pure_spec b args off hv hb with ⟨v', h', ht⟩ | ⟨msg, h', _⟩ <;> rw [h] at h'
  · cases h'; exact ht
  · cases h'

theorem pure_error_is_internal (b : Builtin) (args : List Val) (off : Nat)
    (hv : b.sig.validate args off = .ok ()) (hb : b.usesExpref = false) (e : EvalErr)
    (h : b.pure args = .error e) :
    (∃ msg, e = .internal msg) ∧ b ∈ [Builtin.abs, .avg, .ceil, .floor, .sum] := by
  rcases pure_spec b args off hv hb with ⟨v', h', ht⟩ | ⟨msg, h', hf⟩ <;> rw [h] at h'
  · cases h'
  · cases h'
    refine ⟨⟨msg, rfl⟩, ?_⟩
    cases b <;> simp [Builtin.mayFail] at hf <;> simp

/-- what makes the `unreachable` arm of the four expref-taking builtins unreachable -/
theorem expref_args_shape (b : Builtin) (args : List Val) (off : Nat)
    (hv : b.sig.validate args off = .ok ()) (hb : b.usesExpref = true) :
    (b = .map ∧ ∃ a xs, args = [.expref a, .arr xs]) ∨
    ((b = .sortBy ∨ b = .maxBy ∨ b = .minBy) ∧ ∃ a xs, args = [.arr xs, .expref a]) := by
  cases b <;> simp [Builtin.usesExpref] at hb <;>
    simp only [Builtin.sig, validate_two, isValid_expref, isValid_array] at hv
  · obtain ⟨x, y, rfl, ⟨a, rfl⟩, ⟨xs, rfl⟩⟩ := hv
    exact .inl ⟨rfl, a, xs, rfl⟩
  all_goals
    obtain ⟨x, y, rfl, ⟨xs, rfl⟩, ⟨a, rfl⟩⟩ := hv
    exact .inr ⟨by simp, a, xs, rfl⟩

theorem custom_guard (rt : Registry) (fuel id : Nat) (s : Sig) (args : List Val) (off : Nat) :
    callFn rt (fuel + 1) (.custom id (some s)) args off =
      (match s.validate args off with
       | .error e => .error e
       | .ok () => .ok (customResult id args, off)) := by
  simp only [callFn]
  cases s.validate args off <;> rfl

/-! ### the builtins inside `callFn` -/

/-- a builtin that takes no expression reference is its signature check followed by its body -/
theorem callFn_pure (rt : Registry) (fuel : Nat) (b : Builtin) (args : List Val) (off : Nat)
    (hb : b.usesExpref = false) :
    callFn rt (fuel + 1) (.builtin b) args off =
      (match b.sig.validate args off with
       | .error e => .error e
       | .ok () =>
         match b.pure args with
         | .error e => .error e
         | .ok v => .ok (v, off)) := by
  rw [callFn.eq_def]
  simp only
  cases hv : b.sig.validate args off with
  | error e => rfl
  | ok u =>
    cases u
    simp only
    split <;> simp_all [Builtin.usesExpref]
    rfl

/-- "some evaluation of the reference `a` on an element of `xs` panics with `m`" -/
def ExprefPanics (rt : Registry) (xs : List Val) (a : Ast) (m : String) : Prop :=
  ∃ f x o, x ∈ xs ∧ interp rt f x a o = .error (.panic m)

theorem ExprefPanics.tail {rt : Registry} {x : Val} {xs : List Val} {a : Ast} {m : String}
    (h : ExprefPanics rt xs a m) : ExprefPanics rt (x :: xs) a m := by
  obtain ⟨f, y, o, hy, h⟩ := h
  exact ⟨f, y, o, List.mem_cons_of_mem _ hy, h⟩

theorem mapExpref_panic (rt : Registry) (a : Ast) (m : String) : ∀ (fuel : Nat) (xs : List Val)
    (off : Nat), mapExpref rt fuel xs a off = .error (.panic m) → ExprefPanics rt xs a m := by
  intro fuel
  induction fuel with
  | zero => intro xs off h; simp [mapExpref] at h
  | succ fuel ih =>
    intro xs off h
    cases xs with
    | nil => simp [mapExpref] at h
    | cons x rest =>
      simp only [mapExpref] at h
      cases hi : interp rt fuel x a off with
      | error e =>
        simp only [hi, Except.error.injEq] at h
        subst h
        exact ⟨fuel, x, off, by simp, hi⟩
      | ok r =>
        obtain ⟨v, o⟩ := r
        simp only [hi] at h
        cases hr : mapExpref rt fuel rest a o with
        | error e =>
          simp only [hr, Except.error.injEq] at h
          subst h
          exact (ih rest o hr).tail
        | ok r' => simp [hr] at h

theorem keysTyped_panic (rt : Registry) (a : Ast) (m : String) : ∀ (fuel : Nat) (xs : List Val)
    (ty : JType) (inv off : Nat),
    keysTyped rt fuel xs a ty inv off = .error (.panic m) → ExprefPanics rt xs a m := by
  intro fuel
  induction fuel with
  | zero => intro xs ty inv off h; simp [keysTyped] at h
  | succ fuel ih =>
    intro xs ty inv off h
    cases xs with
    | nil => simp [keysTyped] at h
    | cons x rest =>
      simp only [keysTyped] at h
      cases hi : interp rt fuel x a off with
      | error e =>
        simp only [hi, Except.error.injEq] at h
        subst h
        exact ⟨fuel, x, off, by simp, hi⟩
      | ok r =>
        obtain ⟨v, o⟩ := r
        simp only [hi] at h
        by_cases hty : v.type ≠ ty
        · simp [hty] at h
        · simp only [hty, if_false] at h
          cases hr : keysTyped rt fuel rest a ty (inv + 1) o with
          | error e =>
            simp only [hr, Except.error.injEq] at h
            subst h
            exact (ih rest ty (inv + 1) o hr).tail
          | ok r' => simp [hr] at h

theorem byExtreme_panic (rt : Registry) (a : Ast) (m : String) (fuel : Nat) (isMax : Bool)
    (xs : List Val) (off : Nat)
    (h : byExtreme rt fuel isMax xs a off = .error (.panic m)) : ExprefPanics rt xs a m := by
  cases fuel with
  | zero => simp [byExtreme] at h
  | succ fuel =>
    cases xs with
    | nil => simp [byExtreme] at h
    | cons x rest =>
      simp only [byExtreme] at h
      cases hi : interp rt fuel x a off with
      | error e =>
        simp only [hi, Except.error.injEq] at h
        subst h
        exact ⟨fuel, x, off, by simp, hi⟩
      | ok r =>
        obtain ⟨k0, o⟩ := r
        simp only [hi] at h
        by_cases hty : k0.type ≠ .string ∧ k0.type ≠ .number
        · simp [hty] at h
        · simp only [hty, if_false] at h
          cases hr : keysTyped rt fuel rest a k0.type 1 o with
          | error e =>
            simp only [hr, Except.error.injEq] at h
            subst h
            exact (keysTyped_panic rt a m fuel rest _ _ _ hr).tail
          | ok r' => simp [hr] at h

/-- the four expref-taking builtins on validated arguments: the body that runs (the
`unreachable` arm is not among them) -/
theorem callFn_map (rt : Registry) (fuel : Nat) (a : Ast) (xs : List Val) (off : Nat) :
    callFn rt (fuel + 1) (.builtin .map) [.expref a, .arr xs] off =
      (match mapExpref rt fuel xs a off with
       | .error e => .error e
       | .ok (vs, off) => .ok (.arr vs, off)) := by
  have hv : Builtin.map.sig.validate [.expref a, .arr xs] off = .ok () := by
    exact (validate_two _ _ _ _).2 ⟨_, _, rfl, by simp [ArgT.isValid, Val.type], by simp [ArgT.isValid, Val.type]⟩
  simp only [callFn, hv]
  rfl

theorem callFn_maxBy (rt : Registry) (fuel : Nat) (a : Ast) (xs : List Val) (off : Nat) :
    callFn rt (fuel + 1) (.builtin .maxBy) [.arr xs, .expref a] off =
      byExtreme rt fuel true xs a off := by
  have hv : Builtin.maxBy.sig.validate [.arr xs, .expref a] off = .ok () := by
    exact (validate_two _ _ _ _).2 ⟨_, _, rfl, by simp [ArgT.isValid, Val.type], by simp [ArgT.isValid, Val.type]⟩
  simp only [callFn, hv]

theorem callFn_minBy (rt : Registry) (fuel : Nat) (a : Ast) (xs : List Val) (off : Nat) :
    callFn rt (fuel + 1) (.builtin .minBy) [.arr xs, .expref a] off =
      byExtreme rt fuel false xs a off := by
  have hv : Builtin.minBy.sig.validate [.arr xs, .expref a] off = .ok () := by
    exact (validate_two _ _ _ _).2 ⟨_, _, rfl, by simp [ArgT.isValid, Val.type], by simp [ArgT.isValid, Val.type]⟩
  simp only [callFn, hv]

theorem sortBy_panic (rt : Registry) (fuel : Nat) (a : Ast) (xs : List Val) (off : Nat) (m : String)
    (h : callFn rt (fuel + 1) (.builtin .sortBy) [.arr xs, .expref a] off = .error (.panic m)) :
    ExprefPanics rt xs a m := by
  have hv : Builtin.sortBy.sig.validate [.arr xs, .expref a] off = .ok () := by
    exact (validate_two _ _ _ _).2 ⟨_, _, rfl, by simp [ArgT.isValid, Val.type], by simp [ArgT.isValid, Val.type]⟩
  cases xs with
  | nil => simp [callFn, hv] at h
  | cons x rest =>
    simp only [callFn, hv] at h
    cases hi : interp rt fuel x a off with
    | error e =>
      simp only [hi, Except.error.injEq] at h
      subst h
      exact ⟨fuel, x, off, by simp, hi⟩
    | ok r =>
      obtain ⟨k0, o⟩ := r
      simp only [hi] at h
      by_cases hty : k0.type ≠ .string ∧ k0.type ≠ .number
      · simp [hty] at h
      · simp only [hty, if_false] at h
        cases hr : keysTyped rt fuel rest a k0.type 1 o with
        | error e =>
          simp only [hr, Except.error.injEq] at h
          subst h
          exact (keysTyped_panic rt a m fuel rest _ _ _ hr).tail
        | ok r' => simp [hr] at h

/-- no builtin call panics by itself: not in the signature check, not in an `unreachable!()` /
out-of-bounds arm of the body.  A panic out of `callFn` is a panic of a nested `interp` of the
expression reference passed to `map` / `sort_by` / `max_by` / `min_by` on one of the elements of
the array passed with it. -/
theorem builtin_no_panic (rt : Registry) (fuel : Nat) (b : Builtin) (args : List Val) (off : Nat)
    (m : String) (h : callFn rt (fuel + 1) (.builtin b) args off = .error (.panic m)) :
    b.usesExpref = true ∧ ∃ a xs, Val.expref a ∈ args ∧ Val.arr xs ∈ args ∧
      ∃ f x o, x ∈ xs ∧ interp rt f x a o = .error (.panic m) := by
  cases hv : b.sig.validate args off with
  | error e =>
    exfalso
    have : callFn rt (fuel + 1) (.builtin b) args off = .error e := by
      rw [callFn.eq_def]; simp only [hv]
    rw [this] at h
    cases h
    exact validate_no_panic _ _ _ _ hv
  | ok u =>
    cases u
    cases hb : b.usesExpref with
    | false =>
      exfalso
      rw [callFn_pure rt fuel b args off hb, hv] at h
      simp only at h
      cases hp : b.pure args with
      | error e =>
        simp only [hp, Except.error.injEq] at h
        subst h
        exact pure_no_panic b args off hv hb m hp
      | ok v => simp [hp] at h
    | true =>
      refine ⟨rfl, ?_⟩
      rcases expref_args_shape b args off hv hb with ⟨rfl, a, xs, rfl⟩ | ⟨hb', a, xs, rfl⟩
      · rw [callFn_map] at h
        refine ⟨a, xs, by simp, by simp, ?_⟩
        cases hr : mapExpref rt fuel xs a off with
        | error e =>
          simp only [hr, Except.error.injEq] at h
          subst h
          exact mapExpref_panic rt a m fuel xs off hr
        | ok r => simp [hr] at h
      · refine ⟨a, xs, by simp, by simp, ?_⟩
        rcases hb' with rfl | rfl | rfl
        · exact sortBy_panic rt fuel a xs off m h
        · rw [callFn_maxBy] at h; exact byExtreme_panic rt a m fuel true xs off h
        · rw [callFn_minBy] at h; exact byExtreme_panic rt a m fuel false xs off h

/-- every builtin call that succeeds returns a value of one of its declared result types -/
theorem callFn_result_type (rt : Registry) (fuel : Nat) (b : Builtin) (args : List Val)
    (off : Nat) (v : Val) (o : Nat)
    (h : callFn rt (fuel + 1) (.builtin b) args off = .ok (v, o)) : v.type ∈ b.resultTypes := by
  cases hv : b.sig.validate args off with
  | error e =>
    have : callFn rt (fuel + 1) (.builtin b) args off = .error e := by
      rw [callFn.eq_def]; simp only [hv]
    rw [this] at h
    cases h
  | ok u =>
    cases u
    cases hb : b.usesExpref with
    | false =>
      rw [callFn_pure rt fuel b args off hb, hv] at h
      simp only at h
      cases hp : b.pure args with
      | error e => simp [hp] at h
      | ok w =>
        simp only [hp, Except.ok.injEq, Prod.mk.injEq] at h
        rw [← h.1]
        exact pure_result_type b args off hv hb w hp
    | true =>
      rcases expref_args_shape b args off hv hb with ⟨rfl, a, xs, rfl⟩ | ⟨hb', a, xs, rfl⟩
      · rw [callFn_map] at h
        cases hr : mapExpref rt fuel xs a off with
        | error e => simp [hr] at h
        | ok r =>
          simp only [hr, Except.ok.injEq, Prod.mk.injEq] at h
          rw [← h.1]; simp [Builtin.resultTypes, Val.type]
      · rcases hb' with rfl | rfl | rfl
        · cases xs with
          | nil =>
            simp only [callFn, hv, Except.ok.injEq, Prod.mk.injEq] at h
            rw [← h.1]; simp [Builtin.resultTypes, Val.type]
          | cons x rest =>
            simp only [callFn, hv] at h
            split at h
            · cases h
            · split at h
              · cases h
              · split at h
                · cases h
                · simp only [Except.ok.injEq, Prod.mk.injEq] at h
                  rw [← h.1]; simp [Builtin.resultTypes, Val.type]
        · exact JType.mem_all _
        · exact JType.mem_all _

#print axioms validate_arity_error
#print axioms validate_ok_iff
#print axioms validate_type_error
#print axioms validate_error_offset
#print axioms validate_no_panic
#print axioms isValid_depends_on_cls
#print axioms builtin_sigs_flat
#print axioms pure_spec
#print axioms pure_no_panic
#print axioms pure_result_type
#print axioms pure_error_is_internal
#print axioms toNumber_cases
#print axioms expref_args_shape
#print axioms custom_guard
#print axioms callFn_pure
#print axioms callFn_map
#print axioms callFn_maxBy
#print axioms callFn_minBy
#print axioms sortBy_panic
#print axioms mapExpref_panic
#print axioms keysTyped_panic
#print axioms byExtreme_panic
#print axioms builtin_no_panic
#print axioms callFn_result_type

end JmesVerif
