import JmesVerif.Generated.ValidCode
import JmesVerif.Model.Interp

/-!
# The hand-written model of signature validation, type names, equality and ordering equals the code
# re-translated from the Rust source

`Generated/ValidCode.lean` is written by `tools/rs2lean.py` (third target) from the bodies of
`ArgumentType::is_valid`, the two `Display` impls, `Signature::validate_arity` / `validate_arg` / `validate`,
`float_eq`, `Variable::eq` and `Variable::cmp` on every run.  This file proves each generated definition equal to
the hand model (`ArgT.isValid`, `ArgT.name`, `JType.name`, `Sig.validate`, `floatEq`, `Val.beq`, `Val.cmp`) for all
inputs, and the safety fact that the checked `self.inputs[k]` of the non-variadic loop cannot fail after the arity
check.  The scripts avoid depending on the shape of the generated terms: unfold, split every `if`/`match`, `simp_all`.
-/
namespace JmesVerif
open Generated.ValidCode

/-- unfold the accessors, split everything, close the leaves -/
macro "vc_acc" : tactic =>
  `(tactic| (simp only [as_array, as_object, as_string, as_number, as_boolean, as_null, as_expref, is_array, is_object,
      is_string, is_number, is_boolean, is_null, is_expref, Val.type, Val.isNull] <;> (repeat' split) <;> simp_all))

/-- close a leaf: `simp_all`, substituting the equations it uncovers -/
macro "vc_close" : tactic =>
  `(tactic| first | (simp_all; done) | (simp_all; subst_vars; simp_all; done) | (subst_vars; simp_all; done))

/-! ### 0. accessors -/

theorem gen_is_null_eq (v : Val) : is_null v = v.isNull := by cases v <;> rfl
theorem gen_is_string_eq (v : Val) : is_string v = (v.type == .string) := by cases v <;> rfl
theorem gen_is_number_eq (v : Val) : is_number v = (v.type == .number) := by cases v <;> rfl
theorem gen_is_object_eq (v : Val) : is_object v = (v.type == .object) := by cases v <;> rfl
theorem gen_is_boolean_eq (v : Val) : is_boolean v = (v.type == .boolean) := by cases v <;> rfl
theorem gen_is_expref_eq (v : Val) : is_expref v = (v.type == .expref) := by cases v <;> rfl
theorem gen_is_array_eq (v : Val) : is_array v = (v.type == .array) := by cases v <;> rfl
theorem gen_as_array_eq (v : Val) : as_array v = (match v with | .arr xs => some xs | _ => none) := by cases v <;> rfl

/-! ### 1. `ArgumentType::is_valid` -/

/-- the generated recursion that stands for `.iter().all(..)` is `List.all` -/
theorem gen_all_is_List_all (t : ArgT) (xs : List Val) : is_valid_all_1 t xs = xs.all (fun v => is_valid t v) := by
  induction xs with
  | nil => simp [is_valid_all_1]
  | cons x xs ih => simp [is_valid_all_1, ih]

/-- the generated recursion that stands for `.iter().any(..)` is `List.any` -/
theorem gen_any_is_List_any (v : Val) (ts : List ArgT) : is_valid_any_1 v ts = ts.any (fun t => is_valid t v) := by
  induction ts with
  | nil => simp [is_valid_any_1]
  | cons t ts ih => simp [is_valid_any_1, ih]

theorem vc_allValid_of (t : ArgT) (h : ∀ v, is_valid t v = t.isValid v) (xs : List Val) :
    is_valid_all_1 t xs = allValid t xs := by
  induction xs with
  | nil => simp [is_valid_all_1, allValid]
  | cons x xs ih => simp [is_valid_all_1, allValid, ih, h]

mutual
theorem gen_is_valid_eq : (t : ArgT) → (v : Val) → is_valid t v = t.isValid v
  | .any, v => by simp [is_valid, ArgT.isValid]
  | .null, v => by cases v <;> simp [is_valid, ArgT.isValid, gen_is_null_eq, Val.isNull]
  | .string, v => by cases v <;> simp [is_valid, ArgT.isValid, gen_is_string_eq, Val.type]
  | .number, v => by cases v <;> simp [is_valid, ArgT.isValid, gen_is_number_eq, Val.type]
  | .bool, v => by cases v <;> simp [is_valid, ArgT.isValid, gen_is_boolean_eq, Val.type]
  | .object, v => by cases v <;> simp [is_valid, ArgT.isValid, gen_is_object_eq, Val.type]
  | .array, v => by cases v <;> simp [is_valid, ArgT.isValid, gen_is_array_eq, Val.type]
  | .expref, v => by cases v <;> simp [is_valid, ArgT.isValid, gen_is_expref_eq, Val.type]
  | .typedArray t, v => by
    have ih := vc_allValid_of t (gen_is_valid_eq t)
    cases v <;> simp [is_valid, ArgT.isValid, gen_is_array_eq, gen_as_array_eq, Val.type, ih]
  | .union ts, v => by
    simp only [is_valid, ArgT.isValid]
    exact gen_any_valid_eq ts v
theorem gen_any_valid_eq : (ts : List ArgT) → (v : Val) → is_valid_any_1 v ts = anyValid ts v
  | [], v => by simp [is_valid_any_1, anyValid]
  | t :: ts, v => by simp [is_valid_any_1, anyValid, gen_is_valid_eq t v, gen_any_valid_eq ts v]
end

/-! ### 3. `float_eq` -/

theorem gen_float_eq_eq (a b : F64) : float_eq a b = floatEq a b := by
  unfold float_eq floatEq
  repeat' split
  all_goals simp_all

/-! ### 2. the names of the types (`Display`) -/

theorem gen_jtype_name_eq (t : JType) : jmespath_type_fmt t = t.name := by cases t <;> rfl

theorem vc_intercalate_names (ts : List ArgT) : String.intercalate "|" (ts.map ArgT.name) = unionName ts := by
  induction ts with
  | nil => simp [unionName, String.intercalate]
  | cons t ts ih =>
    cases ts with
    | nil => simp [unionName]
    | cons t' ts => simp only [List.map_cons, String.intercalate_cons_cons, unionName] at *; rw [ih]

mutual
theorem gen_argt_name_eq : (t : ArgT) → argument_type_fmt t = t.name
  | .any => by simp [argument_type_fmt, ArgT.name]
  | .null => by simp [argument_type_fmt, ArgT.name]
  | .string => by simp [argument_type_fmt, ArgT.name]
  | .number => by simp [argument_type_fmt, ArgT.name]
  | .bool => by simp [argument_type_fmt, ArgT.name]
  | .object => by simp [argument_type_fmt, ArgT.name]
  | .array => by simp [argument_type_fmt, ArgT.name]
  | .expref => by simp [argument_type_fmt, ArgT.name]
  | .typedArray t => by simp [argument_type_fmt, ArgT.name, gen_argt_name_eq t]
  | .union ts => by
    simp only [argument_type_fmt, ArgT.name, gen_argt_names_eq ts]
    exact vc_intercalate_names ts
theorem gen_argt_names_eq : (ts : List ArgT) → argument_type_fmt_map_1 ts = ts.map ArgT.name
  | [] => by simp [argument_type_fmt_map_1]
  | t :: ts => by simp [argument_type_fmt_map_1, gen_argt_name_eq t, gen_argt_names_eq ts]
end

/-! ### 4. `Signature::validate` -/

@[simp] theorem vc_toExcept_ok {α} (off : Nat) (a : α) : toExcept off (.ok a : Except Fail α) = .ok a := rfl
@[simp] theorem vc_toExcept_err {α} (off : Nat) (e : RtErr) :
    toExcept off (.error (.err e) : Except Fail α) = .error (.runtime e off) := rfl
@[simp] theorem vc_toExcept_fault {α} (off : Nat) (f : Fault) :
    toExcept off (.error (.fault f) : Except Fail α) = .error (.panic "index out of bounds: self.inputs[k]") := rfl

/-- the translated `validate_arity` is the model's (and it cannot fault) -/
theorem gen_valid_arity_eq (s : Sig) (n off : Nat) :
    toExcept off (validate_arity s.inputs s.variadic n) = s.validateArity n off := by
  unfold validate_arity Sig.validateArity
  simp only [apply_ite (toExcept off), vc_toExcept_ok, vc_toExcept_err]
  repeat' split
  all_goals first | rfl | (exfalso; omega) | (simp_all; done) | (simp_all; omega)

theorem gen_valid_arity_no_fault (inputs : List ArgT) (variadic : Option ArgT) (n : Nat) (f : Fault) :
    validate_arity inputs variadic n ≠ .error (.fault f) := by
  unfold validate_arity
  simp only []
  repeat' split
  all_goals simp

/-- `Ok` of the arity check without a variadic type means: exactly as many arguments as inputs -/
theorem vc_arity_ok_none (inputs : List ArgT) (n : Nat) (h : validate_arity inputs none n = .ok ()) :
    n = inputs.length := by
  unfold validate_arity at h
  simp at h
  repeat' split at h
  all_goals first | omega | (simp_all; done) | (simp_all; omega)

/-- `validate_arg` in closed form: it reports the position it was given and never faults -/
theorem gen_validate_arg_eq (k : Nat) (v : Val) (t : ArgT) :
    validate_arg k v t =
      if t.isValid v then .ok () else .error (.err (.invalidType t.name v.type.name k)) := by
  unfold validate_arg
  simp only [gen_is_valid_eq, gen_argt_name_eq, gen_jtype_name_eq]
  repeat' split
  all_goals simp_all

theorem vc_indexChecked_eq {α} (xs : List α) (k : Nat) :
    Generated.Code.indexChecked xs k = match xs[k]? with | some x => .ok x | none => .error .outOfBounds := by
  unfold Generated.Code.indexChecked; rfl

/-- how a `match r with | .error e => .error e | .ok _ => .ok ()` reads under `toExcept` -/
theorem vc_toExcept_pass (off : Nat) (r : Except Fail Unit) :
    toExcept off (match r with | .error e => .error e | .ok _ => .ok ()) = toExcept off r := by
  cases r <;> rfl

/-- **`Signature::validate`**: the translated function (arity check, then the first offending position in argument
order) is the model's `Sig.validate`.  Two scripts: the source's two loops (variadic / non-variadic), or one merged loop
(`self.inputs.get(k).or(self.variadic.as_ref())` with the checked index as the fallback). -/
theorem gen_validate_eq (s : Sig) (args : List Val) (off : Nat) :
    toExcept off (validate s.inputs s.variadic args) = s.validate args off := by
  have ha := gen_valid_arity_eq s args.length off
  first
  | -- two loops
    (have l1 : ∀ (var : ArgT), s.variadic = some var → ∀ (args : List Val) (k : Nat),
          toExcept off (validate_loop_1 s.inputs s.variadic var k args) = s.validateArgs off k args := by
        intro var hv args
        induction args with
        | nil => intro k; simp [validate_loop_1, Sig.validateArgs]
        | cons v vs ih =>
          intro k
          simp only [validate_loop_1, Sig.validateArgs, gen_validate_arg_eq, hv]
          cases h : s.inputs[k]? <;> simp only [Option.getD] <;> (repeat' split) <;> vc_close
     have l2 : s.variadic = none → ∀ (args : List Val) (k : Nat),
          toExcept off (validate_loop_2 s.inputs s.variadic k args) = s.validateArgs off k args := by
        intro hv args
        induction args with
        | nil => intro k; simp [validate_loop_2, Sig.validateArgs]
        | cons v vs ih =>
          intro k
          simp only [validate_loop_2, Sig.validateArgs, gen_validate_arg_eq, vc_indexChecked_eq, hv]
          cases h : s.inputs[k]? <;> (repeat' split) <;> vc_close
     unfold validate Sig.validate
     rw [← ha]
     cases hA : validate_arity s.inputs s.variadic args.length with
     | error e => cases e <;> simp [toExcept]
     | ok u =>
       cases hv : s.variadic with
       | some var =>
         have h1 := l1 var hv args 0
         rw [hv] at h1
         simp only [vc_toExcept_ok]
         rw [← h1]
         cases validate_loop_1 s.inputs (some var) var 0 args with
         | error e => cases e <;> simp [toExcept]
         | ok u => simp
       | none =>
         have h2 := l2 hv args 0
         rw [hv] at h2
         simp only [vc_toExcept_ok]
         rw [← h2]
         cases validate_loop_2 s.inputs none 0 args with
         | error e => cases e <;> simp [toExcept]
         | ok u => simp)
  | -- one merged loop
    (have hl : ∀ (args : List Val) (k : Nat),
          toExcept off (validate_loop_1 s.inputs s.variadic k args) = s.validateArgs off k args := by
        intro args
        induction args with
        | nil => intro k; simp [validate_loop_1, Sig.validateArgs]
        | cons v vs ih =>
          intro k
          simp only [validate_loop_1, Sig.validateArgs, gen_validate_arg_eq, vc_indexChecked_eq, Option.or]
          cases h : s.inputs[k]? <;> cases hv : s.variadic <;> (repeat' split) <;> vc_close
     unfold validate Sig.validate
     rw [← ha, ← hl args 0]
     cases validate_arity s.inputs s.variadic args.length with
     | error e => cases e <;> simp [toExcept]
     | ok u =>
       cases validate_loop_1 s.inputs s.variadic 0 args with
       | error e => cases e <;> simp [toExcept]
       | ok u => simp)

theorem vc_validate_arg_no_fault (k : Nat) (v : Val) (t : ArgT) (f : Fault) : validate_arg k v t ≠ .error (.fault f) := by
  rw [gen_validate_arg_eq]; split <;> simp

/-- **safety of `Signature::validate`**: after the arity check the checked `self.inputs[k]` of the non-variadic loop is
never out of bounds (invariant: `k + |rest| ≤ |inputs|`, established by the arity check), and nothing else can panic: the
translated function never returns a `Fault` -/
theorem gen_validate_no_fault (inputs : List ArgT) (variadic : Option ArgT) (args : List Val) (f : Fault) :
    validate inputs variadic args ≠ .error (.fault f) := by
  have hA0 := gen_valid_arity_no_fault inputs variadic args.length f
  first
  | -- two loops
    (have l2 : ∀ (args : List Val) (k : Nat), k + args.length ≤ inputs.length →
          validate_loop_2 inputs variadic k args ≠ .error (.fault f) := by
        intro args
        induction args with
        | nil => intro k _; simp [validate_loop_2]
        | cons v vs ih =>
          intro k hk
          simp only [validate_loop_2, vc_indexChecked_eq]
          have hlt : k < inputs.length := by simp at hk; omega
          have hget : inputs[k]? = some inputs[k] := List.getElem?_eq_getElem hlt
          repeat' split
          all_goals first
            | exact ih _ (by simp at hk; omega)
            | (intro hc; subst_vars; simp_all [vc_validate_arg_no_fault]; done)
            | (simp_all; done)
     have l1 : ∀ (var : ArgT) (args : List Val) (k : Nat), validate_loop_1 inputs variadic var k args ≠ .error (.fault f) := by
        intro var args
        induction args with
        | nil => intro k; simp [validate_loop_1]
        | cons v vs ih =>
          intro k
          simp only [validate_loop_1]
          repeat' split
          all_goals first
            | exact ih _
            | (intro hc; subst_vars; simp_all [vc_validate_arg_no_fault]; done)
            | (simp_all; done)
     unfold validate
     cases hA : validate_arity inputs variadic args.length with
     | error e => simp_all
     | ok u =>
       cases hv : variadic with
       | some var =>
         have h1 := l1 var args 0
         rw [hv] at h1
         simp only
         cases hl : validate_loop_1 inputs (some var) var 0 args <;> simp_all
       | none =>
         rw [hv] at hA
         have hn := vc_arity_ok_none inputs args.length hA
         have h2 := l2 args 0 (by omega)
         rw [hv] at h2
         simp only
         cases hl : validate_loop_2 inputs none 0 args <;> simp_all)
  | -- one merged loop
    (have hl : ∀ (args : List Val) (k : Nat), (variadic.isSome = true ∨ k + args.length ≤ inputs.length) →
          validate_loop_1 inputs variadic k args ≠ .error (.fault f) := by
        intro args
        induction args with
        | nil => intro k _; simp [validate_loop_1]
        | cons v vs ih =>
          intro k hk
          have hk' : variadic.isSome = true ∨ (k + 1) + vs.length ≤ inputs.length := by
            rcases hk with h | h
            · exact Or.inl h
            · exact Or.inr (by simp at h; omega)
          have hget : variadic.isSome = true ∨ inputs[k]? = some inputs[k]! := by
            rcases hk with h | h
            · exact Or.inl h
            · right
              have hlt : k < inputs.length := by simp at h; omega
              simp [hlt]
          simp only [validate_loop_1, vc_indexChecked_eq, Option.or]
          cases hi : inputs[k]? <;> cases hv : variadic <;> subst hv <;> (repeat' split)
          all_goals first
            | exact ih _ hk'
            | (intro hc; subst_vars; simp_all [vc_validate_arg_no_fault]; done)
            | (simp_all; done)
     unfold validate
     cases hA : validate_arity inputs variadic args.length with
     | error e => simp_all
     | ok u =>
       have hinv : variadic.isSome = true ∨ 0 + args.length ≤ inputs.length := by
         cases hv : variadic with
         | some var => simp
         | none =>
           rw [hv] at hA
           have hn := vc_arity_ok_none inputs args.length hA
           right; omega
       have h1 := hl args 0 hinv
       simp only
       cases hl' : validate_loop_1 inputs variadic 0 args <;> simp_all)

/-! ### 5. `impl PartialEq for Variable` -/

mutual
theorem gen_eq_eq : (a b : Val) → variable_eq a b = Val.beq a b
  | .null, b => by cases b <;> simp [variable_eq, Val.beq, Val.type]
  | .bool x, b => by cases b <;> simp [variable_eq, Val.beq, Val.type, as_boolean]
  | .num x, b => by cases b <;> simp [variable_eq, Val.beq, Val.type, as_number, gen_float_eq_eq]
  | .str x, b => by cases b <;> simp [variable_eq, Val.beq, Val.type, as_string]
  | .arr xs, b => by
    cases b <;> simp [variable_eq, Val.beq, Val.type, as_array] <;> exact gen_eq_vec_eq xs _
  | .obj xs, b => by
    cases b <;> simp [variable_eq, Val.beq, Val.type, as_object] <;> exact gen_eq_map_eq xs _
  | .expref x, b => by cases b <;> simp [variable_eq, Val.beq, Val.type, as_expref]
theorem gen_eq_vec_eq : (xs ys : List Val) → eq_vec xs ys = valsBeq xs ys
  | [], [] => by simp [eq_vec, valsBeq]
  | [], _ :: _ => by simp [eq_vec, valsBeq]
  | _ :: _, [] => by simp [eq_vec, valsBeq]
  | a :: xs, b :: ys => by simp [eq_vec, valsBeq, gen_eq_eq a b, gen_eq_vec_eq xs ys]
theorem gen_eq_map_eq : (xs ys : List (String × Val)) → eq_map xs ys = kvsBeq xs ys
  | [], [] => by simp [eq_map, kvsBeq]
  | [], _ :: _ => by simp [eq_map, kvsBeq]
  | _ :: _, [] => by simp [eq_map, kvsBeq]
  | (k, a) :: xs, (k', b) :: ys => by simp [eq_map, kvsBeq, gen_eq_eq a b, gen_eq_map_eq xs ys]
end

/-! ### 6. `impl Ord for Variable` -/

theorem gen_cmp_eq (a b : Val) : variable_cmp a b = Val.cmp a b := by
  cases a <;> cases b <;> simp [variable_cmp, Val.cmp, Val.type, as_string, as_number, f64PartialCmp]
  repeat' split
  all_goals simp_all

/-! ### non-vacuity: the translated code on concrete inputs -/

/-- evaluate the translated definitions on a closed term (the loop functions of `validate` by whatever names the
translator gave them) -/
macro "vc_eval" : tactic =>
  `(tactic| first
    | simp [validate, validate_arity, validate_loop_1, validate_loop_2, validate_arg, is_valid, is_valid_all_1, is_valid_any_1,
        argument_type_fmt, argument_type_fmt_map_1, jmespath_type_fmt, Val.type, Generated.Code.indexChecked,
        as_array, as_object, as_string, as_number, as_boolean, as_null, as_expref, is_array, is_object,
        is_string, is_number, is_boolean, is_null, is_expref, variable_eq, eq_vec, eq_map, variable_cmp,
        String.intercalate_cons_cons]
    | simp [validate, validate_arity, validate_loop_1, validate_arg, is_valid, is_valid_all_1, is_valid_any_1,
        argument_type_fmt, argument_type_fmt_map_1, jmespath_type_fmt, Val.type, Generated.Code.indexChecked,
        as_array, as_object, as_string, as_number, as_boolean, as_null, as_expref, is_array, is_object,
        is_string, is_number, is_boolean, is_null, is_expref, variable_eq, eq_vec, eq_map, variable_cmp,
        String.intercalate_cons_cons, Option.or])

example : validate [.number] none [.str "a"] = .error (.err (.invalidType "number" "string" 0)) := by vc_eval
/-- two offending arguments: the first one (position 1) is reported -/
example : validate [.number, .string, .number] none [.num (.pos 1), .num (.pos 2), .str "x"]
    = .error (.err (.invalidType "string" "number" 1)) := by vc_eval
example : validate [.string] (some (.union [.number, .typedArray .string])) [.str "a", .num (.pos 1), .null]
    = .error (.err (.invalidType "number|array[string]" "null" 2)) := by vc_eval
/-- arity is checked before the types -/
example : validate [.string] (some .number) [] = .error (.err (.notEnough 1 0)) := by vc_eval
example : validate [.string] none [.null, .null] = .error (.err (.tooMany 1 2)) := by vc_eval
example : validate [.string] (some .number) [.str "a", .num (.pos 1)] = .ok () := by vc_eval
/-- the checked index of the non-variadic loop is a real check: without the arity check it does fault -/
example : True := by
  first
  | (have : validate_loop_2 [] none 0 [.null] = .error (.fault .outOfBounds) := by vc_eval
     trivial)
  | (have : validate_loop_1 [] none 0 [.null] = .error (.fault .outOfBounds) := by vc_eval
     trivial)
example : is_valid (.typedArray .number) (.arr [.num (.pos 1), .str "a"]) = false := by vc_eval
example : is_valid (.typedArray .number) (.arr [.num (.pos 1), .num (.pos 3)]) = true := by vc_eval
example : is_valid (.typedArray .number) (.arr []) = true ∧ is_valid (.typedArray .number) .null = false := by vc_eval
example : is_valid (.union [.string, .null]) .null = true ∧ is_valid (.union []) .null = false := by vc_eval
example : is_valid .null (.str "") = false := by vc_eval
example : variable_eq (.arr [.str "a"]) (.arr [.str "a", .null]) = false := by vc_eval
example : variable_eq (.arr [.str "a", .null]) (.arr [.str "a", .null]) = true := by vc_eval
example : variable_eq (.obj [("a", .null)]) (.obj [("b", .null)]) = false := by vc_eval
example : variable_eq (.str "1") (.num (.pos 1)) = false := by vc_eval
example : variable_eq (.num (.pos 1)) (.num (.flt (F64.ofNat 1))) = true := by decide +kernel
example : variable_cmp (.str "b") (.str "a") = .gt := by vc_eval; decide
example : variable_cmp (.num (.pos 1)) (.num (.pos 2)) = .lt ∧ variable_cmp (.str "b") .null = .eq := by decide +kernel
example : argument_type_fmt (.union [.number, .typedArray .string, .null]) = "number|array[string]|null" := by vc_eval
example : float_eq (F64.ofNat 1) (F64.ofNat 2) = false ∧ float_eq F64.nan F64.nan = false := by decide +kernel
/-- `0.1 + 0.2` and `0.3` differ as doubles but are `float_eq` -/
example : float_eq (F64.add (F64.ofRat (1/10)) (F64.ofRat (2/10))) (F64.ofRat (3/10)) = true
    ∧ F64.feq (F64.add (F64.ofRat (1/10)) (F64.ofRat (2/10))) (F64.ofRat (3/10)) = false := by decide +kernel

end JmesVerif

#print axioms JmesVerif.gen_is_valid_eq
#print axioms JmesVerif.gen_all_is_List_all
#print axioms JmesVerif.gen_any_is_List_any
#print axioms JmesVerif.gen_jtype_name_eq
#print axioms JmesVerif.gen_argt_name_eq
#print axioms JmesVerif.gen_valid_arity_eq
#print axioms JmesVerif.gen_validate_arg_eq
#print axioms JmesVerif.gen_validate_eq
#print axioms JmesVerif.gen_validate_no_fault
#print axioms JmesVerif.gen_float_eq_eq
#print axioms JmesVerif.gen_eq_eq
#print axioms JmesVerif.gen_cmp_eq
