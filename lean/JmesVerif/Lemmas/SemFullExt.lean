import JmesVerif.Spec.SemFull
import JmesVerif.Lemmas.InterpDisc
/-
`SemFull` extends `Sem`: on core expressions the two semantics coincide, core expressions are
covered (`exprOk`), and covered expressions have disciplined trees.
-/
namespace JmesVerif

/-! ### core expressions are covered -/
mutual
theorem nudOk_of_core : ∀ h : Nud, Sem.nudCore h = true → SemFull.nudOk h = true
  | .at, _ => by simp [SemFull.nudOk]
  | .field _, _ => by simp [SemFull.nudOk]
  | .qfield _, _ => by simp [SemFull.nudOk]
  | .call _ _, hc => by simp [Sem.nudCore] at hc
  | .lit _, hc => by simpa [Sem.nudCore, SemFull.nudOk] using hc
  | .idx _, _ => by simp [SemFull.nudOk]
  | .paren e, hc => by simp only [Sem.nudCore] at hc; simp only [SemFull.nudOk]; exact exprOk_of_core' e hc
  | .not e, hc => by simp only [Sem.nudCore] at hc; simp only [SemFull.nudOk]; exact exprOk_of_core' e hc
  | .mlist es, hc => by simp only [Sem.nudCore] at hc; simp only [SemFull.nudOk]; exact exprsOk_of_core es hc
  | .mhash kvs, hc => by simp only [Sem.nudCore] at hc; simp only [SemFull.nudOk]; exact kvsOk_of_core kvs hc
  | .wildIdx r, hc => by simp only [Sem.nudCore] at hc; simp only [SemFull.nudOk]; exact rhsOk_of_core r hc
  | .star r, hc => by simp only [Sem.nudCore] at hc; simp only [SemFull.nudOk]; exact rhsOk_of_core r hc
  | .flatten r, hc => by simp only [Sem.nudCore] at hc; simp only [SemFull.nudOk]; exact rhsOk_of_core r hc
  | .slice _ r, hc => by simp only [Sem.nudCore] at hc; simp only [SemFull.nudOk]; exact rhsOk_of_core r hc
  | .filter p r, hc => by
    simp only [Sem.nudCore, Bool.and_eq_true] at hc
    simp only [SemFull.nudOk, Bool.and_eq_true]
    exact ⟨exprOk_of_core' p hc.1, rhsOk_of_core r hc.2⟩
  | .expref _, hc => by simp [Sem.nudCore] at hc
theorem ledOk_of_core : ∀ l : Led, Sem.ledCore l = true → SemFull.ledOk l = true
  | .dot dr, hc => by simp only [Sem.ledCore] at hc; simp only [SemFull.ledOk]; exact dotOk_of_core dr hc
  | .index _, _ => by simp [SemFull.ledOk]
  | .pipe e, hc => by simp only [Sem.ledCore] at hc; simp only [SemFull.ledOk]; exact exprOk_of_core' e hc
  | .or e, hc => by simp only [Sem.ledCore] at hc; simp only [SemFull.ledOk]; exact exprOk_of_core' e hc
  | .and e, hc => by simp only [Sem.ledCore] at hc; simp only [SemFull.ledOk]; exact exprOk_of_core' e hc
  | .cmp _ e, hc => by simp only [Sem.ledCore] at hc; simp only [SemFull.ledOk]; exact exprOk_of_core' e hc
  | .wildIdxL r, hc => by simp only [Sem.ledCore] at hc; simp only [SemFull.ledOk]; exact rhsOk_of_core r hc
  | .dotStar r, hc => by simp only [Sem.ledCore] at hc; simp only [SemFull.ledOk]; exact rhsOk_of_core r hc
  | .flattenL r, hc => by simp only [Sem.ledCore] at hc; simp only [SemFull.ledOk]; exact rhsOk_of_core r hc
  | .sliceL _ r, hc => by simp only [Sem.ledCore] at hc; simp only [SemFull.ledOk]; exact rhsOk_of_core r hc
  | .filterL p r, hc => by
    simp only [Sem.ledCore, Bool.and_eq_true] at hc
    simp only [SemFull.ledOk, Bool.and_eq_true]
    exact ⟨exprOk_of_core' p hc.1, rhsOk_of_core r hc.2⟩
  | .callDev _, hc => by simp [Sem.ledCore] at hc
theorem rhsOk_of_core : ∀ r : Rhs, Sem.rhsCore r = true → SemFull.rhsOk r = true
  | .none, _ => by simp [SemFull.rhsOk]
  | .dot dr, hc => by simp only [Sem.rhsCore] at hc; simp only [SemFull.rhsOk]; exact dotOk_of_core dr hc
  | .bracket e, hc => by simp only [Sem.rhsCore] at hc; simp only [SemFull.rhsOk]; exact exprOk_of_core' e hc
theorem dotOk_of_core : ∀ dr : DotRhs, Sem.dotCore dr = true → SemFull.dotOk dr = true
  | .mlist es, hc => by simp only [Sem.dotCore] at hc; simp only [SemFull.dotOk]; exact exprsOk_of_core es hc
  | .expr e, hc => by simp only [Sem.dotCore] at hc; simp only [SemFull.dotOk]; exact exprOk_of_core' e hc
theorem exprOk_of_core' : ∀ e : Expr, Sem.exprCore e = true → SemFull.exprOk e = true
  | .mk h ls, hc => by
    simp only [Sem.exprCore, Bool.and_eq_true] at hc
    simp only [SemFull.exprOk, Bool.and_eq_true]
    exact ⟨nudOk_of_core h hc.1, ledsOk_of_core ls hc.2⟩
theorem ledsOk_of_core : ∀ ls : List Led, Sem.ledsCore ls = true → SemFull.ledsOk ls = true
  | [], _ => by simp [SemFull.ledsOk]
  | l :: ls, hc => by
    simp only [Sem.ledsCore, Bool.and_eq_true] at hc
    simp only [SemFull.ledsOk, Bool.and_eq_true]
    exact ⟨ledOk_of_core l hc.1, ledsOk_of_core ls hc.2⟩
theorem exprsOk_of_core : ∀ es : List Expr, Sem.exprsCore es = true → SemFull.exprsOk es = true
  | [], _ => by simp [SemFull.exprsOk]
  | e :: es, hc => by
    simp only [Sem.exprsCore, Bool.and_eq_true] at hc
    simp only [SemFull.exprsOk, Bool.and_eq_true]
    exact ⟨exprOk_of_core' e hc.1, exprsOk_of_core es hc.2⟩
theorem kvsOk_of_core : ∀ kvs : List (Bool × String × Expr), Sem.kvsCore kvs = true →
    SemFull.kvsOk kvs = true
  | [], _ => by simp [SemFull.kvsOk]
  | (_, _, e) :: r, hc => by
    simp only [Sem.kvsCore, Bool.and_eq_true] at hc
    simp only [SemFull.kvsOk, Bool.and_eq_true]
    exact ⟨exprOk_of_core' e hc.1, kvsOk_of_core r hc.2⟩
end

/-- core expressions are covered by the full semantics -/
theorem exprOk_of_core (e : Expr) (h : Sem.exprCore e = true) : SemFull.exprOk e = true :=
  exprOk_of_core' e h

/-! ### on core expressions the two semantics coincide -/
mutual
theorem nud_eq_Sem : ∀ h : Nud, Sem.nudCore h = true → ∀ d : Val, SemFull.nud d h = Sem.nud d h
  | .at, _, d => by simp [SemFull.nud, Sem.nud]
  | .field _, _, d => by simp [SemFull.nud, Sem.nud]
  | .qfield _, _, d => by simp [SemFull.nud, Sem.nud]
  | .call _ _, hc, _ => by simp [Sem.nudCore] at hc
  | .lit _, _, d => by simp [SemFull.nud, Sem.nud]
  | .idx _, _, d => by simp [SemFull.nud, Sem.nud]
  | .paren e, hc, d => by
    simp only [Sem.nudCore] at hc
    have ih := expr_eq_Sem e hc
    simp only [SemFull.nud, Sem.nud, ih]
  | .not e, hc, d => by
    simp only [Sem.nudCore] at hc
    have ih := expr_eq_Sem e hc
    simp only [SemFull.nud, Sem.nud, ih]
  | .mlist es, hc, d => by
    simp only [Sem.nudCore] at hc
    have ih := exprs_eq_Sem es hc
    simp only [SemFull.nud, Sem.nud, ih]
  | .mhash kvs, hc, d => by
    simp only [Sem.nudCore] at hc
    have ih := kvs_eq_Sem kvs hc
    simp only [SemFull.nud, Sem.nud, ih]
  | .wildIdx r, hc, d => by
    simp only [Sem.nudCore] at hc
    have ih := rhs_eq_Sem r hc
    simp only [SemFull.nud, Sem.nud, ih]
    cases d <;> rfl
  | .star r, hc, d => by
    simp only [Sem.nudCore] at hc
    have ih := rhs_eq_Sem r hc
    simp only [SemFull.nud, Sem.nud, ih]
    cases d <;> rfl
  | .flatten r, hc, d => by
    simp only [Sem.nudCore] at hc
    have ih := rhs_eq_Sem r hc
    simp only [SemFull.nud, Sem.nud, ih]
    cases d <;> rfl
  | .slice _ r, hc, d => by
    simp only [Sem.nudCore] at hc
    have ih := rhs_eq_Sem r hc
    simp only [SemFull.nud, Sem.nud, ih]
    cases d <;> rfl
  | .filter p r, hc, d => by
    simp only [Sem.nudCore, Bool.and_eq_true] at hc
    have ih1 := expr_eq_Sem p hc.1
    have ih2 := rhs_eq_Sem r hc.2
    simp only [SemFull.nud, Sem.nud, ih1, ih2]
    cases d <;> rfl
  | .expref _, hc, _ => by simp [Sem.nudCore] at hc
theorem led_eq_Sem : ∀ l : Led, Sem.ledCore l = true → ∀ d lv : Val, SemFull.led d lv l = Sem.led d lv l
  | .dot dr, hc, d, lv => by
    simp only [Sem.ledCore] at hc
    have ih := dot_eq_Sem dr hc
    simp only [SemFull.led, Sem.led, ih]
  | .index _, _, d, lv => by simp [SemFull.led, Sem.led]
  | .pipe e, hc, d, lv => by
    simp only [Sem.ledCore] at hc
    have ih := expr_eq_Sem e hc
    simp only [SemFull.led, Sem.led, ih]
  | .or e, hc, d, lv => by
    simp only [Sem.ledCore] at hc
    have ih := expr_eq_Sem e hc
    simp only [SemFull.led, Sem.led, ih]
  | .and e, hc, d, lv => by
    simp only [Sem.ledCore] at hc
    have ih := expr_eq_Sem e hc
    simp only [SemFull.led, Sem.led, ih]
  | .cmp _ e, hc, d, lv => by
    simp only [Sem.ledCore] at hc
    have ih := expr_eq_Sem e hc
    simp only [SemFull.led, Sem.led, ih]
  | .wildIdxL r, hc, d, lv => by
    simp only [Sem.ledCore] at hc
    have ih := rhs_eq_Sem r hc
    simp only [SemFull.led, Sem.led, ih]
    cases lv <;> rfl
  | .dotStar r, hc, d, lv => by
    simp only [Sem.ledCore] at hc
    have ih := rhs_eq_Sem r hc
    simp only [SemFull.led, Sem.led, ih]
    cases lv <;> rfl
  | .flattenL r, hc, d, lv => by
    simp only [Sem.ledCore] at hc
    have ih := rhs_eq_Sem r hc
    simp only [SemFull.led, Sem.led, ih]
    cases lv <;> rfl
  | .sliceL _ r, hc, d, lv => by
    simp only [Sem.ledCore] at hc
    have ih := rhs_eq_Sem r hc
    simp only [SemFull.led, Sem.led, ih]
    cases lv <;> rfl
  | .filterL p r, hc, d, lv => by
    simp only [Sem.ledCore, Bool.and_eq_true] at hc
    have ih1 := expr_eq_Sem p hc.1
    have ih2 := rhs_eq_Sem r hc.2
    simp only [SemFull.led, Sem.led, ih1, ih2]
    cases lv <;> rfl
  | .callDev _, hc, _, _ => by simp [Sem.ledCore] at hc
theorem rhs_eq_Sem : ∀ r : Rhs, Sem.rhsCore r = true → ∀ el : Val, SemFull.rhs el r = Sem.rhs el r
  | .none, _, el => by simp [SemFull.rhs, Sem.rhs]
  | .dot dr, hc, el => by
    simp only [Sem.rhsCore] at hc
    have ih := dot_eq_Sem dr hc
    simp only [SemFull.rhs, Sem.rhs, ih]
  | .bracket e, hc, el => by
    simp only [Sem.rhsCore] at hc
    have ih := expr_eq_Sem e hc
    simp only [SemFull.rhs, Sem.rhs, ih]
theorem dot_eq_Sem : ∀ dr : DotRhs, Sem.dotCore dr = true → ∀ el : Val, SemFull.dot el dr = Sem.dot el dr
  | .mlist es, hc, el => by
    simp only [Sem.dotCore] at hc
    have ih := exprs_eq_Sem es hc
    simp only [SemFull.dot, Sem.dot, ih]
  | .expr e, hc, el => by
    simp only [Sem.dotCore] at hc
    have ih := expr_eq_Sem e hc
    simp only [SemFull.dot, Sem.dot, ih]
theorem expr_eq_Sem : ∀ e : Expr, Sem.exprCore e = true → ∀ d : Val, SemFull.expr d e = Sem.expr d e
  | .mk h ls, hc, d => by
    simp only [Sem.exprCore, Bool.and_eq_true] at hc
    have ih1 := nud_eq_Sem h hc.1
    have ih2 := leds_eq_Sem ls hc.2
    simp only [SemFull.expr, Sem.expr, ih1, ih2]
    cases Sem.nud d h <;> rfl
theorem leds_eq_Sem : ∀ ls : List Led, Sem.ledsCore ls = true → ∀ d lv : Val,
    SemFull.leds d lv ls = Sem.leds d lv ls
  | [], _, d, lv => by simp [SemFull.leds, Sem.leds]
  | l :: ls, hc, d, lv => by
    simp only [Sem.ledsCore, Bool.and_eq_true] at hc
    have ih1 := led_eq_Sem l hc.1
    have ih2 := leds_eq_Sem ls hc.2
    simp only [SemFull.leds, Sem.leds, ih1, ih2]
    cases Sem.led d lv l <;> rfl
theorem exprs_eq_Sem : ∀ es : List Expr, Sem.exprsCore es = true → ∀ d : Val,
    SemFull.exprs d es = Sem.exprs d es
  | [], _, d => by simp [SemFull.exprs, Sem.exprs]
  | e :: es, hc, d => by
    simp only [Sem.exprsCore, Bool.and_eq_true] at hc
    have ih1 := expr_eq_Sem e hc.1
    have ih2 := exprs_eq_Sem es hc.2
    simp only [SemFull.exprs, Sem.exprs, ih1, ih2]
    cases Sem.expr d e <;> rfl
theorem kvs_eq_Sem : ∀ kvs : List (Bool × String × Expr), Sem.kvsCore kvs = true →
    ∀ (d : Val) (acc : List (String × Val)), SemFull.kvs' d kvs acc = Sem.kvs' d kvs acc
  | [], _, d, acc => by simp [SemFull.kvs', Sem.kvs']
  | (_, _, e) :: r, hc, d, acc => by
    simp only [Sem.kvsCore, Bool.and_eq_true] at hc
    have ih1 := expr_eq_Sem e hc.1
    have ih2 := kvs_eq_Sem r hc.2
    simp only [SemFull.kvs', Sem.kvs', ih1, ih2]
    cases Sem.expr d e <;> rfl
end

/-- on core expressions the full semantics is the core semantics -/
theorem SemFull_eq_Sem (e : Expr) (h : Sem.exprCore e = true) (d : Val) :
    SemFull.expr d e = Sem.expr d e := expr_eq_Sem e h d

/-! ### covered expressions have disciplined trees -/
theorem discArgs_cons_of_disc (name : String) (i : Nat) (a : Ast) (rest : List Ast)
    (ha : a.Disciplined = true) :
    Ast.discArgs name i (a :: rest) = Ast.discArgs name (i + 1) rest := by
  rw [Ast.discArgs.eq_3]
  · simp [ha]
  · intro p body he
    subst he
    simp [Ast.Disciplined] at ha

theorem args_cons_disc (h : Nud) (ls : List Led) (rest : List Expr)
    (hnud : SemFull.nudOk h = true → h.ast.Disciplined = true)
    (hfn : ∀ e, h = .expref e → SemFull.exprOk e = true → e.ast.Disciplined = true)
    (hleds : SemFull.ledsOk ls = true → ∀ left : Ast, left.Disciplined = true →
      (ledsAst left ls).Disciplined = true)
    (hrest : ∀ (name : String) (i : Nat), SemFull.argsOk name i rest = true →
      Ast.discArgs name i (exprsAst rest) = true)
    (name : String) (i : Nat) (hok : SemFull.argsOk name i (.mk h ls :: rest) = true) :
    Ast.discArgs name i (exprsAst (.mk h ls :: rest)) = true := by
  by_cases hex : ∃ e, Expr.mk h ls = .mk (.expref e) []
  · obtain ⟨e, he⟩ := hex
    injection he with h1 h2
    subst h1; subst h2
    simp only [SemFull.argsOk, Bool.and_eq_true] at hok
    simp only [exprsAst, Expr.ast, Nud.ast, ledsAst, Ast.discArgs, Bool.and_eq_true]
    exact ⟨⟨hok.1.1, hfn e rfl hok.1.2⟩, hrest name (i + 1) hok.2⟩
  · have hne : ∀ e', Expr.mk h ls = .mk (.expref e') [] → False := fun e' he => hex ⟨e', he⟩
    rw [SemFull.argsOk.eq_3 _ _ _ _ hne] at hok
    simp only [Bool.and_eq_true, SemFull.exprOk] at hok
    have hD : (Expr.mk h ls).ast.Disciplined = true := by
      simp only [Expr.ast]
      exact hleds hok.1.2 _ (hnud hok.1.1)
    simp only [exprsAst]
    rw [discArgs_cons_of_disc _ _ _ _ hD]
    exact hrest name (i + 1) hok.2

mutual
theorem nud_disc : ∀ h : Nud, SemFull.nudOk h = true → h.ast.Disciplined = true
  | .at, _ => by simp [Nud.ast, Ast.Disciplined]
  | .field _, _ => by simp [Nud.ast, Ast.Disciplined]
  | .qfield _, _ => by simp [Nud.ast, Ast.Disciplined]
  | .call name as, hc => by
    simp only [SemFull.nudOk] at hc
    simpa [Nud.ast, Ast.Disciplined] using args_disc as name 0 hc
  | .lit _, hc => by simpa [SemFull.nudOk, Nud.ast, Ast.Disciplined] using hc
  | .idx _, _ => by simp [Nud.ast, Ast.Disciplined]
  | .paren e, hc => by simp only [SemFull.nudOk] at hc; simpa [Nud.ast] using expr_disc e hc
  | .not e, hc => by simp only [SemFull.nudOk] at hc; simpa [Nud.ast, Ast.Disciplined] using expr_disc e hc
  | .mlist es, hc => by simp only [SemFull.nudOk] at hc; simpa [Nud.ast, Ast.Disciplined] using exprs_disc es hc
  | .mhash kvs, hc => by simp only [SemFull.nudOk] at hc; simpa [Nud.ast, Ast.Disciplined] using kvs_disc kvs hc
  | .wildIdx r, hc => by simp only [SemFull.nudOk] at hc; simpa [Nud.ast, Ast.Disciplined] using rhs_disc r hc
  | .star r, hc => by simp only [SemFull.nudOk] at hc; simpa [Nud.ast, Ast.Disciplined] using rhs_disc r hc
  | .flatten r, hc => by simp only [SemFull.nudOk] at hc; simpa [Nud.ast, Ast.Disciplined] using rhs_disc r hc
  | .slice _ r, hc => by simp only [SemFull.nudOk] at hc; simpa [Nud.ast, Ast.Disciplined] using rhs_disc r hc
  | .filter p r, hc => by
    simp only [SemFull.nudOk, Bool.and_eq_true] at hc
    simp [Nud.ast, Ast.Disciplined, expr_disc p hc.1, rhs_disc r hc.2]
  | .expref _, hc => by simp [SemFull.nudOk] at hc
theorem led_disc : ∀ l : Led, SemFull.ledOk l = true → ∀ left : Ast, left.Disciplined = true →
    (l.ast left).Disciplined = true
  | .dot dr, hc, left, hl => by simp only [SemFull.ledOk] at hc; simp [Led.ast, Ast.Disciplined, hl, dot_disc dr hc]
  | .index _, _, left, hl => by simp [Led.ast, Ast.Disciplined, hl]
  | .pipe e, hc, left, hl => by simp only [SemFull.ledOk] at hc; simp [Led.ast, Ast.Disciplined, hl, expr_disc e hc]
  | .or e, hc, left, hl => by simp only [SemFull.ledOk] at hc; simp [Led.ast, Ast.Disciplined, hl, expr_disc e hc]
  | .and e, hc, left, hl => by simp only [SemFull.ledOk] at hc; simp [Led.ast, Ast.Disciplined, hl, expr_disc e hc]
  | .cmp _ e, hc, left, hl => by simp only [SemFull.ledOk] at hc; simp [Led.ast, Ast.Disciplined, hl, expr_disc e hc]
  | .wildIdxL r, hc, left, hl => by simp only [SemFull.ledOk] at hc; simp [Led.ast, Ast.Disciplined, hl, rhs_disc r hc]
  | .dotStar r, hc, left, hl => by simp only [SemFull.ledOk] at hc; simp [Led.ast, Ast.Disciplined, hl, rhs_disc r hc]
  | .flattenL r, hc, left, hl => by simp only [SemFull.ledOk] at hc; simp [Led.ast, Ast.Disciplined, hl, rhs_disc r hc]
  | .sliceL _ r, hc, left, hl => by simp only [SemFull.ledOk] at hc; simp [Led.ast, Ast.Disciplined, hl, rhs_disc r hc]
  | .filterL p r, hc, left, hl => by
    simp only [SemFull.ledOk, Bool.and_eq_true] at hc
    simp [Led.ast, Ast.Disciplined, hl, expr_disc p hc.1, rhs_disc r hc.2]
  | .callDev _, hc, _, _ => by simp [SemFull.ledOk] at hc
theorem rhs_disc : ∀ r : Rhs, SemFull.rhsOk r = true → r.ast.Disciplined = true
  | .none, _ => by simp [Rhs.ast, Ast.Disciplined]
  | .dot dr, hc => by simp only [SemFull.rhsOk] at hc; simpa [Rhs.ast] using dot_disc dr hc
  | .bracket e, hc => by simp only [SemFull.rhsOk] at hc; simpa [Rhs.ast] using expr_disc e hc
theorem dot_disc : ∀ dr : DotRhs, SemFull.dotOk dr = true → dr.ast.Disciplined = true
  | .mlist es, hc => by simp only [SemFull.dotOk] at hc; simpa [DotRhs.ast, Ast.Disciplined] using exprs_disc es hc
  | .expr e, hc => by simp only [SemFull.dotOk] at hc; simpa [DotRhs.ast] using expr_disc e hc
theorem expr_disc : ∀ e : Expr, SemFull.exprOk e = true → e.ast.Disciplined = true
  | .mk h ls, hc => by
    simp only [SemFull.exprOk, Bool.and_eq_true] at hc
    simpa [Expr.ast] using leds_disc ls hc.2 h.ast (nud_disc h hc.1)
theorem leds_disc : ∀ ls : List Led, SemFull.ledsOk ls = true → ∀ left : Ast, left.Disciplined = true →
    (ledsAst left ls).Disciplined = true
  | [], _, left, hl => by simpa [ledsAst] using hl
  | l :: ls, hc, left, hl => by
    simp only [SemFull.ledsOk, Bool.and_eq_true] at hc
    simpa [ledsAst] using leds_disc ls hc.2 _ (led_disc l hc.1 left hl)
theorem exprs_disc : ∀ es : List Expr, SemFull.exprsOk es = true → Ast.discList (exprsAst es) = true
  | [], _ => by simp [exprsAst, Ast.discList]
  | e :: es, hc => by
    simp only [SemFull.exprsOk, Bool.and_eq_true] at hc
    simp [exprsAst, Ast.discList, expr_disc e hc.1, exprs_disc es hc.2]
theorem kvs_disc : ∀ kvs : List (Bool × String × Expr), SemFull.kvsOk kvs = true →
    Ast.discKVs (kvsAst kvs) = true
  | [], _ => by simp [kvsAst, Ast.discKVs]
  | (_, _, e) :: r, hc => by
    simp only [SemFull.kvsOk, Bool.and_eq_true] at hc
    simp [kvsAst, Ast.discKVs, expr_disc e hc.1, kvs_disc r hc.2]
theorem nud_fn_disc : ∀ h : Nud, ∀ e, h = .expref e → SemFull.exprOk e = true → e.ast.Disciplined = true
  | .expref e => fun e' he hok => by cases he; exact expr_disc e hok
  | .at => fun _ he => nomatch he
  | .field _ => fun _ he => nomatch he
  | .qfield _ => fun _ he => nomatch he
  | .call _ _ => fun _ he => nomatch he
  | .lit _ => fun _ he => nomatch he
  | .star _ => fun _ he => nomatch he
  | .idx _ => fun _ he => nomatch he
  | .slice _ _ => fun _ he => nomatch he
  | .wildIdx _ => fun _ he => nomatch he
  | .mlist _ => fun _ he => nomatch he
  | .flatten _ => fun _ he => nomatch he
  | .mhash _ => fun _ he => nomatch he
  | .not _ => fun _ he => nomatch he
  | .filter _ _ => fun _ he => nomatch he
  | .paren _ => fun _ he => nomatch he
theorem args_disc : ∀ (es : List Expr) (name : String) (i : Nat), SemFull.argsOk name i es = true →
    Ast.discArgs name i (exprsAst es) = true
  | [], _, _, _ => by simp [exprsAst, Ast.discArgs]
  | (.mk h ls) :: rest, name, i, hok =>
    args_cons_disc h ls rest (nud_disc h) (nud_fn_disc h) (leds_disc ls) (args_disc rest) name i hok
end

/-- the tree of a covered expression is disciplined (`Lemmas/InterpDisc.lean`) -/
theorem exprOk_disciplined (e : Expr) (h : SemFull.exprOk e = true) : e.ast.Disciplined = true :=
  expr_disc e h

#print axioms exprOk_of_core
#print axioms SemFull_eq_Sem
#print axioms exprOk_disciplined

end JmesVerif
