import JmesVerif.Lemmas.FloatExactLog
import JmesVerif.Lemmas.JsonRoundTripNum
/-!
# The shortest-digits search is correct

`JsonPrint.shortest f` (for a positive finite canonical double `f`) either falls through its 17 rounds
(returning the digits `0`), or returns decimal digits `ds` with a non-zero leading digit and a scientific
exponent `ex` such that the decimal number `d₁.d₂d₃… × 10^ex` they spell rounds to `f`:
`F64.ofRat (D · 10^(ex − (|ds| − 1))) = f` where `D` is the natural number written by `ds`.
-/
namespace JmesVerif
namespace FloatExact
open F64

/-- what the digit search returns when it succeeds -/
structure DigitsSpec (f : F64) (ds : List Char) (ex : Int) : Prop where
  /-- only decimal digits -/
  isDigit : ∀ c ∈ ds, JsonText.isDigit c = true
  /-- a non-zero leading digit -/
  head : ∃ c l, ds = c :: l ∧ 49 ≤ c.toNat ∧ c.toNat ≤ 57
  /-- the number `d₁.d₂d₃… × 10^ex` rounds to `f` -/
  value : F64.ofRat ((Nat.ofDigitChars 10 ds 0 : Nat) * JsonPrint.pow10 (ex - ((ds.length : Int) - 1))) = f

/-! ### trailing zeros -/

theorem takeWhile_eq_replicate (l : List Char) :
    l.takeWhile (· = '0') = List.replicate (l.takeWhile (· = '0')).length '0' := by
  induction l with
  | nil => rfl
  | cons c l ih =>
    by_cases h : c = '0'
    · subst h
      simp only [List.takeWhile_cons, decide_true, if_true, List.length_cons, List.replicate_succ]
      rw [← ih]
    · simp [h]

theorem strip_append (l : List Char) :
    ∃ t, l = JsonPrint.stripTrailingZeros l ++ List.replicate t '0' := by
  refine ⟨(l.reverse.takeWhile (· = '0')).length, ?_⟩
  have h := List.takeWhile_append_dropWhile (p := (· = '0')) (l := l.reverse)
  have h2 : l = (l.reverse.dropWhile (· = '0')).reverse ++ (l.reverse.takeWhile (· = '0')).reverse := by
    rw [← List.reverse_append, h, List.reverse_reverse]
  have h3 : (l.reverse.takeWhile (· = '0')).reverse =
      List.replicate (l.reverse.takeWhile (· = '0')).length '0' := by
    have := congrArg List.reverse (takeWhile_eq_replicate l.reverse)
    rw [List.reverse_replicate] at this
    exact this
  unfold JsonPrint.stripTrailingZeros
  rw [← h3]; exact h2

/-- the `p` digits of `N`, trailing zeros stripped: `N = D · 10^t` with `D` written by the result -/
theorem strip_digits_spec {N p : Nat} (hp : 1 ≤ p) (h1 : 10 ^ (p - 1) ≤ N) (h2 : N < 10 ^ p) :
    ∃ t, (JsonPrint.stripTrailingZeros (Nat.toDigits 10 N)).length + t = p ∧
      N = Nat.ofDigitChars 10 (JsonPrint.stripTrailingZeros (Nat.toDigits 10 N)) 0 * 10 ^ t ∧
      (∀ c ∈ JsonPrint.stripTrailingZeros (Nat.toDigits 10 N), JsonText.isDigit c = true) ∧
      (∃ c l, JsonPrint.stripTrailingZeros (Nat.toDigits 10 N) = c :: l ∧ 49 ≤ c.toNat ∧ c.toNat ≤ 57) := by
  have hNpos : 0 < N := Nat.lt_of_lt_of_le (Nat.pow_pos (by decide)) h1
  have hlen : (Nat.toDigits 10 N).length = p := by
    have a := (Nat.length_toDigits_le_iff (b := 10) (n := N) (by decide) hp).2 h2
    by_cases hp1 : p = 1
    · have := Nat.length_toDigits_pos (b := 10) (n := N); omega
    · have b := (Nat.length_toDigits_le_iff (b := 10) (n := N) (k := p - 1) (by decide) (by omega))
      have : ¬ (Nat.toDigits 10 N).length ≤ p - 1 := fun h => by have := b.1 h; omega
      omega
  obtain ⟨t, ht⟩ := strip_append (Nat.toDigits 10 N)
  obtain ⟨d0, tl, hd, hd1, hd2⟩ := JsonRT.toDigits_head N hNpos
  have hval : Nat.ofDigitChars 10 (Nat.toDigits 10 N) 0 = N := Nat.ofDigitChars_ten_toDigits
  generalize hds : JsonPrint.stripTrailingZeros (Nat.toDigits 10 N) = ds at *
  refine ⟨t, ?_, ?_, ?_, ?_⟩
  · have := congrArg List.length ht
    rw [List.length_append, List.length_replicate, hlen] at this
    exact this.symm
  · rw [ht, Nat.ofDigitChars_append, Nat.ofDigitChars_replicate_zero] at hval
    rw [← hval, Nat.mul_comm]
  · intro c hc
    apply JsonRT.isDigit_of_mem_toDigits (n := N)
    rw [ht]; exact List.mem_append_left _ hc
  · cases ds with
    | nil =>
      exfalso
      rw [hd, List.nil_append] at ht
      cases t with
      | zero => simp at ht
      | succ t =>
        rw [List.replicate_succ] at ht
        injection ht with h0 _
        rw [h0] at hd1; revert hd1; decide
    | cons c l =>
      rw [hd, List.cons_append] at ht
      injection ht with h0 _
      exact ⟨c, l, rfl, h0 ▸ hd1, h0 ▸ hd2⟩

/-! ### one round of the search -/

theorem scaled_bounds {q : Rat} {e10 : Int} (hlo : JsonPrint.pow10 e10 ≤ q)
    (hhi : q < JsonPrint.pow10 (e10 + 1)) (p : Nat) (hp : 1 ≤ p) :
    ((10 ^ (p - 1) : Nat) : Rat) ≤ q * JsonPrint.pow10 ((p : Int) - 1 - e10) ∧
    q * JsonPrint.pow10 ((p : Int) - 1 - e10) < ((10 ^ p : Nat) : Rat) := by
  have hs := p10_pos ((p : Int) - 1 - e10)
  have e1 : JsonPrint.pow10 ((p - 1 : Nat) : Int) = JsonPrint.pow10 e10 * JsonPrint.pow10 ((p : Int) - 1 - e10) := by
    rw [← p10_add]; congr 1; omega
  have e2 : JsonPrint.pow10 ((p : Nat) : Int) = JsonPrint.pow10 (e10 + 1) * JsonPrint.pow10 ((p : Int) - 1 - e10) := by
    rw [← p10_add]; congr 1; omega
  rw [← p10_natCast, ← p10_natCast, e1, e2]
  exact ⟨Rat.mul_le_mul_of_nonneg_right hlo (Rat.le_of_lt hs), Rat.mul_lt_mul_of_pos_right hhi hs⟩

theorem pick_spec {okLo okHi : Bool} {c1 c2 c3 : Prop} [Decidable c1] [Decidable c2] [Decidable c3]
    {lo hi d : Int}
    (h : (if (okLo && okHi) = true then
            (if c1 then some lo else if c2 then some hi else if c3 then some lo else some hi)
          else if okLo = true then some lo else if okHi = true then some hi else none) = some d) :
    (d = lo ∧ okLo = true) ∨ (d = hi ∧ okHi = true) := by
  cases okLo <;> cases okHi <;> simp at h
  · exact Or.inr ⟨h.symm, rfl⟩
  · exact Or.inl ⟨h.symm, rfl⟩
  · repeat' split at h
    all_goals simp at h
    all_goals first | exact Or.inl ⟨h.symm, rfl⟩ | exact Or.inr ⟨h.symm, rfl⟩

/-- the pair a successful round returns -/
def roundOut (e10 : Int) (p : Nat) (d : Int) : List Char × Int :=
  if d.toNat = 10 ^ p then (['1'], e10 + 1)
  else (JsonPrint.stripTrailingZeros (JsonPrint.natDigits d.toNat), e10)

theorem natDigits_eq (n : Nat) : JsonPrint.natDigits n = Nat.toDigits 10 n := by
  simp [JsonPrint.natDigits]

theorem roundOut_spec {f : F64} {q : Rat} {e10 : Int} (hlo : JsonPrint.pow10 e10 ≤ q)
    (hhi : q < JsonPrint.pow10 (e10 + 1)) (p : Nat) (hp : 1 ≤ p) (d : Int)
    (hd : d = (q * JsonPrint.pow10 ((p : Int) - 1 - e10)).floor ∨
          d = (q * JsonPrint.pow10 ((p : Int) - 1 - e10)).floor + 1)
    (hv : F64.ofRat ((d : Rat) / JsonPrint.pow10 ((p : Int) - 1 - e10)) = f) :
    DigitsSpec f (roundOut e10 p d).1 (roundOut e10 p d).2 := by
  obtain ⟨b1, b2⟩ := scaled_bounds hlo hhi p hp
  generalize hs : q * JsonPrint.pow10 ((p : Int) - 1 - e10) = s at *
  have f1 : ((10 ^ (p - 1) : Nat) : Int) ≤ s.floor := by
    apply Rat.le_floor_iff.2; rw [Rat.intCast_natCast]; exact b1
  have f2 : s.floor < ((10 ^ p : Nat) : Int) := by
    apply Rat.floor_lt_iff.2; rw [Rat.intCast_natCast]; exact b2
  have hA : (0 : Int) < ((10 ^ (p - 1) : Nat) : Int) := by
    have : 0 < 10 ^ (p - 1) := Nat.pow_pos (by decide)
    exact_mod_cast this
  have hd0 : 0 ≤ d := by rcases hd with rfl | rfl <;> omega
  have hN1 : 10 ^ (p - 1) ≤ d.toNat := by rcases hd with rfl | rfl <;> omega
  have hN2 : d.toNat ≤ 10 ^ p := by rcases hd with rfl | rfl <;> omega
  have hcast : (d : Rat) = ((d.toNat : Nat) : Rat) := by
    rw [← Rat.intCast_natCast]; congr 1; omega
  rw [hcast, div_p10] at hv
  unfold roundOut
  generalize d.toNat = N at *
  split
  · rename_i hc
    subst hc
    refine ⟨?_, ⟨'1', [], rfl, by decide, by decide⟩, ?_⟩
    · intro c hc; simp at hc; subst hc; decide
    · rw [← hv]; congr 1
      have : Nat.ofDigitChars 10 ['1'] 0 = 1 := by decide
      simp only [this, List.length_cons, List.length_nil]
      rw [← p10_natCast, ← p10_add]
      have h1 : ((1 : Nat) : Rat) = 1 := by simp
      rw [h1, Rat.one_mul]
      congr 1; omega
  · rename_i hc
    obtain ⟨t, ht1, ht2, ht3, ht4⟩ := strip_digits_spec hp hN1 (by omega)
    rw [natDigits_eq]
    simp only
    generalize JsonPrint.stripTrailingZeros (Nat.toDigits 10 N) = ds at *
    refine ⟨ht3, ht4, ?_⟩
    rw [← hv]; congr 1
    rw [ht2, Rat.natCast_mul, ← p10_natCast, Rat.mul_assoc, ← p10_add]
    congr 2; omega

/-! ### the search -/

theorem natDigits_zero : JsonPrint.natDigits 0 = ['0'] := by
  rw [natDigits_eq, Nat.toDigits_zero]

theorem go_spec {f : F64} {q : Rat} {e10 : Int} (hlo : JsonPrint.pow10 e10 ≤ q)
    (hhi : q < JsonPrint.pow10 (e10 + 1)) : ∀ (fuel p : Nat), 1 ≤ p →
    JsonPrint.shortest.go f q e10 fuel p = (['0'], 0) ∨
    DigitsSpec f (JsonPrint.shortest.go f q e10 fuel p).1 (JsonPrint.shortest.go f q e10 fuel p).2 := by
  intro fuel
  induction fuel with
  | zero => intro p _; left; rw [JsonPrint.shortest.go, natDigits_zero]
  | succ n ih =>
    intro p hp
    rw [JsonPrint.shortest.go]
    split
    · rename_i d heq
      right
      have hr := roundOut_spec (f := f) hlo hhi p hp d
      unfold roundOut at hr
      rcases pick_spec heq with ⟨h1, h2⟩ | ⟨h1, h2⟩
      · exact hr (Or.inl h1) (by rw [h1]; exact eq_of_beq h2)
      · exact hr (Or.inr h1) (by rw [h1]; exact eq_of_beq h2)
    · exact ih (p + 1) (by omega)

theorem toRat_pos_bounds {m : Nat} {e : Int} (hc : CanonME m e) (hm : m ≠ 0) :
    0 < (F64.fin false m e).toRat ∧ -1074 ≤ ilog2 (F64.fin false m e).toRat ∧
      ilog2 (F64.fin false m e).toRat ≤ 1023 := by
  obtain ⟨c1, c2, c3⟩ := CanonME.lt hc
  have hq : (F64.fin false m e).toRat = (m : Rat) * pow2 e := by rw [toRat_fin]; simp
  rw [hq]
  have hm1 : (1 : Rat) ≤ (m : Rat) := by
    have : 1 ≤ m := Nat.pos_of_ne_zero hm
    exact_mod_cast this
  have hm2 : (m : Rat) < pow2 53 := by rw [pow2_53]; exact_mod_cast c1
  have hpe := pow2_pos e
  have hpos : 0 < (m : Rat) * pow2 e := Rat.mul_pos (by grind) hpe
  have lo1 : pow2 (-1074) ≤ pow2 e := pow2_le_pow2 c2
  have lo2 : 1 * pow2 e ≤ (m : Rat) * pow2 e := Rat.mul_le_mul_of_nonneg_right hm1 (Rat.le_of_lt hpe)
  have up1 : (m : Rat) * pow2 e < pow2 53 * pow2 e := Rat.mul_lt_mul_of_pos_right hm2 hpe
  have up2 : pow2 (53 + e) ≤ pow2 1024 := pow2_le_pow2 (by omega)
  rw [pow2_add] at up2
  refine ⟨hpos, le_ilog2 (by grind), ?_⟩
  have := ilog2_lt hpos (k := 1024) (by grind)
  omega

/-- **the shortest-digits search is correct**: for a positive canonical double, either the search
falls through all 17 rounds (and returns the digit `0`), or the digits it returns have a non-zero
leading digit and spell — as `d₁.d₂d₃… × 10^ex` — a decimal number that rounds to the double. -/
theorem shortest_spec {m : Nat} {e : Int} (hc : CanonME m e) (hm : m ≠ 0) :
    JsonPrint.shortest (.fin false m e) = (['0'], 0) ∨
    DigitsSpec (.fin false m e) (JsonPrint.shortest (.fin false m e)).1
      (JsonPrint.shortest (.fin false m e)).2 := by
  obtain ⟨hq, l1, l2⟩ := toRat_pos_bounds hc hm
  obtain ⟨a, b⟩ := ilog10_spec hq l1 l2
  exact go_spec a b 17 1 (by decide)

end FloatExact
end JmesVerif

#print axioms JmesVerif.FloatExact.shortest_spec
