import JmesVerif.Spec.SemFull
import JmesVerif.Model.Slice
namespace JmesVerif
open Spec

/-! ### `SafeF` (the analogue of `SliceSafe` for the full semantics `SemFull`): every array a slice is applied to during evaluation has at most `i32::MAX`
elements (the assumption of `array.len() as i32` in `variable.rs`, hypothesis of C07) -/
/-- the elements an `&e` argument is applied to: the array argument of `map(&e, xs)` /
`sort_by(xs, &e)` / `max_by` / `min_by` -/
def fnDomain : Option (List SemFull.Arg) → List Val
  | some [.fn _, .val (.arr xs)] => xs
  | some [.val (.arr xs), .fn _] => xs
  | _ => []

namespace SafeF
mutual
def nud (d : Val) : Nud → Prop
  | .paren e | .not e => expr d e
  | .mlist es => d.isNull = false → exprs d es
  | .mhash m => d.isNull = false → kvs d m
  | .wildIdx r => ∀ xs, d = .arr xs → ∀ x ∈ xs, rhs x r
  | .star r => ∀ m, d = .obj m → ∀ x ∈ Sem.values m, rhs x r
  | .flatten r => ∀ xs, d = .arr xs → ∀ x ∈ Sem.flatten1 xs, rhs x r
  | .slice h r => h.step ≠ 0 → ∀ xs, d = .arr xs →
      (xs.length : Int) ≤ I32_MAX ∧ ∀ x ∈ pySlice xs h.a h.b h.step, rhs x r
  | .filter p r => ∀ xs, d = .arr xs → ∀ x ∈ xs,
      expr x p ∧ ∀ c, SemFull.expr x p = some c → Sem.truthy c = true → rhs x r
  | .call _ as => args d as ∧ ∀ x ∈ fnDomain (SemFull.args d as), fnArgs x as
  | _ => True
def led (d lv : Val) : Led → Prop
  | .dot dr => dot lv dr
  | .pipe e => expr lv e
  | .or e => Sem.truthy lv = false → expr d e
  | .and e => Sem.truthy lv = true → expr d e
  | .cmp _ e => expr d e
  | .wildIdxL r => ∀ xs, lv = .arr xs → ∀ x ∈ xs, rhs x r
  | .dotStar r => ∀ m, lv = .obj m → ∀ x ∈ Sem.values m, rhs x r
  | .flattenL r => ∀ xs, lv = .arr xs → ∀ x ∈ Sem.flatten1 xs, rhs x r
  | .sliceL h r => h.step ≠ 0 → ∀ xs, lv = .arr xs →
      (xs.length : Int) ≤ I32_MAX ∧ ∀ x ∈ pySlice xs h.a h.b h.step, rhs x r
  | .filterL p r => ∀ xs, lv = .arr xs → ∀ x ∈ xs,
      expr x p ∧ ∀ c, SemFull.expr x p = some c → Sem.truthy c = true → rhs x r
  | _ => True
def rhs (el : Val) : Rhs → Prop
  | .none => True
  | .dot dr => dot el dr
  | .bracket e => expr el e
def dot (el : Val) : DotRhs → Prop
  | .mlist es => el.isNull = false → exprs el es
  | .expr e => expr el e
def expr (d : Val) : Expr → Prop
  | .mk h ls => nud d h ∧ ∀ v, SemFull.nud d h = some v → leds d v ls
def leds (d lv : Val) : List Led → Prop
  | [] => True
  | l :: ls => led d lv l ∧ ∀ v, SemFull.led d lv l = some v → leds d v ls
def exprs (d : Val) : List Expr → Prop
  | [] => True
  | e :: es => expr d e ∧ exprs d es
def kvs (d : Val) : List (Bool × String × Expr) → Prop
  | [] => True
  | (_, _, e) :: r => expr d e ∧ kvs d r
/-- the arguments that are evaluated (everything but `&e`) are safe at the current node -/
def args (d : Val) : List Expr → Prop
  | [] => True
  | .mk (.expref _) [] :: rest => args d rest
  | e :: rest => expr d e ∧ args d rest
/-- the bodies of the `&e` arguments are safe at `x` (an element the function is applied to) -/
def fnArgs (x : Val) : List Expr → Prop
  | [] => True
  | .mk (.expref e) [] :: rest => expr x e ∧ fnArgs x rest
  | _ :: rest => fnArgs x rest
end
end SafeF

end JmesVerif
