import JmesVerif.Generated.InterpCode
import JmesVerif.Lemmas.CodeEquiv
import JmesVerif.Lemmas.Compositional

/-!
# The hand-written evaluator `interp` equals the whole `interpret` function re-translated from the Rust source

`Generated/InterpCode.lean` is written by `tools/rs2lean.py` (`generate_interp`) from the body of
`pub fn interpret(data, node, ctx) -> SearchResult` (interpreter.rs) on every run: one `def interpret` with one arm
per `Ast::X { .. } =>` arm, one function per `for` loop, the offset register `ctx.offset` threaded, fuel spent at
every recursive call and loop iteration (the translation scheme and the idiom table are in the header of that file).
This file proves, by induction on the fuel, that the generated `interpret` and its loop functions are equal to the
hand model `interp` / `projectEach` / `interpAll` / `interpKVs` / the `flatMap` of the Flatten arm
(`Model/Interp.lean`), which all evaluation theorems (C01, C02, C05, C11, C12) are about.

Exported statements and their side conditions (all visible in the statements):
* `a.I32Ok` — every `Ast.index` node of the tree holds an index in `(i32::MIN, i32::MAX]` and every `Ast.slice` node
  holds `start`/`stop` in the `i32` range.  In Rust these fields have type `i32`; `i32::MIN` as an index is the one
  value on which `-idx` overflows (`gen_index_min_overflows`) and the lexer never produces it
  (`C05_number_tokens_no_overflow`).  These are the domains of `gen_index_eq` and `gen_slice_eq`.
* `gen_interpret_eq_oracle`: for **every** function `slice_fn` that agrees with the model's `sliceList` (non-zero
  step, `i32` endpoints), `interpret slice_fn rt.get (callFn rt) fuel d a off = interp rt fuel d a off`, for every
  fuel, data, tree and entry offset.
* `gen_interpret_eq`: the same with the translated `slice` of `Generated/Code.lean` (`slice_rs`) under
  `SlicesOk rt fuel d a off`: no `Ast.slice` node evaluated *during this evaluation* is applied to an array of more
  than `i32::MAX` elements (`array.len() as i32` wraps beyond that; the domain of `gen_slice_eq`).  `SlicesOk`
  follows the recursion of the model, with the model's own intermediate results.
* `gen_interpret_eq_guarded`: the same without `SlicesOk`, for the translated `slice` used on every array of at most
  `i32::MAX` elements (`sliceGuarded`).
* `gen_projection_loop_eq`, `gen_multi_list_loop_eq`, `gen_function_loop_eq`, `gen_multi_hash_loop_eq`,
  `gen_flatten_loop_eq`: the loop functions (accumulator-passing) against the model's (cons-on-return).
Evaluation *inside* a function call is `callFn rt` on both sides (the parameter `evaluate` of the generated code is
instantiated with it), so expression references are evaluated by the model itself there.

The proof scripts do not depend on the shape of the generated terms (order of the `match` arms, binder names,
orientation of `if`s, extra `let`s, numbering of temporaries): they case on the *model's* data (`cases a`, `cases
xs`), unfold both sides with `.eq_def`, rewrite every recursive call with the induction hypothesis (all hypotheses
of one fuel level are bundled in `GenEq`), then `repeat' split` and close every leaf with `simp_all`/`grind`.
Only the names and argument order of the generated functions and the fixed prelude (`variable_slice`, `index_arm`,
`slice_rs`) are referred to.  The harmless rewrites of `tools/interp_edits.py` (arms reordered, binders renamed,
`if let` for `match`, negated conditions, `let r = ..?; Ok(r)`, the offset restored inside each arm) keep this file
green; every semantic mutation there breaks it (`tools/rs2lean_selftest.py interp`).
-/
namespace JmesVerif
open Generated.InterpCode

/-! ### 1. the range assumption of the embedding -/

instance (x : Int) : Decidable (InI32 x) := by unfold InI32; exact inferInstance
instance : (o : Option Int) → Decidable (OptInI32 o)
  | none => isTrue trivial
  | some x => by unfold OptInI32; exact inferInstance

mutual
def Ast.I32Ok : Ast → Bool
  | .comparison _ _ l r => l.I32Ok && r.I32Ok
  | .condition _ p t => p.I32Ok && t.I32Ok
  | .identity _ => true
  | .expref _ a => a.I32Ok
  | .flatten _ a => a.I32Ok
  | .function _ _ args => Ast.i32OkL args
  | .field _ _ => true
  | .index _ i => decide (I32_MIN < i ∧ i ≤ I32_MAX)
  | .literal _ _ => true
  | .multiList _ es => Ast.i32OkL es
  | .multiHash _ kvs => Ast.i32OkK kvs
  | .not _ a => a.I32Ok
  | .projection _ l r => l.I32Ok && r.I32Ok
  | .objectValues _ a => a.I32Ok
  | .and _ l r => l.I32Ok && r.I32Ok
  | .or _ l r => l.I32Ok && r.I32Ok
  | .slice _ start stop _ => decide (OptInI32 start) && decide (OptInI32 stop)
  | .subexpr _ l r => l.I32Ok && r.I32Ok
def Ast.i32OkL : List Ast → Bool
  | [] => true
  | a :: as => a.I32Ok && Ast.i32OkL as
def Ast.i32OkK : List (String × Ast) → Bool
  | [] => true
  | (_, a) :: r => a.I32Ok && Ast.i32OkK r
end

/-! ### 2. plumbing -/

/-- the generated loops accumulate (`push`), the hand model conses -/
def accRes {α : Type} (acc : List α) : ERes (List α) → ERes (List α)
  | .ok (r, off) => .ok (acc ++ r, off)
  | .error e => .error e

theorem accRes_nil {α : Type} (r : ERes (List α)) : accRes [] r = r := by
  cases r with
  | error e => rfl
  | ok p => cases p; simp [accRes]

theorem gen_flatten_loop_eq (xs acc : List Val) :
    interpret_flatten_loop xs acc =
      acc ++ xs.flatMap (fun x => match x with | .arr ys => ys | other => [other]) := by
  induction xs generalizing acc with
  | nil => simp [interpret_flatten_loop]
  | cons x rest ih =>
    cases x <;> simp [interpret_flatten_loop, ih]

structure GenEq (rt : Registry) (slice_fn : SliceFn) (n : Nat) : Prop where
  interp : ∀ d a off, a.I32Ok = true →
    interpret slice_fn rt.get (callFn rt) n d a off = interp rt n d a off
  proj : ∀ xs rhs acc off, rhs.I32Ok = true →
    interpret_projection_loop slice_fn rt.get (callFn rt) n xs rhs acc off
      = accRes acc (projectEach rt n xs rhs off)
  multiList : ∀ es d acc off, Ast.i32OkL es = true →
    interpret_multi_list_loop slice_fn rt.get (callFn rt) n es d acc off
      = accRes acc (interpAll rt n d es off)
  function : ∀ es d acc off, Ast.i32OkL es = true →
    interpret_function_loop slice_fn rt.get (callFn rt) n es d acc off
      = accRes acc (interpAll rt n d es off)
  multiHash : ∀ kvs d acc off, Ast.i32OkK kvs = true →
    interpret_multi_hash_loop slice_fn rt.get (callFn rt) n kvs d acc off
      = interpKVs rt n d kvs acc off

theorem GenEq.zero (rt : Registry) (slice_fn : SliceFn) : GenEq rt slice_fn 0 := by
  constructor <;> intros <;>
    simp only [interpret, interpret_projection_loop, interpret_multi_list_loop, interpret_function_loop,
      interpret_multi_hash_loop, JmesVerif.interp, projectEach, interpAll, interpKVs, accRes]


theorem gen_proj_step (rt : Registry) (slice_fn : SliceFn) (n : Nat) (ih : GenEq rt slice_fn n) :
    ∀ xs rhs acc off, rhs.I32Ok = true →
    interpret_projection_loop slice_fn rt.get (callFn rt) (n+1) xs rhs acc off
      = accRes acc (projectEach rt (n+1) xs rhs off) := by
  intro xs rhs acc off h
  rw [interpret_projection_loop.eq_def, projectEach.eq_def]
  cases xs with
  | nil => simp [accRes]
  | cons x rest =>
    simp only [ih.interp _ _ _ h, ih.proj _ _ _ _ h]
    simp only [accRes]
    repeat' split
    all_goals simp_all


theorem gen_multiList_step (rt : Registry) (slice_fn : SliceFn) (n : Nat) (ih : GenEq rt slice_fn n) :
    ∀ es d acc off, Ast.i32OkL es = true →
    interpret_multi_list_loop slice_fn rt.get (callFn rt) (n+1) es d acc off
      = accRes acc (interpAll rt (n+1) d es off) := by
  intro es d acc off h
  rw [interpret_multi_list_loop.eq_def, interpAll.eq_def]
  cases es with
  | nil => simp [accRes]
  | cons e rest =>
    simp only [Ast.i32OkL, Bool.and_eq_true] at h
    simp only [ih.interp _ _ _ h.1, ih.multiList _ _ _ _ h.2]
    simp only [accRes]
    repeat' split
    all_goals simp_all

theorem gen_function_step (rt : Registry) (slice_fn : SliceFn) (n : Nat) (ih : GenEq rt slice_fn n) :
    ∀ es d acc off, Ast.i32OkL es = true →
    interpret_function_loop slice_fn rt.get (callFn rt) (n+1) es d acc off
      = accRes acc (interpAll rt (n+1) d es off) := by
  intro es d acc off h
  rw [interpret_function_loop.eq_def, interpAll.eq_def]
  cases es with
  | nil => simp [accRes]
  | cons e rest =>
    simp only [Ast.i32OkL, Bool.and_eq_true] at h
    simp only [ih.interp _ _ _ h.1, ih.function _ _ _ _ h.2]
    simp only [accRes]
    repeat' split
    all_goals simp_all

theorem gen_multiHash_step (rt : Registry) (slice_fn : SliceFn) (n : Nat) (ih : GenEq rt slice_fn n) :
    ∀ kvs d acc off, Ast.i32OkK kvs = true →
    interpret_multi_hash_loop slice_fn rt.get (callFn rt) (n+1) kvs d acc off
      = interpKVs rt (n+1) d kvs acc off := by
  intro kvs d acc off h
  rw [interpret_multi_hash_loop.eq_def, interpKVs.eq_def]
  cases kvs with
  | nil => simp
  | cons kv rest =>
    obtain ⟨k, e⟩ := kv
    simp only [Ast.i32OkK, Bool.and_eq_true] at h
    simp only [ih.interp _ _ _ h.1, ih.multiHash _ _ _ _ h.2]
    repeat' split
    all_goals simp_all

/-- the model's `ObjectValues` arm spells `Prod.snd` as a pattern-matching lambda -/
theorem map_snd_eq (kvs : List (String × Val)) : (kvs.map fun (_, v) => v) = kvs.map Prod.snd := rfl

theorem gen_interp_step (rt : Registry) (slice_fn : SliceFn)
    (hslice : ∀ xs start stop step, step ≠ 0 → OptInI32 start → OptInI32 stop →
        slice_fn xs start stop step = sliceList xs start stop step)
    (n : Nat) (ih : GenEq rt slice_fn n) :
    ∀ d a off, a.I32Ok = true →
    interpret slice_fn rt.get (callFn rt) (n+1) d a off = interp rt (n+1) d a off := by
  intro d a off h
  rw [interpret.eq_def, interp.eq_def]
  cases a with
  | index o i =>
    simp only [Ast.I32Ok, decide_eq_true_eq] at h
    simp only []
    cases d <;> simp [index_arm, gen_index_eq _ _ h.1 h.2]
  | slice o start stop step =>
    simp only [Ast.I32Ok, Bool.and_eq_true, decide_eq_true_eq] at h
    simp only []
    by_cases hs : step = 0
    · simp [hs]
    · cases d <;> simp only [hs, variable_slice, hslice _ _ _ _ hs h.1 h.2] <;>
        (try (repeat' split) <;> first | (simp_all; done) | grind)
  | _ =>
    simp only [Ast.I32Ok, Bool.and_eq_true] at h
    simp only []
    try simp (disch := simp only [h]) only [ih.interp, ih.proj, ih.multiList, ih.function, ih.multiHash]
    try simp only [gen_flatten_loop_eq, List.nil_append, accRes_nil]
    try (repeat' split) <;> first | (simp_all; done) | grind

theorem genEq_all (rt : Registry) (slice_fn : SliceFn)
    (hslice : ∀ xs start stop step, step ≠ 0 → OptInI32 start → OptInI32 stop →
        slice_fn xs start stop step = sliceList xs start stop step) : ∀ n, GenEq rt slice_fn n
  | 0 => GenEq.zero rt slice_fn
  | n + 1 =>
    have ih := genEq_all rt slice_fn hslice n
    ⟨gen_interp_step rt slice_fn hslice n ih, gen_proj_step rt slice_fn n ih, gen_multiList_step rt slice_fn n ih,
      gen_function_step rt slice_fn n ih, gen_multiHash_step rt slice_fn n ih⟩

/-! ### 3. exported statements -/

section
variable (rt : Registry) (slice_fn : SliceFn)
  (hslice : ∀ xs start stop step, step ≠ 0 → OptInI32 start → OptInI32 stop →
      slice_fn xs start stop step = sliceList xs start stop step)
include hslice

/-- **the translated `interpret` equals the hand model `interp`**, for every fuel, data, tree and
entry offset, given any `slice` that agrees with `sliceList` on `i32` endpoints and non-zero steps -/
theorem gen_interpret_eq_oracle : ∀ fuel d a off, a.I32Ok = true →
    interpret slice_fn rt.get (callFn rt) fuel d a off = interp rt fuel d a off :=
  fun fuel => (genEq_all rt slice_fn hslice fuel).interp

theorem gen_projection_loop_eq : ∀ fuel xs rhs acc off, rhs.I32Ok = true →
    interpret_projection_loop slice_fn rt.get (callFn rt) fuel xs rhs acc off =
      (match projectEach rt fuel xs rhs off with
       | .error e => .error e
       | .ok (ys, off') => .ok (acc ++ ys, off')) := by
  intro fuel xs rhs acc off h
  rw [(genEq_all rt slice_fn hslice fuel).proj _ _ _ _ h]
  unfold accRes; repeat' split
  all_goals simp_all

theorem gen_multi_list_loop_eq : ∀ fuel es d acc off, Ast.i32OkL es = true →
    interpret_multi_list_loop slice_fn rt.get (callFn rt) fuel es d acc off =
      (match interpAll rt fuel d es off with
       | .error e => .error e
       | .ok (vs, off') => .ok (acc ++ vs, off')) := by
  intro fuel es d acc off h
  rw [(genEq_all rt slice_fn hslice fuel).multiList _ _ _ _ h]
  unfold accRes; repeat' split
  all_goals simp_all

theorem gen_function_loop_eq : ∀ fuel es d acc off, Ast.i32OkL es = true →
    interpret_function_loop slice_fn rt.get (callFn rt) fuel es d acc off =
      (match interpAll rt fuel d es off with
       | .error e => .error e
       | .ok (vs, off') => .ok (acc ++ vs, off')) := by
  intro fuel es d acc off h
  rw [(genEq_all rt slice_fn hslice fuel).function _ _ _ _ h]
  unfold accRes; repeat' split
  all_goals simp_all

theorem gen_multi_hash_loop_eq : ∀ fuel kvs d acc off, Ast.i32OkK kvs = true →
    interpret_multi_hash_loop slice_fn rt.get (callFn rt) fuel kvs d acc off =
      interpKVs rt fuel d kvs acc off :=
  fun fuel => (genEq_all rt slice_fn hslice fuel).multiHash

end

/-! ### 4. instantiation with the translated `slice` -/

/-- the translated `slice` on its proved domain (`len ≤ i32::MAX`, what `array.len() as i32` assumes) -/
def sliceGuarded : SliceFn := fun xs start stop step =>
  if (xs.length : Int) ≤ I32_MAX then slice_rs xs start stop step else sliceList xs start stop step

theorem sliceGuarded_eq (xs : List Val) (start stop : Option Int) (step : Int) (hstep : step ≠ 0)
    (hstart : OptInI32 start) (hstop : OptInI32 stop) :
    sliceGuarded xs start stop step = sliceList xs start stop step := by
  unfold sliceGuarded slice_rs
  split
  · exact gen_slice_eq _ xs start stop step (Nat.le_refl _) (by assumption) hstart hstop hstep
  · rfl

theorem gen_interpret_eq_guarded (rt : Registry) : ∀ fuel d a off, a.I32Ok = true →
    interpret sliceGuarded rt.get (callFn rt) fuel d a off = interp rt fuel d a off :=
  gen_interpret_eq_oracle rt sliceGuarded sliceGuarded_eq

/-! ### 5. the un-guarded translated `slice` (`slice_rs`), under an instrumented evaluation

`SlicesOk rt fuel d a off` follows the recursion of the *model* `interp rt fuel d a off` and says that every
`Ast.slice` node it evaluates (with a non-zero step) is applied to data that is not an array of more than
`i32::MAX` elements.  Evaluation inside `callFn` is excluded: both sides call the very same `callFn rt` there. -/

mutual
def SlicesOk (rt : Registry) : Nat → Val → Ast → Nat → Prop
  | 0, _, _, _ => True
  | fuel + 1, data, node, off =>
    match node with
    | .field _ _ => True
    | .subexpr _ lhs rhs =>
      SlicesOk rt fuel data lhs off ∧
      match interp rt fuel data lhs off with
      | .error _ => True
      | .ok (l, off) => SlicesOk rt fuel l rhs off
    | .identity _ => True
    | .literal _ _ => True
    | .index _ _ => True
    | .or _ lhs rhs =>
      SlicesOk rt fuel data lhs off ∧
      match interp rt fuel data lhs off with
      | .error _ => True
      | .ok (l, off) => if l.truthy then True else SlicesOk rt fuel data rhs off
    | .and _ lhs rhs =>
      SlicesOk rt fuel data lhs off ∧
      match interp rt fuel data lhs off with
      | .error _ => True
      | .ok (l, off) => if !l.truthy then True else SlicesOk rt fuel data rhs off
    | .not _ a => SlicesOk rt fuel data a off
    | .condition _ pred thn =>
      SlicesOk rt fuel data pred off ∧
      match interp rt fuel data pred off with
      | .error _ => True
      | .ok (c, off) => if c.truthy then SlicesOk rt fuel data thn off else True
    | .comparison _ _ lhs rhs =>
      SlicesOk rt fuel data lhs off ∧
      match interp rt fuel data lhs off with
      | .error _ => True
      | .ok (_, off) => SlicesOk rt fuel data rhs off
    | .objectValues _ a => SlicesOk rt fuel data a off
    | .projection _ lhs rhs =>
      SlicesOk rt fuel data lhs off ∧
      match interp rt fuel data lhs off with
      | .ok (.arr xs, off) => SlicesOkEach rt fuel xs rhs off
      | _ => True
    | .flatten _ a => SlicesOk rt fuel data a off
    | .multiList _ es => if data.isNull then True else SlicesOkAll rt fuel data es off
    | .multiHash _ kvs => if data.isNull then True else SlicesOkKVs rt fuel data kvs off
    | .function _ _ args => SlicesOkAll rt fuel data args off
    | .expref _ _ => True
    | .slice _ _ _ step =>
      match data with
      | .arr xs => step ≠ 0 → (xs.length : Int) ≤ I32_MAX
      | _ => True
def SlicesOkEach (rt : Registry) : Nat → List Val → Ast → Nat → Prop
  | 0, _, _, _ => True
  | fuel + 1, xs, rhs, off =>
    match xs with
    | [] => True
    | x :: rest =>
      SlicesOk rt fuel x rhs off ∧
      match interp rt fuel x rhs off with
      | .error _ => True
      | .ok (_, off) => SlicesOkEach rt fuel rest rhs off
def SlicesOkAll (rt : Registry) : Nat → Val → List Ast → Nat → Prop
  | 0, _, _, _ => True
  | fuel + 1, data, nodes, off =>
    match nodes with
    | [] => True
    | n :: rest =>
      SlicesOk rt fuel data n off ∧
      match interp rt fuel data n off with
      | .error _ => True
      | .ok (_, off) => SlicesOkAll rt fuel data rest off
def SlicesOkKVs (rt : Registry) : Nat → Val → List (String × Ast) → Nat → Prop
  | 0, _, _, _ => True
  | fuel + 1, data, kvs, off =>
    match kvs with
    | [] => True
    | (_, n) :: rest =>
      SlicesOk rt fuel data n off ∧
      match interp rt fuel data n off with
      | .error _ => True
      | .ok (_, off) => SlicesOkKVs rt fuel data rest off
end

structure GenEqS (rt : Registry) (n : Nat) : Prop where
  interp : ∀ d a off, a.I32Ok = true → SlicesOk rt n d a off →
    interpret slice_rs rt.get (callFn rt) n d a off = interp rt n d a off
  proj : ∀ xs rhs acc off, rhs.I32Ok = true → SlicesOkEach rt n xs rhs off →
    interpret_projection_loop slice_rs rt.get (callFn rt) n xs rhs acc off
      = accRes acc (projectEach rt n xs rhs off)
  multiList : ∀ es d acc off, Ast.i32OkL es = true → SlicesOkAll rt n d es off →
    interpret_multi_list_loop slice_rs rt.get (callFn rt) n es d acc off
      = accRes acc (interpAll rt n d es off)
  function : ∀ es d acc off, Ast.i32OkL es = true → SlicesOkAll rt n d es off →
    interpret_function_loop slice_rs rt.get (callFn rt) n es d acc off
      = accRes acc (interpAll rt n d es off)
  multiHash : ∀ kvs d acc off, Ast.i32OkK kvs = true → SlicesOkKVs rt n d kvs off →
    interpret_multi_hash_loop slice_rs rt.get (callFn rt) n kvs d acc off
      = interpKVs rt n d kvs acc off

theorem GenEqS.zero (rt : Registry) : GenEqS rt 0 := by
  constructor <;> intros <;>
    simp only [interpret, interpret_projection_loop, interpret_multi_list_loop, interpret_function_loop,
      interpret_multi_hash_loop, JmesVerif.interp, projectEach, interpAll, interpKVs, accRes]

/-- `c → x = y` as an unconditional rewrite rule `x = sel c y z` (usable under binders); `z` is `x`
behind an alias, so that the rule does not rewrite its own right-hand side -/
noncomputable def sel {α : Type} (c : Prop) (y z : α) : α := open Classical in if c then y else z

theorem sel_intro {α : Type} {c : Prop} {x y : α} (z : α) (hz : z = x) (h : c → x = y) : x = sel c y z := by
  unfold sel; split
  · exact h ‹_›
  · exact hz.symm

def rawI (rt : Registry) := interpret slice_rs rt.get (callFn rt)
def rawP (rt : Registry) := interpret_projection_loop slice_rs rt.get (callFn rt)
def rawL (rt : Registry) := interpret_multi_list_loop slice_rs rt.get (callFn rt)
def rawF (rt : Registry) := interpret_function_loop slice_rs rt.get (callFn rt)
def rawH (rt : Registry) := interpret_multi_hash_loop slice_rs rt.get (callFn rt)

section
variable {rt : Registry} {n : Nat} (ih : GenEqS rt n)
include ih
theorem GenEqS.interpSel (d : Val) (a : Ast) (off : Nat) (h : a.I32Ok = true) :
    interpret slice_rs rt.get (callFn rt) n d a off
      = sel (SlicesOk rt n d a off) (JmesVerif.interp rt n d a off) (rawI rt n d a off) :=
  sel_intro _ rfl (ih.interp d a off h)
theorem GenEqS.projSel (xs : List Val) (rhs : Ast) (acc : List Val) (off : Nat) (h : rhs.I32Ok = true) :
    interpret_projection_loop slice_rs rt.get (callFn rt) n xs rhs acc off
      = sel (SlicesOkEach rt n xs rhs off) (accRes acc (projectEach rt n xs rhs off)) (rawP rt n xs rhs acc off) :=
  sel_intro _ rfl (ih.proj xs rhs acc off h)
theorem GenEqS.multiListSel (es : List Ast) (d : Val) (acc : List Val) (off : Nat) (h : Ast.i32OkL es = true) :
    interpret_multi_list_loop slice_rs rt.get (callFn rt) n es d acc off
      = sel (SlicesOkAll rt n d es off) (accRes acc (interpAll rt n d es off)) (rawL rt n es d acc off) :=
  sel_intro _ rfl (ih.multiList es d acc off h)
theorem GenEqS.functionSel (es : List Ast) (d : Val) (acc : List Val) (off : Nat) (h : Ast.i32OkL es = true) :
    interpret_function_loop slice_rs rt.get (callFn rt) n es d acc off
      = sel (SlicesOkAll rt n d es off) (accRes acc (interpAll rt n d es off)) (rawF rt n es d acc off) :=
  sel_intro _ rfl (ih.function es d acc off h)
theorem GenEqS.multiHashSel (kvs : List (String × Ast)) (d : Val) (acc : List (String × Val)) (off : Nat)
    (h : Ast.i32OkK kvs = true) :
    interpret_multi_hash_loop slice_rs rt.get (callFn rt) n kvs d acc off
      = sel (SlicesOkKVs rt n d kvs off) (interpKVs rt n d kvs acc off) (rawH rt n kvs d acc off) :=
  sel_intro _ rfl (ih.multiHash kvs d acc off h)
end

theorem gen_proj_stepS (rt : Registry) (n : Nat) (ih : GenEqS rt n) :
    ∀ xs rhs acc off, rhs.I32Ok = true → SlicesOkEach rt (n+1) xs rhs off →
    interpret_projection_loop slice_rs rt.get (callFn rt) (n+1) xs rhs acc off
      = accRes acc (projectEach rt (n+1) xs rhs off) := by
  intro xs rhs acc off h hs
  rw [interpret_projection_loop.eq_def, projectEach.eq_def]
  cases xs with
  | nil => simp [accRes]
  | cons x rest =>
    simp only [SlicesOkEach] at hs
    simp only [ih.interpSel _ _ _ h, ih.projSel _ _ _ _ h]
    simp only [sel, accRes]
    repeat' split
    all_goals simp_all

theorem gen_multiList_stepS (rt : Registry) (n : Nat) (ih : GenEqS rt n) :
    ∀ es d acc off, Ast.i32OkL es = true → SlicesOkAll rt (n+1) d es off →
    interpret_multi_list_loop slice_rs rt.get (callFn rt) (n+1) es d acc off
      = accRes acc (interpAll rt (n+1) d es off) := by
  intro es d acc off h hs
  rw [interpret_multi_list_loop.eq_def, interpAll.eq_def]
  cases es with
  | nil => simp [accRes]
  | cons e rest =>
    simp only [Ast.i32OkL, Bool.and_eq_true] at h
    simp only [SlicesOkAll] at hs
    simp only [ih.interpSel _ _ _ h.1, ih.multiListSel _ _ _ _ h.2]
    simp only [sel, accRes]
    repeat' split
    all_goals simp_all

theorem gen_function_stepS (rt : Registry) (n : Nat) (ih : GenEqS rt n) :
    ∀ es d acc off, Ast.i32OkL es = true → SlicesOkAll rt (n+1) d es off →
    interpret_function_loop slice_rs rt.get (callFn rt) (n+1) es d acc off
      = accRes acc (interpAll rt (n+1) d es off) := by
  intro es d acc off h hs
  rw [interpret_function_loop.eq_def, interpAll.eq_def]
  cases es with
  | nil => simp [accRes]
  | cons e rest =>
    simp only [Ast.i32OkL, Bool.and_eq_true] at h
    simp only [SlicesOkAll] at hs
    simp only [ih.interpSel _ _ _ h.1, ih.functionSel _ _ _ _ h.2]
    simp only [sel, accRes]
    repeat' split
    all_goals simp_all

theorem gen_multiHash_stepS (rt : Registry) (n : Nat) (ih : GenEqS rt n) :
    ∀ kvs d acc off, Ast.i32OkK kvs = true → SlicesOkKVs rt (n+1) d kvs off →
    interpret_multi_hash_loop slice_rs rt.get (callFn rt) (n+1) kvs d acc off
      = interpKVs rt (n+1) d kvs acc off := by
  intro kvs d acc off h hs
  rw [interpret_multi_hash_loop.eq_def, interpKVs.eq_def]
  cases kvs with
  | nil => simp
  | cons kv rest =>
    obtain ⟨k, e⟩ := kv
    simp only [Ast.i32OkK, Bool.and_eq_true] at h
    simp only [SlicesOkKVs] at hs
    simp only [ih.interpSel _ _ _ h.1, ih.multiHashSel _ _ _ _ h.2]
    simp only [sel]
    repeat' split
    all_goals simp_all

theorem gen_interp_stepS (rt : Registry) (n : Nat) (ih : GenEqS rt n) :
    ∀ d a off, a.I32Ok = true → SlicesOk rt (n+1) d a off →
    interpret slice_rs rt.get (callFn rt) (n+1) d a off = interp rt (n+1) d a off := by
  intro d a off h hs
  rw [interpret.eq_def, interp.eq_def]
  cases a with
  | index o i =>
    simp only [Ast.I32Ok, decide_eq_true_eq] at h
    simp only []
    cases d <;> simp [index_arm, gen_index_eq _ _ h.1 h.2]
  | slice o start stop step =>
    simp only [Ast.I32Ok, Bool.and_eq_true, decide_eq_true_eq] at h
    simp only []
    by_cases hz : step = 0
    · simp [hz]
    · cases d <;> simp only [SlicesOk] at hs <;>
        simp only [hz, variable_slice, slice_rs] <;>
        (try rw [gen_slice_eq _ _ start stop step (Nat.le_refl _) (hs hz) h.1 h.2 hz]) <;>
        (try (repeat' split) <;> first | (simp_all; done) | grind)
  | _ =>
    simp only [Ast.I32Ok, Bool.and_eq_true] at h
    simp only [SlicesOk] at hs
    simp only []
    try simp (disch := simp only [h]) only [ih.interpSel, ih.projSel, ih.multiListSel, ih.functionSel, ih.multiHashSel]
    try simp only [gen_flatten_loop_eq, List.nil_append, accRes_nil, sel]
    try (repeat' split) <;> first | (simp_all; done) | grind

theorem genEqS_all (rt : Registry) : ∀ n, GenEqS rt n
  | 0 => GenEqS.zero rt
  | n + 1 =>
    have ih := genEqS_all rt n
    ⟨gen_interp_stepS rt n ih, gen_proj_stepS rt n ih, gen_multiList_stepS rt n ih, gen_function_stepS rt n ih,
      gen_multiHash_stepS rt n ih⟩

theorem gen_interpret_eq (rt : Registry) : ∀ fuel d a off, a.I32Ok = true → SlicesOk rt fuel d a off →
    interpret slice_rs rt.get (callFn rt) fuel d a off = interp rt fuel d a off :=
  fun fuel => (genEqS_all rt fuel).interp


/-- `SlicesOk` is not vacuous -/
example : SlicesOk Registry.default 10 (.arr [.num (.pos 1), .num (.pos 2), .num (.pos 3)])
    (.projection 0 (.slice 0 (some 1) none 1) (.identity 0)) 0 := by
  have hsl : sliceList [Val.num (.pos 1), .num (.pos 2), .num (.pos 3)] (some 1) none 1
      = .ok [.num (.pos 2), .num (.pos 3)] := rfl
  simp [SlicesOk, SlicesOkEach, interp, I32_MAX, hsl]

/-! ### 6. non-vacuity: the generated interpreter computes -/

section Examples

/-- the generated interpreter with the translated `slice`, the default runtime, offset 0 -/
abbrev runGen (fuel : Nat) (d : Val) (a : Ast) : ERes Val :=
  interpret slice_rs Registry.default.get (callFn Registry.default) fuel d a 0

/-- `[?@ > `1`]` on `[1, 2, 3]` -/
example : runGen 10 (.arr [.num (.pos 1), .num (.pos 2), .num (.pos 3)])
    (.projection 0 (.identity 0)
      (.condition 0 (.comparison 0 .gt (.identity 0) (.literal 0 (.num (.pos 1)))) (.identity 0)))
    = .ok (.arr [.num (.pos 2), .num (.pos 3)], 0) := by
  with_unfolding_all rfl

/-- `[?@]` on `[false, "a", null]` -/
example : runGen 10 (.arr [.bool false, .str "a", .null])
    (.projection 0 (.identity 0) (.condition 0 (.identity 0) (.identity 0)))
    = .ok (.arr [.str "a"], 0) := by
  with_unfolding_all rfl

/-- `length(@)` through `callFn` -/
example : runGen 10 (.arr [.null, .null]) (.function 7 "length" [.identity 0])
    = .ok (.num (.pos 2), 0) := by
  simp [runGen, interpret, interpret_function_loop, Registry.default, Builtin.all, Registry.get, callFn,
    Builtin.sig, Sig.validate, Sig.validateArity, Sig.validateArgs, ArgT.isValid, anyValid, Val.type,
    Builtin.usesExpref, Builtin.pure]

example : runGen 10 (.arr [.null, .null]) (.function 7 "nope" [.identity 0])
    = .error (.runtime (.unknownFunction "nope") 7) := by
  with_unfolding_all rfl

example : runGen 10 (.arr [.null, .null]) (.slice 5 none none 0)
    = .error (.runtime .invalidSlice 5) := by
  with_unfolding_all rfl

example : runGen 10 (.arr [.num (.pos 1), .num (.pos 2), .num (.pos 3)]) (.slice 0 (some 1) none 1)
    = .ok (.arr [.num (.pos 2), .num (.pos 3)], 0) := by
  with_unfolding_all rfl

/-- the hypothesis of the theorems holds of these trees -/
example : (Ast.projection 0 (.identity 0)
      (.condition 0 (.comparison 0 .gt (.identity 0) (.literal 0 (.num (.pos 1)))) (.slice 0 (some 1) none 1))).I32Ok
    = true := by decide
/-- and fails on an index the lexer cannot produce -/
example : (Ast.index 0 I32_MIN).I32Ok = false := by decide

end Examples

end JmesVerif

#print axioms JmesVerif.gen_flatten_loop_eq
#print axioms JmesVerif.gen_interpret_eq_oracle
#print axioms JmesVerif.gen_projection_loop_eq
#print axioms JmesVerif.gen_multi_list_loop_eq
#print axioms JmesVerif.gen_function_loop_eq
#print axioms JmesVerif.gen_multi_hash_loop_eq
#print axioms JmesVerif.sliceGuarded_eq
#print axioms JmesVerif.gen_interpret_eq_guarded
#print axioms JmesVerif.gen_interpret_eq
