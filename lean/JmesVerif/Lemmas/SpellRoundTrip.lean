import JmesVerif.Spec.Spelling
import JmesVerif.Lemmas.Lexer
namespace JmesVerif
open Spelling

namespace Spell

/-! ### hex digits -/

theorem hexDigit_facts : ∀ n : Fin 16,
    JsonPrint.hexDigit n.val ≠ '"' ∧ JsonPrint.hexDigit n.val ≠ '\\' ∧
    JsonPrint.hexDigit n.val ≠ '`' ∧
    JsonText.hexVal (JsonPrint.hexDigit n.val) = some n.val := by
  decide

theorem hexDigit_ne_quote {n : Nat} (h : n < 16) : JsonPrint.hexDigit n ≠ '"' :=
  (hexDigit_facts ⟨n, h⟩).1
theorem hexDigit_ne_bs {n : Nat} (h : n < 16) : JsonPrint.hexDigit n ≠ '\\' :=
  (hexDigit_facts ⟨n, h⟩).2.1
theorem hexDigit_ne_bt {n : Nat} (h : n < 16) : JsonPrint.hexDigit n ≠ '`' :=
  (hexDigit_facts ⟨n, h⟩).2.2.1
theorem hexVal_hexDigit {n : Nat} (h : n < 16) : JsonText.hexVal (JsonPrint.hexDigit n) = some n :=
  (hexDigit_facts ⟨n, h⟩).2.2.2

/-! ### `consumeInside` steps -/

theorem ci_close (q : Char) (cs acc : List Char) :
    Lexer.consumeInside q (q :: cs) acc = some (acc.reverse, cs) := by
  rw [Lexer.consumeInside.eq_def]; simp
theorem ci_pair (q : Char) (hq : q ≠ '\\') (c2 : Char) (cs acc : List Char) :
    Lexer.consumeInside q ('\\' :: c2 :: cs) acc = Lexer.consumeInside q cs (c2 :: '\\' :: acc) := by
  rw [Lexer.consumeInside.eq_def]; simp [Ne.symm hq]
theorem ci_plain (q c : Char) (h1 : c ≠ q) (h2 : c ≠ '\\') (cs acc : List Char) :
    Lexer.consumeInside q (c :: cs) acc = Lexer.consumeInside q cs (c :: acc) := by
  rw [Lexer.consumeInside.eq_def]; simp [h1, h2]

/-! ### quoted identifiers: the lexer's scan -/

theorem toNat_div16_lt {c : Char} (h : c.toNat < 0x20) : c.toNat / 16 < 16 := by omega

theorem consumeInside_escapeChar (c : Char) (tail acc : List Char) :
    Lexer.consumeInside '"' (JsonPrint.escapeChar c ++ tail) acc
      = Lexer.consumeInside '"' tail ((JsonPrint.escapeChar c).reverse ++ acc) := by
  have hq : '"' ≠ '\\' := by decide
  unfold JsonPrint.escapeChar
  split
  · simp [ci_pair _ hq]
  split
  · simp [ci_pair _ hq]
  split
  · simp [ci_pair _ hq]
  split
  · simp [ci_pair _ hq]
  split
  · simp [ci_pair _ hq]
  split
  · simp [ci_pair _ hq]
  split
  · simp [ci_pair _ hq]
  split
  · rename_i h
    have h1 := hexDigit_ne_quote (toNat_div16_lt h)
    have h2 := hexDigit_ne_bs (toNat_div16_lt h)
    have h3 := hexDigit_ne_quote (Nat.mod_lt c.toNat (by decide : 16 > 0))
    have h4 := hexDigit_ne_bs (Nat.mod_lt c.toNat (by decide : 16 > 0))
    simp only [List.cons_append, List.nil_append, ci_pair _ hq]
    rw [ci_plain _ '0' (by decide) (by decide), ci_plain _ '0' (by decide) (by decide),
      ci_plain _ _ h1 h2, ci_plain _ _ h3 h4]
    simp
  · rename_i h1 h2 _ _ _ _ _ _
    simp [ci_plain _ _ h1 h2]

theorem consumeInside_quoted (k rest : List Char) : ∀ acc : List Char,
    Lexer.consumeInside '"' (k.flatMap JsonPrint.escapeChar ++ '"' :: rest) acc
      = some (acc.reverse ++ k.flatMap JsonPrint.escapeChar, rest) := by
  induction k with
  | nil => intro acc; simp [ci_close]
  | cons c k ih =>
    intro acc
    simp only [List.flatMap_cons, List.append_assoc]
    rw [consumeInside_escapeChar, ih]
    simp

/-! ### quoted identifiers: the JSON string parser -/
section
open JsonText

theorem char_ofNat_toNat (c : Char) : Char.ofNat c.toNat = c := by
  simp [Char.ofNat_toNat]

theorem psb_plain (fuel : Nat) (c : Char) (h1 : c ≠ '"') (h2 : c ≠ '\\') (h3 : ¬ c.toNat < 0x20)
    (tail acc : List Char) :
    parseStrBody (fuel + 1) (c :: tail) acc = parseStrBody fuel tail (c :: acc) := by
  rw [parseStrBody.eq_def]
  simp [h3]

theorem psb_escape (fuel : Nat) (c : Char) (tail acc : List Char) :
    parseStrBody (fuel + 1) (JsonPrint.escapeChar c ++ tail) acc = parseStrBody fuel tail (c :: acc) := by
  unfold JsonPrint.escapeChar
  split
  · rename_i h; subst h; simp [parseStrBody]
  split
  · rename_i h; subst h; simp [parseStrBody]
  split
  · rename_i h
    have : c = Char.ofNat 8 := by rw [← h, Char.ofNat_toNat]
    subst this
    simp [parseStrBody]
  split
  · rename_i h
    have : c = Char.ofNat 12 := by rw [← h, Char.ofNat_toNat]
    subst this
    simp [parseStrBody]
  split
  · rename_i h; subst h; simp [parseStrBody]
  split
  · rename_i h; subst h; simp [parseStrBody]
  split
  · rename_i h; subst h; simp [parseStrBody]
  split
  · rename_i h
    have h1 := hexVal_hexDigit (toNat_div16_lt h)
    have h3 := hexVal_hexDigit (Nat.mod_lt c.toNat (by decide : 16 > 0))
    have h0 : hexVal '0' = some 0 := by decide
    simp [parseStrBody, hex4, h1, h3, h0]
    have e : c.toNat / 16 * 16 + c.toNat % 16 = c.toNat := by omega
    rw [e, if_neg (by omega), if_pos (by omega), Char.ofNat_toNat]
  · rename_i h1 h2 _ _ _ _ _ h3
    simp [psb_plain _ _ h1 h2 h3]

theorem psb_quoted (k rest : List Char) : ∀ (fuel : Nat) (acc : List Char), k.length + 1 ≤ fuel →
    parseStrBody fuel (k.flatMap JsonPrint.escapeChar ++ '"' :: rest) acc
      = some (acc.reverse ++ k, rest) := by
  induction k with
  | nil =>
    intro fuel acc h
    obtain ⟨f, rfl⟩ : ∃ f, fuel = f + 1 := ⟨fuel - 1, by simp at h; omega⟩
    simp [parseStrBody]
  | cons c k ih =>
    intro fuel acc h
    obtain ⟨f, rfl⟩ : ∃ f, fuel = f + 1 := ⟨fuel - 1, by simp at h; omega⟩
    simp only [List.flatMap_cons, List.append_assoc]
    rw [psb_escape, ih _ _ (by simp at h ⊢; omega)]
    simp

theorem escapeChar_length_pos (c : Char) : 1 ≤ (JsonPrint.escapeChar c).length := by
  unfold JsonPrint.escapeChar
  repeat' split
  all_goals simp

theorem flatMap_escapeChar_length (k : List Char) : k.length ≤ (k.flatMap JsonPrint.escapeChar).length := by
  induction k with
  | nil => simp
  | cons c k ih =>
    have := escapeChar_length_pos c
    simp only [List.flatMap_cons, List.length_append, List.length_cons]
    omega

theorem parse_quoted (k : List Char) :
    JsonText.parse ('"' :: (k.flatMap JsonPrint.escapeChar ++ ['"'])) = some (.str (String.ofList k)) := by
  unfold JsonText.parse
  have hl := flatMap_escapeChar_length k
  rw [show 2 * ('"' :: (k.flatMap JsonPrint.escapeChar ++ ['"'])).length + 2
      = (2 * ('"' :: (k.flatMap JsonPrint.escapeChar ++ ['"'])).length + 1) + 1 from rfl]
  rw [parseValue]
  have hs : skipWs ('"' :: (k.flatMap JsonPrint.escapeChar ++ ['"']))
      = '"' :: (k.flatMap JsonPrint.escapeChar ++ ['"']) := by
    simp [skipWs, isWs]
  rw [hs]
  simp only
  rw [psb_quoted k [] _ [] (by simp only [List.length_append, List.length_cons, List.length_nil]; omega)]
  simp [skipWs]

end
end Spell
open Spell

theorem Spell.lexOne_dq (pos : Nat) (cs buf r : List Char) (s : String)
    (h1 : Lexer.consumeInside '"' cs [] = some (buf, r))
    (h2 : JsonText.parse ('"' :: (buf ++ ['"'])) = some (.str s)) :
    Lexer.lexOne pos '"' cs = .ok (some (.quotedIdentifier s), r) := by
  unfold Lexer.lexOne
  simp [Lexer.isIdStart, h1, h2]

theorem Spell.lexOne_sq (pos : Nat) (cs buf r : List Char)
    (h1 : Lexer.consumeInside '\'' cs [] = some (buf, r)) :
    Lexer.lexOne pos '\'' cs
      = .ok (some (.literal (.str (String.ofList (Lexer.unescape '\'' buf)))), r) := by
  unfold Lexer.lexOne
  simp [Lexer.isIdStart, h1]

theorem Spell.lexOne_sq_none (pos : Nat) (cs : List Char)
    (h1 : Lexer.consumeInside '\'' cs [] = none) :
    Lexer.lexOne pos '\'' cs = .error ⟨pos, .unclosed⟩ := by
  unfold Lexer.lexOne
  simp [Lexer.isIdStart, h1]

theorem Spell.lexOne_bt (pos : Nat) (cs buf r : List Char) (v : Val)
    (h1 : Lexer.consumeInside '`' cs [] = some (buf, r))
    (h2 : JsonText.parse (Lexer.unescape '`' buf) = some v) :
    Lexer.lexOne pos '`' cs = .ok (some (.literal v), r) := by
  unfold Lexer.lexOne
  simp [Lexer.isIdStart, h1, h2]

/-- a single token spanning the whole input -/
theorem Spell.tokenize_single (c : Char) (cs : List Char) (t : Tok)
    (h : Lexer.lexOne 0 c cs = .ok (some t, [])) :
    tokenize (c :: cs) = .ok [(0, t), (Lexer.utf8Len (c :: cs), .eof)] := by
  unfold tokenize
  simp only [List.length_cons]
  rw [Lexer.loop]
  simp only [Nat.sub_self, h]
  rw [Lexer.loop]
  simp

theorem quoted_roundtrip (k : List Char) (rest : List Char) (pos : Nat) :
    Lexer.lexOne pos '"' ((k.flatMap JsonPrint.escapeChar) ++ '"' :: rest)
      = .ok (some (.quotedIdentifier (String.ofList k)), rest) := by
  apply lexOne_dq _ _ _ _ _ (consumeInside_quoted k rest [])
  simpa using parse_quoted k

theorem quoted_tokenize (k : String) :
    tokenize (quotedSpell k) = .ok [(0, .quotedIdentifier k), (Lexer.utf8Len (quotedSpell k), .eof)] := by
  have h : quotedSpell k = '"' :: (k.toList.flatMap JsonPrint.escapeChar ++ ['"']) := by
    simp [quotedSpell, JsonPrint.quote]
  rw [h]
  apply tokenize_single
  rw [quoted_roundtrip]
  simp

/-! ### raw strings and the backtick layer, generic in the quote character -/
namespace Spell

/-- each `q` becomes `\q` (generic form of `rawBody` / `escBacktick`) -/
def escQ (q : Char) : List Char → List Char
  | [] => []
  | c :: cs => if c = q then '\\' :: q :: escQ q cs else c :: escQ q cs

/-- generic form of `rawSpellable.go` -/
def goQ (q : Char) (odd : Bool) : List Char → Bool
  | [] => !odd
  | c :: cs =>
    if c = '\\' then goQ q (!odd) cs
    else if c = q then (!odd) && goQ q false cs
    else goQ q false cs

theorem rawBody_eq (s : List Char) : rawBody s = escQ '\'' s := by
  induction s with
  | nil => rfl
  | cons c cs ih => simp [rawBody, escQ, ih]

theorem escBacktick_eq (s : List Char) : escBacktick s = escQ '`' s := by
  induction s with
  | nil => rfl
  | cons c cs ih => simp [escBacktick, escQ, ih]

theorem rawSpellable_go_eq (s : List Char) : ∀ odd, rawSpellable.go odd s = goQ '\'' odd s := by
  induction s with
  | nil => intro odd; rfl
  | cons c cs ih => intro odd; simp [rawSpellable.go, goQ, ih]

/-- the pending backslash of an odd run -/
def pre : Bool → List Char
  | true => ['\\']
  | false => []

theorem consumeInside_escQ (q : Char) (hq : q ≠ '\\') (rest : List Char) (s : List Char) :
    ∀ (odd : Bool) (acc : List Char), goQ q odd s = true →
      Lexer.consumeInside q (pre odd ++ escQ q s ++ q :: rest) acc
        = some (acc.reverse ++ pre odd ++ escQ q s, rest) := by
  induction s with
  | nil =>
    intro odd acc h
    cases odd
    · simp [pre, escQ, ci_close]
    · simp [goQ] at h
  | cons c cs ih =>
    intro odd acc h
    by_cases h1 : c = '\\'
    · subst h1
      have e : escQ q ('\\' :: cs) = '\\' :: escQ q cs := by simp [escQ, Ne.symm hq]
      simp only [goQ, if_true] at h
      rw [e]
      cases odd
      · have := ih true acc h
        simpa [pre] using this
      · have := ih false ('\\' :: '\\' :: acc) h
        simp only [pre, List.cons_append, List.nil_append, ci_pair q hq]
        simpa [pre] using this
    · by_cases h2 : c = q
      · subst h2
        have e : escQ c (c :: cs) = '\\' :: c :: escQ c cs := by simp [escQ]
        simp only [goQ, if_neg h1, if_true, Bool.and_eq_true, Bool.not_eq_true'] at h
        obtain ⟨rfl, h⟩ := h
        rw [e]
        have := ih false (c :: '\\' :: acc) h
        simp only [pre, List.cons_append, List.nil_append, ci_pair c hq]
        simpa [pre] using this
      · have e : escQ q (c :: cs) = c :: escQ q cs := by simp [escQ, h2]
        simp only [goQ, if_neg h1, if_neg h2] at h
        rw [e]
        cases odd
        · have := ih false (c :: acc) h
          simp only [pre, List.cons_append, List.nil_append, ci_plain q c h2 h1]
          simpa [pre] using this
        · have := ih false (c :: '\\' :: acc) h
          simp only [pre, List.cons_append, List.nil_append, ci_pair q hq]
          simpa [pre] using this

theorem escQ_head_ne (q : Char) (hq : q ≠ '\\') (s : List Char) : ∀ d tl, escQ q s = d :: tl → d ≠ q := by
  intro d tl h
  cases s with
  | nil => simp [escQ] at h
  | cons c cs =>
    simp only [escQ] at h
    split at h
    · simp at h; rw [← h.1]; exact Ne.symm hq
    · simp at h; rw [← h.1]; assumption

theorem unescape_escQ (q : Char) (hq : q ≠ '\\') (s : List Char) : Lexer.unescape q (escQ q s) = s := by
  induction s with
  | nil => simp [escQ, Lexer.unescape]
  | cons c cs ih =>
    by_cases h2 : c = q
    · subst h2
      simp [escQ, Lexer.unescape, ih]
    · have e : escQ q (c :: cs) = c :: escQ q cs := by simp [escQ, h2]
      rw [e]
      by_cases h1 : c = '\\'
      · subst h1
        cases h : escQ q cs with
        | nil => rw [h] at ih; simp [Lexer.unescape] at ih ⊢; exact ih
        | cons d tl =>
          have := escQ_head_ne q hq cs d tl h
          rw [h] at ih
          simp [Lexer.unescape, this, ih]
      · rw [Lexer.unescape]
        · rw [ih]
        · intro c' r' hh; exact absurd hh h1

theorem consumeInside_escQ' (q : Char) (hq : q ≠ '\\') (s rest : List Char) (h : goQ q false s = true) :
    Lexer.consumeInside q (escQ q s ++ q :: rest) [] = some (escQ q s, rest) := by
  simpa [pre] using consumeInside_escQ q hq rest s false [] h

end Spell

theorem raw_roundtrip (s : List Char) (hs : rawSpellable s = true) (rest : List Char) (pos : Nat) :
    Lexer.lexOne pos '\'' (rawBody s ++ '\'' :: rest)
      = .ok (some (.literal (.str (String.ofList s))), rest) := by
  have hq : '\'' ≠ '\\' := by decide
  rw [rawSpellable, rawSpellable_go_eq] at hs
  rw [rawBody_eq, lexOne_sq _ _ _ _ (consumeInside_escQ' _ hq s rest hs), unescape_escQ _ hq]

theorem raw_tokenize (s : List Char) (hs : rawSpellable s = true) :
    tokenize (rawSpell s)
      = .ok [(0, .literal (.str (String.ofList s))), (Lexer.utf8Len (rawSpell s), .eof)] := by
  unfold rawSpell
  exact tokenize_single _ _ _ (raw_roundtrip s hs [] 0)

/-- backtick-safe: no odd run of backslashes directly before a backtick or at the end -/
def btSafe (t : List Char) : Bool := Spell.goQ '`' false t

theorem backtick_layer (t : List Char) (ht : btSafe t = true) (rest : List Char) :
    ∃ x, Lexer.consumeInside '`' (escBacktick t ++ '`' :: rest) [] = some (x, rest) ∧
      Lexer.unescape '`' x = t := by
  have hq : '`' ≠ '\\' := by decide
  exact ⟨escQ '`' t, by rw [escBacktick_eq]; exact consumeInside_escQ' _ hq t rest ht,
    unescape_escQ _ hq t⟩

set_option linter.unusedVariables false in
theorem literal_roundtrip (v : Val) (hv : v.isJson = true)
    (hparse : JsonText.parse (JsonPrint.compact v).toList = some v)
    (hbt : btSafe (JsonPrint.compact v).toList = true) :
    tokenize (literalSpell v) = .ok [(0, .literal v), (Lexer.utf8Len (literalSpell v), .eof)] := by
  unfold literalSpell
  apply tokenize_single
  obtain ⟨x, h1, h2⟩ := backtick_layer _ hbt []
  exact lexOne_bt _ _ _ _ _ h1 (by rw [h2]; exact hparse)

/-! ### necessity of the guard -/
namespace Spell

theorem ci_acc (q : Char) (cs : List Char) : ∀ acc acc' : List Char,
    Lexer.consumeInside q cs (acc ++ acc')
      = (Lexer.consumeInside q cs acc).map (fun p => (acc'.reverse ++ p.1, p.2)) := by
  intro acc
  fun_induction Lexer.consumeInside q cs acc with
  | case1 acc => intro acc'; simp [Lexer.consumeInside]
  | case2 cs acc => intro acc'; simp [ci_close]
  | case3 acc c cs h1 ih =>
    intro acc'
    rw [ci_pair _ (Ne.symm h1)]
    simpa using ih acc'
  | case4 acc h1 =>
    intro acc'
    rw [Lexer.consumeInside.eq_def]
    simp [h1]
  | case5 c cs acc h1 h2 ih =>
    intro acc'
    rw [ci_plain _ _ h1 h2]
    simpa using ih acc'

theorem ci_acc' (q : Char) (cs acc : List Char) :
    Lexer.consumeInside q cs acc
      = (Lexer.consumeInside q cs []).map (fun p => (acc.reverse ++ p.1, p.2)) := by
  simpa using ci_acc q cs [] acc

/-- the buffer returned by `consumeInside` never starts with the closing character -/
theorem ci_head_ne (q : Char) (cs buf r : List Char)
    (h : Lexer.consumeInside q cs [] = some (buf, r)) : ∀ tl, buf ≠ q :: tl := by
  intro tl
  cases cs with
  | nil => simp [Lexer.consumeInside] at h
  | cons c cs =>
    by_cases h1 : c = q
    · subst h1; rw [ci_close] at h; simp at h; simp [h.1]
    · by_cases h2 : c = '\\'
      · subst h2
        cases cs with
        | nil => rw [Lexer.consumeInside.eq_def] at h; simp [h1] at h
        | cons c2 cs =>
          rw [ci_pair _ (Ne.symm h1), ci_acc'] at h
          simp at h
          obtain ⟨a, b, _, rfl, _⟩ := h
          simp [h1]
      · rw [ci_plain _ _ h1 h2, ci_acc'] at h
        simp at h
        obtain ⟨a, b, _, rfl, _⟩ := h
        simp [h1]

theorem un_q (q : Char) (r : List Char) : Lexer.unescape q ('\\' :: q :: r) = q :: Lexer.unescape q r := by
  simp [Lexer.unescape]
theorem un_bs (q c : Char) (h : c ≠ q) (r : List Char) :
    Lexer.unescape q ('\\' :: c :: r) = '\\' :: Lexer.unescape q (c :: r) := by
  simp [Lexer.unescape, h]
theorem un_plain (q c : Char) (h : c ≠ '\\') (r : List Char) :
    Lexer.unescape q (c :: r) = c :: Lexer.unescape q r := by
  rw [Lexer.unescape]
  intro c' r' hh; exact absurd hh h
theorem un_bs_buf (q : Char) (buf : List Char) (h : ∀ tl, buf ≠ q :: tl) :
    Lexer.unescape q ('\\' :: buf) = '\\' :: Lexer.unescape q buf := by
  cases buf with
  | nil => simp [Lexer.unescape]
  | cons d tl =>
    have : d ≠ q := fun e => h tl (by rw [e])
    rw [un_bs _ _ this]

/-- when the guard fails the lexer either runs off the end or returns a buffer that does not
decode to the intended string -/
theorem consumeInside_bad (q : Char) (hq : q ≠ '\\') (s : List Char) :
    ∀ (odd : Bool), goQ q odd s = false → ∀ buf r,
      Lexer.consumeInside q (pre odd ++ escQ q s ++ [q]) [] = some (buf, r) →
      Lexer.unescape q buf ≠ pre odd ++ s := by
  induction s with
  | nil =>
    intro odd h buf r hc
    cases odd
    · simp [goQ] at h
    · simp only [pre, escQ, List.cons_append, List.nil_append] at hc
      rw [ci_pair _ hq] at hc
      simp [Lexer.consumeInside] at hc
  | cons c cs ih =>
    intro odd h buf r hc
    by_cases h1 : c = '\\'
    · subst h1
      have e : escQ q ('\\' :: cs) = '\\' :: escQ q cs := by simp [escQ, Ne.symm hq]
      simp only [goQ, if_true] at h
      rw [e] at hc
      cases odd
      · have := ih true h buf r (by simpa [pre] using hc)
        simpa [pre] using this
      · simp only [pre, List.cons_append, List.nil_append, ci_pair q hq] at hc
        rw [ci_acc'] at hc
        simp only [Option.map_eq_some_iff] at hc
        obtain ⟨⟨b, r'⟩, hb, hbr⟩ := hc
        simp at hbr
        obtain ⟨rfl, rfl⟩ := hbr
        have := ih false h b r' (by simpa [pre] using hb)
        have hh := ci_head_ne q _ _ _ hb
        rw [un_bs _ _ (Ne.symm hq), un_bs_buf _ _ hh]
        simpa [pre] using this
    · by_cases h2 : c = q
      · subst h2
        have e : escQ c (c :: cs) = '\\' :: c :: escQ c cs := by simp [escQ]
        rw [e] at hc
        cases odd
        · simp only [goQ, if_neg h1, if_true, Bool.not_false, Bool.true_and] at h
          simp only [pre, List.cons_append, List.nil_append, ci_pair c hq] at hc
          rw [ci_acc'] at hc
          simp only [Option.map_eq_some_iff] at hc
          obtain ⟨⟨b, r'⟩, hb, hbr⟩ := hc
          simp at hbr
          obtain ⟨rfl, rfl⟩ := hbr
          have := ih false h b r' (by simpa [pre] using hb)
          rw [un_q]
          simpa [pre] using this
        · simp only [pre, List.cons_append, List.nil_append, ci_pair c hq, ci_close] at hc
          simp at hc
          rw [← hc.1]
          simp [Lexer.unescape, pre, Ne.symm hq]
      · have e : escQ q (c :: cs) = c :: escQ q cs := by simp [escQ, h2]
        simp only [goQ, if_neg h1, if_neg h2] at h
        rw [e] at hc
        cases odd
        · simp only [pre, List.cons_append, List.nil_append, ci_plain q c h2 h1] at hc
          rw [ci_acc'] at hc
          simp only [Option.map_eq_some_iff] at hc
          obtain ⟨⟨b, r'⟩, hb, hbr⟩ := hc
          simp at hbr
          obtain ⟨rfl, rfl⟩ := hbr
          have := ih false h b r' (by simpa [pre] using hb)
          rw [un_plain _ _ h1]
          simpa [pre] using this
        · simp only [pre, List.cons_append, List.nil_append, ci_pair q hq] at hc
          rw [ci_acc'] at hc
          simp only [Option.map_eq_some_iff] at hc
          obtain ⟨⟨b, r'⟩, hb, hbr⟩ := hc
          simp at hbr
          obtain ⟨rfl, rfl⟩ := hbr
          have := ih false h b r' (by simpa [pre] using hb)
          rw [un_bs _ _ h2, un_plain _ _ h1]
          simpa [pre] using this

end Spell

theorem raw_unspellable (s : List Char) (hs : rawSpellable s = false) :
    tokenize (rawSpell s)
      ≠ .ok [(0, .literal (.str (String.ofList s))), (Lexer.utf8Len (rawSpell s), .eof)] := by
  have hq : '\'' ≠ '\\' := by decide
  rw [rawSpellable, rawSpellable_go_eq] at hs
  intro h
  unfold tokenize at h
  simp only [rawSpell, List.length_cons] at h
  rw [Lexer.loop] at h
  simp only [Nat.sub_self] at h
  cases hc : Lexer.consumeInside '\'' (rawBody s ++ ['\'']) [] with
  | none =>
    rw [lexOne_sq_none _ _ hc] at h
    simp at h
  | some p =>
    obtain ⟨buf, r⟩ := p
    rw [lexOne_sq _ _ _ _ hc] at h
    simp only at h
    obtain ⟨mid, hm, _⟩ := lexLoop_shape _ _ _ _ _ h
    have hbad := consumeInside_bad '\'' hq s false hs buf r (by simpa [pre, rawBody_eq] using hc)
    simp only [List.reverse_cons, List.reverse_nil, List.nil_append, List.cons_append] at hm
    injection hm with h1 _
    injection h1 with _ h2
    injection h2 with h3
    injection h3 with h4
    exact hbad (by simpa [pre] using (String.ofList_injective h4).symm)

/-! ### printed JSON is backtick-safe -/
namespace Spell

/-- a segment that the parity scan crosses transparently, from an even state to an even state -/
def Good (q : Char) (a : List Char) : Prop := ∀ tl, goQ q false (a ++ tl) = goQ q false tl

theorem Good.nil (q : Char) : Good q [] := fun _ => rfl
theorem Good.append {q : Char} {a b : List Char} (ha : Good q a) (hb : Good q b) : Good q (a ++ b) := by
  intro tl; rw [List.append_assoc, ha, hb]
theorem Good.safe {q : Char} {a : List Char} (ha : Good q a) : goQ q false a = true := by
  have := ha []; simpa [goQ] using this
theorem Good.single {q c : Char} (h : c ≠ '\\') : Good q [c] := by
  intro tl; simp [goQ, h]
theorem Good.esc {q c : Char} (h1 : c ≠ '\\') (h2 : c ≠ q) : Good q ['\\', c] := by
  intro tl; simp [goQ, h1, h2]
theorem Good.bsbs {q : Char} : Good q ['\\', '\\'] := by
  intro tl; simp [goQ]
theorem Good.cons {q c : Char} {a : List Char} (h : c ≠ '\\') (ha : Good q a) : Good q (c :: a) :=
  Good.append (Good.single h) ha
theorem Good.noBs {q : Char} : ∀ {a : List Char}, '\\' ∉ a → Good q a
  | [], _ => Good.nil q
  | c :: a, h => by
    simp only [List.mem_cons, not_or] at h
    exact Good.cons (Ne.symm h.1) (Good.noBs h.2)

theorem good_escapeChar (c : Char) : Good '`' (JsonPrint.escapeChar c) := by
  unfold JsonPrint.escapeChar
  split
  · exact Good.esc (by decide) (by decide)
  split
  · exact Good.bsbs
  split
  · exact Good.esc (by decide) (by decide)
  split
  · exact Good.esc (by decide) (by decide)
  split
  · exact Good.esc (by decide) (by decide)
  split
  · exact Good.esc (by decide) (by decide)
  split
  · exact Good.esc (by decide) (by decide)
  split
  · rename_i h
    have h2 := hexDigit_ne_bs (toNat_div16_lt h)
    have h4 := hexDigit_ne_bs (Nat.mod_lt c.toNat (by decide : 16 > 0))
    exact Good.append (a := ['\\', 'u']) (Good.esc (by decide) (by decide))
      (Good.cons (by decide) (Good.cons (by decide) (Good.cons h2 (Good.single h4))))
  · rename_i h1 h2 _ _ _ _ _ _
    exact Good.single h2

theorem good_flatMap_escapeChar (k : List Char) : Good '`' (k.flatMap JsonPrint.escapeChar) := by
  induction k with
  | nil => exact Good.nil _
  | cons c k ih => rw [List.flatMap_cons]; exact Good.append (good_escapeChar c) ih

theorem good_quote (s : String) : Good '`' (JsonPrint.quote s).toList := by
  simp only [JsonPrint.quote, String.toList_ofList]
  exact Good.cons (by decide) (Good.append (good_flatMap_escapeChar _) (Good.single (by decide)))

/-! numbers contain no backslash -/

theorem noBs_of_isDigit {l : List Char} (h : ∀ c ∈ l, c.isDigit = true) : '\\' ∉ l := by
  intro hm; have := h _ hm; revert this; decide

theorem noBs_natToString (n : Nat) : '\\' ∉ (toString n).toList := by
  rw [Nat.toString_eq_ofList_toDigits, String.toList_ofList]
  exact noBs_of_isDigit fun c hc => Nat.isDigit_of_mem_toDigits (by decide) (by decide) hc

theorem noBs_intToString (i : Int) : '\\' ∉ (toString i).toList := by
  show '\\' ∉ (Int.repr i).toList
  cases i with
  | ofNat n => simpa [Int.repr] using noBs_natToString n
  | negSucc n =>
    simp only [Int.repr, String.toList_append]
    have := noBs_natToString (n + 1)
    simp [toString] at this
    simp [this]

theorem noBs_natDigits (n : Nat) : '\\' ∉ JsonPrint.natDigits n := noBs_natToString n

theorem noBs_strip {ds : List Char} (h : '\\' ∉ ds) : '\\' ∉ JsonPrint.stripTrailingZeros ds := by
  intro hm
  simp only [JsonPrint.stripTrailingZeros, List.mem_reverse] at hm
  have := (List.dropWhile_sublist _).mem hm
  exact h (by simpa using this)

theorem noBs_zeros (n : Nat) : '\\' ∉ JsonPrint.zeros n := by
  simp [JsonPrint.zeros]

theorem noBs_shortest_go (f : F64) (e10 : Int) : ∀ fuel p, '\\' ∉ (JsonPrint.shortest.go f (f.toRat) e10 fuel p).1 := by
  intro fuel
  induction fuel with
  | zero => intro p; simp only [JsonPrint.shortest.go]; exact noBs_natDigits 0
  | succ n ih =>
    intro p
    simp only [JsonPrint.shortest.go]
    split
    · split
      · simp
      · exact noBs_strip (noBs_natDigits _)
    · exact ih _

theorem noBs_shortest (f : F64) : '\\' ∉ (JsonPrint.shortest f).1 := by
  unfold JsonPrint.shortest
  exact noBs_shortest_go f _ _ _

theorem noBs_take {l : List Char} (h : '\\' ∉ l) (k : Nat) : '\\' ∉ l.take k :=
  fun hm => h (List.mem_of_mem_take hm)
theorem noBs_drop {l : List Char} (h : '\\' ∉ l) (k : Nat) : '\\' ∉ l.drop k :=
  fun hm => h (List.mem_of_mem_drop hm)

theorem noBs_floatText (f : F64) : '\\' ∉ (JsonPrint.floatText f).toList := by
  unfold JsonPrint.floatText
  split
  · split <;> decide
  · rename_i s m e _
    have hds := noBs_shortest (.fin false m e)
    generalize JsonPrint.shortest (.fin false m e) = p at hds
    obtain ⟨ds, ex⟩ := p
    simp only at hds
    simp only [String.toList_ofList, List.mem_append, not_or]
    refine ⟨by split <;> simp, ?_⟩
    split
    · split
      · split
        · simp [hds, noBs_zeros]
        · simp [noBs_take hds, noBs_drop hds]
      · simp [hds, noBs_zeros]
    · have hm : '\\' ∉ (match ds with
          | [d] => [d]
          | d :: rest => d :: '.' :: rest
          | [] => ['0']) := by
        split
        · simpa using hds
        · simp at hds ⊢; exact hds
        · simp
      have := noBs_natDigits ex.natAbs
      simp only [List.mem_append, not_or]
      refine ⟨⟨⟨hm, by simp⟩, by split <;> simp⟩, this⟩
  · decide

theorem noBs_numText (n : Num) : '\\' ∉ (JsonPrint.numText n).toList := by
  cases n with
  | pos n => exact noBs_natToString n
  | neg i => exact noBs_intToString i
  | flt f => exact noBs_floatText f

mutual
theorem good_compact : ∀ v : Val, Good '`' (JsonPrint.compact v).toList
  | .null => by rw [JsonPrint.compact]; exact Good.noBs (by decide)
  | .bool true => by rw [JsonPrint.compact]; exact Good.noBs (by decide)
  | .bool false => by rw [JsonPrint.compact]; exact Good.noBs (by decide)
  | .num n => by rw [JsonPrint.compact]; exact Good.noBs (noBs_numText n)
  | .str s => by rw [JsonPrint.compact]; exact good_quote s
  | .arr xs => by
    rw [JsonPrint.compact]
    simp only [String.toList_append]
    exact Good.append (Good.append (Good.noBs (by decide)) (good_compactElems xs)) (Good.noBs (by decide))
  | .obj kvs => by
    rw [JsonPrint.compact]
    simp only [String.toList_append]
    exact Good.append (Good.append (Good.noBs (by decide)) (good_compactMembers kvs)) (Good.noBs (by decide))
  | .expref _ => by rw [JsonPrint.compact]; exact good_quote _
theorem good_compactElems : ∀ xs : List Val, Good '`' (JsonPrint.compactElems xs).toList
  | [] => by rw [JsonPrint.compactElems]; exact Good.noBs (by decide)
  | [v] => by rw [JsonPrint.compactElems]; exact good_compact v
  | v :: w :: vs => by
    rw [JsonPrint.compactElems.eq_3 _ _ (by simp)]
    simp only [String.toList_append]
    exact Good.append (Good.append (good_compact v) (Good.noBs (by decide))) (good_compactElems (w :: vs))
theorem good_compactMembers : ∀ kvs : List (String × Val), Good '`' (JsonPrint.compactMembers kvs).toList
  | [] => by rw [JsonPrint.compactMembers]; exact Good.noBs (by decide)
  | [(k, v)] => by
    rw [JsonPrint.compactMembers]
    simp only [String.toList_append]
    exact Good.append (Good.append (good_quote k) (Good.noBs (by decide))) (good_compact v)
  | (k, v) :: w :: r => by
    rw [JsonPrint.compactMembers.eq_3 _ _ _ (by simp)]
    simp only [String.toList_append]
    exact Good.append (Good.append (Good.append (Good.append (good_quote k) (Good.noBs (by decide)))
      (good_compact v)) (Good.noBs (by decide))) (good_compactMembers (w :: r))
end

end Spell

set_option linter.unusedVariables false in
/-- printed JSON is backtick-safe (the hypothesis `hv` is not needed: even the placeholder printed for
an expression reference is a JSON string) -/
theorem compact_btSafe (v : Val) (hv : v.isJson = true) : btSafe (JsonPrint.compact v).toList = true :=
  (good_compact v).safe

/-- `literal_roundtrip` with the backtick-safety premise discharged -/
theorem literal_roundtrip_of_parse (v : Val) (hv : v.isJson = true)
    (hparse : JsonText.parse (JsonPrint.compact v).toList = some v) :
    tokenize (literalSpell v) = .ok [(0, .literal v), (Lexer.utf8Len (literalSpell v), .eof)] :=
  literal_roundtrip v hv hparse (compact_btSafe v hv)

#print axioms quoted_roundtrip
#print axioms quoted_tokenize
#print axioms raw_roundtrip
#print axioms raw_tokenize
#print axioms raw_unspellable
#print axioms backtick_layer
#print axioms compact_btSafe
#print axioms literal_roundtrip
#print axioms literal_roundtrip_of_parse

end JmesVerif
