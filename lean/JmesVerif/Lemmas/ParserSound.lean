import JmesVerif.Lemmas.ParserBasic
import JmesVerif.Lemmas.ParserSoundAux
/-!
T1 — soundness of the parser model with respect to the token-level grammar (`Spec/Grammar.lean`):
whatever a parser function returns spells exactly the tokens consumed, is `Legal`, stopped for a
reason, and the `Ast` built alongside is (up to offsets) the tree `ast` assigns.

One invariant per function of the mutual block, bundled in `IH fuel`; one lemma per function
`IH n → <invariant at n+1>`; `all` assembles them by induction on the fuel.
-/
namespace JmesVerif
open Parser

/-! ### the invariants -/

def ExprInv (n : Nat) : Prop :=
  ∀ rbp ts off e a ts' off', Parser.expr n rbp ts off = .ok ((e, a), ts', off') →
    tk ts = e.toks ++ tk ts' ∧ e.Legal rbp ∧ Stop rbp ts' ∧ Stop e.follow ts' ∧ a.strip = e.ast

/-- `nud` rejects a quoted identifier directly followed by `(` -/
def QfOk (h : Nud) (acc : List Led) (ts : List PT) : Prop :=
  ∀ s, h = .qfield s → acc = [] → peekT ts ≠ .lparen

def LoopInv (n : Nat) : Prop :=
  ∀ rbp h acc left ts off e a ts' off',
    Parser.loop n rbp h acc left ts off = .ok ((e, a), ts', off') →
    h.Legal → chain rbp h.follow acc → callDevOk h acc → left.strip = ledsAst h.ast acc →
    Stop (ledsFollow h.follow acc) ts → QfOk h acc ts →
    h.toks ++ ledsToks acc ++ tk ts = e.toks ++ tk ts' ∧ e.Legal rbp ∧ Stop rbp ts' ∧
      Stop e.follow ts' ∧ a.strip = e.ast

def NudInv (n : Nat) : Prop :=
  ∀ ts off h a ts' off', Parser.nud n ts off = .ok ((h, a), ts', off') →
    tk ts = h.toks ++ tk ts' ∧ h.Legal ∧ Stop h.follow ts' ∧ a.strip = h.ast ∧ QfOk h [] ts'

def LedInv (n : Nat) : Prop :=
  ∀ left ts off l a ts' off', Parser.led n left ts off = .ok ((l, a), ts', off') →
    tk ts = l.toks ++ tk ts' ∧ l.Legal ∧ Stop l.follow ts' ∧ a.strip = l.ast left.strip ∧
      l.isCallDev = false

def IndexInv (n : Nat) : Prop :=
  ∀ ts off x a ts' off', Parser.parseIndex n ts off = .ok ((x, a), ts', off') →
    match x with
    | .inl i => tk ts = .number i :: .rbracket :: tk ts' ∧ a.strip = .index 0 i
    | .inr (hd, rhs) =>
      tk ts = hd.toks ++ .rbracket :: (rhs.toks ++ tk ts') ∧ rhs.Legal 20 ∧
        Stop (rhs.follow 20) ts' ∧
        a.strip = .projection 0 (.slice 0 hd.a hd.b hd.step) rhs.ast

def ProjRhsInv (n : Nat) : Prop :=
  ∀ k ts off r a ts' off', Parser.projRhs n k ts off = .ok ((r, a), ts', off') →
    tk ts = r.toks ++ tk ts' ∧ r.Legal k ∧ Stop (r.follow k) ts' ∧ a.strip = r.ast

def DotInv (n : Nat) : Prop :=
  ∀ k ts off d a ts' off', Parser.parseDot n k ts off = .ok ((d, a), ts', off') →
    tk ts = d.toks ++ tk ts' ∧ d.Legal k ∧ Stop (d.follow k) ts' ∧ a.strip = d.ast

def MultiListInv (n : Nat) : Prop :=
  ∀ ts off es a ts' off', Parser.multiList n ts off = .ok ((es, a), ts', off') →
    tk ts = argsToks es ++ .rbracket :: tk ts' ∧ es ≠ [] ∧ argsLegal es ∧
      a.strip = .multiList 0 (exprsAst es)

def ListInv (n : Nat) : Prop :=
  ∀ paren ts off es as es' as' ts' off',
    Parser.parseList n paren ts off es as = .ok ((es', as'), ts', off') →
    (es ≠ [] → isClosing paren (peekT ts) = false) →
    ∃ new anew, es' = es ++ new ∧ as' = as ++ anew ∧
      tk ts = argsToks new ++ closeTok paren :: tk ts' ∧ (es ≠ [] → new ≠ []) ∧
      argsLegal new ∧ stripList anew = exprsAst new

def KvpsInv (n : Nat) : Prop :=
  ∀ ts off ks aks ks' aks' ts' off',
    Parser.kvps n ts off ks aks = .ok ((ks', aks'), ts', off') →
    ∃ new anew, ks' = ks ++ new ∧ aks' = aks ++ anew ∧ new ≠ [] ∧
      tk ts = kvsToks new ++ .rbrace :: tk ts' ∧ kvsLegal new ∧ stripKVs anew = kvsAst new

def FilterInv (n : Nat) : Prop :=
  ∀ lhs ts off pe r a ts' off', Parser.parseFilter n lhs ts off = .ok ((pe, r, a), ts', off') →
    tk ts = pe.toks ++ .rbracket :: (r.toks ++ tk ts') ∧ pe.Legal 0 ∧ r.Legal 21 ∧
      Stop (r.follow 21) ts' ∧
      a.strip = .projection 0 lhs.strip (.condition 0 pe.ast r.ast)

def FlattenInv (n : Nat) : Prop :=
  ∀ lhs ts off r a ts' off', Parser.parseFlatten n lhs ts off = .ok ((r, a), ts', off') →
    tk ts = r.toks ++ tk ts' ∧ r.Legal 9 ∧ Stop (r.follow 9) ts' ∧
      a.strip = .projection 0 (.flatten 0 lhs.strip) r.ast

def WVInv (n : Nat) : Prop :=
  ∀ lhs ts off r a ts' off', Parser.wildcardValues n lhs ts off = .ok ((r, a), ts', off') →
    tk ts = r.toks ++ tk ts' ∧ r.Legal 20 ∧ Stop (r.follow 20) ts' ∧
      a.strip = .projection 0 (.objectValues 0 lhs.strip) r.ast

def WIInv (n : Nat) : Prop :=
  ∀ lhs ts off r a ts' off', Parser.wildcardIndex n lhs ts off = .ok ((r, a), ts', off') →
    tk ts = .rbracket :: (r.toks ++ tk ts') ∧ r.Legal 20 ∧ Stop (r.follow 20) ts' ∧
      a.strip = .projection 0 lhs.strip r.ast

structure IH (n : Nat) : Prop where
  expr : ExprInv n
  loop : LoopInv n
  nud : NudInv n
  led : LedInv n
  index : IndexInv n
  projRhs : ProjRhsInv n
  dot : DotInv n
  multiList : MultiListInv n
  list : ListInv n
  kvps : KvpsInv n
  filter : FilterInv n
  flatten : FlattenInv n
  wv : WVInv n
  wi : WIInv n

/-! ### one step per function -/

theorem wv_step (n : Nat) (ih : IH n) : WVInv (n + 1) := by
  intro lhs ts off r a ts' off' h
  simp only [wildcardValues] at h
  split at h
  · simp at h
  · rename_i x rhs ra ts2 off2 heq
    simp at h
    obtain ⟨⟨rfl, rfl⟩, rfl, rfl⟩ := h
    obtain ⟨h1, h2, h3, h4⟩ := ih.projRhs _ _ _ _ _ _ _ heq
    exact ⟨h1, h2, h3, by simp [Ast.strip, h4]⟩

theorem flatten_step (n : Nat) (ih : IH n) : FlattenInv (n + 1) := by
  intro lhs ts off r a ts' off' h
  simp only [parseFlatten] at h
  split at h
  · simp at h
  · rename_i x rhs ra ts2 off2 heq
    simp at h
    obtain ⟨⟨rfl, rfl⟩, rfl, rfl⟩ := h
    obtain ⟨h1, h2, h3, h4⟩ := ih.projRhs _ _ _ _ _ _ _ heq
    exact ⟨h1, h2, h3, by simp [Ast.strip, h4]⟩

theorem wi_step (n : Nat) (ih : IH n) : WIInv (n + 1) := by
  intro lhs ts off r a ts' off' h
  unfold wildcardIndex at h
  split at h
  · split at h
    · simp at h
    · rename_i heq
      cases h
      obtain ⟨h1, h2, h3, h4⟩ := ih.projRhs _ _ _ _ _ _ _ heq
      exact ⟨by simp [h1], h2, h3, by simp [Ast.strip, h4]⟩
  · simp at h
  · simp at h

theorem filter_step (n : Nat) (ih : IH n) : FilterInv (n + 1) := by
  intro lhs ts off pe r a ts' off' h
  unfold parseFilter at h
  split at h
  · simp at h
  · rename_i heq
    split at h
    · split at h
      · simp at h
      · rename_i heq2
        cases h
        obtain ⟨h1, h2, h3, h4, h5⟩ := ih.expr _ _ _ _ _ _ _ heq
        obtain ⟨g1, g2, g3, g4⟩ := ih.projRhs _ _ _ _ _ _ _ heq2
        exact ⟨by simp [h1, g1], h2, g2, g3, by simp [Ast.strip, h5, g4]⟩
    · simp at h
    · simp at h

theorem multiList_step (n : Nat) (ih : IH n) : MultiListInv (n + 1) := by
  intro ts off es a ts' off' h
  unfold multiList at h
  split at h
  · simp at h
  · rename_i heq
    split at h
    · simp at h
    · rename_i hne
      cases h
      obtain ⟨new, anew, rfl, rfl, h3, h4, h5, h6⟩ := ih.list _ _ _ _ _ _ _ _ _ heq (by simp)
      simp at hne
      exact ⟨by simpa [closeTok] using h3, by simpa using hne, by simpa using h5,
        by simp [Ast.strip, h6]⟩

theorem projRhs_step (n : Nat) (ih : IH n) : ProjRhsInv (n + 1) := by
  intro k ts off r a ts' off' h
  unfold projRhs at h
  split at h
  · split at h
    · simp at h
    · rename_i heq
      cases h
      obtain ⟨h1, h2, h3, h4⟩ := ih.dot _ _ _ _ _ _ _ heq
      exact ⟨by simp [Rhs.toks, h1], by simpa [Rhs.Legal] using h2,
        by simpa [Rhs.follow] using h3, by simp [Rhs.ast, h4]⟩
  · split at h
    · simp at h
    · rename_i heq
      cases h
      obtain ⟨h1, h2, h3, h4, h5⟩ := ih.expr _ _ _ _ _ _ _ heq
      have hf := Expr.first_of_yield _ _ _ h1
      refine ⟨by simpa [Rhs.toks] using h1, ?_, ?_, by simp [Rhs.ast, h5]⟩
      · simp only [Rhs.Legal]
        exact ⟨h2, Expr.headIsBracket_of_first _ (by simp at hf; simp [← hf])⟩
      · simp only [Rhs.follow, Stop] at *; omega
  · split at h
    · simp at h
    · rename_i heq
      cases h
      obtain ⟨h1, h2, h3, h4, h5⟩ := ih.expr _ _ _ _ _ _ _ heq
      have hf := Expr.first_of_yield _ _ _ h1
      refine ⟨by simpa [Rhs.toks] using h1, ?_, ?_, by simp [Rhs.ast, h5]⟩
      · simp only [Rhs.Legal]
        exact ⟨h2, Expr.headIsBracket_of_first _ (by simp at hf; simp [← hf])⟩
      · simp only [Rhs.follow, Stop] at *; omega
  · split at h
    · rename_i hlt
      cases h
      refine ⟨by simp [Rhs.toks], by simp [Rhs.Legal], ?_, by simp [Rhs.ast, Ast.strip]⟩
      simp only [Rhs.follow, Stop, projectionStop] at *; omega
    · simp at h

theorem dot_step (n : Nat) (ih : IH n) : DotInv (n + 1) := by
  intro k ts off d a ts' off' h
  unfold parseDot at h
  have hexpr : ∀ ts, ((∃ s, peekT ts = .identifier s) ∨ (∃ s, peekT ts = .quotedIdentifier s) ∨
      peekT ts = .star ∨ peekT ts = .lbrace ∨ peekT ts = .ampersand) →
      (match Parser.expr n k ts off with
        | .error e => (Except.error e : PRes (DotRhs × Ast))
        | .ok ((e, a), ts, off) => .ok ((DotRhs.expr e, a), ts, off)) =
        .ok ((d, a), ts', off') →
      tk ts = d.toks ++ tk ts' ∧ d.Legal k ∧ Stop (d.follow k) ts' ∧ a.strip = d.ast := by
    intro ts hpk h
    split at h
    · simp at h
    · rename_i heq
      cases h
      obtain ⟨h1, h2, h3, h4, h5⟩ := ih.expr _ _ _ _ _ _ _ heq
      have hf := Expr.first_of_yield _ _ _ h1
      refine ⟨by simpa [DotRhs.toks] using h1, ?_, ?_, by simp [DotRhs.ast, h5]⟩
      · simp only [DotRhs.Legal]
        exact ⟨h2, Expr.headIsDot_of_first _ (by rw [← hf]; exact hpk)⟩
      · simp only [DotRhs.follow, Stop] at *; omega
  split at h
  · split at h
    · simp at h
    · rename_i heq
      cases h
      obtain ⟨h1, h2, h3, h4⟩ := ih.multiList _ _ _ _ _ _ heq
      exact ⟨by simp [DotRhs.toks, h1], by simp [DotRhs.Legal, h2, h3],
        by simp only [DotRhs.follow]; exact stop_INF _, by simp [DotRhs.ast, h4]⟩
  · exact hexpr _ (by simp) h
  · exact hexpr _ (by simp) h
  · exact hexpr _ (by simp) h
  · exact hexpr _ (by simp) h
  · exact hexpr _ (by simp) h
  · simp at h

theorem index_step (n : Nat) (ih : IH n) : IndexInv (n + 1) := by
  intro ts off x a ts' off' h
  unfold parseIndex at h
  split at h
  · simp at h
  · rename_i heq
    cases h
    have := idxLoop_sound _ _ _ _ _ heq
    simp [IdxHdr.toks] at this
    simp [this, Ast.strip]
  · rename_i heq
    simp only at h
    split at h
    · simp at h
    · rename_i heq2
      cases h
      have := idxLoop_sound _ _ _ _ _ heq
      obtain ⟨g1, g2, g3, g4⟩ := ih.projRhs _ _ _ _ _ _ _ heq2
      simp only [IdxHdr.toks] at this
      refine ⟨by simp [this, g1], g2, g3, ?_⟩
      simp [Ast.strip, g4, SliceHdr.step]
      split <;> simp_all

theorem list_step (n : Nat) (ih : IH n) : ListInv (n + 1) := by
  intro paren ts off es as es' as' ts' off' h hcl
  unfold parseList at h
  split at h
  · rename_i p t r
    split at h
    · rename_i hc
      cases h
      have : es = [] := by
        cases es with
        | nil => rfl
        | cons x xs =>
          have := hcl (by simp)
          simp [hc] at this
      subst this
      exact ⟨[], [], by simp, by simp, by simp [argsToks, isClosing_eq _ _ hc], by simp,
        by simp [argsLegal], by simp [stripList, exprsAst]⟩
    · split at h
      · simp at h
      · rename_i e a ts2 off2 heq
        obtain ⟨h1, h2, h3, h4, h5⟩ := ih.expr _ _ _ _ _ _ _ heq
        split at h
        · split at h
          · simp at h
          · rename_i hnc
            obtain ⟨new, anew, rfl, rfl, g3, g4, g5, g6⟩ :=
              ih.list _ _ _ _ _ _ _ _ _ h (by intro _; simpa using hnc)
            have hne := g4 (by simp)
            refine ⟨e :: new, a :: anew, by simp, by simp, ?_, by simp,
              by simp [argsLegal, h2, g5], by simp [stripList, exprsAst, h5, g6]⟩
            rw [h1]; simp [argsToks, argsTail_of_ne _ hne, g3]
        · split at h
          · rename_i hc
            cases h
            refine ⟨[e], [a], rfl, rfl, ?_, by simp, by simp [argsLegal, h2],
              by simp [stripList, exprsAst, h5]⟩
            rw [h1]; simp [argsToks, argsTail, isClosing_eq _ _ hc]
          · simp at h
        · simp at h
  · simp at h

theorem kvps_step (n : Nat) (ih : IH n) : KvpsInv (n + 1) := by
  intro ts off ks aks ks' aks' ts' off' h
  unfold kvps at h
  simp only [] at h
  split at h
  · split at h <;> simp at h
  · rename_i q s p r hkey
    have hts : tk ts = keyTok q s :: tk r := by
      split at hkey
      · cases hkey; simp [keyTok]
      · cases hkey; simp [keyTok]
      · simp at hkey
    split at h
    · split at h
      · simp at h
      · rename_i e a ts2 off2 heq
        obtain ⟨h1, h2, h3, h4, h5⟩ := ih.expr _ _ _ _ _ _ _ heq
        split at h
        · cases h
          refine ⟨[(q, s, e)], [(s, a)], rfl, rfl, by simp, ?_, by simp [kvsLegal, h2],
            by simp [stripKVs, kvsAst, h5]⟩
          rw [hts]; simp [kvsToks, kvsTail, h1]
        · obtain ⟨new, anew, rfl, rfl, g3, g4, g5, g6⟩ := ih.kvps _ _ _ _ _ _ _ _ h
          refine ⟨(q, s, e) :: new, (s, a) :: anew, by simp, by simp, by simp, ?_,
            by simp [kvsLegal, h2, g5], by simp [stripKVs, kvsAst, h5, g6]⟩
          rw [hts]; simp [kvsToks, kvsTail_of_ne _ g3, h1, g4]
        · simp at h
        · simp at h
    · simp at h

theorem nud_step (n : Nat) (ih : IH n) : NudInv (n + 1) := by
  intro ts off hd a ts' off' h
  unfold Parser.nud at h
  have qf : ∀ (x : Nud) (ts : List PT), (∀ s, x ≠ .qfield s) → QfOk x [] ts := by
    intro x ts hx s hs; exact absurd hs (hx s)
  split at h
  · simp at h
  · rename_i p tok r
    split at h
    · -- at
      cases h
      exact ⟨by simp [Nud.toks], by simp [Nud.Legal], by simp only [Nud.follow]; exact stop_INF _,
        by simp [Ast.strip, Nud.ast], qf _ _ (by simp)⟩
    · -- identifier
      cases h
      exact ⟨by simp [Nud.toks], by simp [Nud.Legal], by simp only [Nud.follow]; exact stop_INF _,
        by simp [Ast.strip, Nud.ast], qf _ _ (by simp)⟩
    · -- quoted identifier
      split at h
      · simp at h
      · rename_i hnl
        cases h
        exact ⟨by simp [Nud.toks], by simp [Nud.Legal], by simp only [Nud.follow]; exact stop_INF _,
          by simp [Ast.strip, Nud.ast], by intro s _ _; exact hnl⟩
    · -- star
      split at h
      · simp at h
      · rename_i heq
        cases h
        obtain ⟨h1, h2, h3, h4⟩ := ih.wv _ _ _ _ _ _ _ heq
        exact ⟨by simp [Nud.toks, h1], by simpa [Nud.Legal] using h2,
          by simpa only [Nud.follow] using h3, by simpa [Ast.strip, Nud.ast] using h4,
          qf _ _ (by simp)⟩
    · -- literal
      cases h
      exact ⟨by simp [Nud.toks], by simp [Nud.Legal], by simp only [Nud.follow]; exact stop_INF _,
        by simp [Ast.strip, Nud.ast], qf _ _ (by simp)⟩
    · -- lbracket
      have hidx : ∀ r, (match parseIndex n r p with
            | .error e => (Except.error e : PRes (Nud × Ast))
            | .ok ((.inl n, a), ts, off) => .ok ((.idx n, a), ts, off)
            | .ok ((.inr (hd, rhs), a), ts, off) => .ok ((.slice hd rhs, a), ts, off)) =
            .ok ((hd, a), ts', off') →
          tk ((p, Tok.lbracket) :: r) = hd.toks ++ tk ts' ∧ hd.Legal ∧ Stop hd.follow ts' ∧
            a.strip = hd.ast ∧ QfOk hd [] ts' := by
        intro r h
        split at h
        · simp at h
        · rename_i heq
          cases h
          have := ih.index _ _ _ _ _ _ heq
          simp only at this
          obtain ⟨h1, h2⟩ := this
          exact ⟨by simp [Nud.toks, h1], by simp [Nud.Legal],
            by simp only [Nud.follow]; exact stop_INF _, by simpa [Nud.ast] using h2,
            qf _ _ (by simp)⟩
        · rename_i heq
          cases h
          have := ih.index _ _ _ _ _ _ heq
          simp only at this
          obtain ⟨h1, h2, h3, h4⟩ := this
          exact ⟨by simp [Nud.toks, h1], by simpa [Nud.Legal] using h2,
            by simpa only [Nud.follow] using h3, by simpa [Nud.ast] using h4, qf _ _ (by simp)⟩
      split at h
      · exact hidx _ h
      · exact hidx _ h
      · split at h
        · simp at h
        · rename_i heq
          cases h
          obtain ⟨h1, h2, h3, h4⟩ := ih.wi _ _ _ _ _ _ _ heq
          simp at h1
          exact ⟨by simp [Nud.toks, h1], by simpa [Nud.Legal] using h2,
            by simpa only [Nud.follow] using h3, by simpa [Ast.strip, Nud.ast] using h4,
            qf _ _ (by simp)⟩
      · rename_i hns
        split at h
        · simp at h
        · rename_i heq
          cases h
          obtain ⟨h1, h2, h3, h4⟩ := ih.multiList _ _ _ _ _ _ heq
          refine ⟨by simp [Nud.toks, h1], ?_, by simp only [Nud.follow]; exact stop_INF _,
            by simp [Nud.ast, h4], qf _ _ (by simp)⟩
          simp only [Nud.Legal]
          refine ⟨h2, ?_, h3⟩
          cases hso : isStarOnly _ with
          | false => rfl
          | true =>
            exfalso
            have := isStarOnly_eq _ hso
            subst this
            simp [argsToks, argsTail, Expr.toks, Nud.toks, Rhs.toks, ledsToks] at h1
            obtain ⟨p2, r2, rfl, h1'⟩ := tk_cons_inv _ _ _ h1
            obtain ⟨p3, r3, rfl, _⟩ := tk_cons_inv _ _ _ h1'
            exact hns _ _ _ rfl
    · -- flatten
      split at h
      · simp at h
      · rename_i heq
        cases h
        obtain ⟨h1, h2, h3, h4⟩ := ih.flatten _ _ _ _ _ _ _ heq
        exact ⟨by simp [Nud.toks, h1], by simpa [Nud.Legal] using h2,
          by simpa only [Nud.follow] using h3, by simpa [Ast.strip, Nud.ast] using h4,
          qf _ _ (by simp)⟩
    · -- lbrace
      split at h
      · simp at h
      · rename_i heq
        cases h
        obtain ⟨new, anew, e1, e2, g3, g4, g5, g6⟩ := ih.kvps _ _ _ _ _ _ _ _ heq
        simp at e1 e2; subst e1 e2
        exact ⟨by simp [Nud.toks, g4], by simp [Nud.Legal, g3, g5],
          by simp only [Nud.follow]; exact stop_INF _, by simp [Ast.strip, Nud.ast, g6],
          qf _ _ (by simp)⟩
    · -- ampersand
      split at h
      · simp at h
      · rename_i heq
        cases h
        obtain ⟨h1, h2, h3, h4, h5⟩ := ih.expr _ _ _ _ _ _ _ heq
        exact ⟨by simp [Nud.toks, h1], by simpa [Nud.Legal] using h2,
          by simp only [Nud.follow, Stop] at *; omega, by simp [Ast.strip, Nud.ast, h5],
          qf _ _ (by simp)⟩
    · -- not
      split at h
      · simp at h
      · rename_i heq
        cases h
        obtain ⟨h1, h2, h3, h4, h5⟩ := ih.expr _ _ _ _ _ _ _ heq
        exact ⟨by simp [Nud.toks, h1], by simpa [Nud.Legal] using h2,
          by simp only [Nud.follow, Stop] at *; omega, by simp [Ast.strip, Nud.ast, h5],
          qf _ _ (by simp)⟩
    · -- filter
      split at h
      · simp at h
      · rename_i heq
        cases h
        obtain ⟨h1, h2, h3, h4, h5⟩ := ih.filter _ _ _ _ _ _ _ _ heq
        exact ⟨by simp [Nud.toks, h1], by simp [Nud.Legal, h2, h3],
          by simpa only [Nud.follow] using h4, by simpa [Ast.strip, Nud.ast] using h5,
          qf _ _ (by simp)⟩
    · -- lparen
      split at h
      · simp at h
      · rename_i heq
        obtain ⟨h1, h2, h3, h4, h5⟩ := ih.expr _ _ _ _ _ _ _ heq
        split at h
        · cases h
          exact ⟨by simp [Nud.toks, h1], by simpa [Nud.Legal] using h2,
            by simp only [Nud.follow]; exact stop_INF _, by simp [Nud.ast, h5],
            qf _ _ (by simp)⟩
        · simp at h
        · simp at h
    · simp at h

theorem led_step (n : Nat) (ih : IH n) : LedInv (n + 1) := by
  intro left ts off l a ts' off' h
  unfold Parser.led at h
  have hbin : ∀ (k : Nat) (r : List PT) (p : Nat) (e : Expr) (ra : Ast) (ts1 : List PT) (off1 : Nat),
      Parser.expr n k r p = .ok ((e, ra), ts1, off1) →
      tk r = e.toks ++ tk ts1 ∧ e.Legal k ∧ Stop (min k e.follow) ts1 ∧ ra.strip = e.ast := by
    intro k r p e ra ts1 off1 heq
    obtain ⟨h1, h2, h3, h4, h5⟩ := ih.expr _ _ _ _ _ _ _ heq
    exact ⟨h1, h2, by simp only [Stop] at *; omega, h5⟩
  split at h
  · simp at h
  · rename_i p tok r
    split at h
    · -- dot
      split at h
      · split at h
        · simp at h
        · rename_i heq
          cases h
          obtain ⟨h1, h2, h3, h4⟩ := ih.wv _ _ _ _ _ _ _ heq
          exact ⟨by simp [Led.toks, h1], by simpa [Led.Legal] using h2,
            by simpa only [Led.follow] using h3, by simpa [Led.ast] using h4, rfl⟩
      · rename_i hns
        split at h
        · simp at h
        · rename_i heq
          cases h
          obtain ⟨h1, h2, h3, h4⟩ := ih.dot _ _ _ _ _ _ _ heq
          refine ⟨by simp [Led.toks, h1], ?_, by simpa only [Led.follow] using h3,
            by simp [Ast.strip, Led.ast, h4], rfl⟩
          simp only [Led.Legal]
          refine ⟨h2, ?_⟩
          cases hs : DotRhs.startsWithStar _ with
          | false => rfl
          | true =>
            exfalso
            have := DotRhs.first_of_startsWithStar _ _ _ h1 hs
            obtain ⟨p2, r2, rfl⟩ := peekT_inv _ _ this (by simp)
            exact hns _ _ rfl
    · -- lbracket
      have hidx : ∀ r, (match parseIndex n r p with
            | .error e => (Except.error e : PRes (Led × Ast))
            | .ok ((.inl n, a), ts, off) => .ok ((.index n, .subexpr p left a), ts, off)
            | .ok ((.inr (hd, rhs), a), ts, off) =>
              .ok ((.sliceL hd rhs, .subexpr p left a), ts, off)) =
            .ok ((l, a), ts', off') →
          tk ((p, Tok.lbracket) :: r) = l.toks ++ tk ts' ∧ l.Legal ∧ Stop l.follow ts' ∧
            a.strip = l.ast left.strip ∧ l.isCallDev = false := by
        intro r h
        split at h
        · simp at h
        · rename_i heq
          cases h
          have := ih.index _ _ _ _ _ _ heq
          simp only at this
          obtain ⟨h1, h2⟩ := this
          exact ⟨by simp [Led.toks, h1], by simp [Led.Legal],
            by simp only [Led.follow]; exact stop_INF _, by simp [Ast.strip, Led.ast, h2], rfl⟩
        · rename_i heq
          cases h
          have := ih.index _ _ _ _ _ _ heq
          simp only at this
          obtain ⟨h1, h2, h3, h4⟩ := this
          exact ⟨by simp [Led.toks, h1], by simpa [Led.Legal] using h2,
            by simpa only [Led.follow] using h3, by simp [Ast.strip, Led.ast, h4], rfl⟩
      split at h
      · exact hidx _ h
      · exact hidx _ h
      · split at h
        · simp at h
        · rename_i heq
          cases h
          obtain ⟨h1, h2, h3, h4⟩ := ih.wi _ _ _ _ _ _ _ heq
          exact ⟨by simp [Led.toks, h1], by simpa [Led.Legal] using h2,
            by simpa only [Led.follow] using h3, by simpa [Led.ast] using h4, rfl⟩
      · simp at h
    · -- or
      split at h
      · simp at h
      · rename_i heq
        cases h
        obtain ⟨h1, h2, h3, h5⟩ := hbin _ _ _ _ _ _ _ heq
        exact ⟨by simp [Led.toks, h1], by simpa [Led.Legal] using h2,
          by simpa only [Led.follow] using h3, by simp [Ast.strip, Led.ast, h5], rfl⟩
    · -- and
      split at h
      · simp at h
      · rename_i heq
        cases h
        obtain ⟨h1, h2, h3, h5⟩ := hbin _ _ _ _ _ _ _ heq
        exact ⟨by simp [Led.toks, h1], by simpa [Led.Legal] using h2,
          by simpa only [Led.follow] using h3, by simp [Ast.strip, Led.ast, h5], rfl⟩
    · -- pipe
      split at h
      · simp at h
      · rename_i heq
        cases h
        obtain ⟨h1, h2, h3, h5⟩ := hbin _ _ _ _ _ _ _ heq
        exact ⟨by simp [Led.toks, h1], by simpa [Led.Legal] using h2,
          by simpa only [Led.follow] using h3, by simp [Ast.strip, Led.ast, h5], rfl⟩
    · -- flatten
      split at h
      · simp at h
      · rename_i heq
        cases h
        obtain ⟨h1, h2, h3, h4⟩ := ih.flatten _ _ _ _ _ _ _ heq
        exact ⟨by simp [Led.toks, h1], by simpa [Led.Legal] using h2,
          by simpa only [Led.follow] using h3, by simpa [Led.ast] using h4, rfl⟩
    · -- filter
      split at h
      · simp at h
      · rename_i heq
        cases h
        obtain ⟨h1, h2, h3, h4, h5⟩ := ih.filter _ _ _ _ _ _ _ _ heq
        exact ⟨by simp [Led.toks, h1], by simp [Led.Legal, h2, h3],
          by simpa only [Led.follow] using h4, by simpa [Led.ast] using h5, rfl⟩
    · -- comparators
      split at h
      · rename_i c hcmp
        have := cmpOfTok_eq _ _ hcmp
        subst this
        split at h
        · simp at h
        · rename_i heq
          cases h
          obtain ⟨h1, h2, h3, h5⟩ := hbin _ _ _ _ _ _ _ heq
          exact ⟨by simp [Led.toks, h1], by simpa [Led.Legal] using h2,
            by simpa only [Led.follow] using h3, by simp [Ast.strip, Led.ast, h5], rfl⟩
      · simp at h

theorem expr_step (n : Nat) (ih : IH n) : ExprInv (n + 1) := by
  intro rbp ts off e a ts' off' h
  unfold Parser.expr at h
  split at h
  · simp at h
  · rename_i heq
    obtain ⟨h1, h2, h3, h4, h5⟩ := ih.nud _ _ _ _ _ _ heq
    obtain ⟨g1, g2, g3, g4, g5⟩ := ih.loop _ _ _ _ _ _ _ _ _ _ h h2 (by simp [chain])
      (by simp [callDevOk]) (by simpa [ledsAst] using h4) (by simpa [ledsFollow] using h3) h5
    refine ⟨?_, g2, g3, g4, g5⟩
    rw [h1, ← g1]; simp [ledsToks]

theorem loop_step (n : Nat) (ih : IH n) : LoopInv (n + 1) := by
  intro rbp hd acc left ts off e a ts' off' h hl hc hcd hast hst hqf
  unfold Parser.loop at h
  split at h
  · rename_i hlt
    split at h
    · -- `(`
      rename_i p r
      split at h
      · rename_i o name
        split at h
        · simp at h
        · rename_i args aargs ts1 off1 heq
          obtain ⟨new, anew, e1, e2, g3, g4, g5, g6⟩ :=
            ih.list _ _ _ _ _ _ _ _ _ heq (by simp)
          simp at e1 e2; subst e1 e2
          simp only [Ast.strip] at hast
          obtain ⟨hacc, hh⟩ := ledsAst_field _ _ _ _ hast.symm
          subst hacc
          have hargs : tk ((p, Tok.lparen) :: r) = .lparen :: (argsToks args ++ .rparen :: tk ts1) := by
            simp [g3, closeTok]
          split at h
          · -- head `.field s`: it becomes a call
            rename_i s
            simp only [Nud.ast] at hh
            cases hh
            obtain ⟨k1, k2, k3, k4, k5⟩ := ih.loop _ _ _ _ _ _ _ _ _ _ h
              (by simpa [Nud.Legal] using g5) (by simp [chain]) (by simp [callDevOk])
              (by simp [Ast.strip, ledsAst, Nud.ast, g6])
              (by simp only [ledsFollow, Nud.follow]; exact stop_INF _)
              (by intro s hs; cases hs)
            refine ⟨?_, k2, k3, k4, k5⟩
            rw [← k1, hargs]; simp [ledsToks, Nud.toks]
          · rename_i hnot
            rcases Nud.ast_field _ _ _ hh with rfl | rfl | ⟨e0, rfl, hf⟩
            · exact absurd rfl (hnot _ rfl)
            · exact absurd rfl (hqf _ rfl rfl)
            · obtain ⟨k1, k2, k3, k4, k5⟩ := ih.loop _ _ _ _ _ _ _ _ _ _ h hl
                (by
                  simp only [List.nil_append, chain, Led.lbp, Led.Legal, Nud.follow, and_true]
                  simp [Tok.lbp] at hlt
                  exact ⟨hlt, by simp [INF], g5⟩)
                (by simp [callDevOk, Led.isCallDev, hf])
                (by simp [Ast.strip, ledsAst, Led.ast, hh, g6])
                (by simp only [List.nil_append, ledsFollow, Led.follow]; exact stop_INF _)
                (by intro s hs; cases hs)
              refine ⟨?_, k2, k3, k4, k5⟩
              rw [← k1, hargs]; simp [ledsToks, Led.toks]
      · simp at h
    · split at h
      · simp at h
      · rename_i l left' ts1 off1 heq
        obtain ⟨h1, h2, h3, h4, h5⟩ := ih.led _ _ _ _ _ _ _ heq
        have hlbp := Led.lbp_of_yield _ _ _ h1
        obtain ⟨g1, g2, g3, g4, g5⟩ := ih.loop _ _ _ _ _ _ _ _ _ _ h hl
          (by rw [chain_snoc]; simp only [Stop] at hst; exact ⟨hc, by omega, by omega, h2⟩)
          (callDevOk_snoc _ _ _ hcd h5) (by rw [ledsAst_snoc, ← hast]; exact h4)
          (by rw [follow_snoc]; exact h3) (by intro s _ hnil; simp at hnil)
        refine ⟨?_, g2, g3, g4, g5⟩
        rw [← g1, ledsToks_snoc, h1]; simp
  · rename_i hlt
    cases h
    refine ⟨by simp [Expr.toks], by simp only [Expr.Legal]; exact ⟨hl, hc, hcd⟩,
      by simp only [Stop]; omega, by simpa [Expr.follow] using hst,
      by simpa [Expr.ast] using hast⟩

theorem all (n : Nat) : IH n := by
  induction n with
  | zero =>
    constructor
    · intro rbp ts off e a ts' off' h; simp [Parser.expr] at h
    · intro rbp hd acc left ts off e a ts' off' h; simp [Parser.loop] at h
    · intro ts off hd a ts' off' h; simp [Parser.nud] at h
    · intro left ts off l a ts' off' h; simp [Parser.led] at h
    · intro ts off x a ts' off' h; simp [Parser.parseIndex] at h
    · intro k ts off r a ts' off' h; simp [Parser.projRhs] at h
    · intro k ts off r a ts' off' h; simp [Parser.parseDot] at h
    · intro ts off es a ts' off' h; simp [Parser.multiList] at h
    · intro paren ts off es as es' as' ts' off' h; simp [Parser.parseList] at h
    · intro ts off ks aks ks' aks' ts' off' h; simp [Parser.kvps] at h
    · intro lhs ts off pe r a ts' off' h; simp [Parser.parseFilter] at h
    · intro lhs ts off r a ts' off' h; simp [Parser.parseFlatten] at h
    · intro lhs ts off r a ts' off' h; simp [Parser.wildcardValues] at h
    · intro lhs ts off r a ts' off' h; simp [Parser.wildcardIndex] at h
  | succ n ih =>
    exact ⟨expr_step n ih, loop_step n ih, nud_step n ih, led_step n ih, index_step n ih,
      projRhs_step n ih, dot_step n ih, multiList_step n ih, list_step n ih, kvps_step n ih,
      filter_step n ih, flatten_step n ih, wv_step n ih, wi_step n ih⟩

theorem T1_expr (fuel rbp : Nat) (ts : List PT) (off : Nat) (e : Expr) (a : Ast) (ts' : List PT) (off' : Nat)
    (h : Parser.expr fuel rbp ts off = .ok ((e, a), ts', off')) :
    tk ts = e.toks ++ tk ts' ∧ e.Legal rbp ∧ (Parser.peekT ts').lbp ≤ rbp ∧
    (Parser.peekT ts').lbp ≤ e.follow ∧ a.strip = e.ast :=
  (all fuel).expr rbp ts off e a ts' off' h

theorem T1_parseTokens (ts : List PT) (e : Expr) (a : Ast) (h : parseTokens ts = .ok (e, a)) :
    (tk ts = e.toks ∨ tk ts = e.toks ++ [Tok.eof]) ∧ e.Legal 0 ∧ a.strip = e.ast := by
  unfold parseTokens at h
  split at h
  · simp at h
  · rename_i heq
    obtain ⟨h1, h2, h3, h4, h5⟩ := (all _).expr _ _ _ _ _ _ _ heq
    split at h
    · cases h; exact ⟨Or.inr (by simpa using h1), h2, h5⟩
    · cases h; exact ⟨Or.inl (by simpa using h1), h2, h5⟩
    · simp at h

end JmesVerif

#print axioms JmesVerif.T1_expr
#print axioms JmesVerif.T1_parseTokens
