import JmesVerif.Lemmas.InterpMono
/-!
A divergent expression: an expression reference that reaches the data can apply itself.
`Ω = to_array(not_null(&map(@[0], [@]))) | map(@[0], [@])`.
-/
namespace JmesVerif

/-- `map(@[0], [@])` with arbitrary offsets -/
def mapSelf (o1 o2 o3 o4 o5 o6 : Nat) : Ast :=
  .function o1 "map" [.subexpr o2 (.identity o3) (.index o4 0), .multiList o5 [.identity o6]]

def omegaBody : Ast := .function 0 "map" [.subexpr 0 (.identity 0) (.index 0 0), .multiList 0 [.identity 0]]
def omega : Ast := .subexpr 0 (.function 0 "to_array" [.function 0 "not_null" [.expref 0 omegaBody]]) omegaBody

/-- Ω with arbitrary offsets (the shape the parser produces) -/
def omegaAt (s t n e : Nat) (p1 p2 p3 p4 p5 p6 q1 q2 q3 q4 q5 q6 : Nat) : Ast :=
  .subexpr s (.function t "to_array" [.function n "not_null" [.expref e (mapSelf p1 p2 p3 p4 p5 p6)]])
    (mapSelf q1 q2 q3 q4 q5 q6)

theorem omegaBody_eq : omegaBody = mapSelf 0 0 0 0 0 0 := rfl
theorem omega_eq : omega = omegaAt 0 0 0 0 0 0 0 0 0 0 0 0 0 0 0 0 := rfl

theorem reg_map : Registry.default.get "map" = some (.builtin .map) := by
  simp [Registry.default, Builtin.all, Registry.get]
theorem reg_toArray : Registry.default.get "to_array" = some (.builtin .toArray) := by
  simp [Registry.default, Builtin.all, Registry.get]
theorem reg_notNull : Registry.default.get "not_null" = some (.builtin .notNull) := by
  simp [Registry.default, Builtin.all, Registry.get]

theorem omega_args (e : Val) (o2 o3 o4 o5 o6 off : Nat) : interpAll Registry.default 6 (.arr [e])
    [.subexpr o2 (.identity o3) (.index o4 0), .multiList o5 [.identity o6]] off
    = .ok ([e, .arr [.arr [e]]], off) := by
  simp [interpAll, interp, indexList, getIndex, Val.isNull]

theorem map_sig_ok (a : Ast) (xs : List Val) (off : Nat) :
    Builtin.map.sig.validate [.expref a, .arr xs] off = .ok () := by
  simp [Builtin.sig, Sig.validate, Sig.validateArity, Sig.validateArgs, ArgT.isValid, Val.type]

/-- the self-application loop: `map(@[0], [@])` applied to `[&map(@[0], [@])]` never finishes -/
theorem mapSelf_diverges (p1 p2 p3 p4 p5 p6 : Nat) : ∀ (fuel o1 o2 o3 o4 o5 o6 off : Nat),
    interp Registry.default fuel (.arr [.expref (mapSelf p1 p2 p3 p4 p5 p6)]) (mapSelf o1 o2 o3 o4 o5 o6) off
      = .error .fuel := by
  intro fuel
  induction fuel using Nat.strongRecOn with
  | _ fuel ih =>
    intro o1 o2 o3 o4 o5 o6 off
    match fuel with
    | 0 => simp [interp]
    | n + 1 =>
      show interp Registry.default (n + 1) _ (.function o1 "map"
        [.subexpr o2 (.identity o3) (.index o4 0), .multiList o5 [.identity o6]]) off = _
      rw [interp]
      rcases interpAll_det _ _ _ _ _ _ (omega_args (.expref (mapSelf p1 p2 p3 p4 p5 p6)) o2 o3 o4 o5 o6 off)
        (by simp) n with h | h
      · rw [h]
      · rw [h]
        simp only [reg_map]
        match n with
        | 0 => simp [callFn]
        | k + 1 =>
          rw [callFn]
          simp only [map_sig_ok]
          match k with
          | 0 => simp [mapExpref]
          | j + 1 =>
            rw [mapExpref]
            rw [ih j (by omega) p1 p2 p3 p4 p5 p6 o1]

theorem omegaBody_diverges (fuel off : Nat) :
    interp Registry.default fuel (.arr [.expref omegaBody]) omegaBody off = .error .fuel :=
  mapSelf_diverges 0 0 0 0 0 0 fuel 0 0 0 0 0 0 off

theorem omega_lhs (d : Val) (body : Ast) (t n e off : Nat) : interp Registry.default 8 d
    (.function t "to_array" [.function n "not_null" [.expref e body]]) off
    = .ok (.arr [.expref body], off) := by
  simp [interp, interpAll, reg_toArray, reg_notNull, callFn, Builtin.sig, Sig.validate,
    Sig.validateArity, Sig.validateArgs, ArgT.isValid, Builtin.pure, Builtin.usesExpref, Val.isNull]

/-- Ω diverges whatever the offsets recorded in the tree, the data and the initial offset -/
theorem omegaAt_diverges (s t n e p1 p2 p3 p4 p5 p6 q1 q2 q3 q4 q5 q6 : Nat) (fuel : Nat) (d : Val) (off : Nat) :
    interp Registry.default fuel d (omegaAt s t n e p1 p2 p3 p4 p5 p6 q1 q2 q3 q4 q5 q6) off = .error .fuel := by
  match fuel with
  | 0 => simp [interp]
  | m + 1 =>
    rw [omegaAt, interp]
    rcases interp_det _ _ _ _ _ _ (omega_lhs d (mapSelf p1 p2 p3 p4 p5 p6) t n e off) (by simp) m with h | h
    · rw [h]
    · rw [h]
      exact mapSelf_diverges _ _ _ _ _ _ m _ _ _ _ _ _ off

/-- Ω = `to_array(not_null(&map(@[0], [@]))) | map(@[0], [@])` runs out of every fuel budget -/
theorem omega_diverges (fuel : Nat) (d : Val) : interp Registry.default fuel d omega 0 = .error .fuel :=
  omegaAt_diverges 0 0 0 0 0 0 0 0 0 0 0 0 0 0 0 0 fuel d 0

/-- hence `search` (the model of `Expression::search`) never returns on Ω -/
theorem omega_search_diverges (fuel : Nat) (d : Val) : search Registry.default fuel omega d = .error .fuel := by
  simp [search, omega_diverges]

end JmesVerif
