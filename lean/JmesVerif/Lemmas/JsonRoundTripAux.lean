import JmesVerif.Lemmas.JsonRoundTripStr
import JmesVerif.Lemmas.JsonRoundTripNum
namespace JmesVerif
namespace JsonRT
open JsonText JsonPrint

theorem skipWs_idem (cs : List Char) : skipWs (skipWs cs) = skipWs cs := by
  induction cs with
  | nil => rfl
  | cons c cs ih =>
    by_cases h : isWs c = true
    · simp [skipWs, h, ih]
    · simp [skipWs, h]

theorem parseValue_skipWs (fuel depth : Nat) (cs : List Char) :
    parseValue fuel depth (skipWs cs) = parseValue fuel depth cs := by
  cases fuel with
  | zero => simp [parseValue]
  | succ f => rw [parseValue, parseValue, skipWs_idem]

theorem parseElems_skipWs (fuel depth : Nat) (cs : List Char) (acc : List Val) :
    parseElems fuel depth (skipWs cs) acc = parseElems fuel depth cs acc := by
  cases fuel with
  | zero => simp [parseElems]
  | succ f => rw [parseElems, parseElems, parseValue_skipWs]

theorem parseMembers_skipWs (fuel depth : Nat) (cs : List Char) (acc : List (String × Val)) :
    parseMembers fuel depth (skipWs cs) acc = parseMembers fuel depth cs acc := by
  cases fuel with
  | zero => simp [parseMembers]
  | succ f => rw [parseMembers, parseMembers, skipWs_idem]

theorem parseValue_ne_close {fuel depth : Nat} {cs : List Char} {res : Val × List Char}
    (h : parseValue fuel depth cs = some res) (r : List Char) : skipWs cs ≠ ']' :: r := by
  intro he
  cases fuel with
  | zero => simp [parseValue] at h
  | succ f =>
    rw [parseValue, he] at h
    simp [JsonText.isDigit] at h

theorem parseElems_ne_close {fuel depth : Nat} {cs : List Char} {acc : List Val} {res : List Val × List Char}
    (h : parseElems fuel depth cs acc = some res) (r : List Char) : skipWs cs ≠ ']' :: r := by
  cases fuel with
  | zero => simp [parseElems] at h
  | succ f =>
    rw [parseElems] at h
    split at h
    · simp at h
    · rename_i hv; exact parseValue_ne_close hv r

theorem parseMembers_ne_close {fuel depth : Nat} {cs : List Char} {acc : List (String × Val)}
    {res : List (String × Val) × List Char}
    (h : parseMembers fuel depth cs acc = some res) (r : List Char) : skipWs cs ≠ '}' :: r := by
  intro he
  cases fuel with
  | zero => simp [parseMembers] at h
  | succ f =>
    rw [parseMembers, he] at h
    simp at h

/-- number results do not depend on fuel (beyond one unit) or depth -/
theorem parseValue_num_lift {d cs n r} (h : parseValue 1 d cs = some (.num n, r)) (fuel d' : Nat) :
    parseValue (fuel + 1) d' cs = some (.num n, r) := by
  rw [parseValue] at h ⊢
  split at h
  all_goals first | exact h | skip
  all_goals simp only [parseElems, parseMembers] at h
  all_goals split at h
  all_goals try simp at h
  all_goals split at h
  all_goals simp at h

theorem parseValue_arr_nil (f dp : Nat) (hdp : 1 < dp) (cs rest : List Char) (h : skipWs cs = ']' :: rest) :
    parseValue (f + 1) dp ('[' :: cs) = some (.arr [], rest) := by
  rw [parseValue]
  simp [skipWs, isWs, h]; omega

theorem parseValue_obj_nil (f dp : Nat) (hdp : 1 < dp) (cs rest : List Char) (h : skipWs cs = '}' :: rest) :
    parseValue (f + 1) dp ('{' :: cs) = some (.obj [], rest) := by
  rw [parseValue]
  simp [skipWs, isWs, h]; omega

theorem parseValue_arr_of_elems {f dp : Nat} {cs rest : List Char} {xs : List Val} (hdp : 1 < dp)
    (h : parseElems f (dp - 1) cs [] = some (xs, rest)) :
    parseValue (f + 1) dp ('[' :: cs) = some (.arr xs, rest) := by
  have hne := parseElems_ne_close h
  rw [← parseElems_skipWs] at h
  rw [parseValue]
  have : skipWs ('[' :: cs) = '[' :: cs := by simp [skipWs, isWs]
  simp only [this]
  rw [if_neg (by omega), h]; rfl

theorem parseValue_obj_of_members {f dp : Nat} {cs rest : List Char} {kvs : List (String × Val)} (hdp : 1 < dp)
    (h : parseMembers f (dp - 1) cs [] = some (kvs, rest)) :
    parseValue (f + 1) dp ('{' :: cs) = some (.obj kvs, rest) := by
  have hne := parseMembers_ne_close h
  rw [← parseMembers_skipWs] at h
  rw [parseValue]
  have : skipWs ('{' :: cs) = '{' :: cs := by simp [skipWs, isWs]
  simp only [this]
  rw [if_neg (by omega), h]; rfl

theorem parseElems_last {f dp : Nat} {cs r rest : List Char} {v : Val} {acc : List Val}
    (h : parseValue f dp cs = some (v, r)) (hr : skipWs r = ']' :: rest) :
    parseElems (f + 1) dp cs acc = some ((v :: acc).reverse, rest) := by
  rw [parseElems, h]; simp only [hr]

theorem parseElems_more {f dp : Nat} {cs r r' : List Char} {v : Val} {acc : List Val}
    (h : parseValue f dp cs = some (v, r)) (hr : skipWs r = ',' :: r') :
    parseElems (f + 1) dp cs acc = parseElems f dp r' (v :: acc) := by
  rw [parseElems, h]; simp only [hr]

theorem parseMembers_last {f dp : Nat} {cs r1 r2 r3 rest : List Char} {k : String} {v : Val}
    {acc : List (String × Val)}
    (hk : skipWs cs = '"' :: (k.toList.flatMap escapeChar ++ '"' :: r1)) (hc : skipWs r1 = ':' :: r2)
    (hv : parseValue f dp r2 = some (v, r3)) (h3 : skipWs r3 = '}' :: rest) :
    parseMembers (f + 1) dp cs acc = some (insertKV k v acc, rest) := by
  rw [parseMembers, hk]; simp only [parseStrBody_quote, hc, hv, h3, String.ofList_toList]

theorem parseMembers_more {f dp : Nat} {cs r1 r2 r3 r4 : List Char} {k : String} {v : Val}
    {acc : List (String × Val)}
    (hk : skipWs cs = '"' :: (k.toList.flatMap escapeChar ++ '"' :: r1)) (hc : skipWs r1 = ':' :: r2)
    (hv : parseValue f dp r2 = some (v, r3)) (h3 : skipWs r3 = ',' :: r4) :
    parseMembers (f + 1) dp cs acc = parseMembers f dp r4 (insertKV k v acc) := by
  rw [parseMembers, hk]; simp only [parseStrBody_quote, hc, hv, h3, String.ofList_toList]

theorem parseValue_str (f dp : Nat) (cs r1 : List Char) (s : String)
    (hk : skipWs cs = '"' :: (s.toList.flatMap escapeChar ++ '"' :: r1)) :
    parseValue (f + 1) dp cs = some (.str s, r1) := by
  rw [parseValue, hk]; simp only [parseStrBody_quote, Option.map_some, String.ofList_toList]

end JsonRT
end JmesVerif
