import JmesVerif.Model.Parser
import JmesVerif.Lemmas.InterpOmega
/-!
The divergent expression in concrete syntax: the model parser accepts
`to_array(not_null(&map(@[0], [@]))) | map(@[0], [@])` and the tree it produces diverges.
-/
namespace JmesVerif

def omegaSrc : String := "to_array(not_null(&map(@[0], [@]))) | map(@[0], [@])"

def omegaChars : List Char :=
  ['t','o','_','a','r','r','a','y','(','n','o','t','_','n','u','l','l','(','&','m','a','p','(','@','[','0',']',
   ',',' ','[','@',']',')',')',')',' ','|',' ','m','a','p','(','@','[','0',']',',',' ','[','@',']',')']

theorem omegaSrc_toList : omegaSrc.toList = omegaChars := by decide

theorem omega_parses : (match parseExpr omegaChars with
    | .ok (_, a) => some a
    | .error _ => none) = some (omegaAt 36 8 17 18 22 24 23 26 29 30 41 43 42 45 48 49) := by
  with_unfolding_all rfl

/-- the concrete expression parses, and its tree runs out of every fuel budget on every datum -/
theorem omegaSrc_diverges : match parseExpr omegaSrc.toList with
    | .ok (_, a) => ∀ (fuel : Nat) (d : Val), search Registry.default fuel a d = .error .fuel
    | .error _ => False := by
  rw [omegaSrc_toList]
  have h := omega_parses
  split
  · rename_i e a hp
    rw [hp] at h
    simp only [Option.some.injEq] at h
    subst h
    intro fuel d
    simp [search, omegaAt_diverges]
  · rename_i e hp
    rw [hp] at h
    simp at h

end JmesVerif
