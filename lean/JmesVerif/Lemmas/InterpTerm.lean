import JmesVerif.Lemmas.InterpSafe
/-!
Evaluating a disciplined tree on JSON data never runs out of fuel, given enough of it.
-/
namespace JmesVerif

/-- a fuel-indexed computation whose non-fuel results are stable -/
def Mono {α : Type} (f : Nat → ERes α) : Prop :=
  ∀ n, f n ≠ .error .fuel → ∀ m, n ≤ m → f m = f n

theorem Mono.interp (rt : Registry) (d : Val) (a : Ast) (off : Nat) : Mono (fun n => interp rt n d a off) :=
  fun n h m hm => interp_mono rt n d a off _ rfl h m hm
theorem Mono.projectEach (rt : Registry) (xs : List Val) (a : Ast) (off : Nat) :
    Mono (fun n => projectEach rt n xs a off) :=
  fun n h m hm => projectEach_mono rt n xs a off _ rfl h m hm
theorem Mono.interpAll (rt : Registry) (d : Val) (es : List Ast) (off : Nat) :
    Mono (fun n => interpAll rt n d es off) :=
  fun n h m hm => interpAll_mono rt n d es off _ rfl h m hm
theorem Mono.interpKVs (rt : Registry) (d : Val) (kvs : List (String × Ast)) (acc : List (String × Val))
    (off : Nat) : Mono (fun n => interpKVs rt n d kvs acc off) :=
  fun n h m hm => interpKVs_mono rt n d kvs acc off _ rfl h m hm
theorem Mono.mapExpref (rt : Registry) (xs : List Val) (a : Ast) (off : Nat) :
    Mono (fun n => mapExpref rt n xs a off) :=
  fun n h m hm => mapExpref_mono rt n xs a off _ rfl h m hm
theorem Mono.keysTyped (rt : Registry) (xs : List Val) (a : Ast) (ty : JType) (inv off : Nat) :
    Mono (fun n => keysTyped rt n xs a ty inv off) :=
  fun n h m hm => keysTyped_mono rt n xs a ty inv off _ rfl h m hm
theorem Mono.callFn (rt : Registry) (f : Fn) (args : List Val) (off : Nat) :
    Mono (fun n => callFn rt n f args off) :=
  fun n h m hm => callFn_mono rt n f args off _ rfl h m hm
theorem Mono.byExtreme (rt : Registry) (isMax : Bool) (xs : List Val) (a : Ast) (off : Nat) :
    Mono (fun n => byExtreme rt n isMax xs a off) :=
  fun n h m hm => byExtreme_mono rt n isMax xs a off _ rfl h m hm

/-- sequencing: if `f` converges and, on its value, `g` converges, then both do at a common fuel -/
theorem two_stage {α β : Type} (f : Nat → ERes α) (g : α → Nat → Nat → ERes β)
    (hfm : Mono f) (hgm : ∀ v o, Mono (g v o))
    (hf : ∃ n, f n ≠ .error .fuel)
    (hg : ∀ n v o, f n = .ok (v, o) → ∃ m, g v o m ≠ .error .fuel) :
    ∃ N, f N ≠ .error .fuel ∧ ∀ v o, f N = .ok (v, o) → g v o N ≠ .error .fuel := by
  obtain ⟨n1, h1⟩ := hf
  cases hr : f n1 with
  | error e =>
    refine ⟨n1, h1, ?_⟩
    intro v o h; rw [hr] at h; cases h
  | ok p =>
    obtain ⟨v, o⟩ := p
    obtain ⟨m, hm⟩ := hg n1 v o hr
    have e1 : f (max n1 m) = f n1 := hfm n1 h1 _ (Nat.le_max_left _ _)
    have e2 : g v o (max n1 m) = g v o m := hgm v o m hm _ (Nat.le_max_right _ _)
    refine ⟨max n1 m, by rw [e1]; exact h1, ?_⟩
    intro v' o' h
    rw [e1, hr] at h
    simp only [Except.ok.injEq, Prod.mk.injEq] at h
    obtain ⟨rfl, rfl⟩ := h
    rw [e2]; exact hm

/-- the tree terminates on every JSON datum -/
def TermOn (rt : Registry) (a : Ast) : Prop :=
  ∀ d, d.isJson = true → ∀ off, ∃ n, interp rt n d a off ≠ .error .fuel

theorem validateArgs_ne_fuel (s : Sig) (off : Nat) : ∀ (args : List Val) (k : Nat),
    s.validateArgs off k args ≠ .error .fuel := by
  intro args
  induction args with
  | nil => intro k; simp [Sig.validateArgs]
  | cons v vs ih =>
    intro k
    simp only [Sig.validateArgs]
    repeat' split
    all_goals (first | exact ih _ | simp)

theorem validateArity_ne_fuel (s : Sig) (k : Nat) (off : Nat) : s.validateArity k off ≠ .error .fuel := by
  unfold Sig.validateArity
  simp only
  split
  · split <;> simp
  · split
    · simp
    · split <;> simp

theorem validate_ne_fuel (s : Sig) (args : List Val) (off : Nat) : s.validate args off ≠ .error .fuel := by
  unfold Sig.validate
  split
  · rename_i e h
    rw [← h]; exact validateArity_ne_fuel _ _ _
  · exact validateArgs_ne_fuel _ _ _ _

theorem numOfF64_ne_fuel (f : F64) (msg : String) : numOfF64 f msg ≠ .error .fuel := by
  unfold numOfF64; split <;> simp

theorem pure_ne_fuel (b : Builtin) (args : List Val) : b.pure args ≠ .error .fuel := by
  unfold Builtin.pure
  repeat' split
  all_goals (first | exact numOfF64_ne_fuel _ _ | simp)

theorem term_projectEach (rt : Registry) (a : Ast) (ht : TermOn rt a) : ∀ (xs : List Val),
    (∀ x ∈ xs, x.isJson = true) → ∀ off, ∃ n, projectEach rt n xs a off ≠ .error .fuel := by
  intro xs
  induction xs with
  | nil => intro _ off; exact ⟨1, by simp [projectEach]⟩
  | cons x rest ih =>
    intro hx off
    rw [List.forall_mem_cons] at hx
    obtain ⟨N, h1, h2⟩ := two_stage (fun n => interp rt n x a off) (fun _ o n => projectEach rt n rest a o)
      (Mono.interp _ _ _ _) (fun _ o => Mono.projectEach _ _ _ _) (ht x hx.1 off) (fun _ _ o _ => ih hx.2 o)
    refine ⟨N + 1, ?_⟩
    simp only [projectEach]
    split
    · simp_all
    · rename_i v o hv
      have := h2 v o hv
      split <;> simp_all

theorem term_mapExpref (rt : Registry) (a : Ast) (ht : TermOn rt a) : ∀ (xs : List Val),
    (∀ x ∈ xs, x.isJson = true) → ∀ off, ∃ n, mapExpref rt n xs a off ≠ .error .fuel := by
  intro xs
  induction xs with
  | nil => intro _ off; exact ⟨1, by simp [mapExpref]⟩
  | cons x rest ih =>
    intro hx off
    rw [List.forall_mem_cons] at hx
    obtain ⟨N, h1, h2⟩ := two_stage (fun n => interp rt n x a off) (fun _ o n => mapExpref rt n rest a o)
      (Mono.interp _ _ _ _) (fun _ o => Mono.mapExpref _ _ _ _) (ht x hx.1 off) (fun _ _ o _ => ih hx.2 o)
    refine ⟨N + 1, ?_⟩
    simp only [mapExpref]
    split
    · simp_all
    · rename_i v o hv
      have := h2 v o hv
      split <;> simp_all

theorem term_keysTyped (rt : Registry) (a : Ast) (ht : TermOn rt a) : ∀ (xs : List Val),
    (∀ x ∈ xs, x.isJson = true) → ∀ ty inv off, ∃ n, keysTyped rt n xs a ty inv off ≠ .error .fuel := by
  intro xs
  induction xs with
  | nil => intro _ ty inv off; exact ⟨1, by simp [keysTyped]⟩
  | cons x rest ih =>
    intro hx ty inv off
    rw [List.forall_mem_cons] at hx
    obtain ⟨N, h1, h2⟩ := two_stage (fun n => interp rt n x a off)
      (fun _ o n => keysTyped rt n rest a ty (inv + 1) o)
      (Mono.interp _ _ _ _) (fun _ o => Mono.keysTyped _ _ _ _ _ _) (ht x hx.1 off)
      (fun _ _ o _ => ih hx.2 ty (inv + 1) o)
    refine ⟨N + 1, ?_⟩
    simp only [keysTyped]
    split
    · simp_all
    · rename_i v o hv
      have := h2 v o hv
      split
      · simp
      · split <;> simp_all

theorem term_byExtreme (rt : Registry) (a : Ast) (ht : TermOn rt a) (isMax : Bool) (xs : List Val)
    (hx : ∀ x ∈ xs, x.isJson = true) (off : Nat) : ∃ n, byExtreme rt n isMax xs a off ≠ .error .fuel := by
  cases xs with
  | nil => exact ⟨1, by simp [byExtreme]⟩
  | cons x rest =>
    rw [List.forall_mem_cons] at hx
    obtain ⟨N, h1, h2⟩ := two_stage (fun n => interp rt n x a off)
      (fun k0 o n => keysTyped rt n rest a k0.type 1 o)
      (Mono.interp _ _ _ _) (fun _ o => Mono.keysTyped _ _ _ _ _ _) (ht x hx.1 off)
      (fun _ k0 o _ => term_keysTyped rt a ht rest hx.2 k0.type 1 o)
    refine ⟨N + 1, ?_⟩
    simp only [byExtreme]
    split
    · simp_all
    · rename_i v o hv
      have := h2 v o hv
      split
      · simp
      · split <;> simp_all

theorem term_callFn (rt : Registry) (b : Builtin) (vs : List Val) (off : Nat)
    (hq : ArgsQ (TermOn rt) b.slot 0 vs) : ∃ n, callFn rt n (.builtin b) vs off ≠ .error .fuel := by
  generalize hr : callFn rt 1 (.builtin b) vs off = r
  have hr0 := hr
  rw [callFn.eq_def] at hr
  simp only at hr
  split at hr
  · rename_i e hv
    refine ⟨1, ?_⟩
    rw [hr0, ← hr]
    intro h
    simp only [Except.error.injEq] at h
    subst h
    exact validate_ne_fuel _ _ _ hv
  split at hr
  · -- map
    rename_i a xs hv
    simp [ArgsQ, Builtin.slot] at hq
    obtain ⟨n, hn⟩ := term_mapExpref rt a hq.1 xs hq.2 off
    refine ⟨n + 1, ?_⟩
    simp only [callFn, hv]
    split <;> simp_all
  · -- sort_by
    rename_i xs a hv
    simp [ArgsQ, Builtin.slot] at hq
    cases xs with
    | nil => exact ⟨1, by simp [callFn, hv]⟩
    | cons x rest =>
      have hx := hq.1
      rw [List.forall_mem_cons] at hx
      obtain ⟨N, h1, h2⟩ := two_stage (fun n => interp rt n x a off)
        (fun k0 o n => keysTyped rt n rest a k0.type 1 o)
        (Mono.interp _ _ _ _) (fun _ o => Mono.keysTyped _ _ _ _ _ _) (hq.2 x hx.1 off)
        (fun _ k0 o _ => term_keysTyped rt a hq.2 rest hx.2 k0.type 1 o)
      refine ⟨N + 1, ?_⟩
      simp only [callFn, hv]
      split
      · simp_all
      · rename_i v o hv'
        have := h2 v o hv'
        split
        · simp
        · split <;> simp_all
  · rename_i xs a hv
    simp [ArgsQ, Builtin.slot] at hq
    obtain ⟨n, hn⟩ := term_byExtreme rt a hq.2 true xs hq.1 off
    exact ⟨n + 1, by simp only [callFn, hv]; exact hn⟩
  · rename_i xs a hv
    simp [ArgsQ, Builtin.slot] at hq
    obtain ⟨n, hn⟩ := term_byExtreme rt a hq.2 false xs hq.1 off
    exact ⟨n + 1, by simp only [callFn, hv]; exact hn⟩
  · refine ⟨1, ?_⟩
    subst hr
    rw [hr0]
    split
    · simp
    · have := pure_ne_fuel b vs
      split
      · rename_i e he; rw [he] at this; simpa using this
      · simp

theorem term_list (rt : Registry) : ∀ (es : List Ast), (∀ e ∈ es, e.Disciplined = true → TermOn rt e) →
    Ast.discList es = true → ∀ d, d.isJson = true → ∀ off, ∃ n, interpAll rt n d es off ≠ .error .fuel := by
  intro es
  induction es with
  | nil => intro _ _ d _ off; exact ⟨1, by simp [interpAll]⟩
  | cons e rest ih =>
    intro hes he d hd off
    rw [List.forall_mem_cons] at hes
    simp only [Ast.discList, Bool.and_eq_true] at he
    obtain ⟨N, h1, h2⟩ := two_stage (fun n => interp rt n d e off) (fun _ o n => interpAll rt n d rest o)
      (Mono.interp _ _ _ _) (fun _ o => Mono.interpAll _ _ _ _) (hes.1 he.1 d hd off)
      (fun _ _ o _ => ih hes.2 he.2 d hd o)
    refine ⟨N + 1, ?_⟩
    simp only [interpAll]
    split
    · simp_all
    · rename_i v o hv
      have := h2 v o hv
      split <;> simp_all

theorem term_args (rt : Registry) (name : String) : ∀ (es : List Ast) (i : Nat),
    (∀ e ∈ es, e.Disciplined = true → TermOn rt e) →
    Ast.discArgs name i es = true → ∀ d, d.isJson = true → ∀ off, ∃ n, interpAll rt n d es off ≠ .error .fuel := by
  intro es
  induction es with
  | nil => intro _ _ _ d _ off; exact ⟨1, by simp [interpAll]⟩
  | cons e rest ih =>
    intro i hes he d hd off
    rw [List.forall_mem_cons] at hes
    have hrest : Ast.discArgs name (i + 1) rest = true := by
      by_cases hex : ∃ o body, e = .expref o body
      · obtain ⟨o, body, rfl⟩ := hex
        rw [Ast.discArgs] at he; simp only [Bool.and_eq_true] at he; exact he.2
      · rw [Ast.discArgs] at he
        · simp only [Bool.and_eq_true] at he; exact he.2
        · intro o body hb; exact hex ⟨o, body, hb⟩
    have hhead : ∃ n, interp rt n d e off ≠ .error .fuel := by
      by_cases hex : ∃ o body, e = .expref o body
      · obtain ⟨o, body, rfl⟩ := hex
        exact ⟨1, by simp [interp]⟩
      · rw [Ast.discArgs] at he
        · simp only [Bool.and_eq_true] at he; exact hes.1 he.1 d hd off
        · intro o body hb; exact hex ⟨o, body, hb⟩
    obtain ⟨N, h1, h2⟩ := two_stage (fun n => interp rt n d e off) (fun _ o n => interpAll rt n d rest o)
      (Mono.interp _ _ _ _) (fun _ o => Mono.interpAll _ _ _ _) hhead
      (fun _ _ o _ => ih (i + 1) hes.2 hrest d hd o)
    refine ⟨N + 1, ?_⟩
    simp only [interpAll]
    split
    · simp_all
    · rename_i v o hv
      have := h2 v o hv
      split <;> simp_all

theorem term_kvs (rt : Registry) : ∀ (kvs : List (String × Ast)),
    (∀ p ∈ kvs, p.2.Disciplined = true → TermOn rt p.2) →
    Ast.discKVs kvs = true → ∀ d, d.isJson = true → ∀ acc off,
    ∃ n, interpKVs rt n d kvs acc off ≠ .error .fuel := by
  intro kvs
  induction kvs with
  | nil => intro _ _ d _ acc off; exact ⟨1, by simp [interpKVs]⟩
  | cons p rest ih =>
    obtain ⟨k, e⟩ := p
    intro hes he d hd acc off
    rw [List.forall_mem_cons] at hes
    simp only [Ast.discKVs, Bool.and_eq_true] at he
    obtain ⟨N, h1, h2⟩ := two_stage (fun n => interp rt n d e off)
      (fun v o n => interpKVs rt n d rest (insertKV k v acc) o)
      (Mono.interp _ _ _ _) (fun _ o => Mono.interpKVs _ _ _ _ _) (hes.1 he.1 d hd off)
      (fun _ v o _ => ih hes.2 he.2 d hd (insertKV k v acc) o)
    refine ⟨N + 1, ?_⟩
    simp only [interpKVs]
    split
    · simp_all
    · rename_i v o hv
      exact h2 v o hv

theorem sizeList_mem (es : List Ast) (e : Ast) (h : e ∈ es) : e.size ≤ Ast.sizeList es := by
  induction es with
  | nil => simp at h
  | cons x rest ih =>
    simp only [List.mem_cons] at h
    simp only [Ast.sizeList]
    rcases h with rfl | h
    · omega
    · have := ih h; omega

theorem sizeKVs_mem (kvs : List (String × Ast)) (p : String × Ast) (h : p ∈ kvs) :
    p.2.size ≤ Ast.sizeKVs kvs := by
  induction kvs with
  | nil => simp at h
  | cons x rest ih =>
    obtain ⟨k, e⟩ := x
    simp only [List.mem_cons] at h
    simp only [Ast.sizeKVs]
    rcases h with rfl | h
    · simp
    · have := ih h; omega

theorem size_pos (a : Ast) : 1 ≤ a.size := by
  cases a <;> simp only [Ast.size] <;> omega

theorem term_ast (rt : Registry) (hrt : RegOK rt) : ∀ (k : Nat) (a : Ast), a.size ≤ k →
    a.Disciplined = true → TermOn rt a := by
  intro k
  induction k with
  | zero => intro a h; have := size_pos a; omega
  | succ k ih =>
    intro a hs ha d hd off
    cases a with
    | field o name => exact ⟨1, by simp [interp]⟩
    | identity o => exact ⟨1, by simp [interp]⟩
    | literal o w => exact ⟨1, by simp [interp]⟩
    | expref o a => exact ⟨1, by simp [interp]⟩
    | index o i => exact ⟨1, by rw [interp.eq_def]; simp only; split <;> simp⟩
    | slice o st sp step =>
      refine ⟨1, ?_⟩
      rw [interp.eq_def]
      simp only
      split
      · simp
      · split
        · split <;> simp
        · simp
    | subexpr o l r =>
      simp only [Ast.size] at hs; simp only [Ast.Disciplined, Bool.and_eq_true] at ha
      obtain ⟨N, h1, h2⟩ := two_stage (fun n => interp rt n d l off) (fun v o n => interp rt n v r o)
        (Mono.interp _ _ _ _) (fun _ _ => Mono.interp _ _ _ _) (ih l (by omega) ha.1 d hd off)
        (fun n v o hv => ih r (by omega) ha.2 v (interp_json rt hrt _ _ _ _ _ _ ha.1 hd hv) o)
      refine ⟨N + 1, ?_⟩
      simp only [interp]
      split
      · simp_all
      · rename_i v o hv; exact h2 v o hv
    | or o l r =>
      simp only [Ast.size] at hs; simp only [Ast.Disciplined, Bool.and_eq_true] at ha
      obtain ⟨N, h1, h2⟩ := two_stage (fun n => interp rt n d l off) (fun _ o n => interp rt n d r o)
        (Mono.interp _ _ _ _) (fun _ _ => Mono.interp _ _ _ _) (ih l (by omega) ha.1 d hd off)
        (fun n v o hv => ih r (by omega) ha.2 d hd o)
      refine ⟨N + 1, ?_⟩
      simp only [interp]
      split
      · simp_all
      · rename_i v o hv
        split
        · simp
        · exact h2 v o hv
    | and o l r =>
      simp only [Ast.size] at hs; simp only [Ast.Disciplined, Bool.and_eq_true] at ha
      obtain ⟨N, h1, h2⟩ := two_stage (fun n => interp rt n d l off) (fun _ o n => interp rt n d r o)
        (Mono.interp _ _ _ _) (fun _ _ => Mono.interp _ _ _ _) (ih l (by omega) ha.1 d hd off)
        (fun n v o hv => ih r (by omega) ha.2 d hd o)
      refine ⟨N + 1, ?_⟩
      simp only [interp]
      split
      · simp_all
      · rename_i v o hv
        split
        · simp
        · exact h2 v o hv
    | condition o p t =>
      simp only [Ast.size] at hs; simp only [Ast.Disciplined, Bool.and_eq_true] at ha
      obtain ⟨N, h1, h2⟩ := two_stage (fun n => interp rt n d p off) (fun _ o n => interp rt n d t o)
        (Mono.interp _ _ _ _) (fun _ _ => Mono.interp _ _ _ _) (ih p (by omega) ha.1 d hd off)
        (fun n v o hv => ih t (by omega) ha.2 d hd o)
      refine ⟨N + 1, ?_⟩
      simp only [interp]
      split
      · simp_all
      · rename_i v o hv
        split
        · exact h2 v o hv
        · simp
    | comparison o c l r =>
      simp only [Ast.size] at hs; simp only [Ast.Disciplined, Bool.and_eq_true] at ha
      obtain ⟨N, h1, h2⟩ := two_stage (fun n => interp rt n d l off) (fun _ o n => interp rt n d r o)
        (Mono.interp _ _ _ _) (fun _ _ => Mono.interp _ _ _ _) (ih l (by omega) ha.1 d hd off)
        (fun n v o hv => ih r (by omega) ha.2 d hd o)
      refine ⟨N + 1, ?_⟩
      simp only [interp]
      split
      · simp_all
      · rename_i v o hv
        have := h2 v o hv
        split
        · simp_all
        · split <;> simp
    | not o a =>
      simp only [Ast.size] at hs; simp only [Ast.Disciplined] at ha
      obtain ⟨N, hN⟩ := ih a (by omega) ha d hd off
      refine ⟨N + 1, ?_⟩
      simp only [interp]
      split <;> simp_all
    | objectValues o a =>
      simp only [Ast.size] at hs; simp only [Ast.Disciplined] at ha
      obtain ⟨N, hN⟩ := ih a (by omega) ha d hd off
      refine ⟨N + 1, ?_⟩
      simp only [interp]
      split <;> simp_all
    | flatten o a =>
      simp only [Ast.size] at hs; simp only [Ast.Disciplined] at ha
      obtain ⟨N, hN⟩ := ih a (by omega) ha d hd off
      refine ⟨N + 1, ?_⟩
      simp only [interp]
      split <;> simp_all
    | projection o l r =>
      simp only [Ast.size] at hs; simp only [Ast.Disciplined, Bool.and_eq_true] at ha
      have hr := ih r (by omega) ha.2
      obtain ⟨N, hN⟩ := ih l (by omega) ha.1 d hd off
      cases hv : interp rt N d l off with
      | error e => exact ⟨N + 1, by simp only [interp, hv]; simp_all⟩
      | ok p =>
        obtain ⟨v, o'⟩ := p
        have hj := interp_json rt hrt _ _ _ _ _ _ ha.1 hd hv
        cases v with
        | arr xs =>
          rw [isJson_arr] at hj
          obtain ⟨M, hM⟩ := term_projectEach rt r hr xs hj o'
          have e1 := Mono.interp rt d l off N hN (max N M) (Nat.le_max_left _ _)
          have e2 := Mono.projectEach rt xs r o' M hM (max N M) (Nat.le_max_right _ _)
          simp only at e1 e2
          refine ⟨max N M + 1, ?_⟩
          simp only [interp, e1, hv, e2]
          split <;> simp_all
        | _ => exact ⟨N + 1, by simp only [interp, hv]; simp⟩
    | multiList o es =>
      simp only [Ast.size] at hs; simp only [Ast.Disciplined] at ha
      obtain ⟨N, hN⟩ := term_list rt es
        (fun e he => ih e (by have := sizeList_mem es e he; omega)) ha d hd off
      refine ⟨N + 1, ?_⟩
      simp only [interp]
      split
      · simp
      · split <;> simp_all
    | multiHash o kvs =>
      simp only [Ast.size] at hs; simp only [Ast.Disciplined] at ha
      obtain ⟨N, hN⟩ := term_kvs rt kvs
        (fun p hp => ih p.2 (by have := sizeKVs_mem kvs p hp; omega)) ha d hd [] off
      refine ⟨N + 1, ?_⟩
      simp only [interp]
      split
      · simp
      · split <;> simp_all
    | function o name args =>
      simp only [Ast.size] at hs; simp only [Ast.Disciplined] at ha
      obtain ⟨N, hN⟩ := term_args rt name args 0
        (fun e he => ih e (by have := sizeList_mem args e he; omega)) ha d hd off
      cases hv : interpAll rt N d args off with
      | error e => exact ⟨N + 1, by simp only [interp, hv]; simp_all⟩
      | ok p =>
        obtain ⟨vs, prev⟩ := p
        cases hget : rt.get name with
        | none => exact ⟨N + 1, by simp only [interp, hv, hget]; simp⟩
        | some f =>
          obtain ⟨b, rfl, hsl⟩ := hrt _ _ hget
          have hq := (jsonStep_all rt hrt N).j_interpArgs (TermOn rt) name 0 d args off vs prev ha
            (fun o' body hm hb => ih body (by
              have := sizeList_mem args _ hm
              simp only [Ast.size] at this
              omega) hb) hd hv
          obtain ⟨M, hM⟩ := term_callFn rt b vs o (ArgsQ.mono (fun _ h => h) hsl _ _ hq)
          have e1 := Mono.interpAll rt d args off N hN (max N M) (Nat.le_max_left _ _)
          have e2 := Mono.callFn rt (.builtin b) vs o M hM (max N M) (Nat.le_max_right _ _)
          simp only at e1 e2
          refine ⟨max N M + 1, ?_⟩
          simp only [interp, e1, hv, hget, e2]
          split <;> simp_all

end JmesVerif
