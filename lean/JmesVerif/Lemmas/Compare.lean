import JmesVerif.Model.Compare
namespace JmesVerif

/-! ### `float_eq` -/

theorem F64.feq_comm (a b : F64) : F64.feq a b = F64.feq b a := by
  cases a <;> cases b <;> simp [F64.feq, eq_comm, Bool.beq_comm]

theorem F64.feq_self (a : F64) (h : a ≠ .nan) : F64.feq a a = true := by
  cases a <;> simp_all [F64.feq]

theorem roundArg_neg (q : Rat) : (if -q < 0 then - -q else -q) = (if q < 0 then -q else q) := by
  by_cases h : q < 0 <;> by_cases h' : -q < 0 <;> simp only [h, h', if_true, if_false] <;> grind

theorem ofRatSigned_abs_neg (z z' : Bool) (q : Rat) :
    (F64.ofRatSigned z q).abs = (F64.ofRatSigned z' (-q)).abs := by
  unfold F64.ofRatSigned
  rw [roundArg_neg]
  cases h : F64.roundPos (if q < 0 then -q else q) with
  | none => simp [F64.abs]
  | some p =>
    obtain ⟨m, e⟩ := p
    cases m <;> simp [F64.abs]

theorem F64.toRat_neg (a : F64) : (F64.neg a).toRat = - a.toRat := by
  cases a with
  | fin s m e => cases s <;> simp [F64.neg, F64.toRat, Rat.neg_mul]
  | inf s => simp [F64.neg, F64.toRat]
  | nan => simp [F64.neg, F64.toRat]

theorem F64.sub_abs_comm (a b : F64) : (F64.sub a b).abs = (F64.sub b a).abs := by
  cases a with
  | nan => cases b <;> simp [F64.sub, F64.add, F64.neg, F64.abs]
  | inf s =>
    cases b with
    | nan => simp [F64.sub, F64.add, F64.neg, F64.abs]
    | inf t => cases s <;> cases t <;> simp [F64.sub, F64.add, F64.neg, F64.abs]
    | fin t m e => simp [F64.sub, F64.add, F64.neg, F64.abs]
  | fin s m e =>
    cases b with
    | nan => simp [F64.sub, F64.add, F64.neg, F64.abs]
    | inf t => simp [F64.sub, F64.add, F64.neg, F64.abs]
    | fin t m' e' =>
      simp only [F64.sub, F64.neg, F64.add]
      have h1 := F64.toRat_neg (.fin t m' e')
      have h2 := F64.toRat_neg (.fin s m e)
      simp only [F64.neg] at h1 h2
      rw [h1, h2]
      have : (F64.fin t m' e').toRat + -(F64.fin s m e).toRat = -((F64.fin s m e).toRat + -(F64.fin t m' e').toRat) := by
        rw [Rat.neg_add, Rat.neg_neg, Rat.add_comm]
      rw [this]
      exact ofRatSigned_abs_neg _ _ _

theorem F64.add_comm' (a b : F64) : F64.add a b = F64.add b a := by
  cases a with
  | nan => cases b <;> simp [F64.add]
  | inf s =>
    cases b with
    | nan => simp [F64.add]
    | inf t => cases s <;> cases t <;> simp [F64.add]
    | fin t m e => simp [F64.add]
  | fin s m e =>
    cases b with
    | nan => simp [F64.add]
    | inf t => simp [F64.add]
    | fin t m' e' => simp only [F64.add]; rw [Rat.add_comm, Bool.and_comm]

theorem floatEq_comm (a b : F64) : floatEq a b = floatEq b a := by
  simp only [floatEq]
  rw [F64.feq_comm a b, F64.sub_abs_comm a b, F64.add_comm' a.abs b.abs, Bool.or_comm (!a.isNormal)]

theorem floatEq_self (a : F64) (h : a ≠ .nan) : floatEq a a = true := by
  simp [floatEq, F64.feq_self a h]

end JmesVerif
