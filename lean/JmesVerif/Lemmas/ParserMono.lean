import JmesVerif.Lemmas.ParserBasic
/-!
Fuel monotonicity of the parser model: a result that is not the out-of-fuel error is stable
under additional fuel.  `MonoStep n` bundles the one-step statement for all functions of the
mutual block; `monoStep_all` proves it by induction on `n`.
-/
namespace JmesVerif
open Parser

structure MonoStep (n : Nat) : Prop where
  expr : ∀ rbp ts off, Parser.expr n rbp ts off ≠ .error .fuel →
    Parser.expr (n+1) rbp ts off = Parser.expr n rbp ts off
  loop : ∀ rbp hd acc left ts off, Parser.loop n rbp hd acc left ts off ≠ .error .fuel →
    Parser.loop (n+1) rbp hd acc left ts off = Parser.loop n rbp hd acc left ts off
  nud : ∀ ts off, Parser.nud n ts off ≠ .error .fuel → Parser.nud (n+1) ts off = Parser.nud n ts off
  led : ∀ left ts off, Parser.led n left ts off ≠ .error .fuel →
    Parser.led (n+1) left ts off = Parser.led n left ts off
  parseIndex : ∀ ts off, Parser.parseIndex n ts off ≠ .error .fuel →
    Parser.parseIndex (n+1) ts off = Parser.parseIndex n ts off
  projRhs : ∀ k ts off, Parser.projRhs n k ts off ≠ .error .fuel →
    Parser.projRhs (n+1) k ts off = Parser.projRhs n k ts off
  parseDot : ∀ k ts off, Parser.parseDot n k ts off ≠ .error .fuel →
    Parser.parseDot (n+1) k ts off = Parser.parseDot n k ts off
  multiList : ∀ ts off, Parser.multiList n ts off ≠ .error .fuel →
    Parser.multiList (n+1) ts off = Parser.multiList n ts off
  parseList : ∀ b ts off es as, Parser.parseList n b ts off es as ≠ .error .fuel →
    Parser.parseList (n+1) b ts off es as = Parser.parseList n b ts off es as
  kvps : ∀ ts off ks aks, Parser.kvps n ts off ks aks ≠ .error .fuel →
    Parser.kvps (n+1) ts off ks aks = Parser.kvps n ts off ks aks
  parseFilter : ∀ lhs ts off, Parser.parseFilter n lhs ts off ≠ .error .fuel →
    Parser.parseFilter (n+1) lhs ts off = Parser.parseFilter n lhs ts off
  parseFlatten : ∀ lhs ts off, Parser.parseFlatten n lhs ts off ≠ .error .fuel →
    Parser.parseFlatten (n+1) lhs ts off = Parser.parseFlatten n lhs ts off
  wildcardValues : ∀ lhs ts off, Parser.wildcardValues n lhs ts off ≠ .error .fuel →
    Parser.wildcardValues (n+1) lhs ts off = Parser.wildcardValues n lhs ts off
  wildcardIndex : ∀ lhs ts off, Parser.wildcardIndex n lhs ts off ≠ .error .fuel →
    Parser.wildcardIndex (n+1) lhs ts off = Parser.wildcardIndex n lhs ts off

/-- after unfolding both sides: split the hypothesis along the path actually taken, then rewrite
the sub-calls of the goal with the induction hypotheses -/
macro "mono_close" ih:ident h:ident : tactic => `(tactic| (
  simp only at $h:ident ⊢
  repeat' (split at $h:ident)
  all_goals (try (simp_all [($ih).expr, ($ih).loop, ($ih).nud, ($ih).led, ($ih).parseIndex, ($ih).projRhs,
    ($ih).parseDot, ($ih).multiList, ($ih).parseList, ($ih).kvps, ($ih).parseFilter, ($ih).parseFlatten,
    ($ih).wildcardValues, ($ih).wildcardIndex]; done))
  all_goals (try (split <;> first | rfl | omega))))

theorem MonoStep.zero : MonoStep 0 := by
  constructor <;> intros <;> simp_all [Parser.expr, Parser.loop, Parser.nud, Parser.led, Parser.parseIndex,
    Parser.projRhs, Parser.parseDot, Parser.multiList, Parser.parseList, Parser.kvps, Parser.parseFilter,
    Parser.parseFlatten, Parser.wildcardValues, Parser.wildcardIndex]

theorem expr_step_m (n : Nat) (ih : MonoStep n) : ∀ rbp ts off, Parser.expr (n+1) rbp ts off ≠ .error .fuel →
    Parser.expr (n+2) rbp ts off = Parser.expr (n+1) rbp ts off := by
  intro rbp ts off h
  rw [Parser.expr.eq_def] at h ⊢
  conv => rhs; rw [Parser.expr.eq_def]
  mono_close ih h

theorem loop_step_m (n : Nat) (ih : MonoStep n) : ∀ rbp hd acc left ts off,
    Parser.loop (n+1) rbp hd acc left ts off ≠ .error .fuel →
    Parser.loop (n+2) rbp hd acc left ts off = Parser.loop (n+1) rbp hd acc left ts off := by
  intro rbp hd acc left ts off h
  rw [Parser.loop.eq_def] at h ⊢
  conv => rhs; rw [Parser.loop.eq_def]
  mono_close ih h

theorem nud_step_m (n : Nat) (ih : MonoStep n) : ∀ ts off, Parser.nud (n+1) ts off ≠ .error .fuel →
    Parser.nud (n+2) ts off = Parser.nud (n+1) ts off := by
  intro ts off h
  rw [Parser.nud.eq_def] at h ⊢
  conv => rhs; rw [Parser.nud.eq_def]
  mono_close ih h

theorem led_step_m (n : Nat) (ih : MonoStep n) : ∀ left ts off, Parser.led (n+1) left ts off ≠ .error .fuel →
    Parser.led (n+2) left ts off = Parser.led (n+1) left ts off := by
  intro left ts off h
  rw [Parser.led.eq_def] at h ⊢
  conv => rhs; rw [Parser.led.eq_def]
  mono_close ih h

theorem parseIndex_step (n : Nat) (ih : MonoStep n) : ∀ ts off, Parser.parseIndex (n+1) ts off ≠ .error .fuel →
    Parser.parseIndex (n+2) ts off = Parser.parseIndex (n+1) ts off := by
  intro ts off h
  rw [Parser.parseIndex.eq_def] at h ⊢
  conv => rhs; rw [Parser.parseIndex.eq_def]
  mono_close ih h

theorem projRhs_step_m (n : Nat) (ih : MonoStep n) : ∀ k ts off, Parser.projRhs (n+1) k ts off ≠ .error .fuel →
    Parser.projRhs (n+2) k ts off = Parser.projRhs (n+1) k ts off := by
  intro k ts off h
  rw [Parser.projRhs.eq_def] at h ⊢
  conv => rhs; rw [Parser.projRhs.eq_def]
  mono_close ih h

theorem parseDot_step (n : Nat) (ih : MonoStep n) : ∀ k ts off, Parser.parseDot (n+1) k ts off ≠ .error .fuel →
    Parser.parseDot (n+2) k ts off = Parser.parseDot (n+1) k ts off := by
  intro k ts off h
  rw [Parser.parseDot.eq_def] at h ⊢
  conv => rhs; rw [Parser.parseDot.eq_def]
  mono_close ih h

theorem multiList_step_m (n : Nat) (ih : MonoStep n) : ∀ ts off, Parser.multiList (n+1) ts off ≠ .error .fuel →
    Parser.multiList (n+2) ts off = Parser.multiList (n+1) ts off := by
  intro ts off h
  rw [Parser.multiList.eq_def] at h ⊢
  conv => rhs; rw [Parser.multiList.eq_def]
  mono_close ih h

theorem parseList_step (n : Nat) (ih : MonoStep n) : ∀ b ts off es as, Parser.parseList (n+1) b ts off es as ≠ .error .fuel →
    Parser.parseList (n+2) b ts off es as = Parser.parseList (n+1) b ts off es as := by
  intro b ts off es as h
  rw [Parser.parseList.eq_def] at h ⊢
  conv => rhs; rw [Parser.parseList.eq_def]
  mono_close ih h

theorem kvps_step_m (n : Nat) (ih : MonoStep n) : ∀ ts off ks aks, Parser.kvps (n+1) ts off ks aks ≠ .error .fuel →
    Parser.kvps (n+2) ts off ks aks = Parser.kvps (n+1) ts off ks aks := by
  intro ts off ks aks h
  rw [Parser.kvps.eq_def] at h ⊢
  conv => rhs; rw [Parser.kvps.eq_def]
  mono_close ih h

theorem parseFilter_step (n : Nat) (ih : MonoStep n) : ∀ lhs ts off, Parser.parseFilter (n+1) lhs ts off ≠ .error .fuel →
    Parser.parseFilter (n+2) lhs ts off = Parser.parseFilter (n+1) lhs ts off := by
  intro lhs ts off h
  rw [Parser.parseFilter.eq_def] at h ⊢
  conv => rhs; rw [Parser.parseFilter.eq_def]
  mono_close ih h

theorem parseFlatten_step (n : Nat) (ih : MonoStep n) : ∀ lhs ts off, Parser.parseFlatten (n+1) lhs ts off ≠ .error .fuel →
    Parser.parseFlatten (n+2) lhs ts off = Parser.parseFlatten (n+1) lhs ts off := by
  intro lhs ts off h
  rw [Parser.parseFlatten.eq_def] at h ⊢
  conv => rhs; rw [Parser.parseFlatten.eq_def]
  mono_close ih h

theorem wildcardValues_step (n : Nat) (ih : MonoStep n) : ∀ lhs ts off, Parser.wildcardValues (n+1) lhs ts off ≠ .error .fuel →
    Parser.wildcardValues (n+2) lhs ts off = Parser.wildcardValues (n+1) lhs ts off := by
  intro lhs ts off h
  rw [Parser.wildcardValues.eq_def] at h ⊢
  conv => rhs; rw [Parser.wildcardValues.eq_def]
  mono_close ih h

theorem wildcardIndex_step (n : Nat) (ih : MonoStep n) : ∀ lhs ts off, Parser.wildcardIndex (n+1) lhs ts off ≠ .error .fuel →
    Parser.wildcardIndex (n+2) lhs ts off = Parser.wildcardIndex (n+1) lhs ts off := by
  intro lhs ts off h
  rw [Parser.wildcardIndex.eq_def] at h ⊢
  conv => rhs; rw [Parser.wildcardIndex.eq_def]
  mono_close ih h

theorem monoStep_all : ∀ n, MonoStep n
  | 0 => MonoStep.zero
  | n + 1 =>
    have ih := monoStep_all n
    ⟨expr_step_m n ih, loop_step_m n ih, nud_step_m n ih, led_step_m n ih, parseIndex_step n ih, projRhs_step_m n ih, parseDot_step n ih, multiList_step_m n ih, parseList_step n ih, kvps_step_m n ih, parseFilter_step n ih, parseFlatten_step n ih, wildcardValues_step n ih, wildcardIndex_step n ih⟩

theorem mono_iter {α : Type} (f : Nat → α) (bad : α) (step : ∀ n, f n ≠ bad → f (n+1) = f n)
    (n : Nat) (r : α) (h : f n = r) (hr : r ≠ bad) : ∀ m, n ≤ m → f m = r := by
  intro m hm
  induction m with
  | zero => have : n = 0 := by omega
            subst this; exact h
  | succ m ih =>
    by_cases hnm : n = m + 1
    · subst hnm; exact h
    · have := ih (by omega)
      rw [step m (by rw [this]; exact hr), this]

theorem expr_mono (fuel : Nat) (rbp : Nat) (ts : List PT) (off : Nat) (r : PRes (Expr × Ast))
    (h : Parser.expr fuel rbp ts off = r) (hr : r ≠ .error .fuel) :
    ∀ fuel', fuel ≤ fuel' → Parser.expr fuel' rbp ts off = r :=
  mono_iter (fun n => Parser.expr n rbp ts off) _ (fun n => (monoStep_all n).expr rbp ts off) fuel r h hr

theorem loop_mono (fuel : Nat) (rbp : Nat) (hd : Nud) (acc : List Led) (left : Ast) (ts : List PT) (off : Nat) (r : PRes (Expr × Ast))
    (h : Parser.loop fuel rbp hd acc left ts off = r) (hr : r ≠ .error .fuel) :
    ∀ fuel', fuel ≤ fuel' → Parser.loop fuel' rbp hd acc left ts off = r :=
  mono_iter (fun n => Parser.loop n rbp hd acc left ts off) _ (fun n => (monoStep_all n).loop rbp hd acc left ts off) fuel r h hr

theorem nud_mono (fuel : Nat) (ts : List PT) (off : Nat) (r : PRes (Nud × Ast))
    (h : Parser.nud fuel ts off = r) (hr : r ≠ .error .fuel) :
    ∀ fuel', fuel ≤ fuel' → Parser.nud fuel' ts off = r :=
  mono_iter (fun n => Parser.nud n ts off) _ (fun n => (monoStep_all n).nud ts off) fuel r h hr

theorem led_mono (fuel : Nat) (left : Ast) (ts : List PT) (off : Nat) (r : PRes (Led × Ast))
    (h : Parser.led fuel left ts off = r) (hr : r ≠ .error .fuel) :
    ∀ fuel', fuel ≤ fuel' → Parser.led fuel' left ts off = r :=
  mono_iter (fun n => Parser.led n left ts off) _ (fun n => (monoStep_all n).led left ts off) fuel r h hr

theorem parseIndex_mono (fuel : Nat) (ts : List PT) (off : Nat) (r : PRes ((Int ⊕ (SliceHdr × Rhs)) × Ast))
    (h : Parser.parseIndex fuel ts off = r) (hr : r ≠ .error .fuel) :
    ∀ fuel', fuel ≤ fuel' → Parser.parseIndex fuel' ts off = r :=
  mono_iter (fun n => Parser.parseIndex n ts off) _ (fun n => (monoStep_all n).parseIndex ts off) fuel r h hr

theorem projRhs_mono (fuel : Nat) (k : Nat) (ts : List PT) (off : Nat) (r : PRes (Rhs × Ast))
    (h : Parser.projRhs fuel k ts off = r) (hr : r ≠ .error .fuel) :
    ∀ fuel', fuel ≤ fuel' → Parser.projRhs fuel' k ts off = r :=
  mono_iter (fun n => Parser.projRhs n k ts off) _ (fun n => (monoStep_all n).projRhs k ts off) fuel r h hr

theorem parseDot_mono (fuel : Nat) (k : Nat) (ts : List PT) (off : Nat) (r : PRes (DotRhs × Ast))
    (h : Parser.parseDot fuel k ts off = r) (hr : r ≠ .error .fuel) :
    ∀ fuel', fuel ≤ fuel' → Parser.parseDot fuel' k ts off = r :=
  mono_iter (fun n => Parser.parseDot n k ts off) _ (fun n => (monoStep_all n).parseDot k ts off) fuel r h hr

theorem multiList_mono (fuel : Nat) (ts : List PT) (off : Nat) (r : PRes (List Expr × Ast))
    (h : Parser.multiList fuel ts off = r) (hr : r ≠ .error .fuel) :
    ∀ fuel', fuel ≤ fuel' → Parser.multiList fuel' ts off = r :=
  mono_iter (fun n => Parser.multiList n ts off) _ (fun n => (monoStep_all n).multiList ts off) fuel r h hr

theorem parseList_mono (fuel : Nat) (b : Bool) (ts : List PT) (off : Nat) (es : List Expr) (as : List Ast) (r : PRes (List Expr × List Ast))
    (h : Parser.parseList fuel b ts off es as = r) (hr : r ≠ .error .fuel) :
    ∀ fuel', fuel ≤ fuel' → Parser.parseList fuel' b ts off es as = r :=
  mono_iter (fun n => Parser.parseList n b ts off es as) _ (fun n => (monoStep_all n).parseList b ts off es as) fuel r h hr

theorem kvps_mono (fuel : Nat) (ts : List PT) (off : Nat) (ks : List (Bool × String × Expr)) (aks : List (String × Ast)) (r : PRes (List (Bool × String × Expr) × List (String × Ast)))
    (h : Parser.kvps fuel ts off ks aks = r) (hr : r ≠ .error .fuel) :
    ∀ fuel', fuel ≤ fuel' → Parser.kvps fuel' ts off ks aks = r :=
  mono_iter (fun n => Parser.kvps n ts off ks aks) _ (fun n => (monoStep_all n).kvps ts off ks aks) fuel r h hr

theorem parseFilter_mono (fuel : Nat) (lhs : Ast) (ts : List PT) (off : Nat) (r : PRes (Expr × Rhs × Ast))
    (h : Parser.parseFilter fuel lhs ts off = r) (hr : r ≠ .error .fuel) :
    ∀ fuel', fuel ≤ fuel' → Parser.parseFilter fuel' lhs ts off = r :=
  mono_iter (fun n => Parser.parseFilter n lhs ts off) _ (fun n => (monoStep_all n).parseFilter lhs ts off) fuel r h hr

theorem parseFlatten_mono (fuel : Nat) (lhs : Ast) (ts : List PT) (off : Nat) (r : PRes (Rhs × Ast))
    (h : Parser.parseFlatten fuel lhs ts off = r) (hr : r ≠ .error .fuel) :
    ∀ fuel', fuel ≤ fuel' → Parser.parseFlatten fuel' lhs ts off = r :=
  mono_iter (fun n => Parser.parseFlatten n lhs ts off) _ (fun n => (monoStep_all n).parseFlatten lhs ts off) fuel r h hr

theorem wildcardValues_mono (fuel : Nat) (lhs : Ast) (ts : List PT) (off : Nat) (r : PRes (Rhs × Ast))
    (h : Parser.wildcardValues fuel lhs ts off = r) (hr : r ≠ .error .fuel) :
    ∀ fuel', fuel ≤ fuel' → Parser.wildcardValues fuel' lhs ts off = r :=
  mono_iter (fun n => Parser.wildcardValues n lhs ts off) _ (fun n => (monoStep_all n).wildcardValues lhs ts off) fuel r h hr

theorem wildcardIndex_mono (fuel : Nat) (lhs : Ast) (ts : List PT) (off : Nat) (r : PRes (Rhs × Ast))
    (h : Parser.wildcardIndex fuel lhs ts off = r) (hr : r ≠ .error .fuel) :
    ∀ fuel', fuel ≤ fuel' → Parser.wildcardIndex fuel' lhs ts off = r :=
  mono_iter (fun n => Parser.wildcardIndex n lhs ts off) _ (fun n => (monoStep_all n).wildcardIndex lhs ts off) fuel r h hr

end JmesVerif
