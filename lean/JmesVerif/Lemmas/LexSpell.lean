import JmesVerif.Lemmas.SpellRoundTrip
import JmesVerif.Lemmas.JsonRoundTripNum
import JmesVerif.Lemmas.ParserBasic
/-!
# Every list of writable tokens has a spelling that lexes back to it

`spellToks` writes a token list down (canonical spelling of every token, single spaces between
tokens); `lex_spell` shows the lexer model reads that text back as exactly the given tokens,
followed by the end marker.  This closes the gap between *sentences* (token lists) and *strings*.
-/
namespace JmesVerif
open Spelling

/-- tokens whose payload can be written down -/
def Tok.Spellable : Tok → Prop
  | .identifier s => ∃ c cs, s.toList = c :: cs ∧ Lexer.isIdStart c = true ∧ cs.all Lexer.isIdChar = true
  | .quotedIdentifier _ => True
  | .number n => -2147483647 ≤ n ∧ n ≤ 2147483647
  | .literal v => v.isJson = true ∧ JsonText.parse (JsonPrint.compact v).toList = some v
  | .eof => False
  | _ => True

/-- decimal spelling of an integer: the digits, with a leading `-` for negatives -/
def spellInt : Int → List Char
  | .ofNat n => Nat.toDigits 10 n
  | .negSucc n => '-' :: Nat.toDigits 10 (n + 1)

/-- canonical spelling of one token -/
def spellTok : Tok → List Char
  | .identifier s => s.toList
  | .quotedIdentifier s => quotedSpell s
  | .number n => spellInt n
  | .literal v => literalSpell v
  | .dot => ['.'] | .star => ['*'] | .flatten => ['[', ']'] | .and => ['&', '&'] | .or => ['|', '|']
  | .pipe => ['|'] | .filter => ['[', '?'] | .lbracket => ['['] | .rbracket => [']'] | .comma => [',']
  | .colon => [':'] | .not => ['!'] | .ne => ['!', '='] | .eq => ['=', '='] | .gt => ['>']
  | .gte => ['>', '='] | .lt => ['<'] | .lte => ['<', '='] | .at => ['@'] | .ampersand => ['&']
  | .lparen => ['('] | .rparen => [')'] | .lbrace => ['{'] | .rbrace => ['}']
  | .eof => []

/-- tokens separated by single spaces -/
def spellToks : List Tok → List Char
  | [] => []
  | [t] => spellTok t
  | t :: ts => spellTok t ++ ' ' :: spellToks ts

namespace LexSpell

/-- what may follow a token: nothing, or a space -/
def Sep (r : List Char) : Prop := r = [] ∨ ∃ r', r = ' ' :: r'

theorem Sep.nil : Sep [] := Or.inl rfl
theorem Sep.space (r : List Char) : Sep (' ' :: r) := Or.inr ⟨r, rfl⟩

/-! ### `takeWhile` stops at the separator -/

theorem takeWhile_all (p : Char → Bool) (hp : p ' ' = false) (cs : List Char) (h : cs.all p = true)
    (r : List Char) (hr : Sep r) : Lexer.takeWhile p (cs ++ r) = (cs, r) := by
  induction cs with
  | nil =>
    rcases hr with rfl | ⟨r', rfl⟩
    · simp [Lexer.takeWhile]
    · simp [Lexer.takeWhile, hp]
  | cons c cs ih =>
    simp only [List.all_cons, Bool.and_eq_true] at h
    simp [Lexer.takeWhile, h.1, ih h.2]

/-! ### digits -/

theorem digitsVal_eq (ds : List Char) : Lexer.digitsVal ds = Nat.ofDigitChars 10 ds 0 := by
  unfold Lexer.digitsVal Nat.ofDigitChars
  congr 1
  funext acc d
  rw [Nat.mul_comm]

theorem digitsVal_toDigits (n : Nat) : Lexer.digitsVal (Nat.toDigits 10 n) = n := by
  rw [digitsVal_eq, Nat.ofDigitChars_ten_toDigits]

theorem lexIsDigit_eq (c : Char) : Lexer.isDigit c = JsonText.isDigit c := by
  simp [Lexer.isDigit, JsonText.isDigit]

theorem all_isDigit_toDigits (n : Nat) : (Nat.toDigits 10 n).all Lexer.isDigit = true := by
  rw [List.all_eq_true]
  intro c hc
  rw [lexIsDigit_eq]
  exact JsonRT.isDigit_of_mem_toDigits hc

/-- a digit is one of the ten digit characters -/
theorem digit_cases (c : Char) (h : Lexer.isDigit c = true) :
    c = '0' ∨ c = '1' ∨ c = '2' ∨ c = '3' ∨ c = '4' ∨ c = '5' ∨ c = '6' ∨ c = '7' ∨ c = '8' ∨ c = '9' := by
  rw [lexIsDigit_eq, JsonRT.isDigit_iff] at h
  have e : c = Char.ofNat c.toNat := (Char.ofNat_toNat c).symm
  have : c.toNat = 48 ∨ c.toNat = 49 ∨ c.toNat = 50 ∨ c.toNat = 51 ∨ c.toNat = 52 ∨ c.toNat = 53 ∨
      c.toNat = 54 ∨ c.toNat = 55 ∨ c.toNat = 56 ∨ c.toNat = 57 := by omega
  rcases this with h | h | h | h | h | h | h | h | h | h <;> rw [h] at e <;> simp [e]

/-- the dispatch on a digit reaches the number branch -/
theorem lexOne_digit (pos : Nat) (c : Char) (h : Lexer.isDigit c = true) (cs : List Char) :
    Lexer.lexOne pos c cs =
      if Lexer.digitsVal (c :: (Lexer.takeWhile Lexer.isDigit cs).1) ≤ 2147483647
      then .ok (some (.number (Lexer.digitsVal (c :: (Lexer.takeWhile Lexer.isDigit cs).1))),
        (Lexer.takeWhile Lexer.isDigit cs).2)
      else .error ⟨pos, .number⟩ := by
  rcases digit_cases c h with rfl | rfl | rfl | rfl | rfl | rfl | rfl | rfl | rfl | rfl <;>
    simp [Lexer.lexOne, Lexer.isIdStart, Lexer.isDigit]

theorem lexOne_nat (pos n : Nat) (hn : n ≤ 2147483647) (r : List Char) (hr : Sep r) :
    ∃ c cs, Nat.toDigits 10 n = c :: cs ∧
      Lexer.lexOne pos c (cs ++ r) = .ok (some (.number (Int.ofNat n)), r) := by
  cases he : Nat.toDigits 10 n with
  | nil => exact absurd he Nat.toDigits_ne_nil
  | cons c cs =>
    refine ⟨c, cs, rfl, ?_⟩
    have hall := all_isDigit_toDigits n
    rw [he] at hall
    simp only [List.all_cons, Bool.and_eq_true] at hall
    have hv : Lexer.digitsVal (c :: cs) = n := by rw [← he]; exact digitsVal_toDigits n
    rw [lexOne_digit pos c hall.1, takeWhile_all _ (by decide) cs hall.2 r hr]
    simp [hv, hn]

theorem lexOne_neg (pos n : Nat) (hn : n + 1 ≤ 2147483647) (r : List Char) (hr : Sep r) :
    Lexer.lexOne pos '-' (Nat.toDigits 10 (n + 1) ++ r) = .ok (some (.number (Int.negSucc n)), r) := by
  obtain ⟨d, ds, he, h1, h2⟩ := JsonRT.toDigits_head (n + 1) (by omega)
  have hall := all_isDigit_toDigits (n + 1)
  rw [he] at hall
  simp only [List.all_cons, Bool.and_eq_true] at hall
  have hv : Lexer.digitsVal (d :: ds) = n + 1 := by rw [← he]; exact digitsVal_toDigits (n + 1)
  have hd : (decide ('1' ≤ d) && decide (d ≤ '9')) = true := (JsonRT.one_le_iff d).2 ⟨h1, h2⟩
  rw [he]
  unfold Lexer.lexOne
  simp only [Lexer.isIdStart, Lexer.isDigit, List.cons_append, hd, takeWhile_all _ (by decide) ds hall.2 r hr, hv]
  simp [hn, Int.negSucc_eq]

/-! ### the per-token lemma -/

theorem lexOne_ident (pos : Nat) (c : Char) (cs : List Char) (hc : Lexer.isIdStart c = true)
    (hcs : cs.all Lexer.isIdChar = true) (r : List Char) (hr : Sep r) :
    Lexer.lexOne pos c (cs ++ r) = .ok (some (.identifier (String.ofList (c :: cs))), r) := by
  unfold Lexer.lexOne
  simp [hc, takeWhile_all _ (by decide) cs hcs r hr]

theorem lexOne_quoted (pos : Nat) (k : String) (r : List Char) :
    ∃ cs, quotedSpell k = '"' :: cs ∧
      Lexer.lexOne pos '"' (cs ++ r) = .ok (some (.quotedIdentifier k), r) := by
  refine ⟨k.toList.flatMap JsonPrint.escapeChar ++ ['"'], by simp [quotedSpell, JsonPrint.quote], ?_⟩
  have := quoted_roundtrip k.toList r pos
  simpa using this

theorem lexOne_literal (pos : Nat) (v : Val) (hv : v.isJson = true)
    (hparse : JsonText.parse (JsonPrint.compact v).toList = some v) (r : List Char) :
    Lexer.lexOne pos '`' ((escBacktick (JsonPrint.compact v).toList ++ ['`']) ++ r)
      = .ok (some (.literal v), r) := by
  obtain ⟨x, h1, h2⟩ := backtick_layer _ (compact_btSafe v hv) r
  rw [List.append_assoc]
  exact Spell.lexOne_bt _ _ _ _ _ h1 (by rw [h2]; exact hparse)

/-- **one token**: the canonical spelling of a spellable token, followed by nothing or by a space,
is read back as that token and leaves exactly what followed -/
theorem lexOne_spell (t : Tok) (ht : t.Spellable) (r : List Char) (hr : Sep r) :
    ∃ c cs, spellTok t = c :: cs ∧ ∀ pos, Lexer.lexOne pos c (cs ++ r) = .ok (some t, r) := by
  cases t with
  | identifier s =>
    obtain ⟨c, cs, hs, hc, hcs⟩ := ht
    refine ⟨c, cs, hs, fun pos => ?_⟩
    rw [lexOne_ident pos c cs hc hcs r hr, ← hs, String.ofList_toList]
  | quotedIdentifier s =>
    obtain ⟨cs, h1, _⟩ := lexOne_quoted 0 s r
    exact ⟨'"', cs, h1, fun pos => by
      obtain ⟨cs', h1', h2'⟩ := lexOne_quoted pos s r
      have : cs' = cs := by rw [h1] at h1'; injection h1' with _ h; exact h.symm
      rw [← this]; exact h2'⟩
  | number n =>
    obtain ⟨h1, h2⟩ := ht
    cases n with
    | ofNat n =>
      have h2 : (n : Int) ≤ 2147483647 := h2
      obtain ⟨c, cs, he, _⟩ := lexOne_nat 0 n (by omega) r hr
      refine ⟨c, cs, he, fun pos => ?_⟩
      obtain ⟨c', cs', he', h'⟩ := lexOne_nat pos n (by omega) r hr
      rw [he] at he'
      injection he' with e1 e2
      rw [e1, e2]; exact h'
    | negSucc n =>
      have h1 : -2147483647 ≤ Int.negSucc n := h1
      exact ⟨'-', Nat.toDigits 10 (n + 1), rfl, fun pos => lexOne_neg pos n (by omega) r hr⟩
  | literal v =>
    exact ⟨'`', _, rfl, fun pos => lexOne_literal pos v ht.1 ht.2 r⟩
  | eof => exact absurd ht (by simp [Tok.Spellable])
  | _ =>
    refine ⟨_, _, rfl, fun pos => ?_⟩
    rcases hr with rfl | ⟨r', rfl⟩ <;> simp [Lexer.lexOne, Lexer.isIdStart]

/-- a space is skipped -/
theorem lexOne_space (pos : Nat) (r : List Char) : Lexer.lexOne pos ' ' r = .ok (none, r) := by
  simp [Lexer.lexOne, Lexer.isIdStart, Lexer.isDigit, Lexer.isWs]

theorem spellTok_length_pos (t : Tok) (ht : t.Spellable) : 1 ≤ (spellTok t).length := by
  obtain ⟨c, cs, h, _⟩ := lexOne_spell t ht [] Sep.nil
  simp [h]

/-! ### the loop -/

theorem loop_spell (total : Nat) : ∀ (ts : List Tok), (∀ t ∈ ts, t.Spellable) →
    ∀ (fuel : Nat) (acc : List (Nat × Tok)), (spellToks ts).length + 1 ≤ fuel →
    ∃ mid, Lexer.loop total fuel (spellToks ts) acc = .ok (acc.reverse ++ mid ++ [(total, Tok.eof)]) ∧
      tk mid = ts
  | [], _, fuel, acc, hf => by
    obtain ⟨f, rfl⟩ : ∃ f, fuel = f + 1 := ⟨fuel - 1, by omega⟩
    exact ⟨[], by simp [spellToks, Lexer.loop], rfl⟩
  | [t], h, fuel, acc, hf => by
    obtain ⟨c, cs, he, hl⟩ := lexOne_spell t (h t (by simp)) [] Sep.nil
    simp only [spellToks, he, List.length_cons] at hf ⊢
    obtain ⟨f, rfl⟩ : ∃ f, fuel = f + 2 := ⟨fuel - 2, by omega⟩
    have hl' := hl (total - Lexer.utf8Len (c :: cs))
    rw [List.append_nil] at hl'
    refine ⟨[(total - Lexer.utf8Len (c :: cs), t)], ?_, rfl⟩
    rw [Lexer.loop]
    simp only [hl']
    simp [Lexer.loop]
  | t :: t' :: ts, h, fuel, acc, hf => by
    obtain ⟨c, cs, he, hl⟩ := lexOne_spell t (h t (by simp)) (' ' :: spellToks (t' :: ts)) (Sep.space _)
    have hs : spellToks (t :: t' :: ts) = c :: (cs ++ ' ' :: spellToks (t' :: ts)) := by
      simp [spellToks, he]
    rw [hs] at hf ⊢
    simp only [List.length_cons, List.length_append] at hf
    obtain ⟨f, rfl⟩ : ∃ f, fuel = f + 2 := ⟨fuel - 2, by omega⟩
    obtain ⟨mid, hm, htk⟩ := loop_spell total (t' :: ts) (fun x hx => h x (by simp [hx])) f
      ((total - Lexer.utf8Len (c :: (cs ++ ' ' :: spellToks (t' :: ts))), t) :: acc) (by omega)
    refine ⟨(total - Lexer.utf8Len (c :: (cs ++ ' ' :: spellToks (t' :: ts))), t) :: mid, ?_, by
      simp [tk] at htk ⊢; exact htk⟩
    rw [Lexer.loop]
    simp only [hl]
    rw [Lexer.loop]
    simp only [lexOne_space]
    rw [hm]
    simp

end LexSpell
open LexSpell

/-- **Every list of writable tokens has a spelling that lexes back to it.** -/
theorem lex_spell (ts : List Tok) (h : ∀ t ∈ ts, t.Spellable) :
    ∃ ps : List (Nat × Tok), tokenize (spellToks ts) = .ok ps ∧ tk ps = ts ++ [.eof] := by
  obtain ⟨mid, hm, htk⟩ := loop_spell (Lexer.utf8Len (spellToks ts)) ts h ((spellToks ts).length + 1) []
    (Nat.le_refl _)
  refine ⟨mid ++ [(Lexer.utf8Len (spellToks ts), Tok.eof)], by simpa [tokenize] using hm, ?_⟩
  simp [tk] at htk ⊢
  exact htk

end JmesVerif


/-! ### non-vacuity -/
example : (JmesVerif.Tok.identifier "foo_1").Spellable := ⟨'f', "oo_1".toList, rfl, by decide, by decide⟩
example : JmesVerif.spellToks [.identifier "a", .lbracket, .number (-12), .rbracket, .gte, .quotedIdentifier "b c"]
    = "a [ -12 ] >= \"b c\"".toList := by decide

#print axioms JmesVerif.LexSpell.lexOne_spell
#print axioms JmesVerif.lex_spell
