import JmesVerif.Lemmas.LexTable
/-!
The dispatch table read as a SET of (range, action) entries.

The arms of `match ch { … }` in `Lexer::tokenize` have pairwise disjoint patterns, so neither the order of the arms nor the
way character alternatives are grouped into `|` patterns matters for what the `match` does.  This file makes that precise:

* `flatArms`          — one entry per character range (an arm `r₁ | r₂ | r₃ => act` gives three entries with the same action);
* `actOfFlat`         — first matching entry, `.invalid` when none;
* `rangesDisjoint`    — decidable check: the ranges of the entries are pairwise disjoint;
* `actOf_eq_flat`     — looking up the arms = looking up the flattened entries;
* `actOfFlat_perm`    — for pairwise disjoint ranges the lookup does not depend on the order of the entries;
* `actOf_perm_of_flat`— hence two tables whose flattened entries are permutations of one another (one of them disjoint)
                        dispatch every character the same way.
-/
namespace JmesVerif

/-- one character range (inclusive) with the action of the arm it belongs to -/
abbrev FlatArm := (Char × Char) × LexAct

def FlatArm.covers (e : FlatArm) (c : Char) : Bool := e.1.1 ≤ c && c ≤ e.1.2

/-- one entry per range, in table order -/
def flatArms (t : List LexArm) : List FlatArm := t.flatMap fun a => a.1.map fun r => (r, a.2)

/-- first matching entry, `invalid` when none matches -/
def actOfFlat (l : List FlatArm) (c : Char) : LexAct :=
  match l.find? (·.covers c) with
  | some e => e.2
  | none => .invalid

/-- two inclusive ranges have no character in common (sufficient check: one ends before the other starts) -/
def rangeDisj (r₁ r₂ : Char × Char) : Bool := r₁.2 < r₂.1 || r₂.2 < r₁.1

/-- the ranges of the entries are pairwise disjoint -/
def rangesDisjoint : List FlatArm → Bool
  | [] => true
  | e :: l => l.all (fun e' => rangeDisj e.1 e'.1) && rangesDisjoint l

/-! ## flattening keeps the lookup -/

theorem flatArms_nil : flatArms [] = [] := rfl

theorem flatArms_cons (a : LexArm) (t : List LexArm) :
    flatArms (a :: t) = a.1.map (fun r => (r, a.2)) ++ flatArms t := by
  simp [flatArms]

theorem actOfFlat_nil (c : Char) : actOfFlat [] c = .invalid := rfl

theorem actOfFlat_cons (e : FlatArm) (l : List FlatArm) (c : Char) :
    actOfFlat (e :: l) c = if e.covers c = true then e.2 else actOfFlat l c := by
  unfold actOfFlat
  rw [List.find?_cons]
  cases e.covers c <;> simp

theorem ite_or_bool {α : Type} (b b' : Bool) (x y : α) :
    (if b = true then x else if b' = true then x else y) = if (b || b') = true then x else y := by
  cases b <;> cases b' <;> rfl

theorem actOfFlat_map_append (rs : List (Char × Char)) (act : LexAct) (rest : List FlatArm) (c : Char) :
    actOfFlat (rs.map (fun r => (r, act)) ++ rest) c =
      if LexArm.covers (rs, act) c = true then act else actOfFlat rest c := by
  induction rs with
  | nil => simp [LexArm.covers]
  | cons r rs ih =>
    rw [List.map_cons, List.cons_append, actOfFlat_cons, ih]
    have hc : LexArm.covers (r :: rs, act) c = (FlatArm.covers (r, act) c || LexArm.covers (rs, act) c) := rfl
    rw [hc, ite_or_bool]

/-- looking up the arms is looking up their ranges one by one: the grouping of ranges into arms does not matter -/
theorem actOf_eq_flat (arms : List LexArm) (c : Char) : actOf arms c = actOfFlat (flatArms arms) c := by
  induction arms with
  | nil => rfl
  | cons a t ih =>
    obtain ⟨rs, act⟩ := a
    rw [actOf_cons, flatArms_cons, actOfFlat_map_append, ih]

/-! ## disjoint ranges: the order does not matter -/

theorem rangeDisj_symm (r₁ r₂ : Char × Char) : rangeDisj r₁ r₂ = rangeDisj r₂ r₁ := by
  simp [rangeDisj, Bool.or_comm]

/-- disjoint ranges do not cover the same character -/
theorem not_covers_of_rangeDisj {e₁ e₂ : FlatArm} {c : Char} (hd : rangeDisj e₁.1 e₂.1 = true)
    (h₁ : e₁.covers c = true) (h₂ : e₂.covers c = true) : False := by
  simp only [FlatArm.covers, Bool.and_eq_true, decide_eq_true_eq] at h₁ h₂
  simp only [rangeDisj, Bool.or_eq_true, decide_eq_true_eq] at hd
  obtain ⟨a₁, b₁⟩ := h₁
  obtain ⟨a₂, b₂⟩ := h₂
  rcases hd with hd | hd
  · exact Char.not_le.mpr hd (Char.le_trans a₂ b₁)
  · exact Char.not_le.mpr hd (Char.le_trans a₁ b₂)

theorem rangesDisjoint_iff (l : List FlatArm) :
    rangesDisjoint l = true ↔ l.Pairwise (fun e e' => rangeDisj e.1 e'.1 = true) := by
  induction l with
  | nil => simp [rangesDisjoint]
  | cons e l ih => simp [rangesDisjoint, List.pairwise_cons, ih]

/-- among pairwise disjoint entries, the entries covering a given character are all the same entry -/
theorem covers_unique {l : List FlatArm} (hl : rangesDisjoint l = true) {e e' : FlatArm} {c : Char}
    (he : e ∈ l) (he' : e' ∈ l) (hc : e.covers c = true) (hc' : e'.covers c = true) : e = e' := by
  induction l with
  | nil => cases he
  | cons x l ih =>
    simp only [rangesDisjoint, Bool.and_eq_true, List.all_eq_true] at hl
    obtain ⟨hx, hl⟩ := hl
    rcases List.mem_cons.mp he with h₁ | h₁
    · rcases List.mem_cons.mp he' with h₂ | h₂
      · rw [h₁, h₂]
      · subst h₁; exact (not_covers_of_rangeDisj (hx _ h₂) hc hc').elim
    · rcases List.mem_cons.mp he' with h₂ | h₂
      · subst h₂; exact (not_covers_of_rangeDisj (hx _ h₁) hc' hc).elim
      · exact ih hl h₁ h₂

/-- the lookup finds an entry of the list that covers the character, or nothing when none does -/
theorem actOfFlat_cases (l : List FlatArm) (c : Char) :
    (∃ e ∈ l, e.covers c = true ∧ actOfFlat l c = e.2) ∨
    ((∀ e ∈ l, e.covers c = false) ∧ actOfFlat l c = .invalid) := by
  unfold actOfFlat
  cases h : l.find? (·.covers c) with
  | some e => exact .inl ⟨e, List.mem_of_find?_eq_some h, by simpa using List.find?_some h, rfl⟩
  | none =>
    refine .inr ⟨fun e he => ?_, rfl⟩
    have := List.find?_eq_none.mp h e he
    simpa using this

/-- for pairwise disjoint ranges at most one entry covers a character, so first-match does not depend on the order -/
theorem actOfFlat_perm {l₁ l₂ : List FlatArm} (hd : rangesDisjoint l₁ = true) (hp : l₁.Perm l₂) (c : Char) :
    actOfFlat l₁ c = actOfFlat l₂ c := by
  rcases actOfFlat_cases l₁ c with ⟨e₁, m₁, c₁, h₁⟩ | ⟨n₁, h₁⟩ <;>
    rcases actOfFlat_cases l₂ c with ⟨e₂, m₂, c₂, h₂⟩ | ⟨n₂, h₂⟩
  · rw [h₁, h₂, covers_unique hd m₁ (hp.mem_iff.mpr m₂) c₁ c₂]
  · have := n₂ e₁ (hp.mem_iff.mp m₁)
    rw [c₁] at this; cases this
  · have := n₁ e₂ (hp.mem_iff.mpr m₂)
    rw [c₂] at this; cases this
  · rw [h₁, h₂]

/-- **Order and grouping of the arms do not matter.** Two tables whose (range, action) entries are the same up to order —
the first one's ranges being pairwise disjoint — dispatch every character to the same action. -/
theorem actOf_perm_of_flat {t₁ t₂ : List LexArm} (hd : rangesDisjoint (flatArms t₁) = true)
    (hp : (flatArms t₁).Perm (flatArms t₂)) (c : Char) : actOf t₁ c = actOf t₂ c := by
  rw [actOf_eq_flat, actOf_eq_flat]; exact actOfFlat_perm hd hp c

/-- pairwise disjointness is a property of the set of entries -/
theorem rangesDisjoint_perm {l₁ l₂ : List FlatArm} (hp : l₁.Perm l₂) : rangesDisjoint l₁ = rangesDisjoint l₂ := by
  rw [Bool.eq_iff_iff, rangesDisjoint_iff, rangesDisjoint_iff]
  exact hp.pairwise_iff (fun {a b} h => by rw [rangeDisj_symm]; exact h)

/-! ## `consume_lbracket`: the alternatives after `[` -/

/-- first alternative for the next character -/
def altOf (alts : List (Char × String)) (c : Char) : Option String := (alts.find? (·.1 == c)).map (·.2)

/-- the alternatives' characters are pairwise different -/
def altsDistinct (alts : List (Char × String)) : Bool := (alts.map (·.1)).Nodup

theorem altOf_perm_aux {l₁ l₂ : List (Char × String)} (hp : l₁.Perm l₂) (c : Char)
    (hd : (l₁.map (·.1)).Nodup) : altOf l₁ c = altOf l₂ c := by
  induction hp with
  | nil => rfl
  | cons x _ ih =>
    rw [List.map_cons, List.nodup_cons] at hd
    simp only [altOf, List.find?_cons] at ih ⊢
    cases x.1 == c <;> simp [ih hd.2]
  | swap x y l =>
    simp only [List.map_cons, List.nodup_cons, List.mem_cons, not_or] at hd
    have hne : y.1 ≠ x.1 := hd.1.1
    simp only [altOf, List.find?_cons]
    cases hx : x.1 == c <;> cases hy : y.1 == c <;> simp
    exact (hne ((beq_iff_eq.mp hy).trans (beq_iff_eq.mp hx).symm)).elim
  | trans p₁ _ ih₁ ih₂ =>
    exact (ih₁ hd).trans (ih₂ ((p₁.map _).nodup_iff.mp hd))

/-- with pairwise different characters the order of the alternatives does not matter -/
theorem altOf_perm {l₁ l₂ : List (Char × String)} (hd : altsDistinct l₁ = true) (hp : l₁.Perm l₂) (c : Char) :
    altOf l₁ c = altOf l₂ c :=
  altOf_perm_aux hp c (by simpa [altsDistinct] using hd)

end JmesVerif

#print axioms JmesVerif.actOf_eq_flat
#print axioms JmesVerif.actOfFlat_perm
#print axioms JmesVerif.actOf_perm_of_flat
#print axioms JmesVerif.rangesDisjoint_perm
#print axioms JmesVerif.altOf_perm
