import JmesVerif.Lemmas.ParserMono
/-!
T2 (completeness): every `Legal` concrete syntax tree is what the parser returns on its yield.
Proof: strong induction on the fuel, with explicit size functions bounding the fuel needed.
-/
namespace JmesVerif
open Parser

/-! ### sizes (fuel needed) -/
mutual
def Nud.size : Nud → Nat
  | .call _ args => argsSize args + 3
  | .star r => r.size + 3
  | .idx _ => 3
  | .slice _ r => r.size + 3
  | .wildIdx r => r.size + 3
  | .mlist es => argsSize es + 3
  | .flatten r => r.size + 3
  | .mhash kvs => kvsSize kvs + 3
  | .not e => e.size + 3
  | .filter p r => p.size + r.size + 3
  | .paren e => e.size + 3
  | .expref e => e.size + 3
  | _ => 3
def Led.size : Led → Nat
  | .dotStar r => r.size + 3
  | .dot d => d.size + 3
  | .index _ => 3
  | .sliceL _ r => r.size + 3
  | .wildIdxL r => r.size + 3
  | .or e => e.size + 3
  | .and e => e.size + 3
  | .pipe e => e.size + 3
  | .cmp _ e => e.size + 3
  | .flattenL r => r.size + 3
  | .filterL p r => p.size + r.size + 3
  | .callDev args => argsSize args + 3
def Rhs.size : Rhs → Nat
  | .none => 1
  | .dot d => d.size + 1
  | .bracket e => e.size + 1
def DotRhs.size : DotRhs → Nat
  | .mlist es => argsSize es + 3
  | .expr e => e.size + 1
def Expr.size : Expr → Nat
  | .mk h ls => h.size + ledsSize ls + 1
def ledsSize : List Led → Nat
  | [] => 1
  | l :: ls => l.size + ledsSize ls + 1
def argsSize : List Expr → Nat
  | [] => 1
  | e :: es => e.size + argsSize es + 1
def kvsSize : List (Bool × String × Expr) → Nat
  | [] => 1
  | (_, _, e) :: r => e.size + kvsSize r + 1
end

/-! ### token-list helpers -/

theorem tk_cons_inv {ts : List PT} {t : Tok} {rest : List Tok} (h : tk ts = t :: rest) :
    ∃ p ts₁, ts = (p, t) :: ts₁ ∧ tk ts₁ = rest := by
  cases ts with
  | nil => simp at h
  | cons pt r =>
    obtain ⟨p, t'⟩ := pt
    simp only [tk_cons, List.cons.injEq] at h
    obtain ⟨rfl, h⟩ := h
    exact ⟨p, r, rfl, h⟩

theorem Tok.lbp_le (t : Tok) : t.lbp ≤ 60 := by cases t <;> simp [Tok.lbp]

@[simp] theorem peekL_cons (t : Tok) (r : List Tok) : peekL (t :: r) = t := rfl
@[simp] theorem peekL_nil : peekL [] = .eof := rfl

/-- tokens that can start an expression -/
def Tok.nudStart : Tok → Bool
  | .at | .identifier _ | .quotedIdentifier _ | .literal _ | .star | .lbracket | .flatten | .lbrace
  | .not | .filter | .lparen | .ampersand => true
  | _ => false

theorem SliceHdr.toks_first (h : SliceHdr) (r : List Tok) :
    (∃ n rest, h.toks ++ r = .number n :: rest) ∨ (∃ rest, h.toks ++ r = .colon :: rest) := by
  obtain ⟨a, b, c⟩ := h
  cases a <;> simp [SliceHdr.toks, optNumToks]

theorem Nud.toks_first (h : Nud) : ∃ t rest, h.toks = t :: rest ∧ t.nudStart = true := by
  cases h <;> simp [Nud.toks, Tok.nudStart]

theorem Expr.toks_first (e : Expr) : ∃ t rest, e.toks = t :: rest ∧ t.nudStart = true := by
  obtain ⟨h, ls⟩ := e
  obtain ⟨t, rest, h1, h2⟩ := h.toks_first
  exact ⟨t, rest ++ ledsToks ls, by simp [Expr.toks, h1], h2⟩

theorem Led.toks_first (l : Led) : ∃ t rest, l.toks = t :: rest ∧ t.lbp = l.lbp ∧
    (t = .lparen → l.isCallDev = true) ∧ t ≠ .rbracket := by
  cases l with
  | cmp o e => cases o <;> simp [Led.toks, Led.lbp, Tok.lbp, cmpTok]
  | _ => simp [Led.toks, Led.lbp, Tok.lbp, Led.isCallDev]

theorem peek_led (l : Led) (r : List Tok) : (peekL (l.toks ++ r)).lbp = l.lbp := by
  obtain ⟨t, rest, h1, h2, _⟩ := l.toks_first
  simp [h1, h2]

theorem stop_leds (fo : Nat) (ls : List Led) (r0 : List Tok) (rbp : Nat)
    (hc : chain rbp fo ls) (hs : (peekL r0).lbp ≤ ledsFollow fo ls) :
    (peekL (ledsToks ls ++ r0)).lbp ≤ fo := by
  cases ls with
  | nil => simpa [ledsToks, ledsFollow] using hs
  | cons l' ls' =>
    simp only [chain] at hc
    simp only [ledsToks, List.append_assoc, peek_led]
    exact hc.2.1

/-! ### the statements -/

def IsFieldAst (a : Ast) : Prop := ∃ o nm, a = Ast.field o nm

def Nud.isCall : Nud → Bool
  | .call _ _ => true
  | _ => false
def Nud.isQfield : Nud → Bool
  | .qfield _ => true
  | _ => false
def Nud.isParen : Nud → Bool
  | .paren _ => true
  | _ => false

def noCallDev (ls : List Led) : Prop := ∀ l ∈ ls, l.isCallDev = false

/-- the `callDevOk` side condition as the loop sees it (`left` = tree built so far) -/
def cdOk (h : Nud) (left : Ast) : List Led → Prop
  | [] => True
  | l :: ls => (l.isCallDev = true → h.isParen = true ∧ IsFieldAst left) ∧ noCallDev ls

def closeTok_m (paren : Bool) : Tok := if paren then .rparen else .rbracket

structure Comp (n : Nat) : Prop where
  expr : ∀ (e : Expr) (rbp : Nat) (ts : List PT) (r0 : List Tok) (off : Nat),
    e.size ≤ n → e.Legal rbp → rbp < 60 → tk ts = e.toks ++ r0 →
    (peekL r0).lbp ≤ rbp → (peekL r0).lbp ≤ e.follow →
    ∃ a ts' off', Parser.expr n rbp ts off = .ok ((e, a), ts', off') ∧ tk ts' = r0 ∧
      (e.isField = true → IsFieldAst a)
  loop : ∀ (ls : List Led) (rbp fo : Nat) (h : Nud) (acc : List Led) (left : Ast) (ts : List PT)
    (r0 : List Tok) (off : Nat),
    ledsSize ls ≤ n → chain rbp fo ls → cdOk h left ls → tk ts = ledsToks ls ++ r0 →
    (peekL r0).lbp ≤ rbp → (peekL r0).lbp ≤ ledsFollow fo ls →
    ∃ a ts' off', Parser.loop n rbp h acc left ts off = .ok ((.mk h (acc ++ ls), a), ts', off') ∧
      tk ts' = r0 ∧ (ls = [] → a = left)
  nud : ∀ (h : Nud) (ts : List PT) (r0 : List Tok) (off : Nat),
    h.size ≤ n → h.Legal → h.isCall = false → tk ts = h.toks ++ r0 →
    (peekL r0).lbp ≤ h.follow → (h.isQfield = true → peekL r0 ≠ .lparen) →
    ∃ a ts' off', Parser.nud n ts off = .ok ((h, a), ts', off') ∧ tk ts' = r0 ∧
      ((Expr.mk h []).isField = true → IsFieldAst a)
  led : ∀ (l : Led) (left : Ast) (ts : List PT) (r0 : List Tok) (off : Nat),
    l.size ≤ n → l.Legal → l.isCallDev = false → tk ts = l.toks ++ r0 →
    (peekL r0).lbp ≤ l.follow →
    ∃ a ts' off', Parser.led n left ts off = .ok ((l, a), ts', off') ∧ tk ts' = r0
  rhs : ∀ (r : Rhs) (k : Nat) (ts : List PT) (r0 : List Tok) (off : Nat),
    r.size ≤ n → r.Legal k → k < 60 → tk ts = r.toks ++ r0 → (peekL r0).lbp ≤ r.follow k →
    ∃ a ts' off', Parser.projRhs n k ts off = .ok ((r, a), ts', off') ∧ tk ts' = r0
  dot : ∀ (d : DotRhs) (k : Nat) (ts : List PT) (r0 : List Tok) (off : Nat),
    d.size ≤ n → d.Legal k → k < 60 → tk ts = d.toks ++ r0 → (peekL r0).lbp ≤ d.follow k →
    ∃ a ts' off', Parser.parseDot n k ts off = .ok ((d, a), ts', off') ∧ tk ts' = r0
  args : ∀ (e : Expr) (es : List Expr) (paren : Bool) (ts : List PT) (r0 : List Tok) (off : Nat)
    (acc : List Expr) (aacc : List Ast),
    argsSize (e :: es) ≤ n → argsLegal (e :: es) →
    tk ts = argsToks (e :: es) ++ closeTok_m paren :: r0 →
    ∃ as ts' off', Parser.parseList n paren ts off acc aacc = .ok ((acc ++ e :: es, as), ts', off') ∧
      tk ts' = r0
  kvs : ∀ (kv : Bool × String × Expr) (kvs : List (Bool × String × Expr)) (ts : List PT)
    (r0 : List Tok) (off : Nat) (acc : List (Bool × String × Expr)) (aacc : List (String × Ast)),
    kvsSize (kv :: kvs) ≤ n → kvsLegal (kv :: kvs) →
    tk ts = kvsToks (kv :: kvs) ++ .rbrace :: r0 →
    ∃ as ts' off', Parser.kvps n ts off acc aacc = .ok ((acc ++ kv :: kvs, as), ts', off') ∧
      tk ts' = r0

end JmesVerif
