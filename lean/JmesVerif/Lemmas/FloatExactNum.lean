import JmesVerif.Lemmas.F64Spec
import JmesVerif.Model.JsonText
import JmesVerif.Model.JsonPrint
/-!
# The JSON number parser is correctly rounded on the exact domain

`f64FromParts positive S E` (serde_json's `f64_from_parts`, the default algorithm without
`float_roundtrip`) computes `(S as f64) * 10^E` or `(S as f64) / 10^|E|`.  When `S ≤ 2^53` and
`|E| ≤ 22` both operands are exact doubles, so the single rounding of the multiplication / division is
the only rounding: the result is the IEEE round-to-nearest-even image of the exact rational
`S · 10^E` (`f64FromParts_exact`).
-/
namespace JmesVerif
namespace FloatExact
open F64

/-! ### decimal powers as rationals (`JsonPrint.pow10`) -/

theorem p10_eq_zpow (e : Int) : JsonPrint.pow10 e = (10 : Rat) ^ e := by
  unfold JsonPrint.pow10
  split
  · rename_i h
    obtain ⟨n, rfl⟩ := Int.eq_ofNat_of_zero_le h
    simp [Rat.zpow_natCast]
  · rename_i h
    obtain ⟨n, hn⟩ : ∃ n : Nat, e = -(n : Int) := ⟨(-e).toNat, by omega⟩
    subst hn
    rw [Rat.zpow_neg, Rat.zpow_natCast]
    simp [Rat.div_def]

theorem p10_pos (e : Int) : 0 < JsonPrint.pow10 e := by
  rw [p10_eq_zpow]; exact Rat.zpow_pos (by decide)

theorem p10_add (a b : Int) : JsonPrint.pow10 (a + b) = JsonPrint.pow10 a * JsonPrint.pow10 b := by
  simp only [p10_eq_zpow]; exact Rat.zpow_add (by decide) a b

theorem p10_natCast (n : Nat) : JsonPrint.pow10 (n : Int) = ((10 ^ n : Nat) : Rat) := by
  simp [JsonPrint.pow10]

theorem p10_zero : JsonPrint.pow10 0 = 1 := by simp [JsonPrint.pow10]

theorem p10_neg_mul (e : Int) : JsonPrint.pow10 (-e) * JsonPrint.pow10 e = 1 := by
  rw [← p10_add, Int.add_left_neg, p10_zero]

theorem p10_ne_zero (e : Int) : JsonPrint.pow10 e ≠ 0 := by
  have := p10_pos e; grind

theorem p10_neg (e : Int) : JsonPrint.pow10 (-e) = 1 / JsonPrint.pow10 e := by
  have h := p10_neg_mul e
  have hp := p10_ne_zero e
  have := Rat.mul_div_cancel (a := JsonPrint.pow10 (-e)) (b := JsonPrint.pow10 e) hp
  rw [h] at this; exact this.symm

theorem div_p10 (x : Rat) (e : Int) : x / JsonPrint.pow10 e = x * JsonPrint.pow10 (-e) := by
  rw [p10_neg, Rat.div_def, Rat.div_def, Rat.one_mul]

theorem p10_le_p10 {a b : Int} (h : a ≤ b) : JsonPrint.pow10 a ≤ JsonPrint.pow10 b := by
  obtain ⟨n, rfl⟩ : ∃ n : Nat, b = a + n := ⟨(b - a).toNat, by omega⟩
  rw [p10_add, p10_natCast]
  have h1 : (1 : Rat) ≤ ((10 ^ n : Nat) : Rat) := by
    have : 1 ≤ 10 ^ n := Nat.one_le_pow _ _ (by decide)
    exact_mod_cast this
  have := Rat.mul_le_mul_of_nonneg_left h1 (Rat.le_of_lt (p10_pos a))
  simpa using this

/-! ### the parser's table of powers of ten is exact up to `10^22` -/

theorem absq_natCast (n : Nat) : absq (n : Rat) = (n : Rat) := by
  have := absq_intCast (n : Int)
  simpa [Rat.intCast_natCast] using this

/-- `10^k = 5^k · 2^k` with `5^22 < 2^53` -/
theorem representable_pow10 {k : Nat} (hk : k ≤ 22) : Representable ((10 ^ k : Nat) : Rat) := by
  refine ⟨5 ^ k, (k : Int), ?_, by omega, by omega, ?_⟩
  · calc 5 ^ k ≤ 5 ^ 22 := Nat.pow_le_pow_right (by decide) hk
      _ < 2 ^ 53 := by decide
  · rw [absq_natCast, nat_mul_pow2, ← Nat.mul_pow]

/-- the entries `POW10[0..=22]` of the parser's table are exact -/
theorem pow10_exact {k : Nat} (hk : k ≤ 22) :
    (JsonText.pow10 k).isFinite ∧ (JsonText.pow10 k).toRat = ((10 ^ k : Nat) : Rat) :=
  ofRat_exact (representable_pow10 hk)

theorem ofRat_isNeg_of_nonneg {q : Rat} (h : 0 ≤ q) : (ofRat q).isNeg = false := by
  have hq : ¬ q < 0 := by grind
  unfold ofRat
  split <;> simp [isNeg, hq]

theorem pow10_isNeg (k : Nat) : (JsonText.pow10 k).isNeg = false :=
  ofRat_isNeg_of_nonneg Rat.natCast_nonneg

theorem ofNat_isNeg (n : Nat) : (F64.ofNat n).isNeg = false :=
  ofRat_isNeg_of_nonneg Rat.natCast_nonneg

theorem pow10_isZero {k : Nat} (hk : k ≤ 22) : (JsonText.pow10 k).isZero = false := by
  cases hz : (JsonText.pow10 k).isZero with
  | false => rfl
  | true =>
    have := toRat_of_isZero hz
    rw [(pow10_exact hk).2] at this
    have h0 : 10 ^ k = 0 := by exact_mod_cast this
    have : 0 < 10 ^ k := Nat.pow_pos (by decide)
    omega

theorem ofRat_of_nonneg {q : Rat} (h : 0 ≤ q) : ofRat q = ofRatSigned false q := by
  have hq : ¬ q < 0 := by grind
  rw [ofRat_eq_ofRatSigned]; simp [hq]

/-- a bound that keeps every product on the exact domain far below the overflow threshold -/
theorem small_lt_threshold {x : Rat} (h : x ≤ ((2 ^ 64 * 10 ^ 22 : Nat) : Rat)) :
    x < pow2 1024 - pow2 970 := by
  have h1 : (((2 ^ 64 * 10 ^ 22 : Nat) : Nat) : Rat) ≤ ((2 ^ 138 : Nat) : Rat) := by
    have : 2 ^ 64 * 10 ^ 22 ≤ 2 ^ 138 := by decide
    exact_mod_cast this
  rw [← pow2_natCast] at h1
  have h2 : pow2 (138 : Nat) ≤ pow2 1023 := pow2_le_pow2 (by decide)
  have h3 : pow2 970 < pow2 1023 := pow2_lt_pow2 (by decide)
  have h4 : pow2 1024 = 2 * pow2 1023 := pow2_succ 1023
  have h5 := pow2_pos 970
  grind

theorem ofNat_isFinite {S : Nat} (hb : S ≤ 2 ^ 64) : (F64.ofNat S).isFinite = true := by
  unfold F64.ofNat
  rw [ofRat_eq_ofRatSigned, ofRatSigned_finite_iff, absq_natCast]
  apply small_lt_threshold
  have : S ≤ 2 ^ 64 * 10 ^ 22 := Nat.le_trans hb (Nat.le_mul_of_pos_right _ (by decide))
  exact_mod_cast this

/-- **the number parser is correctly rounded whenever the significand is itself a double**
(`(S as f64) = S`, e.g. every `S ≤ 2^53`) and the decimal exponent is within `±22`: `f64_from_parts`
returns the IEEE round-to-nearest-even image (`ofRatSigned_ieee`) of the exact rational `S · 10^E`,
negated for a negative literal. -/
theorem f64FromParts_exact_of_repr (positive : Bool) (S : Nat) (E : Int)
    (hS : (F64.ofNat S).toRat = (S : Rat)) (hb : S ≤ 2 ^ 64) (hE : E.natAbs ≤ 22) :
    JsonText.f64FromParts positive S E =
      some (if positive then ofRatSigned false ((S : Rat) * JsonPrint.pow10 E)
            else (ofRatSigned false ((S : Rat) * JsonPrint.pow10 E)).neg) := by
  have hS' : (F64.ofNat S).isFinite = true ∧ (F64.ofNat S).toRat = (S : Rat) := ⟨ofNat_isFinite hb, hS⟩
  have hP := pow10_exact hE
  have h308 : E.natAbs ≤ 308 := by omega
  by_cases hpos : E ≥ 0
  · obtain ⟨n, rfl⟩ := Int.eq_ofNat_of_zero_le hpos
    have hn : (n : Int).natAbs = n := by simp
    rw [hn] at hP hE
    have hmul : F64.mul (F64.ofNat S) (JsonText.pow10 n) =
        ofRatSigned false ((S : Rat) * JsonPrint.pow10 (n : Int)) := by
      rw [mul_eq_ofRatSigned _ _ hS'.1 hP.1, hS'.2, hP.2, ofNat_isNeg, pow10_isNeg, p10_natCast]
      rfl
    have hfin : (ofRatSigned false ((S : Rat) * JsonPrint.pow10 (n : Int))).isFinite = true := by
      rw [ofRatSigned_finite_iff]
      apply small_lt_threshold
      rw [p10_natCast, ← Rat.natCast_mul, absq_natCast]
      have : S * 10 ^ n ≤ 2 ^ 64 * 10 ^ 22 :=
        Nat.mul_le_mul hb (Nat.pow_le_pow_right (by decide) hE)
      exact_mod_cast this
    have h308' : n ≤ 308 := by omega
    simp only [JsonText.f64FromParts, JsonText.f64FromParts.go, hn, h308', if_true, hpos, hmul, hfin]
  · obtain ⟨n, hn⟩ : ∃ n : Nat, E = -(n : Int) := ⟨(-E).toNat, by omega⟩
    subst hn
    have hn : (-(n : Int)).natAbs = n := by simp
    rw [hn] at hP hE
    have hdiv : F64.div (F64.ofNat S) (JsonText.pow10 n) =
        ofRatSigned false ((S : Rat) * JsonPrint.pow10 (-(n : Int))) := by
      rw [div_eq_ofRatSigned _ _ hS'.1 hP.1 (pow10_isZero hE), hS'.2, hP.2, ofNat_isNeg, pow10_isNeg,
        ← p10_natCast, div_p10]
      rfl
    have h308' : n ≤ 308 := by omega
    simp only [JsonText.f64FromParts, JsonText.f64FromParts.go, hn, h308', if_true, hpos, if_false, hdiv]

/-- **the number parser is correctly rounded on the exact domain**: significand at most `2^53`,
decimal exponent within `±22` -/
theorem f64FromParts_exact (positive : Bool) (S : Nat) (E : Int) (hS : S ≤ 2 ^ 53)
    (hE : E.natAbs ≤ 22) :
    JsonText.f64FromParts positive S E =
      some (if positive then ofRatSigned false ((S : Rat) * JsonPrint.pow10 E)
            else (ofRatSigned false ((S : Rat) * JsonPrint.pow10 E)).neg) :=
  f64FromParts_exact_of_repr positive S E (ofNat_exact S hS).2
    (Nat.le_trans hS (Nat.pow_le_pow_right (by decide) (by decide))) hE

/-- … with the result written as `ofRat` (the value is non-negative) -/
theorem f64FromParts_exact_of_repr' (positive : Bool) (S : Nat) (E : Int)
    (hS : (F64.ofNat S).toRat = (S : Rat)) (hb : S ≤ 2 ^ 64) (hE : E.natAbs ≤ 22) :
    JsonText.f64FromParts positive S E =
      some (if positive then ofRat ((S : Rat) * JsonPrint.pow10 E)
            else (ofRat ((S : Rat) * JsonPrint.pow10 E)).neg) := by
  rw [f64FromParts_exact_of_repr positive S E hS hb hE,
    ofRat_of_nonneg (Rat.mul_nonneg Rat.natCast_nonneg (Rat.le_of_lt (p10_pos E)))]

/-- the same with the result written as `ofRat` (the value is non-negative) -/
theorem f64FromParts_exact' (positive : Bool) (S : Nat) (E : Int) (hS : S ≤ 2 ^ 53)
    (hE : E.natAbs ≤ 22) :
    JsonText.f64FromParts positive S E =
      some (if positive then ofRat ((S : Rat) * JsonPrint.pow10 E)
            else (ofRat ((S : Rat) * JsonPrint.pow10 E)).neg) := by
  rw [f64FromParts_exact positive S E hS hE,
    ofRat_of_nonneg (Rat.mul_nonneg Rat.natCast_nonneg (Rat.le_of_lt (p10_pos E)))]

end FloatExact
end JmesVerif

#print axioms JmesVerif.FloatExact.pow10_exact
#print axioms JmesVerif.FloatExact.f64FromParts_exact_of_repr
#print axioms JmesVerif.FloatExact.f64FromParts_exact
