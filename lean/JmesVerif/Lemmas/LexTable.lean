import JmesVerif.Model.LexTable
/-!
The lexer model follows the documented dispatch table.

* `lexOne_eq_table` — for every first character, `Lexer.lexOne` does exactly what the table says
  (first matching arm, default = invalid character).
* `whitespace_iff`, `invalid_iff` — the table's content made explicit.
-/
namespace JmesVerif

/-! ## the table as an if-chain -/

theorem actOf_nil (c : Char) : actOf [] c = .invalid := rfl

theorem actOf_cons (a : LexArm) (t : List LexArm) (c : Char) :
    actOf (a :: t) c = if a.covers c = true then a.2 else actOf t c := by
  unfold actOf
  rw [List.find?_cons]
  cases a.covers c <;> simp

/-- a one-character range covers exactly that character -/
theorem range_single (x c : Char) : (decide (x ≤ c) && decide (c ≤ x)) = decide (c = x) := by
  rw [Bool.eq_iff_iff]
  simp only [Bool.and_eq_true, decide_eq_true_eq]
  constructor
  · intro ⟨h1, h2⟩; exact Char.le_antisymm h2 h1
  · intro h; subst h; exact ⟨Char.le_refl _, Char.le_refl _⟩

theorem covers_single (x : Char) (a : LexAct) (c : Char) :
    LexArm.covers ([(x, x)], a) c = decide (c = x) := by
  simp only [LexArm.covers, List.any, Bool.or_false, range_single]

theorem covers_idStart (a : LexAct) (c : Char) :
    LexArm.covers ([('a', 'z'), ('A', 'Z'), ('_', '_')], a) c = Lexer.isIdStart c := by
  simp only [LexArm.covers, List.any, Bool.or_false, range_single, Lexer.isIdStart, Bool.or_assoc]

theorem covers_digit (a : LexAct) (c : Char) :
    LexArm.covers ([('0', '9')], a) c = Lexer.isDigit c := by
  simp only [LexArm.covers, List.any, Bool.or_false, Lexer.isDigit]

theorem covers_ws (a : LexAct) (c : Char) :
    LexArm.covers ([(' ', ' '), ('\n', '\n'), ('\t', '\t'), ('\r', '\r')], a) c = Lexer.isWs c := by
  simp only [LexArm.covers, List.any, Bool.or_false, range_single, Lexer.isWs, Bool.or_assoc]

/-- the table lookup, written as the if-chain it denotes -/
theorem actOf_doc (c : Char) :
    actOf lexArmsDoc c =
      if Lexer.isIdStart c = true then .call "consume_identifier"
      else if c = '.' then .single "Dot"
      else if c = '[' then .call "consume_lbracket"
      else if c = '*' then .single "Star"
      else if c = '|' then .alt '|' "Or" "Pipe"
      else if c = '@' then .single "At"
      else if c = ']' then .single "Rbracket"
      else if c = '{' then .single "Lbrace"
      else if c = '}' then .single "Rbrace"
      else if c = '&' then .alt '&' "And" "Ampersand"
      else if c = '(' then .single "Lparen"
      else if c = ')' then .single "Rparen"
      else if c = ',' then .single "Comma"
      else if c = ':' then .single "Colon"
      else if c = '"' then .call "consume_quoted_identifier"
      else if c = '\'' then .call "consume_raw_string"
      else if c = '`' then .call "consume_literal"
      else if c = '=' then .eqeq
      else if c = '>' then .alt '=' "Gte" "Gt"
      else if c = '<' then .alt '=' "Lte" "Lt"
      else if c = '!' then .alt '=' "Ne" "Not"
      else if Lexer.isDigit c = true then .call "consume_number"
      else if c = '-' then .call "consume_negative_number"
      else if Lexer.isWs c = true then .skip
      else .invalid := by
  simp only [lexArmsDoc, actOf_cons, actOf_nil, covers_single, covers_idStart, covers_digit,
    covers_ws, decide_eq_true_eq]

/-! ## the model follows the table -/

/-- two if-chains on the same test agree when their branches do -/
theorem ite_congr_runAct {p : Prop} [Decidable p] {x y : Except LexErr (Option Tok × List Char)}
    {a b : LexAct} {pos : Nat} {c : Char} {cs : List Char}
    (h1 : p → x = Lexer.runAct a pos c cs) (h2 : ¬p → y = Lexer.runAct b pos c cs) :
    (if p then x else y) = Lexer.runAct (if p then a else b) pos c cs := by
  by_cases h : p
  · rw [if_pos h, if_pos h]; exact h1 h
  · rw [if_neg h, if_neg h]; exact h2 h

theorem lexOne_eq_table (pos : Nat) (c : Char) (cs : List Char) :
    Lexer.lexOne pos c cs = Lexer.runAct (actOf lexArmsDoc c) pos c cs := by
  rw [actOf_doc]
  unfold Lexer.lexOne
  repeat' (first
    | rfl
    | (refine ite_congr_runAct ?_ ?_ <;> intro _))
  all_goals
    simp only [Lexer.runAct, tokOfName]
    split
    · simp
    · rename_i hne
      cases cs with
      | nil => rfl
      | cons d r =>
        have hd : ¬ d = _ := fun h => hne r (h ▸ rfl)
        simp only [if_neg hd]

/-! ## the table's content made explicit -/

theorem ite_eq_cases {α : Type} {p : Prop} [Decidable p] {a b x : α}
    (h : (if p then a else b) = x) : (p ∧ a = x) ∨ (¬p ∧ b = x) := by
  by_cases hp : p
  · rw [if_pos hp] at h; exact .inl ⟨hp, h⟩
  · rw [if_neg hp] at h; exact .inr ⟨hp, h⟩

theorem whitespace_iff (c : Char) :
    actOf lexArmsDoc c = .skip ↔ (c = ' ' ∨ c = '\n' ∨ c = '\t' ∨ c = '\r') := by
  constructor
  · intro h
    rw [actOf_doc] at h
    repeat' (replace h := ite_eq_cases h; obtain ⟨hc, h⟩ | ⟨_, h⟩ := h)
    all_goals first
      | (cases h; done)
      | simpa [Lexer.isWs, or_assoc] using hc
  · rintro (rfl | rfl | rfl | rfl) <;> rfl

/-- in a table none of whose arms is the default action, the lookup gives the default exactly when no arm covers the character -/
theorem actOf_invalid_iff (t : List LexArm) (ht : ∀ a ∈ t, a.2 ≠ .invalid) (c : Char) :
    actOf t c = .invalid ↔ t.all (fun a => !a.covers c) = true := by
  induction t with
  | nil => simp [actOf_nil]
  | cons a t ih =>
    have ha : a.2 ≠ .invalid := ht a (List.mem_cons_self ..)
    have ih' := ih (fun b hb => ht b (List.mem_cons_of_mem _ hb))
    rw [actOf_cons, List.all_cons]
    cases hc : a.covers c
    · simpa using ih'
    · simpa using ha

theorem invalid_iff (c : Char) :
    actOf lexArmsDoc c = .invalid ↔ lexArmsDoc.all (fun a => !a.covers c) = true :=
  actOf_invalid_iff lexArmsDoc (by decide) c

end JmesVerif

#print axioms JmesVerif.whitespace_iff
#print axioms JmesVerif.invalid_iff
#print axioms JmesVerif.lexOne_eq_table
