import JmesVerif.Lemmas.Builtins
import JmesVerif.Lemmas.F64Spec
/-!
# `sum` / `avg` on integers: the builtins meet the raw-fold lemmas of `F64Spec`

`F64Spec` states exactness of `List.foldl F64.add` and of `sum / length` on lists of doubles holding
integers; here those statements are transported to `Builtin.pure .sum` / `Builtin.pure .avg` applied
to a JSON array of integer numbers.
-/
namespace JmesVerif

open F64

/-- the JSON number holding an integer -/
def intVal (k : Int) : Val := .num (if 0 ≤ k then .pos k.toNat else .neg k)

/-- the double image of the JSON integer `k` -/
def intF64 (k : Int) : F64 := (if 0 ≤ k then Num.pos k.toNat else Num.neg k).toF64

theorem valNum_intVal (k : Int) : valNum (intVal k) = some (intF64 k) := rfl

theorem intF64_isInt (k : Int) (h : k.natAbs ≤ 2^53) : IsInt (intF64 k) k := by
  unfold intF64
  split
  · rename_i h0
    have := ofNat_exact k.toNat (by omega)
    have hk : ((k.toNat : Nat) : Rat) = (k : Rat) := by
      rw [← Rat.intCast_natCast, Int.toNat_of_nonneg h0]
    rw [hk] at this
    exact this
  · exact ofInt_exact k h

theorem nat_le_sum_of_mem {x : Nat} : ∀ {l : List Nat}, x ∈ l → x ≤ l.sum
  | [], h => by cases h
  | y :: l, h => by
    rw [List.sum_cons]
    rcases List.mem_cons.1 h with rfl | h
    · omega
    · have := nat_le_sum_of_mem h; omega

theorem natAbs_le_of_mem {ks : List Int} {B : Nat} (h : (ks.map Int.natAbs).sum ≤ B) {k : Int}
    (hk : k ∈ ks) : k.natAbs ≤ B :=
  Nat.le_trans (nat_le_sum_of_mem (List.mem_map_of_mem hk)) h

theorem natAbs_sum_le : ∀ ks : List Int, ks.sum.natAbs ≤ (ks.map Int.natAbs).sum
  | [] => by simp
  | k :: ks => by
    have := natAbs_sum_le ks
    simp only [List.sum_cons, List.map_cons]
    omega

theorem allInt_intF64 : ∀ ks : List Int, (∀ k ∈ ks, k.natAbs ≤ 2^53) → AllInt (ks.map intF64) ks
  | [], _ => .nil
  | k :: ks, h =>
    .cons (intF64_isInt k (h k (List.mem_cons_self ..)))
      (allInt_intF64 ks (fun k' hk' => h k' (List.mem_cons_of_mem _ hk')))

/-- `sum`'s accumulator over integer values is the raw fold over their double images -/
theorem sumF64_intVal (ks : List Int) : sumF64 (ks.map intVal) = (ks.map intF64).foldl F64.add F64.zero := by
  unfold sumF64
  rw [List.foldl_map, List.foldl_map]
  rfl

theorem allInt_of_bound (ks : List Int) (h : (ks.map Int.natAbs).sum ≤ 2^53) :
    AllInt (ks.map intF64) ks :=
  allInt_intF64 ks (fun _ hk => natAbs_le_of_mem h hk)

/-- the accumulator of `sum` over integers totalling at most 2^53 in absolute value holds the exact sum -/
theorem sumF64_ints (ks : List Int) (h : (ks.map Int.natAbs).sum ≤ 2^53) :
    IsInt (sumF64 (ks.map intVal)) ks.sum := by
  rw [sumF64_intVal]
  have := foldl_add_isInt (ks.map intF64) ks zero 0 isInt_zero (allInt_of_bound ks h) (by simpa using h)
  rw [Int.zero_add] at this
  exact this

/-- **sum is exact on integers**: as long as the absolute values total at most 2^53 (no rounding can occur) -/
theorem sum_ints (ks : List Int) (h : (ks.map Int.natAbs).sum ≤ 2^53) :
    ∃ r : F64, Builtin.pure .sum [.arr (ks.map intVal)] = .ok (.num (.flt r)) ∧
      r.toRat = ((ks.sum : Int) : Rat) := by
  have hs := sumF64_ints ks h
  refine ⟨sumF64 (ks.map intVal), ?_, hs.2⟩
  rw [sum_eq, numOfF64, if_pos hs.1]

theorem avg_ints_eq (ks : List Int) (hne : ks ≠ []) :
    Builtin.pure .avg [.arr (ks.map intVal)] =
      numOfF64 (F64.div ((ks.map intF64).foldl F64.add F64.zero) (F64.ofNat (ks.map intF64).length))
        "Expected to be a valid f64" := by
  rw [avg_nonempty _ (by simpa using hne), sumF64_intVal, List.length_map, List.length_map]

/-- the overflow threshold is far above 2^53 -/
theorem pow2_53_lt_overflow : pow2 53 < pow2 1024 - pow2 970 := by
  have h1 : pow2 1024 = 2 * pow2 1023 := pow2_succ 1023
  have h2 : pow2 970 ≤ pow2 1023 := pow2_le_pow2 (by decide)
  have h3 : pow2 53 < pow2 1023 := pow2_lt_pow2 (by decide)
  grind

/-- the mean of integers totalling at most 2^53 in absolute value is at most 2^53 in absolute value -/
theorem absq_mean_le (ks : List Int) (hne : ks ≠ []) (h : (ks.map Int.natAbs).sum ≤ 2^53) :
    absq (((ks.sum : Int) : Rat) / (ks.length : Rat)) ≤ pow2 53 := by
  have hlen : 0 < ks.length := List.length_pos_iff.2 hne
  have hL : (1 : Rat) ≤ (ks.length : Rat) := by exact_mod_cast hlen
  have hL0 : (0 : Rat) < (ks.length : Rat) := by exact_mod_cast hlen
  have hinv : (0 : Rat) < (ks.length : Rat)⁻¹ := Rat.inv_pos.2 hL0
  rw [Rat.div_def, absq_mul_pos _ hinv, absq_intCast]
  have hb : ((ks.sum.natAbs : Nat) : Rat) ≤ pow2 53 := by
    rw [show (53 : Int) = ((53 : Nat) : Int) from rfl, pow2_natCast]
    exact_mod_cast Nat.le_trans (natAbs_sum_le ks) h
  have h0 : (0 : Rat) ≤ ((ks.sum.natAbs : Nat) : Rat) := by exact_mod_cast Nat.zero_le _
  have hinv1 : (ks.length : Rat)⁻¹ ≤ 1 := by
    have : (ks.length : Rat)⁻¹ * (ks.length : Rat) = 1 := Rat.inv_mul_cancel _ (by grind)
    have h2 : (ks.length : Rat)⁻¹ * 1 ≤ (ks.length : Rat)⁻¹ * (ks.length : Rat) :=
      Rat.mul_le_mul_of_nonneg_left hL (Rat.le_of_lt hinv)
    grind
  have : ((ks.sum.natAbs : Nat) : Rat) * (ks.length : Rat)⁻¹ ≤ ((ks.sum.natAbs : Nat) : Rat) * 1 :=
    Rat.mul_le_mul_of_nonneg_left hinv1 h0
  grind

/-- **avg of integers is the correctly rounded exact mean** (and exact when the mean is an integer) -/
theorem avg_ints (ks : List Int) (hne : ks ≠ []) (h : (ks.map Int.natAbs).sum ≤ 2^53)
    (hl : ks.length ≤ 2^53) :
    ∃ r : F64, Builtin.pure .avg [.arr (ks.map intVal)] = .ok (.num (.flt r)) ∧
      F64.IEEERounded (((ks.sum : Int) : Rat) / (ks.length : Rat)) r := by
  have hlen : 0 < ks.length := List.length_pos_iff.2 hne
  have hr := avg_ieee (allInt_of_bound ks h) h (by simpa using hlen) (by simpa using hl)
  rw [show ((ks.map intF64).length : Rat) = (ks.length : Rat) by rw [List.length_map]] at hr
  refine ⟨_, ?_, hr⟩
  rw [avg_ints_eq ks hne, numOfF64, if_pos]
  have h1 := absq_mean_le ks hne h
  have h2 := pow2_53_lt_overflow
  exact hr.2.2.2 (by grind)

theorem avg_ints_exact (ks : List Int) (hne : ks ≠ []) (h : (ks.map Int.natAbs).sum ≤ 2^53)
    (hl : ks.length ≤ 2^53) (m : Int) (hm : ks.sum = m * ks.length) (hmb : m.natAbs ≤ 2^53) :
    ∃ r : F64, Builtin.pure .avg [.arr (ks.map intVal)] = .ok (.num (.flt r)) ∧ r.toRat = (m : Rat) := by
  have hlen : 0 < ks.length := List.length_pos_iff.2 hne
  have hr := avg_exact (allInt_of_bound ks h) h (by simpa using hlen) (by simpa using hl)
    (k := m) (by simpa using hm) hmb
  refine ⟨_, ?_, hr.2⟩
  rw [avg_ints_eq ks hne, numOfF64, if_pos hr.1]

/-- in general (any finite numbers) each step of `sum` is one IEEE rounding of the exact partial sum -/
theorem sum_step (acc : F64) (v : Val) (n : Num) (hv : v = .num n) (ha : acc.isFinite)
    (hn : n.toF64.isFinite) :
    F64.IEEERounded (acc.toRat + n.toF64.toRat) (F64.add acc ((valNum v).getD F64.zero)) := by
  subst hv
  exact add_ieee acc n.toF64 ha hn

end JmesVerif

#print axioms JmesVerif.sum_ints
#print axioms JmesVerif.avg_ints
#print axioms JmesVerif.avg_ints_exact
#print axioms JmesVerif.sum_step
#print axioms JmesVerif.sumF64_ints
